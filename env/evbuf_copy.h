/* evbuf_copy.h -- byte-loop models of memcpy/memmove/memchr/memcmp for payload copies.
 *
 * USAGE: include AFTER <string.h>-including env headers and BEFORE the libevent
 * unit (#include "buffer.c"); the unit's calls are redirected by macro.  The
 * harness itself may keep using the vp_* names.  Loop bounds: every loop below
 * runs at most n times; give cbmc  unwind >= (largest copy) + 1  either globally
 * or per loop (--unwindset vp_memcpy.0:K,vp_memmove.0:K,vp_memmove.1:K,
 * vp_memchr.0:K,vp_memcmp.0:K).  Unwinding assertions are on, so a too small K
 * is reported, never silently cut.
 *
 * WHY (DESIGN 3.3, measured): cbmc's built-in memcpy/memmove use array_copy /
 * array_replace over the whole object when n is symbolic -- a memory hog on
 * VP_OBJ-sized heap objects; plain byte loops stay field-sensitive.
 * memset is left to cbmc (the library only uses it with constant sizes here).
 * Native replay builds (no VP_CBMC) use libc.
 */
#ifndef VP_EVBUF_COPY_H_
#define VP_EVBUF_COPY_H_
#include <string.h>
#include <stddef.h>

#ifdef VP_CBMC
#ifndef VP_COPY_TMP
#define VP_COPY_TMP 96          /* largest memmove the model supports (asserted) */
#endif
static void *vp_memcpy(void *d, const void *s, size_t n)
{
	size_t i;
	for (i = 0; i < n; i++)
		((unsigned char *)d)[i] = ((const unsigned char *)s)[i];
	return d;
}
static void *vp_memmove(void *d, const void *s, size_t n)
{
	unsigned char tmp[VP_COPY_TMP];
	size_t i;
	__CPROVER_assert(n <= VP_COPY_TMP, "harness bound: memmove larger than VP_COPY_TMP");
	__CPROVER_assume(n <= VP_COPY_TMP);
	for (i = 0; i < n; i++)
		tmp[i] = ((const unsigned char *)s)[i];
	for (i = 0; i < n; i++)
		((unsigned char *)d)[i] = tmp[i];
	return d;
}
static void *vp_memchr(const void *s, int c, size_t n)
{
	size_t i;
	for (i = 0; i < n; i++)
		if (((const unsigned char *)s)[i] == (unsigned char)c)
			return (void *)((const unsigned char *)s + i);
	return NULL;
}
static int vp_memcmp(const void *a, const void *b, size_t n)
{
	size_t i;
	for (i = 0; i < n; i++) {
		unsigned char x = ((const unsigned char *)a)[i], y = ((const unsigned char *)b)[i];
		if (x != y) return x < y ? -1 : 1;
	}
	return 0;
}
/* constant-size copies (struct evbuffer_ptr assignments written as memcpy(&a, &b, sizeof a)) stay with cbmc's own
 * memcpy: copying a struct that holds pointers byte by byte turns every later dereference of the copy into a
 * byte-reassembly expression (search obligations went from seconds to out-of-memory) */
#define memcpy(d, s, n) (__builtin_constant_p(n) ? (memcpy)((d), (s), (n)) : vp_memcpy((d), (s), (n)))
#define memmove vp_memmove
#define memchr  vp_memchr
#define memcmp  vp_memcmp
#else
#define vp_memcpy  memcpy
#define vp_memmove memmove
#define vp_memchr  memchr
#define vp_memcmp  memcmp
#endif
#endif
