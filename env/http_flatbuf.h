/* http_flatbuf.h -- "sink" evbuffer for the HTTP harnesses (DESIGN C23/C26):
 * an evbuffer whose content is one flat byte array of capacity VP_FLAT_CAP.
 * http.c only sees struct evbuffer as an opaque type and uses the public API;
 * the functions below implement that API's documented behaviour on the flat
 * representation (buffer.c itself, i.e. "evbuffer == byte string" over chains,
 * is properties C12-C16).  Include AFTER http.c.
 *
 * Implemented: evbuffer_new/free, get_length, add, add_printf (via the
 * vsnprintf model of http_fmt.h), add_buffer, remove_buffer, drain, readln
 * (all EOL styles http.c uses: EVBUFFER_EOL_CRLF), pullup, remove.
 * Writing beyond VP_FLAT_CAP is an assertion failure (harness bound), never
 * silent truncation.
 */
#ifndef VP_HTTP_FLATBUF_H_
#define VP_HTTP_FLATBUF_H_
#ifndef VP_FLAT_CAP
#define VP_FLAT_CAP 64
#endif
#ifndef VP_FLAT_NBUF
#define VP_FLAT_NBUF 6
#endif
#ifndef VP_FLAT_LINE_OBJ
#define VP_FLAT_LINE_OBJ (VP_FLAT_CAP + 1)
#endif
#ifndef VP_FLAT_NRANGES
#define VP_FLAT_NRANGES 8
#endif
struct evbuffer {
	unsigned char d[VP_FLAT_CAP];
	size_t off, end; /* content = d[off, end) */
	int in_use;
	/* VP_FLAT_RANGES (optional, for parsers fed from one immutable stream buffer): bytes moved out of a
	 * buffer marked is_stream are not copied; the receiving buffer records (stream offset, length)
	 * ranges and only its length grows.  Saves the symbolic-offset byte copies. */
	int is_stream;
	size_t nr, r_off[VP_FLAT_NRANGES], r_len[VP_FLAT_NRANGES];
};
static struct evbuffer vp_flat_pool[VP_FLAT_NBUF];
static int vp_flat_overflow;

struct evbuffer *evbuffer_new(void)
{
	int i;
	for (i = 0; i < VP_FLAT_NBUF; i++) {
		if (!vp_flat_pool[i].in_use) {
			vp_flat_pool[i].in_use = 1;
			vp_flat_pool[i].off = vp_flat_pool[i].end = 0;
			vp_flat_pool[i].is_stream = 0; vp_flat_pool[i].nr = 0;
			return &vp_flat_pool[i];
		}
	}
	VP_ASSERT(0, "http_flatbuf: out of buffers (harness bound VP_FLAT_NBUF)");
	return NULL;
}
void evbuffer_free(struct evbuffer *b) { b->in_use = 0; b->off = b->end = 0; }
size_t evbuffer_get_length(const struct evbuffer *b) { return b->end - b->off; }
int evbuffer_add(struct evbuffer *b, const void *data, size_t n)
{
	size_t i;
	VP_ASSERT(n <= VP_FLAT_CAP && b->end + n <= VP_FLAT_CAP, "http_flatbuf: capacity exceeded (harness bound VP_FLAT_CAP)");
	for (i = 0; i < VP_FLAT_CAP && i < n; i++)
		b->d[b->end + i] = ((const unsigned char *)data)[i];
	b->end += n;
	return 0;
}
int evbuffer_add_vprintf(struct evbuffer *b, const char *fmt, va_list ap)
{
	/* format in place (the terminating NUL lands behind the content and is not part of it) */
	size_t room = VP_FLAT_CAP - b->end;
	int n = vsnprintf((char *)b->d + b->end, room, fmt, ap);
	VP_ASSERT(n >= 0 && (size_t)n < room, "http_flatbuf: formatted text exceeds VP_FLAT_CAP (harness bound)");
	b->end += (size_t)n;
	return n;
}
int evbuffer_add_printf(struct evbuffer *b, const char *fmt, ...)
{
	va_list ap;
	int n;
	va_start(ap, fmt);
	n = evbuffer_add_vprintf(b, fmt, ap);
	va_end(ap);
	return n;
}
int evbuffer_drain(struct evbuffer *b, size_t n)
{
	size_t have = b->end - b->off;
	if (b->is_stream) { b->off += n > have ? have : n; return 0; } /* keep absolute offsets */
	if (n >= have) { b->off = b->end = 0; }
	else b->off += n;
	return 0;
}
/* move up to n bytes from src to the end of dst; returns the number moved */
int evbuffer_remove_buffer(struct evbuffer *src, struct evbuffer *dst, size_t n)
{
	size_t have = src->end - src->off;
	if (n > have) n = have;
#ifdef VP_FLAT_RANGES
	if (src->is_stream) {
		VP_ASSERT(dst->nr < VP_FLAT_NRANGES, "http_flatbuf: too many ranges (harness bound VP_FLAT_NRANGES)");
		if (n > 0 && dst->nr < VP_FLAT_NRANGES) { dst->r_off[dst->nr] = src->off; dst->r_len[dst->nr] = n; dst->nr++; }
		dst->end += n; /* length only */
		src->off += n; /* a stream buffer is never compacted: offsets stay absolute */
		return (int)n;
	}
#endif
	evbuffer_add(dst, src->d + src->off, n);
	evbuffer_drain(src, n);
	return (int)n;
}
int evbuffer_add_buffer(struct evbuffer *dst, struct evbuffer *src)
{
	size_t have = src->end - src->off;
	evbuffer_add(dst, src->d + src->off, have);
	evbuffer_drain(src, have);
	return 0;
}
int evbuffer_remove(struct evbuffer *b, void *out, size_t n)
{
	size_t have = b->end - b->off, i;
	if (n > have) n = have;
	for (i = 0; i < VP_FLAT_CAP && i < n; i++)
		((unsigned char *)out)[i] = b->d[b->off + i];
	evbuffer_drain(b, n);
	return (int)n;
}
unsigned char *evbuffer_pullup(struct evbuffer *b, ev_ssize_t size)
{
	size_t have = b->end - b->off;
	if (size >= 0 && (size_t)size > have) return NULL;
	return have ? b->d + b->off : NULL;
}
/* event2/buffer.h, EVBUFFER_EOL_CRLF: "An EOL is an LF, optionally preceded by a CR" */
char *evbuffer_readln(struct evbuffer *b, size_t *n_read_out, enum evbuffer_eol_style eol_style)
{
	size_t have = b->end - b->off, i, lf = have, n;
	char *p;
	VP_ASSERT(eol_style == EVBUFFER_EOL_CRLF, "http_flatbuf: only EVBUFFER_EOL_CRLF is modelled");
	for (i = 0; i < VP_FLAT_CAP && i < have; i++)
		if (b->d[b->off + i] == '\n') { lf = i; break; }
	if (lf == have)
		return NULL;
	n = lf;
	if (n > 0 && b->d[b->off + n - 1] == '\r')
		n--;
	p = malloc(VP_FLAT_LINE_OBJ);
	__CPROVER_assume(p != NULL);
	for (i = 0; i < VP_FLAT_LINE_OBJ; i++)
		p[i] = i < n ? (char)b->d[b->off + i] : '\0';
	evbuffer_drain(b, lf + 1);
	if (n_read_out)
		*n_read_out = n;
	return p;
}
/* harness helper: append symbolic/concrete bytes */
static void vp_flat_put(struct evbuffer *b, const unsigned char *src, size_t from, size_t to)
{
	size_t i;
	for (i = 0; i < VP_FLAT_CAP; i++)
		if (i >= from && i < to) { b->d[b->end] = src[i]; b->end++; }
}
#endif
