/* iobase.h -- an event_base reduced to what the I/O back ends and evmap.c use
 * (DESIGN §3.9: backend/evmap properties are driven at the evmap level, event.c
 * is not part of the unit).  Include AFTER evmap.c and the back-end .c files
 * and after log_stub.h / alloc.h / kernel_io.h.
 *   - base constructed like event_base_new_with_config() does for the fields
 *     evmap.c/epoll.c/poll.c/select.c read (io map, changelist, evsel, evbase, flags)
 *   - event_active_nolock_() is intercepted: activations are recorded
 *   - the signal back end is a stand-in (signals are C07's subject)
 *   - small helpers from evutil*.c that the back ends call
 */
#ifndef VP_IOBASE_H_
#define VP_IOBASE_H_
#include "vp.h"

/* event.c is not part of these harnesses: debug mode off (EVENT_DEBUG_MODE_IS_ON()) */
#ifndef EVENT__DISABLE_DEBUG_MODE
int event_debug_mode_on_ = 0;
#endif

/* ---- activations ---------------------------------------------------------- */
#ifndef VP_OWN_ACTIVE   /* a harness may record activations its own way: define VP_OWN_ACTIVE and event_active_nolock_() */
#ifndef VP_NACT
#define VP_NACT 8
#endif
struct vp_act { struct event *ev; int res; int ncalls; };
struct vp_act vp_act[VP_NACT];
int vp_nact;
void event_active_nolock_(struct event *ev, int res, short ncalls)
{
	if (vp_nact < VP_NACT) { vp_act[vp_nact].ev = ev; vp_act[vp_nact].res = res; vp_act[vp_nact].ncalls = ncalls; }
	vp_nact++;
}
/* how often / with which (or-ed) result flags was `ev` activated */
static int vp_act_count(const struct event *ev) { int i, n = 0; for (i = 0; i < vp_nact && i < VP_NACT; i++) if (vp_act[i].ev == ev) n++; return n; }
static int vp_act_res(const struct event *ev) { int i, r = 0; for (i = 0; i < vp_nact && i < VP_NACT; i++) if (vp_act[i].ev == ev) r |= vp_act[i].res; return r; }
#endif

/* ---- signal back end stand-in --------------------------------------------- */
#ifndef VP_HAVE_SIGNAL_C
int vp_sig_init_calls, vp_sig_dealloc_calls;
int sigfd_init_(struct event_base *base) { (void)base; return -1; }
int evsig_init_(struct event_base *base) { (void)base; vp_sig_init_calls++; return 0; }
void evsig_dealloc_(struct event_base *base) { (void)base; vp_sig_dealloc_calls++; }
#endif

/* ---- evutil helpers -------------------------------------------------------- */
#ifndef VP_HAVE_EVUTIL_C
const char *evutil_getenv_(const char *name) { (void)name; return NULL; }
int evutil_make_socket_closeonexec(evutil_socket_t fd) { (void)fd; return 0; }
ev_uint32_t evutil_weakrand_seed_(struct evutil_weakrand_state *state, ev_uint32_t seed) { state->seed = seed; return seed; }
/* the dispatch loops start scanning at a random position: any value in [0, top) */
ev_int32_t evutil_weakrand_range_(struct evutil_weakrand_state *state, ev_int32_t top)
{
	ev_int32_t v;
	(void)state;
#ifdef VP_WEAKRAND_ZERO
	(void)top; return 0;   /* harnesses whose subject ends at the wait */
#endif
	v = (ev_int32_t)vp_u32();
	__CPROVER_assume(v >= 0 && v < top);
	return v;
}
#endif
#ifndef VP_HAVE_EVUTIL_TIME
#define VP_MAX_SECONDS_IN_MSEC_LONG (((LONG_MAX) - 999) / 1000)
long evutil_tv_to_msec_(const struct timeval *tv)
{
	if (tv->tv_usec > 1000000 || tv->tv_sec > VP_MAX_SECONDS_IN_MSEC_LONG) return -1;
	return (tv->tv_sec * 1000) + ((tv->tv_usec + 999) / 1000);
}
#endif

/* ---- typed evmap entries (see typed_alloc.h) */
#include "typed_evmap.h"

/* ---- the base --------------------------------------------------------------- */
static struct event_base *vp_iobase_new(const struct eventop *ops, int flags, int with_lock)
{
	struct event_base *base = calloc(1, sizeof(struct event_base));
	__CPROVER_assume(base != NULL);
	base->sig.ev_signal_pair[0] = -1; base->sig.ev_signal_pair[1] = -1;
	base->th_notify_fd[0] = -1; base->th_notify_fd[1] = -1;
	evmap_io_initmap_(&base->io);
	evmap_signal_initmap_(&base->sigmap);
	event_changelist_init_(&base->changelist);
	base->flags = flags;
	base->evsel = ops;
	base->evbase = ops->init(base);
#ifndef EVENT__DISABLE_THREAD_SUPPORT
	if (with_lock && evthread_lock_fns_.alloc)
		EVTHREAD_ALLOC_LOCK(base->th_base_lock, 0);
#else
	(void)with_lock;
#endif
	return base;
}
/* an I/O event as event_assign() leaves it, for the fields evmap.c reads */
static void vp_ioev_init(struct event *ev, struct event_base *base, int fd, short events)
{
	memset(ev, 0, sizeof(*ev));
	/* ev_base stays NULL on purpose: evmap.c and the back ends never read it, and cbmc's value sets are
	 * not field-sensitive across struct event's union, so a stored base pointer makes every
	 * LIST_REMOVE through ev->..le_prev a potential write into the whole event_base (measured: OOM) */
	(void)base;
	ev->ev_fd = fd;
	ev->ev_events = events;
	ev->ev_flags = EVLIST_INIT;
}
#endif
