/* inet_fmt.h -- models of the libc formatting/scanning calls evutil.c's address
 * conversion code makes (C40).  Only under cbmc; the native replay links glibc,
 * so a counterexample that depends on a modelling error does not reproduce.
 *   vsnprintf: %d %u %x %s %c %%   (C99: returns would-be length, always terminates when size>0)
 *   sscanf:    %u and %c conversions + literal characters, glibc semantics:
 *              %u skips leading white space, accepts an optional sign, reads decimal digits
 *              (value modulo 2^32 via unsigned long long accumulation, clamped at ULLONG_MAX)
 *   strtol:    base 16 and 10 with optional white space, sign and (base 16) 0x/0X prefix; LONG_MAX/MIN clamp
 *   atoi
 */
#ifndef VP_INET_FMT_H_
#define VP_INET_FMT_H_
#ifdef VP_CBMC
#include <stdarg.h>
#include <stddef.h>
#include <limits.h>
static size_t vpf_put(char *buf, size_t size, size_t pos, char c) { if (size && pos < size - 1) buf[pos] = c; return pos + 1; }
static size_t vpf_num(char *buf, size_t size, size_t pos, unsigned long long v, unsigned base)
{
	char tmp[24]; int n = 0, maxd = v <= 0xff ? 3 : v <= 0xffff ? 5 : v <= 0xffffffffull ? 10 : 20;
	do { unsigned d = (unsigned)(v % base); tmp[n++] = (char)(d < 10 ? '0' + d : 'a' + d - 10); v /= base; } while (v && n < maxd);
	while (n > 0) pos = vpf_put(buf, size, pos, tmp[--n]);
	return pos;
}
/* cbmc 6.11 does not apply the default argument promotions to narrow variadic arguments
 * (a uint8_t passed for %d stays a 1-byte object), so integer arguments are read by object size;
 * 1- and 2-byte arguments are taken as unsigned (evutil.c passes ev_uint8_t / ev_uint16_t). */
static long long vpf_arg_int(va_list *ap)
{
	void *p = *(void **)(*ap); __CPROVER_size_t sz = __CPROVER_OBJECT_SIZE(p); long long v;
	if (sz == 1) v = *(unsigned char *)p; else if (sz == 2) v = *(unsigned short *)p; else if (sz == 4) v = *(int *)p; else v = *(long long *)p;
	(void)va_arg(*ap, void *);
	return v;
}
int vsnprintf(char *buf, size_t size, const char *fmt, va_list ap)
{
	size_t pos = 0, i = 0;
	while (fmt[i]) {
		char c = fmt[i++];
		if (c != '%') { pos = vpf_put(buf, size, pos, c); continue; }
		c = fmt[i++];
		if (c == 'd') { int v = (int)vpf_arg_int(&ap); unsigned long long u; if (v < 0) { pos = vpf_put(buf, size, pos, '-'); u = (unsigned long long)(-(long long)v); } else u = (unsigned long long)v; pos = vpf_num(buf, size, pos, u, 10); }
		else if (c == 'u') { unsigned v = (unsigned)vpf_arg_int(&ap); pos = vpf_num(buf, size, pos, v, 10); }
		else if (c == 'x') { unsigned v = (unsigned)vpf_arg_int(&ap); pos = vpf_num(buf, size, pos, v, 16); }
		else if (c == 'c') { int v = (int)vpf_arg_int(&ap); pos = vpf_put(buf, size, pos, (char)v); }
		else if (c == 's') { const char *s = va_arg(ap, const char *); size_t k = 0; while (s[k]) pos = vpf_put(buf, size, pos, s[k++]); }
		else if (c == '%') pos = vpf_put(buf, size, pos, '%');
		else { __CPROVER_assert(0, "inet_fmt.h: unsupported printf conversion"); }
	}
	if (size) buf[pos < size ? pos : size - 1] = 0;
	return (int)pos;
}
static int vpf_isspace(char c) { return c == ' ' || (c >= 9 && c <= 13); }
static int vpf_vsscanf(const char *s, const char *fmt, va_list ap)
{
	size_t si = 0, fi = 0; int n = 0;
	while (fmt[fi]) {
		char f = fmt[fi++];
		if (f == '%') {
			f = fmt[fi++];
			if (f == 'u') {
				unsigned long long v = 0; int neg = 0, nd = 0, ovf = 0; unsigned *out = va_arg(ap, unsigned *);
				while (vpf_isspace(s[si])) si++;
				if (s[si] == '+' || s[si] == '-') { neg = s[si] == '-'; si++; }
				while (s[si] >= '0' && s[si] <= '9') {
					unsigned d = (unsigned)(s[si] - '0');
					if (v > (ULLONG_MAX - d) / 10) ovf = 1; else v = v * 10 + d;
					si++; nd++;
				}
				if (!nd) break;   /* matching failure (input failure when at end of string: same count/EOF handling below) */
				if (ovf) v = ULLONG_MAX; else if (neg) v = (unsigned long long)(-(long long)v);
				*out = (unsigned)v; n++;
			} else if (f == 'c') {
				char *out = va_arg(ap, char *);
				if (!s[si]) break;
				*out = s[si++]; n++;
			} else { __CPROVER_assert(0, "inet_fmt.h: unsupported scanf conversion"); }
		} else if (vpf_isspace(f)) {
			while (vpf_isspace(s[si])) si++;
		} else {
			if (s[si] != f) break;
			si++;
		}
	}
	if (n == 0 && !s[si] ) { /* input failure before the first conversion -> EOF; callers only compare with 4 */ return -1; }
	return n;
}
int sscanf(const char *s, const char *fmt, ...) { va_list ap; int r; va_start(ap, fmt); r = vpf_vsscanf(s, fmt, ap); va_end(ap); return r; }
int __isoc99_sscanf(const char *s, const char *fmt, ...) { va_list ap; int r; va_start(ap, fmt); r = vpf_vsscanf(s, fmt, ap); va_end(ap); return r; }
static int vpf_digit(char c) { if (c >= '0' && c <= '9') return c - '0'; if (c >= 'a' && c <= 'z') return c - 'a' + 10; if (c >= 'A' && c <= 'Z') return c - 'A' + 10; return 99; }
long strtol(const char *nptr, char **endptr, int base)
{
	size_t i = 0, start; int neg = 0, ovf = 0; unsigned long v = 0;
	while (vpf_isspace(nptr[i])) i++;
	if (nptr[i] == '+' || nptr[i] == '-') { neg = nptr[i] == '-'; i++; }
	if (base == 16 && nptr[i] == '0' && (nptr[i + 1] == 'x' || nptr[i + 1] == 'X') && vpf_digit(nptr[i + 2]) < 16) i += 2;
	start = i;
	while (vpf_digit(nptr[i]) < base) {
		unsigned d = (unsigned)vpf_digit(nptr[i]);
		if (v > ((unsigned long)LONG_MAX + (neg ? 1UL : 0UL) - d) / (unsigned)base) ovf = 1; else v = v * (unsigned)base + d;
		i++;
	}
	if (i == start) { if (endptr) *endptr = (char *)nptr; return 0; }
	if (endptr) *endptr = (char *)nptr + i;
	if (ovf) return neg ? LONG_MIN : LONG_MAX;
	return neg ? (long)(0UL - v) : (long)v;
}
int atoi(const char *s) { return (int)strtol(s, NULL, 10); }
#endif
#endif
