/* bev_pre.h -- include BEFORE the bufferevent .c units: system headers + redirection of the one libc call they make */
#ifndef VP_BEV_PRE_H_
#define VP_BEV_PRE_H_
#include <sys/types.h>
#include <sys/socket.h>
#include <errno.h>
#include <string.h>
static int vp_getpeername(int fd, struct sockaddr *addr, socklen_t *len);
#define getpeername(fd, a, l) vp_getpeername((fd), (a), (l))
#endif
