/* kernel_io.h -- executable contract model of the kernel side of the I/O
 * back ends (epoll, poll, select) over one small fd universe [0, VP_NFD).
 *
 *   files     : every fd number has {open, kind, ready}; numbers are handed out
 *               lowest-free-first (as the kernel does), close() of a number that
 *               is not open fails with EBADF and is counted (double close).
 *   epoll     : up to VP_NEP instances, each a map fd -> {present, events, data};
 *               epoll_ctl has the man-page error contract (ADD on registered ->
 *               EEXIST, MOD/DEL on unregistered -> ENOENT, closed fd/epfd -> EBADF,
 *               fd == epfd -> EINVAL); closing an fd drops its registration from
 *               every instance (no dup()s in the model).
 *   readiness : per fd a set of poll bits POLLIN|POLLOUT|POLLERR|POLLHUP|POLLRDHUP
 *               chosen by the harness (symbolic).  epoll_wait / poll report
 *               (requested & ready) plus ERR/HUP unconditionally, poll reports
 *               POLLNVAL for a closed fd, select fails with EBADF for one and
 *               maps IN|HUP|ERR -> readable, OUT|ERR -> writable (fs/select.c
 *               POLLIN_SET/POLLOUT_SET).  Edge triggering is NOT modelled on the
 *               kernel side (one wait == level semantics); what is observable is
 *               whether EPOLLET was requested.
 *   waits     : every epoll_wait/epoll_pwait2/poll/select first calls
 *               vp_on_wait(kind) -- defined by the harness -- with the
 *               kernel-facing sets snapshotted in vp_k_snap_*, so "whenever the
 *               loop waits" predicates are checked exactly at the wait.
 * (EPOLLx and POLLx bits have the same numeric values on Linux; asserted below.)
 */
#ifndef VP_KERNEL_IO_H_
#define VP_KERNEL_IO_H_
#include "vp.h"
#include <sys/epoll.h>
#include <sys/select.h>
#include <sys/time.h>
#include <poll.h>
#include <errno.h>
#include <time.h>
#include <signal.h>

#ifndef VP_NFD
#define VP_NFD 4
#endif
#ifndef VP_NEP
#define VP_NEP 2
#endif
#ifndef POLLRDHUP
#define POLLRDHUP 0x2000
#endif

enum vp_kkind { VP_K_NONE = 0, VP_K_USER, VP_K_EPOLL, VP_K_PIPE_R, VP_K_PIPE_W, VP_K_EVENTFD, VP_K_SIGNALFD, VP_K_TIMERFD };
enum vp_kwait { VP_W_EPOLL = 1, VP_W_POLL, VP_W_SELECT };

struct vp_kfile { int open; int kind; int inst; unsigned ready; unsigned gen; int shared; /* open file description also held by the parent process (see vp_k_fork) */ };
struct vp_kreg { int present; unsigned events; int data_fd; };
struct vp_kepoll { int used; int fd; struct vp_kreg reg[VP_NFD]; int ctl_calls; };

struct vp_kfile vp_kf[VP_NFD];
struct vp_kepoll vp_kep[VP_NEP];
int vp_k_nep;                 /* epoll instances created so far */
int vp_k_ctl_calls;           /* epoll_ctl calls seen */
int vp_k_ctl_refused;         /* epoll_ctl calls that returned -1 */
int vp_k_ctl_badfd;           /* epoll_ctl named an epfd/fd that is not open (EBADF) */
int vp_k_ctl_fail_next;       /* harness: next epoll_ctl fails with this errno (fault injection) */
int vp_k_close_calls;
int vp_k_close_ebadf;         /* close() of a number that is not open */
int vp_k_open_fail;           /* harness: fd-creating calls fail with this errno */
int vp_k_wait_calls;
int vp_k_wait_fail;           /* harness: next wait fails with this errno */
int vp_k_quiet;               /* harness: waits time out with nothing ready (concrete 0), for harnesses whose subject ends at the wait */
int vp_k_last_ctl_epfd = -1;
int vp_k_forked, vp_k_shared_closed;
struct vp_kreg vp_k_parent_snap[VP_NEP][VP_NFD];   /* interest lists at fork time */
int vp_k_parent_ctl[VP_NEP];

/* snapshot of what the last wait call was handed */
int vp_k_snap_kind;
int vp_k_snap_epfd;           /* epoll */
int vp_k_snap_maxevents;
#define VP_K_PSNAP 6
int vp_k_snap_nfds;           /* poll: nfds ; select: nfds */
struct pollfd vp_k_snap_pfd[VP_K_PSNAP];
int vp_k_snap_rd[VP_NFD], vp_k_snap_wr[VP_NFD], vp_k_snap_ex[VP_NFD]; /* select: fd is in the set */
int vp_k_snap_timeout_null;

static void vp_on_wait(int kind);   /* the harness defines this */

/* ---- files ---------------------------------------------------------------- */
static int vp_k_alloc_fd(int kind)
{
	int fd;
	if (vp_k_open_fail) { errno = vp_k_open_fail; return -1; }
	for (fd = 0; fd < VP_NFD; fd++) {
		if (!vp_kf[fd].open) {
			vp_kf[fd].open = 1; vp_kf[fd].kind = kind; vp_kf[fd].inst = -1; vp_kf[fd].ready = 0; vp_kf[fd].gen++; vp_kf[fd].shared = 0;
			return fd;
		}
	}
	errno = EMFILE;
	return -1;
}
/* open a user file at a chosen number (the application's pipes/sockets) */
static void vp_k_open_at(int fd)
{
	vp_kf[fd].open = 1; vp_kf[fd].kind = VP_K_USER; vp_kf[fd].inst = -1; vp_kf[fd].ready = 0; vp_kf[fd].gen++; vp_kf[fd].shared = 0;
}
static int vp_k_do_close(int fd)
{
	int i;
	vp_k_close_calls++;
	if (fd < 0 || fd >= VP_NFD || !vp_kf[fd].open) { vp_k_close_ebadf++; errno = EBADF; return -1; }
	if (vp_kf[fd].shared) {
		/* after fork: the parent still holds this open file description, so closing the child's descriptor
		 * neither destroys an epoll instance nor removes the file from any interest list (epoll(7), Q6) */
		vp_kf[fd].open = 0; vp_kf[fd].kind = VP_K_NONE; vp_kf[fd].ready = 0; vp_kf[fd].shared = 0;
		vp_k_shared_closed++;
		return 0;
	}
	if (vp_kf[fd].kind == VP_K_EPOLL) {
		int k = vp_kf[fd].inst, j;
		for (j = 0; j < VP_NFD; j++) { vp_kep[k].reg[j].present = 0; vp_kep[k].reg[j].events = 0; }
		vp_kep[k].fd = -1;
	}
	for (i = 0; i < VP_NEP; i++) { vp_kep[i].reg[fd].present = 0; vp_kep[i].reg[fd].events = 0; vp_kep[i].reg[fd].data_fd = -1; }
	vp_kf[fd].open = 0; vp_kf[fd].kind = VP_K_NONE; vp_kf[fd].ready = 0;
	return 0;
}
int close(int fd) { return vp_k_do_close(fd); }
/* fork() as seen by the child: same descriptor table, every open file description now also belongs to the
 * parent; the epoll instances that exist are the parent's (shared) and are snapshotted so that the harness can
 * assert the child leaves them alone */
static void vp_k_fork(void)
{
	int fd, k;
	vp_k_forked = 1;
	for (fd = 0; fd < VP_NFD; fd++) if (vp_kf[fd].open) vp_kf[fd].shared = 1;
	for (k = 0; k < VP_NEP; k++) {
		vp_k_parent_ctl[k] = vp_kep[k].ctl_calls;
		for (fd = 0; fd < VP_NFD; fd++) vp_k_parent_snap[k][fd] = vp_kep[k].reg[fd];
	}
}

/* ---- epoll ---------------------------------------------------------------- */
static int vp_k_epoll_new(void)
{
	int fd, k;
	if (vp_k_nep >= VP_NEP) { errno = ENFILE; return -1; }
	fd = vp_k_alloc_fd(VP_K_EPOLL);
	if (fd < 0) return -1;
	k = vp_k_nep++;
	vp_kep[k].used = 1; vp_kep[k].fd = fd; vp_kep[k].ctl_calls = 0;
	vp_kf[fd].inst = k;
	return fd;
}
int epoll_create1(int flags) { (void)flags; return vp_k_epoll_new(); }
int epoll_create(int size) { (void)size; return vp_k_epoll_new(); }
static int vp_k_inst_of(int epfd)
{
	if (epfd < 0 || epfd >= VP_NFD || !vp_kf[epfd].open || vp_kf[epfd].kind != VP_K_EPOLL) return -1;
	return vp_kf[epfd].inst;
}
int epoll_ctl(int epfd, int op, int fd, struct epoll_event *ev)
{
	int k, r = 0;
	struct vp_kreg *g;
	vp_k_ctl_calls++;
	vp_k_last_ctl_epfd = epfd;
	k = vp_k_inst_of(epfd);
	if (k < 0) { vp_k_ctl_badfd++; errno = EBADF; r = -1; goto done; }
	vp_kep[k].ctl_calls++;
	if (vp_k_ctl_fail_next) { errno = vp_k_ctl_fail_next; vp_k_ctl_fail_next = 0; r = -1; goto done; }
	if (fd < 0 || fd >= VP_NFD || !vp_kf[fd].open) { vp_k_ctl_badfd++; errno = EBADF; r = -1; goto done; }
	if (fd == epfd) { errno = EINVAL; r = -1; goto done; }
	g = &vp_kep[k].reg[fd];
	switch (op) {
	case EPOLL_CTL_ADD:
		if (g->present) { errno = EEXIST; r = -1; break; }
		VP_ASSERT(ev != NULL, "kernel model: epoll_ctl ADD with NULL event");
		VP_ASSERT(ev->data.fd == fd, "kernel model restriction: the back end registers its own fd as epoll user data");
		g->present = 1; g->events = ev->events; g->data_fd = fd; break;
	case EPOLL_CTL_MOD:
		if (!g->present) { errno = ENOENT; r = -1; break; }
		VP_ASSERT(ev != NULL, "kernel model: epoll_ctl MOD with NULL event");
		VP_ASSERT(ev->data.fd == fd, "kernel model restriction: the back end registers its own fd as epoll user data");
		g->events = ev->events; g->data_fd = fd; break;
	case EPOLL_CTL_DEL:
		if (!g->present) { errno = ENOENT; r = -1; break; }
		g->present = 0; g->events = 0; g->data_fd = -1; break;
	default:
		errno = EINVAL; r = -1; break;
	}
done:
	if (r) vp_k_ctl_refused++;
	return r;
}
static int vp_k_epoll_wait_common(int epfd, struct epoll_event *events, int maxevents, int timeout_null)
{
	int k, fd, n = 0;
	vp_k_wait_calls++;
	vp_k_snap_kind = VP_W_EPOLL; vp_k_snap_epfd = epfd; vp_k_snap_maxevents = maxevents; vp_k_snap_timeout_null = timeout_null;
	vp_on_wait(VP_W_EPOLL);
	if (vp_k_wait_fail) { errno = vp_k_wait_fail; vp_k_wait_fail = 0; return -1; }
	if (vp_k_quiet) return 0;
	k = vp_k_inst_of(epfd);
	if (k < 0) { errno = EBADF; return -1; }
	if (maxevents <= 0 || events == NULL) { errno = EINVAL; return -1; }
	for (fd = 0; fd < VP_NFD; fd++) {
		struct vp_kreg *g = &vp_kep[k].reg[fd];
		unsigned rev;
		if (!g->present) continue;
		rev = vp_kf[fd].ready & ((g->events & (EPOLLIN | EPOLLOUT | EPOLLRDHUP)) | EPOLLERR | EPOLLHUP);
		if (!rev || n >= maxevents) continue;
		events[n].events = rev;
		/* the user data comes back as a whole union value built from the member the back ends read: cbmc keeps a union
		 * as one atomic value, and a partial write (or a write through .u64) comes back from .fd as an unfoldable byte
		 * operation, which makes the fd the back end hands to evmap_io_active_() symbolic (measured: symex explodes).
		 * (The registered data is asserted to be the fd itself in epoll_ctl above, so nothing is lost.) */
		events[n].data = (epoll_data_t){ .fd = g->data_fd };
		n++;
	}
	return n;
}
int epoll_wait(int epfd, struct epoll_event *events, int maxevents, int timeout)
{
	return vp_k_epoll_wait_common(epfd, events, maxevents, timeout < 0);
}
int epoll_pwait2(int epfd, struct epoll_event *events, int maxevents, const struct timespec *ts, const sigset_t *ss)
{
	(void)ss;
	return vp_k_epoll_wait_common(epfd, events, maxevents, ts == NULL);
}

/* ---- poll ----------------------------------------------------------------- */
int poll(struct pollfd *fds, nfds_t nfds, int timeout)
{
	nfds_t i; int n = 0;
	vp_k_wait_calls++;
	vp_k_snap_kind = VP_W_POLL; vp_k_snap_nfds = (int)nfds; vp_k_snap_timeout_null = timeout < 0;
	for (i = 0; i < nfds && i < VP_K_PSNAP; i++) vp_k_snap_pfd[i] = fds[i];
	vp_on_wait(VP_W_POLL);
	if (vp_k_wait_fail) { errno = vp_k_wait_fail; vp_k_wait_fail = 0; return -1; }
	if (vp_k_quiet) { for (i = 0; i < nfds; i++) fds[i].revents = 0; return 0; }
	for (i = 0; i < nfds; i++) {
		int fd = fds[i].fd;
		short rev = 0;
		if (fd >= 0) {
			if (fd >= VP_NFD || !vp_kf[fd].open) rev = POLLNVAL;
			else rev = (short)(vp_kf[fd].ready & (((unsigned)fds[i].events & (POLLIN | POLLOUT | POLLRDHUP)) | POLLERR | POLLHUP));
		}
		fds[i].revents = rev;
		if (rev) n++;
	}
	return n;
}

/* ---- select --------------------------------------------------------------- */
int select(int nfds, fd_set *rd, fd_set *wr, fd_set *ex, struct timeval *tv)
{
	int fd, n = 0;
	vp_k_wait_calls++;
	vp_k_snap_kind = VP_W_SELECT; vp_k_snap_nfds = nfds; vp_k_snap_timeout_null = (tv == NULL);
	for (fd = 0; fd < VP_NFD; fd++) {
		vp_k_snap_rd[fd] = (fd < nfds && rd && FD_ISSET(fd, rd)) ? 1 : 0;
		vp_k_snap_wr[fd] = (fd < nfds && wr && FD_ISSET(fd, wr)) ? 1 : 0;
		vp_k_snap_ex[fd] = (fd < nfds && ex && FD_ISSET(fd, ex)) ? 1 : 0;
	}
	vp_on_wait(VP_W_SELECT);
	if (vp_k_wait_fail) { errno = vp_k_wait_fail; vp_k_wait_fail = 0; return -1; }
	if (vp_k_quiet) {
		for (fd = 0; fd < VP_NFD && fd < nfds; fd++) { if (rd) FD_CLR(fd, rd); if (wr) FD_CLR(fd, wr); if (ex) FD_CLR(fd, ex); }
		return 0;
	}
	for (fd = 0; fd < VP_NFD; fd++)
		if ((vp_k_snap_rd[fd] || vp_k_snap_wr[fd] || vp_k_snap_ex[fd]) && !vp_kf[fd].open) { errno = EBADF; return -1; }
	for (fd = 0; fd < VP_NFD && fd < nfds; fd++) {
		unsigned rdy = vp_kf[fd].ready;
		if (vp_k_snap_rd[fd]) { if (rdy & (POLLIN | POLLHUP | POLLERR)) n++; else FD_CLR(fd, rd); }
		if (vp_k_snap_wr[fd]) { if (rdy & (POLLOUT | POLLERR)) n++; else FD_CLR(fd, wr); }
		if (vp_k_snap_ex[fd]) FD_CLR(fd, ex);
	}
	return n;
}

/* libevent condition bits <-> kernel bits (EV_READ 0x02, EV_WRITE 0x04, EV_CLOSED 0x80) */
static unsigned vp_k_ev2poll(short ev)
{
	unsigned e = 0;
	if (ev & 0x02) e |= POLLIN;
	if (ev & 0x04) e |= POLLOUT;
	if (ev & 0x80) e |= POLLRDHUP;
	return e;
}
/* the numeric identities the model relies on */
typedef char vp_k_bits_check[(EPOLLIN == POLLIN && EPOLLOUT == POLLOUT && EPOLLERR == POLLERR && EPOLLHUP == POLLHUP && EPOLLRDHUP == POLLRDHUP) ? 1 : -1];
#endif
