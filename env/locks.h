/* locks.h -- the threading callback tables, defined as *initialised* globals
 * (so cbmc resolves evthread_lock_fns_.lock etc. to exactly these monitors,
 * see DESIGN §3.2) plus a lock-balance monitor (C08/C09):
 *   - unlock of a lock that is not held            -> assertion
 *   - re-entry of a non-recursive lock             -> assertion
 *   - vp_locks_held() == 0 after every API return  -> asserted by harnesses (VP_ASSERT_NO_LOCKS)
 * Lock debugging is reported as enabled, and evthread_is_debug_lock_held_()
 * answers from the monitor, so every EVLOCK_ASSERT_LOCKED /
 * EVENT_BASE_ASSERT_LOCKED in the library is a live obligation.
 * -DVP_LOCKS_OFF: locking disabled (all callbacks NULL), for harnesses where
 * locks are not the subject. */
#ifndef VP_LOCKS_H_
#define VP_LOCKS_H_
#include "vp.h"
#include "event2/thread.h"
#ifndef VP_NLOCKS
#define VP_NLOCKS 12
#endif
struct vp_lock { int alive; int depth; int recursive; int rw; unsigned long owner; };
struct vp_lock vp_lockpool[VP_NLOCKS];
int vp_nlocks_alloc;
int vp_lock_depth_total;           /* sum of depths of all locks */
int vp_lock_ops;                   /* lock+unlock calls seen */
unsigned long vp_cur_thread = 1;   /* what evthread_id_fn_ reports */
int vp_cond_waits, vp_cond_signals, vp_cond_broadcasts;
struct vp_cond { int alive; } vp_condpool[4];
int vp_nconds_alloc;
void (*vp_cond_wait_hook)(void *cond, void *lock); /* harness: what "the other thread" does while we wait */

static void *vp_lock_alloc(unsigned locktype)
{
	struct vp_lock *l;
	VP_ASSERT(vp_nlocks_alloc < VP_NLOCKS, "harness: lock pool exhausted");
	l = &vp_lockpool[vp_nlocks_alloc++];
	l->alive = 1; l->depth = 0; l->recursive = (locktype & EVTHREAD_LOCKTYPE_RECURSIVE) != 0;
	l->rw = (locktype & EVTHREAD_LOCKTYPE_READWRITE) != 0;
	return l;
}
static void vp_lock_free(void *lock, unsigned locktype)
{
	struct vp_lock *l = lock; (void)locktype;
	VP_ASSERT(l->alive, "lock freed twice");
	VP_ASSERT(l->depth == 0, "lock freed while held");
	l->alive = 0;
}
static int vp_lock_lock(unsigned mode, void *lock)
{
	struct vp_lock *l = lock;
	vp_lock_ops++;
	VP_ASSERT(l->alive, "lock() on a freed lock");
	if (mode & EVTHREAD_TRY) {
		if (l->depth && !l->recursive) return 1;
	} else {
		VP_ASSERT(l->depth == 0 || l->recursive, "re-entry of a non-recursive lock (self-deadlock)");
	}
	l->depth++; vp_lock_depth_total++; l->owner = vp_cur_thread;
	return 0;
}
static int vp_lock_unlock(unsigned mode, void *lock)
{
	struct vp_lock *l = lock; (void)mode;
	vp_lock_ops++;
	VP_ASSERT(l->alive, "unlock() on a freed lock");
	VP_ASSERT(l->depth > 0, "unlock of a lock that is not held");
	l->depth--; vp_lock_depth_total--;
	return 0;
}
static void *vp_cond_alloc(unsigned condtype)
{
	(void)condtype;
	VP_ASSERT(vp_nconds_alloc < 4, "harness: cond pool exhausted");
	vp_condpool[vp_nconds_alloc].alive = 1;
	return &vp_condpool[vp_nconds_alloc++];
}
static void vp_cond_free(void *cond) { ((struct vp_cond *)cond)->alive = 0; }
static int vp_cond_signal(void *cond, int broadcast)
{
	(void)cond;
	if (broadcast) vp_cond_broadcasts++; else vp_cond_signals++;
	return 0;
}
static int vp_cond_wait(void *cond, void *lock, const struct timeval *timeout)
{
	struct vp_lock *l = lock; (void)timeout;
	vp_cond_waits++;
	VP_ASSERT(l && l->depth > 0, "condition wait without holding the lock");
	if (vp_cond_wait_hook) vp_cond_wait_hook(cond, lock);
	return 0;
}
static unsigned long vp_thread_id(void) { return vp_cur_thread; }
static int vp_locks_held(void) { return vp_lock_depth_total; }
#define VP_ASSERT_NO_LOCKS(what) VP_ASSERT(vp_lock_depth_total == 0, "C08: lock still held after " what)

#ifdef VP_LOCKS_OFF
struct evthread_lock_callbacks evthread_lock_fns_ = { 0, 0, NULL, NULL, NULL, NULL };
struct evthread_condition_callbacks evthread_cond_fns_ = { 0, NULL, NULL, NULL, NULL };
unsigned long (*evthread_id_fn_)(void) = NULL;
int evthread_lock_debugging_enabled_ = 0;
#else
struct evthread_lock_callbacks evthread_lock_fns_ = {
	EVTHREAD_LOCK_API_VERSION, EVTHREAD_LOCKTYPE_RECURSIVE,
	vp_lock_alloc, vp_lock_free, vp_lock_lock, vp_lock_unlock };
struct evthread_condition_callbacks evthread_cond_fns_ = {
	EVTHREAD_CONDITION_API_VERSION, vp_cond_alloc, vp_cond_free, vp_cond_signal, vp_cond_wait };
unsigned long (*evthread_id_fn_)(void) = vp_thread_id;
int evthread_lock_debugging_enabled_ = 1;
#endif
int evthread_is_debug_lock_held_(void *lock_)
{
	struct vp_lock *l = lock_;
	return l && l->depth > 0;
}
void *evthread_debug_get_real_lock_(void *lock_) { return lock_; }
/* global locks (evsig_base_lock, arc4rand, debug map...) -- evthread.c is not linked */
void *evthread_setup_global_lock_(void *lock_, unsigned locktype, int enable_locks)
{
	(void)enable_locks;
	if (lock_) return lock_;
#ifdef VP_LOCKS_OFF
	return NULL;
#else
	return vp_lock_alloc(locktype);
#endif
}
#endif
