/* ws_env.h -- stand-ins for what ws.c uses from bufferevent/evbuffer/http when only the
 * frame codec is the subject (C31a, C32): a bufferevent is a pair of recording sinks. */
#ifndef VP_WS_ENV_H_
#define VP_WS_ENV_H_
#include "vp.h"
#include <sys/queue.h>
#include "event2/event-config.h"
#include "evconfig-private.h"
#include "event2/buffer.h"
#include "event2/bufferevent.h"
#include "event2/http.h"
#include "event2/keyvalq_struct.h"
/* output sink: every evbuffer_add is recorded as (pointer, length); the first VP_SINK bytes are copied */
#ifndef VP_SINK
#define VP_SINK 24
#endif
struct vp_add_rec { const void *p; size_t n; };
struct vp_add_rec vp_adds[4]; int vp_nadds;
unsigned char vp_sink[VP_SINK]; size_t vp_sink_len;   /* concatenation of what was added (first VP_SINK bytes) */
size_t vp_sink_total;
#include "event2/buffer_compat.h"
#include "event2/util.h"
#include "util-internal.h"
#include "evbuffer-internal.h"
#include "bufferevent-internal.h"
struct evbuffer vp_out_buf, vp_in_buf;
int evbuffer_add(struct evbuffer *b, const void *data, size_t n)
{
	size_t i;
	VP_ASSERT(b == &vp_out_buf, "ws: data added to something else than the connection's output buffer");
	if (vp_nadds < 4) { vp_adds[vp_nadds].p = data; vp_adds[vp_nadds].n = n; }
	vp_nadds++;
	if (n <= 16)   /* headers and control frames are copied; payloads are only recorded as (pointer, length) */
		for (i = 0; i < n && vp_sink_len < VP_SINK; i++) vp_sink[vp_sink_len++] = ((const unsigned char *)data)[i];
	vp_sink_total += n;
	return 0;
}
struct bufferevent_private vp_bevp;
#define vp_bev (vp_bevp.bev)
int vp_bev_lock_depth, vp_bev_setcb_calls;
bufferevent_data_cb vp_bev_readcb, vp_bev_writecb; bufferevent_event_cb vp_bev_eventcb; void *vp_bev_cbarg;
struct evbuffer *bufferevent_get_output(struct bufferevent *bev) { (void)bev; return &vp_out_buf; }
struct evbuffer *bufferevent_get_input(struct bufferevent *bev) { (void)bev; return &vp_in_buf; }
void bufferevent_lock(struct bufferevent *bev) { (void)bev; vp_bev_lock_depth++; }
void bufferevent_unlock(struct bufferevent *bev) { (void)bev; vp_bev_lock_depth--; }
void bufferevent_setcb(struct bufferevent *bev, bufferevent_data_cb r, bufferevent_data_cb w, bufferevent_event_cb e, void *arg)
{ (void)bev; vp_bev_setcb_calls++; vp_bev_readcb = r; vp_bev_writecb = w; vp_bev_eventcb = e; vp_bev_cbarg = arg; }
#endif
