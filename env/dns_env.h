/* dns_env.h -- environment of evdns.c for the wire-format harnesses
 * (C33/C35/C36/C37).  Include BEFORE `#include "evdns.c"`, after vp.h,
 * log_stub.h, alloc.h, locks.h.
 *
 *  - byte-loop memcpy/memmove models (cbmc's array_copy model with a symbolic
 *    length is a memory hog, DESIGN §3.3); bounds are checked per byte by
 *    cbmc's pointer checks, so an over-long copy is reported at the exact byte.
 *  - everything evdns.c calls in other units (event_*, evtimer, evutil_*,
 *    bufferevent_*, evbuffer_*, sockets) that the harnessed paths can reach is
 *    a *recorder*: it records that it was called and returns a fixed benign
 *    value.  None of them is the subject of C33/C35/C36/C37.
 */
#ifndef VP_DNS_ENV_H_
#define VP_DNS_ENV_H_
#include <string.h>
#include <sys/types.h>
#include <sys/socket.h>
#include "vp.h"

/* -DVP_MEMCPY_SMALL=k: copies longer than k bytes use cbmc's array primitives instead of the
 * byte loop (a loop bound is per loop, not per call site: one long copy -- the finished response
 * -- would otherwise force every short label copy to be unrolled to the long bound). */
static void *vp_memcpy(void *d, const void *s, size_t n)
{
	size_t i;
	unsigned char *dd = d; const unsigned char *ss = s;
#if defined(VP_MEMCPY_SMALL) && defined(VP_CBMC)
	if (n > VP_MEMCPY_SMALL) {
		unsigned char tmp[n];
		__CPROVER_assert(__CPROVER_r_ok(s, n), "memcpy source region readable");
		__CPROVER_assert(__CPROVER_w_ok(d, n), "memcpy destination region writeable");
		__CPROVER_array_copy(tmp, (const unsigned char *)s);
		__CPROVER_array_replace((unsigned char *)d, tmp);
		return d;
	}
#endif
	for (i = 0; i < n; i++) dd[i] = ss[i];
	return d;
}
#ifdef VP_CBMC
#define memcpy(d, s, n) vp_memcpy((d), (s), (n))
#endif

/* ---- recorders for what evdns.c calls in other units ---- */
#include "event2/event.h"
#include "event2/event_struct.h"
int vp_dns_event_assign_calls, vp_dns_event_add_calls, vp_dns_event_del_calls, vp_dns_rng_calls;
int event_assign(struct event *ev, struct event_base *base, evutil_socket_t fd, short events,
    void (*cb)(evutil_socket_t, short, void *), void *arg)
{
	vp_dns_event_assign_calls++;
	ev->ev_base = base; ev->ev_fd = fd; ev->ev_events = events;
	ev->ev_evcallback.evcb_cb_union.evcb_callback = cb; ev->ev_evcallback.evcb_arg = arg;
	return 0;
}
int event_add(struct event *ev, const struct timeval *tv) { (void)ev; (void)tv; vp_dns_event_add_calls++; return 0; }
int event_del(struct event *ev) { (void)ev; vp_dns_event_del_calls++; return 0; }
/* the secure RNG: every byte is a fresh solver-chosen input */
int vp_dns_rng_fair_ids; /* harness: 2-byte draws (transaction ids) are never 0xffff -- transaction_id_pick
                          * retries forever on 0xffff; "the RNG eventually yields another value" is the
                          * environment assumption, stated as "at once" */
void evutil_secure_rng_get_bytes(void *buf, size_t n)
{
	vp_dns_rng_calls++;
	vp_bytes(buf, n);
	if (vp_dns_rng_fair_ids && n == 2)
		__CPROVER_assume(!(((unsigned char *)buf)[0] == 0xff && ((unsigned char *)buf)[1] == 0xff));
}

#endif
