/* dns_env.h -- environment of evdns.c for the wire-format harnesses
 * (C33/C35/C36/C37).  Include BEFORE `#include "evdns.c"`, after vp.h,
 * log_stub.h, alloc.h, locks.h.
 *
 *  - byte-loop memcpy/memmove models (cbmc's array_copy model with a symbolic
 *    length is a memory hog, DESIGN §3.3); bounds are checked per byte by
 *    cbmc's pointer checks, so an over-long copy is reported at the exact byte.
 *  - everything evdns.c calls in other units (event_*, evtimer, evutil_*,
 *    bufferevent_*, evbuffer_*, sockets) that the harnessed paths can reach is
 *    a *recorder*: it records that it was called and returns a fixed benign
 *    value.  None of them is the subject of C33/C35/C36/C37.
 */
#ifndef VP_DNS_ENV_H_
#define VP_DNS_ENV_H_
#include <string.h>
#include <sys/types.h>
#include <sys/socket.h>
#include "vp.h"

static void *vp_memcpy(void *d, const void *s, size_t n)
{
	size_t i;
	unsigned char *dd = d; const unsigned char *ss = s;
	for (i = 0; i < n; i++) dd[i] = ss[i];
	return d;
}
#ifdef VP_CBMC
#define memcpy(d, s, n) vp_memcpy((d), (s), (n))
#endif

#endif
