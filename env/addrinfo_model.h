/* addrinfo_model.h -- evutil.c's addrinfo list helpers as a small typed model for the evdns_getaddrinfo harnesses
 * (C38).  Transcribed from evutil.c (evutil_new_addrinfo_, evutil_addrinfo_append_, evutil_freeaddrinfo,
 * evutil_dup_addrinfo_): same results field by field, but every node is ONE typed object {addrinfo, sockaddr}
 * instead of an untyped block with the sockaddr behind the structure (see dns_typed_alloc_pre.h for why).
 * The numeric fast path itself (evutil_getaddrinfo_common_, evutil_parse_servname) is real evutil.c code and is
 * decided in harness/C38_numeric.c; here it is a contract stub set up by the harness.
 * Include after dns_unit_env.h and before evdns.c. */
#ifndef VP_ADDRINFO_MODEL_H_
#define VP_ADDRINFO_MODEL_H_
#include <netinet/in.h>
#include "event2/util.h"
#include "util-internal.h"

#define EVUTIL_AI_LIBEVENT_ALLOCATED 0x80000000   /* (private to evutil.c) */
struct vpa_node { struct evutil_addrinfo ai; union { struct sockaddr sa; struct sockaddr_in sin; struct sockaddr_in6 sin6; } u; };
int vpa_live_nodes, vpa_new_calls, vpa_new_fail;   /* nodes allocated and not yet released */

static struct evutil_addrinfo *vpa_one(const struct sockaddr *sa, ev_socklen_t socklen, int socktype, int protocol)
{
	static const struct vpa_node z;
	struct vpa_node *n;
	if (vpa_new_fail) return NULL;
	n = malloc(sizeof(struct vpa_node));
	__CPROVER_assume(n != NULL);
	*n = z;
	if (sa->sa_family == AF_INET) n->u.sin = *(const struct sockaddr_in *)sa; else n->u.sin6 = *(const struct sockaddr_in6 *)sa;
	n->ai.ai_addr = &n->u.sa;
	n->ai.ai_addrlen = socklen;
	n->ai.ai_family = sa->sa_family;
	n->ai.ai_flags = EVUTIL_AI_LIBEVENT_ALLOCATED;
	n->ai.ai_socktype = socktype;
	n->ai.ai_protocol = protocol;
	vpa_live_nodes++;
	return &n->ai;
}
struct evutil_addrinfo *evutil_new_addrinfo_(struct sockaddr *sa, ev_socklen_t socklen, const struct evutil_addrinfo *hints)
{
	vpa_new_calls++;
	if (hints->ai_socktype == 0 && hints->ai_protocol == 0) {        /* "Indecisive user! Give them a UDP and a TCP." */
		struct evutil_addrinfo *r1 = vpa_one(sa, socklen, SOCK_STREAM, IPPROTO_TCP), *r2;
		if (!r1) return NULL;
		r2 = vpa_one(sa, socklen, SOCK_DGRAM, IPPROTO_UDP);
		r1->ai_next = r2;
		return r1;
	}
	return vpa_one(sa, socklen, hints->ai_socktype, hints->ai_protocol);
}
struct evutil_addrinfo *evutil_addrinfo_append_(struct evutil_addrinfo *first, struct evutil_addrinfo *append)
{
	struct evutil_addrinfo *ai = first;
	if (!ai) return append;
	while (ai->ai_next) ai = ai->ai_next;
	ai->ai_next = append;
	return first;
}
void evutil_freeaddrinfo(struct evutil_addrinfo *ai)
{
	while (ai) {
		struct evutil_addrinfo *next = ai->ai_next;
		VP_ASSERT(ai->ai_flags & EVUTIL_AI_LIBEVENT_ALLOCATED, "addrinfo model: freeing a node that is not ours");
		if (ai->ai_canonname) event_mm_free_(ai->ai_canonname);
		vpa_live_nodes--;
		free(ai);     /* (ai is the first member of its vpa_node) */
		ai = next;
	}
}
struct evutil_addrinfo *evutil_dup_addrinfo_(struct evutil_addrinfo *ai)
{
	struct evutil_addrinfo *first = NULL, *prev = NULL;
	for (; ai; ai = ai->ai_next) {
		struct evutil_addrinfo *n = vpa_one(ai->ai_addr, ai->ai_addrlen, ai->ai_socktype, ai->ai_protocol);
		n->ai_flags = ai->ai_flags;
		if (ai->ai_canonname) n->ai_canonname = event_mm_strdup_(ai->ai_canonname);
		if (!first) first = n; else prev->ai_next = n;
		prev = n;
	}
	return first;
}
void evutil_adjust_hints_for_addrconfig_(struct evutil_addrinfo *hints) { (void)hints; }
#endif
