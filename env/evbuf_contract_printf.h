/* evbuf_contract_printf.h -- evbuffer_add_printf / evbuffer_add_vprintf for the
 * evbuffer CONTRACT model (env/evbuf_contract.h): "formats the text and appends
 * it; returns the number of bytes added" (event2/buffer.h).  Include after
 * evbuf_contract.h.
 *
 * Under cbmc the text is produced by a small formatter for exactly the
 * conversions http.c's URI code uses: literal bytes, %%, %s, %c, %d %u %x %X
 * with an optional '0' flag and a width (e.g. "%%%02X", ":%d", "%s").
 * cbmc 6.11 does not apply the default argument promotions to narrow variadic
 * arguments (an unsigned char passed for %X stays a 1-byte object), so integer
 * arguments are read by object size (same work-around as env/inet_fmt.h);
 * 1- and 2-byte arguments are taken as unsigned (http.c passes unsigned char).
 * Natively (replay) glibc's vsnprintf is used.
 * Bound: at most VP_EVP_MAX-1 bytes per call (asserted).
 */
#ifndef VP_EVBUF_CONTRACT_PRINTF_H_
#define VP_EVBUF_CONTRACT_PRINTF_H_
#include <stdarg.h>
#include <stdio.h>
#ifndef VP_EVP_MAX
#define VP_EVP_MAX 24
#endif
#ifdef VP_CBMC
static long long vp_evp_arg_int(va_list *ap)
{
	void *p = *(void **)(*ap); __CPROVER_size_t sz = __CPROVER_OBJECT_SIZE(p); long long v;
	if (sz == 1) v = *(unsigned char *)p; else if (sz == 2) v = *(unsigned short *)p; else if (sz == 4) v = *(int *)p; else v = *(long long *)p;
	(void)va_arg(*ap, void *);
	return v;
}
static size_t vp_evp_put(char *buf, size_t pos, char c)
{
	if (pos < VP_EVP_MAX) buf[pos] = c;
	return pos + 1;
}
static size_t vp_evp_num(char *buf, size_t pos, unsigned long long v, unsigned base, int upper, int minw, char pad)
{
	char tmp[24]; int n = 0, k;
	do {
		unsigned d = (unsigned)(v % base);
		tmp[n++] = (char)(d < 10 ? '0' + d : (upper ? 'A' : 'a') + (d - 10));
		v /= base;
	} while (v != 0 && n < 20);
	for (k = n; k < minw; k++) pos = vp_evp_put(buf, pos, pad);
	while (n > 0) pos = vp_evp_put(buf, pos, tmp[--n]);
	return pos;
}
int evbuffer_add_vprintf(struct evbuffer *b, const char *fmt, va_list ap)
{
	char out[VP_EVP_MAX];
	size_t pos = 0, i = 0;
	while (fmt[i] != '\0') {
		char ch = fmt[i++], pad = ' ';
		int minw = 0;
		if (ch != '%') { pos = vp_evp_put(out, pos, ch); continue; }
		ch = fmt[i++];
		if (ch == '0') { pad = '0'; ch = fmt[i++]; }
		while (ch >= '1' && ch <= '9') { minw = minw * 10 + (ch - '0'); ch = fmt[i++]; }
		if (ch == '%') pos = vp_evp_put(out, pos, '%');
		else if (ch == 'c') pos = vp_evp_put(out, pos, (char)vp_evp_arg_int(&ap));
		else if (ch == 's') {
			const char *s = va_arg(ap, const char *); size_t k;
			VP_ASSERT(s != NULL, "evbuffer contract: %s with a NULL argument");
			for (k = 0; s[k] != '\0'; k++) pos = vp_evp_put(out, pos, s[k]);
		} else if (ch == 'd') {
			int v = (int)vp_evp_arg_int(&ap); unsigned long long u;
			if (v < 0) { pos = vp_evp_put(out, pos, '-'); u = (unsigned long long)(-(long long)v); } else u = (unsigned long long)v;
			pos = vp_evp_num(out, pos, u, 10, 0, minw, pad);
		} else if (ch == 'u' || ch == 'x' || ch == 'X') {
			unsigned v = (unsigned)vp_evp_arg_int(&ap);
			pos = vp_evp_num(out, pos, v, ch == 'u' ? 10 : 16, ch == 'X', minw, pad);
		} else {
			VP_ASSERT(0, "evbuffer contract: printf conversion not covered by the model");
		}
	}
	VP_ASSERT(pos < VP_EVP_MAX, "harness bound: evbuffer_add_printf text longer than VP_EVP_MAX-1");
	__CPROVER_assume(pos < VP_EVP_MAX);
	if (evbuffer_add(b, out, pos) < 0) return -1;
	return (int)pos;
}
#else
int evbuffer_add_vprintf(struct evbuffer *b, const char *fmt, va_list ap)
{
	char out[VP_EVP_MAX];
	int n = vsnprintf(out, sizeof(out), fmt, ap);
	if (n < 0 || n >= (int)sizeof(out)) return -1;
	if (evbuffer_add(b, out, (size_t)n) < 0) return -1;
	return n;
}
#endif
int evbuffer_add_printf(struct evbuffer *b, const char *fmt, ...)
{
	int r;
	va_list ap;
	va_start(ap, fmt);
	r = evbuffer_add_vprintf(b, fmt, ap);
	va_end(ap);
	return r;
}
#endif
