/* http_fmt.h -- small models of the libc scanning/formatting routines that
 * http.c uses, for the HTTP wire properties (C23-C26).
 *
 * Only compiled under CBMC (VP_CBMC); the native replay build links glibc.
 * Each model is a straight-line/bounded-loop C transcription of the ISO C /
 * POSIX text for exactly the call patterns in http.c:
 *   sscanf(s, "HTTP/%c.%c%c", ...)                 evhttp_parse_http_version
 *   strtoll(s, &end, 10|16), atoi(s)                Content-Length, chunk size, status code
 *   strsep, strchr, strrchr, strpbrk, strspn, strlen, strcmp
 *   isspace() through glibc's __ctype_b_loc() table ("C" locale)
 *   vsnprintf for %s %d %u %x %zu %c %% (C26 serialisation; used by the sink
 *   evbuffer model's evbuffer_add_printf and by evutil_snprintf)
 * The models are part of the trusted base.  tools: harness C2x_fmt_selfcheck
 * runs corpus strings through model and (natively) glibc.
 *
 * Include BEFORE the libevent unit so that the definitions are the ones
 * symex uses (cbmc prefers a user-supplied body over its library model).
 */
#ifndef VP_HTTP_FMT_H_
#define VP_HTTP_FMT_H_
#include <stddef.h>
#include <stdarg.h>
#include <limits.h>
#include <errno.h>

#ifdef VP_CBMC
/* Loops over strings additionally stop at the end of the object the pointer
 * points into: for a pointer to one known object that bound is a constant, so
 * symbolic execution stops unrolling there instead of at the global --unwind
 * limit.  Running into the bound means the string is not NUL-terminated inside
 * its object, which is reported as a property violation (a real strlen would
 * read out of bounds). */
#define VP_STR_ROOM(s) (__CPROVER_OBJECT_SIZE(s) - __CPROVER_POINTER_OFFSET(s))
#define VP_STR_TERMINATED(cond) __CPROVER_assert(cond, "http_fmt: string is NUL-terminated inside its object")
/* ---- string.h ----------------------------------------------------------- */
size_t strlen(const char *s)
{
	size_t n = 0, room = VP_STR_ROOM(s);
	while (n < room && s[n] != '\0')
		n++;
	VP_STR_TERMINATED(n < room);
	return n;
}
char *strchr(const char *s, int c)
{
	size_t i = 0, room = VP_STR_ROOM(s);
	for (; i < room; i++) {
		if (s[i] == (char)c)
			return (char *)s + i;
		if (s[i] == '\0')
			return (char *)0;
	}
	VP_STR_TERMINATED(0);
	return (char *)0;
}
char *strrchr(const char *s, int c)
{
	const char *last = (const char *)0;
	size_t i = 0, room = VP_STR_ROOM(s);
	for (; i < room; i++) {
		if (s[i] == (char)c)
			last = s + i;
		if (s[i] == '\0')
			return (char *)last;
	}
	VP_STR_TERMINATED(0);
	return (char *)last;
}
static int vp_in_set(char ch, const char *set)
{
	size_t j;
	for (j = 0; set[j] != '\0'; j++)
		if (set[j] == ch)
			return 1;
	return 0;
}
char *strpbrk(const char *s, const char *accept)
{
	size_t i, room = VP_STR_ROOM(s);
	for (i = 0; i < room && s[i] != '\0'; i++)
		if (vp_in_set(s[i], accept))
			return (char *)s + i;
	VP_STR_TERMINATED(i < room);
	return (char *)0;
}
size_t strspn(const char *s, const char *accept)
{
	size_t i = 0, room = VP_STR_ROOM(s);
	while (i < room && s[i] != '\0' && vp_in_set(s[i], accept))
		i++;
	VP_STR_TERMINATED(i < room);
	return i;
}
int strcmp(const char *a, const char *b)
{
	size_t i = 0, room = VP_STR_ROOM(a);
	for (; i < room; i++) {
		unsigned char ca = (unsigned char)a[i], cb = (unsigned char)b[i];
		if (ca != cb)
			return ca < cb ? -1 : 1;
		if (ca == 0)
			return 0;
	}
	VP_STR_TERMINATED(0);
	return 0;
}
/* POSIX strsep: token ends at the first byte of *sp that is in delim */
char *strsep(char **sp, const char *delim)
{
	char *begin = *sp;
	size_t i, room;
	if (begin == (char *)0)
		return (char *)0;
	room = VP_STR_ROOM(begin);
	for (i = 0; i < room && begin[i] != '\0'; i++) {
		if (vp_in_set(begin[i], delim)) {
			begin[i] = '\0';
			*sp = begin + i + 1;
			return begin;
		}
	}
	VP_STR_TERMINATED(i < room);
	*sp = (char *)0;
	return begin;
}

/* ---- ctype.h: glibc expands isspace() & co. to a table lookup ------------ */
/* bit values of glibc's little-endian _ISbit() layout */
#define VP_ISupper  0x0100
#define VP_ISlower  0x0200
#define VP_ISalpha  0x0400
#define VP_ISdigit  0x0800
#define VP_ISxdigit 0x1000
#define VP_ISspace  0x2000
#define VP_ISprint  0x4000
#define VP_ISgraph  0x8000
#define VP_ISblank  0x0001
#define VP_IScntrl  0x0002
#define VP_ISpunct  0x0004
#define VP_ISalnum  0x0008
/* "C" locale classification table, index -128..255 (generated from the definitions of ISO C 7.4) */
static const unsigned short vp_ctype_tab[384] = {
	0x0000, 0x0000, 0x0000, 0x0000, 0x0000, 0x0000, 0x0000, 0x0000, 0x0000, 0x0000, 0x0000, 0x0000, 0x0000, 0x0000, 0x0000, 0x0000,
	0x0000, 0x0000, 0x0000, 0x0000, 0x0000, 0x0000, 0x0000, 0x0000, 0x0000, 0x0000, 0x0000, 0x0000, 0x0000, 0x0000, 0x0000, 0x0000,
	0x0000, 0x0000, 0x0000, 0x0000, 0x0000, 0x0000, 0x0000, 0x0000, 0x0000, 0x0000, 0x0000, 0x0000, 0x0000, 0x0000, 0x0000, 0x0000,
	0x0000, 0x0000, 0x0000, 0x0000, 0x0000, 0x0000, 0x0000, 0x0000, 0x0000, 0x0000, 0x0000, 0x0000, 0x0000, 0x0000, 0x0000, 0x0000,
	0x0000, 0x0000, 0x0000, 0x0000, 0x0000, 0x0000, 0x0000, 0x0000, 0x0000, 0x0000, 0x0000, 0x0000, 0x0000, 0x0000, 0x0000, 0x0000,
	0x0000, 0x0000, 0x0000, 0x0000, 0x0000, 0x0000, 0x0000, 0x0000, 0x0000, 0x0000, 0x0000, 0x0000, 0x0000, 0x0000, 0x0000, 0x0000,
	0x0000, 0x0000, 0x0000, 0x0000, 0x0000, 0x0000, 0x0000, 0x0000, 0x0000, 0x0000, 0x0000, 0x0000, 0x0000, 0x0000, 0x0000, 0x0000,
	0x0000, 0x0000, 0x0000, 0x0000, 0x0000, 0x0000, 0x0000, 0x0000, 0x0000, 0x0000, 0x0000, 0x0000, 0x0000, 0x0000, 0x0000, 0x0000,
	0x0002, 0x0002, 0x0002, 0x0002, 0x0002, 0x0002, 0x0002, 0x0002, 0x0002, 0x2003, 0x2002, 0x2002, 0x2002, 0x2002, 0x0002, 0x0002,
	0x0002, 0x0002, 0x0002, 0x0002, 0x0002, 0x0002, 0x0002, 0x0002, 0x0002, 0x0002, 0x0002, 0x0002, 0x0002, 0x0002, 0x0002, 0x0002,
	0x6001, 0xc004, 0xc004, 0xc004, 0xc004, 0xc004, 0xc004, 0xc004, 0xc004, 0xc004, 0xc004, 0xc004, 0xc004, 0xc004, 0xc004, 0xc004,
	0xd808, 0xd808, 0xd808, 0xd808, 0xd808, 0xd808, 0xd808, 0xd808, 0xd808, 0xd808, 0xc004, 0xc004, 0xc004, 0xc004, 0xc004, 0xc004,
	0xc004, 0xd508, 0xd508, 0xd508, 0xd508, 0xd508, 0xd508, 0xc508, 0xc508, 0xc508, 0xc508, 0xc508, 0xc508, 0xc508, 0xc508, 0xc508,
	0xc508, 0xc508, 0xc508, 0xc508, 0xc508, 0xc508, 0xc508, 0xc508, 0xc508, 0xc508, 0xc508, 0xc004, 0xc004, 0xc004, 0xc004, 0xc004,
	0xc004, 0xd608, 0xd608, 0xd608, 0xd608, 0xd608, 0xd608, 0xc608, 0xc608, 0xc608, 0xc608, 0xc608, 0xc608, 0xc608, 0xc608, 0xc608,
	0xc608, 0xc608, 0xc608, 0xc608, 0xc608, 0xc608, 0xc608, 0xc608, 0xc608, 0xc608, 0xc608, 0xc004, 0xc004, 0xc004, 0xc004, 0x0002,
	0x0000, 0x0000, 0x0000, 0x0000, 0x0000, 0x0000, 0x0000, 0x0000, 0x0000, 0x0000, 0x0000, 0x0000, 0x0000, 0x0000, 0x0000, 0x0000,
	0x0000, 0x0000, 0x0000, 0x0000, 0x0000, 0x0000, 0x0000, 0x0000, 0x0000, 0x0000, 0x0000, 0x0000, 0x0000, 0x0000, 0x0000, 0x0000,
	0x0000, 0x0000, 0x0000, 0x0000, 0x0000, 0x0000, 0x0000, 0x0000, 0x0000, 0x0000, 0x0000, 0x0000, 0x0000, 0x0000, 0x0000, 0x0000,
	0x0000, 0x0000, 0x0000, 0x0000, 0x0000, 0x0000, 0x0000, 0x0000, 0x0000, 0x0000, 0x0000, 0x0000, 0x0000, 0x0000, 0x0000, 0x0000,
	0x0000, 0x0000, 0x0000, 0x0000, 0x0000, 0x0000, 0x0000, 0x0000, 0x0000, 0x0000, 0x0000, 0x0000, 0x0000, 0x0000, 0x0000, 0x0000,
	0x0000, 0x0000, 0x0000, 0x0000, 0x0000, 0x0000, 0x0000, 0x0000, 0x0000, 0x0000, 0x0000, 0x0000, 0x0000, 0x0000, 0x0000, 0x0000,
	0x0000, 0x0000, 0x0000, 0x0000, 0x0000, 0x0000, 0x0000, 0x0000, 0x0000, 0x0000, 0x0000, 0x0000, 0x0000, 0x0000, 0x0000, 0x0000,
	0x0000, 0x0000, 0x0000, 0x0000, 0x0000, 0x0000, 0x0000, 0x0000, 0x0000, 0x0000, 0x0000, 0x0000, 0x0000, 0x0000, 0x0000, 0x0000,
};
static const unsigned short *vp_ctype_ptr = vp_ctype_tab + 128;
const unsigned short **__ctype_b_loc(void)
{
	return &vp_ctype_ptr;
}

/* ---- stdlib.h ------------------------------------------------------------ */
static int vp_digit_val(char ch)
{
	if (ch >= '0' && ch <= '9') return ch - '0';
	if (ch >= 'a' && ch <= 'z') return ch - 'a' + 10;
	if (ch >= 'A' && ch <= 'Z') return ch - 'A' + 10;
	return 99;
}
/* ISO C strtoll for base 10 and 16: optional isspace() prefix, optional sign,
 * optional 0x/0X for base 16 (only when a hex digit follows), digits;
 * saturation to LLONG_MIN/LLONG_MAX with errno=ERANGE; no conversion =>
 * *endptr = nptr and result 0. */
long long strtoll(const char *nptr, char **endptr, int base)
{
	size_t i = 0, room = VP_STR_ROOM(nptr);
	int neg = 0, any = 0, over = 0;
	unsigned long long acc = 0, lim;
	__CPROVER_assert(base == 10 || base == 16, "http_fmt: strtoll model only covers base 10 and 16");
	while (i < room && (nptr[i] == ' ' || (nptr[i] >= 9 && nptr[i] <= 13)))
		i++;
	if (nptr[i] == '+' || nptr[i] == '-') {
		neg = nptr[i] == '-';
		i++;
	}
	if (base == 16 && nptr[i] == '0' && (nptr[i + 1] == 'x' || nptr[i + 1] == 'X') &&
	    vp_digit_val(nptr[i + 2]) < 16)
		i += 2;
	lim = neg ? (unsigned long long)LLONG_MAX + 1ULL : (unsigned long long)LLONG_MAX;
	for (; i < room;) {
		int d = vp_digit_val(nptr[i]);
		if (d >= base)
			break;
		any = 1;
		if (!over) {
			/* acc * base + d > lim, written without a symbolic division */
			if (acc > lim / (unsigned)base || (acc == lim / (unsigned)base && (unsigned)d > lim % (unsigned)base))
				over = 1;
			else
				acc = acc * (unsigned)base + (unsigned)d;
		}
		i++;
	}
	VP_STR_TERMINATED(i < room);
	if (endptr)
		*endptr = (char *)(any ? nptr + i : nptr);
	if (!any)
		return 0;
	if (over) {
		errno = ERANGE;
		return neg ? LLONG_MIN : LLONG_MAX;
	}
	return neg ? (long long)(0ULL - acc) : (long long)acc;
}
long strtol(const char *nptr, char **endptr, int base)
{
	return (long)strtoll(nptr, endptr, base); /* LP64 */
}
/* atoi: behaviour on overflow is undefined in ISO C; glibc = (int)strtol(). */
int atoi(const char *s)
{
	return (int)strtoll(s, (char **)0, 10);
}

/* ---- stdio.h: sscanf for the one format in http.c -------------------------- */
/* "HTTP/%c.%c%c": literal bytes must match exactly (no white space in the
 * format, %c does not skip white space); returns the number of conversions
 * assigned, EOF if input ends before the first conversion. */
static int vp_sscanf_http_version(const char *s, const char *fmt, char *p1, char *p2, char *p3)
{
	int n = 0;
	__CPROVER_assert(fmt[0] == 'H' && fmt[1] == 'T' && fmt[2] == 'T' && fmt[3] == 'P' && fmt[4] == '/' &&
	    fmt[5] == '%' && fmt[6] == 'c' && fmt[7] == '.' && fmt[8] == '%' && fmt[9] == 'c' &&
	    fmt[10] == '%' && fmt[11] == 'c' && fmt[12] == '\0',
	    "http_fmt: sscanf model only covers \"HTTP/%c.%c%c\"");
	if (s[0] == '\0') return -1;
	if (s[0] != 'H') return 0;
	if (s[1] == '\0') return -1;
	if (s[1] != 'T') return 0;
	if (s[2] == '\0') return -1;
	if (s[2] != 'T') return 0;
	if (s[3] == '\0') return -1;
	if (s[3] != 'P') return 0;
	if (s[4] == '\0') return -1;
	if (s[4] != '/') return 0;
	if (s[5] == '\0') return -1;
	*p1 = s[5]; n = 1;
	if (s[6] != '.') return n;
	if (s[7] == '\0') return n;
	*p2 = s[7]; n = 2;
	if (s[8] == '\0') return n;
	*p3 = s[8]; n = 3;
	return n;
}
int sscanf(const char *s, const char *fmt, ...)
{
	va_list ap;
	char *p1, *p2, *p3;
	va_start(ap, fmt);
	p1 = va_arg(ap, char *);
	p2 = va_arg(ap, char *);
	p3 = va_arg(ap, char *);
	va_end(ap);
	return vp_sscanf_http_version(s, fmt, p1, p2, p3);
}
/* glibc's <stdio.h> redirects sscanf to this name */
int __isoc99_sscanf(const char *s, const char *fmt, ...)
{
	va_list ap;
	char *p1, *p2, *p3;
	va_start(ap, fmt);
	p1 = va_arg(ap, char *);
	p2 = va_arg(ap, char *);
	p3 = va_arg(ap, char *);
	va_end(ap);
	return vp_sscanf_http_version(s, fmt, p1, p2, p3);
}

/* ---- reading an int-class variadic argument --------------------------------
 * cbmc 6.11 keeps a variadic argument in an object of the argument's own type
 * (a `char` such as evhttp_request.major is NOT widened to int by the default
 * argument promotions), so va_arg(ap, int) would read 4 bytes from a 1-byte
 * object.  cbmc's va_list is a `void **` walking an array of pointers to the
 * argument objects: look at the object's size and read it with that width. */
static long long vp_va_int(void ***app)
{
	void **ap = *app;
	void *slot = *ap;
	size_t sz = __CPROVER_OBJECT_SIZE(slot);
	long long v;
	if (sz == 1) v = *(signed char *)slot;
	else if (sz == 2) v = *(short *)slot;
	else if (sz == 4) v = *(int *)slot;
	else v = *(long long *)slot;
	*app = ap + 1;
	return v;
}
static unsigned long long vp_va_uint(void ***app)
{
	void **ap = *app;
	void *slot = *ap;
	size_t sz = __CPROVER_OBJECT_SIZE(slot);
	unsigned long long v;
	if (sz == 1) v = *(unsigned char *)slot;
	else if (sz == 2) v = *(unsigned short *)slot;
	else if (sz == 4) v = *(unsigned *)slot;
	else v = *(unsigned long long *)slot;
	*app = ap + 1;
	return v;
}
#define VP_VA_INT(ap) vp_va_int((void ***)&(ap))
#define VP_VA_UINT(ap) vp_va_uint((void ***)&(ap))

/* ---- vsnprintf for the conversions http.c uses ---------------------------- */
static size_t vp_fmt_putc(char *buf, size_t size, size_t pos, char ch)
{
	if (pos + 1 < size)
		buf[pos] = ch;
	return pos + 1;
}
static size_t vp_fmt_unum(char *buf, size_t size, size_t pos, unsigned long long v, unsigned base, int upper, int minw, char pad)
{
	char tmp[24];
	int n = 0, k;
	do {
		unsigned d = (unsigned)(v % base);
		tmp[n++] = (char)(d < 10 ? '0' + d : (upper ? 'A' : 'a') + (d - 10));
		v /= base;
	} while (v != 0 && n < 24);
	for (k = n; k < minw; k++)
		pos = vp_fmt_putc(buf, size, pos, pad);
	while (n > 0)
		pos = vp_fmt_putc(buf, size, pos, tmp[--n]);
	return pos;
}
int vsnprintf(char *buf, size_t size, const char *fmt, va_list ap)
{
	size_t pos = 0, i = 0;
	while (fmt[i] != '\0') {
		char ch = fmt[i++];
		int lng = 0, minw = 0;
		char pad = ' ';
		if (ch != '%') {
			pos = vp_fmt_putc(buf, size, pos, ch);
			continue;
		}
		ch = fmt[i++];
		if (ch == '0') { pad = '0'; ch = fmt[i++]; }
		while (ch >= '1' && ch <= '9') { minw = minw * 10 + (ch - '0'); ch = fmt[i++]; }
		while (ch == 'l' || ch == 'z') { lng++; ch = fmt[i++]; }
		if (ch == '%') {
			pos = vp_fmt_putc(buf, size, pos, '%');
		} else if (ch == 'c') {
			pos = vp_fmt_putc(buf, size, pos, (char)VP_VA_INT(ap));
		} else if (ch == 's') {
			const char *s = va_arg(ap, const char *);
			size_t k, room;
			if (s == (const char *)0) s = "(null)";
			room = VP_STR_ROOM(s);
			for (k = 0; k < room && s[k] != '\0'; k++)
				pos = vp_fmt_putc(buf, size, pos, s[k]);
			VP_STR_TERMINATED(k < room);
		} else if (ch == 'd') {
			long long v = VP_VA_INT(ap); (void)lng;
			unsigned long long u = v < 0 ? 0ULL - (unsigned long long)v : (unsigned long long)v;
			if (v < 0) pos = vp_fmt_putc(buf, size, pos, '-');
			pos = vp_fmt_unum(buf, size, pos, u, 10, 0, minw, pad);
		} else if (ch == 'u' || ch == 'x' || ch == 'X') {
			unsigned long long u = VP_VA_UINT(ap); (void)lng;
			pos = vp_fmt_unum(buf, size, pos, u, ch == 'u' ? 10 : 16, ch == 'X', minw, pad);
		} else {
			__CPROVER_assert(0, "http_fmt: vsnprintf model: conversion not covered");
		}
	}
	if (size > 0)
		buf[pos < size ? pos : size - 1] = '\0';
	return (int)pos;
}
#endif /* VP_CBMC */
#endif
