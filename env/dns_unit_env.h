/* dns_unit_env.h -- environment of evdns.c for the unit-step harnesses of
 * C39 (configuration parsing), C34 (request life cycle), C38 (getaddrinfo).
 * Include AFTER vp.h, log_stub.h, alloc.h, locks.h and BEFORE `#include "evdns.c"`.
 *
 * Everything evdns.c calls in other units is a *recorder*: it notes the call in
 * plain globals and returns a fixed benign value or a value the harness set up
 * beforehand.  None of these callees is the subject of the properties that use
 * this file (event core: C01-C03; evutil address text: C40/C41; bufferevent:
 * C17-C20).  What is modelled and what it promises:
 *
 *   event_assign/event_add/event_del/event_initialized
 *        the struct event is the library's; assign stores callback/arg/fd/events
 *        and marks EVLIST_INIT; add marks EVLIST_INSERTED (fd events) or
 *        EVLIST_TIMEOUT (tv != NULL or no fd events) and records the timeout beside
 *        the event (vpe_timeout_of); del clears both.  Never fails unless vpe_event_add_fail is set.
 *        add/del of an event that was never assigned is an assertion failure.
 *   event_deferred_cb_init_/schedule_
 *        records the callback; vpe_run_deferred() runs every scheduled one once
 *        (that is what the event loop would do at the next iteration).
 *   sockets (evutil_socket_, bind, setsockopt, sendto, recvfrom, closesocket)
 *        evutil_socket_ hands out fds 10,11,...; sendto result is vpe_sendto_result
 *        (default: everything sent); closesocket counts.
 *   str* / strtok_r / strtol
 *        byte loops with their own loop ids (vpe_strlen.0 ...), POSIX semantics.
 *   evutil_secure_rng_get_bytes
 *        solver-chosen bytes (vp_bytes).
 */
#ifndef VP_DNS_UNIT_ENV_H_
#define VP_DNS_UNIT_ENV_H_
/* (self-contained: env/dns_env.h -- the wire-format harnesses' environment -- defines simpler recorders under the
 *  same names and cannot be combined with this file) */
#include <string.h>
#include <sys/types.h>
#include <sys/socket.h>
#include <sys/time.h>
#include "vp.h"
/* byte-loop copy (cbmc's array_copy model with a symbolic length is a memory hog, DESIGN 3.3) */
static void *vpe_memcpy(void *d, const void *s, size_t n)
{
	size_t i;
	unsigned char *dd = d; const unsigned char *ss = s;
	for (i = 0; i < n; i++) dd[i] = ss[i];
	return d;
}
#ifdef VP_CBMC
#define memcpy(d, s, n) vpe_memcpy((d), (s), (n))
#endif
#include "event2/event.h"
#include "event2/event_struct.h"
#include "event2/util.h"
#include "event-internal.h"
#include "defer-internal.h"

/* ---------------------------------------------------------------- strings */
#ifdef VP_CBMC
static size_t vpe_strlen(const char *s) { size_t n = 0; while (s[n]) n++; return n; }
static int vpe_strcmp(const char *a, const char *b)
{
	size_t i = 0;
	for (;; i++) {
		unsigned char x = (unsigned char)a[i], y = (unsigned char)b[i];
		if (x != y) return x < y ? -1 : 1;
		if (!x) return 0;
	}
}
static int vpe_strncmp(const char *a, const char *b, size_t n)
{
	size_t i;
	for (i = 0; i < n; i++) {
		unsigned char x = (unsigned char)a[i], y = (unsigned char)b[i];
		if (x != y) return x < y ? -1 : 1;
		if (!x) return 0;
	}
	return 0;
}
static char *vpe_strchr(const char *s, int c)
{
	size_t i = 0;
	for (;; i++) {
		if (s[i] == (char)c) return (char *)s + i;
		if (!s[i]) return NULL;
	}
}
/* POSIX strtok_r: skip leading delimiters; no token -> NULL; otherwise the
 * token ends at the first delimiter (overwritten with NUL) or at the end. */
static char *vpe_strtok_r(char *s, const char *delim, char **save)
{
	char *tok;
	if (!s) s = *save;
	while (*s && vpe_strchr(delim, *s)) s++;
	if (!*s) { *save = s; return NULL; }
	tok = s;
	while (*s && !vpe_strchr(delim, *s)) s++;
	if (*s) { *s = 0; *save = s + 1; } else *save = s;
	return tok;
}
/* strtol(3), bases 10 and 16: optional white space, sign, (base 16: 0x prefix), digits; LONG_MAX/LONG_MIN clamp;
 * no digits -> 0 and *endptr == nptr */
#include <limits.h>
static int vpe_isspace(char c) { return c == ' ' || (c >= 9 && c <= 13); }
static int vpe_digit(char c) { if (c >= '0' && c <= '9') return c - '0'; if (c >= 'a' && c <= 'z') return c - 'a' + 10; if (c >= 'A' && c <= 'Z') return c - 'A' + 10; return 99; }
static long vpe_strtol(const char *nptr, char **endptr, int base)
{
	size_t i = 0, start; int neg = 0, ovf = 0; unsigned long v = 0, lim, limdiv;
	while (vpe_isspace(nptr[i])) i++;
	if (nptr[i] == '+' || nptr[i] == '-') { neg = nptr[i] == '-'; i++; }
	if (base == 16 && nptr[i] == '0' && (nptr[i + 1] == 'x' || nptr[i + 1] == 'X') && vpe_digit(nptr[i + 2]) < 16) i += 2;
	start = i;
	/* (no division by a symbolic value: both limits fold to constants for a literal base) */
	if (neg) { lim = (unsigned long)LONG_MAX + 1UL; limdiv = ((unsigned long)LONG_MAX + 1UL) / (unsigned long)base; }
	else { lim = (unsigned long)LONG_MAX; limdiv = (unsigned long)LONG_MAX / (unsigned long)base; }
	{	/* the first 15 digits cannot overflow 63 bits in base <= 16: no check (keeps the formula linear) */
		int nd = 0;
		while (vpe_digit(nptr[i]) < base) {
			unsigned long d = (unsigned long)vpe_digit(nptr[i]);
			if (nd < 15 && base <= 16) v = v * (unsigned long)base + d;
			else if (v > limdiv || v * (unsigned long)base > lim - d) ovf = 1; else v = v * (unsigned long)base + d;
			i++; nd++;
		}
	}
	if (i == start) { if (endptr) *endptr = (char *)nptr; return 0; }
	if (endptr) *endptr = (char *)nptr + i;
	if (ovf) return neg ? LONG_MIN : LONG_MAX;
	return neg ? (long)(0UL - v) : (long)v;
}
#define strtol(s, e, b) vpe_strtol((s), (e), (b))
static int vpe_strcasecmp(const char *a, const char *b)
{
	size_t i = 0;
	for (;; i++) {
		unsigned char x = (unsigned char)a[i], y = (unsigned char)b[i];
		if (x >= 'A' && x <= 'Z') x = (unsigned char)(x + 32);
		if (y >= 'A' && y <= 'Z') y = (unsigned char)(y + 32);
		if (x != y) return x < y ? -1 : 1;
		if (!x) return 0;
	}
}
#define strcasecmp(a, b) vpe_strcasecmp((a), (b))
#define strlen(s) vpe_strlen(s)
#define strcmp(a, b) vpe_strcmp((a), (b))
#define strncmp(a, b, n) vpe_strncmp((a), (b), (n))
#define strchr(s, c) vpe_strchr((s), (c))
#define strtok_r(s, d, p) vpe_strtok_r((s), (d), (p))
#endif

/* ----------------------------------------------------------------- events */
int vpe_event_add_fail;      /* harness: next event_add calls fail */
int vpe_event_adds, vpe_event_dels, vpe_event_assigns;
int vpe_pending_events;      /* events added and not deleted since: an event whose memory is released while it is
                              * pending stays counted (nothing removes it), so "no pending event left" is checkable */
int event_assign(struct event *ev, struct event_base *base, evutil_socket_t fd, short events,
    event_callback_fn cb, void *arg)
{
	vpe_event_assigns++;
	ev->ev_base = base; ev->ev_fd = fd; ev->ev_events = events;
	ev->ev_evcallback.evcb_cb_union.evcb_callback = cb; ev->ev_evcallback.evcb_arg = arg;
	ev->ev_evcallback.evcb_flags = EVLIST_INIT;
	ev->ev_res = 0;
	return 0;
}
int event_initialized(const struct event *ev) { return (ev->ev_evcallback.evcb_flags & EVLIST_INIT) != 0; }
/* timeouts are kept beside the events: a solver-chosen timeval stored INTO a struct event (unions inside) makes cbmc
 * treat the whole enclosing library object byte-wise, after which its pointer fields are no constants for symex */
#ifndef VPE_NTIMEOUTS
#define VPE_NTIMEOUTS 8
#endif
static const struct event *vpe_tv_ev[VPE_NTIMEOUTS]; static struct timeval vpe_tv_val[VPE_NTIMEOUTS];
static void vpe_timeout_set(const struct event *ev, const struct timeval *tv)
{
	int i, done = 0;
	for (i = 0; i < VPE_NTIMEOUTS; i++) if (!done && (vpe_tv_ev[i] == ev || vpe_tv_ev[i] == NULL)) { vpe_tv_ev[i] = ev; vpe_tv_val[i] = *tv; done = 1; }
	VP_ASSERT(done, "harness: timeout table full");
}
static const struct timeval *vpe_timeout_of(const struct event *ev)
{
	int i;
	for (i = 0; i < VPE_NTIMEOUTS; i++) if (vpe_tv_ev[i] == ev) return &vpe_tv_val[i];
	return NULL;
}
int event_add(struct event *ev, const struct timeval *tv)
{
	VP_ASSERT(ev->ev_evcallback.evcb_flags & EVLIST_INIT, "event_add() on an event that is not assigned (or was freed)");
	vpe_event_adds++;
	if (vpe_event_add_fail) return -1;
	if (!(ev->ev_evcallback.evcb_flags & (EVLIST_INSERTED | EVLIST_TIMEOUT))) vpe_pending_events++;
	if (ev->ev_events & (EV_READ | EV_WRITE | EV_SIGNAL | EV_CLOSED)) ev->ev_evcallback.evcb_flags |= EVLIST_INSERTED;
	if (tv) { ev->ev_evcallback.evcb_flags |= EVLIST_TIMEOUT; vpe_timeout_set(ev, tv); }
	else if (!(ev->ev_events & (EV_READ | EV_WRITE | EV_SIGNAL | EV_CLOSED))) ev->ev_evcallback.evcb_flags |= EVLIST_TIMEOUT;
	return 0;
}
int event_del(struct event *ev)
{
	VP_ASSERT(ev->ev_evcallback.evcb_flags & EVLIST_INIT, "event_del() on an event that is not assigned (or was freed)");
	vpe_event_dels++;
	if (ev->ev_evcallback.evcb_flags & (EVLIST_INSERTED | EVLIST_TIMEOUT)) vpe_pending_events--;
	ev->ev_evcallback.evcb_flags &= ~(EVLIST_INSERTED | EVLIST_TIMEOUT | EVLIST_ACTIVE);
	return 0;
}
static int vpe_event_is_pending(const struct event *ev) { return (ev->ev_evcallback.evcb_flags & (EVLIST_INSERTED | EVLIST_TIMEOUT)) != 0; }
void event_debug_unassign(struct event *ev) { (void)ev; }
int event_get_priority(const struct event *ev) { (void)ev; return 0; }

#ifndef VPE_NDEFER
#define VPE_NDEFER 4
#endif
struct event_callback *vpe_deferred[VPE_NDEFER];
int vpe_ndeferred, vpe_deferred_inits;
void event_deferred_cb_init_(struct event_callback *cb, ev_uint8_t prio, deferred_cb_fn fn, void *arg)
{
	(void)prio; vpe_deferred_inits++;
	cb->evcb_cb_union.evcb_selfcb = fn; cb->evcb_arg = arg; cb->evcb_flags = EVLIST_INIT; cb->evcb_closure = EV_CLOSURE_CB_SELF;
}
int event_deferred_cb_schedule_(struct event_base *base, struct event_callback *cb)
{
	(void)base;
	VP_ASSERT(vpe_ndeferred < VPE_NDEFER, "harness: deferred callback table full");
	if (cb->evcb_flags & EVLIST_ACTIVE) return 0;
	cb->evcb_flags |= EVLIST_ACTIVE;
	vpe_deferred[vpe_ndeferred++] = cb;
	return 1;
}

/* ---------------------------------------------------------------- sockets */
int vpe_next_fd = 10, vpe_sockets_open, vpe_sockets_closed, vpe_socket_fail;
long vpe_sendto_result = -2;  /* -2: "all bytes sent" */
int vpe_sendto_calls, vpe_bind_calls, vpe_setsockopt_calls;
evutil_socket_t evutil_socket_(int domain, int type, int protocol)
{
	(void)domain; (void)type; (void)protocol;
	if (vpe_socket_fail) return -1;
	vpe_sockets_open++;
	return vpe_next_fd++;
}
int evutil_closesocket(evutil_socket_t s) { (void)s; vpe_sockets_closed++; return 0; }
int evutil_make_socket_nonblocking(evutil_socket_t fd) { (void)fd; return 0; }
/* libc socket calls are renamed (both under cbmc and in the native replay build) */
#include <unistd.h>
#include <errno.h>
static int vpe_bind(int fd, const struct sockaddr *a, socklen_t l) { (void)fd; (void)a; (void)l; vpe_bind_calls++; return 0; }
static int vpe_setsockopt(int fd, int lvl, int name, const void *v, socklen_t l) { (void)fd; (void)lvl; (void)name; (void)v; (void)l; vpe_setsockopt_calls++; return 0; }
static ssize_t vpe_sendto(int fd, const void *b, size_t n, int fl, const struct sockaddr *a, socklen_t l)
{
	(void)fd; (void)b; (void)fl; (void)a; (void)l; vpe_sendto_calls++;
	return vpe_sendto_result == -2 ? (ssize_t)n : (ssize_t)vpe_sendto_result;
}
static ssize_t vpe_recvfrom(int fd, void *b, size_t n, int fl, struct sockaddr *a, socklen_t *l)
{
	(void)fd; (void)b; (void)n; (void)fl; (void)a; (void)l; errno = EAGAIN; return -1;
}
static int vpe_gethostname(char *name, size_t len) { (void)name; (void)len; return -1; }
#define bind(a, b, c) vpe_bind((a), (b), (c))
#define setsockopt(a, b, c, d, e) vpe_setsockopt((a), (b), (c), (d), (e))
#define sendto(a, b, c, d, e, f) vpe_sendto((a), (b), (c), (d), (e), (f))
#define recvfrom(a, b, c, d, e, f) vpe_recvfrom((a), (b), (c), (d), (e), (f))
#define gethostname(a, b) vpe_gethostname((a), (b))
#ifndef VPE_NO_BUFFEREVENT
/* ----------------------------------------------------------- bufferevent */
/* TCP transport of the resolver: a bufferevent is an opaque token from a small pool; writes/enables succeed unless
 * the harness set vpe_bev_fail; the callbacks installed are recorded so that a harness can deliver events. */
#include "event2/bufferevent.h"
#include "event2/buffer.h"
#ifndef VPE_NBEV
#define VPE_NBEV 3
#endif
struct vpe_bev { int used, freed, enabled, writes, connects; bufferevent_data_cb readcb; bufferevent_event_cb eventcb; void *ctx; };
struct vpe_bev vpe_bevs[VPE_NBEV];
int vpe_bev_next, vpe_bev_fail, vpe_bev_new_fail, vpe_bev_frees;
struct bufferevent *bufferevent_socket_new(struct event_base *base, evutil_socket_t fd, int options)
{
	(void)base; (void)fd; (void)options;
	if (vpe_bev_new_fail) return NULL;
	VP_ASSERT(vpe_bev_next < VPE_NBEV, "harness: bufferevent pool exhausted");
	vpe_bevs[vpe_bev_next].used = 1;
	return (struct bufferevent *)&vpe_bevs[vpe_bev_next++];
}
static struct vpe_bev *vpe_bev_of(struct bufferevent *b)
{
	struct vpe_bev *v = (struct vpe_bev *)b;
	VP_ASSERT(v->used && !v->freed, "bufferevent used after bufferevent_free()");
	return v;
}
void bufferevent_free(struct bufferevent *b) { struct vpe_bev *v = vpe_bev_of(b); v->freed = 1; vpe_bev_frees++; }
int bufferevent_set_timeouts(struct bufferevent *b, const struct timeval *r, const struct timeval *w) { (void)r; (void)w; (void)vpe_bev_of(b); return 0; }
int bufferevent_socket_connect(struct bufferevent *b, const struct sockaddr *a, int l) { (void)a; (void)l; vpe_bev_of(b)->connects++; return vpe_bev_fail ? -1 : 0; }
void bufferevent_setcb(struct bufferevent *b, bufferevent_data_cb r, bufferevent_data_cb w, bufferevent_event_cb e, void *ctx)
{ struct vpe_bev *v = vpe_bev_of(b); (void)w; v->readcb = r; v->eventcb = e; v->ctx = ctx; }
int bufferevent_write(struct bufferevent *b, const void *d, size_t n) { (void)d; (void)n; vpe_bev_of(b)->writes++; return vpe_bev_fail ? -1 : 0; }
int bufferevent_enable(struct bufferevent *b, short ev) { (void)ev; vpe_bev_of(b)->enabled = 1; return vpe_bev_fail ? -1 : 0; }
void bufferevent_setwatermark(struct bufferevent *b, short ev, size_t lo, size_t hi) { (void)ev; (void)lo; (void)hi; (void)vpe_bev_of(b); }
evutil_socket_t bufferevent_getfd(struct bufferevent *b) { (void)vpe_bev_of(b); return 9; }
struct evbuffer *bufferevent_get_input(struct bufferevent *b) { (void)vpe_bev_of(b); return NULL; }
size_t bufferevent_read(struct bufferevent *b, void *d, size_t n) { (void)d; (void)n; (void)vpe_bev_of(b); return 0; }
size_t evbuffer_get_length(const struct evbuffer *buf) { (void)buf; return 0; }
#endif

#include "util-internal.h"
int vpe_gai_fn_set, vpe_gai_cancel_fn_set;
void evutil_set_evdns_getaddrinfo_fn_(evdns_getaddrinfo_fn fn) { (void)fn; vpe_gai_fn_set++; }
void evutil_set_evdns_getaddrinfo_cancel_fn_(evdns_getaddrinfo_cancel_fn fn) { (void)fn; vpe_gai_cancel_fn_set++; }
int evutil_secure_rng_init(void) { return 0; }
#ifndef VPE_CUSTOM_RNG
void evutil_secure_rng_get_bytes(void *buf, size_t n) { vp_bytes(buf, n); }
#endif

#endif
