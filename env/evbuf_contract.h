/* evbuf_contract.h -- CONTRACT MODEL of the evbuffer API subset that event_tagging.c (and other pure
 * consumers of evbuffers) use: evbuffer_new/free/get_length/add/add_buffer/drain/remove/pullup.
 *
 * USAGE: for harnesses that verify a CLIENT of evbuffers compositionally (DESIGN 3.8): do NOT include
 * buffer.c; include this header (after vp.h, "event2/buffer.h" and ref/bytes.h) and then the client unit.
 * What the model promises is exactly what include/event2/buffer.h documents and what C12 establishes for
 * buffer.c against the same byte-string model (ref/bytes.h):
 *   add(buf,p,n)       appends the n bytes, returns 0
 *   add_buffer(d,s)    moves everything from s to the end of d, returns 0
 *   drain(buf,n)       removes min(n,len) bytes from the front, returns 0
 *   remove(buf,out,n)  copies min(n,len) front bytes to out, removes them, returns the count
 *   get_length         number of stored bytes
 *   pullup(buf,size)   size<0: everything.  NULL if size==0 or size > length; otherwise a pointer to
 *                      `size` contiguous bytes equal to the first `size` bytes of the buffer.
 * and it is the WORST CASE the contract permits for a client:
 *   - pullup returns a fresh object of EXACTLY `size` bytes (a real evbuffer may happen to have more
 *     contiguous bytes behind it, the documentation does not promise any): a client reading p[size] or
 *     beyond is caught by cbmc's pointer checks ("never reads past the data it asked for");
 *   - every later modification of the buffer (add/drain/remove/pullup/add_buffer) releases the object
 *     returned by the previous pullup: use of a stale pullup pointer is a use-after-free for cbmc.
 * Bounds: <= VP_BYTES_MAX stored bytes; pullup sizes <= 16 (literal-size objects, see vp_exact_obj).
 * Allocation inside the model never fails.
 */
#ifndef VP_EVBUF_CONTRACT_H_
#define VP_EVBUF_CONTRACT_H_
#include "vp.h"
#include <stdlib.h>
#include "bytes.h"

struct evbuffer { struct vpb m; unsigned char *pulled; int live; };
#ifndef VP_EVC_NBUF
#define VP_EVC_NBUF 3
#endif
static struct evbuffer vp_evc_pool[VP_EVC_NBUF];
static int vp_evc_used;

/* an object of exactly k bytes, 1 <= k <= 16, with a LITERAL allocation size (malloc(symbolic) explodes) */
static unsigned char *vp_exact_obj(size_t k)
{
	unsigned char *p;
	switch (k) {
	case 1: p = malloc(1); break;   case 2: p = malloc(2); break;   case 3: p = malloc(3); break;
	case 4: p = malloc(4); break;   case 5: p = malloc(5); break;   case 6: p = malloc(6); break;
	case 7: p = malloc(7); break;   case 8: p = malloc(8); break;   case 9: p = malloc(9); break;
	case 10: p = malloc(10); break; case 11: p = malloc(11); break; case 12: p = malloc(12); break;
	case 13: p = malloc(13); break; case 14: p = malloc(14); break; case 15: p = malloc(15); break;
	case 16: p = malloc(16); break;
	default:
		VP_ASSERT(0, "harness bound: exact-size object larger than 16 bytes requested");
		__CPROVER_assume(0);
		p = malloc(1);
		break;
	}
	__CPROVER_assume(p != NULL);
	return p;
}
static void vp_evc_invalidate(struct evbuffer *b)
{
	if (b->pulled) { free(b->pulled); b->pulled = NULL; }
}
struct evbuffer *evbuffer_new(void)
{
	struct evbuffer *b;
	VP_ASSERT(vp_evc_used < VP_EVC_NBUF, "harness bound: more than VP_EVC_NBUF evbuffers");
	__CPROVER_assume(vp_evc_used < VP_EVC_NBUF);
	b = &vp_evc_pool[vp_evc_used++];
	vpb_init(&b->m); b->pulled = NULL; b->live = 1;
	return b;
}
void evbuffer_free(struct evbuffer *b)
{
	VP_ASSERT(b->live, "evbuffer contract: evbuffer_free of a freed buffer");
	vp_evc_invalidate(b); b->live = 0;
}
size_t evbuffer_get_length(const struct evbuffer *b)
{
	VP_ASSERT(b->live, "evbuffer contract: use of a freed buffer");
	return b->m.len;
}
int evbuffer_add(struct evbuffer *b, const void *data, size_t n)
{
	VP_ASSERT(b->live, "evbuffer contract: use of a freed buffer");
	vp_evc_invalidate(b);
	if (n) vpb_append(&b->m, (const unsigned char *)data, n);
	return 0;
}
int evbuffer_add_buffer(struct evbuffer *dst, struct evbuffer *src)
{
	VP_ASSERT(dst->live && src->live && dst != src, "evbuffer contract: add_buffer arguments");
	vp_evc_invalidate(dst); vp_evc_invalidate(src);
	vpb_move(dst ? &dst->m : NULL, &src->m, src->m.len);
	return 0;
}
int evbuffer_drain(struct evbuffer *b, size_t n)
{
	VP_ASSERT(b->live, "evbuffer contract: use of a freed buffer");
	vp_evc_invalidate(b);
	vpb_drain(&b->m, n);
	return 0;
}
int evbuffer_remove(struct evbuffer *b, void *out, size_t n)
{
	size_t k, i;
	VP_ASSERT(b->live, "evbuffer contract: use of a freed buffer");
	vp_evc_invalidate(b);
	k = vpb_copyout_len(&b->m, 0, n);
	/* write exactly k bytes of the caller's object (a too small destination is the caller's overrun) */
	for (i = 0; i < VP_BYTES_MAX; i++)
		if (i < k) ((unsigned char *)out)[i] = vpb_at(&b->m, i);
	vpb_drain(&b->m, k);
	return (int)k;
}
unsigned char *evbuffer_pullup(struct evbuffer *b, ev_ssize_t size)
{
	size_t want, i; unsigned char *p;
	VP_ASSERT(b->live, "evbuffer contract: use of a freed buffer");
	vp_evc_invalidate(b);
	want = size < 0 ? b->m.len : (size_t)size;
	if (want == 0 || want > b->m.len) return NULL;
	p = vp_exact_obj(want);
	for (i = 0; i < 16; i++)
		if (i < want) p[i] = vpb_at(&b->m, i);
	b->pulled = p;
	return p;
}
#endif
