/* see dns_typed_alloc_pre.h */
#ifndef VP_DNS_TYPED_ALLOC_POST_H_
#define VP_DNS_TYPED_ALLOC_POST_H_
#ifndef VPD_REQDATA
#define VPD_REQDATA 103        /* evdns_request_len() for a 1-character name without EDNS: 96 + 1 + 2 + 4 */
#endif
struct vpd_request_obj { struct request r; u8 data[VPD_REQDATA]; } __attribute__((packed));
int vpd_alloc_calls;
static void *vpd_malloc(size_t sz)
{
	void *q;
	if (sz == 0) return NULL;
	vpd_alloc_calls++; vp_alloc_calls++;
	if (vp_alloc_should_fail()) return NULL;
	if (sz == sizeof(struct evdns_base)) q = malloc(sizeof(struct evdns_base));
	else if (sz == sizeof(struct nameserver)) q = malloc(sizeof(struct nameserver));
	else if (sz == sizeof(struct vpd_request_obj)) q = malloc(sizeof(struct vpd_request_obj));
	else if (sz == sizeof(struct evdns_request)) q = malloc(sizeof(struct evdns_request));
	else if (sz == sizeof(struct search_state)) q = malloc(sizeof(struct search_state));
	else if (sz == sizeof(struct tcp_connection)) q = malloc(sizeof(struct tcp_connection));
	else if (sz == sizeof(struct evdns_getaddrinfo_request)) q = malloc(sizeof(struct evdns_getaddrinfo_request));
	else if (sz == sizeof(struct evdns_cache)) q = malloc(sizeof(struct evdns_cache));
	else q = malloc(sz);
	__CPROVER_assume(q != NULL);
	return q;
}
static void *vpd_calloc(size_t n, size_t sz)
{
	void *q;
	if (n == 0 || sz == 0) return NULL;
	vpd_alloc_calls++; vp_alloc_calls++;
	if (vp_alloc_should_fail()) return NULL;
	if (n == 1 && sz == sizeof(struct evdns_request)) q = calloc(1, sizeof(struct evdns_request));
	else if (n == 1 && sz == sizeof(struct evdns_getaddrinfo_request)) q = calloc(1, sizeof(struct evdns_getaddrinfo_request));
	else if (n == 1 && sz == sizeof(struct evdns_cache)) q = calloc(1, sizeof(struct evdns_cache));
	else if (n == 1 && sz == sizeof(struct request *)) q = calloc(1, sizeof(struct request *));       /* req_heads, max-inflight <= 5 */
	else if (n == 13 && sz == sizeof(struct request *)) q = calloc(13, sizeof(struct request *));     /* req_heads of evdns_base_new */
	else q = calloc(n, sz);
	__CPROVER_assume(q != NULL);
	return q;
}
#endif
