/* see dns_typed_alloc_pre.h */
#ifndef VP_DNS_TYPED_ALLOC_POST_H_
#define VP_DNS_TYPED_ALLOC_POST_H_
#ifndef VPD_REQDATA
#define VPD_REQDATA 103        /* evdns_request_len() for a 1-character name without EDNS: 96 + 1 + 2 + 4 */
#endif
/* (not packed: cbmc turns member accesses of packed structures into byte operations; the object is therefore up to
 *  7 bytes larger than requested -- memory safety of the query bytes is C36's subject) */
struct vpd_request_obj { struct request r; u8 data[VPD_REQDATA]; };
/* search-list entries and hosts entries carry their text behind the structure: sizeof(T) + len with a solver-chosen
 * len.  A symbolic malloc size does not fit in memory (DESIGN 3.3), and one exactly-sized object per length makes the
 * pointer a 20-way case split.  So they get ONE typed object with room for VPD_TEXT_MAX text bytes, the requested
 * size is remembered, and the copy routine (the only thing that writes the text: memcpy in search_postfix_add /
 * evdns_base_parse_hosts_line) checks every copy into such an object against the REQUESTED size. */
#ifndef VPD_TEXT_MAX
#define VPD_TEXT_MAX 24
#endif
struct vpd_sd_obj { struct search_domain d; char t[VPD_TEXT_MAX]; };
struct vpd_he_obj { struct hosts_entry h; char t[VPD_TEXT_MAX]; };
#define VPD_NTRACK 8
static void *vpd_track_p[VPD_NTRACK]; static size_t vpd_track_sz[VPD_NTRACK]; static int vpd_ntrack;
static void vpd_track(void *q, size_t sz)
{
	VP_ASSERT(vpd_ntrack < VPD_NTRACK, "harness: too many text-carrying allocations");
	vpd_track_p[vpd_ntrack] = q; vpd_track_sz[vpd_ntrack] = sz; vpd_ntrack++;
}
static void vpd_check_write(void *d, size_t n)
{
#ifdef VP_CBMC
	int i;
	for (i = 0; i < VPD_NTRACK; i++)
		if (i < vpd_ntrack && __CPROVER_same_object(d, vpd_track_p[i]))
			VP_ASSERT(__CPROVER_POINTER_OFFSET(d) + n <= vpd_track_sz[i], "memcpy writes behind the size requested for a search-list / hosts entry (heap overflow)");
#else
	(void)d; (void)n;
#endif
}
int vpd_alloc_calls;
/* A request block that is released gets its ring links pointed at a tombstone (a static, self-linked request without
 * nameserver and handle).  cbmc reports the first access to the released block as "deallocated dynamic object"; the
 * tombstone only keeps a stale ring walk *after* that report concrete (it spins on the tombstone until the unwinding
 * bound) instead of continuing through NULL / invalid pointers, which costs symex minutes. */
static char *vpd_strdup(const char *s)
{
	size_t n = 0, i; char *p;
	if (!s) return NULL;
	while (s[n]) n++;
	vp_alloc_calls++;
	if (vp_alloc_should_fail()) return NULL;
	p = malloc(n + 1);
	__CPROVER_assume(p != NULL);
	for (i = 0; i <= n; i++) p[i] = s[i];
	return p;
}
static struct vpd_request_obj vpd_tomb;
static void vpd_free(void *p)
{
#ifdef VP_CBMC
	if (p != NULL && __CPROVER_OBJECT_SIZE(p) == sizeof(struct vpd_request_obj) && __CPROVER_POINTER_OFFSET(p) == 0) {
		struct request *r = p;
		vpd_tomb.r.next = vpd_tomb.r.prev = &vpd_tomb.r;
		r->next = r->prev = &vpd_tomb.r;
	}
#endif
	event_mm_free_(p);
}
static void *vpd_malloc(size_t sz)
{
	void *q;
	if (sz == 0) return NULL;
	vpd_alloc_calls++; vp_alloc_calls++;
	if (vp_alloc_should_fail()) return NULL;
	if (sz == sizeof(struct evdns_base)) q = malloc(sizeof(struct evdns_base));
	else if (sz == sizeof(struct nameserver)) q = malloc(sizeof(struct nameserver));
	else if (sz == sizeof(struct request) + VPD_REQDATA) q = malloc(sizeof(struct vpd_request_obj));
	else if (sz == sizeof(struct evdns_request)) q = malloc(sizeof(struct evdns_request));
	else if (sz == sizeof(struct search_state)) q = malloc(sizeof(struct search_state));
	else if (sz == sizeof(struct tcp_connection)) q = malloc(sizeof(struct tcp_connection));
	else if (sz == sizeof(struct evdns_getaddrinfo_request)) q = malloc(sizeof(struct evdns_getaddrinfo_request));
	else if (sz == sizeof(struct evdns_cache)) q = malloc(sizeof(struct evdns_cache));
	else if (sz >= sizeof(struct search_domain) && sz <= sizeof(struct search_domain) + VPD_TEXT_MAX && sz != sizeof(struct sockaddr_in6)) {
		q = malloc(sizeof(struct vpd_sd_obj)); __CPROVER_assume(q != NULL); vpd_track(q, sz);
	}
	else q = malloc(sz);
	__CPROVER_assume(q != NULL);
	return q;
}
#ifdef VP_CBMC
static void *vpd_memset(void *p, int c, size_t n)
{
	if (c == 0 && n == sizeof(struct evdns_base)) { static const struct evdns_base z; *(struct evdns_base *)p = z; }
	else if (c == 0 && n == sizeof(struct nameserver)) { static const struct nameserver z; *(struct nameserver *)p = z; }
	else if (c == 0 && n == sizeof(struct request)) { static const struct request z; *(struct request *)p = z; }
	else if (c == 0 && n == sizeof(struct search_state)) { static const struct search_state z; *(struct search_state *)p = z; }
	else if (c == 0 && n == sizeof(struct reply)) { static const struct reply z; *(struct reply *)p = z; }
	else if (c == 0 && n == sizeof(struct sockaddr_storage)) { static const struct sockaddr_storage z; *(struct sockaddr_storage *)p = z; }
	else if (c == 0 && n == sizeof(struct sockaddr_in)) { static const struct sockaddr_in z; *(struct sockaddr_in *)p = z; }
	else if (c == 0 && n == sizeof(struct sockaddr_in6)) { static const struct sockaddr_in6 z; *(struct sockaddr_in6 *)p = z; }
	else if (c == 0 && n == sizeof(struct evutil_addrinfo)) { static const struct evutil_addrinfo z; *(struct evutil_addrinfo *)p = z; }
	else { size_t i; for (i = 0; i < n; i++) ((unsigned char *)p)[i] = (unsigned char)c; }
	return p;
}
#endif
#ifndef VPD_SMALL_COPY
#define VPD_SMALL_COPY 32
#endif
#ifdef VP_CBMC
static void *vpd_memcpy_var(void *d, const void *s, size_t n)
{
	size_t i;
	vpd_check_write(d, n);
#ifdef VPD_CLONE_COPY     /* request_clone(): memcpy(new, old, old->request_size) -- a concrete size in the states of C34/C38 */
	if (n == sizeof(struct request) + VPD_REQDATA) { *(struct vpd_request_obj *)d = *(const struct vpd_request_obj *)s; return d; }
#endif
	for (i = 0; i < n; i++) ((unsigned char *)d)[i] = ((const unsigned char *)s)[i];
	return d;
}
static void *vpd_memcpy(void *d, const void *s, size_t n)
{
	size_t i;
	vpd_check_write(d, n);
	if (n == sizeof(struct reply)) *(struct reply *)d = *(const struct reply *)s;
	else if (n == sizeof(struct evutil_addrinfo)) *(struct evutil_addrinfo *)d = *(const struct evutil_addrinfo *)s;
	else if (n == sizeof(struct vpd_request_obj) || n == sizeof(struct request) + VPD_REQDATA) *(struct vpd_request_obj *)d = *(const struct vpd_request_obj *)s;
	else for (i = 0; i < n; i++) ((unsigned char *)d)[i] = ((const unsigned char *)s)[i];
	return d;
}
#endif
/* calloc: cbmc types calloc(1, sizeof(T)) as a byte array, so the typed cases are malloc(sizeof(T)) + a typed zero */
static void *vpd_calloc(size_t n, size_t sz)
{
	void *q;
	if (n == 0 || sz == 0) return NULL;
	vpd_alloc_calls++; vp_alloc_calls++;
	if (vp_alloc_should_fail()) return NULL;
	if (n == 1 && sz == sizeof(struct evdns_request)) {
		static const struct evdns_request z; q = malloc(sizeof(struct evdns_request)); __CPROVER_assume(q != NULL); *(struct evdns_request *)q = z;
	} else if (n == 1 && sz == sizeof(struct evdns_getaddrinfo_request)) {
		static const struct evdns_getaddrinfo_request z; q = malloc(sizeof(struct evdns_getaddrinfo_request)); __CPROVER_assume(q != NULL); *(struct evdns_getaddrinfo_request *)q = z;
	} else if (n == 1 && sz == sizeof(struct evdns_cache)) {
		static const struct evdns_cache z; q = malloc(sizeof(struct evdns_cache)); __CPROVER_assume(q != NULL); *(struct evdns_cache *)q = z;
#ifdef VPD_TYPED_HOSTS    /* harnesses that walk the hosts list (TAILQ links are read back) with concrete names */
	} else if (n == 1 && sz >= sizeof(struct hosts_entry) && sz <= sizeof(struct hosts_entry) + VPD_TEXT_MAX) {
		static const struct vpd_he_obj z; q = malloc(sizeof(struct vpd_he_obj)); __CPROVER_assume(q != NULL); *(struct vpd_he_obj *)q = z; vpd_track(q, sz);
#endif
	} else if (n == 1 && sz >= sizeof(struct hosts_entry) && sz <= sizeof(struct hosts_entry) + VPD_TEXT_MAX) {
		/* (untyped literal-size block: the name is copied across hostname[1], the tail padding and the text area,
		 *  which turns every byte of a typed object into a byte_update of the whole structure: 15 M variables) */
		q = calloc(1, sizeof(struct hosts_entry) + VPD_TEXT_MAX); __CPROVER_assume(q != NULL); vpd_track(q, sz);
	} else if (n == 1 && sz == sizeof(struct request *)) {          /* req_heads, max-inflight <= 5 */
		q = malloc(1 * sizeof(struct request *)); __CPROVER_assume(q != NULL); ((struct request **)q)[0] = NULL;
	} else if (n == 13 && sz == sizeof(struct request *)) {         /* req_heads of evdns_base_new (max-inflight 64) */
		int i; q = malloc(13 * sizeof(struct request *)); __CPROVER_assume(q != NULL);
		for (i = 0; i < 13; i++) ((struct request **)q)[i] = NULL;
	} else q = calloc(n, sz);
	__CPROVER_assume(q != NULL);
	return q;
}
#endif
