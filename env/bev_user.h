/* bev_user.h -- the "application" of the bufferevent harnesses: recording read/write/event callbacks for up to two
 * bufferevents (u_bev[0], u_bev[1]) and an ordered log of every callback invocation.  Include after bev_env.h.
 * Callbacks never write through the pointers they are handed (cbmc: see HARNESS_GUIDE); they find their slot by
 * comparing with the harness globals. */
#ifndef VP_BEV_USER_H_
#define VP_BEV_USER_H_
#include "vp.h"
#define U_NLOG 8
enum { U_READ = 1, U_WRITE = 2, U_EVENT = 3 };
struct u_log { int who, kind; short what; size_t in_len, out_len; };
static struct bufferevent *u_bev[2];
static int u_arg[2];
static struct u_log u_log[U_NLOG];
static int u_nlog;
static int u_reads[2], u_writes[2], u_events[2];
static short u_last_what[2], u_all_what[2];
static size_t u_in_at_read[2], u_out_at_write[2];
static void (*u_hook)(int who, int kind, short what);      /* optional: what the application does inside the callback */
static int u_dead[2];                                        /* harness: set once bufferevent_free(u_bev[i]) was called */
static int u_cleared[2];                                     /* harness: callbacks were cleared with bufferevent_setcb(NULL..) */

static int u_who(struct bufferevent *bev, void *arg)
{
	int w = (bev == u_bev[0]) ? 0 : 1;
	VP_ASSERT(bev == u_bev[w], "bufferevent callback for an unknown bufferevent");
	VP_ASSERT(arg == &u_arg[w], "bufferevent callback got the wrong user pointer");
	VP_ASSERT(!u_dead[w], "C19: callback after bufferevent_free");
	VP_ASSERT(!u_cleared[w], "C19: callback after the callbacks were cleared");
	return w;
}
static void u_record(int w, int kind, short what)
{
	if (u_nlog < U_NLOG) {
		u_log[u_nlog].who = w; u_log[u_nlog].kind = kind; u_log[u_nlog].what = what;
		u_log[u_nlog].in_len = evbuffer_get_length(u_bev[w]->input);
		u_log[u_nlog].out_len = evbuffer_get_length(u_bev[w]->output);
	}
	u_nlog++;
}
static void u_readcb(struct bufferevent *bev, void *arg)
{
	int w = u_who(bev, arg);
	u_reads[w]++; u_in_at_read[w] = evbuffer_get_length(u_bev[w]->input);
	u_record(w, U_READ, 0);
	if (u_hook) u_hook(w, U_READ, 0);
}
static void u_writecb(struct bufferevent *bev, void *arg)
{
	int w = u_who(bev, arg);
	u_writes[w]++; u_out_at_write[w] = evbuffer_get_length(u_bev[w]->output);
	u_record(w, U_WRITE, 0);
	if (u_hook) u_hook(w, U_WRITE, 0);
}
static void u_eventcb(struct bufferevent *bev, short what, void *arg)
{
	int w = u_who(bev, arg);
	u_events[w]++; u_last_what[w] = what; u_all_what[w] |= what;
	u_record(w, U_EVENT, what);
	if (u_hook) u_hook(w, U_EVENT, what);
}
static void u_install(int w, struct bufferevent *bev)
{
	u_bev[w] = bev;
	bufferevent_setcb(bev, u_readcb, u_writecb, u_eventcb, &u_arg[w]);
}
#define U_PRIV(w) BEV_UPCAST(u_bev[w])
#endif
