/* evbuf_alloc.h -- allocator model for evbuffer harnesses (C12..C16, C42, bufferevents).
 *
 * USAGE
 *   #include "vp.h" / "log_stub.h" / "locks.h"
 *   #include "evbuf_alloc.h"        // instead of alloc.h (do not include both)
 *   #include "evbuf_copy.h"         // before the libevent unit
 *   #include "buffer.c"
 *   #include "evbuf_inv.h"          // after buffer.c (needs evbuffer-internal.h)
 *   cbmc flags (props file): cbmc=["--max-field-sensitivity-array-size", str(VP_OBJ)],
 *   defines=["LIBEVENT_VERIF_MIN_BUFFER_SIZE=64", ...],
 *   unwindset for recursion: evbuffer_chain_free:N, evbuffer_decref_and_unlock_:N,
 *   evbuffer_file_segment_free:N  (see props/C12.py: EVB_UNWINDSET).
 *
 * WHY (DESIGN 3.3, measured): malloc(symbolic size) makes symbolic-size arrays and
 * the propositional reduction runs out of 10-20 GB.  Every object handed to the
 * library therefore has the ONE literal size VP_OBJ; the request must fit
 * (asserted: a failure of "harness bound: allocation request exceeds VP_OBJ"
 * means the obligation's bounds must be tightened, it is not a libevent defect).
 * Consequence: overruns inside the slack (request..VP_OBJ) are invisible here;
 * memory-safety obligations use exact-size objects (alloc.h) instead.
 *
 * With scaled MIN_BUFFER_SIZE=64 and sizeof(struct evbuffer_chain)=48 the
 * library asks for 64 (16 payload bytes), 128 (80 payload) or 256; VP_OBJ=160
 * admits the first two and struct evbuffer (144 bytes).
 *
 * Fault injection: vp_evb_fail_enabled=1 makes every later allocation fail or
 * succeed by solver choice (one vp_bool() per call: symbolic fault schedule,
 * replayable).  vp_evb_fail_budget bounds the number of injected failures
 * (<0 = unbounded).  Alternatively vp_evb_fail_at = n fails exactly the n-th allocation from now on
 * (concrete schedule, vp_evb_fail_seen counts).  Counters: vp_evb_live (objects not yet freed; leak check
 * is "== 0 after everything was released"), vp_evb_allocs, vp_evb_failed.
 *
 * Harnesses that include event.c: #define VP_HAVE_EVENT_C first and install
 * vp_evb_malloc/vp_evb_realloc/vp_evb_free with event_set_mem_functions()
 * (or assign mm_malloc_fn_ etc. directly).
 */
#ifndef VP_EVBUF_ALLOC_H_
#define VP_EVBUF_ALLOC_H_
#include "vp.h"
#include <stdlib.h>
#include <string.h>

#ifndef VP_OBJ
#define VP_OBJ 160
#endif

int vp_evb_fail_enabled;
int vp_evb_fail_budget = -1;
/* concrete fault schedule: the vp_evb_fail_at-th allocation from now on fails (0 = none).  Prefer this over the
 * symbolic schedule whenever the harness can case-split on the index: a pointer that is "NULL or object" after a
 * merge makes every later field read through it symbolic (C14 single add: 10 GB), a concretely NULL one does not. */
int vp_evb_fail_at, vp_evb_fail_seen;
int vp_evb_allocs, vp_evb_frees, vp_evb_failed, vp_evb_live;

static int vp_evb_should_fail(void)
{
	if (vp_evb_fail_at) {
		vp_evb_fail_seen++;
		if (vp_evb_fail_seen == vp_evb_fail_at) { vp_evb_failed++; return 1; }
		return 0;
	}
	if (vp_evb_fail_enabled && vp_evb_fail_budget != 0 && vp_bool()) {
		if (vp_evb_fail_budget > 0) vp_evb_fail_budget--;
		vp_evb_failed++;
		return 1;
	}
	return 0;
}

static void *vp_evb_malloc(size_t sz)
{
	void *p;
	VP_ASSERT(sz <= VP_OBJ, "harness bound: allocation request exceeds VP_OBJ");
	__CPROVER_assume(sz <= VP_OBJ);
	if (vp_evb_should_fail()) return NULL;
	p = malloc(VP_OBJ);            /* literal size, always */
	__CPROVER_assume(p != NULL);
	vp_evb_allocs++; vp_evb_live++;
	return p;
}
static void *vp_evb_calloc1(size_t total)
{
	void *p;
	VP_ASSERT(total <= VP_OBJ, "harness bound: allocation request exceeds VP_OBJ");
	__CPROVER_assume(total <= VP_OBJ);
	if (vp_evb_should_fail()) return NULL;
	p = calloc(1, VP_OBJ);
	__CPROVER_assume(p != NULL);
	vp_evb_allocs++; vp_evb_live++;
	return p;
}
static void vp_evb_free(void *p)
{
	if (!p) return;
	vp_evb_frees++; vp_evb_live--;
	free(p);
}
/* realloc: never in place (worst case for callers keeping stale pointers);
 * the old block is VP_OBJ bytes, so is the new one. */
static void *vp_evb_realloc(void *old, size_t sz)
{
	unsigned char *p; size_t i;
	if (!old) return vp_evb_malloc(sz);
	VP_ASSERT(sz <= VP_OBJ, "harness bound: allocation request exceeds VP_OBJ");
	__CPROVER_assume(sz <= VP_OBJ);
	if (vp_evb_should_fail()) return NULL;
	p = malloc(VP_OBJ);
	__CPROVER_assume(p != NULL);
	for (i = 0; i < VP_OBJ; i++) p[i] = ((unsigned char *)old)[i];
	free(old);
	vp_evb_allocs++;
	return p;
}

#ifndef VP_HAVE_EVENT_C
/* same front-end behaviour as event.c: event_mm_malloc_(0) == NULL etc. */
void *event_mm_malloc_(size_t sz) { if (sz == 0) return NULL; return vp_evb_malloc(sz); }
void *event_mm_calloc_(size_t count, size_t size)
{
	if (count == 0 || size == 0) return NULL;
	if (count > ((size_t)-1) / size) return NULL;
	return vp_evb_calloc1(count * size);
}
char *event_mm_strdup_(const char *str)
{
	size_t ln, i; char *p;
	if (!str) return NULL;
	for (ln = 0; str[ln]; ln++) ;
	p = vp_evb_malloc(ln + 1);
	if (!p) return NULL;
	for (i = 0; i <= ln; i++) p[i] = str[i];
	return p;
}
void *event_mm_realloc_(void *ptr, size_t sz)
{
	if (sz == 0) { vp_evb_free(ptr); return NULL; }
	return vp_evb_realloc(ptr, sz);
}
void event_mm_free_(void *p) { vp_evb_free(p); }
#endif
#endif
