/* dns_evutil_stubs.h -- the evutil.c entry points evdns.c's request life cycle and
 * getaddrinfo code reach, as small models (C34/C38).  evutil.c itself is the
 * subject of C40/C41; here only equality of addresses, a formatting no-op and a
 * bounded string copy are needed.  Include after dns_unit_env.h, before evdns.c. */
#ifndef VP_DNS_EVUTIL_STUBS_H_
#define VP_DNS_EVUTIL_STUBS_H_
#include <netinet/in.h>
#include <stdarg.h>
#include "event2/util.h"

static int vps_sa_equal(const struct sockaddr *a, const struct sockaddr *b, int port)
{
	if (a->sa_family != b->sa_family) return 0;
	if (a->sa_family == AF_INET) {
		const struct sockaddr_in *x = (const void *)a, *y = (const void *)b;
		return x->sin_addr.s_addr == y->sin_addr.s_addr && (!port || x->sin_port == y->sin_port);
	} else if (a->sa_family == AF_INET6) {
		const struct sockaddr_in6 *x = (const void *)a, *y = (const void *)b; int i;
		for (i = 0; i < 16; i++) if (x->sin6_addr.s6_addr[i] != y->sin6_addr.s6_addr[i]) return 0;
		return !port || x->sin6_port == y->sin6_port;
	}
	return 0;
}
int evutil_sockaddr_cmp(const struct sockaddr *a, const struct sockaddr *b, int include_port) { return vps_sa_equal(a, b, include_port) ? 0 : 1; }
int evutil_sockaddr_is_loopback_(const struct sockaddr *sa) { (void)sa; return 0; }
const char *evutil_format_sockaddr_port_(const struct sockaddr *sa, char *out, size_t outlen) { (void)sa; if (outlen) out[0] = 0; return out; }
/* formatting is never the subject: an empty, terminated string */
int evutil_snprintf(char *buf, size_t buflen, const char *format, ...) { (void)format; if (buflen) buf[0] = 0; return 0; }
int evutil_vsnprintf(char *buf, size_t buflen, const char *format, va_list ap) { (void)format; (void)ap; if (buflen) buf[0] = 0; return 0; }
size_t event_strlcpy_(char *dst, const char *src, size_t siz)
{
	size_t i = 0;
	while (src[i]) { if (i + 1 < siz) dst[i] = src[i]; i++; }
	if (siz) dst[i < siz ? i : siz - 1] = 0;
	return i;
}
int EVUTIL_ISALPHA_(char c) { return (c >= 'a' && c <= 'z') || (c >= 'A' && c <= 'Z'); }
static char vps_lower(char c) { return (c >= 'A' && c <= 'Z') ? (char)(c + 32) : c; }
int evutil_ascii_strcasecmp(const char *s1, const char *s2)
{
	size_t i = 0;
	for (;; i++) {
		char a = vps_lower(s1[i]), b = vps_lower(s2[i]);
		if (a < b) return -1;
		if (a > b) return 1;
		if (!a) return 0;
	}
}
#endif
