/* bev_env.h -- environment of the bufferevent units (bufferevent.c, bufferevent_sock.c, bufferevent_pair.c,
 * bufferevent_filter.c) for harnesses where the event core, evutil and rate limiting are NOT the subject
 * (DESIGN C17-C20: "events by recording stubs").  Include AFTER the bufferevent .c files (needs their types) and after
 * vp.h / log_stub.h / locks.h / alloc.h.
 *
 * EVENT CORE CONTRACT (include/event2/event.h; verified for event.c by C01/C02/C03), state kept in the real
 * struct event fields so that event_pending()/event_initialized() of the units see what event.c would show:
 *   event_assign(ev,...)        ev becomes initialised and non-pending (assigning a pending event is an error: asserted)
 *   event_add(ev, tv)           ev pending on its I/O events (EVLIST_INSERTED) if it has any; tv != NULL: (re)starts the
 *                               timeout with duration *tv counted from now (vp_ev_armed_at = vp_bev_now);  tv == NULL:
 *                               an existing timeout is left as it is.  Fails (-1, no change) by solver choice if
 *                               vp_ev_add_may_fail.
 *   event_del(ev)               not pending on anything, timeout cancelled
 *   event_remove_timer(ev)      timeout cancelled, I/O registration kept
 *   event_pending(ev, what, tv) (EVLIST_INSERTED ? ev_events & what & (READ|WRITE|CLOSED|SIGNAL)) | (EVLIST_TIMEOUT ? what & EV_TIMEOUT)
 *   deferred callbacks          event_deferred_cb_schedule_ returns 1 and queues the callback if it is not queued yet,
 *                               else 0; the harness runs the queue FIFO with vp_run_deferred()
 *   event_callback_finalize_many_   all listed events/callbacks are cancelled; the finaliser runs later, once
 *                               (vp_run_finalizers())
 * Every add/del is counted per event (vp_evrec) so harnesses can tell "timer restarted" from "left alone".
 */
#ifndef VP_BEV_ENV_H_
#define VP_BEV_ENV_H_
#include "vp.h"
#include <errno.h>
#include <sys/socket.h>
#include "event2/event.h"
#include "event2/event_struct.h"
#include "event-internal.h"
#include "defer-internal.h"

/* ---- virtual time (only used to stamp timer starts) ----------------------------------------------------------------- */
static long vp_bev_now = 100;

/* ---- per-event records ---------------------------------------------------------------------------------------------- */
#ifndef VP_NEV
#define VP_NEV 4
#endif
struct vp_evrec { struct event *ev; int adds, adds_tv, dels, rmtimer, assigns; long armed_at; };
static struct vp_evrec vp_evrec[VP_NEV];
static int vp_nevrec;
static int vp_ev_add_may_fail;
static int vp_ev_add_fails;
static struct vp_evrec vp_evrec_dummy;
static struct vp_evrec *vp_rec(struct event *ev)
{
	int i;
	for (i = 0; i < VP_NEV; i++)
		if (i < vp_nevrec && vp_evrec[i].ev == ev) return &vp_evrec[i];
	VP_ASSERT(vp_nevrec < VP_NEV, "harness bound: more than VP_NEV events");
	__CPROVER_assume(vp_nevrec < VP_NEV);
	vp_evrec[vp_nevrec].ev = ev;
	return &vp_evrec[vp_nevrec++];
}
int event_assign(struct event *ev, struct event_base *base, evutil_socket_t fd, short events, event_callback_fn cb, void *arg)
{
	struct vp_evrec *r = vp_rec(ev);
	VP_ASSERT(r->assigns == 0 || !(ev->ev_flags & (EVLIST_INSERTED | EVLIST_TIMEOUT | EVLIST_ACTIVE)), "event contract: event_assign on a pending event");
	r->assigns++;
	ev->ev_base = base; ev->ev_fd = fd; ev->ev_events = events; ev->ev_callback = cb; ev->ev_arg = arg;
	ev->ev_flags = EVLIST_INIT; ev->ev_res = 0;
	ev->ev_pri = 0;
	ev->ev_closure = (events & EV_PERSIST) ? EV_CLOSURE_EVENT_PERSIST : EV_CLOSURE_EVENT;
	ev->ev_timeout.tv_sec = 0; ev->ev_timeout.tv_usec = 0;
	return 0;
}
int event_add(struct event *ev, const struct timeval *tv)
{
	struct vp_evrec *r = vp_rec(ev);
	VP_ASSERT(ev->ev_flags & EVLIST_INIT, "event contract: event_add on an event that was never assigned");
	VP_ASSERT(!(ev->ev_flags & EVLIST_FINALIZING), "event contract: event_add on a finalizing event");
	VP_ASSERT(tv == NULL || (tv->tv_sec >= 0 && tv->tv_usec >= 0), "event contract: negative timeout");
	if (vp_ev_add_may_fail && vp_bool()) { vp_ev_add_fails++; return -1; }
	r->adds++;
	if (ev->ev_events & (EV_READ | EV_WRITE | EV_CLOSED | EV_SIGNAL))
		ev->ev_flags |= EVLIST_INSERTED;
	if (tv != NULL) {
		r->adds_tv++;
		r->armed_at = vp_bev_now;
		ev->ev_flags |= EVLIST_TIMEOUT;
		ev->ev_timeout = *tv;           /* the DURATION (the core stores the deadline; harnesses only compare durations) */
	}
	return 0;
}
int event_del(struct event *ev)
{
	struct vp_evrec *r = vp_rec(ev);
	VP_ASSERT(ev->ev_flags & EVLIST_INIT, "event contract: event_del on an event that was never assigned");
	r->dels++;
	ev->ev_flags &= ~(EVLIST_INSERTED | EVLIST_TIMEOUT | EVLIST_ACTIVE | EVLIST_ACTIVE_LATER);
	return 0;
}
int event_remove_timer(struct event *ev)
{
	struct vp_evrec *r = vp_rec(ev);
	r->rmtimer++;
	ev->ev_flags &= ~EVLIST_TIMEOUT;
	return 0;
}
int event_pending(const struct event *ev, short what, struct timeval *tv)
{
	int flags = 0;
	(void)tv;
	if (ev->ev_flags & EVLIST_INSERTED) flags |= ev->ev_events & (EV_READ | EV_WRITE | EV_CLOSED | EV_SIGNAL);
	if (ev->ev_flags & EVLIST_TIMEOUT) flags |= EV_TIMEOUT;
	return flags & what & (EV_TIMEOUT | EV_READ | EV_WRITE | EV_CLOSED | EV_SIGNAL);
}
/* event_active(): the callback will run from the loop even though the condition was not reported by the back end */
void event_active(struct event *ev, int res, short ncalls)
{
	(void)ncalls;
	VP_ASSERT(ev->ev_flags & EVLIST_INIT, "event contract: event_active on an event that was never assigned");
	ev->ev_flags |= EVLIST_ACTIVE; ev->ev_res = (short)res;
}
static int vp_ev_active(const struct event *ev) { return (ev->ev_flags & EVLIST_ACTIVE) != 0; }
int event_initialized(const struct event *ev) { return (ev->ev_flags & EVLIST_INIT) != 0; }
evutil_socket_t event_get_fd(const struct event *ev) { return ev->ev_fd; }
int event_get_priority(const struct event *ev) { return ev->ev_pri; }
int event_priority_set(struct event *ev, int pri) { if (ev->ev_flags & EVLIST_ACTIVE) return -1; ev->ev_pri = (ev_uint8_t)pri; return 0; }
int event_base_set(struct event_base *base, struct event *ev) { if (ev->ev_flags != EVLIST_INIT) return -1; ev->ev_base = base; return 0; }
int event_base_get_npriorities(struct event_base *base) { (void)base; return 1; }
void event_debug_unassign(struct event *ev) { ev->ev_flags &= ~EVLIST_INIT; }
/* harness views */
static int vp_ev_io_pending(const struct event *ev) { return (ev->ev_flags & EVLIST_INSERTED) != 0; }
static int vp_ev_timer_pending(const struct event *ev) { return (ev->ev_flags & EVLIST_TIMEOUT) != 0; }

/* ---- deferred callbacks ------------------------------------------------------------------------------------------------ */
#ifndef VP_NDEFER
#define VP_NDEFER 4
#endif
static struct event_callback *vp_defq[VP_NDEFER];
static int vp_defq_n, vp_defer_scheduled_total;
void event_deferred_cb_init_(struct event_callback *cb, ev_uint8_t priority, deferred_cb_fn fn, void *arg)
{
	memset(cb, 0, sizeof(*cb));
	cb->evcb_cb_union.evcb_selfcb = fn;
	cb->evcb_arg = arg;
	cb->evcb_pri = priority;
	cb->evcb_closure = EV_CLOSURE_CB_SELF;
	cb->evcb_flags = EVLIST_INIT;
}
void event_deferred_cb_set_priority_(struct event_callback *cb, ev_uint8_t priority) { cb->evcb_pri = priority; }
int event_deferred_cb_schedule_(struct event_base *base, struct event_callback *cb)
{
	(void)base;
	if (cb->evcb_flags & (EVLIST_ACTIVE | EVLIST_ACTIVE_LATER)) return 0;
	VP_ASSERT(!(cb->evcb_flags & EVLIST_FINALIZING), "event contract: deferred callback scheduled while finalizing");
	VP_ASSERT(vp_defq_n < VP_NDEFER, "harness bound: deferred queue full");
	__CPROVER_assume(vp_defq_n < VP_NDEFER);
	cb->evcb_flags |= EVLIST_ACTIVE_LATER;
	vp_defq[vp_defq_n++] = cb;
	vp_defer_scheduled_total++;
	return 1;
}
void event_deferred_cb_cancel_(struct event_base *base, struct event_callback *cb)
{
	(void)base;
	/* lazy deletion: the queue entry stays, vp_run_deferred() skips entries that are no longer marked active */
	cb->evcb_flags &= ~(EVLIST_ACTIVE | EVLIST_ACTIVE_LATER);
}
/* the harness dispatches (no indirect call: the candidates are named in the harness) */
static void vp_deferred_dispatch(struct event_callback *cb);
/* run what is queued now, FIFO; callbacks queued meanwhile stay for the next call (like one loop iteration) */
static int vp_run_deferred(void)
{
	struct event_callback *q[VP_NDEFER]; int n = vp_defq_n, i, ran = 0;
	for (i = 0; i < VP_NDEFER; i++) q[i] = i < n ? vp_defq[i] : NULL;
	vp_defq_n = 0;
	for (i = 0; i < VP_NDEFER; i++)
		if (i < n && (q[i]->evcb_flags & (EVLIST_ACTIVE | EVLIST_ACTIVE_LATER))) {
			q[i]->evcb_flags &= ~(EVLIST_ACTIVE | EVLIST_ACTIVE_LATER);
			vp_deferred_dispatch(q[i]);
			ran++;
		}
	return ran;
}

/* ---- finalisation ------------------------------------------------------------------------------------------------------ */
#ifndef VP_NFIN
#define VP_NFIN 3
#endif
struct vp_fin { void (*fn)(struct event_callback *, void *); struct event_callback *cb; void *arg; };
static struct vp_fin vp_finq[VP_NFIN];
static int vp_fin_scheduled, vp_fin_ran;
int event_callback_finalize_many_(struct event_base *base, int n_cbs, struct event_callback **evcbs, void (*cb)(struct event_callback *, void *))
{
	int i;
	(void)base;
	VP_ASSERT(n_cbs >= 1 && n_cbs <= 6, "harness bound: finalize_many with more than 6 callbacks (no deferred evbuffer callbacks, no rate limit)");
	for (i = 0; i < 6; i++)
		if (i < n_cbs) {
			struct event_callback *e = evcbs[i];
			if (e->evcb_flags & EVLIST_INIT) {
				if (e->evcb_closure == EV_CLOSURE_CB_SELF) event_deferred_cb_cancel_(base, e);
				else e->evcb_flags &= ~(EVLIST_INSERTED | EVLIST_TIMEOUT | EVLIST_ACTIVE | EVLIST_ACTIVE_LATER);
				e->evcb_flags |= EVLIST_FINALIZING;
			}
		}
	VP_ASSERT(vp_fin_scheduled < VP_NFIN, "harness bound: finaliser queue full");
	__CPROVER_assume(vp_fin_scheduled < VP_NFIN);
	vp_finq[vp_fin_scheduled].fn = cb; vp_finq[vp_fin_scheduled].cb = evcbs[0]; vp_finq[vp_fin_scheduled].arg = evcbs[0]->evcb_arg;
	vp_fin_scheduled++;
	return 0;
}

/* ---- evutil ------------------------------------------------------------------------------------------------------------ */
#ifndef VP_BEV_NCLOSE
#define VP_BEV_NCLOSE 4
#endif
static int vp_bev_closed[VP_BEV_NCLOSE]; static int vp_bev_nclosed;
int evutil_closesocket(evutil_socket_t s) { if (vp_bev_nclosed < VP_BEV_NCLOSE) vp_bev_closed[vp_bev_nclosed] = s; vp_bev_nclosed++; return 0; }
/* connect(): 0 in progress, 1 connected at once, 2 refused at once, -1 other error (util-internal.h) */
static int vp_connect_result = 0; static int vp_connect_calls;
int evutil_socket_connect_(evutil_socket_t *fd_ptr, const struct sockaddr *sa, int socklen)
{
	(void)sa; (void)socklen;
	vp_connect_calls++;
	VP_ASSERT(*fd_ptr >= 0, "harness: connect on an invalid socket");
	return vp_connect_result;
}
/* 1 connected, 0 still in progress, -1 failed */
static int vp_finished_connecting = 1; static int vp_finished_calls;
int evutil_socket_finished_connecting_(evutil_socket_t fd) { (void)fd; vp_finished_calls++; if (vp_finished_connecting < 0) errno = ECONNREFUSED; return vp_finished_connecting; }
static int vp_socket_fail; static int vp_socket_next = 40; static int vp_socket_calls;
evutil_socket_t evutil_socket_(int domain, int type, int protocol) { (void)domain; (void)type; (void)protocol; vp_socket_calls++; if (vp_socket_fail) return -1; return vp_socket_next++; }
static int vp_gai_cancel_calls;
void evutil_getaddrinfo_cancel_async_(struct evdns_getaddrinfo_request *data) { if (data) vp_gai_cancel_calls++; }
static int vp_gai_calls; static void *vp_gai_arg; static int vp_gai_dummy_req;
struct evdns_getaddrinfo_request *evutil_getaddrinfo_async_(struct evdns_base *dns_base, const char *nodename, const char *servname,
    const struct evutil_addrinfo *hints_in, void (*cb)(int, struct evutil_addrinfo *, void *), void *arg)
{
	(void)dns_base; (void)nodename; (void)servname; (void)hints_in; (void)cb;
	vp_gai_calls++; vp_gai_arg = arg;
	return (struct evdns_getaddrinfo_request *)&vp_gai_dummy_req;   /* answer delivered later by the harness */
}
static int vp_freeaddrinfo_calls;
void evutil_freeaddrinfo(struct evutil_addrinfo *ai) { (void)ai; vp_freeaddrinfo_calls++; }
int evutil_snprintf(char *buf, size_t buflen, const char *format, ...) { (void)format; if (buflen) buf[0] = 0; return 0; }
static int vp_getpeername(int fd, struct sockaddr *addr, socklen_t *len) { (void)fd; (void)addr; (void)len; return 0; }

/* ---- rate limiting (bufferevent_ratelim.c is C22's unit): no limit configured -------------------------------------------- */
#ifndef VP_BEV_MAX_SINGLE
#define VP_BEV_MAX_SINGLE 16384
#endif
int bufferevent_ratelim_init_(struct bufferevent_private *bev)
{
	bev->rate_limiting = NULL;
	bev->max_single_read = VP_BEV_MAX_SINGLE;
	bev->max_single_write = VP_BEV_MAX_SINGLE;
	return 0;
}
ev_ssize_t bufferevent_get_read_max_(struct bufferevent_private *bev) { return bev->max_single_read; }
ev_ssize_t bufferevent_get_write_max_(struct bufferevent_private *bev) { return bev->max_single_write; }
static long vp_rl_read_dec, vp_rl_write_dec;
int bufferevent_decrement_read_buckets_(struct bufferevent_private *bev, ev_ssize_t bytes) { (void)bev; vp_rl_read_dec += (long)bytes; return 0; }
int bufferevent_decrement_write_buckets_(struct bufferevent_private *bev, ev_ssize_t bytes) { (void)bev; vp_rl_write_dec += (long)bytes; return 0; }
int bufferevent_remove_from_rate_limit_group_internal_(struct bufferevent *bev, int unsuspend) { (void)bev; (void)unsuspend; return 0; }

/* ---- dispatch of recorded callbacks (direct calls: no function-pointer candidates) ---------------------------------------- */
static void vp_deferred_dispatch(struct event_callback *cb)
{
	deferred_cb_fn fn = cb->evcb_cb_union.evcb_selfcb;
	if (fn == bufferevent_run_deferred_callbacks_locked) bufferevent_run_deferred_callbacks_locked(cb, cb->evcb_arg);
	else if (fn == bufferevent_run_deferred_callbacks_unlocked) bufferevent_run_deferred_callbacks_unlocked(cb, cb->evcb_arg);
	else VP_ASSERT(0, "harness: unknown deferred callback");
}
/* run the finalisers scheduled so far (what the event loop does after the callbacks were cancelled) */
static int vp_run_finalizers(void)
{
	int i, ran = 0, n = vp_fin_scheduled;
	for (i = 0; i < VP_NFIN; i++)
		if (i >= vp_fin_ran && i < n) {
			VP_ASSERT(vp_finq[i].fn == bufferevent_finalize_cb_, "harness: unknown finaliser");
			vp_fin_ran++;
			bufferevent_finalize_cb_(vp_finq[i].cb, vp_finq[i].arg);
			ran++;
		}
	return ran;
}
#endif
