/* evbuf_inv.h -- evbuffer representation-invariant validator + direct readers.
 *
 * USAGE: include AFTER the unit that defines struct evbuffer / evbuffer_chain
 * (#include "buffer.c" or "evbuffer-internal.h").
 *   vp_evb_check(buf, "after add")   asserts the chain invariant (VP_ASSERTs,
 *                                    text prefixed "C12 inv:").
 *   vp_evb_nchains(buf)              number of chains (<= VP_EVB_MAXCH asserted)
 *   vp_evb_count_flag(buf, flag)     number of chains with EVBUFFER_* flag set
 *   vp_evb_byte(buf, i)              i-th payload byte read straight from the
 *                                    chains (independent of evbuffer_copyout)
 *   vp_evb_flatten(buf, out, cap)    all payload bytes, returns count
 * Loops are bounded by VP_EVB_MAXCH (default 6) chains: give cbmc
 * unwind >= VP_EVB_MAXCH+1 for vp_evb_* loops.
 *
 * The invariant is what evbuffer-internal.h documents for struct evbuffer:
 *   I1 first==NULL <=> last==NULL; then last_with_datap==&first, total_len==0
 *   I2 the list from first is acyclic within the bound and ends at last
 *   I3 total_len == sum of chain->off
 *   I4 per chain: misalign >= 0, misalign + off <= buffer_len, refcnt >= 1,
 *      buffer != NULL unless SENDFILE
 *   I5 last_with_datap is &first or &c->next of a chain c in the list;
 *      if some chain has data, *last_with_datap is the LAST chain with off>0;
 *      if no chain has data, last_with_datap == &first
 *   I6 (strict, default) no empty chain before the last chain with data
 *      ("empties only trailing"); define VP_EVB_ALLOW_INNER_EMPTY to drop I6
 *      (evbuffer_commit_space with a zero-length first vector legitimately
 *      produces one).
 */
#ifndef VP_EVBUF_INV_H_
#define VP_EVBUF_INV_H_
#include "vp.h"

#ifndef VP_EVB_MAXCH
#define VP_EVB_MAXCH 6
#endif

static int vp_evb_nchains(const struct evbuffer *b)
{
	const struct evbuffer_chain *c; int k = 0;
	for (c = b->first; c && k < VP_EVB_MAXCH; c = c->next) k++;
	VP_ASSERT(c == NULL, "harness bound: more than VP_EVB_MAXCH chains");
	return k;
}

/* number of chains in the list carrying all bits of 'flag' */
static int vp_evb_count_flag(const struct evbuffer *b, unsigned flag)
{
	const struct evbuffer_chain *c; int k = 0, n = 0;
	for (c = b->first; c && k < VP_EVB_MAXCH; c = c->next, k++)
		if ((c->flags & flag) == flag) n++;
	return n;
}

static void vp_evb_check(const struct evbuffer *b, const char *where)
{
	const struct evbuffer_chain *c, *lastseen = NULL, *last_data = NULL;
	size_t sum = 0; int k = 0, lwdp_ok, seen_empty = 0, inner_empty = 0;
	(void)where;
	if (b->first == NULL) {
		VP_ASSERT(b->last == NULL, "C12 inv: first==NULL but last!=NULL");
		VP_ASSERT(b->last_with_datap == &((struct evbuffer *)b)->first, "C12 inv: no chains but last_with_datap != &first");
		VP_ASSERT(b->total_len == 0, "C12 inv: no chains but total_len != 0");
		return;
	}
	VP_ASSERT(b->last != NULL, "C12 inv: first!=NULL but last==NULL");
	lwdp_ok = (b->last_with_datap == &((struct evbuffer *)b)->first);
	for (c = b->first; c && k < VP_EVB_MAXCH; c = c->next, k++) {
		VP_ASSERT(c->misalign >= 0, "C12 inv: negative misalign");
		VP_ASSERT(c->off <= c->buffer_len && (size_t)c->misalign <= c->buffer_len - c->off,
		    "C12 inv: misalign + off exceeds buffer_len");
		VP_ASSERT(c->refcnt >= 1, "C12 inv: chain in list with refcnt < 1");
		VP_ASSERT(c->buffer != NULL || (c->flags & EVBUFFER_SENDFILE), "C12 inv: chain without buffer");
		sum += c->off;
		if (c->off) {
			last_data = c;
			if (seen_empty) inner_empty = 1;
		} else {
			seen_empty = 1;
		}
		if (b->last_with_datap == &((struct evbuffer_chain *)c)->next) lwdp_ok = 1;
		lastseen = c;
	}
	VP_ASSERT(c == NULL, "harness bound: more than VP_EVB_MAXCH chains");
	VP_ASSERT(lastseen == b->last, "C12 inv: last is not the final chain of the list");
	VP_ASSERT(sum == b->total_len, "C12 inv: total_len != sum of chain->off");
	VP_ASSERT(lwdp_ok, "C12 inv: last_with_datap does not point into this buffer's list");
	if (last_data)
		VP_ASSERT(*b->last_with_datap == last_data, "C12 inv: *last_with_datap is not the last chain holding data");
	else
		VP_ASSERT(b->last_with_datap == &((struct evbuffer *)b)->first, "C12 inv: all chains empty but last_with_datap != &first");
#ifndef VP_EVB_ALLOW_INNER_EMPTY
	VP_ASSERT(!inner_empty, "C12 inv: empty chain before the last chain with data");
#else
	(void)inner_empty;
#endif
}

/* i-th payload byte, read from the chains (i < total_len required) */
static unsigned char vp_evb_byte(const struct evbuffer *b, size_t i)
{
	const struct evbuffer_chain *c; int k = 0;
	for (c = b->first; c && k < VP_EVB_MAXCH; c = c->next, k++) {
		if (i < c->off) return c->buffer[c->misalign + i];
		i -= c->off;
	}
	VP_ASSERT(0, "harness: vp_evb_byte index beyond the stored data");
	return 0;
}

/* all payload bytes by walking the chains; returns the number written (<= cap) */
static size_t vp_evb_flatten(const struct evbuffer *b, unsigned char *out, size_t cap)
{
	const struct evbuffer_chain *c; int k = 0; size_t n = 0, j;
	for (c = b->first; c && k < VP_EVB_MAXCH; c = c->next, k++)
		for (j = 0; j < c->off && n < cap; j++)
			out[n++] = c->buffer[c->misalign + j];
	return n;
}
#endif
