/* typed_alloc.h -- mm_realloc() stand-ins for the back-end units that hand out
 * *typed* tables.  cbmc gives `malloc(n * sizeof(T))` the type T[n]; the same
 * request made through a `void *f(size_t)` wrapper is a char[] and every table
 * access with a symbolic index (idxplus1 after a state merge) becomes a byte
 * extraction over the whole block (measured: poll shapes 4 M variables / OOM).
 * The harness re-#defines mm_realloc per unit before #including it:
 *     #define mm_realloc(p, sz) vp_realloc_evmap((p), (sz))     (evmap.c)
 *     #define mm_realloc(p, sz) vp_realloc_backend((p), (sz))   (poll.c / select.c / epoll.c)
 * Sizes are exactly the first-allocation sizes of the units; any other size is
 * served untyped.  As in alloc_nogrow.h a realloc of a live block is a bound
 * violation (asserted).  Include after alloc_nogrow.h and mm-internal.h. */
#ifndef VP_TYPED_ALLOC_H_
#define VP_TYPED_ALLOC_H_
#include <poll.h>
#include <sys/select.h>
#include "event2/util.h"
#include "event-internal.h"
#include "mm-internal.h"
#include "changelist-internal.h"
#undef mm_realloc
/* evmap.c: mm_calloc(1, sizeof(struct evmap_io) + fdinfo_len) -> one typed {struct evmap_io; fdinfo word}
 * (defined in iobase.h, after evmap.c, because struct evmap_io is private to evmap.c):
 *     #define mm_calloc(n, sz) vp_calloc_evmap((n), (sz))   before #include "evmap.c" */
static void *vp_calloc_evmap(size_t n, size_t sz);
static void *vp_realloc_grow_check(void *p)
{
	if (p != NULL) {
		VP_ASSERT(0, "harness bound: a table had to grow (realloc of a live block) -- outside this obligation's bound");
		__CPROVER_assume(0);
	}
	return NULL;
}
static void *vp_realloc_evmap(void *p, size_t sz)
{
	void *q;
	vp_realloc_grow_check(p);
	vp_alloc_calls++;
	if (sz == 32 * sizeof(void *)) q = malloc(32 * sizeof(void *));                       /* evmap_make_space: entries[32] */
	else if (sz == 64 * sizeof(struct event_change)) q = malloc(64 * sizeof(struct event_change)); /* event_changelist_grow */
	else q = malloc(sz);
	__CPROVER_assume(q != NULL);
	return q;
}
static void *vp_realloc_backend(void *p, size_t sz)
{
	void *q;
#ifdef VP_FDSET_INPLACE_REALLOC
	/* select.c only: fd_sets are handed out as whole fd_set objects (see below), so growing one up to sizeof(fd_set)
	 * is an in-place realloc: same block, old bytes kept, new bytes indeterminate (select_resize clears them) */
	if (p != NULL && sz <= sizeof(fd_set)) { vp_alloc_calls++; return p; }
#endif
	vp_realloc_grow_check(p);
	vp_alloc_calls++;
	if (sz == 32 * sizeof(struct pollfd)) q = malloc(32 * sizeof(struct pollfd));          /* poll_add: event_set[32] */
	else if (sz >= sizeof(unsigned long) && sz <= sizeof(fd_set)) q = malloc(1 * sizeof(fd_set)); /* select_resize: libevent sizes fd_sets by the highest fd (8 bytes here);
	                                                                                                 cbmc bounds-checks `set->fds_bits` as the whole 128-byte member, so a full fd_set is handed out */
	else q = malloc(sz);
	__CPROVER_assume(q != NULL);
	return q;
}
/* signal.c / signalfd.c: the saved dispositions (struct sigaction, one per signal) and the sh_old pointer
 * table, typed.  Before #include "signal.c":
 *     #define mm_malloc(sz) vp_malloc_signal((sz))
 *     #define mm_realloc(p, sz) vp_realloc_signal((p), (sz))
 * The table may grow (a second, higher signal number): old entries are copied element-wise. */
#include <signal.h>
static size_t vp_shold_n;
static void *vp_malloc_signal(size_t sz)
{
	void *q;
	vp_alloc_calls++;
	if (sz == sizeof(struct sigaction)) q = malloc(sizeof(struct sigaction));
	else q = malloc(sz);
	__CPROVER_assume(q != NULL);
	return q;
}
static void *vp_realloc_signal(void *p, size_t sz)
{
	size_t n = sz / sizeof(struct sigaction *), i;
	struct sigaction **q, **old = p;
	vp_alloc_calls++;
	VP_ASSERT(sz % sizeof(struct sigaction *) == 0 && n >= 1 && n <= 65, "harness: sh_old table request of an unexpected size");
	q = malloc(n * sizeof(struct sigaction *));
	__CPROVER_assume(q != NULL);
	if (old) {
		for (i = 0; i < 65; i++) if (i < vp_shold_n && i < n) q[i] = old[i];
		free(old);
	}
	vp_shold_n = n;
	return q;
}
#endif
