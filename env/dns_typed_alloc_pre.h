/* dns_typed_alloc_pre.h / dns_typed_alloc_post.h -- typed heap objects for evdns.c.
 * cbmc types `malloc(sizeof(T))` as a T only when the sizeof is written at the call; the same request made through
 * the library's event_mm_malloc_(size_t) wrapper yields a char[] whose pointer-valued fields are read back through
 * byte extraction with a field-insensitive value set.  Writing through such a pointer (req->request in
 * evdns_request_data_build) makes symex guard an update of EVERY object the block ever pointed to, after which no
 * field of the evdns_base is a constant for symex any more (nameserver_pick no longer terminates, minutes per step).
 * So evdns.c's mm_malloc/mm_calloc are redirected to an allocator that hands out exactly-typed objects for the
 * structures of evdns.c (sizes compared at run time, all other sizes are served untyped).
 * Use:   #include "dns_typed_alloc_pre.h"   before  #include "evdns.c"
 *        #include "dns_typed_alloc_post.h"  after it (the structures are private to evdns.c).
 * Object sizes are exact (same size as requested) except for the request block (header + query bytes, see post.h). */
#ifndef VP_DNS_TYPED_ALLOC_PRE_H_
#define VP_DNS_TYPED_ALLOC_PRE_H_
#include "mm-internal.h"
static void *vpd_malloc(size_t sz);
static void *vpd_calloc(size_t n, size_t sz);
static void vpd_free(void *p);
static char *vpd_strdup(const char *s);
#undef mm_malloc
#undef mm_calloc
#undef mm_free
#define mm_free(p) vpd_free((p))
#undef mm_strdup
#define mm_strdup(s) vpd_strdup((s))      /* byte loop: the copy of a literal stays a constant for symex */
#define mm_malloc(sz) vpd_malloc((sz))
#define mm_calloc(n, sz) vpd_calloc((n), (sz))
/* memset(obj, 0, sizeof(T)) on a typed object goes through a byte view under cbmc's model, after which the fields are
 * no longer constants for symex: typed zero assignment for the structures of evdns.c, byte loop otherwise */
#ifdef VP_CBMC
static void *vpd_memset(void *p, int c, size_t n);
#define memset(p, c, n) vpd_memset((p), (c), (n))
/* likewise memcpy(&typed, &typed, sizeof(T)): a byte-loop copy into a member turns the whole enclosing object into a
 * byte_update expression (function pointers stored in it are then no constants: every candidate target is explored) */
static void *vpd_memcpy(void *d, const void *s, size_t n);       /* literal size: typed copy where the size names a structure */
static void *vpd_memcpy_var(void *d, const void *s, size_t n);   /* computed size: byte loop only (with a symbolic n every typed
                                                                   * branch would be explored: 3.6 M variables for a 6-byte name) */
#undef memcpy
#define memcpy(d, s, n) (__builtin_constant_p(n) ? vpd_memcpy((d), (s), (n)) : vpd_memcpy_var((d), (s), (n)))
#endif
#endif
