/* http_evutil.h -- pulls the real evutil.c into an HTTP harness TU
 * (evutil_ascii_strcasecmp, evutil_ascii_strncasecmp, evutil_rtrim_lws_,
 * evutil_strtoll, EVUTIL_IS*_ tables are used by http.c).
 *
 * Work-around for cbmc 6.11: evutil.c contains
 *     static void *(*volatile evutil_memset_volatile_)(void *, int, size_t) = memset;
 * After any goto-instrument pass (--replace-calls for the DESIGN 3.8 cuts) the
 * symbol expression in that static initialiser has no source location and
 * cbmc's library linker aborts ("front-ends should construct symbol
 * expressions with source locations", casting_replace_symbol.cpp:93).
 * Inside evutil.c only, memset is therefore a byte-loop function of our own,
 * so that cbmc never links its library memset against that initialiser.  None
 * of the evutil functions the HTTP harnesses reach calls memset.
 */
#ifndef VP_HTTP_EVUTIL_H_
#define VP_HTTP_EVUTIL_H_
#include <string.h>
#ifdef VP_CBMC
static void *vp_evutil_memset(void *s, int c, size_t n)
{
	size_t i;
	for (i = 0; i < n; i++)
		((unsigned char *)s)[i] = (unsigned char)c;
	return s;
}
#define memset vp_evutil_memset
#include "evutil.c"
#undef memset
#else
#include "evutil.c"
#endif
#endif
