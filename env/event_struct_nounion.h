/* event_struct_nounion.h -- compile include/event2/event_struct.h with its three anonymous-purpose
 * unions (struct event::ev_, struct event::ev_timeout_pos, struct event_callback::evcb_cb_union) laid
 * out as structs.
 * Why: cbmc symex treats a union as one atomic value; LIST_INSERT_HEAD on ev_io_next leaves
 * `byte_update(<union literal>, 8, ptr)` and a later read of .le_next is not folded, so every list walk
 * (evmap_io_active_, event_process_active...) continues with an unresolvable pointer and the callback
 * function pointers become symbolic: no signal/reinit history finished in 300 s.  With members side by
 * side the same histories take seconds.
 * Soundness of the substitution: the library never writes one member of these unions and reads another
 * (ev_io vs ev_signal is selected by EV_SIGNAL in ev_events; min_heap_idx vs ev_next_with_common_timeout by
 * is_common_timeout(); evcb_* by evcb_closure) -- checked by reading event.c/evmap.c/signal.c; the
 * header text itself is the real one.  Object sizes grow (struct event 128 -> 184 bytes), so nothing here
 * is a claim about layout.  Include FIRST in a harness. */
#ifndef VP_EVENT_STRUCT_NOUNION_H_
#define VP_EVENT_STRUCT_NOUNION_H_
#include "event2/event-config.h"
#include "evconfig-private.h"
#include <sys/types.h>
#include <sys/time.h>
#include "event2/util.h"
#include "event2/keyvalq_struct.h"
#define union struct
#include "event2/event_struct.h"
#undef union
#endif
