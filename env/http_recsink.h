/* http_recsink.h -- recording sink evbuffer for serialisation harnesses (C26).
 * Include AFTER http.c.  The output evbuffer does not hold bytes; it records
 * the sequence of write operations http.c performs on it:
 *     evbuffer_add_printf(out, fmt, args...)   -> (PRINTF, fmt, converted args)
 *     evbuffer_add(out, data, n)               -> (ADD, first bytes, n)
 *     evbuffer_add_buffer(out, src)            -> (ADDBUF, src, length moved)
 * The bytes on the wire are, by ISO C 7.21.6 and the evbuffer contract, the
 * concatenation of the results of these operations in order; a harness
 * asserts the sequence and the arguments, and the format lemma (C26_lemma.c)
 * covers what a recipient makes of the formatted bytes.
 * Other evbuffers (bodies) only carry a length (symbolic lengths allowed:
 * no byte is ever stored).
 */
#ifndef VP_HTTP_RECSINK_H_
#define VP_HTTP_RECSINK_H_
#ifndef VP_REC_MAX
#define VP_REC_MAX 10
#endif
#define VP_REC_PRINTF 1
#define VP_REC_ADD    2
#define VP_REC_ADDBUF 3
/* int-class variadic arguments: see VP_VA_INT in http_fmt.h (cbmc does not widen char arguments) */
#ifdef VP_CBMC
#define VP_RS_INT(ap) VP_VA_INT(ap)
#define VP_RS_UINT(ap) VP_VA_UINT(ap)
#define VP_RS_ULONG(ap) VP_VA_UINT(ap)
#else
#define VP_RS_INT(ap) ((long long)va_arg(ap, int))
#define VP_RS_UINT(ap) ((unsigned long long)va_arg(ap, unsigned))
#define VP_RS_ULONG(ap) ((unsigned long long)va_arg(ap, unsigned long))
#endif
struct vp_rec {
	int kind;
	const char *fmt;             /* PRINTF */
	int nargs;
	char argt[4];                /* 's' string, 'd' int, 'u' unsigned (any base), 'l' long/size_t-wide unsigned */
	const char *sarg[4];
	unsigned long long narg[4];
	unsigned char bytes[8];      /* ADD: the first bytes */
	size_t n;                    /* ADD: count; ADDBUF: bytes moved */
	struct evbuffer *src;        /* ADDBUF */
};
struct evbuffer {
	size_t len;                  /* bytes "held" (a length only) */
	int is_sink;
	int nrec;
	struct vp_rec rec[VP_REC_MAX];
};
static struct evbuffer vp_rs_pool[4];
static int vp_rs_used;
struct evbuffer *evbuffer_new(void)
{
	VP_ASSERT(vp_rs_used < 4, "http_recsink: out of buffers");
	vp_rs_pool[vp_rs_used].len = 0; vp_rs_pool[vp_rs_used].nrec = 0; vp_rs_pool[vp_rs_used].is_sink = 0;
	return &vp_rs_pool[vp_rs_used++];
}
void evbuffer_free(struct evbuffer *b) { (void)b; }
size_t evbuffer_get_length(const struct evbuffer *b) { return b->len; }
static struct vp_rec *vp_rs_next(struct evbuffer *b)
{
	VP_ASSERT(b->nrec < VP_REC_MAX, "http_recsink: too many write operations (harness bound VP_REC_MAX)");
	return &b->rec[b->nrec < VP_REC_MAX ? b->nrec++ : VP_REC_MAX - 1];
}
int evbuffer_add(struct evbuffer *b, const void *data, size_t n)
{
	struct vp_rec *r = vp_rs_next(b);
	size_t i;
	r->kind = VP_REC_ADD; r->n = n;
	for (i = 0; i < 8; i++) r->bytes[i] = i < n ? ((const unsigned char *)data)[i] : 0;
	b->len += n;
	return 0;
}
int evbuffer_add_buffer(struct evbuffer *dst, struct evbuffer *src)
{
	struct vp_rec *r = vp_rs_next(dst);
	r->kind = VP_REC_ADDBUF; r->src = src; r->n = src->len;
	dst->len += src->len;
	src->len = 0;
	return 0;
}
int evbuffer_add_printf(struct evbuffer *b, const char *fmt, ...)
{
	struct vp_rec *r = vp_rs_next(b);
	va_list ap;
	size_t i = 0;
	r->kind = VP_REC_PRINTF; r->fmt = fmt; r->nargs = 0;
	va_start(ap, fmt);
	while (fmt[i] != '\0') {
		if (fmt[i++] != '%') continue;
		{
			int wide = 0;
			while (fmt[i] == 'l' || fmt[i] == 'z' || (fmt[i] >= '0' && fmt[i] <= '9')) { if (fmt[i] == 'l' || fmt[i] == 'z') wide = 1; i++; }
			if (fmt[i] == '%') { i++; continue; }
			VP_ASSERT(r->nargs < 4, "http_recsink: more than 4 conversions");
			if (fmt[i] == 's') { r->argt[r->nargs] = 's'; r->sarg[r->nargs] = va_arg(ap, const char *); }
			else if (fmt[i] == 'd' && !wide) { r->argt[r->nargs] = 'd'; r->narg[r->nargs] = (unsigned long long)VP_RS_INT(ap); }
			else if ((fmt[i] == 'x' || fmt[i] == 'u' || fmt[i] == 'X') && !wide) { r->argt[r->nargs] = 'u'; r->narg[r->nargs] = VP_RS_UINT(ap); }
			else if (fmt[i] == 'x' || fmt[i] == 'u' || fmt[i] == 'X' || fmt[i] == 'd') { r->argt[r->nargs] = 'l'; r->narg[r->nargs] = VP_RS_ULONG(ap); }
			else VP_ASSERT(0, "http_recsink: conversion not covered");
			r->nargs++;
			i++;
		}
	}
	va_end(ap);
	b->len += 1; /* some bytes */
	return 1;
}
/* the recorded format string equals a literal */
static int vp_fmt_is(const struct vp_rec *r, const char *lit)
{
	size_t i;
	if (r->kind != VP_REC_PRINTF) return 0;
	for (i = 0; i < 40; i++) {
		if (r->fmt[i] != lit[i]) return 0;
		if (lit[i] == '\0') return 1;
	}
	return 0;
}
#endif
