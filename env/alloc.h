/* alloc.h -- the library's allocation entry points (event_mm_*_), for
 * harnesses that do not include event.c.  Exact-size objects (memory-safety
 * obligations see real bounds).  With VP_ALLOC_MAY_FAIL every allocation
 * fails nondeterministically (fault schedule decided by the solver); the
 * harness can switch failures on/off with vp_alloc_fail_enabled. */
#ifndef VP_ALLOC_H_
#define VP_ALLOC_H_
#include "vp.h"
#include <stdlib.h>
#include <string.h>
int vp_alloc_fail_enabled;
int vp_alloc_calls, vp_alloc_failed, vp_free_calls;
static int vp_alloc_should_fail(void)
{
#ifdef VP_ALLOC_MAY_FAIL
	if (vp_alloc_fail_enabled && vp_bool()) { vp_alloc_failed++; return 1; }
#endif
	return 0;
}
#ifndef VP_HAVE_EVENT_C
void *event_mm_malloc_(size_t sz)
{
	void *p;
	if (sz == 0) return NULL;
	vp_alloc_calls++;
	if (vp_alloc_should_fail()) return NULL;
	p = malloc(sz);
	__CPROVER_assume(p != NULL);
	return p;
}
void *event_mm_calloc_(size_t count, size_t size)
{
	void *p;
	if (count == 0 || size == 0) return NULL;
	if (count > ((size_t)-1) / size) return NULL;
	vp_alloc_calls++;
	if (vp_alloc_should_fail()) return NULL;
	p = calloc(count, size);
	__CPROVER_assume(p != NULL);
	return p;
}
char *event_mm_strdup_(const char *str)
{
	size_t ln; char *p;
	if (!str) return NULL;
	vp_alloc_calls++;
	if (vp_alloc_should_fail()) return NULL;
	ln = strlen(str);
	p = malloc(ln + 1);
	__CPROVER_assume(p != NULL);
	memcpy(p, str, ln + 1);
	return p;
}
void *event_mm_realloc_(void *ptr, size_t sz)
{
	void *p;
	vp_alloc_calls++;
	if (sz == 0) { free(ptr); return NULL; }
	if (vp_alloc_should_fail()) return NULL;
	p = realloc(ptr, sz);
	__CPROVER_assume(p != NULL);
	return p;
}
void event_mm_free_(void *p) { vp_free_calls++; free(p); }
#endif
#endif
