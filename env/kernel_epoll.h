/* kernel_epoll.h -- executable contract model of one epoll instance
 * (epoll_ctl(2)): a registration per fd {present, events}; ADD on a registered
 * fd -> EEXIST, MOD/DEL on an unregistered fd -> ENOENT, operations on a closed
 * fd -> EBADF; closing an fd drops its registration.  Small fd universe. */
#ifndef VP_KERNEL_EPOLL_H_
#define VP_KERNEL_EPOLL_H_
#include "vp.h"
#include <sys/epoll.h>
#include <errno.h>
#ifndef VP_NFD
#define VP_NFD 4
#endif
struct vp_kreg { int open; int present; unsigned events; };
struct vp_kreg vp_k[VP_NFD];
int vp_k_epfd = 100;
int vp_k_ctl_calls;        /* number of epoll_ctl calls seen */
int vp_k_first_ctl_ok = -1;/* result of the first epoll_ctl call: 1 accepted, 0 refused */
int vp_k_ctl_badfd;        /* a call named an fd/epfd outside the model */
int vp_k_last_op, vp_k_last_fd; unsigned vp_k_last_events;
int vp_k_fail_next;        /* harness-controlled: next epoll_ctl fails with this errno (0 = per contract) */

int epoll_ctl(int epfd, int op, int fd, struct epoll_event *ev)
{
	int r = 0, e = 0;
	vp_k_ctl_calls++;
	vp_k_last_op = op; vp_k_last_fd = fd; vp_k_last_events = ev ? ev->events : 0;
	if (epfd != vp_k_epfd || fd < 0 || fd >= VP_NFD) { vp_k_ctl_badfd++; errno = EBADF; r = -1; goto done; }
	if (vp_k_fail_next) { e = vp_k_fail_next; vp_k_fail_next = 0; errno = e; r = -1; goto done; }
	if (!vp_k[fd].open) { errno = EBADF; r = -1; goto done; }
	switch (op) {
	case EPOLL_CTL_ADD:
		if (vp_k[fd].present) { errno = EEXIST; r = -1; break; }
		VP_ASSERT(ev != NULL, "epoll_ctl ADD with NULL event");
		vp_k[fd].present = 1; vp_k[fd].events = ev->events; break;
	case EPOLL_CTL_MOD:
		if (!vp_k[fd].present) { errno = ENOENT; r = -1; break; }
		VP_ASSERT(ev != NULL, "epoll_ctl MOD with NULL event");
		vp_k[fd].events = ev->events; break;
	case EPOLL_CTL_DEL:
		if (!vp_k[fd].present) { errno = ENOENT; r = -1; break; }
		vp_k[fd].present = 0; vp_k[fd].events = 0; break;
	default:
		errno = EINVAL; r = -1; break;
	}
done:
	if (vp_k_first_ctl_ok < 0) vp_k_first_ctl_ok = (r == 0);
	return r;
}
static void vp_k_close(int fd) { vp_k[fd].open = 0; vp_k[fd].present = 0; vp_k[fd].events = 0; }
static void vp_k_open(int fd) { vp_k[fd].open = 1; vp_k[fd].present = 0; vp_k[fd].events = 0; }
/* libevent condition bits <-> epoll bits */
static unsigned vp_k_ev2ep(short ev)
{
	unsigned e = 0;
	if (ev & 0x02) e |= EPOLLIN;
	if (ev & 0x04) e |= EPOLLOUT;
	if (ev & 0x80) e |= EPOLLRDHUP;
	return e;
}
#endif
