/* alloc_nogrow.h -- event_mm_*_ for back-end harnesses whose tables never have
 * to grow inside the bound (poll: 32 pollfds, changelist: 64 changes, evmap: 32
 * slots, select: 64 fds): realloc(NULL, n) allocates, realloc(p, n) with p != NULL
 * is a *bound violation* (asserted, so a history that needs growth fails the run
 * instead of being silently cut).  This keeps cbmc's realloc/array-copy model --
 * a memory hog once table sizes become symbolic after a state merge -- off every
 * path.  Use instead of alloc.h (define nothing else). */
#ifndef VP_ALLOC_NOGROW_H_
#define VP_ALLOC_NOGROW_H_
#include "vp.h"
#include <stdlib.h>
#include <string.h>
int vp_alloc_calls, vp_free_calls, vp_alloc_fail_next;
void *event_mm_malloc_(size_t sz)
{
	void *p;
	if (sz == 0) return NULL;
	vp_alloc_calls++;
	if (vp_alloc_fail_next) { vp_alloc_fail_next = 0; return NULL; }
	p = malloc(sz);
	__CPROVER_assume(p != NULL);
	return p;
}
void *event_mm_calloc_(size_t count, size_t size)
{
	void *p;
	if (count == 0 || size == 0) return NULL;
	vp_alloc_calls++;
	if (vp_alloc_fail_next) { vp_alloc_fail_next = 0; return NULL; }
	p = calloc(count, size);
	__CPROVER_assume(p != NULL);
	return p;
}
void *event_mm_realloc_(void *ptr, size_t sz)
{
	void *p;
	vp_alloc_calls++;
	if (ptr != NULL) {
		VP_ASSERT(0, "harness bound: a table had to grow (realloc of a live block) -- outside this obligation's bound");
		__CPROVER_assume(0);
	}
	if (sz == 0) return NULL;
	if (vp_alloc_fail_next) { vp_alloc_fail_next = 0; return NULL; }
	p = malloc(sz);
	__CPROVER_assume(p != NULL);
	return p;
}
char *event_mm_strdup_(const char *s) { (void)s; VP_ASSERT(0, "harness: strdup not expected"); return NULL; }
void event_mm_free_(void *p) { vp_free_calls++; free(p); }
#endif
