/* evbuf_link.h -- the few event.c / bufferevent.c entry points buffer.c links against,
 * for harnesses that use evbuffers WITHOUT deferred callbacks and without a parent
 * bufferevent (C15, C16, C42).  Include AFTER #include "buffer.c".
 * (harness/C12_evbuffer.c has its own recording variants for the deferred-callback
 * obligations of C13; do not include both.)
 */
#ifndef VP_EVBUF_LINK_H_
#define VP_EVBUF_LINK_H_
#include "vp.h"
void event_deferred_cb_init_(struct event_callback *cb, ev_uint8_t priority, deferred_cb_fn fn, void *arg)
{
	(void)priority; (void)fn;
	memset(cb, 0, sizeof(*cb));
	cb->evcb_arg = arg;
}
int event_deferred_cb_schedule_(struct event_base *base, struct event_callback *cb)
{
	(void)base; (void)cb;
	VP_ASSERT(0, "harness: no deferred callbacks in this harness");
	return 0;
}
void event_deferred_cb_cancel_(struct event_base *base, struct event_callback *cb) { (void)base; (void)cb; }
int event_base_get_npriorities(struct event_base *base) { (void)base; return 1; }
void bufferevent_incref_(struct bufferevent *bufev) { (void)bufev; VP_ASSERT(0, "harness: no parent bufferevent here"); }
int bufferevent_decref_(struct bufferevent *bufev) { (void)bufev; VP_ASSERT(0, "harness: no parent bufferevent here"); return 0; }
#endif
