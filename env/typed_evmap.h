/* typed_evmap.h -- definition of vp_calloc_evmap() (declared in typed_alloc.h): include AFTER evmap.c
 * (struct evmap_io / struct evmap_signal are private to it). */
#ifndef VP_TYPED_EVMAP_H_
#define VP_TYPED_EVMAP_H_
#ifdef VP_TYPED_ALLOC_H_
struct vp_evmap_io_ent { struct evmap_io io; long fdinfo; };   /* fdinfo_len <= 8 in every back end */
static void *vp_calloc_evmap(size_t n, size_t sz)
{
	void *q;
	vp_alloc_calls++;
	if (n == 1 && sz >= sizeof(struct evmap_io) && sz <= sizeof(struct vp_evmap_io_ent)) q = calloc(1, sizeof(struct vp_evmap_io_ent));
	else if (n == 1 && sz == sizeof(struct evmap_signal)) q = calloc(1, sizeof(struct evmap_signal));
	else q = calloc(n, sz);
	__CPROVER_assume(q != NULL);
	return q;
}
#endif

#endif
