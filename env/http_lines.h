/* http_lines.h -- line supplier: a contract model of evbuffer_readln(buf, &len,
 * EVBUFFER_EOL_CRLF) for harnesses in which line extraction is NOT the subject
 * (the real evbuffer_readln on real evbuffers is the subject of the
 * segmentation obligation C23_segment).
 *
 * Contract taken from buffer.c / event2/buffer.h: returns NULL when no complete
 * line is buffered; otherwise a freshly allocated (mm_malloc) NUL-terminated
 * copy of the next line without its terminator ("\r\n" or "\n"), *n_read_out =
 * number of bytes in the line (bytes may include NUL, never LF; with
 * EOL_CRLF a CR directly before the LF belongs to the terminator), and the
 * line plus terminator are drained from the buffer.
 *
 * The harness fills vp_lines[][] / vp_line_len[] / vp_nlines and, for the
 * bytes that remain buffered after the last complete line, vp_residual.
 */
#ifndef VP_HTTP_LINES_H_
#define VP_HTTP_LINES_H_
#ifndef VP_L
#define VP_L 3
#endif
#ifndef VP_N
#define VP_N 8
#endif
#define VP_LINE_OBJ (VP_N + 1)
static char vp_lines[VP_L][VP_N + 1];
static size_t vp_line_len[VP_L];
static size_t vp_line_term[VP_L]; /* terminator bytes of each line: 1 ("\n") or 2 ("\r\n") */
static size_t vp_nlines, vp_line_next;
static size_t vp_residual;        /* bytes buffered after the last complete line */
static int vp_readln_calls;
static struct evbuffer *vp_lines_buf; /* identity of the buffer the lines live in */

char *evbuffer_readln(struct evbuffer *buffer, size_t *n_read_out, enum evbuffer_eol_style eol_style)
{
	char *p;
	size_t i, n;
	vp_readln_calls++;
	VP_ASSERT(eol_style == EVBUFFER_EOL_CRLF, "http_lines: HTTP reads lines with EVBUFFER_EOL_CRLF");
	VP_ASSERT(buffer == vp_lines_buf, "http_lines: lines are read from the connection's input buffer");
	if (vp_readln_calls > VP_L) {
		/* constant bound for symbolic execution: the (VP_L+1)-th request can only find the supply empty */
		VP_ASSERT(vp_line_next >= vp_nlines, "http_lines: more reads than lines (harness bound)");
		return NULL;
	}
	if (vp_line_next >= vp_nlines)
		return NULL;
	n = vp_line_len[vp_line_next];
	p = malloc(VP_LINE_OBJ);
	__CPROVER_assume(p != NULL);
	for (i = 0; i < VP_LINE_OBJ; i++)
		p[i] = i < n ? vp_lines[vp_line_next][i] : '\0';
	if (n_read_out)
		*n_read_out = n;
	vp_line_next++;
	return p;
}
size_t evbuffer_get_length(const struct evbuffer *buffer)
{
	size_t i, total = vp_residual;
	VP_ASSERT(buffer == vp_lines_buf, "http_lines: length asked of the connection's input buffer");
	for (i = 0; i < VP_L; i++)
		if (i >= vp_line_next && i < vp_nlines)
			total += vp_line_len[i] + vp_line_term[i];
	return total;
}
/* draw VP_L symbolic lines; returns nothing, fills the tables above.
 * allow_nul: lines may contain NUL bytes (the real readln passes them through) */
static void vp_lines_symbolic(int allow_nul)
{
	size_t i, k;
	vp_nlines = (size_t)vp_range(0, VP_L);
	for (i = 0; i < VP_L; i++) {
		vp_bytes(vp_lines[i], VP_N);
		vp_line_len[i] = (size_t)vp_range(0, VP_N);
		vp_line_term[i] = (size_t)vp_range(1, 2);
		vp_lines[i][VP_N] = '\0';
		for (k = 0; k < VP_N; k++) {
			char c = vp_lines[i][k];
			if (k >= vp_line_len[i])
				vp_lines[i][k] = '\0';
			else {
				__CPROVER_assume(c != '\n');
				if (!allow_nul) __CPROVER_assume(c != '\0');
			}
		}
		/* EOL_CRLF: a CR directly before the LF is part of the terminator, so a line that was
		 * terminated by a bare LF does not end in CR */
		if (vp_line_term[i] == 1 && vp_line_len[i] > 0)
			__CPROVER_assume(vp_lines[i][vp_line_len[i] - 1] != '\r');
	}
}
#endif
