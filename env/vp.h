/* vp.h -- input layer shared by every harness.
 *
 * Every symbolic quantity a harness (or an environment stub) uses is drawn
 * through vp_input().  Under CBMC it is a fresh nondeterministic 64-bit value;
 * the driver reads the sequence of values back from a counterexample trace
 * (assignments to `vp_in`), and with -DVP_REPLAY the same harness -- under
 * CBMC (concrete symbolic execution) or natively with gcc+ASan -- consumes the
 * recorded sequence instead, which replays the counterexample against the
 * real code.
 */
#ifndef VP_H_
#define VP_H_
#include <stddef.h>
#include <stdint.h>

#ifdef VP_REPLAY
#include "vp_replay_values.h" /* generated: static const unsigned long long vp_replay_vals[]; VP_REPLAY_N */
static unsigned vp_replay_pos;
static unsigned long long vp_input(void)
{
	unsigned long long vp_in = vp_replay_pos < VP_REPLAY_N ? vp_replay_vals[vp_replay_pos] : 0;
	vp_replay_pos++;
	return vp_in;
}
#else
unsigned long long nondet_ull(void);
static unsigned long long vp_input(void)
{
	unsigned long long vp_in = nondet_ull();
	return vp_in;
}
#endif

#ifndef VP_CBMC
#include <stdio.h>
#include <stdlib.h>
/* native replay: an assumption that does not hold means the recorded values
 * do not drive this build down the same path -> exit 77 (not reproduced) */
#define __CPROVER_assume(c) do { if (!(c)) { fprintf(stderr, "VP-REPLAY: assumption failed: %s\n", #c); exit(77); } } while (0)
#define __CPROVER_assert(c, msg) do { if (!(c)) { fprintf(stderr, "VP-REPLAY: assertion failed: %s\n", msg); if (!(msg[0]=='W'&&msg[1]=='I'&&msg[2]=='T')) abort(); } } while (0)
#define __CPROVER_r_ok(p, n) 1
#define __CPROVER_w_ok(p, n) 1
#define __CPROVER_OBJECT_SIZE(p) ((size_t)-1)
#define __CPROVER_POINTER_OFFSET(p) ((size_t)0)
#define __CPROVER_havoc_object(p) ((void)0)
#endif

/* VP_WITNESS_ONLY / VP_NO_WITNESS: the driver's two-pass mode for external SAT solvers
 * (pass A: all assertions, no witnesses, one solver call; pass B: witnesses only). */
#ifdef VP_WITNESS_ONLY
#define VP_ASSERT(c, msg) ((void)0)
#else
#define VP_ASSERT(c, msg) __CPROVER_assert((c), msg)
#endif
/* reachability witness: the driver expects every property whose description
 * starts with "WITNESS" to be reported FAILED (i.e. reachable). */
#ifdef VP_NO_WITNESS
#define VP_WITNESS(msg) ((void)0)
#else
#define VP_WITNESS(msg) __CPROVER_assert(0, "WITNESS " msg)
#endif

static inline uint8_t  vp_u8(void)  { return (uint8_t)vp_input(); }
static inline uint16_t vp_u16(void) { return (uint16_t)vp_input(); }
static inline uint32_t vp_u32(void) { return (uint32_t)vp_input(); }
static inline uint64_t vp_u64(void) { return (uint64_t)vp_input(); }
static inline int      vp_int(void) { return (int)vp_input(); }
static inline int      vp_bool(void){ return (int)(vp_input() & 1); }
static inline size_t   vp_size(void){ return (size_t)vp_input(); }
/* value in [lo,hi] */
static inline uint64_t vp_range(uint64_t lo, uint64_t hi)
{
	uint64_t v = vp_input();
	__CPROVER_assume(v >= lo && v <= hi);
	return v;
}
static inline void vp_bytes(void *p, size_t n)
{
	size_t i;
	for (i = 0; i < n; i++)
		((unsigned char *)p)[i] = (unsigned char)vp_input();
}
#endif
