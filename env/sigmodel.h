/* sigmodel.h -- executable contract model of the kernel's signal side as
 * signal.c / signalfd.c use it.  Two signals are modelled (VP_SIGA, VP_SIGB).
 *   dispositions : sigaction(sig, act, old) get/set on a per-signal slot (whole struct sigaction)
 *   blocked mask : sigprocmask(SIG_BLOCK/UNBLOCK/SETMASK)
 *   self-pipe    : the pair evutil_make_internal_pipe_() returned for base->sig: write() on the
 *                  write end appends one byte to a bounded queue (full -> EAGAIN; the harness may also
 *                  make a write fail: vp_sig_write_fail_next), read() on the read end drains it
 *                  (empty -> EAGAIN)
 *   signalfd     : signalfd(-1, mask, flags) creates an fd bound to the signals in mask; a delivery of a
 *                  blocked signal with a signalfd makes it pending (standard signals coalesce: one flag);
 *                  read() returns one struct signalfd_siginfo and clears the flag, EAGAIN when none
 *   delivery     : vp_sig_deliver(sig) is what the kernel does when the signal is raised: blocked + signalfd
 *                  -> pending on the fd; blocked without signalfd -> stays pending (counted); otherwise the
 *                  installed handler runs (SIG_DFL/SIG_IGN are counted, not executed)
 * Include after event.c / evbase.h (uses vp_next_fd) and after signal.c (evsig_handler). */
#ifndef VP_SIGMODEL_H_
#define VP_SIGMODEL_H_
#include "vp.h"
#include <signal.h>
#include <errno.h>
#include <string.h>
#include <sys/signalfd.h>
#ifndef VP_SIGA
#define VP_SIGA 10   /* SIGUSR1 */
#endif
#ifndef VP_SIGB
#define VP_SIGB 12   /* SIGUSR2 */
#endif
#define VP_PIPE_CAP 4
#define VP_SA_APPTAG 0x00100000   /* private marker in sa_flags: disposition installed by the application (see vp_sig_deliver) */
#define VP_NSIGFD 4

struct sigaction vp_sa[2];                 /* current disposition of A, B */
int vp_sa_calls, vp_sa_sets, vp_sa_fail_next;
int vp_sig_blocked[2];
int vp_sig_orig_kind[2];                   /* 0 SIG_DFL, 1 SIG_IGN, 2 application handler: what the tagged disposition is */
int vp_sig_kernel_pending[2];              /* raised while blocked and no signalfd: left pending */
int vp_sig_default_action[2];              /* delivered to SIG_DFL / SIG_IGN */
int vp_sig_app_handled[2];                 /* delivered to the application's own handler */
int vp_sig_lib_handled[2];                 /* delivered to libevent's handler */
int vp_sig_lib_accepted[2];                /* ... and the self-pipe took the byte */
int vp_sig_undrained[2];                   /* accepted notifications of A / B not yet read from the self-pipe (independent of the byte values written) */
int vp_pipe_rfd = -1, vp_pipe_wfd = -1;    /* harness syncs these with base->sig.ev_signal_pair */
unsigned char vp_pipe_q[VP_PIPE_CAP]; int vp_pipe_n;
int vp_sig_write_fail_next;                /* next write() on the self-pipe fails with EAGAIN */
int vp_sig_bad_io;                         /* read/write on an fd the model does not know */
struct vp_sigfd { int fd; int open; unsigned gen; int sigs[2]; int pending[2]; } vp_sigfd[VP_NSIGFD];
int vp_nsigfd, vp_sigfd_fail_next, vp_sigfd_close_bad;

/* -DVP_SIG_ON_KERNEL_IO: descriptors come from env/kernel_io.h's fd universe (include it first); close() is its close() */
#ifdef VP_SIG_ON_KERNEL_IO
#define VP_SIGFD_ALIVE(f) ((f)->open && vp_kf[(f)->fd].open && vp_kf[(f)->fd].kind == VP_K_SIGNALFD && vp_kf[(f)->fd].gen == (f)->gen)
#else
#define VP_SIGFD_ALIVE(f) ((f)->open)
#endif
static int vp_sig_idx(int sig) { return sig == VP_SIGA ? 0 : (sig == VP_SIGB ? 1 : -1); }
void vp_app_handler(int sig) { int k = vp_sig_idx(sig); if (k >= 0) vp_sig_app_handled[k]++; }

/* ---- sigset helpers (glibc's are opaque to cbmc) ------------------------------ */
int sigemptyset(sigset_t *s) { memset(s, 0, sizeof(*s)); return 0; }
int sigfillset(sigset_t *s) { memset(s, 0xff, sizeof(*s)); return 0; }
int sigaddset(sigset_t *s, int sig) { s->__val[(sig - 1) / 64] |= 1UL << ((sig - 1) % 64); return 0; }
int sigismember(const sigset_t *s, int sig) { return (s->__val[(sig - 1) / 64] >> ((sig - 1) % 64)) & 1; }

int sigaction(int sig, const struct sigaction *act, struct sigaction *old)
{
	int k = vp_sig_idx(sig);
	vp_sa_calls++;
	VP_ASSERT(k >= 0, "sigmodel: sigaction on a signal outside the model");
	if (k < 0) { errno = EINVAL; return -1; }
	if (vp_sa_fail_next) { vp_sa_fail_next = 0; errno = EINVAL; return -1; }
	if (old) *old = vp_sa[k];
	if (act) { vp_sa[k] = *act; vp_sa_sets++; }
	return 0;
}
int sigprocmask(int how, const sigset_t *set, sigset_t *old)
{
	int k;
	if (old) { sigemptyset(old); for (k = 0; k < 2; k++) if (vp_sig_blocked[k]) sigaddset(old, k ? VP_SIGB : VP_SIGA); }
	if (!set) return 0;
	for (k = 0; k < 2; k++) {
		int in = sigismember(set, k ? VP_SIGB : VP_SIGA);
		if (how == SIG_BLOCK) { if (in) vp_sig_blocked[k] = 1; }
		else if (how == SIG_UNBLOCK) { if (in) vp_sig_blocked[k] = 0; }
		else vp_sig_blocked[k] = in;
	}
	return 0;
}
int signalfd(int fd, const sigset_t *mask, int flags)
{
	struct vp_sigfd *f;
	(void)flags;
	VP_ASSERT(fd == -1, "sigmodel: only signalfd(-1, ...) is modelled");
	if (vp_sigfd_fail_next) { vp_sigfd_fail_next = 0; errno = EMFILE; return -1; }
	VP_ASSERT(vp_nsigfd < VP_NSIGFD, "sigmodel: out of signalfd slots (harness bound)");
	f = &vp_sigfd[vp_nsigfd++];
#ifdef VP_SIG_ON_KERNEL_IO
	f->fd = vp_k_alloc_fd(VP_K_SIGNALFD);
	if (f->fd < 0) { vp_nsigfd--; return -1; }
	f->gen = vp_kf[f->fd].gen;
#else
	f->fd = vp_next_fd++;
#endif
	f->open = 1;
	f->sigs[0] = sigismember(mask, VP_SIGA); f->sigs[1] = sigismember(mask, VP_SIGB);
	f->pending[0] = f->pending[1] = 0;
	return f->fd;
}
static struct vp_sigfd *vp_sigfd_of(int fd)
{
	int i;
	for (i = 0; i < VP_NSIGFD; i++) if (i < vp_nsigfd && VP_SIGFD_ALIVE(&vp_sigfd[i]) && vp_sigfd[i].fd == fd) return &vp_sigfd[i];
	return NULL;
}
static struct vp_sigfd *vp_sigfd_for_sig(int k)
{
	int i;
	for (i = 0; i < VP_NSIGFD; i++) if (i < vp_nsigfd && VP_SIGFD_ALIVE(&vp_sigfd[i]) && vp_sigfd[i].sigs[k]) return &vp_sigfd[i];
	return NULL;
}
ssize_t write(int fd, const void *buf, size_t n)
{
	if (fd == vp_pipe_wfd && fd >= 0 && n == 1) {
		if (vp_sig_write_fail_next || vp_pipe_n >= VP_PIPE_CAP) { vp_sig_write_fail_next = 0; errno = EAGAIN; return -1; }
		vp_pipe_q[vp_pipe_n++] = *(const unsigned char *)buf;
		return 1;
	}
	vp_sig_bad_io++; errno = EBADF; return -1;
}
ssize_t read(int fd, void *buf, size_t n)
{
	struct vp_sigfd *f;
	if (fd == vp_pipe_rfd && fd >= 0) {
		int i, m = vp_pipe_n;
		if (m == 0) { errno = EAGAIN; return -1; }
		VP_ASSERT(n >= VP_PIPE_CAP, "sigmodel: reader's buffer smaller than the modelled pipe");
		for (i = 0; i < VP_PIPE_CAP; i++) if (i < m) ((unsigned char *)buf)[i] = vp_pipe_q[i];
		vp_pipe_n = 0; vp_sig_undrained[0] = vp_sig_undrained[1] = 0;
		return m;
	}
	f = vp_sigfd_of(fd);
	if (f) {
		int k = f->pending[0] ? 0 : (f->pending[1] ? 1 : -1);
		struct signalfd_siginfo *si = buf;
		if (k < 0) { errno = EAGAIN; return -1; }
		VP_ASSERT(n >= sizeof(*si), "sigmodel: signalfd read buffer too small");
		memset(si, 0, sizeof(*si));
		si->ssi_signo = k ? VP_SIGB : VP_SIGA;
		f->pending[k] = 0;
		return sizeof(*si);
	}
	vp_sig_bad_io++; errno = EBADF; return -1;
}
#ifndef VP_SIG_ON_KERNEL_IO
int close(int fd)
{
	struct vp_sigfd *f = vp_sigfd_of(fd);
	if (f) { f->open = 0; return 0; }
	vp_sigfd_close_bad++; errno = EBADF; return -1;
}
#endif
/* 1 if a read on fd would not block (what the I/O back end would report as readable) */
static int vp_sig_fd_readable(int fd)
{
	struct vp_sigfd *f;
	if (fd == vp_pipe_rfd && fd >= 0) return vp_pipe_n > 0;
	f = vp_sigfd_of(fd);
	return f && (f->pending[0] || f->pending[1]);
}
/* the kernel raises `sig` for this process */
static void vp_sig_deliver(int sig)
{
	int k = vp_sig_idx(sig);
	if (vp_sig_blocked[k]) {
		struct vp_sigfd *f = vp_sigfd_for_sig(k);
		if (f) f->pending[k] = 1; else vp_sig_kernel_pending[k] = 1;
		return;
	}
	/* Which handler is installed is decided WITHOUT comparing function pointers against SIG_DFL/SIG_IGN
	 * (cbmc cannot fold `f == (sighandler_t)1` for a real function f and forks every delivery): dispositions
	 * that come from the application carry the private flag VP_SA_APPTAG in sa_flags (the harness sets it in the
	 * dispositions it installs before libevent runs, and records their kind in vp_sig_orig_kind[]); a
	 * disposition without the tag was installed by libevent. */
	if (vp_sa[k].sa_flags & VP_SA_APPTAG) {
		if (vp_sig_orig_kind[k] == 2) vp_app_handler(sig); else vp_sig_default_action[k]++;
		return;
	}
#ifdef VP_HAVE_SIGNAL_C
	if (vp_sa[k].sa_handler == evsig_handler) {
		int before = vp_pipe_n;
		vp_sig_lib_handled[k]++;
		evsig_handler(sig);
		if (vp_pipe_n == before + 1) { vp_sig_lib_accepted[k]++; vp_sig_undrained[k]++; }
		return;
	}
#endif
	VP_ASSERT(0, "sigmodel: a handler is installed that nobody registered");
}
#endif
