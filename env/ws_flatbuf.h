/* ws_flatbuf.h -- contract model of the evbuffer operations ws.c's read path uses, over flat byte
 * arrays ("an evbuffer is the byte string its operations imply" is property C12, decided separately):
 * evbuffer_new/free/get_length/pullup/drain/add/remove_buffer, and a bufferevent made of an input and
 * an output buffer.  Capacity VP_FCAP per buffer (overflow = harness bound exceeded, asserted). */
#ifndef VP_WS_FLATBUF_H_
#define VP_WS_FLATBUF_H_
#include "vp.h"
#include <sys/queue.h>
#include "event2/event-config.h"
#include "evconfig-private.h"
#include "event2/buffer.h"
#include "event2/buffer_compat.h"
#include "event2/bufferevent.h"
#include "event2/http.h"
#include "event2/util.h"
#include "util-internal.h"
#include "evbuffer-internal.h"
#include "bufferevent-internal.h"
#ifndef VP_FCAP
#define VP_FCAP 20
#endif
/* four separate objects (input, output, two for evbuffer_new) with separate data arrays: keeping them in
 * one array of structs makes every access a byte-level update of a 1 KB object once the index is symbolic */
struct evbuffer vp_eb0, vp_eb1, vp_eb2, vp_eb3;
unsigned char vp_d0[VP_FCAP], vp_d1[VP_FCAP], vp_d2[VP_FCAP], vp_d3[VP_FCAP];
size_t vp_start[4], vp_len[4]; int vp_alive[4];
int vp_fb_new_calls, vp_fb_free_calls;
#define VP_EB_IN (&vp_eb0)
#define VP_EB_OUT (&vp_eb1)
static int vp_FB(const struct evbuffer *b)
{
	int k = b == &vp_eb0 ? 0 : b == &vp_eb1 ? 1 : b == &vp_eb2 ? 2 : b == &vp_eb3 ? 3 : -1;
	VP_ASSERT(k >= 0, "ws: evbuffer call on an unknown buffer");
	__CPROVER_assume(k >= 0);
	VP_ASSERT(vp_alive[k], "ws: evbuffer used after evbuffer_free");
	return k;
}
static unsigned char *vp_D(int k) { return k == 0 ? vp_d0 : k == 1 ? vp_d1 : k == 2 ? vp_d2 : vp_d3; }
struct evbuffer *evbuffer_new(void)
{
	int k = !vp_alive[2] ? 2 : 3;
	VP_ASSERT(!vp_alive[k], "harness: evbuffer pool exhausted");
	vp_fb_new_calls++;
	vp_alive[k] = 1; vp_start[k] = 0; vp_len[k] = 0;
	return k == 2 ? &vp_eb2 : &vp_eb3;
}
void evbuffer_free(struct evbuffer *b) { int k = vp_FB(b); vp_alive[k] = 0; vp_fb_free_calls++; }
size_t evbuffer_get_length(const struct evbuffer *b) { return vp_len[vp_FB(b)]; }
unsigned char *evbuffer_pullup(struct evbuffer *b, ev_ssize_t size)
{
	int k = vp_FB(b);
	if (size < 0) size = (ev_ssize_t)vp_len[k];
	if (size == 0 || (size_t)size > vp_len[k]) return NULL;
	return vp_D(k) + vp_start[k];
}
int evbuffer_drain(struct evbuffer *b, size_t n)
{
	int k = vp_FB(b);
	if (n > vp_len[k]) n = vp_len[k];
	vp_start[k] += n; vp_len[k] -= n;
	return 0;
}
int evbuffer_add(struct evbuffer *b, const void *data, size_t n)
{
	int k = vp_FB(b); size_t i; unsigned char *d = vp_D(k);
	VP_ASSERT(vp_start[k] + vp_len[k] + n <= VP_FCAP, "harness: flat evbuffer capacity exceeded");
	__CPROVER_assume(vp_start[k] + vp_len[k] + n <= VP_FCAP);
	for (i = 0; i < n; i++) d[vp_start[k] + vp_len[k] + i] = ((const unsigned char *)data)[i];
	vp_len[k] += n;
	return 0;
}
int evbuffer_remove_buffer(struct evbuffer *src, struct evbuffer *dst, size_t n)
{
	int k = vp_FB(src);
	if (n > vp_len[k]) n = vp_len[k];
	evbuffer_add(dst, vp_D(k) + vp_start[k], n);
	vp_start[k] += n; vp_len[k] -= n;
	return (int)n;
}
struct bufferevent_private vp_bevp;
#define vp_bev (vp_bevp.bev)
int vp_bev_ref = 1, vp_bev_setcb_calls, vp_bev_free_calls;
bufferevent_data_cb vp_bev_readcb, vp_bev_writecb; bufferevent_event_cb vp_bev_eventcb; void *vp_bev_cbarg;
struct evbuffer *bufferevent_get_output(struct bufferevent *bev) { (void)bev; return VP_EB_OUT; }
struct evbuffer *bufferevent_get_input(struct bufferevent *bev) { (void)bev; return VP_EB_IN; }
void bufferevent_incref_and_lock_(struct bufferevent *bev) { (void)bev; vp_bev_ref++; }
int bufferevent_decref_and_unlock_(struct bufferevent *bev) { (void)bev; vp_bev_ref--; VP_ASSERT(vp_bev_ref >= 1, "ws: bufferevent reference count dropped below the owner's reference"); return 0; }
void bufferevent_lock(struct bufferevent *bev) { (void)bev; }
void bufferevent_unlock(struct bufferevent *bev) { (void)bev; }
void bufferevent_free(struct bufferevent *bev) { (void)bev; vp_bev_free_calls++; }
void bufferevent_setcb(struct bufferevent *bev, bufferevent_data_cb r, bufferevent_data_cb w, bufferevent_event_cb e, void *arg)
{ (void)bev; vp_bev_setcb_calls++; vp_bev_readcb = r; vp_bev_writecb = w; vp_bev_eventcb = e; vp_bev_cbarg = arg; }
#endif
