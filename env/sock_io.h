/* sock_io.h -- contract stubs for the system calls buffer.c uses to move evbuffer data:
 *   ioctl(FIONREAD) read readv write writev sendfile   (C16)
 *   pread mmap munmap sysconf(_SC_PAGESIZE) close       (C15 file segments)
 * USAGE: include BEFORE #include "buffer.c" (after vp.h).  The unit's calls are redirected by macro to vp_io_*()
 * (cbmc has built-in models of read/write that would otherwise be linked; macros also work in native replay).
 *
 * Contract (man pages), every outcome solver-chosen through vp.h:
 *   read/readv/write/writev/sendfile(count = total bytes offered/requested):
 *       -1 with errno in {EINTR, EAGAIN, ECONNRESET, EPIPE}   |   0   |   any r in 1..count
 *       read side: exactly r bytes vp_io_in[0..r) are stored through the iovecs, nothing else is written;
 *       write side: the offered bytes are copied to vp_io_out[0..count) for the harness to compare;
 *       sendfile: *offset advances by r; the bytes are vp_file[*offset .. *offset+r).
 *   ioctl(FIONREAD): returns vp_io_fionread_rc (0 / -1) and stores vp_io_fionread (harness sets both, concrete).
 *   pread(fd,buf,n,off): -1 | 0 at/after EOF | any r in 1..min(n, size-off), bytes from vp_file.
 *   mmap(NULL,len,PROT_READ,MAP_PRIVATE..,fd,off): MAP_FAILED by solver choice, otherwise a fresh object of exactly
 *       `len` bytes (VP_FILE_MAX literal sizes) holding vp_file[off .. off+len), zero beyond EOF; off must be a
 *       multiple of the page size vp_pagesize (asserted: EINVAL otherwise in the real kernel).  munmap must be
 *       called exactly once with the same address and length (asserted), releases the object.
 *   vp_io_force: a harness may case-split the result itself (so that what the library does with the count stays
 *       concrete, DESIGN 3.4) by setting vp_io_force to the case's value; values outside 0..count are discarded.
 * Every stub records its arguments in vp_io (last call) and counts calls; vp_io_limit (harness) is the most
 * the library may ask for in one transfer -- asserted ("never more than requested").
 */
#ifndef VP_SOCK_IO_H_
#define VP_SOCK_IO_H_
#include "vp.h"
#include <unistd.h>
#include <errno.h>
#include <sys/types.h>
#include <sys/uio.h>
#include <sys/ioctl.h>
#include <sys/sendfile.h>
#include <sys/mman.h>
#include <stdlib.h>

#ifndef VP_IO_MAX
#define VP_IO_MAX 48
#endif
#ifndef VP_FILE_MAX
#define VP_FILE_MAX 16
#endif
#ifndef VP_PAGESIZE
#define VP_PAGESIZE 8
#endif

enum { VP_IO_NONE = 0, VP_IO_READ, VP_IO_READV, VP_IO_WRITE, VP_IO_WRITEV, VP_IO_SENDFILE, VP_IO_PREAD, VP_IO_MMAP };
struct vp_io_rec { int kind, fd, niov; size_t total; size_t len[4]; long ret; int in_fd; long sf_off; };
static struct vp_io_rec vp_io;
static int vp_io_calls, vp_io_ioctl_calls;
static size_t vp_io_limit = (size_t)-1;
static unsigned char vp_io_in[VP_IO_MAX], vp_io_out[VP_IO_MAX];
static int vp_io_fionread, vp_io_fionread_rc;
static unsigned char vp_file[VP_FILE_MAX]; static size_t vp_file_size = VP_FILE_MAX;
static long vp_pagesize = VP_PAGESIZE;
static int vp_close_calls, vp_close_fd = -1;

/* result of a transfer of `count` bytes */
static long vp_io_force = -2;   /* harness: != -2 -> the transfer result is this value (case split by the harness, must respect the contract) */
static long vp_io_result(size_t count)
{
	unsigned c;
	if (vp_io_force != -2) {
		if (vp_io_force == -1) {
			unsigned e = (unsigned)vp_range(0, 3);
			errno = e == 0 ? EINTR : e == 1 ? EAGAIN : e == 2 ? ECONNRESET : EPIPE;
			return -1;
		}
		__CPROVER_assume(vp_io_force >= 0 && (size_t)vp_io_force <= count);   /* outside the contract: not a behaviour */
		return vp_io_force;
	}
	c = (unsigned)vp_range(0, 2);
	if (c == 0) {
		unsigned e = (unsigned)vp_range(0, 3);
		errno = e == 0 ? EINTR : e == 1 ? EAGAIN : e == 2 ? ECONNRESET : EPIPE;
		return -1;
	}
	if (c == 1 || count == 0) return 0;
	return (long)vp_range(1, count);
}

static int vp_io_ioctl(int fd, unsigned long req, int *arg)
{
	(void)fd;
	VP_ASSERT(req == FIONREAD, "harness: unexpected ioctl request");
	vp_io_ioctl_calls++;
	if (vp_io_fionread_rc == 0) *arg = vp_io_fionread;
	return vp_io_fionread_rc;
}
static ssize_t vp_io_readv(int fd, const struct iovec *iov, int n)
{
	size_t pos = 0, j; int k; long r;
	VP_ASSERT(n >= 0 && n <= 4, "harness: readv with more than 4 vectors");
	vp_io.kind = VP_IO_READV; vp_io.fd = fd; vp_io.niov = n; vp_io.total = 0; vp_io_calls++;
	for (k = 0; k < 4; k++) { vp_io.len[k] = k < n ? iov[k].iov_len : 0; vp_io.total += vp_io.len[k]; }
	VP_ASSERT(vp_io.total <= vp_io_limit, "C16: read asked for more bytes than requested (howmuch / max_read / FIONREAD)");
	VP_ASSERT(vp_io.total <= VP_IO_MAX, "harness bound: transfer larger than VP_IO_MAX");
	r = vp_io_result(vp_io.total);
	for (k = 0; k < 4; k++)
		if (k < n)
			for (j = 0; j < VP_IO_MAX; j++)
				if (j < iov[k].iov_len) {
					if ((long)pos < r) ((unsigned char *)iov[k].iov_base)[j] = vp_io_in[pos];
					pos++;
				}
	vp_io.ret = r;
	return r;
}
static ssize_t vp_io_read(int fd, void *buf, size_t n)
{
	struct iovec v; ssize_t r;
	v.iov_base = buf; v.iov_len = n;
	r = vp_io_readv(fd, &v, 1);
	vp_io.kind = VP_IO_READ;
	return r;
}
static ssize_t vp_io_writev(int fd, const struct iovec *iov, int n)
{
	size_t pos = 0, j; int k; long r;
	VP_ASSERT(n >= 1 && n <= 128, "harness: writev vector count");
	vp_io.kind = VP_IO_WRITEV; vp_io.fd = fd; vp_io.niov = n; vp_io.total = 0; vp_io_calls++;
	for (k = 0; k < 4; k++) { vp_io.len[k] = k < n ? iov[k].iov_len : 0; vp_io.total += vp_io.len[k]; }
	VP_ASSERT(n <= 4, "harness bound: writev with more than 4 vectors");
	VP_ASSERT(vp_io.total <= vp_io_limit, "C16: write offered more bytes than requested (howmuch)");
	VP_ASSERT(vp_io.total <= VP_IO_MAX, "harness bound: transfer larger than VP_IO_MAX");
	for (k = 0; k < 4; k++)
		if (k < n)
			for (j = 0; j < VP_IO_MAX; j++)
				if (j < iov[k].iov_len) { vp_io_out[pos] = ((const unsigned char *)iov[k].iov_base)[j]; pos++; }
	r = vp_io_result(vp_io.total);
	vp_io.ret = r;
	return r;
}
static ssize_t vp_io_write(int fd, const void *buf, size_t n)
{
	struct iovec v; ssize_t r;
	v.iov_base = (void *)buf; v.iov_len = n;
	r = vp_io_writev(fd, &v, 1);
	vp_io.kind = VP_IO_WRITE;
	return r;
}
static ssize_t vp_io_sendfile(int out_fd, int in_fd, off_t *offset, size_t count)
{
	long r;
	vp_io.kind = VP_IO_SENDFILE; vp_io.fd = out_fd; vp_io.in_fd = in_fd; vp_io.niov = 0; vp_io.total = count; vp_io_calls++;
	VP_ASSERT(offset != NULL, "harness: sendfile without an explicit offset");
	vp_io.sf_off = (long)*offset;
	VP_ASSERT(count <= vp_io_limit, "C16: sendfile asked to send more bytes than requested (howmuch)");
	r = vp_io_result(count);
	if (r > 0) *offset += r;
	vp_io.ret = r;
	return r;
}
static long vp_pread_script[6]; static int vp_pread_script_n, vp_pread_script_i;
static ssize_t vp_io_pread(int fd, void *buf, size_t n, off_t off)
{
	size_t avail, j; long r;
	vp_io.kind = VP_IO_PREAD; vp_io.fd = fd; vp_io.total = n; vp_io.sf_off = (long)off; vp_io_calls++;
	VP_ASSERT(off >= 0, "harness: pread at a negative offset");
	avail = (size_t)off < vp_file_size ? vp_file_size - (size_t)off : 0;
	if (n < avail) avail = n;
	if (vp_pread_script_n > 0) {
		/* scripted results (a harness case-splits the sequence of short reads so that offsets stay concrete) */
		VP_ASSERT(vp_pread_script_i < vp_pread_script_n, "harness: more pread calls than scripted");
		__CPROVER_assume(vp_pread_script_i < vp_pread_script_n);
		r = vp_pread_script[vp_pread_script_i++];
		if (r > (long)avail) { __CPROVER_assume(0); }     /* outside the contract: not a behaviour */
		if (r < 0) errno = EIO;
	} else
		r = vp_io_result(avail);
	for (j = 0; j < VP_FILE_MAX; j++)
		if ((long)j < r) ((unsigned char *)buf)[j] = vp_file[(size_t)off + j];
	vp_io.ret = r;
	return r;
}
/* mmap: one live mapping at a time is enough for the file-segment code */
static char vp_map_failed_obj;
static unsigned char *vp_map_addr; static size_t vp_map_len; static int vp_mmap_calls, vp_munmap_calls;
static int vp_mmap_mode = -1;     /* -1: success/failure solver-chosen per call, 0: succeeds, 1: fails (ENOMEM) */
static unsigned char *vp_io_exact(size_t k)
{
	unsigned char *p;
	switch (k) {
	case 1: p = malloc(1); break;   case 2: p = malloc(2); break;   case 3: p = malloc(3); break;
	case 4: p = malloc(4); break;   case 5: p = malloc(5); break;   case 6: p = malloc(6); break;
	case 7: p = malloc(7); break;   case 8: p = malloc(8); break;   case 9: p = malloc(9); break;
	case 10: p = malloc(10); break; case 11: p = malloc(11); break; case 12: p = malloc(12); break;
	case 13: p = malloc(13); break; case 14: p = malloc(14); break; case 15: p = malloc(15); break;
	case 16: p = malloc(16); break; case 17: p = malloc(17); break; case 18: p = malloc(18); break;
	case 19: p = malloc(19); break; case 20: p = malloc(20); break; case 21: p = malloc(21); break;
	case 22: p = malloc(22); break; case 23: p = malloc(23); break; case 24: p = malloc(24); break;
	default: VP_ASSERT(0, "harness bound: mapping larger than 24 bytes"); __CPROVER_assume(0); p = malloc(1); break;
	}
	__CPROVER_assume(p != NULL);
	return p;
}
static void *vp_io_mmap(void *addr, size_t len, int prot, int flags, int fd, off_t off)
{
	size_t j; unsigned char *p;
	(void)flags; (void)fd;
	vp_io.kind = VP_IO_MMAP; vp_io.fd = fd; vp_io.total = len; vp_io.sf_off = (long)off; vp_mmap_calls++;
	VP_ASSERT(addr == NULL && prot == PROT_READ, "harness: unexpected mmap arguments");
	VP_ASSERT(len > 0, "C15: mmap of length 0 (EINVAL)");
	VP_ASSERT(off >= 0 && off % vp_pagesize == 0, "C15: mmap offset is not a multiple of the page size (EINVAL)");
	if (vp_mmap_mode == 1 || (vp_mmap_mode < 0 && vp_bool())) {
		errno = ENOMEM;
#ifdef VP_CBMC
		return (void *)&vp_map_failed_obj;
#else
		return MAP_FAILED;
#endif
	}
	VP_ASSERT(vp_map_addr == NULL, "harness bound: second live mapping");
	p = vp_io_exact(len);
	for (j = 0; j < 24; j++)
		if (j < len) p[j] = ((size_t)off + j < vp_file_size) ? vp_file[(size_t)off + j] : 0;
	vp_map_addr = p; vp_map_len = len;
	return p;
}
static int vp_io_munmap(void *addr, size_t len)
{
	vp_munmap_calls++;
	VP_ASSERT(addr == (void *)vp_map_addr && vp_map_addr != NULL, "C15: munmap of an address that is not the live mapping");
	VP_ASSERT(len == vp_map_len, "C15: munmap length differs from the mapped length");
	free(vp_map_addr); vp_map_addr = NULL;
	return 0;
}
static long vp_io_sysconf(int name) { (void)name; return vp_pagesize; }
static int vp_io_close(int fd) { vp_close_calls++; vp_close_fd = fd; return 0; }

#ifdef VP_CBMC
/* MAP_FAILED is an opaque sentinel; as the integer address (void *)-1 symex cannot decide `mapped == MAP_FAILED` for a
 * heap object and walks both outcomes of every mmap.  The address of a dedicated object is decided syntactically. */
#undef MAP_FAILED
#define MAP_FAILED ((void *)&vp_map_failed_obj)
#endif
#define ioctl(fd, req, arg)     vp_io_ioctl((fd), (req), (arg))
#define read(fd, b, n)          vp_io_read((fd), (b), (n))
#define readv(fd, v, n)         vp_io_readv((fd), (v), (n))
#define write(fd, b, n)         vp_io_write((fd), (b), (n))
#define writev(fd, v, n)        vp_io_writev((fd), (v), (n))
#define sendfile(o, i, off, n)  vp_io_sendfile((o), (i), (off), (n))
#define pread(fd, b, n, off)    vp_io_pread((fd), (b), (n), (off))
#define mmap(a, l, p, f, fd, o) vp_io_mmap((a), (l), (p), (f), (fd), (o))
#define mmap64(a, l, p, f, fd, o) vp_io_mmap((a), (l), (p), (f), (fd), (o))
#define munmap(a, l)            vp_io_munmap((a), (l))
#define sysconf(n)              vp_io_sysconf(n)
#define close(fd)               vp_io_close(fd)
#endif
