/* evbuf_sink.h -- CONTRACT "SINK" EVBUFFER for harnesses whose subject is a CLIENT of evbuffers (the bufferevent
 * units, DESIGN C17-C20): buffer.c is NOT linked; the evbuffer entry points those units call are defined here and
 * operate on the real `struct evbuffer` (evbuffer-internal.h) but only on its observable state:
 *     total_len, freeze_start/freeze_end, the callback list (+flags), parent, lock, flags
 * plus (with -DVP_SINK_BYTES=N) the stored bytes, kept in a side array of N bytes per buffer.
 * What the model promises is the byte-string behaviour that C12-C16 establish for buffer.c (ref/bytes.h) and the
 * callback contract of include/event2/buffer.h / C13:
 *   add(b,p,n)             -1 if the end is frozen; appends; callbacks(n_added=n)
 *   drain(b,n)             -1 if the start is frozen; removes k=min(n,len) front bytes; callbacks(n_deleted=k)
 *   remove(b,out,n)        -1 if the start is frozen; copies+removes k=min(n,len); returns k
 *   add_buffer(dst,src)    0 if src is empty or dst==src; -1 if dst end / src start frozen; moves everything;
 *                          callbacks of src (n_deleted), then of dst (n_added)             [buffer.c order]
 *   remove_buffer(src,dst,n) 0 if n==0 or dst==src; -1 if frozen; n>=len(src): as add_buffer; otherwise moves the first n
 *                          bytes; callbacks of dst, then of src                            [buffer.c order]
 *   read(b,fd,howmuch)     -1 if the end is frozen; otherwise the kernel's answer (vp_sink_io_result): -1+errno | 0 |
 *                          r in 1..cap, cap = howmuch if 0<=howmuch<=avail else avail (vp_sink_rd_avail, harness);
 *                          appends the r delivered bytes vp_sink_rd[0..r); callbacks(n_added=r)
 *   write_atmost(b,fd,m)   -1 if the start is frozen; offers c = (m<0||m>len ? len : m) bytes; kernel answer -1|0|1..c;
 *                          the accepted bytes are recorded in vp_sink_wr[0..r) and drained; callbacks(n_deleted=r)
 *   add_cb                 new entry at the HEAD of the list, flags ENABLED;  callbacks run head to tail, only ENABLED
 *                          ones, synchronously, with info = {orig_size, n_added, n_deleted}; an operation that changes
 *                          nothing invokes nothing
 *   cb_set_flags/cb_clear_flags/remove_cb_entry, freeze/unfreeze(at_front), get_length, new/free, set_parent_,
 *   enable_locking, set_flags, get_callbacks_ (no deferred callbacks on these buffers: 0)
 * Deviations from buffer.c that a client could observe, all stated as assumptions by the properties using this file:
 *   - a partial evbuffer_remove_buffer may run dst's callbacks twice in buffer.c (chains moved + remainder copied);
 *     here once with the total;
 *   - allocation inside evbuffer operations never fails (C14 covers failing allocations of buffer.c);
 *   - evbuffer_defer_callbacks is not used on these buffers.
 * Lengths may be fully symbolic 64-bit values when VP_SINK_BYTES is not defined (pure length arithmetic).
 */
#ifndef VP_EVBUF_SINK_H_
#define VP_EVBUF_SINK_H_
#include "vp.h"
#include <errno.h>
#include "event2/buffer.h"
#include "evbuffer-internal.h"

#ifndef VP_SINK_NBUF
#define VP_SINK_NBUF 6
#endif
#ifndef VP_SINK_NCB
#define VP_SINK_NCB 8
#endif
#ifdef VP_SINK_BYTES
#define VP_SINK_MAX VP_SINK_BYTES
#else
#define VP_SINK_MAX 1
#endif

#ifndef EVBUFFER_CB_INTERNAL_FLAGS
#define EVBUFFER_CB_INTERNAL_FLAGS 0xffff0000   /* buffer.c */
#endif

static struct evbuffer vp_sink_pool[VP_SINK_NBUF];
static int vp_sink_live[VP_SINK_NBUF];
static int vp_sink_used;
static unsigned char vp_sink_data[VP_SINK_NBUF][VP_SINK_MAX];
static struct evbuffer_cb_entry vp_sink_cbpool[VP_SINK_NCB];
static int vp_sink_cb_used, vp_sink_cb_removed;
static int vp_sink_free_calls;

/* kernel side of read/write */
static size_t vp_sink_rd_avail = 4096;           /* harness: bytes the kernel has (FIONREAD / max_read cap), >= 1 */
static unsigned char vp_sink_rd[VP_SINK_MAX];    /* bytes delivered by the last successful read */
static unsigned char vp_sink_wr[VP_SINK_MAX];    /* bytes accepted by the last successful write */
static long vp_sink_last_rd = -2, vp_sink_last_wr = -2;   /* result of the last read / write (-2: none yet) */
static long vp_sink_rd_howmuch; static long vp_sink_wr_atmost; static size_t vp_sink_wr_offered;
static int vp_sink_rd_calls, vp_sink_wr_calls;
static long vp_sink_force = -2;                  /* harness: != -2 -> the next transfer result is this value */
static int vp_sink_errno_set[5] = { EAGAIN, EINTR, ECONNRESET, ECONNREFUSED, EPIPE };
static int vp_sink_force_errno;              /* harness: != 0 -> errno of a forced failure (otherwise solver-chosen from the set) */
static int vp_sink_last_errno;               /* errno of the last failed transfer */

static int vp_sink_idx(const struct evbuffer *b)
{
	int i;
	for (i = 0; i < VP_SINK_NBUF; i++)
		if (b == &vp_sink_pool[i]) return i;
	VP_ASSERT(0, "evbuffer sink: not a sink evbuffer");
	__CPROVER_assume(0);
	return 0;
}
/* liveness is kept in the buffer itself (refcnt 1 = live, 0 = freed): no table lookup on the hot path */
#define VP_SINK_CHECK(b) VP_ASSERT((b)->refcnt == 1, "evbuffer sink: use of a freed (or foreign) evbuffer")

/* result of a transfer of at most `count` (>=1) bytes */
static long vp_sink_io_result(size_t count)
{
	unsigned c;
	if (vp_sink_force != -2) {
		long f = vp_sink_force;
		vp_sink_force = -2;
		if (f == -1) { errno = vp_sink_last_errno = vp_sink_force_errno ? vp_sink_force_errno : vp_sink_errno_set[vp_range(0, 4)]; return -1; }
		__CPROVER_assume(f >= 0 && (size_t)f <= count);
		return f;
	}
	c = (unsigned)vp_range(0, 2);
	if (c == 0) { errno = vp_sink_last_errno = vp_sink_errno_set[vp_range(0, 4)]; return -1; }
	if (c == 1) return 0;
	return (long)vp_range(1, count);
}

static void vp_sink_run_callbacks(struct evbuffer *b, size_t n_added, size_t n_deleted)
{
	struct evbuffer_cb_entry *cbent, *next;
	struct evbuffer_cb_info info;
	int guard = 0;
	if (n_added == 0 && n_deleted == 0) return;
	info.orig_size = b->total_len + n_deleted - n_added;
	info.n_added = n_added; info.n_deleted = n_deleted;
	for (cbent = LIST_FIRST(&b->callbacks); cbent != LIST_END(&b->callbacks); cbent = next) {
		next = LIST_NEXT(cbent, next);
		VP_ASSERT(guard++ < VP_SINK_NCB, "evbuffer sink: callback list longer than the pool");
		if ((cbent->flags & EVBUFFER_CB_ENABLED) != EVBUFFER_CB_ENABLED)
			continue;
#ifdef VP_SINK_DISPATCH
		/* the harness names the callbacks that can be installed (direct calls: cbmc's function-pointer removal would
		 * otherwise consider every function with a loosely matching signature) */
		VP_SINK_DISPATCH(cbent->cb.cb_func, b, &info, cbent->cbarg);
#else
		cbent->cb.cb_func(b, &info, cbent->cbarg);
#endif
	}
}

struct evbuffer *evbuffer_new(void)
{
	struct evbuffer *b;
	VP_ASSERT(vp_sink_used < VP_SINK_NBUF, "harness bound: more than VP_SINK_NBUF evbuffers");
	__CPROVER_assume(vp_sink_used < VP_SINK_NBUF);
	vp_sink_live[vp_sink_used] = 1;
	b = &vp_sink_pool[vp_sink_used++];
	LIST_INIT(&b->callbacks);
	b->refcnt = 1;
	return b;
}
void evbuffer_free(struct evbuffer *b)
{
	VP_ASSERT(b->refcnt == 1, "evbuffer sink: evbuffer freed twice");
	b->refcnt = 0;
	vp_sink_free_calls++;
}
size_t evbuffer_get_length(const struct evbuffer *b)
{
	VP_SINK_CHECK(b);
	return b->total_len;
}
int evbuffer_enable_locking(struct evbuffer *b, void *lock)
{
	VP_SINK_CHECK(b);
	if (b->lock) return -1;
	VP_ASSERT(lock != NULL, "evbuffer sink: bufferevents always pass their own lock");
	b->lock = lock; b->own_lock = 0;
	return 0;
}
void evbuffer_set_parent_(struct evbuffer *b, struct bufferevent *bev) { VP_SINK_CHECK(b); b->parent = bev; }
int evbuffer_set_flags(struct evbuffer *b, ev_uint64_t flags) { VP_SINK_CHECK(b); b->flags |= (ev_uint32_t)flags; return 0; }
int evbuffer_freeze(struct evbuffer *b, int start)
{
	VP_SINK_CHECK(b);
	EVBUFFER_LOCK(b);
	if (start) b->freeze_start = 1; else b->freeze_end = 1;
	EVBUFFER_UNLOCK(b);
	return 0;
}
int evbuffer_unfreeze(struct evbuffer *b, int start)
{
	VP_SINK_CHECK(b);
	EVBUFFER_LOCK(b);
	if (start) b->freeze_start = 0; else b->freeze_end = 0;
	EVBUFFER_UNLOCK(b);
	return 0;
}
int evbuffer_get_callbacks_(struct evbuffer *b, struct event_callback **cbs, int max_cbs)
{
	(void)cbs; (void)max_cbs;
	VP_SINK_CHECK(b);
	return 0;      /* deferred_cbs is never set on these buffers */
}
struct evbuffer_cb_entry *evbuffer_add_cb(struct evbuffer *b, evbuffer_cb_func cb, void *cbarg)
{
	struct evbuffer_cb_entry *e;
	VP_SINK_CHECK(b);
	VP_ASSERT(vp_sink_cb_used < VP_SINK_NCB, "harness bound: more than VP_SINK_NCB evbuffer callbacks");
	__CPROVER_assume(vp_sink_cb_used < VP_SINK_NCB);
	e = &vp_sink_cbpool[vp_sink_cb_used++];
	EVBUFFER_LOCK(b);
	e->cb.cb_func = cb; e->cbarg = cbarg; e->flags = EVBUFFER_CB_ENABLED;
	LIST_INSERT_HEAD(&b->callbacks, e, next);
	EVBUFFER_UNLOCK(b);
	return e;
}
int evbuffer_remove_cb_entry(struct evbuffer *b, struct evbuffer_cb_entry *ent)
{
	VP_SINK_CHECK(b);
	EVBUFFER_LOCK(b);
	LIST_REMOVE(ent, next);
	EVBUFFER_UNLOCK(b);
	vp_sink_cb_removed++;
	return 0;
}
int evbuffer_cb_set_flags(struct evbuffer *b, struct evbuffer_cb_entry *cb, ev_uint32_t flags)
{
	VP_SINK_CHECK(b);
	flags &= ~EVBUFFER_CB_INTERNAL_FLAGS;
	EVBUFFER_LOCK(b); cb->flags |= flags; EVBUFFER_UNLOCK(b);
	return 0;
}
int evbuffer_cb_clear_flags(struct evbuffer *b, struct evbuffer_cb_entry *cb, ev_uint32_t flags)
{
	VP_SINK_CHECK(b);
	flags &= ~EVBUFFER_CB_INTERNAL_FLAGS;
	EVBUFFER_LOCK(b); cb->flags &= ~flags; EVBUFFER_UNLOCK(b);
	return 0;
}

/* ---- content primitives (no callbacks) ---------------------------------------------------------------------------- */
static void vp_sink_append_raw(struct evbuffer *b, const unsigned char *p, size_t n)
{
#ifdef VP_SINK_BYTES
	int i = vp_sink_idx(b); size_t j, len = b->total_len;
	VP_ASSERT(n <= VP_SINK_MAX && len <= VP_SINK_MAX - n, "harness bound: sink evbuffer holds more than VP_SINK_BYTES bytes");
	__CPROVER_assume(n <= VP_SINK_MAX && len <= VP_SINK_MAX - n);
	for (j = 0; j < VP_SINK_MAX; j++)
		if (j >= len && j - len < n) vp_sink_data[i][j] = p[j - len];
#else
	(void)p;
	VP_ASSERT(n <= (size_t)-1 - b->total_len, "harness bound: sink evbuffer length overflows size_t");
	__CPROVER_assume(n <= (size_t)-1 - b->total_len);
#endif
	b->total_len += n;
}
static void vp_sink_drain_raw(struct evbuffer *b, size_t k)
{
#ifdef VP_SINK_BYTES
	int i = vp_sink_idx(b); size_t j;
	for (j = 0; j < VP_SINK_MAX; j++)
		vp_sink_data[i][j] = (j + k < VP_SINK_MAX) ? vp_sink_data[i][j + k] : 0;
#endif
	b->total_len -= k;
}
/* byte j of the buffer (j < length) */
static unsigned char vp_sink_at(const struct evbuffer *b, size_t j) { return vp_sink_data[vp_sink_idx(b)][j]; }

/* harness-side setup: put n bytes into a buffer WITHOUT running callbacks and regardless of freezing (a state the
 * bufferevent could have reached earlier) */
static void vp_sink_preset(struct evbuffer *b, const unsigned char *p, size_t n) { vp_sink_append_raw(b, p, n); }

int evbuffer_add(struct evbuffer *b, const void *data, size_t n)
{
	VP_SINK_CHECK(b);
	EVBUFFER_LOCK(b);
	if (b->freeze_end) { EVBUFFER_UNLOCK(b); return -1; }
	vp_sink_append_raw(b, (const unsigned char *)data, n);
	vp_sink_run_callbacks(b, n, 0);
	EVBUFFER_UNLOCK(b);
	return 0;
}
int evbuffer_drain(struct evbuffer *b, size_t n)
{
	size_t k;
	VP_SINK_CHECK(b);
	EVBUFFER_LOCK(b);
	if (b->freeze_start) { EVBUFFER_UNLOCK(b); return -1; }
	k = n < b->total_len ? n : b->total_len;
	vp_sink_drain_raw(b, k);
	vp_sink_run_callbacks(b, 0, k);
	EVBUFFER_UNLOCK(b);
	return 0;
}
int evbuffer_remove(struct evbuffer *b, void *out, size_t n)
{
	size_t k;
	VP_SINK_CHECK(b);
	EVBUFFER_LOCK(b);
	if (b->freeze_start) { EVBUFFER_UNLOCK(b); return -1; }
	k = n < b->total_len ? n : b->total_len;
#ifdef VP_SINK_BYTES
	{ size_t j; int i = vp_sink_idx(b); for (j = 0; j < VP_SINK_MAX; j++) if (j < k) ((unsigned char *)out)[j] = vp_sink_data[i][j]; }
#else
	(void)out;
#endif
	vp_sink_drain_raw(b, k);
	vp_sink_run_callbacks(b, 0, k);
	EVBUFFER_UNLOCK(b);
	return (int)k;
}
/* move the first k bytes of src to the end of dst, no callbacks */
static void vp_sink_move_raw(struct evbuffer *dst, struct evbuffer *src, size_t k)
{
#ifdef VP_SINK_BYTES
	/* (copy through a local array: a pointer into another row of the same 2-D object is mis-encoded by cbmc 6.11 --
	 * the symbolic run produced a counterexample that neither its own concrete re-execution nor gcc reproduces) */
	unsigned char tmp[VP_SINK_MAX]; size_t j; int si = vp_sink_idx(src);
	for (j = 0; j < VP_SINK_MAX; j++) tmp[j] = vp_sink_data[si][j];
	vp_sink_append_raw(dst, tmp, k);
#else
	vp_sink_append_raw(dst, NULL, k);
#endif
	vp_sink_drain_raw(src, k);
}
int evbuffer_add_buffer(struct evbuffer *outbuf, struct evbuffer *inbuf)
{
	size_t n;
	VP_SINK_CHECK(outbuf); VP_SINK_CHECK(inbuf);
	EVBUFFER_LOCK(inbuf); EVBUFFER_LOCK(outbuf);
	n = inbuf->total_len;
	if (n == 0 || outbuf == inbuf) { EVBUFFER_UNLOCK(outbuf); EVBUFFER_UNLOCK(inbuf); return 0; }
	if (outbuf->freeze_end || inbuf->freeze_start) { EVBUFFER_UNLOCK(outbuf); EVBUFFER_UNLOCK(inbuf); return -1; }
	vp_sink_move_raw(outbuf, inbuf, n);
	vp_sink_run_callbacks(inbuf, 0, n);
	vp_sink_run_callbacks(outbuf, n, 0);
	EVBUFFER_UNLOCK(outbuf); EVBUFFER_UNLOCK(inbuf);
	return 0;
}
int evbuffer_remove_buffer(struct evbuffer *src, struct evbuffer *dst, size_t datlen)
{
	VP_SINK_CHECK(src); VP_SINK_CHECK(dst);
	EVBUFFER_LOCK(src); EVBUFFER_LOCK(dst);
	if (datlen == 0 || dst == src) { EVBUFFER_UNLOCK(dst); EVBUFFER_UNLOCK(src); return 0; }
	if (dst->freeze_end || src->freeze_start) { EVBUFFER_UNLOCK(dst); EVBUFFER_UNLOCK(src); return -1; }
	{
		/* everything: evbuffer_add_buffer order (src callbacks, then dst); a proper prefix: dst, then src */
		int all = datlen >= src->total_len;
		if (all) datlen = src->total_len;
		if (datlen) {
			vp_sink_move_raw(dst, src, datlen);
			if (all) vp_sink_run_callbacks(src, 0, datlen);
			vp_sink_run_callbacks(dst, datlen, 0);
			if (!all) vp_sink_run_callbacks(src, 0, datlen);
		}
	}
	EVBUFFER_UNLOCK(dst); EVBUFFER_UNLOCK(src);
	return (int)datlen;
}
int evbuffer_read(struct evbuffer *b, evutil_socket_t fd, int howmuch)
{
	long r; size_t cap;
	(void)fd;
	VP_SINK_CHECK(b);
	EVBUFFER_LOCK(b);
	vp_sink_rd_calls++; vp_sink_rd_howmuch = howmuch;
	if (b->freeze_end) { EVBUFFER_UNLOCK(b); vp_sink_last_rd = -1; return -1; }
	cap = (howmuch < 0 || (size_t)howmuch > vp_sink_rd_avail) ? vp_sink_rd_avail : (size_t)howmuch;
	if (cap == 0) r = 0;          /* nothing asked for: readv of 0 bytes returns 0 */
	else r = vp_sink_io_result(cap);
	vp_sink_last_rd = r;
	if (r > 0) {
#ifdef VP_SINK_BYTES
		VP_ASSERT((size_t)r <= VP_SINK_MAX, "harness bound: read larger than VP_SINK_BYTES");
		__CPROVER_assume((size_t)r <= VP_SINK_MAX);
		vp_bytes(vp_sink_rd, VP_SINK_MAX);
#endif
		vp_sink_append_raw(b, vp_sink_rd, (size_t)r);
		vp_sink_run_callbacks(b, (size_t)r, 0);
	}
	EVBUFFER_UNLOCK(b);
	return (int)r;
}
int evbuffer_write_atmost(struct evbuffer *b, evutil_socket_t fd, ev_ssize_t howmuch)
{
	long r; size_t c;
	(void)fd;
	VP_SINK_CHECK(b);
	EVBUFFER_LOCK(b);
	vp_sink_wr_calls++; vp_sink_wr_atmost = (long)howmuch;
	if (b->freeze_start) { EVBUFFER_UNLOCK(b); vp_sink_last_wr = -1; return -1; }
	c = (howmuch < 0 || (size_t)howmuch > b->total_len) ? b->total_len : (size_t)howmuch;
	vp_sink_wr_offered = c;
	if (c == 0) r = 0;
	else r = vp_sink_io_result(c);
	vp_sink_last_wr = r;
	if (r > 0) {
#ifdef VP_SINK_BYTES
		{ size_t j; int i = vp_sink_idx(b); for (j = 0; j < VP_SINK_MAX; j++) vp_sink_wr[j] = vp_sink_data[i][j]; }
#endif
		vp_sink_drain_raw(b, (size_t)r);
		vp_sink_run_callbacks(b, 0, (size_t)r);
	}
	EVBUFFER_UNLOCK(b);
	return (int)r;
}
int evbuffer_write(struct evbuffer *b, evutil_socket_t fd) { return evbuffer_write_atmost(b, fd, -1); }
#endif
