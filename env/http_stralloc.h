/* http_stralloc.h -- the library's allocation entry points (event_mm_*_) for the
 * HTTP codec / URI / routing harnesses (C28-C30), which do not include event.c.
 *
 * Differs from http_alloc.h in one point: mm_malloc(n) is called by the URI
 * helpers with a SYMBOLIC n (strlen(x)+1, evbuffer_get_length()), and
 * malloc(symbolic) makes cbmc build symbolic-size arrays (HARNESS_GUIDE "what
 * explodes").  Two modes:
 *   default            every mm_malloc/mm_strdup/mm_realloc object has the LITERAL
 *                      size VP_STR_OBJ; the request is asserted to fit and
 *                      recorded (vp_last_alloc_req, vp_alloc_req_of()) so that a
 *                      harness can check the library's own size arithmetic.
 *   -DVP_ALLOC_EXACT   objects of EXACTLY the requested size (1..VP_EXACT_MAX,
 *                      literal malloc sizes behind a switch): overruns of the
 *                      requested size are caught by cbmc's pointer checks.
 *                      More expensive (the result is an ite over all sizes).
 * mm_calloc keeps the exact (concrete at every call site reached) size.
 * Allocation failure: off unless VP_ALLOC_MAY_FAIL + vp_alloc_fail_enabled.
 */
#ifndef VP_HTTP_STRALLOC_H_
#define VP_HTTP_STRALLOC_H_
#include "vp.h"
#include <stdlib.h>
#include <string.h>
#ifndef VP_STR_OBJ
#define VP_STR_OBJ 48
#endif
int vp_alloc_fail_enabled;
int vp_alloc_calls, vp_alloc_failed, vp_free_calls;
size_t vp_last_alloc_req;   /* size asked for by the most recent malloc/strdup/realloc */
void *vp_last_alloc_ptr;
static int vp_alloc_should_fail(void)
{
#ifdef VP_ALLOC_MAY_FAIL
	if (vp_alloc_fail_enabled && vp_bool()) { vp_alloc_failed++; return 1; }
#endif
	return 0;
}
#ifdef VP_ALLOC_EXACT
#ifndef VP_EXACT_MAX
#define VP_EXACT_MAX 40
#endif
#define VP_EX1(k) case k: p = malloc(k); break;
#define VP_EX4(k) VP_EX1(k) VP_EX1(k + 1) VP_EX1(k + 2) VP_EX1(k + 3)
static void *vp_str_obj(size_t sz)
{
	void *p;
	switch (sz) {
	VP_EX4(1) VP_EX4(5) VP_EX4(9) VP_EX4(13) VP_EX4(17) VP_EX4(21) VP_EX4(25) VP_EX4(29) VP_EX4(33) VP_EX4(37)
	default:
		VP_ASSERT(0, "http_stralloc: harness bound: exact-size object larger than 40 bytes requested");
		__CPROVER_assume(0);
		p = malloc(1);
		break;
	}
	__CPROVER_assume(p != NULL);
	return p;
}
#else
static void *vp_str_obj(size_t sz)
{
	void *p;
	VP_ASSERT(sz <= VP_STR_OBJ, "http_stralloc: harness bound: object larger than VP_STR_OBJ requested");
	__CPROVER_assume(sz <= VP_STR_OBJ);
	p = malloc(VP_STR_OBJ);
	__CPROVER_assume(p != NULL);
	return p;
}
#endif
void *event_mm_malloc_(size_t sz)
{
	void *p;
	if (sz == 0) return NULL;
	vp_alloc_calls++;
	if (vp_alloc_should_fail()) return NULL;
	p = vp_str_obj(sz);
	vp_last_alloc_req = sz; vp_last_alloc_ptr = p;
	return p;
}
void *event_mm_calloc_(size_t count, size_t size)
{
	void *p;
	if (count == 0 || size == 0) return NULL;
	if (count > ((size_t)-1) / size) return NULL;
	vp_alloc_calls++;
	if (vp_alloc_should_fail()) return NULL;
	p = calloc(count, size);
	__CPROVER_assume(p != NULL);
	return p;
}
char *event_mm_strdup_(const char *str)
{
	size_t ln, i; char *p;
	if (!str) return NULL;
	vp_alloc_calls++;
	if (vp_alloc_should_fail()) return NULL;
	ln = strlen(str);
	p = vp_str_obj(ln + 1);
	vp_last_alloc_req = ln + 1; vp_last_alloc_ptr = p;
#ifdef VP_ALLOC_EXACT
	for (i = 0; i < VP_STR_OBJ; i++)
		if (i <= ln) p[i] = str[i];
#else
	{
		/* the bytes behind the terminator are zero (not nondeterministic): when the source array ends in
		 * concrete zeros the copy does too, and symex bounds the string loops of the code under test by
		 * constant propagation instead of exploring them up to the unwinding limit */
		size_t avail = (size_t)__CPROVER_OBJECT_SIZE(str) - (size_t)__CPROVER_POINTER_OFFSET(str);
		for (i = 0; i < VP_STR_OBJ; i++)
			p[i] = (i < avail && i <= ln) ? str[i] : 0;
	}
#endif
	return p;
}
/* realloc of a string object created by mm_malloc/mm_strdup/mm_realloc (literal-size mode only) */
void *event_mm_realloc_(void *ptr, size_t sz)
{
#ifdef VP_ALLOC_EXACT
	VP_ASSERT(0, "http_stralloc: mm_realloc is not modelled in exact-size mode");
	__CPROVER_assume(0);
	(void)ptr; (void)sz;
	return NULL;
#else
	char *p;
	size_t i;
	if (sz == 0) { if (ptr) { vp_free_calls++; free(ptr); } return NULL; }
	if (vp_alloc_should_fail()) return NULL;
	if (!ptr) vp_alloc_calls++;
	p = vp_str_obj(sz);
	vp_last_alloc_req = sz; vp_last_alloc_ptr = p;
	if (ptr) {
		for (i = 0; i < VP_STR_OBJ; i++) p[i] = ((char *)ptr)[i];
		free(ptr);
	}
	return p;
#endif
}
void event_mm_free_(void *p) { vp_free_calls++; free(p); }
#endif
