/* http_alloc.h -- the library's allocation entry points (event_mm_*_) for the
 * HTTP harnesses (C23-C26), which do not include event.c.
 *
 * Strings whose length is symbolic are placed in objects of the LITERAL size
 * VP_STR_OBJ (malloc(symbolic) makes cbmc build symbolic-size arrays, see
 * HARNESS_GUIDE "what explodes"); the requested size is asserted to fit and
 * recorded (vp_last_alloc_req) so that a harness can check the library's own
 * size arithmetic.  Objects requested with a constant size (structs) are
 * exact.  Allocation failure: off unless VP_ALLOC_MAY_FAIL + vp_alloc_fail_enabled.
 */
#ifndef VP_HTTP_ALLOC_H_
#define VP_HTTP_ALLOC_H_
#include "vp.h"
#include <stdlib.h>
#include <string.h>
#ifndef VP_STR_OBJ
#define VP_STR_OBJ 32
#endif
int vp_alloc_fail_enabled;
int vp_alloc_calls, vp_alloc_failed, vp_free_calls;
size_t vp_last_alloc_req; /* size asked for by the most recent strdup/realloc */
static int vp_alloc_should_fail(void)
{
#ifdef VP_ALLOC_MAY_FAIL
	if (vp_alloc_fail_enabled && vp_bool()) { vp_alloc_failed++; return 1; }
#endif
	return 0;
}
void *event_mm_malloc_(size_t sz)
{
	void *p;
	if (sz == 0) return NULL;
	vp_alloc_calls++;
	if (vp_alloc_should_fail()) return NULL;
	p = malloc(sz);
	__CPROVER_assume(p != NULL);
	return p;
}
void *event_mm_calloc_(size_t count, size_t size)
{
	void *p;
	if (count == 0 || size == 0) return NULL;
	if (count > ((size_t)-1) / size) return NULL;
	vp_alloc_calls++;
	if (vp_alloc_should_fail()) return NULL;
	p = calloc(count, size);
	__CPROVER_assume(p != NULL);
	return p;
}
char *event_mm_strdup_(const char *str)
{
	size_t ln, i; char *p;
	if (!str) return NULL;
	vp_alloc_calls++;
	if (vp_alloc_should_fail()) return NULL;
	ln = strlen(str);
	VP_ASSERT(ln + 1 <= VP_STR_OBJ, "http_alloc: string longer than the harness bound VP_STR_OBJ");
	vp_last_alloc_req = ln + 1;
	p = malloc(VP_STR_OBJ);
	__CPROVER_assume(p != NULL);
	for (i = 0; i <= ln && i < VP_STR_OBJ; i++)
		p[i] = str[i];
	return p;
}
/* realloc of a string object created by event_mm_strdup_/event_mm_realloc_ */
void *event_mm_realloc_(void *ptr, size_t sz)
{
	char *p;
	vp_alloc_calls++;
	if (sz == 0) { free(ptr); return NULL; }
	if (vp_alloc_should_fail()) return NULL;
	VP_ASSERT(sz <= VP_STR_OBJ, "http_alloc: realloc larger than the harness bound VP_STR_OBJ");
	vp_last_alloc_req = sz;
	p = malloc(VP_STR_OBJ);
	__CPROVER_assume(p != NULL);
	if (ptr) {
		memcpy(p, ptr, VP_STR_OBJ); /* constant size */
		free(ptr);
	}
	return p;
}
void event_mm_free_(void *p) { vp_free_calls++; free(p); }
#endif
