/* log_stub.h -- log.c is not linked into harnesses: warnings/debug output are
 * no-ops (formatting is never the subject), fatal exits are obligations:
 * event_errx(EVENT_ERR_ABORT_) is what a failed EVUTIL_ASSERT calls. */
#ifndef VP_LOG_STUB_H_
#define VP_LOG_STUB_H_
#include "vp.h"
#include <stdarg.h>
#include "event2/util.h"
ev_uint32_t event_debug_logging_mask_ = 0;
int vp_warn_count;
int vp_fatal_is_ok; /* harness sets this when a fatal exit is an allowed outcome */
void event_warn(const char *fmt, ...) { (void)fmt; vp_warn_count++; }
void event_warnx(const char *fmt, ...) { (void)fmt; vp_warn_count++; }
void event_msgx(const char *fmt, ...) { (void)fmt; }
void event_debugx_(const char *fmt, ...) { (void)fmt; }
void event_sock_warn(evutil_socket_t sock, const char *fmt, ...) { (void)fmt; (void)sock; vp_warn_count++; }
void event_logv_(int severity, const char *errstr, const char *fmt, va_list ap) { (void)severity; (void)errstr; (void)fmt; (void)ap; }
#ifdef VP_CBMC
#define VP_STOP() __CPROVER_assume(0)
#else
#define VP_STOP() exit(0)
#endif
void event_err(int eval, const char *fmt, ...) { (void)fmt; (void)eval; VP_ASSERT(vp_fatal_is_ok, "fatal event_err() reached"); VP_STOP(); for(;;); }
void event_errx(int eval, const char *fmt, ...) { (void)fmt; (void)eval; VP_ASSERT(vp_fatal_is_ok, "fatal event_errx() reached (EVUTIL_ASSERT failed or fatal error)"); VP_STOP(); for(;;); }
void event_sock_err(int eval, evutil_socket_t sock, const char *fmt, ...) { (void)fmt; (void)eval; (void)sock; VP_ASSERT(vp_fatal_is_ok, "fatal event_sock_err() reached"); VP_STOP(); for(;;); }
#endif
