/* evbase.h -- construct a `struct event_base` directly (DESIGN §3.9 / C01:
 * event_base_new_with_config() does not leave symbolic execution), with a
 * recording no-op backend, a virtual monotonic clock and minimal stand-ins
 * for the units that are not linked (signal.c, evutil*.c, evthread.c).
 *
 * Include AFTER `#include "event.c"` (uses its statics) and after locks.h /
 * log_stub.h.  Link evmap.c via the obligation's "sources".
 * Knobs (define before including):
 *   VP_HAVE_SIGNAL_C     signal.c is linked/included: do not stub evsig_*
 *   VP_HAVE_EVUTIL_TIME  evutil_time.c is linked: do not stub the clock
 *   VP_HAVE_EVUTIL_C     evutil.c is linked: do not stub evutil_* helpers
 */
#ifndef VP_EVBASE_H_
#define VP_EVBASE_H_
#include "vp.h"

/* ---- virtual clock ------------------------------------------------------ */
struct timeval vp_now = { 1000, 0 };      /* monotonic clock reading */
struct timeval vp_wall = { 1700000000, 0 };
int vp_clock_reads;
#ifndef VP_HAVE_EVUTIL_TIME
int evutil_configure_monotonic_time_(struct evutil_monotonic_timer *mt, int flags) { (void)mt; (void)flags; return 0; }
int evutil_gettime_monotonic_(struct evutil_monotonic_timer *mt, struct timeval *tv) { (void)mt; vp_clock_reads++; *tv = vp_now; return 0; }
#ifdef evutil_gettimeofday
int gettimeofday(struct timeval *restrict tv, void *restrict tz) { (void)tz; *tv = vp_wall; return 0; }
#else
int evutil_gettimeofday(struct timeval *tv, struct timezone *tz) { (void)tz; *tv = vp_wall; return 0; }
#endif
#endif
/* advance the monotonic clock by an arbitrary amount < max_sec seconds */
static void vp_clock_advance_sym(long max_sec)
{
	long ds = (long)vp_range(0, (uint64_t)max_sec);
	long du = (long)vp_range(0, 999999);
	vp_now.tv_sec += ds; vp_now.tv_usec += du;
	if (vp_now.tv_usec >= 1000000) { vp_now.tv_usec -= 1000000; vp_now.tv_sec++; }
}

/* ---- misc helpers from units that are not linked ------------------------- */
#ifndef VP_HAVE_EVUTIL_C
const char *evutil_getenv_(const char *name) { (void)name; return NULL; }
int vp_next_fd = 50;
int vp_pipe_fail;
int evutil_make_internal_pipe_(evutil_socket_t fd[2]) { if (vp_pipe_fail) { fd[0] = fd[1] = -1; return -1; } fd[0] = vp_next_fd++; fd[1] = vp_next_fd++; return 0; }
evutil_socket_t evutil_eventfd_(unsigned initval, int flags) { (void)initval; (void)flags; if (vp_pipe_fail) return -1; return vp_next_fd++; }
int evutil_global_setup_locks_(const int enable_locks) { (void)enable_locks; return 0; }
int evutil_secure_rng_global_setup_locks_(const int enable_locks) { (void)enable_locks; return 0; }
void evutil_free_globals_(void) {}
int vp_closed_fds[8]; int vp_nclosed;
int evutil_closesocket(evutil_socket_t s) { if (vp_nclosed < 8) vp_closed_fds[vp_nclosed] = s; vp_nclosed++; return 0; }
#endif

/* ---- signal back end stand-in ------------------------------------------- */
#ifndef VP_HAVE_SIGNAL_C
int vp_sig_add_calls, vp_sig_del_calls, vp_sig_fail;
static int vp_sig_add(struct event_base *b, evutil_socket_t sig, short old, short ev, void *p) { (void)b;(void)sig;(void)old;(void)ev;(void)p; vp_sig_add_calls++; return vp_sig_fail ? -1 : 0; }
static int vp_sig_del(struct event_base *b, evutil_socket_t sig, short old, short ev, void *p) { (void)b;(void)sig;(void)old;(void)ev;(void)p; vp_sig_del_calls++; return vp_sig_fail ? -1 : 0; }
static const struct eventop vp_sigops = { "vp_signal", NULL, vp_sig_add, vp_sig_del, NULL, NULL, 0, 0, 0 };
int evsig_init_(struct event_base *base) { base->evsigsel = &vp_sigops; return 0; }
void evsig_dealloc_(struct event_base *base) { (void)base; }
void evsig_set_base_(struct event_base *base) { (void)base; }
void evsig_free_globals_(void) {}
int evsig_global_setup_locks_(const int enable_locks) { (void)enable_locks; return 0; }
#endif

/* ---- recording no-op I/O back end --------------------------------------- */
#define VP_BELOG 8
struct vp_be_rec { int is_add; int fd; short old; short events; };
struct vp_be_rec vp_be_log[VP_BELOG];
int vp_be_n, vp_be_add_calls, vp_be_del_calls, vp_be_dispatch_calls, vp_be_dealloc_calls;
int vp_be_fail_add, vp_be_fail_del, vp_be_fail_dispatch;
int vp_be_last_tv_null; struct timeval vp_be_last_tv;
void (*vp_dispatch_hook)(struct event_base *base, struct timeval *tv); /* what "the kernel" reports */
static int vp_be_add(struct event_base *b, evutil_socket_t fd, short old, short ev, void *p)
{
	(void)b; (void)p;
	if (vp_be_n < VP_BELOG) { vp_be_log[vp_be_n].is_add = 1; vp_be_log[vp_be_n].fd = fd; vp_be_log[vp_be_n].old = old; vp_be_log[vp_be_n].events = ev; }
	vp_be_n++; vp_be_add_calls++;
	return vp_be_fail_add ? -1 : 0;
}
static int vp_be_del(struct event_base *b, evutil_socket_t fd, short old, short ev, void *p)
{
	(void)b; (void)p;
	if (vp_be_n < VP_BELOG) { vp_be_log[vp_be_n].is_add = 0; vp_be_log[vp_be_n].fd = fd; vp_be_log[vp_be_n].old = old; vp_be_log[vp_be_n].events = ev; }
	vp_be_n++; vp_be_del_calls++;
	return vp_be_fail_del ? -1 : 0;
}
static int vp_be_dispatch(struct event_base *b, struct timeval *tv)
{
	vp_be_dispatch_calls++;
	vp_be_last_tv_null = (tv == NULL);
	if (tv) vp_be_last_tv = *tv;
	/* the backend releases the base lock while waiting, as the real ones do */
	EVBASE_RELEASE_LOCK(b, th_base_lock);
	if (vp_dispatch_hook) { EVBASE_ACQUIRE_LOCK(b, th_base_lock); vp_dispatch_hook(b, tv); EVBASE_RELEASE_LOCK(b, th_base_lock); }
	EVBASE_ACQUIRE_LOCK(b, th_base_lock);
	return vp_be_fail_dispatch ? -1 : 0;
}
static void vp_be_dealloc(struct event_base *b) { (void)b; vp_be_dealloc_calls++; }
static void *vp_be_init(struct event_base *b) { (void)b; return (void *)&vp_be_n; }
static const struct eventop vp_nullops = { "vp_null", vp_be_init, vp_be_add, vp_be_del, vp_be_dispatch, vp_be_dealloc, 0, EV_FEATURE_FDS, 0 };

/* ---- notification stand-in ---------------------------------------------- */
int vp_notify_calls;
static int vp_notify_fn(struct event_base *base) { (void)base; vp_notify_calls++; return 0; }

/* ---- the constructed base ----------------------------------------------- */
/* Mirrors event_base_new_with_config(NULL) minus: environment lookups, real
 * back end selection, and the notify pipe (th_notify_fn is the counter
 * above when with_lock, so no internal event is added). */
static struct event_base *vp_base_new_ops(int nprio, int with_lock, const struct eventop *ops)
{
	int i;
	struct event_base *base = calloc(1, sizeof(struct event_base));
	__CPROVER_assume(base != NULL);
	base->monotonic_timer.last_time.tv_sec = 0;
	base->tv_cache.tv_sec = 0;
	min_heap_ctor_(&base->timeheap);
	base->sig.ev_signal_pair[0] = -1; base->sig.ev_signal_pair[1] = -1;
	base->th_notify_fd[0] = -1; base->th_notify_fd[1] = -1;
	TAILQ_INIT(&base->active_later_queue);
	evmap_io_initmap_(&base->io);
	evmap_signal_initmap_(&base->sigmap);
	event_changelist_init_(&base->changelist);
	base->max_dispatch_time.tv_sec = -1;
	base->limit_callbacks_after_prio = INT_MAX;
	base->max_dispatch_callbacks = INT_MAX;
	base->evsel = ops;
	base->evbase = ops->init ? ops->init(base) : (void *)base;
#ifndef VP_HAVE_SIGNAL_C
	base->evsigsel = &vp_sigops;
#endif
	base->activequeues = calloc((size_t)nprio, sizeof(struct evcallback_list));
	__CPROVER_assume(base->activequeues != NULL);
	base->nactivequeues = nprio;
	for (i = 0; i < nprio; ++i) TAILQ_INIT(&base->activequeues[i]);
	for (i = 0; i < EVWATCH_MAX; ++i) TAILQ_INIT(&base->watchers[i]);
#ifndef EVENT__DISABLE_THREAD_SUPPORT
	if (with_lock && evthread_lock_fns_.alloc) {
		EVTHREAD_ALLOC_LOCK(base->th_base_lock, 0);
		EVTHREAD_ALLOC_COND(base->current_event_cond);
		base->th_notify_fn = vp_notify_fn;
	}
#endif
	return base;
}
static struct event_base *vp_base_new(int nprio, int with_lock) { return vp_base_new_ops(nprio, with_lock, &vp_nullops); }
#endif
