#!/usr/bin/env python3
"""Regenerate MANIFEST.json from props/C*.py (claimed) and engine/not_applicable.json."""
import json, os, glob, importlib.util, subprocess
V = os.path.dirname(os.path.dirname(os.path.abspath(__file__)))
props = [json.loads(l) for l in open(os.path.join(V, "properties.jsonl"))]
ids = [p["id"] for p in props]
na_path = os.path.join(V, "engine", "not_applicable.json")
na = json.load(open(na_path)) if os.path.exists(na_path) else {}
ready = set(json.load(open(os.path.join(V, "engine", "ready.json"))))
# thorough commands are registered only for properties whose thorough tier was run to completion with exit 0
# on the final tree (engine/thorough_ok.json); for the others the thorough obligations exist in props/ but are not claimed
thorough_ok = set(json.load(open(os.path.join(V, "engine", "thorough_ok.json"))))
checks = []; notapp = []
for pid in ids:
    f = os.path.join(V, "props", pid + ".py")
    if os.path.exists(f) and pid not in na and pid in ready:
        spec = importlib.util.spec_from_file_location("p", f); m = importlib.util.module_from_spec(spec); spec.loader.exec_module(m)
        c = dict(property_id=pid, quick_cmd="./check %s --tier quick" % pid, evidence_file="evidence/%s.json" % pid,
                 replay_cmd_template="./check %s --replay {path}" % pid, engine="cbmc-driver",
                 level_claimed=dict(category=getattr(m, "LEVEL", "model_checking"), text=getattr(m, "TEXT", ""), design_ref=getattr(m, "DESIGN_REF", "DESIGN.md §5 " + pid)),
                 level_note=getattr(m, "NOTE", "") + " Bounds: " + getattr(m, "BOUNDS", "") + " Outside the claim: " + getattr(m, "OUT", ""),
                 technique=getattr(m, "TECHNIQUE", "cbmc bounded symbolic execution of the real C units"))
        if getattr(m, "HAS_THOROUGH", True) and pid in thorough_ok:
            c["thorough_cmd"] = "./check %s --tier thorough" % pid
        checks.append(c)
    else:
        notapp.append(dict(property_id=pid, reason=na.get(pid, "no solver-based check built yet for this property (work in progress; see DESIGN.md §5)")))
try:
    hooks = subprocess.run(["git", "-C", "/repo", "log", "--format=%H", "--grep=^verif hook"], capture_output=True, text=True).stdout.split()
except Exception:
    hooks = []
man = dict(version=1, setup_cmd="sh engine/setup.sh",
           hooks=dict(guard="LIBEVENT_VERIF", enable="checks compile /repo sources with goto-cc -DLIBEVENT_VERIF (plus -DLIBEVENT_VERIF_MIN_BUFFER_SIZE=64 for evbuffer harnesses); the cmake build never defines it",
                      baseline_off_cmd="cmake --build /repo/_build && ctest --test-dir /repo/_build -j8 --timeout 900", source_commits=hooks, add_only=True),
           engines=[dict(name="cbmc-driver", path="engine/vpcheck.py", serves_properties=[c["property_id"] for c in checks],
                         kind_free_text="goto-cc compiles the real /repo units + harness on every run; cbmc 6.11 (SAT: minisat2/cadical/kissat) decides all assertions with unwinding assertions; witnesses guard vacuity; counterexamples replayed (cbmc concrete + native gcc/ASan)")],
           checks=checks, not_applicable=notapp,
           notes="One entry point: ./check <id> --tier quick|thorough. Exit 0 held / 1 VIOLATION / 2 inconclusive (timeout, OOM, vacuous harness, tool error). Known findings: known_findings.json. See DESIGN.md.")
json.dump(man, open(os.path.join(V, "MANIFEST.json"), "w"), indent=1)
print("checks:", len(checks), "not_applicable:", len(notapp))
