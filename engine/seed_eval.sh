#!/bin/sh
# development aid: evaluate one seeded change.  usage: seed_eval.sh <mutation-dir> <PROPERTY> [check args...]
# 1. apply patch in /tmp/wt_seed (worktree of /repo HEAD with build dir _b), rebuild, run the 68 baseline tests
# 2. run the property's check against the mutated tree (VERIF_REPO)   3. undo the patch
D=$1; P=$2; shift 2
W=${SEED_WT:-/tmp/wt_seed}
cd $W && git checkout -q -- . && git apply "$D/patch.diff" || { echo "APPLY-FAILED"; exit 3; }
if cmake --build _b >/tmp/seed_build.log 2>&1; then echo "build: ok"; else echo "build: FAILED"; tail -3 /tmp/seed_build.log; fi
ctest --test-dir _b -j8 --timeout 900 -E regress > /tmp/seed_ctest.log 2>&1; grep "tests passed\|tests failed" /tmp/seed_ctest.log
if grep -Eq "^[0-9]+% tests passed, [1-9][0-9]* tests failed" /tmp/seed_ctest.log; then grep "Failed\|\*\*\*" /tmp/seed_ctest.log | head -5; echo "rerun failed:"; ctest --test-dir _b --rerun-failed --timeout 900 2>&1 | grep "tests passed\|tests failed"; fi
cd /verif && VERIF_REPO=$W ./check $P "$@" 2>&1 | grep -E "^(FAILURE|SUCCESS|TIMEOUT|OOM|VACUOUS|ERROR|VIOLATION|KNOWN|C[0-9]+ tier)|failed:" | cut -c1-180
cd $W && git checkout -q -- .
