#!/usr/bin/env python3
"""Driver: bounded symbolic checking (goto-cc + cbmc) of libevent's real code.

usage: check <PROPERTY> [--tier quick|thorough] [--only NAME[,NAME]] [--replay FILE] [--list] [--keep]

For every obligation of the property (props/<id>.py) the driver
  1. compiles the harness *and the /repo sources it #includes* with goto-cc,
  2. optionally rewrites the goto binary (goto-instrument: cut callees, ...),
  3. lets cbmc decide all assertions (unwinding assertions always on),
  4. classifies: every "WITNESS..." property must FAIL (reachability), every
     other property must SUCCEED (minus the ones a known finding predicts),
  5. on an unexpected FAILURE extracts the vp_input() sequence from the trace,
     writes replays/<...>.json, re-executes it (cbmc concrete + native gcc/ASan)
     and prints  VIOLATION property=<id> replay=<path>.
Exit: 0 all held; 1 violation; 2 inconclusive (timeout/oom/vacuous/tool error).
"""
import sys, os, json, subprocess, time, hashlib, importlib.util, threading, re, shutil, resource
from concurrent.futures import ThreadPoolExecutor

VERIF = os.path.dirname(os.path.dirname(os.path.abspath(__file__)))
REPO = os.environ.get("VERIF_REPO", "/repo")
WORK = os.path.join(VERIF, ".work")
TOTAL_MEM_GB = int(os.environ.get("VERIF_MEM_GB", "52"))
JOBS = int(os.environ.get("VERIF_JOBS", "16"))

def cfg_include():
    for d in (os.path.join(REPO, "_build", "include"), "/repo/_build/include", os.path.join(VERIF, ".work", "cfg", "include")):
        if os.path.exists(os.path.join(d, "event2", "event-config.h")) and os.path.exists(os.path.join(d, "evconfig-private.h")):
            return d
    sys.stderr.write("no generated config headers (event2/event-config.h); run MANIFEST.setup_cmd\n")
    sys.exit(2)

def base_cflags():
    inc = cfg_include()
    return ["-DHAVE_CONFIG_H", "-DLIBEVENT_VERIF", "-I" + inc, "-I" + REPO + "/include",
            "-I" + REPO + "/compat", "-I" + REPO, "-I" + VERIF + "/env", "-I" + VERIF + "/ref",
            "-I" + VERIF + "/harness"]

class MemGate:
    def __init__(self, total):
        self.total = total; self.used = 0; self.cv = threading.Condition()
    def acquire(self, n):
        n = min(n, self.total)
        with self.cv:
            while self.used + n > self.total:
                self.cv.wait()
            self.used += n
        return n
    def release(self, n):
        with self.cv:
            self.used -= n; self.cv.notify_all()
GATE = MemGate(TOTAL_MEM_GB)

def run(cmd, timeout, mem_gb, cwd=None, stdout_path=None):
    """run with address-space limit; returns (rc, stdout_text, wall, maxrss_kb)"""
    def lim():
        if mem_gb:
            b = int(mem_gb * (1 << 30))
            resource.setrlimit(resource.RLIMIT_AS, (b, b))
        os.setsid()
    t0 = time.time()
    out = open(stdout_path, "wb") if stdout_path else subprocess.PIPE
    p = subprocess.Popen(cmd, stdout=out, stderr=subprocess.PIPE, cwd=cwd, preexec_fn=lim)
    try:
        so, se = p.communicate(timeout=timeout)
        rc = p.returncode
    except subprocess.TimeoutExpired:
        try: os.killpg(p.pid, 9)
        except Exception: pass
        so, se = p.communicate()
        rc = -999
    if stdout_path:
        out.close(); so = b""
    ru = resource.getrusage(resource.RUSAGE_CHILDREN)
    return rc, (so or b"").decode("utf-8", "replace"), (se or b"").decode("utf-8", "replace"), time.time() - t0, ru.ru_maxrss

def load_prop(pid):
    path = os.path.join(VERIF, "props", pid + ".py")
    if not os.path.exists(path):
        sys.stderr.write("no such property spec: %s\n" % path); sys.exit(2)
    spec = importlib.util.spec_from_file_location("prop_" + pid, path)
    m = importlib.util.module_from_spec(spec); spec.loader.exec_module(m)
    return m

def sha_units(units):
    h = hashlib.sha256()
    for u in sorted(units):
        p = os.path.join(REPO, u)
        if os.path.exists(p):
            h.update(u.encode()); h.update(open(p, "rb").read())
    return h.hexdigest()[:16]

def compile_ob(ob, wd, extra_defs=(), extra_inc=()):
    gb = os.path.join(wd, "h.gb")
    cmd = ["goto-cc", "-o", gb, "-DVP_CBMC"] + base_cflags() + ["-I" + i for i in extra_inc]
    for d in list(ob.get("defines", [])) + list(extra_defs):
        cmd.append("-D" + d)
    if ob.get("ndebug"): cmd.append("-DNDEBUG")
    cmd.append(os.path.join(VERIF, "harness", ob["harness"]))
    for s in ob.get("sources", []):
        cmd.append(s if os.path.isabs(s) else os.path.join(REPO, s))
    rc, so, se, wall, _ = run(cmd, 300, 8)
    if rc != 0:
        return None, "goto-cc failed:\n" + se[-3000:]
    cur = gb
    for i, step in enumerate(ob.get("instrument", [])):
        nxt = os.path.join(wd, "h%d.gb" % i)
        rc, so, se, wall, _ = run(["goto-instrument"] + list(step) + [cur, nxt], 300, 8)
        if rc != 0:
            return None, "goto-instrument %s failed:\n%s" % (step, (so + se)[-3000:])
        cur = nxt
    return cur, None

def cbmc_cmd(ob, gb, trace=True):
    cmd = ["cbmc", gb, "--function", ob["entry"], "--drop-unused-functions", "--json-ui", "--verbosity", "8"]
    # unwinding assertions are always on, except for an explicitly justified inductive-step
    # obligation (ob["partial_loops"] = the written justification, copied into evidence)
    cmd += ["--no-unwinding-assertions"] if ob.get("partial_loops") else ["--unwinding-assertions"]
    if ob.get("unwind") is not None: cmd += ["--unwind", str(ob["unwind"])]
    if ob.get("unwindset"): cmd += ["--unwindset", ",".join(ob["unwindset"])]
    if not ob.get("malloc_may_fail"): cmd += ["--no-malloc-may-fail"]
    if trace and not ob.get("no_trace"): cmd += ["--trace"]
    s = ob.get("solver")
    if s == "kissat": cmd += ["--external-sat-solver", "kissat"]
    elif s == "cadical": cmd += ["--sat-solver", "cadical"]
    elif s in ("z3", "cvc5"): cmd += ["--" + s]
    cmd += ob.get("cbmc", [])
    return cmd

def parse_cbmc(text):
    """returns dict(results=[{property,status,description,loc,inputs}], steps, vccs, solver_s, symex_s, status, errors)"""
    r = dict(results=[], steps=0, vccs=0, vccs_remaining=0, solver_s=0.0, symex_s=0.0, status=None, errors=[], vars=0, clauses=0)
    try:
        doc = json.loads(text)
    except Exception as e:
        # truncated output (killed): salvage nothing
        r["errors"].append("unparsable cbmc output (%s)" % e); return r
    for m in doc:
        if not isinstance(m, dict): continue
        if "messageText" in m:
            t = m["messageText"]
            if m.get("messageType") == "ERROR": r["errors"].append(t)
            mm = re.search(r"no body for (?:function|callee) (\S+)", t)
            if mm: r.setdefault("nobody", []).append(mm.group(1))
            mm = re.search(r"size of program expression: (\d+) steps", t)
            if mm: r["steps"] = int(mm.group(1))
            mm = re.search(r"Generated (\d+) VCC\(s\), (\d+) remaining", t)
            if mm: r["vccs"] = int(mm.group(1)); r["vccs_remaining"] = int(mm.group(2))
            mm = re.search(r"Runtime Solver: ([\d.e+-]+)s", t)
            if mm: r["solver_s"] += float(mm.group(1))
            mm = re.search(r"Runtime Symex: ([\d.e+-]+)s", t)
            if mm: r["symex_s"] += float(mm.group(1))
            mm = re.search(r"(\d+) variables, (\d+) clauses", t)
            if mm: r["vars"] = max(r["vars"], int(mm.group(1))); r["clauses"] = max(r["clauses"], int(mm.group(2)))
        plist = m.get("result", [])
        if "trace" in m and m.get("status") == "failed":   # --stop-on-fail shape
            q = dict(m); q["status"] = "FAILURE"
            q.setdefault("sourceLocation", (m["trace"][-1].get("sourceLocation", {}) if m["trace"] else {}))
            plist = [q]
        if plist:
            for p in plist:
                ent = dict(property=p.get("property"), status=p.get("status"), description=p.get("description", ""),
                           loc=p.get("sourceLocation", {}))
                if "trace" in p:
                    ins = []
                    for s in p["trace"]:
                        if s.get("stepType") == "assignment" and s.get("lhs") == "vp_in" and not s.get("hidden") \
                           and s.get("sourceLocation", {}).get("function") == "vp_input":
                            v = s.get("value", {})
                            try: ins.append(int(v.get("binary", "0"), 2))
                            except Exception: ins.append(0)
                    ent["inputs"] = ins
                    # last few source lines of the trace for the report
                    tail = []
                    for s in p["trace"]:
                        if s.get("stepType") in ("function-call", "failure"):
                            sl = s.get("sourceLocation", {})
                            tail.append("%s:%s %s" % (sl.get("file", "?"), sl.get("line", "?"), (s.get("function", {}) or {}).get("displayName", s.get("reason", ""))))
                    ent["calls"] = tail[-25:]
                r["results"].append(ent)
        if "cProverStatus" in m: r["status"] = m["cProverStatus"]
    # path-based symex (--paths) reports every property once per explored path: merge, FAILURE wins
    merged = {}
    for ent in r["results"]:
        k = ent.get("property")
        if k not in merged: merged[k] = ent
        elif ent["status"] == "FAILURE" and merged[k]["status"] != "FAILURE": merged[k] = ent
        elif merged[k]["status"] not in ("FAILURE", "SUCCESS") and ent["status"] == "SUCCESS": merged[k] = ent
    r["results"] = list(merged.values())
    return r

def write_replay_header(path, vals):
    with open(path, "w") as f:
        f.write("/* generated */\n#define VP_REPLAY_N %d\nstatic const unsigned long long vp_replay_vals[%d] = {" % (len(vals), max(1, len(vals))))
        f.write(",".join("%dull" % v for v in vals) if vals else "0")
        f.write("};\n")

def replay_concrete(ob, wd, vals, want_desc):
    """re-execute the recorded input sequence: (a) cbmc on the same goto program with inputs fixed,
    (b) natively with gcc + ASan/UBSan.  returns dict."""
    rd = os.path.join(wd, "replay"); os.makedirs(rd, exist_ok=True)
    write_replay_header(os.path.join(rd, "vp_replay_values.h"), vals)
    res = {}
    gb, err = compile_ob(ob, rd, extra_defs=["VP_REPLAY"], extra_inc=[rd])
    if gb:
        ob2 = dict(ob); ob2["no_trace"] = True; ob2["solver"] = None
        rc, so, se, wall, rss = run(cbmc_cmd(ob2, gb, trace=False), min(ob.get("timeout", 600), 600), ob.get("mem_gb", 8))
        pr = parse_cbmc(so)
        failed = [x for x in pr["results"] if x["status"] == "FAILURE" and not x["description"].startswith("WITNESS")]
        res["cbmc_concrete"] = "reproduced" if any(x["description"] == want_desc for x in failed) else ("other-failure" if failed else "not-reproduced")
    else:
        res["cbmc_concrete"] = "build-failed"
    if ob.get("native", True):
        exe = os.path.join(rd, "native")
        mainc = os.path.join(rd, "main.c")
        open(mainc, "w").write("void %s(void);\nint main(void){ %s(); return 0; }\n" % (ob["entry"], ob["entry"]))
        cmd = ["gcc", "-g", "-O0", "-fsanitize=address,undefined", "-fno-omit-frame-pointer", "-w", "-no-pie", "-Wl,--unresolved-symbols=ignore-all", "-DVP_REPLAY", "-DVP_NATIVE", "-I" + rd] + base_cflags()
        for d in ob.get("defines", []): cmd.append("-D" + d)
        if ob.get("ndebug"): cmd.append("-DNDEBUG")
        cmd += ["-o", exe, os.path.join(VERIF, "harness", ob["harness"]), mainc]
        for s in ob.get("sources", []): cmd.append(s if os.path.isabs(s) else os.path.join(REPO, s))
        cmd += ob.get("native_libs", [])
        rc, so, se, wall, _ = run(cmd, 300, 16)
        if rc != 0:
            res["native"] = "build-failed"; res["native_log"] = se[-1500:]
        else:
            rc, so, se, wall, _ = run([exe], 60, None)
            if rc == 0: res["native"] = "not-reproduced"
            elif rc == 77: res["native"] = "diverged(assumption)"
            elif "VP-REPLAY: assertion failed: " + want_desc in se: res["native"] = "reproduced"
            elif "VP-REPLAY: assertion failed" in se: res["native"] = "other-assertion"
            elif "ERROR: AddressSanitizer" in se and "SEGV" not in se: res["native"] = "reproduced(asan)"
            elif "runtime error" in se: res["native"] = "reproduced(ubsan)"
            else: res["native"] = "crashed"
            res["native_rc"] = rc; res["native_log"] = se[-1500:]
    return res

def do_obligation(pid, ob, tier, keep):
    name = ob["name"]
    if os.environ.get("VERIF_TIMEOUT_CAP"):   # development: cap every job's timeout while probing
        ob = dict(ob); ob["timeout"] = min(ob.get("timeout", 600), int(os.environ["VERIF_TIMEOUT_CAP"]))
    # per-process work dir: concurrent runs of the same property must not delete each other's files
    wd = os.path.join(WORK, pid, "run%d" % os.getpid(), re.sub(r"[^A-Za-z0-9_.-]", "_", name))
    shutil.rmtree(wd, ignore_errors=True); os.makedirs(wd)
    rec = dict(name=name, desc=ob.get("desc", ""), harness=ob["harness"], entry=ob["entry"], unwind=ob.get("unwind"),
               unwindset=ob.get("unwindset", []), defines=ob.get("defines", []), verdict=None, violations=[], witnesses=0,
               partial_loops=ob.get("partial_loops"))
    mem = ob.get("mem_gb", 6)
    got = GATE.acquire(mem)
    try:
        t0 = time.time()
        two_pass = ob.get("solver") == "kissat"
        gb, err = compile_ob(ob, wd, extra_defs=(["VP_NO_WITNESS"] if two_pass else []))
        if not gb:
            rec["verdict"] = "ERROR"; rec["error"] = err; return rec
        cmd = cbmc_cmd(ob, gb)
        if two_pass: cmd += ["--stop-on-fail"]   # one solver invocation (cbmc 6.11 hangs on a 2nd external-solver call)
        rec["cmd"] = " ".join(cmd)
        outp = os.path.join(wd, "cbmc.json")
        rc, so, se, wall, rss = run(cmd, ob.get("timeout", 600), mem, stdout_path=outp)
        rec["wall_s"] = round(time.time() - t0, 2); rec["rss_mb"] = rss // 1024
        if rc == -999:
            subprocess.run(["pkill", "-f", "kissat .*" + re.escape(wd)], capture_output=True)
            rec["verdict"] = "TIMEOUT"; return rec
        pr = parse_cbmc(open(outp, errors="replace").read())
        if two_pass and pr["status"] is not None:
            # pass B: reachability witnesses only (property assertions compiled out, standard checks off), built-in solver
            wdb = os.path.join(wd, "wit"); os.makedirs(wdb, exist_ok=True)
            gbb, err = compile_ob(ob, wdb, extra_defs=["VP_WITNESS_ONLY"])
            if not gbb:
                rec["verdict"] = "ERROR"; rec["error"] = err; return rec
            obb = dict(ob); obb["solver"] = None; obb["cbmc"] = list(ob.get("cbmc", [])) + ["--no-standard-checks"]
            outb = os.path.join(wdb, "cbmc.json")
            rc2, so2, se2, wall2, rss2 = run(cbmc_cmd(obb, gbb), ob.get("timeout", 600), mem, stdout_path=outb)
            if rc2 == -999:
                rec["verdict"] = "TIMEOUT"; return rec
            prb = parse_cbmc(open(outb, errors="replace").read())
            if prb["status"] is None:
                rec["verdict"] = "ERROR"; rec["error"] = "witness pass failed: " + se2[-800:]; return rec
            if pr["status"] == "success":
                for x in pr["results"]: x["status"] = "SUCCESS"
            pr["results"] = [x for x in pr["results"] if x["status"] in ("SUCCESS", "FAILURE")] + [x for x in prb["results"] if x["description"].startswith("WITNESS")]
            rec["wall_s"] = round(time.time() - t0, 2)
        rec.update(steps=pr["steps"], vccs=pr["vccs"], vccs_remaining=pr["vccs_remaining"], solver_s=round(pr["solver_s"], 3),
                   symex_s=round(pr["symex_s"], 3), sat_vars=pr["vars"], sat_clauses=pr["clauses"], no_body=sorted(set(pr.get("nobody", []))))
        if pr["status"] == "error":   # cbmc gave up (e.g. solver out of memory under ulimit): not a verdict
            pr["status"] = None
        if pr["status"] is None:
            rec["verdict"] = "OOM" if ("bad_alloc" in se or "Out of memory" in se or "out of memory" in " ".join(pr["errors"]).lower() or rc in (-6, -9, 134, 137, 6)) else "ERROR"
            rec["error"] = (se[-1500:] + "\n".join(pr["errors"][-5:]))
            return rec
        exp_fail = ob.get("expect_fail", [])
        nprops = len(pr["results"]); rec["properties"] = nprops
        unexpected = []; wit_total = 0; wit_ok = 0; kf_hit = False; sample = None
        for r in pr["results"]:
            d = r["description"]
            if d.startswith("WITNESS"):
                wit_total += 1
                if r["status"] == "FAILURE":
                    wit_ok += 1
                    if sample is None and r.get("inputs"): sample = r["inputs"][:40]
                else:
                    rec.setdefault("vacuous", []).append(d)
            elif r["status"] == "FAILURE":
                if any(s in d for s in exp_fail): kf_hit = True
                else: unexpected.append(r)
            elif r["status"] != "SUCCESS":
                rec.setdefault("other", []).append("%s %s" % (r["status"], d))
        rec["witnesses"] = wit_ok; rec["witness_total"] = wit_total
        rec["discharged"] = sum(1 for r in pr["results"] if r["status"] == "SUCCESS")
        # properties that a recorded known finding predicts to fail (and the checks cbmc leaves UNKNOWN behind them)
        # are not obligations of this run: "obligations" counts what is required to hold or to be reachable
        expected_out = sum(1 for r in pr["results"] if not r["description"].startswith("WITNESS") and r["status"] != "SUCCESS" and r not in unexpected)
        rec["properties_required"] = nprops - expected_out
        if sample is not None: rec["witness_inputs"] = sample
        rec["known_finding_hit"] = kf_hit
        if unexpected:
            rec["verdict"] = "FAILURE"
            for r in unexpected[:3]:
                vals = r.get("inputs", [])
                h = hashlib.sha256(json.dumps([pid, name, r["description"], vals]).encode()).hexdigest()[:10]
                rp = os.path.join(VERIF, "replays", "%s-%s-%s.json" % (pid, re.sub(r"[^A-Za-z0-9_.-]", "_", name), h))
                rep = dict(property=pid, obligation=name, tier=tier, failed_property=r["property"], description=r["description"],
                           location=r["loc"], inputs=vals, calls=r.get("calls", []), obligation_spec={k: v for k, v in ob.items() if k != "instrument"},
                           how_to_replay="cd /verif && ./check %s --replay %s" % (pid, os.path.relpath(rp, VERIF)))
                try:
                    rep["replay"] = replay_concrete(ob, wd, vals, r["description"])
                except Exception as e:
                    rep["replay"] = {"error": str(e)}
                os.makedirs(os.path.dirname(rp), exist_ok=True)
                json.dump(rep, open(rp, "w"), indent=1)
                rec["violations"].append(dict(description=r["description"], loc="%s:%s" % (r["loc"].get("file"), r["loc"].get("line")),
                                              replay=os.path.relpath(rp, VERIF), replayed=rep["replay"]))
        elif wit_total == 0 or wit_ok < wit_total:
            rec["verdict"] = "VACUOUS"
        elif rec.get("other") and not (kf_hit and exp_fail):
            # (cbmc reports the remaining checks on a path behind a FAILED built-in pointer check as UNKNOWN; for an
            #  obligation that is expected to fail exactly there -- expect_fail matched -- that is not an error)
            rec["verdict"] = "ERROR"; rec["error"] = "; ".join(rec["other"])
        else:
            rec["verdict"] = "SUCCESS"
        return rec
    finally:
        GATE.release(got)
        if not keep and rec.get("verdict") == "SUCCESS":
            shutil.rmtree(wd, ignore_errors=True)

def main():
    a = sys.argv[1:]
    if not a or a[0] in ("-h", "--help"):
        print(__doc__); return 0
    pid = a[0]; tier = os.environ.get("VERIF_TIER", "quick"); only = None; replay = None; keep = False; lst = False
    i = 1
    while i < len(a):
        if a[i] == "--tier": tier = a[i + 1]; i += 2
        elif a[i] == "--only": only = set(a[i + 1].split(",")); i += 2
        elif a[i] == "--replay": replay = a[i + 1]; i += 2
        elif a[i] == "--keep": keep = True; i += 1
        elif a[i] == "--list": lst = True; i += 1
        else: sys.stderr.write("unknown arg %s\n" % a[i]); return 2
    seed = int(os.environ.get("VERIF_SEED", "0") or 0)
    mod = load_prop(pid)
    os.makedirs(WORK, exist_ok=True)
    obs = mod.obligations(tier)
    names = [o["name"] for o in obs]
    assert len(names) == len(set(names)), "duplicate obligation names"
    if lst:
        for o in obs: print(o["name"], "-", o.get("desc", ""))
        return 0
    if replay:
        rp = replay if os.path.isabs(replay) else os.path.join(VERIF, replay)
        rep = json.load(open(rp))
        ob = [o for o in mod.obligations(rep.get("tier", tier)) if o["name"] == rep["obligation"]]
        if not ob:
            ob = [o for o in mod.obligations("thorough") if o["name"] == rep["obligation"]]
        if not ob:
            print("obligation %s no longer exists" % rep["obligation"]); return 2
        wd = os.path.join(WORK, pid, "run%d" % os.getpid(), "replay_cmd"); shutil.rmtree(wd, ignore_errors=True); os.makedirs(wd)
        res = replay_concrete(ob[0], wd, rep["inputs"], rep["description"])
        print(json.dumps(res, indent=1))
        ok = res.get("cbmc_concrete") == "reproduced" or res.get("native") == "reproduced"
        print("REPLAY %s: %s" % ("reproduced" if ok else "not reproduced", rep["description"]))
        return 1 if ok else 0
    if only: obs = [o for o in obs if o["name"] in only]
    kf_path = os.path.join(VERIF, "known_findings.json")
    kfs = json.load(open(kf_path)) if os.path.exists(kf_path) else {"findings": []}
    if os.environ.get("VERIF_KF_EXTRA"):  # development only: proposed entries not yet merged by the coordinator
        kfs = {"findings": kfs.get("findings", []) + json.load(open(os.environ["VERIF_KF_EXTRA"])).get("findings", [])}
    t0 = time.time()
    with ThreadPoolExecutor(max_workers=JOBS) as ex:
        recs = list(ex.map(lambda o: do_obligation(pid, o, tier, keep), obs))
    wall = time.time() - t0
    if not keep:
        shutil.rmtree(os.path.join(WORK, pid, "run%d" % os.getpid()), ignore_errors=True)
    viol = 0; inconcl = []; kf_lines = []
    for o, r in zip(obs, recs):
        v = r["verdict"]
        line = "%-9s %s  [%ss, %s MB, steps %s, vccs %s, props %s, wit %s/%s]" % (v, r["name"], r.get("wall_s"), r.get("rss_mb"), r.get("steps"),
                                                                                  r.get("vccs"), r.get("properties"), r.get("witnesses"), r.get("witness_total"))
        print(line)
        if v == "FAILURE":
            for x in r["violations"]:
                viol += 1
                print("  failed: %s at %s  replayed=%s" % (x["description"], x["loc"], json.dumps({k: v2 for k, v2 in x["replayed"].items() if not k.endswith("_log")})))
                print("VIOLATION property=%s replay=%s" % (pid, os.path.join(VERIF, x["replay"])))
        elif v != "SUCCESS":
            inconcl.append("%s:%s" % (r["name"], v))
            if r.get("error"): print("  " + r["error"].replace("\n", "\n  ")[-2000:])
            if r.get("vacuous"): print("  unreachable witness: %s" % r["vacuous"])
        if o.get("known_finding"):
            ent = [k for k in kfs.get("findings", []) if k.get("id") == o["known_finding"] and k.get("status") == "open"]
            if r.get("known_finding_hit") and ent:
                kf_lines.append("KNOWN-FINDING: property=%s %s" % (pid, ent[0]["what"]))
            elif r.get("known_finding_hit") and not ent:
                # failing as predicted by a predicate but not (or no longer) listed as open: that is a violation
                viol += 1
                print("VIOLATION property=%s replay=%s" % (pid, os.path.join(VERIF, "known_findings.json#" + o["known_finding"])))
    for l in sorted(set(kf_lines)): print(l)
    # evidence
    level = getattr(mod, "LEVEL", "model_checking")
    n_ob = len(recs); n_ok = sum(1 for r in recs if r["verdict"] == "SUCCESS")
    samples = []
    for r in recs[:60]:
        samples.append({k: r.get(k) for k in ("name", "desc", "entry", "harness", "unwind", "unwindset", "defines", "verdict", "steps", "vccs",
                                              "properties", "discharged", "witnesses", "wall_s", "solver_s", "rss_mb", "witness_inputs", "no_body", "partial_loops") if r.get(k) not in (None, [], "")})
    cov = dict(
        obligations=sum((r.get("properties_required", r.get("properties")) or 0) for r in recs) or n_ob,
        discharged=sum((r.get("discharged") or 0) + (r.get("witnesses") or 0) for r in recs) or n_ok,
        harness_obligations=n_ob, harness_obligations_ok=n_ok,
        checker_cmd="cd /verif && ./check %s --tier %s   # per obligation: goto-cc <harness + /repo units> ; cbmc --unwinding-assertions --drop-unused-functions (see samples[].*)" % (pid, tier),
        trusted_base=["cbmc 6.11.0 / goto-cc / goto-instrument and its SAT back end (minisat2, or kissat/cadical where named)",
                      "harness + environment models under /verif/env (listed in assumptions)", "reference models under /verif/ref",
                      "x86-64 LP64 data model; generated config headers of the cmake build"],
        states=max(1, sum((r.get("steps") or 0) for r in recs)),
        transitions=max(1, sum((r.get("vccs") or 0) for r in recs)),
        traces_validated_against_impl=sum((r.get("witnesses") or 0) for r in recs),
        evaluations=n_ob, distinct_nontrivial=n_ok,
        rule="one evaluation = one harness obligation decided by cbmc over all symbolic inputs within its bound; non-trivial = verdict SUCCESS with its reachability witness(es) reached; states = symex steps, transitions = generated VCCs, traces_validated = witness traces cbmc produced through the real code",
        samples=samples,
        units_encoded=getattr(mod, "UNITS", []), units_sha256_16=sha_units(getattr(mod, "UNITS", [])),
        functions_encoded=getattr(mod, "FUNCTIONS", []),
        bounds=getattr(mod, "BOUNDS", ""), outside_bounds=getattr(mod, "OUT", ""),
        solver_seconds=round(sum((r.get("solver_s") or 0) for r in recs), 2),
        symex_seconds=round(sum((r.get("symex_s") or 0) for r in recs), 2),
        peak_rss_mb=max([(r.get("rss_mb") or 0) for r in recs] or [0]),
        inconclusive=inconcl, known_findings=sorted(set(kf_lines)),
        exhaustive=False,
        explanation="bounded symbolic execution of the real translation units; see bounds/outside_bounds",
    )
    ev = dict(property_id=pid, tier=tier, seed=seed, level=level, coverage=cov,
              assumptions=list(getattr(mod, "ASSUMPTIONS", [])), wall_s=round(wall, 2), violations=viol)
    if not only and os.path.realpath(REPO) == "/repo":   # runs against another tree (VERIF_REPO: seeded changes, scratch worktrees) never touch the evidence
        os.makedirs(os.path.join(VERIF, "evidence"), exist_ok=True)
        json.dump(ev, open(os.path.join(VERIF, "evidence", pid + ".json"), "w"), indent=1)
    print("%s tier=%s obligations=%d ok=%d violations=%d inconclusive=%d wall=%.1fs" % (pid, tier, n_ob, n_ok, viol, len(inconcl), wall))
    if viol: return 1
    if inconcl:
        print("INCONCLUSIVE property=%s %s" % (pid, ",".join(inconcl))); return 2
    return 0

if __name__ == "__main__":
    sys.exit(main())
