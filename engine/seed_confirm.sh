#!/bin/sh
# development aid: confirm a seeded change's demonstration.  usage: seed_confirm.sh <mutation-dir>
# prints: clean=<rc> mutated=<rc>   (confirmed iff clean==0 and mutated!=0)
D=$1; W=${SEED_WT:-/tmp/wt_seed}; B=$W/_b; S=$W
cc_demo() { cc -O1 -g -w -I$B/include -I$S/include -I$S -I$S/compat -o /tmp/seed_demo "$D/demo.c" $B/lib/libevent.a $B/lib/libevent_pthreads.a -lpthread 2>/tmp/seed_demo_cc.log || { echo "demo-build-failed"; tail -3 /tmp/seed_demo_cc.log; return 1; }; }
cd $W && git checkout -q -- . && cmake --build _b >/dev/null 2>&1
cc_demo && { timeout 120 /tmp/seed_demo >/dev/null 2>&1; c=$?; } || c=BUILD
git apply "$D/patch.diff" && cmake --build _b >/dev/null 2>&1
cc_demo && { timeout 120 /tmp/seed_demo >/dev/null 2>&1; m=$?; } || m=BUILD
git checkout -q -- . ; cmake --build _b >/dev/null 2>&1
echo "clean=$c mutated=$m"
