#!/usr/bin/env python3
"""Emit the as-built per-property table (markdown) from props/*.py, evidence/*.json and seeded/*/meta.json."""
import json, os, glob, importlib.util
V = os.path.dirname(os.path.dirname(os.path.abspath(__file__)))
ids = [json.loads(l)["id"] for l in open(os.path.join(V, "properties.jsonl"))]
seeded = {}
for m in glob.glob(os.path.join(V, "seeded", "*", "meta.json")):
    d = json.load(open(m)); seeded.setdefault(d["property"], []).append(d)
out = ["| id | quick / thorough obligations | level | bounds (as built) | outside the claim | seeded changes caught |", "|---|---|---|---|---|---|"]
for pid in ids:
    f = os.path.join(V, "props", pid + ".py")
    if not os.path.exists(f):
        out.append("| %s | - | - | not built | | |" % pid); continue
    spec = importlib.util.spec_from_file_location("p", f); m = importlib.util.module_from_spec(spec)
    try:
        spec.loader.exec_module(m); q = len(m.obligations("quick")); t = len(m.obligations("thorough"))
    except Exception as e:
        out.append("| %s | error %s | | | | |" % (pid, e)); continue
    sd = seeded.get(pid, [])
    caught = "; ".join("%s: %s" % (s["id"], "caught by " + ", ".join(s.get("caught_by", [])[:3]) if s.get("caught") else "MISSED") for s in sd) or "-"
    esc = lambda s: str(s).replace("|", "\\|").replace("\n", " ")
    out.append("| %s | %d / %d | %s | %s | %s | %s |" % (pid, q, t, getattr(m, "LEVEL", ""), esc(getattr(m, "BOUNDS", "")), esc(getattr(m, "OUT", "")), esc(caught)))
print("\n".join(out))
