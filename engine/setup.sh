#!/bin/sh
# MANIFEST.setup_cmd: offline, from files on disk only.  The checks compile /repo's
# sources themselves on every run; the only build product they need are the
# generated config headers (event2/event-config.h, evconfig-private.h).
set -e
V=$(cd "$(dirname "$0")/.." && pwd)
R=${VERIF_REPO:-/repo}
for t in goto-cc goto-instrument cbmc python3 gcc; do command -v $t >/dev/null || { echo "missing tool $t"; exit 1; }; done
if [ -f "$R/_build/include/event2/event-config.h" ] && [ -f "$R/_build/include/evconfig-private.h" ]; then
  echo "config headers: $R/_build/include"
else
  mkdir -p "$V/.work/cfg"
  cmake -S "$R" -B "$V/.work/cfg" -G Ninja -DEVENT__DISABLE_OPENSSL=ON -DEVENT__DISABLE_MBEDTLS=ON >/dev/null
  test -f "$V/.work/cfg/include/event2/event-config.h"
  echo "config headers: $V/.work/cfg/include"
fi
mkdir -p "$V/evidence" "$V/replays" "$V/.work"
echo setup ok
