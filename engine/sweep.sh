#!/bin/sh
# run every property's check (tier $1, default quick) sequentially; one summary line each into .work/sweep_<tier>.txt
T=${1:-quick}; cd /verif; mkdir -p .work; OUT=.work/sweep_$T.txt; : > $OUT
for p in $(ls props/C*.py | sed 's/.*\///; s/\.py//'); do
  s=$(date +%s); ./check $p --tier $T > .work/sweep_$p.log 2>&1; rc=$?; e=$(date +%s)
  echo "$p rc=$rc $((e-s))s $(tail -n 3 .work/sweep_$p.log | grep -E 'tier=' | cut -c1-120)" >> $OUT
done
echo done >> $OUT
