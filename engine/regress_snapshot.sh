#!/bin/sh
# development aid (not a check): run libevent's own regress suite offline per test and print "name STATUS" lines,
# to compare before/after applying a fix: commit.   usage: regress_snapshot.sh <out-file>
cd /repo/_build || exit 1
./bin/regress --timeout 120 --retries 1 main/.. heap/.. et/.. finalize/.. evbuffer/.. signal/.. util/.. bufferevent/.. http/.. dns/.. evtag/.. rpc/.. thread/.. listener/.. watch/.. event_timer/.. 2>&1 \
 | grep -E "^ *\[FAILED|^[a-z_0-9]+/[^ ]+:" | sed -E 's/\([0-9.]+s\)//; s/\[forking\] //; s/ +$//' | sort -u > "$1"
grep -c "OK" "$1"; grep -c "FAIL" "$1"
