#!/usr/bin/env python3
"""Regenerate the generated part of DESIGN.md (between the GENERATED markers): per-property as-built table,
findings (fixed / open), seeded changes and which obligations caught them."""
import json, os, glob, subprocess, re
V = os.path.dirname(os.path.dirname(os.path.abspath(__file__)))
table = subprocess.run(["python3", os.path.join(V, "engine", "gen_design_table.py")], capture_output=True, text=True).stdout
kf = json.load(open(os.path.join(V, "known_findings.json")))
out = ["<!-- GENERATED-BEGIN (engine/gen_design_sections.py; do not edit by hand) -->", "",
       "## 10. Per-property status as built", "", table, "",
       "## 11. Findings", "",
       "### 11.1 Genuine defects repaired (`fix:` commits in /repo; each was first produced by a failing obligation, replayed against the real code, and the obligation passes on the repaired tree; every fix also passes the 68 baseline tests and libevent's own `regress` binary run offline)", ""]
for f in kf.get("fixed", []): out.append("* " + f)
out += ["", "### 11.2 Known findings recorded, not repaired (known_findings.json; the check proves the complement and confirms the finding still fails)", ""]
for f in kf.get("findings", []):
    out.append("* **%s** (%s, %s): %s  \n  predicate: %s  \n  why not fixed: %s" % (f["id"], f["property"], f.get("status"), f["what"], f.get("predicate", ""), f.get("why_not_fixed", "")))
out += ["", "## 12. Seeded changes (independent sub-agents, property text only) and which obligations catch them", "",
        "| change | property | file / what it needs to manifest (from the author's README) | caught by (quick tier) |", "|---|---|---|---|"]
for m in sorted(glob.glob(os.path.join(V, "seeded", "*", "meta.json"))):
    d = json.load(open(m))
    need = re.sub(r"[|\n]", " ", d.get("needs_to_manifest", ""))[:260]
    out.append("| %s | %s | %s | %s |" % (d["id"], d["property"], need, ", ".join(d.get("caught_by", [])[:4]) if d.get("caught") else ("quick: missed; thorough: " + ", ".join(d["caught_by_thorough"]) if d.get("caught_by_thorough") else "**missed** (see §13)")))
out += ["", "<!-- GENERATED-END -->"]
p = os.path.join(V, "DESIGN.md"); s = open(p).read()
blk = "\n".join(out)
if "<!-- GENERATED-BEGIN" in s:
    s = re.sub(r"<!-- GENERATED-BEGIN.*?<!-- GENERATED-END -->", lambda _: blk, s, flags=re.S)
else:
    s = s.rstrip("\n") + "\n\n" + blk + "\n"
open(p, "w").write(s)
print("DESIGN.md generated sections updated")
