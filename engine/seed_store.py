#!/usr/bin/env python3
"""Assemble /verif/seeded/<id>/ from /tmp/mut_out/<id>/ + evaluation logs (.work/seed_eval*.log) + confirmation lines."""
import os, re, json, shutil, glob, sys
V = "/verif"
evals = {}; conf = {}
for f in sorted(glob.glob(V + "/.work/seed_eval*.log")):
    cur = None
    for line in open(f, errors="replace"):
        m = re.match(r"##### (\S+)", line)
        if m: cur = m.group(1); evals[cur] = dict(failed=[], summary="", tests="", build=""); continue
        if cur is None: continue
        if line.startswith("FAILURE"): evals[cur]["failed"].append(line.split()[1])
        elif re.match(r"C\d+ tier=", line): evals[cur]["summary"] = line.strip()
        elif "tests passed" in line and not evals[cur]["tests"]: evals[cur]["tests"] = line.strip()
        elif line.startswith("build:"): evals[cur]["build"] = line.strip()
        elif line.startswith("clean="): conf[cur] = line.strip()
for f in glob.glob(V + "/.work/seed_confirm*.txt"):
    for line in open(f):
        p = line.split(None, 1)
        if len(p) == 2 and "clean=" in p[1]: conf[p[0]] = p[1].strip()
thor = json.load(open(V + "/engine/seed_thorough.json")) if os.path.exists(V + "/engine/seed_thorough.json") else {}
stored = 0
for mid in sorted(evals):
    src = "/tmp/mut_out/" + mid
    c = conf.get(mid, "")
    ok = re.search(r"clean=0 mutated=(?!0\b)\S+", c) is not None and "BUILD" not in c
    if not ok or not os.path.exists(src + "/patch.diff"): print("skip", mid, c); continue
    dst = V + "/seeded/" + mid; os.makedirs(dst, exist_ok=True)
    for fn in ("patch.diff", "demo.c", "README.md"):
        if os.path.exists(src + "/" + fn): shutil.copy(src + "/" + fn, dst + "/" + fn)
    readme = open(src + "/README.md", errors="replace").read() if os.path.exists(src + "/README.md") else ""
    e = evals[mid]; pid = mid.split("_")[0]
    meta = dict(id=mid, property=pid, source="independent sub-agent given only the property text and a scratch worktree",
                needs_to_manifest=re.sub(r"\s+", " ", readme)[:900],
                confirmed=dict(build=e["build"], baseline_suite=e["tests"], demo=c,
                               ran=["git apply patch.diff in a scratch worktree of /repo HEAD; cmake --build; ctest -E regress (68 tests)",
                                    "cc demo.c against the worktree's libevent.a, with and without the patch",
                                    "VERIF_REPO=<worktree> ./check %s --tier quick" % pid]),
                caught=bool(e["failed"]) or bool(re.search(r"violations=[1-9]", e["summary"])),
                caught_by=sorted(set(e["failed"])) or (["(an obligation guarding a repaired finding reported VIOLATION)"] if re.search(r"violations=[1-9]", e["summary"]) else []),
                check_summary=e["summary"], caught_by_thorough=thor.get(mid, []))
    json.dump(meta, open(dst + "/meta.json", "w"), indent=1); stored += 1
print("stored", stored)
