/* demo: a read high-water mark above SSIZE_MAX stops a socket bufferevent from ever reading.
 * build: gcc demo.c -I/repo/include -I/repo/_build/include /repo/_build/lib/libevent_core.a -o demo
 * usage: demo [highmark]   (default (size_t)-1; try 65536 for comparison) */
#include <event2/event.h>
#include <event2/bufferevent.h>
#include <event2/buffer.h>
#include <sys/socket.h>
#include <unistd.h>
#include <stdio.h>
#include <stdlib.h>
static int reads;
static void rcb(struct bufferevent *bev, void *arg) { reads++; printf("read callback: %zu bytes buffered\n", evbuffer_get_length(bufferevent_get_input(bev))); event_base_loopbreak(arg); }
int main(int argc, char **argv)
{
	size_t high = argc > 1 ? strtoull(argv[1], NULL, 0) : (size_t)-1;
	int sp[2]; struct timeval tv = {0, 300000};
	struct event_base *base = event_base_new();
	socketpair(AF_UNIX, SOCK_STREAM, 0, sp);
	evutil_make_socket_nonblocking(sp[0]);
	struct bufferevent *bev = bufferevent_socket_new(base, sp[0], 0);
	bufferevent_setcb(bev, rcb, NULL, NULL, base);
	bufferevent_setwatermark(bev, EV_READ, 0, high);
	bufferevent_enable(bev, EV_READ);
	write(sp[1], "hello", 5);
	event_base_loopexit(base, &tv);
	event_base_dispatch(base);
	printf("high=%zu read callbacks=%d buffered=%zu (5 bytes were sent)\n", high, reads, evbuffer_get_length(bufferevent_get_input(bev)));
	return reads ? 0 : 1;
}
