/* demo: connect() that succeeds immediately (AF_UNIX): the write callback runs BEFORE BEV_EVENT_CONNECTED is reported;
 * with EV_WRITE disabled, CONNECTED is never reported at all.
 * build: gcc demo.c -I/repo/include -I/repo/_build/include /repo/_build/lib/libevent_core.a -o demo */
#include <event2/event.h>
#include <event2/bufferevent.h>
#include <event2/buffer.h>
#include <sys/socket.h>
#include <sys/un.h>
#include <unistd.h>
#include <stdio.h>
#include <string.h>
static char order[16]; static int n;
static void wcb(struct bufferevent *bev, void *arg) { if (n < 15) order[n++] = 'W'; }
static void rcb(struct bufferevent *bev, void *arg) { if (n < 15) order[n++] = 'R'; }
static void ecb(struct bufferevent *bev, short what, void *arg) { if (n < 15) order[n++] = (what & BEV_EVENT_CONNECTED) ? 'C' : 'E'; }
static int run(int disable_write)
{
	struct sockaddr_un sa; int l; struct timeval stop = {0, 200000};
	struct event_base *base = event_base_new();
	memset(&sa, 0, sizeof sa); sa.sun_family = AF_UNIX; snprintf(sa.sun_path, sizeof sa.sun_path, "/tmp/c19demo.%d.sock", (int)getpid());
	unlink(sa.sun_path);
	l = socket(AF_UNIX, SOCK_STREAM, 0); bind(l, (void *)&sa, sizeof sa); listen(l, 4);
	struct bufferevent *bev = bufferevent_socket_new(base, -1, BEV_OPT_CLOSE_ON_FREE);
	bufferevent_setcb(bev, rcb, wcb, ecb, NULL);
	if (disable_write) bufferevent_disable(bev, EV_WRITE);
	n = 0; memset(order, 0, sizeof order);
	int r = bufferevent_socket_connect(bev, (void *)&sa, sizeof sa);
	event_base_loopexit(base, &stop); event_base_dispatch(base);
	printf("EV_WRITE %s: connect()=%d callbacks in order: \"%s\"  (C=CONNECTED event, W=write callback)\n", disable_write ? "disabled" : "enabled ", r, order);
	bufferevent_free(bev); close(l); unlink(sa.sun_path); event_base_free(base);
	return 0;
}
int main(void) { run(0); run(1); return (order[0] == 'C') ? 0 : 1; }
