#define _GNU_SOURCE
#include <event2/event.h>
#include <signal.h>
#include <stdio.h>
#include <errno.h>
#include <unistd.h>
#include <sys/syscall.h>
static int ebadf, log_on;
int close(int fd)   /* interposes libevent's calls to close() */
{
	int r = (int)syscall(SYS_close, fd);
	if (log_on) fprintf(stderr, "  close(%d) = %d%s\n", fd, r, (r < 0 && errno == EBADF) ? " EBADF" : "");
	if (r < 0 && errno == EBADF) ebadf++;
	return r;
}
static void cb(evutil_socket_t s, short w, void *a) { (void)s; (void)w; (void)a; }
int main(void)
{
	struct event_base *base = event_base_new();
	struct event *ev = evsignal_new(base, SIGUSR1, cb, NULL);
	event_add(ev, NULL);
	log_on = 1;
	fprintf(stderr, "event_reinit (%s):\n", event_base_get_method(base));
	event_reinit(base);
	log_on = 0;
	printf("closes of an already closed descriptor during event_reinit: %d\n", ebadf);
	return 0;
}
