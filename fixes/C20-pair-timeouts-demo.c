/* demo: paired bufferevents, timeouts armed for the wrong end / while disabled.
 *  case 1: B has writing DISABLED (one byte of output parked) and a write timeout; its partner sends data to B;
 *          B reports BEV_EVENT_TIMEOUT|BEV_EVENT_WRITING although writing is disabled.
 *  case 2: A has writing enabled, a write timeout, and queues output that its partner does not read: no timeout ever.
 * build: gcc demo.c -I/repo/include -I/repo/_build/include /repo/_build/lib/libevent_core.a -o demo */
#include <event2/event.h>
#include <event2/bufferevent.h>
#include <event2/buffer.h>
#include <stdio.h>
static short got[2];
static void ecb(struct bufferevent *bev, short what, void *arg) { int *i = arg; got[*i] |= what; }
int main(void)
{
	struct timeval t100 = {0, 100000}, stop = {0, 400000};
	struct event_base *base = event_base_new();
	struct bufferevent *p[2]; int i0 = 0, i1 = 1, bad = 0;
	/* case 1 */
	bufferevent_pair_new(base, 0, p);
	bufferevent_setcb(p[0], NULL, NULL, ecb, &i0); bufferevent_setcb(p[1], NULL, NULL, ecb, &i1);
	bufferevent_disable(p[0], EV_WRITE);
	bufferevent_write(p[0], "x", 1);
	bufferevent_set_timeouts(p[0], NULL, &t100);
	bufferevent_enable(p[0], EV_READ);
	bufferevent_write(p[1], "hello", 5);
	event_base_loopexit(base, &stop); event_base_dispatch(base);
	printf("case 1: B enabled=0x%x (EV_WRITE=0x4) events=0x%x (TIMEOUT|WRITING=0x42)\n", bufferevent_get_enabled(p[0]), got[0]);
	if (got[0] & BEV_EVENT_TIMEOUT) bad = 1;
	/* case 2 */
	got[0] = got[1] = 0;
	bufferevent_pair_new(base, 0, p);
	bufferevent_setcb(p[0], NULL, NULL, ecb, &i0); bufferevent_setcb(p[1], NULL, NULL, ecb, &i1);
	bufferevent_set_timeouts(p[0], NULL, &t100);
	bufferevent_write(p[0], "stuck", 5);          /* partner never enables reading */
	event_base_loopexit(base, &stop); event_base_dispatch(base);
	printf("case 2: A output=%zu events=0x%x (expected TIMEOUT|WRITING=0x42 after 100 ms)\n", evbuffer_get_length(bufferevent_get_output(p[0])), got[0]);
	if (!(got[0] & BEV_EVENT_TIMEOUT)) bad = 1;
	return bad;
}
