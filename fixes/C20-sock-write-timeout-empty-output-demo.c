/* demo: a socket bufferevent reports BEV_EVENT_TIMEOUT|BEV_EVENT_WRITING although it never had any output pending.
 * The peer does not read and the kernel send buffer is full (filled behind the bufferevent's back, as happens after the
 * bufferevent itself flushed everything into the kernel); the application (re-)enables EV_WRITE with a write timeout.
 * build: gcc demo.c -I/repo/include -I/repo/_build/include /repo/_build/lib/libevent_core.a -o demo */
#include <event2/event.h>
#include <event2/bufferevent.h>
#include <event2/buffer.h>
#include <sys/socket.h>
#include <unistd.h>
#include <stdio.h>
#include <string.h>
#include <errno.h>
static short got;
static void ecb(struct bufferevent *bev, short what, void *arg) { got = what; printf("event callback: what=0x%x (TIMEOUT=0x40 WRITING=0x02) output=%zu\n", what, evbuffer_get_length(bufferevent_get_output(bev))); event_base_loopbreak(arg); }
int main(void)
{
	int sp[2]; char junk[4096]; struct timeval wt = {0, 100000}, stop = {0, 500000};
	struct event_base *base = event_base_new();
	socketpair(AF_UNIX, SOCK_STREAM, 0, sp);
	evutil_make_socket_nonblocking(sp[0]);
	memset(junk, 'x', sizeof junk);
	while (write(sp[0], junk, sizeof junk) > 0) ;            /* fill the kernel buffer: the socket is not writable */
	struct bufferevent *bev = bufferevent_socket_new(base, sp[0], 0);
	bufferevent_setcb(bev, NULL, NULL, ecb, base);
	bufferevent_set_timeouts(bev, NULL, &wt);
	bufferevent_enable(bev, EV_WRITE);                          /* output buffer is empty */
	event_base_loopexit(base, &stop);
	event_base_dispatch(base);
	printf("enabled after: 0x%x (EV_WRITE=0x04)\n", bufferevent_get_enabled(bev));
	return got ? 1 : 0;
}
