#include <event2/event.h>
#include <sys/socket.h>
#include <netinet/in.h>
#include <arpa/inet.h>
#include <unistd.h>
#include <stdio.h>
#include <string.h>
static int fired; static short what_;
static void cb(evutil_socket_t fd, short what, void *arg) { fired++; what_ = what; event_base_loopbreak(arg); }
int main(int argc, char **argv)
{
	struct event_config *cfg = event_config_new();
	const char *avoid = argc > 1 ? argv[1] : "";
	if (*avoid) event_config_avoid_method(cfg, avoid);
	struct event_base *base = event_base_new_with_config(cfg);
	int l = socket(AF_INET, SOCK_STREAM, 0), c, s; struct sockaddr_in a; socklen_t al = sizeof a;
	memset(&a, 0, sizeof a); a.sin_family = AF_INET; a.sin_addr.s_addr = htonl(INADDR_LOOPBACK);
	bind(l, (void*)&a, sizeof a); listen(l, 1); getsockname(l, (void*)&a, &al);
	c = socket(AF_INET, SOCK_STREAM, 0); connect(c, (void*)&a, sizeof a); s = accept(l, NULL, NULL);
	struct linger lg = {1, 0}; setsockopt(s, SOL_SOCKET, SO_LINGER, &lg, sizeof lg);
	write(c, "x", 1); usleep(10000);  /* unread data + linger0 close => RST */
	close(s); usleep(20000);
	struct event *ev = event_new(base, c, EV_CLOSED | EV_PERSIST, cb, base);
	struct timeval tv = {0, 300000};
	event_add(ev, NULL);
	event_base_loopexit(base, &tv);
	event_base_dispatch(base);
	printf("method=%s fired=%d what=0x%x\n", event_base_get_method(base), fired, what_);
	return 0;
}
