/* demo: a filtering bufferevent reports BEV_EVENT_TIMEOUT|BEV_EVENT_WRITING although it never had output pending
 * (be_filter_enable arms the write timeout unconditionally), and a read timeout although reading is disabled
 * (bufferevent_flush(EV_READ, BEV_FLUSH) re-arms it).
 * build: gcc demo.c -I/repo/include -I/repo/_build/include /repo/_build/lib/libevent_core.a -o demo */
#include <event2/event.h>
#include <event2/bufferevent.h>
#include <event2/buffer.h>
#include <sys/socket.h>
#include <unistd.h>
#include <stdio.h>
static short got;
static void ecb(struct bufferevent *bev, short what, void *arg) { got |= what; }
int main(void)
{
	int sp[2], bad = 0; struct timeval t100 = {0, 100000}, stop = {0, 400000};
	struct event_base *base = event_base_new();
	socketpair(AF_UNIX, SOCK_STREAM, 0, sp);
	evutil_make_socket_nonblocking(sp[0]);
	struct bufferevent *u = bufferevent_socket_new(base, sp[0], 0);
	struct bufferevent *f = bufferevent_filter_new(u, NULL, NULL, 0, NULL, NULL);
	bufferevent_setcb(f, NULL, NULL, ecb, NULL);
	/* case 1: write timeout, nothing ever written */
	bufferevent_set_timeouts(f, NULL, &t100);
	bufferevent_enable(f, EV_WRITE);
	event_base_loopexit(base, &stop); event_base_dispatch(base);
	printf("case 1: output=%zu events=0x%x (TIMEOUT|WRITING=0x42)\n", evbuffer_get_length(bufferevent_get_output(f)), got);
	if (got & BEV_EVENT_TIMEOUT) bad = 1;
	/* case 2: read timeout configured, reading disabled, data flushed in */
	got = 0;
	bufferevent_set_timeouts(f, &t100, NULL);
	bufferevent_disable(f, EV_READ);
	evbuffer_add(bufferevent_get_input(u), "abc", 3);      /* data sitting in the underlying input */
	bufferevent_flush(f, EV_READ, BEV_FLUSH);
	event_base_loopexit(base, &stop); event_base_dispatch(base);
	printf("case 2: enabled=0x%x (EV_READ=0x2) input=%zu events=0x%x (TIMEOUT|READING=0x41)\n", bufferevent_get_enabled(f), evbuffer_get_length(bufferevent_get_input(f)), got);
	if (got & BEV_EVENT_TIMEOUT) bad = 1;
	return bad;
}
