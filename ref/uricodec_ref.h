/* ref/uricodec_ref.h -- reference models for C29 (plain C, no libevent types).
 *
 *   ruc_unreserved(c)      RFC 3986 2.3: ALPHA / DIGIT / "-" / "." / "_" / "~"
 *   ruc_encode             event2/http.h evhttp_uriencode: every byte that is not unreserved
 *                          becomes %XX (two UPPER-case hex digits, RFC 3986 2.1 "should use
 *                          uppercase"); with space_to_plus a space becomes '+'
 *   ruc_decode             event2/http.h evhttp_uridecode / evhttp_decode_uri: "%" HEXDIG HEXDIG
 *                          becomes the byte; '+' becomes ' ' when plus decoding is on
 *                          (mode 1: always, mode 0: never, mode -1: after the first '?');
 *                          every other byte -- including a '%' that does not start a
 *                          complete escape -- is copied
 *   ruc_html_unescape      inverse of the five replacements documented for evhttp_htmlescape
 *   ruc_query_split        reference splitter for evhttp_parse_query_str(_flags), written from the
 *                          text and examples in event2/http.h:
 *                            query   = [ pair *( "&" pair ) [ "&" ] ]      (a trailing "&" is tolerated)
 *                            pair    = key "=" value        key non-empty, split at the FIRST "="
 *                            key is taken verbatim, value is percent-decoded with '+' -> ' '
 *                            (as a C string: it ends at a decoded NUL)
 *                          a pair without "=" or with an empty key makes the whole query invalid
 *                          (result -1, no pairs), except with QUERY_NONCONFORMANT (0x01): a missing
 *                          value is "", a pair with an empty key is skipped ("test=123&&test2=1",
 *                          "test=123&=456&test2=1", "test=123&test2" all parse).
 *                          QUERY_LAST_VAL (0x02): a later pair replaces earlier pairs with the same
 *                          key (keys of an evkeyvalq compare ASCII-case-insensitively) and takes
 *                          the last position; without it all pairs are kept in order.
 */
#ifndef VP_REF_URICODEC_H_
#define VP_REF_URICODEC_H_
#include <stddef.h>

static int ruc_alpha(unsigned char c) { return (c >= 'A' && c <= 'Z') || (c >= 'a' && c <= 'z'); }
static int ruc_digit(unsigned char c) { return c >= '0' && c <= '9'; }
static int ruc_unreserved(unsigned char c) { return ruc_alpha(c) || ruc_digit(c) || c == '-' || c == '.' || c == '_' || c == '~'; }
static int ruc_hexval(unsigned char c)
{
	if (c >= '0' && c <= '9') return c - '0';
	if (c >= 'a' && c <= 'f') return c - 'a' + 10;
	if (c >= 'A' && c <= 'F') return c - 'A' + 10;
	return -1;
}
static unsigned char ruc_uphex(unsigned v) { return (unsigned char)(v < 10 ? '0' + v : 'A' + (v - 10)); }

/* out must have room for 3*n+1 bytes; returns the encoded length (NUL appended, not counted).
 * nmax: constant loop bound >= n */
static size_t ruc_encode(const unsigned char *in, size_t n, size_t nmax, int space_to_plus, unsigned char *out)
{
	size_t i, o = 0;
	for (i = 0; i < nmax; i++) {
		unsigned char c;
		if (i >= n) break;
		c = in[i];
		if (ruc_unreserved(c)) out[o++] = c;
		else if (c == ' ' && space_to_plus) out[o++] = '+';
		else { out[o++] = '%'; out[o++] = ruc_uphex(c >> 4); out[o++] = ruc_uphex(c & 15); }
	}
	out[o] = '\0';
	return o;
}
/* out must have room for n+1 bytes; returns the decoded length (NUL appended, not counted) */
static size_t ruc_decode(const unsigned char *in, size_t n, size_t nmax, int plus_mode, unsigned char *out)
{
	size_t i = 0, o = 0, k;
	int plus = plus_mode == 1;
	for (k = 0; k < nmax; k++) {
		unsigned char c;
		if (i >= n) break;
		c = in[i];
		if (c == '?' && plus_mode < 0) { plus = 1; out[o++] = c; i++; }
		else if (c == '+' && plus) { out[o++] = ' '; i++; }
		else if (c == '%' && n - i >= 3 && ruc_hexval(in[i + 1]) >= 0 && ruc_hexval(in[i + 2]) >= 0) {
			out[o++] = (unsigned char)(ruc_hexval(in[i + 1]) * 16 + ruc_hexval(in[i + 2]));
			i += 3;
		} else { out[o++] = c; i++; }
	}
	out[o] = '\0';
	return o;
}

/* inverse of: < -> &lt;  > -> &gt;  " -> &quot;  ' -> &#039;  & -> &amp;
 * Decodes at most maxtok characters (out has room for maxtok+1 bytes).  Returns the decoded
 * length; (size_t)-1 if the text contains a raw markup character or an ampersand that does
 * not start one of the five entities; (size_t)-2 if it holds more than maxtok characters. */
static int ruc_starts(const unsigned char *s, size_t n, size_t i, const char *lit)
{
	size_t k;
	for (k = 0; lit[k] != '\0'; k++)
		if (i + k >= n || s[i + k] != (unsigned char)lit[k]) return 0;
	return 1;
}
static size_t ruc_html_unescape(const unsigned char *in, size_t n, size_t maxtok, unsigned char *out)
{
	size_t i = 0, o = 0, k;
	for (k = 0; k < maxtok; k++) {
		unsigned char c;
		if (i >= n) break;
		c = in[i];
		if (c == '<' || c == '>' || c == '"' || c == '\'') return (size_t)-1;
		if (c == '&') {
			unsigned char d = i + 1 < n ? in[i + 1] : 0;
			if (d == 'l' && ruc_starts(in, n, i + 2, "t;")) { out[o++] = '<'; i += 4; }
			else if (d == 'g' && ruc_starts(in, n, i + 2, "t;")) { out[o++] = '>'; i += 4; }
			else if (d == 'q' && ruc_starts(in, n, i + 2, "uot;")) { out[o++] = '"'; i += 6; }
			else if (d == '#' && ruc_starts(in, n, i + 2, "039;")) { out[o++] = '\''; i += 6; }
			else if (d == 'a' && ruc_starts(in, n, i + 2, "mp;")) { out[o++] = '&'; i += 5; }
			else return (size_t)-1;
		} else { out[o++] = c; i++; }
	}
	out[o] = '\0';
	if (i < n) return (size_t)-2;
	return o;
}

/* ---- query splitter ---- */
#ifndef RUC_QN
#define RUC_QN 8             /* longest query string */
#endif
#define RUC_QP ((RUC_QN + 1) / 2 + 1)
struct ruc_pair { unsigned char key[RUC_QN + 1]; unsigned char val[RUC_QN + 1]; };
struct ruc_query { int result; size_t n; struct ruc_pair p[RUC_QP]; };
static unsigned char ruc_lower(unsigned char c) { return (c >= 'A' && c <= 'Z') ? (unsigned char)(c + 32) : c; }
static int ruc_key_ieq(const unsigned char *a, const unsigned char *b)
{
	size_t i;
	for (i = 0; i <= RUC_QN; i++) {
		if (ruc_lower(a[i]) != ruc_lower(b[i])) return 0;
		if (a[i] == 0) return 1;
	}
	return 1;
}
static int ruc_str_eq(const unsigned char *a, const unsigned char *b, size_t max)
{
	size_t i;
	for (i = 0; i <= max; i++) {
		if (a[i] != b[i]) return 0;
		if (a[i] == 0) return 1;
	}
	return 1;
}
static void ruc_query_split(const unsigned char *in, size_t n, unsigned flags, struct ruc_query *q)
{
	size_t pos = 0, seg, i, j;
	int lax = (flags & 1u) != 0, lastval = (flags & 2u) != 0;
	q->n = 0; q->result = 0;
	for (seg = 0; seg <= RUC_QN; seg++) {
		size_t e, eq, klen, vn;
		struct ruc_pair np;
		unsigned char raw[RUC_QN + 1];
		if (pos >= n) break;
		for (e = pos; e < n && in[e] != '&'; e++) ;
		for (eq = pos; eq < e && in[eq] != '='; eq++) ;
		klen = eq - pos;
		if (klen == 0 || eq == e) {
			if (!lax) { q->result = -1; q->n = 0; return; }
			if (klen == 0) { pos = e + 1; continue; }
		}
		for (i = 0; i <= RUC_QN; i++) { np.key[i] = i < klen ? in[pos + i] : 0; raw[i] = 0; np.val[i] = 0; }
		vn = eq < e ? e - eq - 1 : 0;
		for (i = 0; i < RUC_QN; i++) if (i < vn) raw[i] = in[eq + 1 + i];
		vn = ruc_decode(raw, vn, RUC_QN, 1, np.val);
		for (i = 0; i <= RUC_QN; i++) if (i > vn) np.val[i] = 0;
		if (lastval) {
			/* drop earlier pairs with the same key, keeping the order of the others */
			j = 0;
			for (i = 0; i < RUC_QP; i++) {
				if (i >= q->n) break;
				if (ruc_key_ieq(q->p[i].key, np.key)) continue;
				if (j != i) q->p[j] = q->p[i];
				j++;
			}
			q->n = j;
		}
		if (q->n < RUC_QP) q->p[q->n] = np;
		q->n++;
		pos = e + 1;
	}
}
#endif
