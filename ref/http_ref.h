/* http_ref.h -- reference recognisers for HTTP/1.1 message syntax, written
 * from RFC 9112 (HTTP/1.1) and RFC 9110 (semantics), independent of http.c.
 * Plain C over (pointer,length) byte ranges; no libc, no allocation; every
 * loop is bounded by the length argument.
 *
 *   RFC 9110 5.6.2   token / tchar
 *   RFC 9112 2.3     HTTP-version = "HTTP/" DIGIT "." DIGIT
 *   RFC 9112 3       request-line = method SP request-target SP HTTP-version
 *   RFC 9112 4       status-line  = HTTP-version SP status-code SP [reason-phrase]
 *   RFC 9112 5       field-line   = field-name ":" OWS field-value OWS
 *   RFC 9112 6.1-6.3 Transfer-Encoding / Content-Length / message body length
 *   RFC 9112 7.1     chunk-size [chunk-ext]
 *
 * Where the RFC gives recipients latitude (MAY) the recogniser reports both
 * the strict verdict and the widest permitted one, so that a harness asserts
 *     implementation accepts  =>  permitted   and   strict => implementation accepts.
 */
#ifndef VP_HTTP_REF_H_
#define VP_HTTP_REF_H_
#include <stddef.h>

typedef unsigned char ref_u8;

/* constant loop bounds (a harness may set them to its own bounds so that symbolic
 * execution stops unrolling there); they do not restrict the recognisers as long
 * as inputs are not longer */
#ifndef REF_MAXLINES
#define REF_MAXLINES 8
#endif
#ifndef REF_MAXLINE
#define REF_MAXLINE 64
#endif

static int ref_is_digit(ref_u8 c) { return c >= '0' && c <= '9'; }
static int ref_is_alpha(ref_u8 c) { return (c >= 'A' && c <= 'Z') || (c >= 'a' && c <= 'z'); }
static int ref_is_hexdig(ref_u8 c) { return ref_is_digit(c) || (c >= 'A' && c <= 'F') || (c >= 'a' && c <= 'f'); }
/* tchar = "!" / "#" / "$" / "%" / "&" / "'" / "*" / "+" / "-" / "." / "^" / "_" / "`" / "|" / "~" / DIGIT / ALPHA */
static int ref_is_tchar(ref_u8 c)
{
	if (ref_is_digit(c) || ref_is_alpha(c))
		return 1;
	switch (c) {
	case '!': case '#': case '$': case '%': case '&': case '\'': case '*': case '+':
	case '-': case '.': case '^': case '_': case '`': case '|': case '~':
		return 1;
	default:
		return 0;
	}
}
/* OWS = *( SP / HTAB ) */
static int ref_is_ows(ref_u8 c) { return c == ' ' || c == '\t'; }
/* RFC 9112 3: white space a lenient request-line parser may treat as SP: SP, HTAB, VT, FF, bare CR */
static int ref_is_lws(ref_u8 c) { return c == ' ' || c == '\t' || c == 0x0b || c == 0x0c || c == '\r'; }
static ref_u8 ref_lower(ref_u8 c) { return (c >= 'A' && c <= 'Z') ? (ref_u8)(c + 32) : c; }

static int ref_is_token(const ref_u8 *p, size_t n)
{
	size_t i;
	if (n == 0)
		return 0;
	for (i = 0; i < REF_MAXLINE && i < n; i++)
		if (!ref_is_tchar(p[i]))
			return 0;
	return 1;
}
/* byte-range equals a literal (case-sensitive / case-insensitive) */
static int ref_eq(const ref_u8 *p, size_t n, const char *lit)
{
	size_t i;
	for (i = 0; i < n; i++) {
		if (lit[i] == '\0' || p[i] != (ref_u8)lit[i])
			return 0;
	}
	return lit[n] == '\0';
}
static int ref_eq_nocase(const ref_u8 *p, size_t n, const char *lit)
{
	size_t i;
	for (i = 0; i < n; i++) {
		if (lit[i] == '\0' || ref_lower(p[i]) != ref_lower((ref_u8)lit[i]))
			return 0;
	}
	return lit[n] == '\0';
}

/* ---- methods: the names event2/http.h documents for enum evhttp_cmd_type ----
 * (method names are case-sensitive, RFC 9110 9.1).  Returns the bit value of
 * the documented enumerator or 0 for any other byte string. */
#define REF_REQ_GET       (1 << 0)
#define REF_REQ_POST      (1 << 1)
#define REF_REQ_HEAD      (1 << 2)
#define REF_REQ_PUT       (1 << 3)
#define REF_REQ_DELETE    (1 << 4)
#define REF_REQ_OPTIONS   (1 << 5)
#define REF_REQ_TRACE     (1 << 6)
#define REF_REQ_CONNECT   (1 << 7)
#define REF_REQ_PATCH     (1 << 8)
#define REF_REQ_PROPFIND  (1 << 9)
#define REF_REQ_PROPPATCH (1 << 10)
#define REF_REQ_MKCOL     (1 << 11)
#define REF_REQ_LOCK      (1 << 12)
#define REF_REQ_UNLOCK    (1 << 13)
#define REF_REQ_COPY      (1 << 14)
#define REF_REQ_MOVE      (1 << 15)
static unsigned ref_method(const ref_u8 *p, size_t n)
{
	if (ref_eq(p, n, "GET")) return REF_REQ_GET;
	if (ref_eq(p, n, "POST")) return REF_REQ_POST;
	if (ref_eq(p, n, "HEAD")) return REF_REQ_HEAD;
	if (ref_eq(p, n, "PUT")) return REF_REQ_PUT;
	if (ref_eq(p, n, "DELETE")) return REF_REQ_DELETE;
	if (ref_eq(p, n, "OPTIONS")) return REF_REQ_OPTIONS;
	if (ref_eq(p, n, "TRACE")) return REF_REQ_TRACE;
	if (ref_eq(p, n, "CONNECT")) return REF_REQ_CONNECT;
	if (ref_eq(p, n, "PATCH")) return REF_REQ_PATCH;
	if (ref_eq(p, n, "PROPFIND")) return REF_REQ_PROPFIND;
	if (ref_eq(p, n, "PROPPATCH")) return REF_REQ_PROPPATCH;
	if (ref_eq(p, n, "MKCOL")) return REF_REQ_MKCOL;
	if (ref_eq(p, n, "LOCK")) return REF_REQ_LOCK;
	if (ref_eq(p, n, "UNLOCK")) return REF_REQ_UNLOCK;
	if (ref_eq(p, n, "COPY")) return REF_REQ_COPY;
	if (ref_eq(p, n, "MOVE")) return REF_REQ_MOVE;
	return 0;
}

/* HTTP-version = HTTP-name "/" DIGIT "." DIGIT ; HTTP-name is case-sensitive */
static int ref_http_version(const ref_u8 *p, size_t n, int *major, int *minor)
{
	if (n != 8)
		return 0;
	if (p[0] != 'H' || p[1] != 'T' || p[2] != 'T' || p[3] != 'P' || p[4] != '/')
		return 0;
	if (!ref_is_digit(p[5]) || p[6] != '.' || !ref_is_digit(p[7]))
		return 0;
	*major = p[5] - '0';
	*minor = p[7] - '0';
	return 1;
}

/* ---- request-line ----------------------------------------------------------
 * strict:   method SP request-target SP HTTP-version, method = token,
 *           request-target = 1*(octet that is no white space); what a target
 *           may contain beyond that is URI syntax (property C28).
 * permitted leniency used here: trailing SP before CRLF is ignored ("ignoring
 *           preceding or trailing whitespace", RFC 9112 3).
 * wellformed: the line (minus trailing SP) has the shape  M SP T SP V  where M
 *           contains no SP, V is an HTTP-version and T is not empty.  When T
 *           contains no white space the decomposition is the RFC's; when it
 *           does, this is the split libevent documents for its deliberately
 *           non-conformant server side (EVHTTP_URI_NONCONFORMANT: targets such
 *           as "/test nonconformant" are served): M ends at the FIRST SP, V
 *           starts after the LAST SP.  target_has_ws tells the two apart.
 * A method that is not a token leaves the line "wellformed" but not "strict":
 * such a request is answered 501/400 later, the target/version split is the same. */
struct ref_reqline {
	int wellformed;      /* M SP T SP V as described above, version syntactically valid */
	int strict;          /* RFC 9112 grammar: wellformed, method is a token, target is one word, no trailing SP */
	int target_has_ws;   /* T contains SP / HTAB / VT / FF / CR (non-conformant, accepted on purpose) */
	size_t m_off, m_len; /* method */
	size_t t_off, t_len; /* request-target */
	size_t v_off, v_len; /* HTTP-version */
	int major, minor;
	unsigned method;     /* REF_REQ_* or 0 */
};
static void ref_reqline_parse(const ref_u8 *line, size_t len, struct ref_reqline *r)
{
	size_t end = len, i, nsp = 0, sp1 = 0, sp2 = 0;
	r->wellformed = r->strict = r->target_has_ws = 0;
	r->m_off = r->m_len = r->t_off = r->t_len = r->v_off = r->v_len = 0;
	r->major = r->minor = -1;
	r->method = 0;
	for (i = 0; i < REF_MAXLINE && end > 0 && line[end - 1] == ' '; i++)
		end--;
	for (i = 0; i < REF_MAXLINE && i < end; i++) {
		if (line[i] == ' ') {
			if (nsp == 0) sp1 = i;
			sp2 = i; /* last SP so far */
			nsp++;
		}
	}
	if (nsp < 2)
		return;
	r->m_off = 0; r->m_len = sp1;
	r->t_off = sp1 + 1; r->t_len = sp2 - sp1 - 1;
	r->v_off = sp2 + 1; r->v_len = end - sp2 - 1;
	if (r->t_len == 0)
		return;
	for (i = r->t_off; i < REF_MAXLINE && i < sp2; i++) {
		if (line[i] == '\n' || line[i] == '\0')
			return; /* never part of a line / of a target */
		if (ref_is_lws(line[i]))
			r->target_has_ws = 1;
	}
	if (!ref_http_version(line + r->v_off, r->v_len, &r->major, &r->minor))
		return;
	r->wellformed = 1;
	r->method = ref_method(line + r->m_off, r->m_len);
	r->strict = ref_is_token(line + r->m_off, r->m_len) && end == len && !r->target_has_ws;
}

/* ---- status-line -------------------------------------------------------------
 * status-line = HTTP-version SP status-code SP [ reason-phrase ]
 * status-code = 3DIGIT ; reason-phrase = 1*( HTAB / SP / VCHAR / obs-text )
 * permitted leniency (wellformed but not strict): the SP after the status code
 * may be missing when the reason phrase is empty (ubiquitous), and the reason
 * phrase may contain control characters other than NUL / LF ("a client SHOULD
 * ignore the reason-phrase content"). */
struct ref_statusline {
	int wellformed; /* incl. the lenient form without trailing SP */
	int strict;
	int major, minor, code;
	size_t r_off, r_len; /* reason phrase */
};
static void ref_statusline_parse(const ref_u8 *line, size_t len, struct ref_statusline *r)
{
	size_t i;
	r->wellformed = r->strict = 0;
	r->major = r->minor = r->code = -1;
	r->r_off = r->r_len = 0;
	if (len < 12)
		return;
	if (!ref_http_version(line, 8, &r->major, &r->minor))
		return;
	if (line[8] != ' ')
		return;
	if (!ref_is_digit(line[9]) || !ref_is_digit(line[10]) || !ref_is_digit(line[11]))
		return;
	r->code = (line[9] - '0') * 100 + (line[10] - '0') * 10 + (line[11] - '0');
	if (len == 12) {
		r->wellformed = 1; /* lenient: no SP, empty reason */
		r->r_off = 12;
		return;
	}
	if (line[12] != ' ')
		return;
	r->r_off = 13; r->r_len = len - 13;
	{
		int grammatical = 1;
		for (i = 13; i < REF_MAXLINE && i < len; i++) {
			ref_u8 c = line[i];
			if (c == '\0' || c == '\n')
				return; /* never inside a line */
			if (!(c == '\t' || c == ' ' || (c > 0x20 && c != 0x7f)))
				grammatical = 0; /* other control characters: not grammatical, tolerated by lenient recipients */
		}
		r->wellformed = 1;
		r->strict = grammatical;
	}
}

/* ---- field-line --------------------------------------------------------------
 * field-line = field-name ":" OWS field-value OWS ; field-name = token
 * RFC 9112 5.1: "No whitespace is allowed between the field name and colon.
 *   ... A server MUST reject, with a response status code of 400 (Bad Request),
 *   any received request message that contains whitespace between a header
 *   field name and colon."
 * RFC 9110 5.5: a recipient of CR, LF or NUL within a field value MUST either
 *   reject the message or replace each of those characters with SP. */
struct ref_fieldline {
	int has_colon;
	int name_token;      /* field-name is a token */
	int ws_before_colon; /* name ends in SP / HTAB (MUST reject in a request) */
	int value_bad_octet; /* value contains CR, LF or NUL */
	size_t n_off, n_len;
	size_t v_off, v_len; /* value with OWS removed on both sides */
};
static void ref_fieldline_parse(const ref_u8 *line, size_t len, struct ref_fieldline *r)
{
	size_t i, colon = len, b, e;
	r->has_colon = r->name_token = r->ws_before_colon = r->value_bad_octet = 0;
	r->n_off = r->n_len = r->v_off = r->v_len = 0;
	for (i = 0; i < REF_MAXLINE && i < len; i++) {
		if (line[i] == ':') { colon = i; break; }
	}
	if (colon == len)
		return;
	r->has_colon = 1;
	r->n_off = 0; r->n_len = colon;
	r->name_token = ref_is_token(line, colon);
	r->ws_before_colon = colon > 0 && ref_is_ows(line[colon - 1]);
	b = colon + 1; e = len;
	for (i = 0; i < REF_MAXLINE && b < e && ref_is_ows(line[b]); i++) b++;
	for (i = 0; i < REF_MAXLINE && e > b && ref_is_ows(line[e - 1]); i++) e--;
	r->v_off = b; r->v_len = e - b;
	for (i = b; i < REF_MAXLINE && i < e; i++)
		if (line[i] == '\r' || line[i] == '\n' || line[i] == '\0')
			r->value_bad_octet = 1;
}

/* ---- header section (RFC 9112 5, 5.2) ---------------------------------------------
 * Input: the lines of the header section in order (without their CRLF).
 * Output: the field list a conforming recipient derives, or the verdict that
 * the section must be rejected, or that more lines are needed.
 *   - empty line: end of section
 *   - line starting with SP / HTAB: obs-fold continuation of the previous
 *     field; "MUST either reject the message ... or replace each received
 *     obs-fold with one or more SP octets" (5.2) -> value := value SP content.
 *     Before the first field: "MUST either reject the message as invalid or
 *     consume each whitespace-preceded line without further processing" (2.2).
 *   - otherwise a field-line (see ref_fieldline_parse).
 * must_reject: no colon, empty name, white space before the colon.
 * strict: every line processed is grammatical (token name, no CR/LF/NUL in value). */
#define REF_H_DONE   1
#define REF_H_MORE   2
#define REF_H_REJECT 3
#ifndef REF_MAXF
#define REF_MAXF 4
#endif
/* constant loop bounds (a harness sets them to its own bounds so that symbolic
 * execution stops unrolling there): lines per section, bytes per line */
#ifndef REF_MAXLINES
#define REF_MAXLINES 8
#endif
#ifndef REF_MAXLINE
#define REF_MAXLINE 64
#endif
#ifndef REF_MAXV
#define REF_MAXV 48
#endif
struct ref_hfield { ref_u8 name[REF_MAXV]; size_t name_len; ref_u8 value[REF_MAXV]; size_t value_len; int folded; };
struct ref_hsection {
	int status;          /* REF_H_* (REJECT only for must-reject reasons) */
	int strict;          /* all processed lines strictly grammatical */
	int leading_fold;    /* a whitespace-preceded line before the first field (reject or skip: both permitted) */
	size_t nlines_used;  /* lines consumed, including the terminating empty line */
	size_t nfields;
	struct ref_hfield f[REF_MAXF];
};
static void ref_header_section(const ref_u8 *const *lines, const size_t *lens, size_t nlines, struct ref_hsection *h)
{
	size_t li, i;
	h->status = REF_H_MORE; h->strict = 1; h->leading_fold = 0; h->nlines_used = 0; h->nfields = 0;
	for (li = 0; li < REF_MAXLINES && li < nlines; li++) {
		const ref_u8 *l = lines[li];
		size_t n = lens[li];
		h->nlines_used = li + 1;
		if (n == 0) { h->status = REF_H_DONE; return; }
		if (ref_is_ows(l[0])) {
			size_t b = 0, e = n;
			struct ref_hfield *f;
			if (h->nfields == 0) { h->leading_fold = 1; h->strict = 0; h->status = REF_H_REJECT; return; }
			f = &h->f[h->nfields - 1];
			for (i = 0; i < REF_MAXLINE && b < e && ref_is_ows(l[b]); i++) b++;
			for (i = 0; i < REF_MAXLINE && e > b && ref_is_ows(l[e - 1]); i++) e--;
			if (f->value_len + 1 + (e - b) > REF_MAXV) { h->strict = 0; h->status = REF_H_REJECT; return; }
			f->value[f->value_len++] = ' ';
			for (i = b; i < REF_MAXLINE && i < e; i++) {
				if (l[i] == '\r' || l[i] == '\n' || l[i] == '\0') h->strict = 0;
				f->value[f->value_len++] = l[i];
			}
			f->folded = 1;
			continue;
		}
		{
			struct ref_fieldline fl;
			struct ref_hfield *f;
			ref_fieldline_parse(l, n, &fl);
			if (!fl.has_colon || fl.n_len == 0 || fl.ws_before_colon) { h->strict = 0; h->status = REF_H_REJECT; return; }
			if (!fl.name_token || fl.value_bad_octet) h->strict = 0;
			for (i = 0; i < REF_MAXLINE && i < fl.n_len; i++) if (l[i] == '\0') h->strict = 0;
			if (h->nfields == REF_MAXF || fl.n_len > REF_MAXV || fl.v_len > REF_MAXV) { h->strict = 0; h->status = REF_H_REJECT; return; }
			f = &h->f[h->nfields++];
			f->folded = 0;
			f->name_len = fl.n_len; f->value_len = fl.v_len;
			for (i = 0; i < REF_MAXLINE && i < fl.n_len; i++) f->name[i] = l[fl.n_off + i];
			for (i = 0; i < REF_MAXLINE && i < fl.v_len; i++) f->value[i] = l[fl.v_off + i];
		}
	}
}

/* ---- Content-Length ------------------------------------------------------------
 * Content-Length = 1*DIGIT (RFC 9110 8.6).  RFC 9112 6.3 item 5: a list of
 * identical valid values "N, N" MAY be accepted as N; anything else is invalid
 * framing (unrecoverable error).  Returns 1 and *out for 1*DIGIT that fits
 * into 63 bits, 0 otherwise (overflow counts as invalid: "MUST anticipate
 * potentially large decimal numerals and prevent parsing errors"). */
static int ref_content_length(const ref_u8 *p, size_t n, unsigned long long *out)
{
	unsigned long long v = 0;
	size_t i;
	if (n == 0)
		return 0;
	for (i = 0; i < n; i++) {
		if (!ref_is_digit(p[i]))
			return 0;
		if (v > 0x7fffffffffffffffULL / 10 || (v == 0x7fffffffffffffffULL / 10 && (unsigned)(p[i] - '0') > 0x7fffffffffffffffULL % 10))
			return 0;
		v = v * 10 + (unsigned)(p[i] - '0');
	}
	*out = v;
	return 1;
}

/* ---- Transfer-Encoding -----------------------------------------------------------
 * Transfer-Encoding = #transfer-coding ; elements separated by "," with OWS;
 * transfer-coding = token *( OWS ";" OWS transfer-parameter ).
 * Classifies one field value:
 *   REF_TE_ONLY_CHUNKED  the value is exactly the single coding "chunked"
 *   REF_TE_ENDS_CHUNKED  several codings, the final one is "chunked"
 *   REF_TE_OTHER         anything else (final coding is not chunked / malformed / empty) */
#define REF_TE_ONLY_CHUNKED 1
#define REF_TE_ENDS_CHUNKED 2
#define REF_TE_OTHER        3
static int ref_te_classify(const ref_u8 *p, size_t n)
{
	size_t b = 0, e = n, last_b, i;
	int nelem = 1;
	while (b < e && ref_is_ows(p[b])) b++;
	while (e > b && ref_is_ows(p[e - 1])) e--;
	if (b == e)
		return REF_TE_OTHER;
	last_b = b;
	for (i = b; i < e; i++) {
		if (p[i] == ',') { last_b = i + 1; nelem++; }
	}
	while (last_b < e && ref_is_ows(p[last_b])) last_b++;
	if (!ref_eq_nocase(p + last_b, e - last_b, "chunked"))
		return REF_TE_OTHER;
	return nelem == 1 ? REF_TE_ONLY_CHUNKED : REF_TE_ENDS_CHUNKED;
}

/* ---- message body length of a REQUEST (RFC 9112 6.3) ------------------------------
 * Input: the header section as (name,value) pairs, values already OWS-trimmed.
 * Output: bit set of outcomes the RFC permits a server.
 *   REF_BODY_NONE     no body (item 6)
 *   REF_BODY_LENGTH   body of exactly *length octets (item 5)
 *   REF_BODY_CHUNKED  chunked framing (item 3)
 *   REF_BODY_REJECT   answer with an error status and/or close
 * Rejection is always *permitted* when something is irregular; it is the only
 * permitted outcome when the framing is invalid. */
#define REF_BODY_NONE    1
#define REF_BODY_LENGTH  2
#define REF_BODY_CHUNKED 4
#define REF_BODY_REJECT  8
struct ref_field { const ref_u8 *name; size_t name_len; const ref_u8 *value; size_t value_len; };
static unsigned ref_request_body(const struct ref_field *f, size_t nf, int major, int minor, unsigned long long *length)
{
	size_t i;
	int n_te = 0, te_class = 0, te_all_only_chunked = 1;
	int n_cl = 0, cl_ok = 1;
	unsigned long long cl = 0, v;
	for (i = 0; i < REF_MAXLINES && i < nf; i++) {
		if (ref_eq_nocase(f[i].name, f[i].name_len, "Transfer-Encoding")) {
			int c = ref_te_classify(f[i].value, f[i].value_len);
			n_te++;
			te_class = c; /* the final coding is in the last field line */
			if (c != REF_TE_ONLY_CHUNKED) te_all_only_chunked = 0;
		} else if (ref_eq_nocase(f[i].name, f[i].name_len, "Content-Length")) {
			if (!ref_content_length(f[i].value, f[i].value_len, &v))
				cl_ok = 0;
			else if (n_cl > 0 && v != cl)
				cl_ok = 0;
			else
				cl = v;
			n_cl++;
		}
	}
	*length = 0;
	if (n_te > 0) {
		/* 6.1: "A server ... that receives an HTTP/1.0 message containing a Transfer-Encoding
		 * header field MUST treat the message as if the framing is faulty" */
		if (major < 1 || (major == 1 && minor < 1))
			return REF_BODY_REJECT;
		/* 6.3 item 3: final coding not chunked in a request => 400 + close */
		if (te_class == REF_TE_OTHER)
			return REF_BODY_REJECT;
		/* final coding chunked: chunked framing; rejecting is also permitted when other
		 * codings are listed (501), chunked is repeated, or Content-Length is present too */
		if (n_te == 1 && te_all_only_chunked && n_cl == 0)
			return REF_BODY_CHUNKED;
		return REF_BODY_CHUNKED | REF_BODY_REJECT;
	}
	if (n_cl > 0) {
		if (!cl_ok)
			return REF_BODY_REJECT; /* 6.3 item 4 */
		*length = cl;
		/* several identical values: MAY accept as one, MAY reject */
		return n_cl == 1 ? REF_BODY_LENGTH : (REF_BODY_LENGTH | REF_BODY_REJECT);
	}
	return REF_BODY_NONE; /* item 6 */
}

/* ---- chunk-size line (RFC 9112 7.1) -------------------------------------------------
 * chunk-size [ chunk-ext ] ; chunk-size = 1*HEXDIG
 * chunk-ext = *( BWS ";" BWS chunk-ext-name [ BWS "=" BWS chunk-ext-val ] )
 * "A recipient MUST ignore unrecognized chunk extensions."
 * Returns 1 when the line is a chunk-size line, *size = value, *has_ext tells
 * whether an extension is present.  Sizes that do not fit 63 bits: returns 2
 * (syntactically valid, too large to process; recipient must not mis-parse). */
static int ref_ext_val_ok(const ref_u8 *p, size_t b, size_t e)
{
	/* chunk-ext-val = token / quoted-string ; checked loosely: non-empty, no CTL */
	size_t i;
	if (b == e)
		return 0;
	for (i = b; i < REF_MAXLINE && i < e; i++)
		if (p[i] < 0x20 && p[i] != '\t')
			return 0;
	return 1;
}
static int ref_chunk_size_line(const ref_u8 *p, size_t n, unsigned long long *size, int *has_ext)
{
	unsigned long long v = 0;
	size_t i = 0, k, x;
	int over = 0;
	*has_ext = 0;
	*size = 0;
	for (k = 0; k < REF_MAXLINE && i < n && ref_is_hexdig(p[i]); k++) {
		unsigned d = ref_is_digit(p[i]) ? (unsigned)(p[i] - '0') : (unsigned)(ref_lower(p[i]) - 'a' + 10);
		if (v > 0x7fffffffffffffffULL / 16 || (v == 0x7fffffffffffffffULL / 16 && d > 0x7fffffffffffffffULL % 16))
			over = 1;
		else
			v = v * 16 + d;
		i++;
	}
	if (i == 0)
		return 0;
	/* zero or more extensions: each needs at least ";" + one name octet */
	for (x = 0; x < REF_MAXLINE / 2 + 1 && i < n; x++) {
		size_t nb, ne, save;
		for (k = 0; k < REF_MAXLINE && i < n && ref_is_ows(p[i]); k++) i++; /* BWS */
		if (i == n || p[i] != ';')
			return 0;
		i++;
		for (k = 0; k < REF_MAXLINE && i < n && ref_is_ows(p[i]); k++) i++;
		nb = i;
		for (k = 0; k < REF_MAXLINE && i < n && ref_is_tchar(p[i]); k++) i++;
		ne = i;
		if (nb == ne)
			return 0;
		*has_ext = 1;
		save = i;
		for (k = 0; k < REF_MAXLINE && i < n && ref_is_ows(p[i]); k++) i++;
		if (i < n && p[i] == '=') {
			size_t vb;
			i++;
			for (k = 0; k < REF_MAXLINE && i < n && ref_is_ows(p[i]); k++) i++;
			vb = i;
			for (k = 0; k < REF_MAXLINE && i < n && p[i] != ';' && !ref_is_ows(p[i]); k++) i++;
			if (!ref_ext_val_ok(p, vb, i))
				return 0;
		} else {
			i = save;
		}
	}
	if (i < n)
		return 0;
	*size = v;
	return over ? 2 : 1;
}

/* ---- chunked body (RFC 9112 7.1) ------------------------------------------------------
 * chunked-body = *chunk last-chunk trailer-section CRLF
 * chunk        = chunk-size [ chunk-ext ] CRLF chunk-data CRLF
 * last-chunk   = 1*("0") [ chunk-ext ] CRLF
 * Decodes the prefix of a stream up to and including the last-chunk line (the
 * trailer section is a header section, see ref_header_section).
 * lenient = 0: the grammar exactly (CRLF line ends, well-formed extensions).
 * lenient = 1: the widest reading a recipient may adopt: a bare LF ends a line
 *              (RFC 9112 2.2), anything after BWS ";" is an ignorable extension.
 * reject_reason tells why a stream is not a chunked body. */
#define REF_C_DONE   1
#define REF_C_MORE   2
#define REF_C_REJECT 3
#define REF_CR_NONE        0
#define REF_CR_SIZE_LINE   1  /* chunk-size line malformed */
#define REF_CR_AFTER_DATA  2  /* chunk-data not followed by CRLF */
#define REF_CR_TOO_LARGE   3
#ifndef REF_MAXSTREAM
#define REF_MAXSTREAM 64
#endif
#ifndef REF_MAXCHUNKS
#define REF_MAXCHUNKS 8
#endif
struct ref_chunked {
	int status, reject_reason;
	int saw_ext;             /* some chunk-size line carried an extension */
	int reject_at_eol;       /* REJECT/AFTER_DATA, but no LF follows the offending octets yet: a recipient that
	                          * works line by line reports the error when that line is complete (MORE until then) */
	size_t consumed;         /* at DONE: bytes up to and including the last-chunk line */
	size_t body_len;         /* octets of all complete chunks */
	size_t nchunks;          /* complete non-empty chunks; chunk i is stream[c_off[i], c_off[i]+c_len[i]) */
	size_t c_off[REF_MAXCHUNKS], c_len[REF_MAXCHUNKS];
};
static int ref_chunk_size_line_lenient(const ref_u8 *p, size_t n, unsigned long long *size, int *has_ext)
{
	unsigned long long v = 0;
	size_t i = 0, k;
	int over = 0;
	*has_ext = 0; *size = 0;
	for (k = 0; k < REF_MAXSTREAM && i < n && ref_is_hexdig(p[i]); k++) {
		unsigned d = ref_is_digit(p[i]) ? (unsigned)(p[i] - '0') : (unsigned)(ref_lower(p[i]) - 'a' + 10);
		if (v > 0x7fffffffffffffffULL / 16 || (v == 0x7fffffffffffffffULL / 16 && d > 0x7fffffffffffffffULL % 16))
			over = 1;
		else
			v = v * 16 + d;
		i++;
	}
	if (i == 0)
		return 0;
	for (k = 0; k < REF_MAXSTREAM && i < n && ref_is_ows(p[i]); k++) i++;
	if (i < n) {
		if (p[i] != ';')
			return 0;
		*has_ext = 1;
	}
	*size = v;
	return over ? 2 : 1;
}
static void ref_chunked_decode(const ref_u8 *p, size_t n, int lenient, struct ref_chunked *c)
{
	size_t pos = 0, ci, i;
	c->status = REF_C_MORE; c->reject_reason = REF_CR_NONE; c->saw_ext = 0; c->reject_at_eol = 0; c->consumed = 0; c->body_len = 0; c->nchunks = 0;
	for (ci = 0; ci < REF_MAXCHUNKS; ci++) {
		size_t lf = n, le;
		unsigned long long size;
		int ext = 0, ok;
		for (i = pos; i < REF_MAXSTREAM && i < n; i++)
			if (p[i] == '\n') { lf = i; break; }
		if (lf == n)
			return; /* MORE */
		le = lf;
		if (le > pos && p[le - 1] == '\r')
			le--;
		else if (!lenient) { c->status = REF_C_REJECT; c->reject_reason = REF_CR_SIZE_LINE; return; }
		ok = lenient ? ref_chunk_size_line_lenient(p + pos, le - pos, &size, &ext)
			     : ref_chunk_size_line(p + pos, le - pos, &size, &ext);
		if (ok == 0) { c->status = REF_C_REJECT; c->reject_reason = REF_CR_SIZE_LINE; return; }
		if (ok == 2) { c->status = REF_C_REJECT; c->reject_reason = REF_CR_TOO_LARGE; return; }
		if (ext) c->saw_ext = 1;
		pos = lf + 1;
		if (size == 0) { c->status = REF_C_DONE; c->consumed = pos; return; }
		if (size > n - pos)
			return; /* MORE: chunk-data incomplete */
		/* chunk-data complete (delivered as soon as it is complete); CRLF must follow */
		c->c_off[c->nchunks] = pos; c->c_len[c->nchunks] = (size_t)size; c->nchunks++;
		c->body_len += size;
		if (pos + size == n)
			return; /* MORE: terminator not there yet */
		if (p[pos + size] == '\r') {
			if (pos + size + 1 == n)
				return; /* MORE */
			if (p[pos + size + 1] != '\n') {
				size_t j; int lf_follows = 0;
				for (j = pos + size; j < REF_MAXSTREAM && j < n; j++)
					if (p[j] == '\n') lf_follows = 1;
				c->status = REF_C_REJECT; c->reject_reason = REF_CR_AFTER_DATA; c->reject_at_eol = !lf_follows; return;
			}
			pos += size + 2;
		} else if (lenient && p[pos + size] == '\n') {
			pos += size + 1;
		} else {
			size_t j; int lf_follows = 0;
			for (j = pos + size; j < REF_MAXSTREAM && j < n; j++)
				if (p[j] == '\n') lf_follows = 1;
			c->status = REF_C_REJECT; c->reject_reason = REF_CR_AFTER_DATA; c->reject_at_eol = !lf_follows; return;
		}
	}
}
/* ---- sender side: components that may be embedded verbatim ---------------------------
 * format:  start-line CRLF *( field-name ":" SP field-value CRLF ) CRLF body
 * A component is "safe" when a recipient of the formatted message derives
 * exactly this component again (harness C26_lemma.c decides that for the
 * reference recipients above, so these predicates are checked, not trusted).
 *   field-name   token
 *   field-value  no CR / LF, except obs-fold: ONE line break (CRLF or LF) directly
 *                followed by SP / HTAB (RFC 9112 5.2; deprecated but not an injection)
 *   reason       *( HTAB / SP / VCHAR / obs-text )
 *   target       1*( octet that is no control character ); SP is tolerated because
 *                libevent's own server side splits at the first and last SP */
static int ref_safe_field_name(const ref_u8 *p, size_t n) { return ref_is_token(p, n); }
static int ref_safe_field_value(const ref_u8 *p, size_t n)
{
	size_t i = 0, k;
	for (k = 0; k < REF_MAXLINE && i < n; k++) {
		if (p[i] == '\r') {
			if (i + 1 >= n || p[i + 1] != '\n') return 0;
			i += 2;
			if (i >= n || !ref_is_ows(p[i])) return 0;
		} else if (p[i] == '\n') {
			i += 1;
			if (i >= n || !ref_is_ows(p[i])) return 0;
		} else if (p[i] == '\0') {
			return 0;
		} else {
			i++;
		}
	}
	return 1;
}
static int ref_safe_reason(const ref_u8 *p, size_t n)
{
	size_t i;
	for (i = 0; i < REF_MAXLINE && i < n; i++)
		if ((p[i] < 0x20 && p[i] != '\t') || p[i] == 0x7f) return 0;
	return 1;
}
static int ref_safe_target(const ref_u8 *p, size_t n)
{
	size_t i;
	if (n == 0) return 0;
	for (i = 0; i < REF_MAXLINE && i < n; i++)
		if (p[i] < 0x20 || p[i] == 0x7f) return 0;
	return 1;
}
/* ---- message body length of a RESPONSE (RFC 9112 6.3) --------------------------------
 *  1. response to HEAD, 1xx, 204, 304: no body, whatever the header fields say
 *  2. 2xx response to CONNECT: tunnel, no body
 *  3. Transfer-Encoding present: final coding chunked -> chunked framing;
 *     otherwise the body ends when the server closes the connection
 *     (Transfer-Encoding overrides Content-Length)
 *  4. invalid Content-Length (and no Transfer-Encoding): unrecoverable error
 *  5. valid Content-Length: that many octets
 *  8. otherwise: until the server closes the connection
 * Output: bit set of permitted outcomes (REF_BODY_* above plus REF_BODY_CLOSE). */
#define REF_BODY_CLOSE 16
static int ref_response_has_no_body(int code, unsigned request_method)
{
	if (request_method == REF_REQ_HEAD) return 1;
	if ((code >= 100 && code < 200) || code == 204 || code == 304) return 1;
	if (request_method == REF_REQ_CONNECT && code >= 200 && code < 300) return 1;
	return 0;
}
static unsigned ref_response_body(const struct ref_field *f, size_t nf, int code, unsigned request_method, unsigned long long *length)
{
	size_t i;
	int n_te = 0, te_class = 0, n_cl = 0, cl_ok = 1;
	unsigned long long cl = 0, v;
	*length = 0;
	if (ref_response_has_no_body(code, request_method))
		return REF_BODY_NONE;
	for (i = 0; i < REF_MAXLINES && i < nf; i++) {
		if (ref_eq_nocase(f[i].name, f[i].name_len, "Transfer-Encoding")) {
			n_te++;
			te_class = ref_te_classify(f[i].value, f[i].value_len);
		} else if (ref_eq_nocase(f[i].name, f[i].name_len, "Content-Length")) {
			if (!ref_content_length(f[i].value, f[i].value_len, &v)) cl_ok = 0;
			else if (n_cl > 0 && v != cl) cl_ok = 0;
			else cl = v;
			n_cl++;
		}
	}
	if (n_te > 0) {
		if (te_class == REF_TE_OTHER)
			return REF_BODY_CLOSE;
		/* final coding chunked; other codings in front of it cannot be decoded by evhttp: failing the
		 * response is permitted then, framing it by Content-Length or as empty is not */
		return (n_te == 1 && te_class == REF_TE_ONLY_CHUNKED) ? REF_BODY_CHUNKED : (REF_BODY_CHUNKED | REF_BODY_REJECT);
	}
	if (n_cl > 0) {
		if (!cl_ok) return REF_BODY_REJECT;
		*length = cl;
		return n_cl == 1 ? REF_BODY_LENGTH : (REF_BODY_LENGTH | REF_BODY_REJECT);
	}
	return REF_BODY_CLOSE;
}
#endif
