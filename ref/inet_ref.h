/* inet_ref.h -- reference strict text->address parsers (what the platform's inet_pton accepts;
 * transcribed from the glibc/BIND algorithm, RFC 4291 section 2.2 text forms).
 * One documented relaxation (property C40): IPv4 components may carry leading zeros, read as decimal.
 * Strings are given as (pointer, NUL-terminated). */
#ifndef VP_INET_REF_H_
#define VP_INET_REF_H_
#include <stddef.h>
/* dotted quad: exactly four components of one or more decimal digits, value <= 255 each, nothing else */
static int ref_pton4_n(const char *s, size_t n, unsigned char out[4])
{
	size_t i = 0; int comp;
	for (comp = 0; comp < 4; comp++) {
		unsigned v = 0; int nd = 0;
		while (i < n && s[i] >= '0' && s[i] <= '9') {
			v = v * 10 + (unsigned)(s[i] - '0');
			if (v > 255) return 0;
			i++; nd++;
		}
		if (!nd) return 0;
		out[comp] = (unsigned char)v;
		if (comp < 3) { if (i >= n || s[i] != '.') return 0; i++; }
	}
	return i == n;
}
static size_t ref_strlen(const char *s) { size_t n = 0; while (s[n]) n++; return n; }
static int ref_pton4(const char *s, unsigned char out[4]) { return ref_pton4_n(s, ref_strlen(s), out); }
static int ref_hexval(char c) { if (c >= '0' && c <= '9') return c - '0'; if (c >= 'a' && c <= 'f') return c - 'a' + 10; if (c >= 'A' && c <= 'F') return c - 'A' + 10; return -1; }
static int ref_pton6(const char *str, unsigned char out[16])
{
	unsigned char tmp[16]; size_t n = ref_strlen(str), src = 0, curtok, i;
	int tp = 0, colonp = -1, xdigits = 0; unsigned val = 0;
	for (i = 0; i < 16; i++) tmp[i] = 0;
	if (n == 0) return 0;
	if (str[0] == ':') { src++; if (src == n || str[src] != ':') return 0; }
	curtok = src;
	while (src < n) {
		char ch = str[src++]; int d = ref_hexval(ch);
		if (d >= 0) {
			if (xdigits == 4) return 0;
			val = (val << 4) | (unsigned)d; xdigits++;
			continue;
		}
		if (ch == ':') {
			curtok = src;
			if (xdigits == 0) { if (colonp >= 0) return 0; colonp = tp; continue; }
			else if (src == n) return 0;
			if (tp + 2 > 16) return 0;
			tmp[tp++] = (unsigned char)(val >> 8); tmp[tp++] = (unsigned char)val;
			xdigits = 0; val = 0;
			continue;
		}
#ifndef VP_REF_NO_DOT   /* harnesses whose text provably has no dotted tail compile the branch out */
		if (ch == '.' && tp + 4 <= 16 && ref_pton4_n(str + curtok, n - curtok, tmp + tp)) {
			tp += 4; xdigits = 0;
			break;
		}
#endif
		return 0;
	}
	if (xdigits > 0) {
		if (tp + 2 > 16) return 0;
		tmp[tp++] = (unsigned char)(val >> 8); tmp[tp++] = (unsigned char)val;
	}
	if (colonp >= 0) {
		int cnt = tp - colonp, k;
		if (tp == 16) return 0;
		for (k = 1; k <= cnt; k++) { tmp[16 - k] = tmp[colonp + cnt - k]; tmp[colonp + cnt - k] = 0; }
		tp = 16;
	}
	if (tp != 16) return 0;
	for (i = 0; i < 16; i++) out[i] = tmp[i];
	return 1;
}
#endif
