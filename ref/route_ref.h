/* ref/route_ref.h -- reference matchers for C30 (plain C, no libevent types).
 *
 *   rr_ieq(a, b)                     ASCII-case-insensitive string equality (host names, RFC 9110 4.2.3)
 *   rr_glob(pattern, name, icase)    wildcard match as documented for evhttp_add_virtual_host
 *                                    ("*" matches any, possibly empty, run of characters; every other
 *                                    pattern character matches itself, ASCII-case-insensitively when
 *                                    icase): iterative dynamic programming, no recursion.
 *   rr_path_eq(what, dec, declen)    the registered path `what` (a C string) equals the decoded request
 *                                    path dec[0..declen) as a BYTE string (a decoded NUL is a byte like
 *                                    any other, so no C string can equal a path that contains one)
 * Bounds: strings of at most RR_MAX bytes.
 */
#ifndef VP_REF_ROUTE_H_
#define VP_REF_ROUTE_H_
#include <stddef.h>
#ifndef RR_MAX
#define RR_MAX 6
#endif
static unsigned char rr_lower(unsigned char c) { return (c >= 'A' && c <= 'Z') ? (unsigned char)(c + 32) : c; }
static size_t rr_len(const unsigned char *s)
{
	size_t n;
	for (n = 0; n < RR_MAX; n++) if (s[n] == 0) return n;
	return RR_MAX;
}
static int rr_ieq(const unsigned char *a, const unsigned char *b)
{
	size_t i;
	for (i = 0; i <= RR_MAX; i++) {
		if (rr_lower(a[i]) != rr_lower(b[i])) return 0;
		if (a[i] == 0) return 1;
	}
	return 1;
}
static int rr_glob(const unsigned char *pat, const unsigned char *name, int icase)
{
	/* m[j] after processing i pattern characters: pat[0..i) matches name[0..j) */
	unsigned char m[RR_MAX + 1], nm[RR_MAX + 1];
	size_t pl = rr_len(pat), nl = rr_len(name), i, j;
	for (j = 0; j <= RR_MAX; j++) m[j] = (j == 0);
	for (i = 0; i < RR_MAX; i++) {
		unsigned char pc;
		if (i >= pl) break;
		pc = pat[i];
		if (pc == '*') {
			/* pat[0..i+1) matches name[0..j) iff pat[0..i) matches some prefix name[0..k), k <= j */
			unsigned char any = 0;
			for (j = 0; j <= RR_MAX; j++) { any = any || m[j]; nm[j] = any; }
		} else {
			nm[0] = 0;
			for (j = 1; j <= RR_MAX; j++) {
				unsigned char nc = name[j - 1];
				int eq = icase ? rr_lower(pc) == rr_lower(nc) : pc == nc;
				nm[j] = (j <= nl) && m[j - 1] && eq;
			}
		}
		for (j = 0; j <= RR_MAX; j++) m[j] = nm[j];
	}
	return m[nl] != 0;
}
static int rr_path_eq(const unsigned char *what, const unsigned char *dec, size_t declen)
{
	size_t i;
	if (rr_len(what) != declen) return 0;
	for (i = 0; i < RR_MAX; i++)
		if (i < declen && what[i] != dec[i]) return 0;
	return 1;
}
#endif
