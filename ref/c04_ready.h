/* c04_ready.h -- reference reading of "a requested condition holds / is reported"
 * for C04, written from the property statement and event2/event.h (EV_READ: fd
 * ready for reading, EV_WRITE: ready for writing, EV_CLOSED: peer closed / half
 * closed detected early), not from the back ends.  Readiness is a set of poll(2)
 * bits per fd.
 *
 *   holds(READ)   <- IN, and also ERR or HUP (a read would not block: it returns
 *                    the error / EOF) -- "ERR/HUP count as both read and write ready"
 *   holds(WRITE)  <- OUT, and also ERR or HUP
 *   holds(CLOSED) <- RDHUP
 *   reported(...) what the kernel is guaranteed to tell the back end about the
 *                 *requested* conditions of an fd whose registered interest is U:
 *                   epoll/poll: IN if U has READ, OUT if U has WRITE, RDHUP if U has CLOSED
 *                   select    : readable (IN|HUP|ERR) if U has READ, writable (OUT|ERR) if U has WRITE
 *                 (ERR/HUP alone oblige nobody to fire a particular condition;
 *                  the back ends may map them to READ|WRITE, which holds() allows)
 */
#ifndef VP_C04_READY_H_
#define VP_C04_READY_H_
#include <poll.h>
#ifndef POLLRDHUP
#define POLLRDHUP 0x2000
#endif
#define C04_READY_BITS (POLLIN | POLLOUT | POLLERR | POLLHUP | POLLRDHUP)
#define C04_EV_READ 0x02
#define C04_EV_WRITE 0x04
#define C04_EV_CLOSED 0x80
static short c04_holds(unsigned rdy)
{
	short h = 0;
	if (rdy & (POLLIN | POLLERR | POLLHUP)) h |= C04_EV_READ;
	if (rdy & (POLLOUT | POLLERR | POLLHUP)) h |= C04_EV_WRITE;
	if (rdy & POLLRDHUP) h |= C04_EV_CLOSED;
	return h;
}
static short c04_reported(int is_select, short interest, unsigned rdy)
{
	short h = 0;
	if (is_select) {
		if ((interest & C04_EV_READ) && (rdy & (POLLIN | POLLHUP | POLLERR))) h |= C04_EV_READ;
		if ((interest & C04_EV_WRITE) && (rdy & (POLLOUT | POLLERR))) h |= C04_EV_WRITE;
	} else {
		if ((interest & C04_EV_READ) && (rdy & POLLIN)) h |= C04_EV_READ;
		if ((interest & C04_EV_WRITE) && (rdy & POLLOUT)) h |= C04_EV_WRITE;
		if ((interest & C04_EV_CLOSED) && (rdy & POLLRDHUP)) h |= C04_EV_CLOSED;
	}
	return h;
}
/* the activation every back end must produce for an event with interest `mask` (subset of READ|WRITE,
 * level triggered) on an fd whose readiness is a subset of {IN, OUT, ERR}: the basis of "the back ends agree" */
static short c04_agree_ref(short mask, unsigned rdy)
{
	short h = 0;
	if (rdy & (POLLIN | POLLERR)) h |= C04_EV_READ;
	if (rdy & (POLLOUT | POLLERR)) h |= C04_EV_WRITE;
	return (short)(mask & h);
}
#endif
