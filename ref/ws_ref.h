/* ws_ref.h -- RFC 6455 section 5.2 base framing, written from the RFC text.
 * ws_ref_header(): decode one frame header from buf[0..n); result:
 *   WSR_MORE   not enough bytes to know the complete frame
 *   WSR_OK     complete frame present: fields filled in
 * Payload bytes are buf[hdr_len .. hdr_len+payload_len), XORed with mask[i%4] when masked. */
#ifndef VP_WS_REF_H_
#define VP_WS_REF_H_
#include <stddef.h>
#include <stdint.h>
enum { WSR_MORE = 0, WSR_OK = 1 };
struct ws_ref_frame {
	int fin, rsv, opcode, masked;
	uint64_t payload_len;
	size_t hdr_len;           /* bytes before the payload (incl. extended length and masking key) */
	unsigned char mask[4];
	int minimal_len;          /* length was encoded in the minimal number of bytes (RFC 5.2 MUST for senders) */
};
static int ws_ref_header(const unsigned char *buf, size_t n, struct ws_ref_frame *f)
{
	size_t pos = 2; unsigned l7; int i;
	if (n < 2) return WSR_MORE;
	f->fin = (buf[0] >> 7) & 1; f->rsv = (buf[0] >> 4) & 7; f->opcode = buf[0] & 0x0f;
	f->masked = (buf[1] >> 7) & 1; l7 = buf[1] & 0x7f;
	f->minimal_len = 1;
	if (l7 <= 125) f->payload_len = l7;
	else if (l7 == 126) {
		if (n < 4) return WSR_MORE;
		f->payload_len = ((uint64_t)buf[2] << 8) | buf[3]; pos = 4;
		if (f->payload_len <= 125) f->minimal_len = 0;
	} else {
		if (n < 10) return WSR_MORE;
		f->payload_len = 0;
		for (i = 0; i < 8; i++) f->payload_len = (f->payload_len << 8) | buf[2 + i];
		pos = 10;
		if (f->payload_len <= 65535) f->minimal_len = 0;
	}
	if (f->masked) {
		if (n < pos + 4) { f->hdr_len = pos + 4; /* key not complete */ }
		else for (i = 0; i < 4; i++) f->mask[i] = buf[pos + i];
		pos += 4;
	}
	f->hdr_len = pos;
	if (f->payload_len > (uint64_t)n || (uint64_t)n - f->payload_len < pos) return WSR_MORE;
	return WSR_OK;
}
static int ws_ref_is_control(int opcode) { return opcode >= 8; }
static int ws_ref_is_reserved(int opcode) { return (opcode >= 3 && opcode <= 7) || opcode >= 0xb; }
#endif

/* ---- message assembly over a byte stream (RFC 6455 5.4 fragmentation, 5.5 control frames) ----
 * Decodes frames from s[0..n) until the data runs out (incomplete frame: wait), a close frame
 * or a protocol error.  Delivered messages are recorded.  Deliberate tolerances, matching what the
 * property states rather than the strictest reading of the RFC: unmasked frames are accepted,
 * RSV bits are not interpreted, control frames longer than 125 bytes are not rejected. */
#ifndef WSR_MAXMSG
#define WSR_MAXMSG 3
#endif
#ifndef WSR_MAXLEN
#define WSR_MAXLEN 16
#endif
/* plain arrays of scalars (no pointer to an element of an array of structs under a symbolic index:
 * cbmc 6.11's field-sensitive encoding lost such a write in a probe) */
struct ws_ref_stream {
	int msg_type[WSR_MAXMSG]; size_t msg_len[WSR_MAXMSG]; unsigned char msg_data[WSR_MAXMSG][WSR_MAXLEN]; int nmsg;
	int closed;              /* close frame seen or protocol error */
	int saw_fragmentation;   /* some frame had FIN=0 or opcode 0 (before the stream stopped) */
	int in_frag, frag_type; size_t frag_len; unsigned char frag[WSR_MAXLEN];
	size_t consumed;
};
static void ws_ref_run(const unsigned char *s, size_t n, struct ws_ref_stream *st)
{
	size_t pos = 0, i; int guard;
	st->nmsg = 0; st->closed = 0; st->saw_fragmentation = 0; st->in_frag = 0; st->frag_len = 0; st->consumed = 0;
	for (guard = 0; guard < WSR_MAXLEN + 1 && pos < n && !st->closed; guard++) {
		struct ws_ref_frame f; int r = ws_ref_header(s + pos, n - pos, &f);
		if (r == WSR_MORE) {
			/* an oversized 64-bit length is an error as soon as the length field is complete */
			if (n - pos >= 10 && (s[pos + 1] & 0x7f) == 127) {
				uint64_t l = 0; for (i = 0; i < 8; i++) l = (l << 8) | s[pos + 2 + i];
				if (l > 10485760u) st->closed = 1;
			}
			break;
		}
		if (!f.fin || f.opcode == 0) st->saw_fragmentation = 1;
		if (f.payload_len > 10485760u || ws_ref_is_reserved(f.opcode)) { st->closed = 1; break; }
		if (ws_ref_is_control(f.opcode)) {
			if (!f.fin) { st->closed = 1; break; }               /* control frames must not be fragmented */
			if (f.opcode == 8) { st->closed = 1; pos += f.hdr_len + (size_t)f.payload_len; break; }
			pos += f.hdr_len + (size_t)f.payload_len;              /* ping / pong: no message */
			continue;
		}
		/* data frame or continuation */
		if (f.opcode == 0) { if (!st->in_frag) { st->closed = 1; break; } }
		else { if (st->in_frag) { st->closed = 1; break; } st->in_frag = 1; st->frag_type = f.opcode; st->frag_len = 0; }
		for (i = 0; i < f.payload_len; i++) {
			unsigned char c = s[pos + f.hdr_len + i];
			if (f.masked) c ^= f.mask[i % 4];
			if (st->frag_len < WSR_MAXLEN) st->frag[st->frag_len] = c;
			st->frag_len++;
		}
		pos += f.hdr_len + (size_t)f.payload_len;
		if (f.fin) {
			if (st->nmsg < WSR_MAXMSG) {
				int q = st->nmsg;
				st->msg_type[q] = st->frag_type; st->msg_len[q] = st->frag_len;
				for (i = 0; i < WSR_MAXLEN; i++) st->msg_data[q][i] = i < st->frag_len ? st->frag[i] : 0;
			}
			st->nmsg++; st->in_frag = 0; st->frag_len = 0;
		}
	}
	st->consumed = pos;
}
