/* ref/bytes.h -- byte-string reference model of an evbuffer (plain C, no libevent types).
 *
 * USAGE
 *   struct vpb m; vpb_init(&m);
 *   vpb_append(&m, p, n) / vpb_prepend / vpb_drain / vpb_copyout / vpb_move ...
 *   mirror every library call on the model, then compare:
 *     evbuffer_get_length(buf) == m.len and byte i of the buffer == vpb_at(&m, i)
 *   (see harness/C12_evbuffer.c: vp_compare()).
 *   m.added / m.deleted accumulate what an evbuffer change callback must report
 *   (C13): bytes appended/prepended and bytes removed, per buffer.
 * Capacity VP_BYTES_MAX (default 64) bytes stored, and as many prepended: exceeding it
 * is a harness-bound assertion, not a model behaviour.  Representation: the string is
 * d[start .. start+len) inside a 2*VP_BYTES_MAX array, so drain is O(1) and prepend has
 * room; read byte i with vpb_at(&m, i).  All loops have constant bounds
 * (VP_BYTES_MAX or VPB_CAP iterations) and only constant-index writes, which keeps the
 * SAT encoding small when sizes are symbolic.
 * Tip (used by harness/C12_evbuffer.c): to compare contents, do not loop -- draw ONE
 * solver-chosen index i (vp_size()) and assert  i < len ==> byte_i(buffer) == vpb_at(&m,i);
 * an assertion must hold for every i, so this checks all positions at the cost of one.
 *
 * Semantics are written from include/event2/buffer.h:
 *   append/prepend : data goes to the end/front
 *   drain(n)       : removes min(n,len) bytes from the front
 *   copyout(pos,n) : copies min(n,len-pos) bytes starting at pos, buffer unchanged
 *   move(dst,src,n): min(n,src.len) front bytes of src are appended to dst
 *   search(what,wlen,start,end): smallest p >= start with p+wlen <= len,
 *                    (end >= 0: p+wlen <= end), d[p..p+wlen) == what; else -1;
 *                    the empty string (wlen==0) is found at 'start' itself
 *   eol(start,style,&eol_len): first EOL at or after start, per enum evbuffer_eol_style:
 *       ANY          first CR or LF; EOL = maximal run of CR/LF characters from there
 *       CRLF         first LF; if the byte before it (and not before start) is CR the
 *                    EOL starts at the CR (length 2) else length 1
 *       CRLF_STRICT  first "\r\n", length 2
 *       LF / NUL     first '\n' / '\0', length 1
 */
#ifndef VP_REF_BYTES_H_
#define VP_REF_BYTES_H_
#include <stddef.h>

#ifndef VP_BYTES_MAX
#define VP_BYTES_MAX 64
#endif
#define VPB_CAP (2 * VP_BYTES_MAX)
#ifndef VPB_ASSERT
#define VPB_ASSERT(c, msg) VP_ASSERT(c, msg)
#endif

struct vpb {
	unsigned char d[VPB_CAP];
	size_t start, len;
	size_t added, deleted;     /* callback accounting (C13) */
};

enum vpb_eol { VPB_EOL_ANY = 0, VPB_EOL_CRLF = 1, VPB_EOL_CRLF_STRICT = 2, VPB_EOL_LF = 3, VPB_EOL_NUL = 4 };

static void vpb_init(struct vpb *m)
{
	size_t i;
	for (i = 0; i < VPB_CAP; i++) m->d[i] = 0;
	m->start = VP_BYTES_MAX; m->len = 0; m->added = 0; m->deleted = 0;
}
/* i < m->len required */
static unsigned char vpb_at(const struct vpb *m, size_t i) { return m->d[m->start + i]; }
static const unsigned char *vpb_data(const struct vpb *m) { return m->d + m->start; }

/* contents + length equal (accounting not compared) */
static int vpb_equal(const struct vpb *a, const struct vpb *b)
{
	size_t i;
	if (a->len != b->len) return 0;
	for (i = 0; i < VP_BYTES_MAX; i++)
		if (i < a->len && vpb_at(a, i) != vpb_at(b, i)) return 0;
	return 1;
}
static void vpb_append(struct vpb *m, const unsigned char *p, size_t n)
{
	size_t j, end = m->start + m->len;
	VPB_ASSERT(n <= VP_BYTES_MAX && m->len <= VP_BYTES_MAX - n && end <= VPB_CAP - n, "harness bound: reference model capacity VP_BYTES_MAX exceeded");
	for (j = 0; j < VPB_CAP; j++)
		if (j >= end && j - end < n) m->d[j] = p[j - end];
	m->len += n; m->added += n;
}
static void vpb_prepend(struct vpb *m, const unsigned char *p, size_t n)
{
	size_t j, ns;
	VPB_ASSERT(n <= VP_BYTES_MAX && m->len <= VP_BYTES_MAX - n && n <= m->start, "harness bound: reference model capacity VP_BYTES_MAX exceeded");
	ns = m->start - n;
	for (j = 0; j < VPB_CAP; j++)
		if (j >= ns && j < m->start) m->d[j] = p[j - ns];
	m->start = ns; m->len += n; m->added += n;
}
static size_t vpb_drain(struct vpb *m, size_t n)
{
	size_t k = n < m->len ? n : m->len;
	m->start += k; m->len -= k; m->deleted += k;
	return k;
}
/* number of bytes a copyout of n bytes at pos delivers; byte i of it is vpb_at(m, pos+i) */
static size_t vpb_copyout_len(const struct vpb *m, size_t pos, size_t n)
{
	if (pos > m->len) return 0;
	return n < m->len - pos ? n : m->len - pos;
}
static size_t vpb_copyout(const struct vpb *m, size_t pos, unsigned char *out, size_t n)
{
	size_t i, k = vpb_copyout_len(m, pos, n);
	for (i = 0; i < VP_BYTES_MAX; i++)
		if (i < k) out[i] = vpb_at(m, pos + i);
	return k;
}
/* min(n, src->len) front bytes of src go to the END of dst */
static size_t vpb_move(struct vpb *dst, struct vpb *src, size_t n)
{
	size_t k = n < src->len ? n : src->len;
	vpb_append(dst, vpb_data(src), k);
	vpb_drain(src, k);
	return k;
}
/* all of src goes to the FRONT of dst */
static size_t vpb_move_front(struct vpb *dst, struct vpb *src)
{
	size_t k = src->len;
	vpb_prepend(dst, vpb_data(src), k);
	vpb_drain(src, k);
	return k;
}
/* end < 0: no end limit */
static long vpb_search(const struct vpb *m, const unsigned char *what, size_t wlen, size_t start, long end)
{
	size_t p, j;
	if (wlen == 0) return start <= m->len ? (long)start : -1;
	if (wlen > m->len) return -1;
	for (p = 0; p < VP_BYTES_MAX; p++) {
		int ok = 1;
		if (p < start) continue;
		if (p + wlen > m->len) break;
		if (end >= 0 && p + wlen > (size_t)end) break;
		for (j = 0; j < VP_BYTES_MAX; j++) {
			if (j >= wlen) break;
			if (vpb_at(m, p + j) != what[j]) { ok = 0; break; }
		}
		if (ok) return (long)p;
	}
	return -1;
}
static long vpb_eol(const struct vpb *m, size_t start, enum vpb_eol style, size_t *eol_len)
{
	size_t p, q;
	*eol_len = 0;
	for (p = 0; p < VP_BYTES_MAX; p++) {
		unsigned char c;
		if (p < start) continue;
		if (p >= m->len) break;
		c = vpb_at(m, p);
		switch (style) {
		case VPB_EOL_ANY:
			if (c == '\r' || c == '\n') {
				for (q = p; q < VP_BYTES_MAX && q < m->len && (vpb_at(m, q) == '\r' || vpb_at(m, q) == '\n'); q++) ;
				*eol_len = q - p;
				return (long)p;
			}
			break;
		case VPB_EOL_CRLF:
			if (c == '\n') {
				if (p > start && vpb_at(m, p - 1) == '\r') { *eol_len = 2; return (long)(p - 1); }
				*eol_len = 1; return (long)p;
			}
			break;
		case VPB_EOL_CRLF_STRICT:
			if (c == '\r' && p + 1 < m->len && vpb_at(m, p + 1) == '\n') { *eol_len = 2; return (long)p; }
			break;
		case VPB_EOL_LF:
			if (c == '\n') { *eol_len = 1; return (long)p; }
			break;
		case VPB_EOL_NUL:
			if (c == 0) { *eol_len = 1; return (long)p; }
			break;
		default:
			return -1;
		}
	}
	return -1;
}
#endif
