/* dnsconf_ref.h -- reference reading of the resolver configuration syntax (C39),
 * written from resolv.conf(5), hosts(5) and the evdns documentation in
 * include/event2/dns.h (evdns_base_set_option, evdns_base_resolv_conf_parse,
 * evdns_base_load_hosts).  Plain C, no libevent code, no strtok/strtol: every
 * scanner below walks the bytes itself.
 *
 * Numbers.  An integer option value is what strtol(3) base 10 reads from the
 * WHOLE string (optional white space, optional sign, digits; the empty string
 * reads as 0 like atoi), *saturated* to the range of int; the value -1 is the
 * error sentinel of the option code and is rejected, as is any other text.
 * The text->long conversion itself is libc's strtol (the harness hands the
 * same (value, end) pair to the code and to this reference).
 * A time value is a finite number of seconds d with 0 <= d <= INT_MAX
 * (tv_sec = trunc(d), tv_usec = trunc((d - tv_sec) * 10^6)), at least 1 ms; the
 * text->double conversion itself is libc's strtod (not modelled here: the
 * harness hands the same double to the code and to this reference).
 *
 * Options (name, flag group, kind, range) are the table of dns.h; a name
 * matches "name" or "name:anything".  An option whose value is malformed
 * returns -1 and changes nothing; an option whose group is not selected by
 * `flags` returns 0 and changes nothing; an unknown option returns 0 and
 * changes nothing.
 *
 * resolv.conf line: tokens separated by blanks/tabs.
 *   nameserver ADDR      (first argument only)
 *   domain NAME          search list := [NAME]
 *   search NAME...       search list := [NAME...] in file order
 *   options OPT[:VAL]...
 * anything else (comments, sortlist, unknown keywords) is ignored.  Leading
 * dots of a search domain are dropped.  Neither `domain` nor `search` touches
 * ndots (resolv.conf(5): ndots is an option, independent of the search list).
 *
 * hosts line: `#` starts a comment; ADDRESS NAME... ; address must be a bare IP
 * address (no port).
 */
#ifndef VP_DNSCONF_REF_H_
#define VP_DNSCONF_REF_H_
#include <limits.h>
#include <stddef.h>

static int dcr_isspace(char c) { return c == ' ' || (c >= 9 && c <= 13); }
static int dcr_isblank(char c) { return c == ' ' || c == '\t'; }

/* integer value from what strtol(3) reported for the text: `lv` the value read, `whole` = the whole text was
 * consumed (an empty text is consumed whole and reads as 0).  1 = ok (*out set), 0 = malformed. */
static int dcr_int_ex(long lv, int whole, int *out, int *beyond_int)
{
	*beyond_int = 0;
	if (!whole) return 0;
	if (lv > INT_MAX) { lv = INT_MAX; *beyond_int = 1; }
	if (lv < INT_MIN) { lv = INT_MIN; *beyond_int = 1; }
	if (lv == -1) return 0;
	*out = (int)lv;
	return 1;
}
static int dcr_int(long lv, int whole, int *out) { int b; return dcr_int_ex(lv, whole, out, &b); }
static int dcr_int_clipped(long lv, int whole, int lo, int hi, int *out)
{
	int v;
	if (!dcr_int(lv, whole, &v)) return 0;
	*out = v < lo ? lo : v > hi ? hi : v;
	return 1;
}
/* seconds -> timeval: 1 = ok */
static int dcr_timeval(double d, long *sec, long *usec)
{
	long s, u;
	if (!(d >= 0.0 && d <= 2147483647.0)) return 0;     /* rejects NaN, negatives, +inf, and what does not fit */
	s = (long)(int)d;
	u = (long)(int)((d - (int)d) * 1000000);
	if (s == 0 && u < 1000) return 0;
	*sec = s; *usec = u;
	return 1;
}

/* option-name match: s is "name" or starts with "name:"; name is given WITHOUT the colon */
static int dcr_opt_is(const char *s, const char *name)
{
	size_t i = 0;
	while (name[i]) { if (s[i] != name[i]) return 0; i++; }
	return s[i] == 0 || s[i] == ':';
}

enum dcr_kind { DCR_INT, DCR_INT_MAX255, DCR_CLIP, DCR_TIME, DCR_TIME_MAX3600, DCR_FLAG, DCR_ADDR };
enum dcr_opt { DCR_NDOTS, DCR_TIMEOUT, DCR_SKEW, DCR_MAXTIMEOUTS, DCR_MAXINFLIGHT, DCR_ATTEMPTS, DCR_RANDCASE, DCR_BINDTO,
	DCR_INITPROBE, DCR_MAXPROBE, DCR_BACKOFF, DCR_RCVBUF, DCR_SNDBUF, DCR_TCPIDLE, DCR_USEVC, DCR_IGNTC, DCR_UDPSIZE, DCR_NOPTS };
#define DCR_G_SEARCH 1
#define DCR_G_NAMESERVERS 2
#define DCR_G_MISC 4
static const struct dcr_optdef { const char *name; int group; enum dcr_kind kind; int lo, hi; } dcr_opts[DCR_NOPTS] = {
	{ "ndots", DCR_G_SEARCH, DCR_INT, 0, 0 },
	{ "timeout", DCR_G_MISC, DCR_TIME, 0, 0 },
	{ "getaddrinfo-allow-skew", DCR_G_MISC, DCR_TIME, 0, 0 },
	{ "max-timeouts", DCR_G_MISC, DCR_CLIP, 1, 255 },
	{ "max-inflight", DCR_G_MISC, DCR_CLIP, 1, 65000 },
	{ "attempts", DCR_G_MISC, DCR_INT_MAX255, 0, 255 },
	{ "randomize-case", DCR_G_MISC, DCR_INT, 0, 0 },
	{ "bind-to", DCR_G_NAMESERVERS, DCR_ADDR, 0, 0 },
	{ "initial-probe-timeout", DCR_G_MISC, DCR_TIME_MAX3600, 0, 0 },
	{ "max-probe-timeout", DCR_G_MISC, DCR_CLIP, 1, 3600 },
	{ "probe-backoff-factor", DCR_G_MISC, DCR_CLIP, 1, 10 },
	{ "so-rcvbuf", DCR_G_MISC, DCR_INT, 0, 0 },
	{ "so-sndbuf", DCR_G_MISC, DCR_INT, 0, 0 },
	{ "tcp-idle-timeout", DCR_G_MISC, DCR_TIME, 0, 0 },
	{ "use-vc", DCR_G_MISC, DCR_FLAG, 0, 0 },
	{ "ignore-tc", DCR_G_MISC, DCR_FLAG, 0, 0 },
	{ "edns-udp-size", DCR_G_MISC, DCR_CLIP, 512, 65535 },
};
/* which option does `s` name?  DCR_NOPTS = none */
static int dcr_opt_find(const char *s)
{
	int k;
	for (k = 0; k < DCR_NOPTS; k++)
		if (dcr_opt_is(s, dcr_opts[k].name)) return k;
	return DCR_NOPTS;
}

/* the configuration an evdns_base holds, as far as options reach it */
struct dcr_conf {
	int have_search_state;     /* ndots is stored with the search list */
	int ndots;
	long timeout_s, timeout_us, skew_s, skew_us, initprobe_s, initprobe_us, tcpidle_s, tcpidle_us;
	int max_timeouts, max_inflight, attempts, randcase, max_probe, backoff, rcvbuf, sndbuf, udpsize;
	unsigned tcp_flags;        /* bit 0 use-vc, bit 1 ignore-tc */
	int bound;                 /* bind-to address accepted: +1 per accepted bind-to */
};
/* Apply one option.  `lv`/`l_whole`: what libc's strtol reported for `val` (value, whole text consumed); `t_ok`,
 * `t_s`, `t_us`: `val` read as a time (dcr_timeval of what strtod reported, t_ok = whole text consumed and valid);
 * `addr_ok` says that the address parser accepted `val` (bind-to).  Returns the documented result (0 / -1) and
 * updates *c. */
static int dcr_set_option(struct dcr_conf *c, const char *option, const char *val, int flags, long lv, int l_whole,
    int t_ok, long t_s, long t_us, int addr_ok)
{
	int k = dcr_opt_find(option), v = 0;
	long s = 0, u = 0;
	const struct dcr_optdef *o;
	if (k == DCR_NOPTS) return 0;
	o = &dcr_opts[k];
	switch (o->kind) {
	case DCR_INT: case DCR_INT_MAX255: if (!dcr_int(lv, l_whole, &v)) return -1; if (o->kind == DCR_INT_MAX255 && v > 255) v = 255; break;
	case DCR_CLIP: if (!dcr_int_clipped(lv, l_whole, o->lo, o->hi, &v)) return -1; break;
	case DCR_TIME: case DCR_TIME_MAX3600:
		if (!t_ok) return -1;
		s = t_s; u = t_us;
		if (o->kind == DCR_TIME_MAX3600 && s > 3600) s = 3600;
		break;
	case DCR_FLAG:
		if (!(flags & o->group)) return 0;
		if (val && val[0]) return -1;
		break;
	case DCR_ADDR:
		if (!(flags & o->group)) return 0;
		if (!addr_ok) return -1;
		break;
	}
	if (!(flags & o->group)) return 0;
	switch (k) {
	case DCR_NDOTS: c->have_search_state = 1; c->ndots = v; break;
	case DCR_TIMEOUT: c->timeout_s = s; c->timeout_us = u; break;
	case DCR_SKEW: c->skew_s = s; c->skew_us = u; break;
	case DCR_MAXTIMEOUTS: c->max_timeouts = v; break;
	case DCR_MAXINFLIGHT: c->max_inflight = v; break;
	case DCR_ATTEMPTS: c->attempts = v; break;
	case DCR_RANDCASE: c->randcase = v; break;
	case DCR_BINDTO: c->bound++; break;
	case DCR_INITPROBE: c->initprobe_s = s; c->initprobe_us = u; break;
	case DCR_MAXPROBE: c->max_probe = v; if (c->initprobe_s > v) { c->initprobe_s = v; c->initprobe_us = 0; } break;
	case DCR_BACKOFF: c->backoff = v; break;
	case DCR_RCVBUF: c->rcvbuf = v; break;
	case DCR_SNDBUF: c->sndbuf = v; break;
	case DCR_TCPIDLE: c->tcpidle_s = s; c->tcpidle_us = u; break;
	case DCR_USEVC: c->tcp_flags |= 1; break;
	case DCR_IGNTC: c->tcp_flags |= 2; break;
	case DCR_UDPSIZE: c->udpsize = v; break;
	}
	return 0;
}

/* ------------------------------------------------------------------ lines */
#ifndef DCR_MAXTOK
#define DCR_MAXTOK 10
#endif
struct dcr_tokens { int n; int start[DCR_MAXTOK]; int len[DCR_MAXTOK]; };
/* blank/tab separated tokens of line[0..) (NUL terminated) */
static void dcr_tokenize(const char *line, struct dcr_tokens *t)
{
	int i = 0;
	t->n = 0;
	for (;;) {
		while (dcr_isblank(line[i])) i++;
		if (!line[i]) return;
		if (t->n < DCR_MAXTOK) { t->start[t->n] = i; }
		{ int b = i; while (line[i] && !dcr_isblank(line[i])) i++; if (t->n < DCR_MAXTOK) { t->len[t->n] = i - b; t->n++; } }
	}
}
static int dcr_tok_is(const char *line, const struct dcr_tokens *t, int k, const char *word)
{
	int i;
	for (i = 0; word[i]; i++) if (i >= t->len[k] || line[t->start[k] + i] != word[i]) return 0;
	return i == t->len[k];
}
enum dcr_line_kind { DCR_L_NONE, DCR_L_NAMESERVER, DCR_L_DOMAIN, DCR_L_SEARCH, DCR_L_OPTIONS };
/* What a resolv.conf line asks for under `flags`.  For DCR_L_NAMESERVER the address is token 1; for DOMAIN the
 * single domain is token 1; for SEARCH tokens 1..n-1; for OPTIONS tokens 1..n-1. */
static enum dcr_line_kind dcr_resolv_line(const char *line, const struct dcr_tokens *t, int flags)
{
	if (t->n == 0) return DCR_L_NONE;
	if (dcr_tok_is(line, t, 0, "nameserver") && (flags & DCR_G_NAMESERVERS)) return t->n >= 2 ? DCR_L_NAMESERVER : DCR_L_NONE;
	if (dcr_tok_is(line, t, 0, "domain") && (flags & DCR_G_SEARCH)) return t->n >= 2 ? DCR_L_DOMAIN : DCR_L_NONE;
	if (dcr_tok_is(line, t, 0, "search") && (flags & DCR_G_SEARCH)) return DCR_L_SEARCH;
	if (dcr_tok_is(line, t, 0, "options")) return DCR_L_OPTIONS;
	return DCR_L_NONE;
}
/* a search domain without its leading dots */
static void dcr_domain(const char *line, const struct dcr_tokens *t, int k, int *start, int *len)
{
	int s = t->start[k], l = t->len[k];
	while (l > 0 && line[s] == '.') { s++; l--; }
	*start = s; *len = l;
}
#endif
