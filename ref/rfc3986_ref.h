/* ref/rfc3986_ref.h -- reference split + validity of a URI-reference, written from RFC 3986
 * (section 3 ABNF and the appendix B regular expression), plain C, no libevent types.
 *
 *   r3986_split(s, n, nonconformant, unixsock, v6_oracle, &R)
 *
 * s[0..n) holds no NUL.  R describes every component as (offset,length) into s.
 *
 * Split (appendix B):  ^(([^:/?#]+):)?(//([^/?#]*))?([^?#]*)(\?([^#]*))?(#(.*))?
 * Validity (section 3, URI-reference = URI / relative-ref):
 *   scheme      = ALPHA *( ALPHA / DIGIT / "+" / "-" / "." )
 *                 (a non-empty prefix before a ":" that precedes every "/?#" which is not a scheme
 *                  makes the string invalid: as a relative-ref its first segment would contain ":")
 *   authority   = [ userinfo "@" ] host [ ":" port ]
 *   userinfo    = *( unreserved / pct-encoded / sub-delims / ":" )
 *   host        = IP-literal / IPv4address / reg-name     (every IPv4address is a reg-name)
 *   IP-literal  = "[" ( IPv6address / IPvFuture ) "]"
 *   IPvFuture   = "v" 1*HEXDIG "." 1*( unreserved / sub-delims / ":" )
 *   IPv6address : decided by the caller's oracle (v6_oracle != 0) for texts made of HEXDIG ":" "."
 *                 (C40 is the property about that syntax)
 *   reg-name    = *( unreserved / pct-encoded / sub-delims )
 *   port        = *DIGIT          R.port = value, -1 if absent or empty; R.port_big if > 65535
 *   path        : *( pchar / "/" ); with authority: empty or begins with "/"; without authority it does
 *                 not begin with "//"; without scheme and authority its first segment holds no ":"
 *   query, fragment = *( pchar / "/" / "?" )
 *   pchar       = unreserved / pct-encoded / sub-delims / ":" / "@"
 * nonconformant (event2/http.h EVHTTP_URI_NONCONFORMANT: "allowed to contain otherwise unreasonable
 *   characters in their path, query, and fragment components"): the character rules of path, query
 *   and fragment are dropped; the split and every other rule stay.
 * unixsock (event2/http.h EVHTTP_URI_UNIX_SOCKET, "http://unix:/run/control.sock:/controller"):
 *   an authority whose host part begins with "unix:" is   [ userinfo "@" ] "unix:" socket-path ":"
 *   where socket-path is every byte up to the next ":" (it may contain "/"), and the path
 *   (path-abempty), query and fragment follow that colon.
 */
#ifndef VP_REF_RFC3986_H_
#define VP_REF_RFC3986_H_
#include <stddef.h>

#ifndef R3986_MAX
#define R3986_MAX 16          /* constant loop bound: n <= R3986_MAX */
#endif

struct r3986 {
	int valid;
	int has_scheme, has_auth, has_userinfo, has_unix, has_query, has_frag;
	int host_bracketed, port_big, asked_v6;
	long port;
	size_t scheme_off, scheme_len, ui_off, ui_len, host_off, host_len, unix_off, unix_len;
	size_t path_off, path_len, q_off, q_len, f_off, f_len;
};

static int r3_alpha(unsigned char c) { return (c >= 'A' && c <= 'Z') || (c >= 'a' && c <= 'z'); }
static int r3_digit(unsigned char c) { return c >= '0' && c <= '9'; }
static int r3_hex(unsigned char c) { return r3_digit(c) || (c >= 'a' && c <= 'f') || (c >= 'A' && c <= 'F'); }
static int r3_unreserved(unsigned char c) { return r3_alpha(c) || r3_digit(c) || c == '-' || c == '.' || c == '_' || c == '~'; }
static int r3_subdelim(unsigned char c)
{
	return c == '!' || c == '$' || c == '&' || c == '\'' || c == '(' || c == ')' || c == '*' || c == '+' || c == ',' || c == ';' || c == '=';
}
/* s[a..b) is *( unreserved / pct-encoded / sub-delims / any byte listed in extra ) */
static int r3_chars_ok(const unsigned char *s, size_t a, size_t b, const char *extra)
{
	size_t i, k;
	int skip = 0;
	for (i = 0; i < R3986_MAX; i++) {
		unsigned char c; int ok = 0;
		if (i < a || i >= b) continue;
		if (skip) { skip--; continue; }
		c = s[i];
		if (r3_unreserved(c) || r3_subdelim(c)) ok = 1;
		for (k = 0; extra[k] != '\0'; k++) if (c == (unsigned char)extra[k]) ok = 1;
		if (!ok && c == '%' && b - i >= 3 && r3_hex(s[i + 1]) && r3_hex(s[i + 2])) { ok = 1; skip = 2; }
		if (!ok) return 0;
	}
	return 1;
}
/* first index in [a,b) holding one of the bytes in set, or b */
static size_t r3_find(const unsigned char *s, size_t a, size_t b, const char *set)
{
	size_t i, k;
	for (i = 0; i < R3986_MAX; i++) {
		if (i < a) continue;
		if (i >= b) break;
		for (k = 0; set[k] != '\0'; k++) if (s[i] == (unsigned char)set[k]) return i;
	}
	return b;
}
static int r3_ipvfuture_ok(const unsigned char *s, size_t a, size_t b)
{
	/* s[a..b) is the text between the brackets: "v" 1*HEXDIG "." 1*( unreserved / sub-delims / ":" ) */
	size_t i, dot;
	if (b - a < 4 || (s[a] != 'v' && s[a] != 'V')) return 0;
	dot = r3_find(s, a + 1, b, ".");
	if (dot == b || dot == a + 1 || dot + 1 == b) return 0;
	for (i = 0; i < R3986_MAX; i++) {
		if (i <= a) continue;
		if (i >= b) break;
		if (i < dot && !r3_hex(s[i])) return 0;
		if (i > dot && !(r3_unreserved(s[i]) || r3_subdelim(s[i]) || s[i] == ':')) return 0;
	}
	return 1;
}
static int r3_v6_charset(const unsigned char *s, size_t a, size_t b)
{
	size_t i;
	if (b - a < 2) return 0;                 /* the shortest IPv6address is "::" */
	for (i = 0; i < R3986_MAX; i++) {
		if (i < a) continue;
		if (i >= b) break;
		if (!(r3_hex(s[i]) || s[i] == ':' || s[i] == '.')) return 0;
	}
	return 1;
}

static void r3986_split(const unsigned char *s, size_t n, int nonconformant, int unixsock, int v6_oracle, struct r3986 *R)
{
	size_t pos = 0, d, e, i;
	int ok = 1;
	R->has_scheme = R->has_auth = R->has_userinfo = R->has_unix = R->has_query = R->has_frag = 0;
	R->host_bracketed = R->port_big = R->asked_v6 = 0;
	R->port = -1;
	R->scheme_off = R->scheme_len = R->ui_off = R->ui_len = R->host_off = R->host_len = R->unix_off = R->unix_len = 0;
	R->path_off = R->path_len = R->q_off = R->q_len = R->f_off = R->f_len = 0;

	/* scheme */
	d = r3_find(s, 0, n, ":/?#");
	if (d < n && s[d] == ':' && d > 0) {
		int sok = r3_alpha(s[0]);
		for (i = 1; i < R3986_MAX; i++)
			if (i < d && !(r3_alpha(s[i]) || r3_digit(s[i]) || s[i] == '+' || s[i] == '-' || s[i] == '.')) sok = 0;
		if (sok) { R->has_scheme = 1; R->scheme_off = 0; R->scheme_len = d; pos = d + 1; }
		else ok = 0;
	} else if (d < n && s[d] == ':') {
		ok = 0;                               /* ":..." -- first segment of a relative-ref holds a colon */
	}

	/* authority */
	if (n - pos >= 2 && s[pos] == '/' && s[pos + 1] == '/') {
		size_t a = pos + 2, at, hs;
		R->has_auth = 1;
		e = r3_find(s, a, n, "/?#");
		at = r3_find(s, a, e, "@");
		hs = a;
		if (at < e) {
			R->has_userinfo = 1; R->ui_off = a; R->ui_len = at - a;
			if (!r3_chars_ok(s, a, at, ":")) ok = 0;
			hs = at + 1;
		}
		if (unixsock && n - hs >= 5 && s[hs] == 'u' && s[hs + 1] == 'n' && s[hs + 2] == 'i' && s[hs + 3] == 'x' && s[hs + 4] == ':') {
			size_t c2 = r3_find(s, hs + 5, n, ":");
			R->has_unix = 1; R->unix_off = hs + 5;
			if (c2 == n) { ok = 0; R->unix_len = n - (hs + 5); e = n; }
			else {
				R->unix_len = c2 - (hs + 5); e = c2 + 1;
				if (e < n && s[e] != '/' && s[e] != '?' && s[e] != '#') ok = 0;   /* path-abempty */
			}
		} else {
			size_t he, ps = e;                /* host = [hs,he), port digits = [ps,e) */
			if (hs < e && s[hs] == '[') {
				size_t rb = r3_find(s, hs, e, "]");
				if (rb == e) { ok = 0; he = e; }
				else {
					he = rb + 1;
					R->host_bracketed = 1;
					if (rb - hs >= 2 && (s[hs + 1] == 'v' || s[hs + 1] == 'V')) {
						if (!r3_ipvfuture_ok(s, hs + 1, rb)) ok = 0;
					} else {
						R->asked_v6 = 1;
						if (!(r3_v6_charset(s, hs + 1, rb) && v6_oracle)) ok = 0;
					}
					if (he < e) { if (s[he] != ':') ok = 0; ps = he + 1; }
				}
			} else {
				he = r3_find(s, hs, e, ":");
				if (he < e) ps = he + 1;
				if (!r3_chars_ok(s, hs, he, "")) ok = 0;
			}
			R->host_off = hs; R->host_len = he - hs;
			if (ps < e) {
				long v = 0;
				for (i = 0; i < R3986_MAX; i++) {
					if (i < ps) continue;
					if (i >= e) break;
					if (!r3_digit(s[i])) { ok = 0; break; }
					if (v <= 65535) v = v * 10 + (s[i] - '0');
				}
				if (v > 65535) R->port_big = 1;
				R->port = v;
			}
		}
		pos = e;
	}

	/* path, query, fragment */
	d = r3_find(s, pos, n, "?#");
	R->path_off = pos; R->path_len = d - pos;
	if (!nonconformant && !r3_chars_ok(s, pos, d, ":@/")) ok = 0;
	if (!R->has_auth && !R->has_scheme) {
		size_t c = r3_find(s, pos, d, ":/");
		if (c < d && s[c] == ':') ok = 0;    /* path-noscheme */
	}
	pos = d;
	if (pos < n && s[pos] == '?') {
		d = r3_find(s, pos + 1, n, "#");
		R->has_query = 1; R->q_off = pos + 1; R->q_len = d - (pos + 1);
		if (!nonconformant && !r3_chars_ok(s, pos + 1, d, ":@/?")) ok = 0;
		pos = d;
	}
	if (pos < n && s[pos] == '#') {
		R->has_frag = 1; R->f_off = pos + 1; R->f_len = n - (pos + 1);
		if (!nonconformant && !r3_chars_ok(s, pos + 1, n, ":@/?")) ok = 0;
	}
	R->valid = ok;
}
#endif
