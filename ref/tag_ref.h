/* ref/tag_ref.h -- reference model of the evtag wire format (plain C over byte arrays,
 * no libevent types).  Written from the format description at the top of
 * event_tagging.c and include/event2/tag.h:
 *
 *   TaggedData = Tag Length Data          Length = Integer = number of Data bytes
 *   Tag        = HByte* LByte             7 value bits per byte, LEAST significant group
 *                                         first, high bit = "another byte follows";
 *                                         the value must fit 32 bits
 *   Integer    = NNibbles Nibble* Pad?    a stream of 4-bit fields, two per byte, HIGH half of
 *                                         a byte first.  Field 0 = (number of value nibbles)-1,
 *                                         fields 1..n = the value's nibbles; an odd field count
 *                                         is padded to a whole byte.
 *     NOTE the comment in event_tagging.c says the value nibbles are "in big-endian order";
 *     what is on the wire (and what tag.h's users exchange) is: field 1 of the stream is
 *     stored in the LOW half of byte 0 next to NNibbles, after that field k lives in byte
 *     k/2, high half when k is even -- and field 1 is the LEAST significant nibble.
 *     The model follows the wire.  A 32-bit integer has <= 8 value nibbles (<= 5 bytes), a
 *     64-bit one <= 16 (<= 9 bytes).  Decoders ignore the padding nibble's value.
 *   timeval    = Integer(tv_sec) Integer(tv_usec) as the Data of one TaggedData
 *
 * All functions: return the number of bytes produced/consumed, or -1 (not well-formed /
 * does not fit in the n available bytes).  Loops have constant bounds.
 */
#ifndef VP_REF_TAG_H_
#define VP_REF_TAG_H_
#include <stddef.h>
#include <stdint.h>

/* ---- encoders (canonical form: what a marshaller must put on the wire) ---- */
static int tagref_enc_tag(unsigned char *out, uint32_t tag)
{
	int n = 0, k;
	for (k = 0; k < 5; k++) {
		unsigned char b = (unsigned char)(tag & 0x7f);
		tag >>= 7;
		if (tag) b |= 0x80;
		out[n++] = b;
		if (!tag) break;
	}
	return n;
}
/* number of value nibbles of v, at least 1 */
static int tagref_nibbles(uint64_t v)
{
	int n = 1, k;
	for (k = 1; k < 16; k++)
		if ((v >> (4 * k)) != 0) n = k + 1;
	return n;
}
static int tagref_enc_int(unsigned char *out, uint64_t v)
{
	int n = tagref_nibbles(v), bytes = n / 2 + 1, k;
	for (k = 0; k < 9; k++) if (k < bytes) out[k] = 0;
	out[0] = (unsigned char)(((n - 1) << 4) | (v & 0x0f));
	for (k = 2; k <= 16; k++) {
		if (k <= n) {
			unsigned nib = (unsigned)((v >> (4 * (k - 1))) & 0x0f);
			if (k & 1) out[k / 2] |= (unsigned char)nib;
			else out[k / 2] |= (unsigned char)(nib << 4);
		}
	}
	return bytes;
}

/* ---- decoders over a byte array p[0..n) ---- */
static int tagref_dec_tag(const unsigned char *p, size_t n, uint32_t *tag)
{
	uint64_t v = 0; size_t k;
	for (k = 0; k < 5; k++) {
		if (k >= n) return -1;                      /* ran out of data inside the tag */
		v |= (uint64_t)(p[k] & 0x7f) << (7 * k);
		if (!(p[k] & 0x80)) {
			if (v > 0xffffffffULL) return -1;       /* does not fit 32 bits */
			*tag = (uint32_t)v;
			return (int)(k + 1);
		}
	}
	return -1;                                      /* more than 5 bytes: cannot fit 32 bits */
}
static int tagref_dec_int(const unsigned char *p, size_t n, int maxnibbles, uint64_t *val)
{
	int nn, bytes, k; uint64_t v = 0;
	if (n == 0) return -1;
	nn = (p[0] >> 4) + 1;
	if (nn > maxnibbles) return -1;
	bytes = nn / 2 + 1;
	if ((size_t)bytes > n) return -1;
	for (k = 16; k >= 1; k--) {
		if (k <= nn) {
			unsigned nib = (k & 1) ? (p[k / 2] & 0x0f) : (p[k / 2] >> 4);
			v = (v << 4) | nib;
		}
	}
	*val = v;
	return bytes;
}
/* Tag Length header followed by at least Length bytes of data: returns the header size */
static int tagref_dec_header(const unsigned char *p, size_t n, uint32_t *tag, uint32_t *len)
{
	int a, b; uint64_t l;
	a = tagref_dec_tag(p, n, tag);
	if (a < 0) return -1;
	b = tagref_dec_int(p + a, n - (size_t)a, 8, &l);
	if (b < 0) return -1;
	if (n - (size_t)a - (size_t)b < l) return -1;       /* payload not (yet) there */
	*len = (uint32_t)l;
	return a + b;
}
#endif
