/* dns_ref.h -- reference DNS wire-format decoder, written from RFC 1035
 * (§3.1 names, §4.1 message format, §4.1.4 compression) and RFC 6891 (OPT).
 * Plain C, no libevent code.  Used as the oracle of C33/C35/C36/C37.
 *
 * Names: a sequence of labels <len:1><bytes:len> (len 1..63) ended by a zero
 * octet; a length octet whose two top bits are 11 starts a 2-octet pointer
 * (14-bit offset from the start of the message) that replaces the rest of the
 * name.  Top bits 01 / 10 are reserved (RFC 1035 §4.1.4) -> DNSREF_RESERVED.
 * The textual form produced is the labels joined by '.', no trailing dot,
 * bytes copied verbatim (this is the presentation evdns uses).
 *
 * Loop detection: decoding is deterministic in the current offset, so a name
 * is finite iff no offset is used twice as the start of a label/pointer; a
 * finite name therefore takes at most len steps (pigeonhole).  The decoder
 * takes a step budget DNSREF_NAME_STEPS >= len (checked by the callers'
 * bounds): a name that is not finished within the budget is a loop.  For any
 * budget >= len this is the exact semantics "finite names decode, looping
 * names are malformed".  (The budget form, rather than `steps > len`, keeps
 * the solver from having to prove the pigeonhole principle, which is
 * exponential for resolution-based SAT.)
 */
#ifndef DNS_REF_H_
#define DNS_REF_H_
#include <stdint.h>
#include <stddef.h>

#define DNSREF_OK         0
#define DNSREF_MALFORMED (-1)  /* runs off the message, pointer out of range, loop */
#define DNSREF_RESERVED  (-2)  /* label type 01 / 10 met */
#define DNSREF_TOOLONG   (-3)  /* textual form (with NUL) does not fit in out_cap */

#ifndef DNSREF_NAME_STEPS
#define DNSREF_NAME_STEPS 600 /* loop bound for tools that need one; >= any len used */
#endif

/* Decode the name starting at msg[start].  out (capacity out_cap) receives the
 * NUL-terminated dotted name; *next = offset just after the name *at its
 * original position* (after the first pointer if there was one); *wire_len =
 * length the name would have uncompressed on the wire (labels + length octets
 * + root octet).  out may be NULL (then out_cap is ignored: measure only). */
static int dnsref_name_nptr; /* side result: pointers followed by the last dnsref_name() */
static int dnsref_name_fwdptr; /* side result, cumulative: pointers whose target is not strictly before
                                * the pointer itself (a compression pointer must refer to a PRIOR
                                * occurrence, RFC 1035 4.1.4) */
static int dnsref_name_odd;    /* side result, cumulative: label octets '.' or NUL met -- such labels have no
                                * unambiguous dotted C-string form (evdns's presentation does not escape) */
static int dnsref_name(const uint8_t *msg, int len, int start, char *out, int out_cap,
                       int *next, int *text_len, int *wire_len)
{
	int pos = start, n = 0, steps = 0, after = -1, wl = 0;
	dnsref_name_nptr = 0;
	if (start < 0) return DNSREF_MALFORMED;
	for (;;) {
		uint8_t c;
		int k;
		if (pos >= len) return DNSREF_MALFORMED;
		if (++steps > DNSREF_NAME_STEPS) return DNSREF_MALFORMED; /* loop, see above */
		c = msg[pos];
		if (c == 0) { pos++; break; }
		if ((c & 0xc0) == 0xc0) {
			int tgt;
			if (pos + 1 >= len) return DNSREF_MALFORMED;
			tgt = ((c & 0x3f) << 8) | msg[pos + 1];
			if (after < 0) after = pos + 2;
			if (tgt >= len) return DNSREF_MALFORMED;
			if (tgt >= pos) dnsref_name_fwdptr++;
			pos = tgt;
			dnsref_name_nptr++;
			continue;
		}
		if (c & 0xc0) return DNSREF_RESERVED;
		/* ordinary label of c bytes */
		if (pos + 1 + c > len) return DNSREF_MALFORMED;
		if (n > 0) {
			if (out) { if (n + 1 >= out_cap) return DNSREF_TOOLONG; out[n] = '.'; }
			n++;
		}
		if (out && n + c >= out_cap) return DNSREF_TOOLONG;
		for (k = 0; k < c; k++) {
			if (out) out[n] = (char)msg[pos + 1 + k];
			if (msg[pos + 1 + k] == '.' || msg[pos + 1 + k] == 0) dnsref_name_odd++;
			n++;
		}
		wl += 1 + c;
		pos += 1 + c;
	}
	if (out) { if (n >= out_cap) return DNSREF_TOOLONG; out[n] = 0; }
	if (next) *next = after >= 0 ? after : pos;
	if (text_len) *text_len = n;
	if (wire_len) *wire_len = wl + 1;
	return DNSREF_OK;
}

static inline unsigned dnsref_u16(const uint8_t *p) { return ((unsigned)p[0] << 8) | p[1]; }
static inline uint32_t dnsref_u32(const uint8_t *p)
{ return ((uint32_t)p[0] << 24) | ((uint32_t)p[1] << 16) | ((uint32_t)p[2] << 8) | p[3]; }

/* RFC 1035 §4.1.1 header */
struct dnsref_hdr {
	unsigned id, flags, qd, an, ns, ar;
	unsigned qr, opcode, aa, tc, rd, ra, z, rcode;
};
static int dnsref_header(const uint8_t *msg, int len, struct dnsref_hdr *h)
{
	if (len < 12) return DNSREF_MALFORMED;
	h->id = dnsref_u16(msg); h->flags = dnsref_u16(msg + 2);
	h->qd = dnsref_u16(msg + 4); h->an = dnsref_u16(msg + 6);
	h->ns = dnsref_u16(msg + 8); h->ar = dnsref_u16(msg + 10);
	h->qr = (h->flags >> 15) & 1; h->opcode = (h->flags >> 11) & 15;
	h->aa = (h->flags >> 10) & 1; h->tc = (h->flags >> 9) & 1;
	h->rd = (h->flags >> 8) & 1;  h->ra = (h->flags >> 7) & 1;
	h->z = (h->flags >> 4) & 7;   h->rcode = h->flags & 15;
	return DNSREF_OK;
}

/* §4.1.2 question: <name><type:2><class:2> */
struct dnsref_q { int name_off; unsigned type, klass; int next; };
static int dnsref_question(const uint8_t *msg, int len, int off, char *name, int name_cap, struct dnsref_q *q)
{
	int nx, r;
	r = dnsref_name(msg, len, off, name, name_cap, &nx, NULL, NULL);
	if (r != DNSREF_OK) return r;
	if (nx + 4 > len) return DNSREF_MALFORMED;
	q->name_off = off; q->type = dnsref_u16(msg + nx); q->klass = dnsref_u16(msg + nx + 2);
	q->next = nx + 4;
	return DNSREF_OK;
}

/* §4.1.3 resource record: <name><type:2><class:2><ttl:4><rdlength:2><rdata> */
struct dnsref_rr { int name_off; unsigned type, klass; uint32_t ttl; unsigned rdlen; int rdata; int next; };
static int dnsref_rr(const uint8_t *msg, int len, int off, char *name, int name_cap, struct dnsref_rr *rr)
{
	int nx, r;
	r = dnsref_name(msg, len, off, name, name_cap, &nx, NULL, NULL);
	if (r != DNSREF_OK) return r;
	if (nx + 10 > len) return DNSREF_MALFORMED;
	rr->name_off = off;
	rr->type = dnsref_u16(msg + nx); rr->klass = dnsref_u16(msg + nx + 2);
	rr->ttl = dnsref_u32(msg + nx + 4); rr->rdlen = dnsref_u16(msg + nx + 8);
	rr->rdata = nx + 10;
	if (rr->rdata + (int)rr->rdlen > len) return DNSREF_MALFORMED;
	rr->next = rr->rdata + (int)rr->rdlen;
	return DNSREF_OK;
}

/* Is `text` (NUL-terminated, dotted, no escapes) encodable as RFC 1035 labels?
 * every label 1..63 bytes (one optional trailing dot is the root), total wire
 * length <= 255. */
static int dnsref_name_encodable(const char *text, int text_len)
{
	int i, lab = 0, wire = 1;
	for (i = 0; i < text_len; i++) {
		if (text[i] == '.') {
			if (lab == 0) return 0;      /* empty label inside / leading dot */
			if (lab > 63) return 0;
			wire += 1 + lab; lab = 0;
		} else lab++;
	}
	if (lab > 63) return 0;
	if (lab) wire += 1 + lab;
	return wire <= 255;
}

static inline int dnsref_lower(int c) { return (c >= 'A' && c <= 'Z') ? c + 32 : c; }
#endif
