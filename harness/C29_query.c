/* C29: evhttp_parse_query_str / evhttp_parse_query_str_flags (evhttp_parse_query_impl with
 * is_whole_uri == 0) on a symbolic C string of at most VP_N bytes with symbolic flags, against
 * the reference splitter ref/uricodec_ref.h:ruc_query_split.
 *
 * Compared: the return value, the number of entries in the evkeyvalq, and key and value of every
 * entry in queue order.  On failure the queue must be empty.  Everything the call allocated is
 * either in the queue or freed (allocation count == free count after evhttp_clear_headers).
 * Real code reached: evhttp_parse_query_impl, evhttp_decode_uri_internal,
 * evhttp_add_header_internal, evhttp_remove_header, evhttp_clear_headers, evutil_ascii_strcasecmp;
 * strsep/strlen/strtol are the env/http_fmt.h models.
 */
#include "vp.h"
#include "log_stub.h"
#include "http_fmt.h"
#include "http_stralloc.h"
#include "http_evutil.h"
#include "http.c"
#ifndef VP_N
#define VP_N 6
#endif
#ifndef VP_FLAGS
#define VP_FLAGS 0
#endif
#define RUC_QN VP_N
#include "uricodec_ref.h"

void harness_query(void)
{
	unsigned char s[VP_N + 1];
	struct ruc_query R;
	struct evkeyvalq q;
	struct evkeyval *kv;
	size_t len = (size_t)vp_range(0, VP_N), i, cnt = 0;
	/* concrete flag combination per obligation (VP_FLAGS < 0: the evhttp_parse_query_str entry) */
	unsigned flags = VP_FLAGS < 0 ? 0u : (unsigned)VP_FLAGS;
	int useflags = VP_FLAGS >= 0, r, same = 1;

	vp_bytes(s, VP_N);
	for (i = 0; i < VP_N; i++) {
		if (i >= len) s[i] = 0;
		else __CPROVER_assume(s[i] != 0);
	}
	s[VP_N] = 0;
	if (!useflags) flags = 0;

	ruc_query_split(s, len, flags, &R);
	if (useflags)
		r = evhttp_parse_query_str_flags((const char *)s, &q, flags);
	else
		r = evhttp_parse_query_str((const char *)s, &q);

	VP_ASSERT(r == 0 || r == -1, "C29: evhttp_parse_query_str returns 0 or -1");
	VP_ASSERT(r == R.result, "C29: query accepted/refused differently from the reference splitter");
	kv = TAILQ_FIRST(&q);
	for (i = 0; i < RUC_QP; i++) {
		if (kv == NULL) break;
		if (i < R.n) {
			if (!ruc_str_eq((const unsigned char *)kv->key, R.p[i].key, VP_N)) same = 0;
			if (!ruc_str_eq((const unsigned char *)kv->value, R.p[i].val, VP_N)) same = 0;
		}
		cnt++;
		kv = TAILQ_NEXT(kv, next);
	}
	VP_ASSERT(kv == NULL && cnt == R.n, "C29: number of key/value pairs differs from the reference splitter");
	VP_ASSERT(same, "C29: a key or value differs from the reference splitter");
	if (r == -1)
		VP_ASSERT(TAILQ_EMPTY(&q), "C29: failed query parse leaves pairs behind");

#if VP_FLAGS >= 0 && (VP_FLAGS & 1)
	/* QUERY_NONCONFORMANT: nothing is refused */
	if (r == 0 && cnt == (VP_N + 1) / 2) VP_WITNESS("query: maximal number of pairs (lax)");
	if (r == 0 && cnt == 0 && len == VP_N) VP_WITNESS("query: every pair skipped (lax)");
#if VP_FLAGS & 2
	if (r == 0 && cnt == 1 && s[1] == '&' && len == 3) VP_WITNESS("query: LAST_VAL replaced an earlier pair");
#endif
#else
	if (r == 0 && cnt == (VP_N + 1) / 3) VP_WITNESS("query: maximal number of pairs (strict)");
	if (r == -1 && len > 3) VP_WITNESS("query: refused");
#if VP_FLAGS >= 0 && (VP_FLAGS & 2)
	if (r == 0 && cnt == 1 && s[2] == '&' && len == 5) VP_WITNESS("query: LAST_VAL replaced an earlier pair");
#endif
#endif
#if VP_FLAGS >= 0 && (VP_FLAGS & 2)
	if (r == 0 && cnt == 2) VP_WITNESS("query: two pairs with LAST_VAL");
#endif
	if (r == 0 && cnt == 1 && R.p[0].val[0] == ' ') VP_WITNESS("query: value decoded to a space");
	if (r == 0 && len == 0) VP_WITNESS("query: empty");

	evhttp_clear_headers(&q);
	VP_ASSERT(vp_alloc_calls == vp_free_calls, "C29: evhttp_parse_query_str leaks (or double frees) memory");
}
