/* C41: ASCII helpers and evutil_sockaddr_cmp (evutil.c) vs their definitions */
#include "vp.h"
#include "log_stub.h"
#include "locks.h"
#include "alloc.h"
#include <stdarg.h>
#include <stdio.h>
/* platform vsnprintf, weakest historical contract: returns the length the full output
 * would have (or <0); writes at most buflen bytes; the terminator is only guaranteed when
 * the output fits (pre-C99 / MSVC behaviour) -- evutil_vsnprintf promises termination itself */
static int vp_vs_ret; static int vp_vs_calls;
int vsnprintf(char *buf, size_t buflen, const char *fmt, va_list ap)
{
	size_t i; (void)fmt; (void)ap; vp_vs_calls++;
	for (i = 0; i < buflen; i++) {
		if (vp_vs_ret >= 0 && i == (size_t)vp_vs_ret) { buf[i] = 0; break; }
		buf[i] = 'x';
	}
	return vp_vs_ret;
}
#include "evutil.c"

#ifndef VP_L
#define VP_L 5
#endif
static unsigned char fold(unsigned char c) { return (c >= 'A' && c <= 'Z') ? (unsigned char)(c + 32) : c; }
static int sgn(int x) { return x < 0 ? -1 : x > 0 ? 1 : 0; }
static void vp_str(char *s) { vp_bytes(s, VP_L); s[VP_L] = 0; }
static int is_ascii_str(const char *s) { int i; for (i = 0; i <= VP_L && s[i]; i++) if ((unsigned char)s[i] >= 0x80) return 0; return 1; }
/* reference: POSIX strcasecmp with ASCII folding, bytes compared as unsigned char, limit n */
static int ref_ncasecmp(const char *a, const char *b, size_t n)
{
	size_t i;
	for (i = 0; i < n; i++) {
		unsigned char x = fold((unsigned char)a[i]), y = fold((unsigned char)b[i]);
		if (x != y) return x < y ? -1 : 1;
		if (!x) return 0;
	}
	return 0;
}

/* all 256 characters: classification and case mapping tables vs their definitions */
void harness_ctype(void)
{
	unsigned char u = vp_u8(); char c = (char)u;
	int up = u >= 'A' && u <= 'Z', lo = u >= 'a' && u <= 'z', dg = u >= '0' && u <= '9';
	VP_ASSERT(EVUTIL_ISUPPER_(c) == up, "C41: EVUTIL_ISUPPER_");
	VP_ASSERT(EVUTIL_ISLOWER_(c) == lo, "C41: EVUTIL_ISLOWER_");
	VP_ASSERT(EVUTIL_ISALPHA_(c) == (up || lo), "C41: EVUTIL_ISALPHA_");
	VP_ASSERT(EVUTIL_ISDIGIT_(c) == dg, "C41: EVUTIL_ISDIGIT_");
	VP_ASSERT(EVUTIL_ISALNUM_(c) == (up || lo || dg), "C41: EVUTIL_ISALNUM_");
	VP_ASSERT(EVUTIL_ISXDIGIT_(c) == (dg || (u >= 'a' && u <= 'f') || (u >= 'A' && u <= 'F')), "C41: EVUTIL_ISXDIGIT_");
	VP_ASSERT(EVUTIL_ISSPACE_(c) == (u == ' ' || (u >= 9 && u <= 13)), "C41: EVUTIL_ISSPACE_");
	VP_ASSERT(EVUTIL_ISPRINT_(c) == (u >= 0x20 && u <= 0x7e), "C41: EVUTIL_ISPRINT_");
	VP_ASSERT((unsigned char)EVUTIL_TOLOWER_(c) == (up ? u + 32 : u), "C41: EVUTIL_TOLOWER_");
	VP_ASSERT((unsigned char)EVUTIL_TOUPPER_(c) == (lo ? u - 32 : u), "C41: EVUTIL_TOUPPER_");
	VP_WITNESS("ctype");
}

void harness_casecmp(void)
{
	char a[VP_L + 1], b[VP_L + 1]; int r, rr, q; size_t n = (size_t)vp_range(0, VP_L + 2);
	vp_str(a); vp_str(b);
	r = evutil_ascii_strcasecmp(a, b); rr = evutil_ascii_strcasecmp(b, a);
	q = ref_ncasecmp(a, b, VP_L + 1);
	VP_ASSERT((r == 0) == (q == 0), "C41: evutil_ascii_strcasecmp returns 0 exactly for strings equal under ASCII case folding");
	VP_ASSERT(sgn(r) == -sgn(rr), "C41: evutil_ascii_strcasecmp is antisymmetric");
	if (is_ascii_str(a) && is_ascii_str(b))
		VP_ASSERT(sgn(r) == q, "C41: evutil_ascii_strcasecmp sign equals the ASCII strcasecmp definition");
	r = evutil_ascii_strncasecmp(a, b, n); rr = evutil_ascii_strncasecmp(b, a, n);
	q = ref_ncasecmp(a, b, n);
	VP_ASSERT((r == 0) == (q == 0), "C41: evutil_ascii_strncasecmp returns 0 exactly when the first n bytes are equal under ASCII case folding");
	VP_ASSERT(sgn(r) == -sgn(rr), "C41: evutil_ascii_strncasecmp is antisymmetric");
	if (is_ascii_str(a) && is_ascii_str(b))
		VP_ASSERT(sgn(r) == q, "C41: evutil_ascii_strncasecmp sign equals the ASCII strncasecmp definition");
	if (q == 0 && n == VP_L + 2 && a[0] != b[0] && a[VP_L - 1]) VP_WITNESS("equal only by case folding, full length");
	if (q != 0) VP_WITNESS("different");
}

void harness_casestr(void)
{
	char s[VP_L + 1], f[VP_L + 1]; const char *r; size_t i, ls, lf, want = (size_t)-1;
	vp_str(s); vp_str(f);
	ls = strlen(s); lf = strlen(f);
	for (i = 0; i + lf <= ls; i++)
		if (ref_ncasecmp(s + i, f, lf) == 0) { want = i; break; }
	r = evutil_ascii_strcasestr(s, f);
	if (want == (size_t)-1) VP_ASSERT(r == NULL, "C41: evutil_ascii_strcasestr found a match where the reference search finds none");
	else VP_ASSERT(r == s + want, "C41: evutil_ascii_strcasestr does not return the first case-insensitive occurrence");
	if (want != (size_t)-1 && want > 0 && lf >= 2) VP_WITNESS("match in the middle");
	if (want == (size_t)-1) VP_WITNESS("no match");
}

void harness_rtrim(void)
{
	char s[VP_L + 1], o[VP_L + 1]; size_t i, l, keep;
	vp_str(s); memcpy(o, s, sizeof(o));
	l = strlen(o); keep = l;
	while (keep > 0 && (o[keep - 1] == ' ' || o[keep - 1] == '\t')) keep--;
	evutil_rtrim_lws_(s);
	VP_ASSERT(strlen(s) == keep, "C41: evutil_rtrim_lws_ leaves exactly the input without its trailing spaces/tabs");
	i = vp_size();
	if (i < keep) VP_ASSERT(s[i] == o[i], "C41: evutil_rtrim_lws_ changed a byte before the trailing whitespace");
	if (keep == 0 && l == VP_L) VP_WITNESS("all whitespace");
	if (keep > 0 && keep < l) VP_WITNESS("trimmed some");
	evutil_rtrim_lws_(NULL);
}

void harness_snprintf(void)
{
	char buf[8]; size_t buflen = (size_t)vp_range(0, 8), i; int r;
	for (i = 0; i < 8; i++) buf[i] = 'G';
	vp_vs_ret = (int)vp_range(0, 12) - 1;
	r = evutil_snprintf(buf, buflen, "%s", "ignored");
	if (buflen == 0) {
		VP_ASSERT(r == 0 && vp_vs_calls == 0, "C41: evutil_snprintf with a zero-length buffer must return 0 and write nothing");
	} else {
		VP_ASSERT(r == vp_vs_ret, "C41: evutil_snprintf returns the length the platform formatter reports");
		if (r >= 0) {
			size_t end = (size_t)r < buflen ? (size_t)r : buflen - 1;
			VP_ASSERT(buf[end] == 0, "C41: evutil_snprintf output is not NUL-terminated inside the buffer");
		}
	}
	for (i = buflen; i < 8; i++) VP_ASSERT(buf[i] == 'G', "C41: evutil_snprintf wrote past buflen");
	if (buflen > 0 && r >= (int)buflen) VP_WITNESS("truncated");
	if (buflen > 0 && r >= 0 && r < (int)buflen) VP_WITNESS("fits");
	if (buflen == 0) VP_WITNESS("zero buffer");
}

static void vp_sa(struct sockaddr_storage *ss)
{
	memset(ss, 0, sizeof(*ss));
	if (vp_bool()) {
		struct sockaddr_in *s = (struct sockaddr_in *)ss;
		s->sin_family = AF_INET; s->sin_port = vp_u16(); s->sin_addr.s_addr = vp_u32();
	} else {
		struct sockaddr_in6 *s = (struct sockaddr_in6 *)ss;
		s->sin6_family = AF_INET6; s->sin6_port = vp_u16(); vp_bytes(s->sin6_addr.s6_addr, 16);
	}
}
static int sa_equal(const struct sockaddr_storage *a, const struct sockaddr_storage *b, int port)
{
	if (a->ss_family != b->ss_family) return 0;
	if (a->ss_family == AF_INET) {
		const struct sockaddr_in *x = (const void *)a, *y = (const void *)b;
		return x->sin_addr.s_addr == y->sin_addr.s_addr && (!port || x->sin_port == y->sin_port);
	} else {
		const struct sockaddr_in6 *x = (const void *)a, *y = (const void *)b; int i;
		for (i = 0; i < 16; i++) if (x->sin6_addr.s6_addr[i] != y->sin6_addr.s6_addr[i]) return 0;
		return !port || x->sin6_port == y->sin6_port;
	}
}
void harness_sockaddr_cmp(void)
{
	struct sockaddr_storage a, b, c; int port = vp_bool(), ab, ba, bc, ac;
	vp_sa(&a); vp_sa(&b); vp_sa(&c);
	ab = evutil_sockaddr_cmp((struct sockaddr *)&a, (struct sockaddr *)&b, port);
	ba = evutil_sockaddr_cmp((struct sockaddr *)&b, (struct sockaddr *)&a, port);
	bc = evutil_sockaddr_cmp((struct sockaddr *)&b, (struct sockaddr *)&c, port);
	ac = evutil_sockaddr_cmp((struct sockaddr *)&a, (struct sockaddr *)&c, port);
	VP_ASSERT((ab == 0) == sa_equal(&a, &b, port), "C41: evutil_sockaddr_cmp returns 0 exactly for equal addresses (and ports when requested)");
	VP_ASSERT(sgn(ab) == -sgn(ba), "C41: evutil_sockaddr_cmp is antisymmetric");
	if (ab <= 0 && bc <= 0) VP_ASSERT(ac <= 0, "C41: evutil_sockaddr_cmp is transitive");
	if (ab == 0) VP_ASSERT(sgn(ac) == sgn(bc), "C41: equal addresses compare alike against a third");
	VP_ASSERT(evutil_sockaddr_cmp((struct sockaddr *)&a, (struct sockaddr *)&a, port) == 0, "C41: evutil_sockaddr_cmp reflexive");
	if (a.ss_family == AF_INET6 && b.ss_family == AF_INET6 && ab < 0 && bc < 0) VP_WITNESS("v6 chain");
	if (a.ss_family == AF_INET && b.ss_family == AF_INET6) VP_WITNESS("mixed families");
	if (ab == 0 && a.ss_family == AF_INET) VP_WITNESS("equal v4");
}
