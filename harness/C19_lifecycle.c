/* C19 -- lifecycle of socket bufferevent callbacks: bufferevent.c + bufferevent_sock.c (real code), sink evbuffer,
 * recording event stubs (deferred-callback queue and finalizer queue are run by the harness, like the event loop).
 *
 * A scenario is a CONCRETE sequence of operations (-DC19_SEQ=a,b,c,...; the driver enumerates the shapes) on one
 * bufferevent created with -DC19_OPTS (0 or BEV_OPT_DEFER_CALLBACKS [| BEV_OPT_UNLOCK_CALLBACKS | BEV_OPT_THREADSAFE]);
 * inside each operation everything else is solver-chosen (bytes read/written, which errno, how much the application
 * drains, ...).  The operation kinds must be concrete: they decide how many references/deferred callbacks exist, and a
 * solver-dependent reference count makes symbolic execution walk the teardown path at every decref.
 * The application may free the bufferevent or clear its callbacks from inside a callback (-DC19_IN_CB=kind,action).
 *
 * Monitors (asserted in the callbacks and at the end):
 *   - BEV_EVENT_CONNECTED at most once, and before any read/write callback of a connection that was started with connect
 *   - EOF / ERROR at most once per direction; after EOF|READING or ERROR|READING the read event is not pending (nothing is
 *     read after EOF) until the application re-enables reading
 *   - no callback after bufferevent_free or after bufferevent_setcb(NULL...)
 *   - deferred callbacks: CONNECTED, then data, then EOF/ERROR (the order in which the conditions arose)
 *   - reference count never negative (EVUTIL_ASSERT in bufferevent_decref_and_unlock_ is an obligation), memory and both
 *     evbuffers released exactly once, and only after the last reference is gone; no lock left held
 */
#include "vp.h"
#include "log_stub.h"
#include "locks.h"
#include "alloc.h"
#include "bev_pre.h"
#include "bufferevent.c"
#include "bufferevent_sock.c"
#define VP_SINK_DISPATCH(fn, b, i, a) do { \
	if ((fn) == bufferevent_inbuf_wm_cb) bufferevent_inbuf_wm_cb((b), (i), (a)); \
	else if ((fn) == bufferevent_socket_outbuf_cb) bufferevent_socket_outbuf_cb((b), (i), (a)); \
	else VP_ASSERT(0, "harness: unknown evbuffer callback"); } while (0)
#include "evbuf_sink.h"
#include "bev_env.h"
#include "bev_user.h"

const struct bufferevent_ops bufferevent_ops_pair = { "pair-not-linked", 0, NULL, NULL, NULL, NULL, NULL, NULL, NULL };
const struct bufferevent_ops bufferevent_ops_filter = { "filter-not-linked", 0, NULL, NULL, NULL, NULL, NULL, NULL, NULL };

/* operation codes (macros: used in the driver's -D lists) */
#define CONNECT_INPROGRESS 1   /* bufferevent_socket_connect, connect() in progress */
#define CONNECT_IMMEDIATE  2   /* ... connected at once */
#define CONNECT_REFUSED    3   /* ... refused at once */
#define CONNECT_FAIL       4   /* ... hard error */
#define WEV_CONNECTED      5   /* write event; the pending connect finished successfully */
#define WEV_CONNFAIL       6   /* write event; the pending connect failed */
#define WEV_CONNPENDING    7   /* write event; connect still in progress */
#define WEV_WRITE_OK       8   /* write event; >= 1 byte accepted */
#define WEV_WRITE_ERR      9   /* write event; write() fails with a non-retriable error */
#define WEV_WRITE_ZERO    10   /* write event; write() returns 0 */
#define REV_DATA          11   /* read event; >= 1 byte */
#define REV_EOF           12
#define REV_ERR           13
#define REV_RETRY         14   /* EAGAIN / EINTR */
#define RUN_DEFERRED      15
#define SETCB_NULL        16
#define FREE              17
#define DISABLE_R         18
#define ENABLE_R          19
#define APP_WRITE         20   /* bufferevent_write of >= 1 byte */
#define HOSTNAME_CONNECT  21   /* bufferevent_socket_connect_hostname (lookup started) */
#define GAI_OK_INPROGRESS 22   /* the lookup answers; connect() then in progress */
#define GAI_FAIL          23
#define GAI_CANCEL        24
#define REV_REFUSED       25   /* read event; ECONNREFUSED (the FreeBSD case in bufferevent_readcb) */
#define REV_TIMEOUT       26
#define TRIGGER_RW        27   /* bufferevent_trigger(EV_READ|EV_WRITE, 0) */
#define DISABLE_W         28
#define WEV_WRITE_ALL     30   /* write event; everything queued is accepted */
#define SET_WM_HIGH4      31   /* bufferevent_setwatermark(EV_READ, 0, 4) */
#define APP_DRAIN         32   /* the application consumes everything buffered in the input (also as in-callback action) */
#define ENABLE_W          29

#ifndef C19_SEQ
#define C19_SEQ CONNECT_INPROGRESS, WEV_CONNECTED, REV_DATA
#endif
#ifndef C19_OPTS
#define C19_OPTS 0
#endif
#ifndef C19_INITIAL_FD
#define C19_INITIAL_FD (-1)     /* -1: the socket is created by bufferevent_socket_connect; >= 0: an established connection */
#endif
#ifndef C19_MAX_WR_END
#define C19_MAX_WR_END 1
#endif
/* what the application does inside a callback: -DC19_IN_CB_KIND=U_READ|U_WRITE|U_EVENT -DC19_IN_CB_ACT=FREE|SETCB_NULL|DISABLE_R */
#ifndef C19_IN_CB_KIND
#define C19_IN_CB_KIND 0
#endif
#ifndef C19_IN_CB_ACT
#define C19_IN_CB_ACT 0
#endif

#define B 0
#define FD 5
static int g_connect_started;       /* a connect was started and has not been reported yet */
static int g_connected_seen, g_conn_error_seen;
static int g_rd_end_events, g_wr_end_events;   /* EOF/ERROR reports per direction */
static int g_rd_ended;              /* EOF/ERROR on reading reported and reading not re-enabled since */
static int g_order_bad;
static int g_freed_in_cb;
static int g_data_cb_after_end;

static void app_free(void) { u_dead[B] = 1; bufferevent_free(u_bev[B]); }
static void app_clear(void) { u_cleared[B] = 1; bufferevent_setcb(u_bev[B], NULL, NULL, NULL, NULL); }

static void app_hook(int who, int kind, short what)
{
	(void)who;
	if (kind == U_EVENT) {
		if (what & BEV_EVENT_CONNECTED) {
			g_connected_seen++;
			if (!g_connect_started) g_order_bad = 1;        /* CONNECTED without a pending connect */
			g_connect_started = 0;
		} else if (g_connect_started && (what & BEV_EVENT_ERROR)) {
			g_conn_error_seen++; g_connect_started = 0;       /* the connect failed: reported as ERROR */
		}
		if (what & (BEV_EVENT_EOF | BEV_EVENT_ERROR)) {
			if (what & BEV_EVENT_READING) { g_rd_end_events++; g_rd_ended = 1; }
			if (what & BEV_EVENT_WRITING) g_wr_end_events++;
		}
	} else {
		/* a read/write callback: not before the connection is reported */
		if (g_connect_started) g_order_bad = 1;
		if (kind == U_READ && g_rd_ended) g_data_cb_after_end = 1;
	}
	if (kind == C19_IN_CB_KIND && !u_dead[B] && !u_cleared[B]) {
		if (C19_IN_CB_ACT == FREE) { g_freed_in_cb = 1; app_free(); }
		else if (C19_IN_CB_ACT == SETCB_NULL) app_clear();
		else if (C19_IN_CB_ACT == DISABLE_R) bufferevent_disable(u_bev[B], EV_READ);
		else if (C19_IN_CB_ACT == APP_DRAIN) evbuffer_drain(u_bev[B]->input, evbuffer_get_length(u_bev[B]->input));
	}
}

static struct sockaddr_in g_sin;
static struct evutil_addrinfo g_ai;
static int g_alive_mem = 1;     /* the bufferevent's memory has not been released */

static void fire_read(short ev, long force)
{
	struct bufferevent *b = u_bev[B];
	if (!g_alive_mem) return;
	if (ev == EV_TIMEOUT ? !vp_ev_timer_pending(&b->ev_read) : !vp_ev_io_pending(&b->ev_read)) return;     /* the loop only runs pending events */
	if (ev != EV_TIMEOUT && event_get_fd(&b->ev_read) < 0) return;                                          /* ... and no fd, no I/O readiness */
	VP_ASSERT(!g_rd_ended, "C19: read event pending after EOF/ERROR was reported for reading (something could be read after EOF)");
	vp_sink_force = force;
	bufferevent_readcb(event_get_fd(&b->ev_read), ev, b);
	vp_sink_force = -2;
}
static void fire_write(long force)
{
	struct bufferevent *b = u_bev[B];
	if (!g_alive_mem) return;
	if (!vp_ev_io_pending(&b->ev_write) && !vp_ev_active(&b->ev_write)) return;
	if (!vp_ev_active(&b->ev_write) && event_get_fd(&b->ev_write) < 0) return;
	b->ev_write.ev_flags &= ~EVLIST_ACTIVE;
	vp_sink_force = force;
	bufferevent_writecb(event_get_fd(&b->ev_write), EV_WRITE, b);
	vp_sink_force = -2;
}

static void do_op(int op)
{
	struct bufferevent *b = u_bev[B];
	int r;
	switch (op) {
	case CONNECT_INPROGRESS: case CONNECT_IMMEDIATE: case CONNECT_REFUSED: case CONNECT_FAIL:
		if (u_dead[B]) break;
		vp_connect_result = op == CONNECT_INPROGRESS ? 0 : op == CONNECT_IMMEDIATE ? 1 : op == CONNECT_REFUSED ? 2 : -1;
		g_connect_started = 1;
		r = bufferevent_socket_connect(b, (struct sockaddr *)&g_sin, sizeof(g_sin));
		VP_ASSERT((r == 0) == (op != CONNECT_FAIL), "C19: bufferevent_socket_connect result");
		if (r < 0) g_connect_started = 0;       /* failure is reported by the return value, no event */
		break;
	case WEV_CONNECTED: vp_finished_connecting = 1; fire_write(-2); break;
	case WEV_CONNFAIL: vp_finished_connecting = -1; fire_write(-2); break;
	case WEV_CONNPENDING: vp_finished_connecting = 0; fire_write(-2); break;
	/* byte counts are concrete here (3 read, 5 queued, 2 or all written): whether a transfer succeeded decides which
	 * callbacks get queued, and `res <= 0` on a symbolic count is a branch symex cannot fold */
	case WEV_WRITE_OK: vp_finished_connecting = 1; fire_write(2); break;
	case WEV_WRITE_ALL: vp_finished_connecting = 1; fire_write(u_dead[B] || !g_alive_mem ? 0 : (long)evbuffer_get_length(b->output)); break;
	case WEV_WRITE_ERR: vp_finished_connecting = 1; vp_sink_force_errno = vp_bool() ? ECONNRESET : EPIPE; fire_write(-1); break;
	case WEV_WRITE_ZERO: vp_finished_connecting = 1; fire_write(0); break;
	case REV_DATA: vp_sink_rd_avail = 4096; fire_read(EV_READ, 3); break;
	case REV_EOF: fire_read(EV_READ, 0); break;
	case REV_ERR: vp_sink_force_errno = vp_bool() ? ECONNRESET : EPIPE; fire_read(EV_READ, -1); break;
	case REV_RETRY: vp_sink_force_errno = vp_bool() ? EAGAIN : EINTR; fire_read(EV_READ, -1); break;
	case REV_REFUSED: vp_sink_force_errno = ECONNREFUSED; fire_read(EV_READ, -1); break;
	case REV_TIMEOUT: fire_read(EV_TIMEOUT, -2); break;
	case RUN_DEFERRED: vp_run_deferred(); break;
	case SETCB_NULL: if (!u_dead[B]) app_clear(); break;
	case FREE: if (!u_dead[B]) app_free(); break;
	case DISABLE_R: if (!u_dead[B]) bufferevent_disable(b, EV_READ); break;
	case DISABLE_W: if (!u_dead[B]) bufferevent_disable(b, EV_WRITE); break;
	case ENABLE_W: if (!u_dead[B]) bufferevent_enable(b, EV_WRITE); break;
	case ENABLE_R: if (!u_dead[B]) { bufferevent_enable(b, EV_READ); g_rd_ended = 0; } break;
	case APP_WRITE:
		if (!u_dead[B]) bufferevent_write(b, NULL, 5);
		break;
	case HOSTNAME_CONNECT:
		if (u_dead[B]) break;
		g_connect_started = 1;
		r = bufferevent_socket_connect_hostname(b, NULL, AF_INET, "host", 80);
		VP_ASSERT(r == 0 && vp_gai_calls == 1 && vp_gai_arg == b, "C19: hostname connect starts exactly one lookup");
		VP_ASSERT(!vp_ev_io_pending(&b->ev_read) && !vp_ev_io_pending(&b->ev_write), "C19: I/O suspended during the name lookup");
		break;
	case GAI_OK_INPROGRESS:
		vp_connect_result = 0;
		bufferevent_connect_getaddrinfo_cb(0, &g_ai, b);
		break;
	case GAI_FAIL:
		bufferevent_connect_getaddrinfo_cb(EVUTIL_EAI_NONAME, NULL, b);
		break;
	case GAI_CANCEL:
		bufferevent_connect_getaddrinfo_cb(EVUTIL_EAI_CANCEL, NULL, b);
		g_connect_started = 0;
		break;
	case SET_WM_HIGH4: if (!u_dead[B]) bufferevent_setwatermark(b, EV_READ, 0, 4); break;
	case APP_DRAIN: if (!u_dead[B]) evbuffer_drain(b->input, evbuffer_get_length(b->input)); break;
	case TRIGGER_RW: if (!u_dead[B]) bufferevent_trigger(b, EV_READ | EV_WRITE, 0); break;
	default: break;
	}
	/* the event loop runs finalizers of objects whose last reference is gone after the current callback */
	if (vp_run_finalizers()) g_alive_mem = 0;
	VP_ASSERT_NO_LOCKS("bufferevent operation");
	if (g_alive_mem) VP_ASSERT(U_PRIV(B)->refcnt >= 1, "C19: live bufferevent without a reference");
}

void harness_lifecycle(void)
{
	static const int seq[] = { C19_SEQ };
	static int base_obj;
	unsigned i;
	struct bufferevent *b;
	memset(&g_sin, 0, sizeof(g_sin)); g_sin.sin_family = AF_INET;
	memset(&g_ai, 0, sizeof(g_ai)); g_ai.ai_family = AF_INET; g_ai.ai_addr = (struct sockaddr *)&g_sin; g_ai.ai_addrlen = sizeof(g_sin);
	b = bufferevent_socket_new((struct event_base *)&base_obj, C19_INITIAL_FD, C19_OPTS);
	__CPROVER_assume(b != NULL);
	u_install(B, b);
	u_hook = app_hook;
	if (C19_INITIAL_FD >= 0) bufferevent_enable(b, EV_READ);
	for (i = 0; i < sizeof(seq) / sizeof(seq[0]); i++)
		do_op(seq[i]);
	/* drain what the loop would still run, then free (if the application has not) and let the finalizer run */
	vp_run_deferred();
	if (vp_run_finalizers()) g_alive_mem = 0;
	if (!u_dead[B]) { VP_ASSERT(g_alive_mem, "C19: bufferevent memory released although the application never freed it"); app_free(); }
	vp_run_deferred();
	if (vp_run_finalizers()) g_alive_mem = 0;
	vp_run_deferred();
	if (vp_run_finalizers()) g_alive_mem = 0;

	VP_ASSERT(g_connected_seen <= 1, "C19: BEV_EVENT_CONNECTED reported more than once");
	VP_ASSERT(g_connected_seen + g_conn_error_seen <= 1, "C19: a connect attempt reported both CONNECTED and ERROR (or twice)");
	VP_ASSERT(!g_order_bad, "C19: read/write callback before the connection was reported, or CONNECTED without a connect");
	VP_ASSERT(g_rd_end_events <= 1 && g_wr_end_events <= C19_MAX_WR_END, "C19: EOF/ERROR reported more than once for a direction");
	VP_ASSERT(!g_data_cb_after_end, "C19: read callback after EOF/ERROR was reported for reading");
	VP_ASSERT(!g_alive_mem, "C19: bufferevent never released after bufferevent_free (reference leak)");
	VP_ASSERT(vp_fin_scheduled == 1 && vp_fin_ran == 1, "C19: finalizer must run exactly once");
	VP_ASSERT(vp_free_calls == 1 && vp_sink_free_calls == 2, "C19: bufferevent memory / evbuffers not released exactly once");
	VP_ASSERT(vp_defq_n == 0, "C19: deferred callback still queued after the bufferevent is gone");
	VP_ASSERT_NO_LOCKS("teardown");
#ifdef C19_EXPECT_LOG
	{
		/* the exact callback sequence the scenario must produce: pairs (kind, event flags) */
		static const int want[] = { C19_EXPECT_LOG, 0 };
#ifdef C19_EXPECT_EMPTY
		unsigned n = 0, k;
#else
		unsigned n = (sizeof(want) / sizeof(want[0]) - 1) / 2, k;
#endif
		VP_ASSERT((unsigned)u_nlog == n, "C19: number of callbacks differs from the scenario's expectation");
		for (k = 0; k < n && k < U_NLOG; k++)
			VP_ASSERT(u_log[k].kind == want[2 * k] && u_log[k].what == (short)want[2 * k + 1], "C19: callback order/flags differ from the order in which the conditions arose");
	}
#endif
	VP_WITNESS("scenario done");
}
