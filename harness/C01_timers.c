/* C01 (b),(c),(d) -- step obligations on the real timer code of event.c, constructed
 * base (env/evbase.h), virtual clock vp_now.
 *   harness_deadline   (b) event_add / event_add_nolock_(absolute): deadline == now (+) tv
 *   harness_expiry     (c) timeout_next + timeout_process from ANY valid heap of C01_NH timers
 *   harness_persist    (d) event_persist_closure re-arm rule
 * Values: seconds in [0,2^31), microseconds in [0,10^6) (the library's own precondition
 * for timeval arguments), everything else solver-chosen.
 */
#include "vp.h"
#include "log_stub.h"
#include "locks.h"
#define VP_HAVE_EVENT_C
#include "alloc.h"
#include "event.c"
#include "evbase.h"

#ifndef C01_READD_PERSIST
#define C01_READD_PERSIST 0
#endif
#define SEC_MAX 0x7fffffffULL
/* reference arithmetic on normalised timevals (add/sub with carry; no 64-bit multiplications:
 * converting to a microsecond count costs the SAT solver minutes) */
static struct timeval r_add(struct timeval a, struct timeval b)
{
	struct timeval r; r.tv_sec = a.tv_sec + b.tv_sec; r.tv_usec = a.tv_usec + b.tv_usec;
	if (r.tv_usec >= 1000000) { r.tv_sec++; r.tv_usec -= 1000000; }
	return r;
}
static int r_lt(struct timeval a, struct timeval b) { return a.tv_sec < b.tv_sec || (a.tv_sec == b.tv_sec && a.tv_usec < b.tv_usec); }
static int r_eq(struct timeval a, struct timeval b) { return a.tv_sec == b.tv_sec && a.tv_usec == b.tv_usec; }
/* max(0, a - b) */
static struct timeval r_sub0(struct timeval a, struct timeval b)
{
	struct timeval r = { 0, 0 };
	if (!r_lt(b, a)) return r;
	r.tv_sec = a.tv_sec - b.tv_sec; r.tv_usec = a.tv_usec - b.tv_usec;
	if (r.tv_usec < 0) { r.tv_sec--; r.tv_usec += 1000000; }
	return r;
}
static void sym_tv(struct timeval *tv)
{
	tv->tv_sec = (long)vp_range(0, SEC_MAX);
	tv->tv_usec = (long)vp_range(0, 999999);
}
static int tv_le(const struct timeval *a, const struct timeval *b)
{
	return a->tv_sec < b->tv_sec || (a->tv_sec == b->tv_sec && a->tv_usec <= b->tv_usec);
}
static int tv_norm(const struct timeval *a) { return a->tv_usec >= 0 && a->tv_usec < 1000000; }

static int ncb; static short cb_res; static struct timeval cb_at;
static void user_cb(evutil_socket_t fd, short res, void *arg) { (void)fd; (void)arg; ncb++; cb_res = res; cb_at = vp_now; }

/* ---------------------------------------------------------------- (b) */
void harness_deadline(void)
{
	struct event_base *base = vp_base_new(1, 0);
	struct event ev;
	struct timeval tv, out, expect;
	int absolute = vp_bool(), persist = vp_bool(), r;

	r = min_heap_reserve_(&base->timeheap, 4);
	__CPROVER_assume(r == 0);
	sym_tv(&vp_now);
	sym_tv(&tv);
	event_assign(&ev, base, -1, persist ? EV_PERSIST : 0, user_cb, NULL);
	if (absolute) {
		EVBASE_ACQUIRE_LOCK(base, th_base_lock);
		r = event_add_nolock_(&ev, &tv, 1);
		EVBASE_RELEASE_LOCK(base, th_base_lock);
		expect = tv;
	} else {
		r = event_add(&ev, &tv);
		expect = r_add(vp_now, tv);
	}
	VP_ASSERT(r == 0, "C01: event_add with a timeout succeeds");
	VP_ASSERT(ev.ev_timeout.tv_sec == expect.tv_sec && ev.ev_timeout.tv_usec == expect.tv_usec,
	    "C01: deadline must be exactly now + timeout (normalised), or the absolute time given");
	VP_ASSERT(tv_norm(&ev.ev_timeout), "C01: deadline microseconds out of range");
	VP_ASSERT((ev.ev_flags & EVLIST_TIMEOUT) && min_heap_top_(&base->timeheap) == &ev && min_heap_size_(&base->timeheap) == 1,
	    "C01: the timer must be pending in the heap");
	if (persist && !absolute)
		VP_ASSERT(ev.ev_io_timeout.tv_sec == tv.tv_sec && ev.ev_io_timeout.tv_usec == tv.tv_usec, "C01: persistent timer must remember its interval");
	r = event_pending(&ev, EV_TIMEOUT, &out);
	VP_ASSERT(r == EV_TIMEOUT, "C01: event_pending reports the timeout");
	{	/* reported on the wall clock: deadline + (wall - monotonic) as sampled by gettime() */
		struct timeval diff, rep;
		diff.tv_sec = vp_wall.tv_sec - vp_now.tv_sec; diff.tv_usec = vp_wall.tv_usec - vp_now.tv_usec;
		if (diff.tv_usec < 0) { diff.tv_sec--; diff.tv_usec += 1000000; }
		rep = r_add(diff, expect);
		VP_ASSERT(r_eq(out, rep), "C01: event_pending reports the deadline (mapped to the wall clock)");
	}
	/* never early: a loop iteration strictly before the deadline must not run it, one at the deadline must */
	{
		struct timeval *tv_p = &out;
		EVBASE_ACQUIRE_LOCK(base, th_base_lock);
		timeout_next(base, &tv_p);
		EVBASE_RELEASE_LOCK(base, th_base_lock);
		VP_ASSERT(tv_p == &out, "C01: timeout_next with a pending timer gives a bounded wait");
		VP_ASSERT(r_eq(out, r_sub0(expect, vp_now)), "C01: wait time must be max(0, deadline - now)");
	}
	if (absolute) VP_WITNESS("absolute"); else VP_WITNESS("relative");
	if (persist) VP_WITNESS("persist");
}

/* ---------------------------------------------------------------- (c) */
#ifndef C01_NH
#define C01_NH 3
#endif
#define HCAP (C01_NH + 1)
static struct event T0, T1, T2, T3, T4;
static struct event *const tp[5] = { &T0, &T1, &T2, &T3, &T4 };
static struct event *hp[HCAP];
static struct timeval dl[5];

void harness_expiry(void)
{
	struct event_base *base = vp_base_new(1, 0);
	struct timeval tv, *tv_p = &tv, min;
	int i, ndue = 0, nleft = 0;
	struct event_callback *q;
	struct timeval prev; int have_prev = 0, nq = 0;

	/* ANY valid heap of C01_NH timers (see C01_minheap.c for the invariant) */
	for (i = 0; i < C01_NH; i++) {
		event_assign(tp[i], base, -1, 0, user_cb, NULL);
		sym_tv(&tp[i]->ev_timeout);
		dl[i] = tp[i]->ev_timeout;
		if (i > 0) __CPROVER_assume(tv_le(&tp[(i - 1) / 2]->ev_timeout, &tp[i]->ev_timeout));
		tp[i]->ev_timeout_pos.min_heap_idx = (size_t)i;
		tp[i]->ev_flags = EVLIST_INIT | EVLIST_TIMEOUT;
		hp[i] = tp[i];
	}
	base->timeheap.p = hp; base->timeheap.n = C01_NH; base->timeheap.a = HCAP;
	base->event_count = C01_NH; base->event_count_max = C01_NH;
	sym_tv(&vp_now);

	EVBASE_ACQUIRE_LOCK(base, th_base_lock);
	timeout_next(base, &tv_p);
	if (C01_NH == 0) {
		VP_ASSERT(tv_p == NULL, "C01: no timers: the wait is unbounded");
	} else {
		min = dl[0];
		for (i = 1; i < C01_NH; i++) if (!tv_le(&min, &dl[i])) min = dl[i];
		VP_ASSERT(tv_p == &tv, "C01: timers pending: the wait is bounded");
		VP_ASSERT(tv_norm(&tv) && tv.tv_sec >= 0, "C01: wait time must be a normalised non-negative timeval");
		VP_ASSERT(r_eq(tv, r_sub0(min, vp_now)), "C01: wait time must be max(0, earliest deadline - now): never late, never negative");
	}
	timeout_process(base);
	EVBASE_RELEASE_LOCK(base, th_base_lock);

	for (i = 0; i < C01_NH; i++) {
		int due = tv_le(&dl[i], &vp_now);
		VP_ASSERT(tp[i]->ev_timeout.tv_sec == dl[i].tv_sec && tp[i]->ev_timeout.tv_usec == dl[i].tv_usec, "C01: expiry processing changed a deadline");
		if (due) {
			ndue++;
			VP_ASSERT((tp[i]->ev_flags & EVLIST_ACTIVE) && tp[i]->ev_res == EV_TIMEOUT, "C01: a timer whose deadline is <= now must be activated with EV_TIMEOUT (late)");
			VP_ASSERT(!(tp[i]->ev_flags & EVLIST_TIMEOUT) && tp[i]->ev_timeout_pos.min_heap_idx == EV_SIZE_MAX, "C01: a fired one-shot timer must leave the heap (fires once)");
		} else {
			nleft++;
			VP_ASSERT(!(tp[i]->ev_flags & (EVLIST_ACTIVE | EVLIST_ACTIVE_LATER)), "C01: a timer fired before its deadline (early)");
			VP_ASSERT((tp[i]->ev_flags & EVLIST_TIMEOUT) && tp[i]->ev_timeout_pos.min_heap_idx < (size_t)C01_NH, "C01: a timer that is not due must stay pending");
		}
	}
	/* remaining heap: size, back pointers, order */
	VP_ASSERT(min_heap_size_(&base->timeheap) == (size_t)nleft, "C01: heap size after expiry");
	for (i = 0; i < C01_NH; i++) if (i < nleft) {
		struct event *e = hp[i];
		VP_ASSERT(e->ev_timeout_pos.min_heap_idx == (size_t)i, "C01: heap index consistency after expiry");
		if (i > 0) VP_ASSERT(tv_le(&hp[(i - 1) / 2]->ev_timeout, &e->ev_timeout), "C01: heap order after expiry");
	}
	VP_ASSERT(base->event_count == C01_NH && base->event_count_active == ndue, "C01: event counters after expiry");
	/* activation order == order of the active queue: non-decreasing deadlines */
	for (q = TAILQ_FIRST(&base->activequeues[0]); q; q = TAILQ_NEXT(q, evcb_active_next)) {
		struct event *e = event_callback_to_event(q);
		if (have_prev) VP_ASSERT(tv_le(&prev, &e->ev_timeout), "C01: due timers of one priority must be activated in non-decreasing deadline order");
		prev = e->ev_timeout; have_prev = 1; nq++;
	}
	VP_ASSERT(nq == ndue, "C01: active queue length == number of due timers");
	if (ndue == C01_NH) VP_WITNESS("all due");
	if (ndue == 0) VP_WITNESS("none due");
#if C01_NH >= 2
	if (ndue > 0 && ndue < C01_NH) VP_WITNESS("some due");
#endif
}

/* ---------------------------------------------------------------- (d) */
#ifndef C01_BY_TIMEOUT
#define C01_BY_TIMEOUT 1
#endif
void harness_persist(void)
{
	struct event_base *base = vp_base_new(1, 0);
	struct event ev;
	struct timeval prev, interval, e;
	const int by_timeout = C01_BY_TIMEOUT;   /* two obligations: whether the timer is in the heap is structure */
	int r;

	r = min_heap_reserve_(&base->timeheap, 4);
	__CPROVER_assume(r == 0);
	sym_tv(&vp_now); sym_tv(&prev); sym_tv(&interval);
	__CPROVER_assume(interval.tv_sec != 0 || interval.tv_usec != 0);
	event_assign(&ev, base, -1, EV_PERSIST, user_cb, NULL);
	ev.ev_io_timeout = interval;
	ev.ev_timeout = prev;
	EVBASE_ACQUIRE_LOCK(base, th_base_lock);
	if (by_timeout) {
		/* state in which event_process_active_single_queue calls the closure after
		 * timeout_process fired the timer: out of the heap, result EV_TIMEOUT;
		 * a timer only fires at or after its deadline */
		__CPROVER_assume(tv_le(&prev, &vp_now));
		ev.ev_res = EV_TIMEOUT;
	} else {
		/* activated for another reason (event_active) while the timer is still pending */
		r = event_add_nolock_(&ev, &prev, 1);
		__CPROVER_assume(r == 0);
		ev.ev_res = EV_READ;
	}
	event_persist_closure(base, &ev);    /* returns with the lock released */

	e = r_add(by_timeout ? prev : vp_now, interval);
	if (r_lt(e, vp_now)) e = r_add(vp_now, interval);
	VP_ASSERT(ncb == 1 && cb_res == (by_timeout ? EV_TIMEOUT : EV_READ), "C01: the user callback runs exactly once with the activation result");
	VP_ASSERT(tv_norm(&ev.ev_timeout), "C01: re-armed deadline must be normalised");
	VP_ASSERT(r_eq(ev.ev_timeout, e), "C01: persistent timer must re-arm at previous deadline + interval, or now + interval if that is already past / the activation was not a timeout");
	VP_ASSERT((ev.ev_flags & EVLIST_TIMEOUT) && min_heap_top_(&base->timeheap) == &ev && min_heap_size_(&base->timeheap) == 1, "C01: re-armed timer must be pending exactly once");
	VP_ASSERT(r_eq(ev.ev_io_timeout, interval), "C01: the interval must survive re-arming");
	VP_ASSERT(!r_lt(ev.ev_timeout, vp_now), "C01: a re-armed deadline is never in the past");
#if C01_BY_TIMEOUT
	if (!r_lt(r_add(prev, interval), vp_now)) VP_WITNESS("re-armed relative to the previous deadline");
	if (r_lt(r_add(prev, interval), vp_now)) VP_WITNESS("missed: re-armed relative to now");
#else
	VP_WITNESS("not a timeout: re-armed relative to now");
#endif
}

/* ---------------------------------------------------------------- re-add replaces the firing */
/* A timer that has already expired and sits on the active queue (EV_TIMEOUT), but whose callback has
 * not run yet, is re-added: the stale firing must be dropped, the new deadline is now + tv2. */
void harness_readd_step(void)
{
	struct event_base *base = vp_base_new(1, 0);
	struct event ev;
	struct timeval d1, tv2, expect;
	int r;

	r = min_heap_reserve_(&base->timeheap, 4);
	__CPROVER_assume(r == 0);
	sym_tv(&vp_now); sym_tv(&tv2);
	sym_tv(&d1);
	__CPROVER_assume(tv_le(&d1, &vp_now));            /* the first deadline has passed */
	event_assign(&ev, base, -1, C01_READD_PERSIST ? EV_PERSIST : 0, user_cb, NULL);
	EVBASE_ACQUIRE_LOCK(base, th_base_lock);
	r = event_add_nolock_(&ev, &d1, 1);
	__CPROVER_assume(r == 0);
	/* exactly what timeout_process() does for a due, inactive timer (called directly: the "is it
	 * due?" test on symbolic values would merge a due and a not-due state, and the merged heap size
	 * sends symex into realloc(symbolic) -- measured OOM; due-ness itself is the expiry step's subject) */
	event_del_nolock_(&ev, EVENT_DEL_NOBLOCK);
	event_active_nolock_(&ev, EV_TIMEOUT, 1);
	EVBASE_RELEASE_LOCK(base, th_base_lock);
	VP_ASSERT((ev.ev_flags & EVLIST_ACTIVE) && ev.ev_res == EV_TIMEOUT, "C01: harness: expired timer is active");
	r = event_add(&ev, &tv2);                         /* ... and is re-added before its callback ran */
	VP_ASSERT(r == 0, "C01: re-add succeeds");
	expect = r_add(vp_now, tv2);
	VP_ASSERT(!(ev.ev_flags & (EVLIST_ACTIVE | EVLIST_ACTIVE_LATER)), "C01: re-adding a timer must replace its pending firing (it is still on the active queue)");
	VP_ASSERT(base->event_count_active == 0 && TAILQ_FIRST(&base->activequeues[0]) == NULL, "C01: re-add must leave no stale activation queued");
	VP_ASSERT((ev.ev_flags & EVLIST_TIMEOUT) && r_eq(ev.ev_timeout, expect) && min_heap_top_(&base->timeheap) == &ev && min_heap_size_(&base->timeheap) == 1,
	    "C01: re-added timer must be pending exactly once at now + new timeout");
	VP_ASSERT(ncb == 0, "C01: no callback ran");
	VP_WITNESS("re-added while active");
}

/* The same through the real loop: timers A (priority 0) and B (priority 1) expire in the same iteration,
 * A's callback re-adds B with 5 s; B must not run in that loop call, and must run exactly once 5 s later. */
static struct event RA, RB; static int n_a, n_b; static struct timeval b_at;
static void rb_cb(evutil_socket_t fd, short res, void *arg) { (void)fd; (void)arg; n_b++; b_at = vp_now; VP_ASSERT(res == EV_TIMEOUT, "C01: timer callback result"); }
static void ra_cb(evutil_socket_t fd, short res, void *arg)
{
	static const struct timeval five = { 5, 0 };
	(void)fd; (void)res; (void)arg;
	n_a++;
	VP_ASSERT(event_add(&RB, &five) == 0, "C01: re-add from a callback");
}
void harness_readd_loop(void)
{
	struct event_base *base = vp_base_new(2, 1);
	static const struct timeval t20 = { 0, 20000 }, t21 = { 0, 21000 };
	int r;
	r = min_heap_reserve_(&base->timeheap, 4);
	__CPROVER_assume(r == 0);
	event_assign(&RA, base, -1, 0, ra_cb, NULL); event_priority_set(&RA, 0);
	event_assign(&RB, base, -1, C01_READD_PERSIST ? EV_PERSIST : 0, rb_cb, NULL); event_priority_set(&RB, 1);
	VP_ASSERT(event_add(&RA, &t20) == 0 && event_add(&RB, &t21) == 0, "C01: add");
	vp_now.tv_usec += 60000;                           /* both have expired when the loop runs */
	r = event_base_loop(base, EVLOOP_NONBLOCK);
	VP_ASSERT(r == 0, "C01: loop");
	VP_ASSERT(n_a == 1, "C01: timer A fired once");
	VP_ASSERT(n_b == 0, "C01: a timer re-added before its callback ran must not fire at the old deadline");
	VP_ASSERT(event_pending(&RB, EV_TIMEOUT, NULL) == EV_TIMEOUT, "C01: the re-added timer is pending");
	vp_now.tv_sec += 4;
	r = event_base_loop(base, EVLOOP_NONBLOCK);
	VP_ASSERT(n_b == 0, "C01: re-added timer fired before its new deadline");
	vp_now.tv_sec += 1;
	r = event_base_loop(base, EVLOOP_NONBLOCK);
	VP_ASSERT(n_b == 1 && n_a == 1, "C01: re-added timer fires exactly once at its new deadline");
	VP_ASSERT_NO_LOCKS("event_base_loop");
	VP_WITNESS("re-added from a callback");
}
