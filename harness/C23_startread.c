/* C23 (f): pipelining hand-over, unit step.  The real evhttp_start_read_()
 * (called when a connection starts waiting for the next message, e.g. after a
 * reply was written on a persistent server connection): bytes of the next
 * request that are ALREADY in the input buffer produce no further read event
 * from the socket, so they must be scheduled for parsing (deferred read
 * callback), otherwise a pipelined request that arrived in the same segment as
 * its predecessor is never served -- message handling would depend on how the
 * stream was segmented.  Whole pipelining flows stay outside the claim (OUT).
 * bufferevent / deferred-callback functions are recorders.
 */
#include "vp.h"
#include "log_stub.h"
#include "http_fmt.h"
#include "http_alloc.h"
#include "http_evutil.h"
#include "http.c"

struct evbuffer { size_t len; };
static struct evbuffer vp_in;
static struct bufferevent vp_bev;
static int vp_enable_read, vp_disable_write, vp_setcb, vp_sched, vp_readcb_ok;
struct evbuffer *bufferevent_get_input(struct bufferevent *b) { (void)b; return &vp_in; }
size_t evbuffer_get_length(const struct evbuffer *b) { return b->len; }
int bufferevent_enable(struct bufferevent *b, short ev) { (void)b; if (ev & EV_READ) vp_enable_read++; return 0; }
int bufferevent_disable(struct bufferevent *b, short ev) { (void)b; if (ev & EV_WRITE) vp_disable_write++; return 0; }
void bufferevent_setcb(struct bufferevent *b, bufferevent_data_cb r, bufferevent_data_cb w, bufferevent_event_cb e, void *arg)
{ (void)b; (void)w; (void)arg; vp_setcb++; vp_readcb_ok = (r == evhttp_read_cb && e == evhttp_error_cb); }
static struct event_callback *vp_sched_cb;
int event_deferred_cb_schedule_(struct event_base *base, struct event_callback *cb) { (void)base; vp_sched++; vp_sched_cb = cb; return 1; }

void harness_startread(void)
{
	struct evhttp_connection evcon;
	static const enum evhttp_connection_state st[] = { EVCON_IDLE, EVCON_WRITING, EVCON_READING_TRAILER, EVCON_READING_BODY };
	memset(&evcon, 0, sizeof(evcon));
	evcon.bufev = &vp_bev;
	evcon.state = st[vp_range(0, 3)];
	evcon.flags = vp_bool() ? EVHTTP_CON_INCOMING : EVHTTP_CON_OUTGOING;
	vp_in.len = vp_size();

	evhttp_start_read_(&evcon);

	VP_ASSERT(evcon.state == EVCON_READING_FIRSTLINE, "C23: connection waits for a first line");
	VP_ASSERT(vp_enable_read == 1 && vp_setcb == 1 && vp_readcb_ok, "C23: reading enabled with the HTTP read/error callbacks");
	VP_ASSERT(vp_sched == (vp_in.len > 0 ? 1 : 0), "C23: bytes of the next message already buffered are scheduled for parsing exactly once (a pipelined request in the same segment must be served)");
	if (vp_sched) VP_ASSERT(vp_sched_cb == &evcon.read_more_deferred_cb, "C23: the connection's deferred read callback is the one scheduled");
	if (vp_in.len > 0) VP_WITNESS("buffered bytes scheduled"); else VP_WITNESS("nothing buffered, wait for the socket");
}
