/* C17 -- byte stream through paired bufferevents: bufferevent.c + bufferevent_pair.c (real code), sink evbuffer in BYTE
 * mode (<= 8 bytes per buffer, contents symbolic), recording event stubs.
 *   harness_pair_stream : A writes d1 then d2 (lengths/bytes symbolic); the partner reads (enabled before, between or
 *                         after the writes: -DC17_WHEN), has a symbolic read high-water mark, and its application takes
 *                         k bytes out; at every point  consumed ++ partner.input ++ A.output == d1 ++ d2  (order, no
 *                         loss, no duplication) and the partner's input respects its high mark
 *   harness_pair_finish : A queues data and calls bufferevent_flush(A, EV_WRITE, BEV_FINISHED): the partner gets the
 *                         data callback (all bytes) and then EOF|READING, once
 */
#ifndef VP_SINK_BYTES
#define VP_SINK_BYTES 8
#endif
#include "vp.h"
#include "log_stub.h"
#include "locks.h"
#include "alloc.h"
#include "bev_pre.h"
#include "bufferevent.c"
#include "bufferevent_pair.c"
#define VP_SINK_DISPATCH(fn, b, i, a) do { \
	if ((fn) == bufferevent_inbuf_wm_cb) bufferevent_inbuf_wm_cb((b), (i), (a)); \
	else if ((fn) == be_pair_outbuf_cb) be_pair_outbuf_cb((b), (i), (a)); \
	else VP_ASSERT(0, "harness: unknown evbuffer callback"); } while (0)
#include "evbuf_sink.h"
#include "bev_env.h"
#include "bev_user.h"

const struct bufferevent_ops bufferevent_ops_socket = { "socket-not-linked", 0, NULL, NULL, NULL, NULL, NULL, NULL, NULL };
const struct bufferevent_ops bufferevent_ops_filter = { "filter-not-linked", 0, NULL, NULL, NULL, NULL, NULL, NULL, NULL };

#define A 0
#define P 1
#define N VP_SINK_BYTES
#define U_MARK 0x100
#ifndef C17_WHEN
#define C17_WHEN 0      /* 0: partner reads from the start, 1: enabled between the writes, 2: enabled after both */
#endif

static unsigned char all[N]; static size_t tot;
static unsigned char taken[N]; static size_t ntaken;

static void setup_pair(void)
{
	static int base_obj;
	struct bufferevent *pair[2];
	int r = bufferevent_pair_new((struct event_base *)&base_obj, 0, pair);
	__CPROVER_assume(r == 0);
	u_install(0, pair[0]); u_install(1, pair[1]);
	/* deferred callbacks already queued (reference counts stay concrete, see C18_pair.c) */
	bufferevent_trigger_event(pair[0], U_MARK, 0);
	bufferevent_trigger_event(pair[1], U_MARK, 0);
	bufferevent_setwatermark(pair[P], EV_READ, 0, 1);       /* watermark callback installed with concrete marks first */
}
/* consumed ++ partner.input ++ A.output == all[0..tot) */
static void check_stream(void)
{
	size_t li = evbuffer_get_length(u_bev[P]->input), lo = evbuffer_get_length(u_bev[A]->output), i;
	VP_ASSERT(ntaken + li + lo == tot, "C17: bytes lost or duplicated between the two ends");
	for (i = 0; i < N; i++) {
		if (i < ntaken) VP_ASSERT(taken[i] == all[i], "C17: bytes read by the application differ from the bytes written (order)");
		else if (i < ntaken + li) VP_ASSERT(vp_sink_at(u_bev[P]->input, i - ntaken) == all[i], "C17: bytes in the partner's input differ from the bytes written (order)");
		else if (i < tot) VP_ASSERT(vp_sink_at(u_bev[A]->output, i - ntaken - li) == all[i], "C17: bytes still queued differ from the bytes written (order)");
	}
	VP_ASSERT_NO_LOCKS("pair operation");
}

void harness_pair_stream(void)
{
	unsigned char d1[N], d2[N];
	size_t n1 = (size_t)vp_range(1, N / 2), n2 = (size_t)vp_range(1, N / 2), high = (size_t)vp_range(0, N + 1), k, i, before;
	setup_pair();
	vp_bytes(d1, N); vp_bytes(d2, N);
	for (i = 0; i < N; i++) all[i] = i < n1 ? d1[i] : (i - n1 < n2 ? d2[i - n1] : 0);
	bufferevent_setwatermark(u_bev[P], EV_READ, 0, high);
	if (C17_WHEN == 0) bufferevent_enable(u_bev[P], EV_READ);
	tot = n1;
	VP_ASSERT(bufferevent_write(u_bev[A], d1, n1) == 0, "C17: bufferevent_write failed");
	check_stream();
	if (C17_WHEN == 1) { bufferevent_enable(u_bev[P], EV_READ); check_stream(); }
	tot = n1 + n2;
	VP_ASSERT(bufferevent_write(u_bev[A], d2, n2) == 0, "C17: bufferevent_write failed");
	check_stream();
	if (C17_WHEN == 2) { bufferevent_enable(u_bev[P], EV_READ); check_stream(); }
	/* everything deliverable has been delivered: either nothing is queued any more or the partner is at its high mark */
	VP_ASSERT(evbuffer_get_length(u_bev[A]->output) == 0 || (high != 0 && evbuffer_get_length(u_bev[P]->input) >= high), "C17: written bytes held back although the partner reads and is below its high-water mark");
	VP_ASSERT(high == 0 || evbuffer_get_length(u_bev[P]->input) <= high, "C18: the partner's input passed its high read watermark");
	/* the partner's application takes k bytes: the stream continues */
	k = (size_t)vp_range(0, N);
	before = evbuffer_get_length(u_bev[P]->input);
	ntaken = bufferevent_read(u_bev[P], taken, k);
	VP_ASSERT(ntaken == (k < before ? k : before), "C17: bufferevent_read count");
	check_stream();
	VP_ASSERT(evbuffer_get_length(u_bev[A]->output) == 0 || (high != 0 && evbuffer_get_length(u_bev[P]->input) >= high), "C17: held-back bytes not delivered after the application drained below the high-water mark");
	VP_ASSERT(u_nlog == 0, "C19: pair callbacks must be deferred");
	vp_run_deferred();
	VP_ASSERT(u_reads[P] == 1 && u_events[P] == 1 && u_last_what[P] == U_MARK, "C17: the partner must get exactly one (coalesced) data callback and no EOF/error");
	if (ntaken && evbuffer_get_length(u_bev[A]->output)) VP_WITNESS("stream continues after the application drained");
	if (high && evbuffer_get_length(u_bev[A]->output)) VP_WITNESS("bytes held back by the high-water mark");
	if (evbuffer_get_length(u_bev[A]->output) == 0 && ntaken == tot) VP_WITNESS("everything written was read");
}

void harness_pair_finish(void)
{
	unsigned char d1[N], got[N];
	size_t n1 = (size_t)vp_range(1, N / 2), i, n;
	int reads_partner = vp_bool(), r;
	setup_pair();
	bufferevent_setwatermark(u_bev[P], EV_READ, 0, 0);
	vp_bytes(d1, N);
	if (reads_partner) bufferevent_enable(u_bev[P], EV_READ);
	VP_ASSERT(bufferevent_write(u_bev[A], d1, n1) == 0, "C17: bufferevent_write failed");
	r = bufferevent_flush(u_bev[A], EV_WRITE, BEV_FINISHED);
	VP_ASSERT(r == 0, "C17: bufferevent_flush(BEV_FINISHED) on a pair failed");
	VP_ASSERT(evbuffer_get_length(u_bev[A]->output) == 0 && evbuffer_get_length(u_bev[P]->input) == n1, "C17: BEV_FINISHED must hand over everything that was written before it");
	VP_ASSERT(u_nlog == 0, "C19: pair callbacks must be deferred");
	vp_run_deferred();
	/* partner: marker event and data first (one deferred run reports read before events), then EOF */
	VP_ASSERT(u_reads[P] == 1, "C17: data callback missing before EOF");
	VP_ASSERT(u_events[P] == 1 && u_last_what[P] == (U_MARK | BEV_EVENT_EOF | BEV_EVENT_READING), "C17: EOF|READING must be reported to the partner exactly once");
	{ int ir = -1, ie = -1, j; for (j = 0; j < U_NLOG && j < u_nlog; j++) { if (u_log[j].who == P && u_log[j].kind == U_READ) ir = j; if (u_log[j].who == P && u_log[j].kind == U_EVENT) ie = j; }
	  VP_ASSERT(ir >= 0 && ie > ir && u_log[ir].in_len == n1, "C17: EOF reported before the bytes written ahead of it were delivered"); }
	n = bufferevent_read(u_bev[P], got, N);
	VP_ASSERT(n == n1, "C17: byte count after finish");
	for (i = 0; i < N; i++) if (i < n1) VP_ASSERT(got[i] == d1[i], "C17: bytes delivered before EOF differ from the bytes written");
	vp_run_deferred();
	VP_ASSERT(u_events[P] == 1, "C17: EOF reported twice");
	VP_ASSERT_NO_LOCKS("pair finish");
	VP_WITNESS("data then EOF");
}
