/* C11: event_reinit() as executed by a forked child.  fork() itself cannot be
 * executed symbolically; what is encoded is the child's side: the same memory
 * image, and a kernel model (env/kernel_io.h vp_k_fork()) in which every open
 * file description -- in particular the epoll instance and the notification
 * pipes -- is now shared with the parent: closing the child's descriptor does
 * not remove anything from an interest list, and epoll_ctl on the old epfd
 * would edit the parent's registrations.
 *
 * Real code in the unit: event.c (event_reinit, event_add/del, loop), evmap.c
 * (evmap_reinit_), epoll.c (direct or changelist), signal.c, signalfd.c.
 *
 * State before the fork (through the API): I/O events ev0 (fd A), ev1 (fd B)
 * with symbolic interest masks, a signal event sv (signal A), each added or
 * not as the obligation says; optionally the base is notifiable (th_notify).
 */
#include "event_struct_nounion.h"
#include "vp.h"
#include "log_stub.h"
#ifndef VP_LOCKS_ON
#define VP_LOCKS_OFF
#endif
#include "locks.h"
#define VP_HAVE_EVENT_C
#include "alloc.h"
#define VP_NFD 12
#include "kernel_io.h"
/* event_reinit() clears base->sig.ev_signal with memset(); cbmc's memset model on a sub-object turns the whole
 * (typed) event_base into a byte-updated blob and every list head / function pointer in it stops being foldable
 * (symex then wanders into watchers, common timeouts ...).  A memset of exactly one struct event / struct
 * event_callback with 0 is done as a typed assignment instead; everything else goes to the library memset. */
#include <string.h>
static void *vp_memset_typed(void *p, int c, size_t n)
{
	if (c == 0 && n == sizeof(struct event)) { static const struct event z; *(struct event *)p = z; return p; }
	if (c == 0 && n == sizeof(struct event_callback)) { static const struct event_callback z; *(struct event_callback *)p = z; return p; }
	return (memset)(p, c, n);
}
#define memset(p, c, n) vp_memset_typed((p), (c), (n))
#include "event.c"
#undef memset
#include "typed_alloc.h"
#undef mm_realloc
#undef mm_calloc
#define mm_realloc(p, sz) vp_realloc_evmap((p), (sz))
#define mm_calloc(n, sz) vp_calloc_evmap((n), (sz))
#include "evmap.c"
#include "typed_evmap.h"
#undef mm_realloc
#undef mm_calloc
#define mm_calloc(n, sz) event_mm_calloc_((n), (sz))
#define mm_realloc(p, sz) event_mm_realloc_((p), (sz))
/* epoll.c's two allocations, typed (struct epollop, struct epoll_event[32]) */
static void *vp_calloc_epoll(size_t n, size_t sz);
#undef mm_calloc
#define mm_calloc(n, sz) vp_calloc_epoll((n), (sz))
#include "epoll.c"
#undef mm_calloc
#define mm_calloc(n, sz) event_mm_calloc_((n), (sz))
static void *vp_calloc_epoll(size_t n, size_t sz)
{
	void *q;
	if (n == 1 && sz == sizeof(struct epollop)) q = calloc(1, sizeof(struct epollop));
	else if (n == INITIAL_NEVENT && sz == sizeof(struct epoll_event)) q = calloc(INITIAL_NEVENT, sizeof(struct epoll_event));
	else q = calloc(n, sz);
	__CPROVER_assume(q != NULL);
	return q;
}
#define VP_HAVE_SIGNAL_C
#define VP_HAVE_EVUTIL_C
/* ---- evutil helpers on the kernel model's descriptor table ------------------- */
const char *evutil_getenv_(const char *name) { (void)name; return NULL; }
char *getenv(const char *name) { (void)name; return NULL; }
int vp_pipe_fail;
int evutil_make_internal_pipe_(evutil_socket_t fd[2])
{
	if (vp_pipe_fail) { fd[0] = fd[1] = -1; return -1; }
	fd[0] = vp_k_alloc_fd(VP_K_PIPE_R);
	fd[1] = vp_k_alloc_fd(VP_K_PIPE_W);
	VP_ASSERT(fd[0] >= 0 && fd[1] >= 0, "harness bound: descriptor table of the model exhausted");
	return 0;
}
evutil_socket_t evutil_eventfd_(unsigned initval, int flags) { (void)initval; (void)flags; if (vp_pipe_fail) return -1; return vp_k_alloc_fd(VP_K_EVENTFD); }
int evutil_closesocket(evutil_socket_t s) { return vp_k_do_close(s); }
int evutil_make_socket_closeonexec(evutil_socket_t fd) { (void)fd; return 0; }
int evutil_global_setup_locks_(const int enable_locks) { (void)enable_locks; return 0; }
int evutil_secure_rng_global_setup_locks_(const int enable_locks) { (void)enable_locks; return 0; }
void evutil_free_globals_(void) {}
#include "evbase.h"
#undef mm_malloc
#undef mm_realloc
#define mm_malloc(sz) vp_malloc_signal((sz))
#define mm_realloc(p, sz) vp_realloc_signal((p), (sz))
#include "signal.c"
#include "signalfd.c"
#undef mm_malloc
#undef mm_realloc
#define mm_malloc(sz) event_mm_malloc_((sz))
#define mm_realloc(p, sz) event_mm_realloc_((p), (sz))
#define VP_SIG_ON_KERNEL_IO
#include "sigmodel.h"

#ifdef VP_SIGFD
/* epoll with the signalfd signal mechanism: what event_base_new_with_config() does for EVENT_BASE_FLAG_USE_SIGNALFD
 * (the flag must be in base->flags before the back end's init runs, also when event_reinit() calls init again) */
static void *c11_sigfd_init(struct event_base *b) { b->flags |= EVENT_BASE_FLAG_USE_SIGNALFD; return epoll_init(b); }
static const struct eventop c11_sigfd_ops = { "epoll", c11_sigfd_init, epoll_nochangelist_add, epoll_nochangelist_del, epoll_dispatch, epoll_dealloc,
	1, EV_FEATURE_ET | EV_FEATURE_O1 | EV_FEATURE_EARLY_CLOSE, 0 };
#define C11_OPS (&c11_sigfd_ops)
#else
#define C11_OPS (&epollops)
#endif
#define FD_A 0
#define FD_B 1
#define SIG VP_SIGA
static struct event_base *base;
static struct event ev[2], sv;
static short mask[2];
static int et[2];
static int ncb_io[2], ncb_sig;
static short res_io[2];
static int waits_on_new, waits_on_old;
static int old_epfd = -1;
static struct sigaction orig;
static int ebadf_after_reinit;

#ifndef VP_MASK0
#define VP_MASK0 (EV_READ | EV_CLOSED)
#endif
#ifndef VP_MASK1
#define VP_MASK1 (EV_READ | EV_WRITE)
#endif
#ifndef VP_ET0
#define VP_ET0 0
#endif
#ifndef VP_ET1
#define VP_ET1 1
#endif
#ifndef VP_ADDED       /* bit0 ev0, bit1 ev1, bit2 signal event */
#define VP_ADDED 7
#endif
#ifdef VP_CHANGELIST
#define BASE_FLAGS EVENT_BASE_FLAG_EPOLL_USE_CHANGELIST
#else
#define BASE_FLAGS 0
#endif

static void cb_io(evutil_socket_t fd, short what, void *arg) { int i = *(const int *)arg; (void)fd; ncb_io[i]++; res_io[i] = what; }
static void cb_sig(evutil_socket_t fd, short what, void *arg) { (void)fd; (void)arg; VP_ASSERT(what == EV_SIGNAL, "C11: signal callback flags"); ncb_sig++; }
static const int idx_of[2] = { 0, 1 };

static short want_of(int fd) { return (short)((((VP_ADDED) >> fd) & 1) ? mask[fd] : 0); }

/* the C05 predicate on one epoll instance, for the two application fds and the internal ones */
static void vp_on_wait(int kind)
{
	int k, fd;
	struct epollop *op = base->evbase;
	(void)kind;
	if (vp_k_forked && vp_k_inst_of(vp_k_snap_epfd) != 1) { waits_on_old++; return; }
	waits_on_new++;
	k = vp_k_inst_of(op->epfd);
	VP_ASSERT(k >= 0 && vp_k_snap_epfd == op->epfd, "C11: the loop waits on the base's current epoll instance");
	for (fd = 0; fd < 2; fd++) {
		short want = want_of(fd);
		struct vp_kreg *g = &vp_kep[k].reg[fd];
		VP_ASSERT((g->present != 0) == (want != 0), "C11: fd registered with the (new) epoll instance iff an added event wants it");
		if (g->present) {
			VP_ASSERT((g->events & (EPOLLIN | EPOLLOUT | EPOLLRDHUP)) == vp_k_ev2poll(want), "C11: registered conditions == the added events' conditions");
			VP_ASSERT(((g->events & EPOLLET) != 0) == (et[fd] != 0), "C11: EPOLLET iff requested");
			VP_ASSERT(g->data_fd == fd, "C11: registration carries its own fd");
		}
	}
}

/* what the harness checks right after event_reinit() returned 0 in the child */
static void check_after_reinit(int old_pair0, int old_pair1, int old_notify0)
{
	struct epollop *op = base->evbase;
	int k = vp_k_inst_of(op->epfd), fd;
	VP_ASSERT(k == 1, "C11: the child has its own, new epoll instance (the descriptor number may be the recycled one)");
	/* parent's registrations untouched */
	VP_ASSERT(vp_kep[0].ctl_calls == vp_k_parent_ctl[0], "C11: no epoll_ctl on the parent's (shared) epoll instance after the fork");
	for (fd = 0; fd < VP_NFD; fd++)
		VP_ASSERT(vp_kep[0].reg[fd].present == vp_k_parent_snap[0][fd].present && vp_kep[0].reg[fd].events == vp_k_parent_snap[0][fd].events,
		    "C11: the parent's interest list is unchanged by the child's event_reinit");
	VP_ASSERT(vp_k_ctl_badfd == 0, "C11: no epoll_ctl on a closed epfd/fd");
	VP_ASSERT(!(vp_kf[old_epfd].open && vp_kf[old_epfd].shared), "C11: the child closed its copy of the parent's epoll descriptor");
#ifndef VP_CHANGELIST
	for (fd = 0; fd < 2; fd++) {
		short want = want_of(fd);
		VP_ASSERT((vp_kep[k].reg[fd].present != 0) == (want != 0), "C11: every I/O event added before the fork is registered with the new instance");
		if (want) VP_ASSERT((vp_kep[k].reg[fd].events & (EPOLLIN | EPOLLOUT | EPOLLRDHUP)) == vp_k_ev2poll(want), "C11: ... with its conditions");
	}
#endif
	/* signals */
#ifdef VP_SIGFD
	if ((VP_ADDED) & 4) {
		struct vp_sigfd *f = vp_sigfd_for_sig(0);
		VP_ASSERT(f != NULL && !vp_kf[f->fd].shared, "C11: the child listens on a signalfd of its own, not on the descriptor shared with the parent");
		VP_ASSERT(vp_sig_blocked[0], "C11: the signal stays blocked for the signalfd");
		VP_ASSERT(vp_kep[k].reg[f->fd].present, "C11: the child's signalfd is registered with the new epoll instance");
	}
#else
	if ((VP_ADDED) & 4) {
		VP_ASSERT(base->sig.ev_signal_pair[0] >= 0 && base->sig.ev_signal_pair[1] >= 0, "C11: a fresh signal pipe exists");
		VP_ASSERT(!vp_kf[base->sig.ev_signal_pair[0]].shared && !vp_kf[base->sig.ev_signal_pair[1]].shared && vp_kf[base->sig.ev_signal_pair[0]].open && vp_kf[base->sig.ev_signal_pair[1]].open,
		    "C11: the child's signal pipe is not the one shared with the parent");
		VP_ASSERT(vp_sa[0].sa_handler == evsig_handler, "C11: the signal handler is installed again for the added signal event");
		VP_ASSERT(base->sig.ev_signal_added, "C11: the internal signal-notification event is added again");
#ifndef VP_CHANGELIST
		VP_ASSERT(vp_kep[k].reg[base->sig.ev_signal_pair[0]].present, "C11: the new signal pipe is registered with the new epoll instance");
#endif
	}
#endif
	if (old_pair0 >= 0) VP_ASSERT(!(vp_kf[old_pair0].open && vp_kf[old_pair0].shared) && !(vp_kf[old_pair1].open && vp_kf[old_pair1].shared), "C11: the child closed its copies of the parent's signal pipe");
	if (old_notify0 >= 0) {
		VP_ASSERT(!(vp_kf[old_notify0].open && vp_kf[old_notify0].shared), "C11: the child closed its copy of the parent's wake-up descriptor");
		VP_ASSERT(base->th_notify_fd[0] >= 0 && !vp_kf[base->th_notify_fd[0]].shared && base->th_notify_fn != NULL, "C11: the child has a fresh wake-up descriptor");
	}
	/* events' states */
	VP_ASSERT(((ev[0].ev_flags & EVLIST_INSERTED) != 0) == (((VP_ADDED) & 1) != 0) && ((ev[1].ev_flags & EVLIST_INSERTED) != 0) == (((VP_ADDED) & 2) != 0) &&
	    ((sv.ev_flags & EVLIST_INSERTED) != 0) == (((VP_ADDED) & 4) != 0), "C11: event_reinit leaves the events' added state unchanged");
}

void harness_reinit(void)
{
	int i, r, op0, op1, on0;
	struct epollop *op;
	struct timeval tv0 = { 0, 0 };
	unsigned h = (unsigned)vp_range(0, 2);

	memset(&orig, 0, sizeof(orig));
	orig.sa_handler = h == 0 ? SIG_DFL : (h == 1 ? SIG_IGN : vp_app_handler);
	orig.sa_flags = SA_NODEFER | VP_SA_APPTAG;
	vp_sig_orig_kind[0] = (int)h;
	vp_sa[0] = orig;

	vp_k_open_at(FD_A); vp_k_open_at(FD_B);
#ifdef VP_WITH_LOCK
	base = vp_base_new_ops(1, 1, C11_OPS);
#else
	base = vp_base_new_ops(1, 0, C11_OPS);
#endif
	VP_ASSERT(base->evbase != NULL, "C11: epoll back end initialises");
	min_heap_reserve_(&base->timeheap, 4);
#ifdef VP_CHANGELIST
	/* what event_base_new_with_config() does for EVENT_BASE_FLAG_EPOLL_USE_CHANGELIST (epoll_init reads base->flags, which
	 * the constructed base sets only after init) */
	base->flags |= EVENT_BASE_FLAG_EPOLL_USE_CHANGELIST; base->evsel = &epollops_changelist;
#endif
#ifdef VP_NOTIFY
	base->th_notify_fn = NULL;
	r = evthread_make_base_notifiable(base);
	VP_ASSERT(r == 0, "C11: base becomes notifiable");
#endif
	op = base->evbase; old_epfd = op->epfd;
	/* interest masks / ET are fixed per obligation (-DVP_MASK0.. -DVP_ET0..): event_add() tests `ev_events & (READ|WRITE|CLOSED|SIGNAL)`,
	 * which cbmc cannot fold for a symbolic non-empty mask, and every later flag test would fork (the symbolic-mask
	 * version of the interest-set predicate is C05's, at the evmap level) */
	et[0] = VP_ET0; et[1] = VP_ET1;
	mask[0] = VP_MASK0; mask[1] = VP_MASK1;
	for (i = 0; i < 2; i++) {
		event_assign(&ev[i], base, i, (short)(mask[i] | EV_PERSIST | (et[i] ? EV_ET : 0)), cb_io, (void *)&idx_of[i]);
		if ((VP_ADDED >> i) & 1) { r = event_add(&ev[i], NULL); VP_ASSERT(r == 0, "C11: add before fork"); }
	}
	event_assign(&sv, base, SIG, EV_SIGNAL | EV_PERSIST, cb_sig, NULL);
	if ((VP_ADDED) & 4) { r = event_add(&sv, NULL); VP_ASSERT(r == 0, "C11: signal add before fork"); }
	vp_k_wait_fail = EINTR;
	r = event_base_loop(base, EVLOOP_NONBLOCK);   /* the parent has been through a wait: registrations are in the kernel */
	VP_ASSERT(waits_on_new == ((VP_ADDED) ? 1 : 0), "C11: parent waited once (a loop without events returns at once)");

#ifndef VP_DEBUG_NO_REINIT
	/* ---- fork(): we are the child ---- */
	vp_k_fork();
	op0 = base->sig.ev_signal_pair[0]; op1 = base->sig.ev_signal_pair[1]; on0 = base->th_notify_fd[0];
	r = event_reinit(base);
	VP_ASSERT(r == 0, "C11: event_reinit succeeds");
	VP_ASSERT_NO_LOCKS("event_reinit");
	check_after_reinit(op0, op1, on0);
#else
	vp_k_forked = 1; vp_k_nep = 2; vp_kf[old_epfd].inst = 1; vp_kep[1] = vp_kep[0];
#endif
	VP_ASSERT(vp_k_close_ebadf == 0, "C11: event_reinit closes a descriptor number it has already closed (double close; another thread's new descriptor could be hit)");

#ifdef VP_STOP_AFTER_REINIT
	VP_WITNESS("event_reinit returned in the child");
	return;
#endif
	/* ---- the events keep working in the child ---- */
	ebadf_after_reinit = vp_k_close_ebadf;
	vp_pipe_rfd = base->sig.ev_signal_pair[0]; vp_pipe_wfd = base->sig.ev_signal_pair[1];
	if ((VP_ADDED) & 4) {
		vp_sig_deliver(SIG);
#ifdef VP_SIGFD
		VP_ASSERT(vp_sigfd_for_sig(0) != NULL && vp_sigfd_for_sig(0)->pending[0] && vp_sig_kernel_pending[0] == 0, "C11: a signal raised in the child becomes pending on the child's signalfd");
		vp_kf[vp_sigfd_for_sig(0)->fd].ready = POLLIN;
#else
		VP_ASSERT(vp_sig_bad_io == 0 && vp_sig_lib_accepted[0] == 1, "C11: a signal raised in the child is written to the child's own signal pipe");
		vp_kf[vp_pipe_rfd].ready = POLLIN;
#endif
	}
	vp_kf[FD_A].ready = POLLIN | POLLOUT | POLLRDHUP;
	r = event_base_loop(base, EVLOOP_ONCE | EVLOOP_NONBLOCK);
	VP_ASSERT(waits_on_old == 0 && ((VP_ADDED) ? waits_on_new >= 2 : waits_on_new == 0), "C11: the child waits on its own epoll instance");
	if ((VP_ADDED) & 1) VP_ASSERT(ncb_io[0] == 1 && (res_io[0] & ~(mask[0] | EV_ET)) == 0, "C11: an I/O event added before the fork fires in the child");
	else VP_ASSERT(ncb_io[0] == 0, "C11: an event that was not added does not fire");
	VP_ASSERT(ncb_io[1] == 0, "C11: an event whose fd is not ready does not fire");
	if ((VP_ADDED) & 4) {
		VP_ASSERT(ncb_sig == 1, "C11: a signal event added before the fork fires in the child");
		r = event_del(&sv);
		VP_ASSERT(r == 0 && vp_sa[0].sa_handler == orig.sa_handler && vp_sa[0].sa_flags == orig.sa_flags, "C11: deleting the signal event in the child restores the disposition from before the first add");
	}
	VP_ASSERT(vp_kep[0].ctl_calls == vp_k_parent_ctl[0], "C11: still no epoll_ctl on the parent's instance");
	VP_ASSERT(vp_k_close_ebadf == ebadf_after_reinit, "C11: no close of an already closed descriptor in the child's later operations");
	VP_WITNESS("child ran a loop iteration after event_reinit");
}
