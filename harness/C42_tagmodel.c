/* C42 (compositional half): event_tagging.c -- the real code -- over the evbuffer CONTRACT model
 * env/evbuf_contract.h (byte string ref/bytes.h + worst-case pullup: a fresh object of EXACTLY the requested
 * size, released by the next modification).  buffer.c is NOT part of this harness: that buffer.c implements this
 * contract is C12's claim; harness/C42_tagging.c re-checks the leaf routines on real evbuffers.
 * Every size is symbolic here: all round trips (harness_roundtrip, RT=RT_*) over all values, and every decoder
 * (harness_decode, DEC=DEC_*) on every byte string of length <= VP_L.  Any read beyond the bytes a decoder asked
 * evbuffer_pullup for, or through a stale pullup pointer, is a cbmc pointer-check failure.
 * KF_EXCLUDE_TAG6 / KF_ONLY_TAG6: predicate-guarded pair for the decode_tag_internal over-read.
 */
#include "vp.h"
#include "log_stub.h"
#include <string.h>
#include "event2/event-config.h"
#include "event2/util.h"
#include "event2/buffer.h"
#include "evbuf_contract.h"
/* allocator for evtag_unmarshal_string: EXACT-size objects with literal allocation sizes (<= 16 bytes) */
void *event_mm_malloc_(size_t sz) { if (sz == 0) return NULL; return vp_exact_obj(sz); }
void event_mm_free_(void *p) { free(p); }
#include "event_tagging.c"
#include "tag_ref.h"

static struct evbuffer *B;
#define TB_BYTE(b, i)    vpb_at(&(b)->m, (i))
#define TB_CHECK(b)      ((void)0)
#define TB_ADD(b, p, n)  evbuffer_add((b), (p), (n))
#define TB_DRAIN(b, n)   evbuffer_drain((b), (n))
static struct evbuffer *tb_new(void) { return evbuffer_new(); }
#include "C42_common.h"

#define KF_TAG6 (WL >= 6 && (W[0] & 0x80) && (W[1] & 0x80) && (W[2] & 0x80) && (W[3] & 0x80) && (W[4] & 0x80) && (W[4] & 0x7f) <= 15)

#ifdef RT
void harness_roundtrip(void)
{
	B = tb_new();
	rt_draw();
	rt_run(g_n);
}
#endif

#ifdef DEC
void harness_decode(void)
{
	WL = vp_range(0, VP_L);
	vp_bytes(W, VP_L);
#ifdef KF_EXCLUDE_TAG6
	__CPROVER_assume(!KF_TAG6);
#endif
#ifdef KF_ONLY_TAG6
	__CPROVER_assume(KF_TAG6);
#endif
	B = tb_new();
	if (WL) evbuffer_add(B, W, WL);
	dec_ref();
	dec_run();
}
#endif
