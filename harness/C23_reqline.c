/* C23 (a): first line of a request.  The real evhttp_parse_firstline_() ->
 * evhttp_parse_request_line() (method switch, target split,
 * evhttp_parse_http_version) on a symbolic line of up to VP_N bytes (any byte
 * but LF, NUL included) against ref_reqline_parse() (RFC 9112 section 3).
 * The line is handed over by the contract model of evbuffer_readln
 * (env/http_lines.h, one line or none).
 *
 * Cut (DESIGN 3.8): evhttp_uri_parse_with_flags / evhttp_uri_parse_authority
 * are replaced by a contract stub (goto-instrument --replace-calls): they read
 * the NUL-terminated string, do not modify it, and return an object or NULL;
 * which of the two is a harness input (URI syntax is property C28).
 */
#include "vp.h"
#include "log_stub.h"
#include "http_fmt.h"
#include "http_alloc.h"
#include "http.c"
#ifndef VP_N
#define VP_N 20
#endif
#define VP_L 1
#include "http_lines.h"
#define REF_MAXLINE (VP_N + 1)
#include "http_ref.h"

static char vp_inbuf_identity;

/* ---- contract stub for the URI parser ---- */
static struct evhttp_uri vp_uri_obj;
static const char *vp_uri_arg;
static unsigned vp_uri_flags;
static int vp_uri_calls, vp_uri_auth_calls, vp_uri_ok;
struct evhttp_uri *vp_cut_uri_parse(const char *s, unsigned flags)
{
	vp_uri_calls++; vp_uri_arg = s; vp_uri_flags = flags;
	return vp_uri_ok ? &vp_uri_obj : NULL;
}
struct evhttp_uri *vp_cut_uri_parse_authority(char *s, unsigned flags)
{
	vp_uri_auth_calls++; vp_uri_arg = s; vp_uri_flags = flags;
	return vp_uri_ok ? &vp_uri_obj : NULL;
}

/* the enumerators documented in event2/http.h and the reference's bit values agree */
typedef char vp_chk_enum[(EVHTTP_REQ_GET == REF_REQ_GET && EVHTTP_REQ_POST == REF_REQ_POST && EVHTTP_REQ_HEAD == REF_REQ_HEAD &&
    EVHTTP_REQ_PUT == REF_REQ_PUT && EVHTTP_REQ_DELETE == REF_REQ_DELETE && EVHTTP_REQ_OPTIONS == REF_REQ_OPTIONS &&
    EVHTTP_REQ_TRACE == REF_REQ_TRACE && EVHTTP_REQ_CONNECT == REF_REQ_CONNECT && EVHTTP_REQ_PATCH == REF_REQ_PATCH &&
    EVHTTP_REQ_PROPFIND == REF_REQ_PROPFIND && EVHTTP_REQ_PROPPATCH == REF_REQ_PROPPATCH && EVHTTP_REQ_MKCOL == REF_REQ_MKCOL &&
    EVHTTP_REQ_LOCK == REF_REQ_LOCK && EVHTTP_REQ_UNLOCK == REF_REQ_UNLOCK && EVHTTP_REQ_COPY == REF_REQ_COPY &&
    EVHTTP_REQ_MOVE == REF_REQ_MOVE) ? 1 : -1];

void harness_reqline(void)
{
	unsigned char orig[VP_N + 1];
	struct evhttp_request req;
	struct evhttp_connection evcon;
	struct ref_reqline R;
	size_t len, i;
	enum message_read_status st;

	vp_lines_buf = (struct evbuffer *)&vp_inbuf_identity;
	vp_lines_symbolic(1);
	vp_residual = vp_range(0, 4);
	len = vp_line_len[0];
	for (i = 0; i <= VP_N; i++)
		orig[i] = (unsigned char)vp_lines[0][i];
	memset(&req, 0, sizeof(req));
	memset(&evcon, 0, sizeof(evcon));
	req.evcon = &evcon;
	req.kind = EVHTTP_REQUEST;
	evcon.max_headers_size = EV_SIZE_MAX;
	vp_uri_ok = vp_bool();

	ref_reqline_parse(orig, len, &R);
	st = evhttp_parse_firstline_(&req, vp_lines_buf);

	if (vp_nlines == 0) {
		VP_ASSERT(st == MORE_DATA_EXPECTED, "C23: no complete line buffered (and below the size limit): more data expected");
		VP_ASSERT(vp_uri_calls + vp_uri_auth_calls == 0 && req.uri == NULL, "C23: nothing parsed before the first line is complete");
		VP_WITNESS("incomplete first line");
		return;
	}
	VP_ASSERT(st == ALL_DATA_READ || st == DATA_CORRUPTED, "C23: complete first line is accepted or refused");
	VP_ASSERT(vp_line_next == 1, "C23: exactly the first line is consumed");
	if (st == ALL_DATA_READ) {
		VP_ASSERT(R.wellformed, "C23: request line accepted that is not 'method SP request-target SP HTTP-version' (RFC 9112 3)");
		VP_ASSERT(vp_uri_ok, "C23: request accepted although its target was refused by the URI parser");
		VP_ASSERT(vp_uri_calls + vp_uri_auth_calls == 1, "C23: target parsed exactly once");
		VP_ASSERT(req.uri != NULL && vp_uri_arg == req.uri, "C23: the URI parser is given the stored request target");
		VP_ASSERT(req.headers_size == len, "C23: first line accounted in headers_size");
		if (R.wellformed) {
			int same = 1;
			for (i = 0; i < VP_N; i++)
				if (i < R.t_len && (unsigned char)req.uri[i] != orig[R.t_off + i]) same = 0;
			VP_ASSERT(same && req.uri[R.t_len] == '\0', "C23: request target handed on != target on the wire");
			VP_ASSERT(req.major == R.major && req.minor == R.minor, "C23: HTTP version handed on != version on the wire");
			VP_ASSERT((unsigned)req.type == R.method, "C23: method handed on != method on the wire");
			VP_ASSERT(R.major <= 1, "C23: request with major version > 1 accepted by an HTTP/1.x parser");
			if (R.method == REF_REQ_CONNECT)
				VP_ASSERT(vp_uri_auth_calls == 1, "C23: CONNECT target must be parsed as authority-form");
			else
				VP_ASSERT(vp_uri_calls == 1 && vp_uri_flags == EVHTTP_URI_NONCONFORMANT, "C23: non-CONNECT target parsed as URI reference");
		}
		VP_WITNESS("request line accepted");
		if (req.type == EVHTTP_REQ_PROPPATCH) VP_WITNESS("PROPPATCH accepted");
		if (req.type == 0) VP_WITNESS("accepted with unknown method (501 later)");
		if (R.wellformed && R.target_has_ws) VP_WITNESS("target containing white space accepted (documented non-conformant leniency)");
	} else {
		/* completeness: a strictly valid HTTP/1.x request line whose target the URI parser takes is accepted.
		 * (the code's minimum length of 14 = strlen("GET / HTTP/1.0") only cuts off extension
		 * methods shorter than 3 bytes; not claimed, see OUT) */
		VP_ASSERT(!(R.strict && R.major <= 1 && vp_uri_ok && len >= 14), "C23: strictly valid request line rejected");
		if (R.strict && !vp_uri_ok) VP_WITNESS("valid line, target refused by URI parser");
		if (!R.wellformed) VP_WITNESS("malformed line rejected");
	}
}
