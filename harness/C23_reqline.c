/* C23 (a): request line.  The real evhttp_parse_request_line() (method switch,
 * target split, evhttp_parse_http_version) on a symbolic line of up to VP_N
 * bytes against ref_reqline_parse() (RFC 9112 section 3).
 *
 * Cut (DESIGN 3.8): evhttp_uri_parse_with_flags / evhttp_uri_parse_authority
 * are replaced by a contract stub (goto-instrument --replace-calls): they read
 * the NUL-terminated string, do not modify it, and return an object or NULL;
 * which of the two is a harness input (URI syntax is property C28).
 *
 * Known finding predicate KF_REQLINE_WS: the bytes between the first and the
 * last SP of the line contain white space (SP, HTAB, VT, FF, CR).
 */
#include "vp.h"
#include "log_stub.h"
#include "http_fmt.h"
#include "http_alloc.h"
#include "http.c"
#include "http_ref.h"

#ifndef VP_N
#define VP_N 20
#endif

/* ---- contract stub for the URI parser ---- */
static struct evhttp_uri vp_uri_obj;
static const char *vp_uri_arg;
static unsigned vp_uri_flags;
static int vp_uri_calls, vp_uri_auth_calls, vp_uri_ok;
struct evhttp_uri *vp_cut_uri_parse(const char *s, unsigned flags)
{
	vp_uri_calls++; vp_uri_arg = s; vp_uri_flags = flags;
	return vp_uri_ok ? &vp_uri_obj : NULL;
}
struct evhttp_uri *vp_cut_uri_parse_authority(char *s, unsigned flags)
{
	vp_uri_auth_calls++; vp_uri_arg = s; vp_uri_flags = flags;
	return vp_uri_ok ? &vp_uri_obj : NULL;
}

/* the enumerators documented in event2/http.h and the reference's bit values agree */
typedef char vp_chk_enum[(EVHTTP_REQ_GET == REF_REQ_GET && EVHTTP_REQ_POST == REF_REQ_POST && EVHTTP_REQ_HEAD == REF_REQ_HEAD &&
    EVHTTP_REQ_PUT == REF_REQ_PUT && EVHTTP_REQ_DELETE == REF_REQ_DELETE && EVHTTP_REQ_OPTIONS == REF_REQ_OPTIONS &&
    EVHTTP_REQ_TRACE == REF_REQ_TRACE && EVHTTP_REQ_CONNECT == REF_REQ_CONNECT && EVHTTP_REQ_PATCH == REF_REQ_PATCH &&
    EVHTTP_REQ_PROPFIND == REF_REQ_PROPFIND && EVHTTP_REQ_PROPPATCH == REF_REQ_PROPPATCH && EVHTTP_REQ_MKCOL == REF_REQ_MKCOL &&
    EVHTTP_REQ_LOCK == REF_REQ_LOCK && EVHTTP_REQ_UNLOCK == REF_REQ_UNLOCK && EVHTTP_REQ_COPY == REF_REQ_COPY &&
    EVHTTP_REQ_MOVE == REF_REQ_MOVE) ? 1 : -1];

/* KF predicate: white space inside what the code takes as the target */
static int kf_reqline_ws(const unsigned char *l, size_t len)
{
	size_t end = len, i, first = len, last = 0;
	int ws = 0;
	while (end > 0 && l[end - 1] == ' ') end--;
	for (i = 0; i < end; i++)
		if (l[i] == ' ') { if (first == len) first = i; last = i; }
	if (first == len)
		return 0;
	for (i = first + 1; i < last; i++)
		if (ref_is_lws(l[i])) ws = 1;
	return ws;
}

void harness_reqline(void)
{
	char line[VP_N + 1];
	unsigned char orig[VP_N + 1];
	struct evhttp_request req;
	struct evhttp_connection evcon;
	struct ref_reqline R;
	size_t len, i;
	int r;

	vp_bytes(line, VP_N);
	len = (size_t)vp_range(0, VP_N);
	line[len] = '\0';
	/* evbuffer_readln hands over a NUL-terminated line; embedded NUL bytes are excluded here (see OUT) */
	for (i = 0; i < VP_N; i++)
		__CPROVER_assume(i >= len || (line[i] != '\0' && line[i] != '\n')); /* a line never contains LF */
	for (i = 0; i <= VP_N; i++)
		orig[i] = i <= len ? (unsigned char)line[i] : 0;
#ifdef KF_EXCLUDE_REQLINE_WS
	__CPROVER_assume(!kf_reqline_ws(orig, len));
#endif
#ifdef KF_ONLY_REQLINE_WS
	__CPROVER_assume(kf_reqline_ws(orig, len));
#endif
	memset(&req, 0, sizeof(req));
	memset(&evcon, 0, sizeof(evcon));
	req.evcon = &evcon;
	req.kind = EVHTTP_REQUEST;
	vp_uri_ok = vp_bool();

	ref_reqline_parse(orig, len, &R);
	r = evhttp_parse_request_line(&req, line, len);

	VP_ASSERT(r == 0 || r == -1, "C23: evhttp_parse_request_line returns 0 or -1");
	if (r == 0) {
		VP_ASSERT(R.wellformed, "C23: request line accepted that is not 'method SP request-target SP HTTP-version' (RFC 9112 3)");
		VP_ASSERT(vp_uri_ok, "C23: request accepted although its target was refused by the URI parser");
		VP_ASSERT(vp_uri_calls + vp_uri_auth_calls == 1, "C23: target parsed exactly once");
		VP_ASSERT(req.uri != NULL && vp_uri_arg == req.uri, "C23: the URI parser is given the stored request target");
		if (R.wellformed) {
			int same = 1;
			for (i = 0; i < VP_N; i++)
				if (i < R.t_len && (unsigned char)req.uri[i] != orig[R.t_off + i]) same = 0;
			VP_ASSERT(same && req.uri[R.t_len] == '\0', "C23: request target handed on != target on the wire");
			VP_ASSERT(req.major == R.major && req.minor == R.minor, "C23: HTTP version handed on != version on the wire");
			VP_ASSERT((unsigned)req.type == R.method, "C23: method handed on != method on the wire");
			VP_ASSERT(R.major <= 1, "C23: request with major version > 1 accepted by an HTTP/1.x parser");
			if (R.method == REF_REQ_CONNECT)
				VP_ASSERT(vp_uri_auth_calls == 1, "C23: CONNECT target must be parsed as authority-form");
			else
				VP_ASSERT(vp_uri_calls == 1 && vp_uri_flags == EVHTTP_URI_NONCONFORMANT, "C23: non-CONNECT target parsed as URI reference");
		}
		VP_WITNESS("request line accepted");
		if (req.type == EVHTTP_REQ_PROPPATCH) VP_WITNESS("PROPPATCH accepted");
		if (req.type == 0) VP_WITNESS("accepted with unknown method (501 later)");
	} else {
		/* completeness: a strictly valid HTTP/1.x request line whose target the URI parser takes is accepted.
		 * (the code's minimum length of 14 = strlen("GET / HTTP/1.0") only cuts off extension
		 * methods shorter than 3 bytes; not claimed, see OUT) */
		VP_ASSERT(!(R.strict && R.major <= 1 && vp_uri_ok && len >= 14), "C23: strictly valid request line rejected");
		if (R.strict && !vp_uri_ok) VP_WITNESS("valid line, target refused by URI parser");
		if (!R.wellformed) VP_WITNESS("malformed line rejected");
	}
}
