/* C33 (1): evdns.c:name_parse on a fully symbolic packet, against the
 * reference name decoder ref/dns_ref.h, with exact-size objects.
 *
 *   packet  : heap object of literal size C33_L; the message is the `length`
 *             (symbolic, 0..C33_L) bytes at the END of the object (default) or
 *             at its START (-DC33_FRONT), so that a read at index >= length
 *             (resp. < 0) leaves the object and is reported by cbmc.  With
 *             length == C33_L (inside the range) the object is exact on both sides.
 *   name_out: the same for the output buffer, capacity out_len symbolic 0..C33_OUT.
 *   *idx    : symbolic 0..length (length itself: "name starts at the end").
 *
 * Decided: no out-of-bounds access, termination within the unwinding bound,
 * result/out/idx == reference decoder (failure iff the reference fails or the
 * text does not fit), output NUL-terminated inside out_len.
 */
#define VP_LOCKS_OFF 1
#include "vp.h"
#include "log_stub.h"
#include "alloc.h"
#include "locks.h"
#include "dns_env.h"
#include "evdns.c"
#ifndef C33_L
#define C33_L 12
#endif
#ifndef C33_OUT
#define C33_OUT (C33_L + 2)
#endif
/* iterations of name_parse's main loop: <= length+1 pointer jumps (ptr_count > length rejects),
 * <= (out_len+1)/2 labels (each adds >= 2 characters incl. its dot), 1 terminator.  Confirmed by
 * the unwinding assertion.  The reference gets the same step budget (>= length, see dns_ref.h). */
#define C33_STEPS ((C33_L + 1) + (C33_OUT + 1) / 2 + 1)
#define DNSREF_NAME_STEPS C33_STEPS
#include "dns_ref.h"

void harness_name_parse(void)
{
	u8 *pobj = malloc(C33_L);
	char *oobj = malloc(C33_OUT);
	char refout[C33_OUT + 1];
	int length = (int)vp_range(0, C33_L);
#ifdef C33_OUTLEN
	int out_len = C33_OUTLEN;
#else
	int out_len = (int)vp_range(0, C33_OUT);
#endif
	int start, idx, r, rr, rnext = -1, rtext = -1, i;
	u8 *packet; char *out;
	__CPROVER_assume(pobj && oobj);
	vp_bytes(pobj, C33_L);
#ifdef C33_FRONT
	packet = pobj; out = oobj;
#else
	packet = pobj + (C33_L - length); out = oobj + (C33_OUT - out_len);
#endif
	start = (int)vp_range(0, (uint64_t)length);
	idx = start;

	r = name_parse(packet, length, &idx, out, out_len);

	VP_ASSERT(r == 0 || r == -1, "C33: name_parse returns 0 or -1");
#ifdef C33_NOREF
	/* memory safety / termination only (larger bound than the functional obligations) */
	if (r == 0) {
		VP_ASSERT(idx > start && idx <= length, "C33: index not advanced within (start, length]");
		VP_WITNESS("name accepted");
	} else VP_WITNESS("name rejected");
#else
	rr = dnsref_name(packet, length, start, refout, out_len, &rnext, &rtext, NULL);
	if (rr == DNSREF_RESERVED) {
		/* label type 01/10: not compared here (see obligation name_parse_reserved) */
#ifdef C33_STRICT_LABELTYPE
		VP_ASSERT(r == -1, "C33: name with a reserved label type (top bits 01/10, RFC 1035 4.1.4) accepted as a compression pointer");
#endif
#ifndef C33_STRICT_LABELTYPE
		VP_WITNESS("reserved label type met");
#else
		if (r == -1) VP_WITNESS("reserved label type rejected");
#endif
		return;
	}
	if (rr != DNSREF_OK) {
		VP_ASSERT(r == -1, "C33: name_parse accepted a name the reference decoder rejects (truncated/loop/out of range/too long for the buffer)");
		if (rr == DNSREF_TOOLONG) VP_WITNESS("name does not fit the output buffer");
		else VP_WITNESS("malformed name rejected");
		return;
	}
	/* completeness: a finite name follows at most length/2 pointers (each pointer occupies two
	 * octets at a distinct offset: pigeonhole, argued on paper, see NOTE), so the guard below is
	 * always true for finite names; it is there so that the solver need not prove pigeonhole. */
	if (dnsref_name_nptr <= length)
		VP_ASSERT(r == 0, "C33: name_parse rejected a well-formed name that fits the output buffer");
	if (r != 0) return;
	VP_ASSERT(idx == rnext, "C33: name_parse index after the name != reference (end of name at its original position)");
	VP_ASSERT(idx > start && idx <= length, "C33: index not advanced within (start, length]");
	VP_ASSERT(rtext < out_len, "C33: reference text fits");
	for (i = 0; i <= rtext; i++)
		VP_ASSERT(out[i] == refout[i], "C33: decoded name differs from the reference decoding");
	VP_ASSERT(out[rtext] == 0, "C33: output NUL-terminated at the end of the name");
	if (rnext != start + rtext + 2 && rtext > 0) VP_WITNESS("well-formed compressed name decoded");
	if (rtext > 3) VP_WITNESS("well-formed multi-byte name decoded");
	if (rtext == 0) VP_WITNESS("root name decoded");
#endif
}
