/* C42_common.h -- scenario bodies shared by harness/C42_tagmodel.c (event_tagging.c over the evbuffer CONTRACT
 * model, every size symbolic) and harness/C42_tagging.c (event_tagging.c over the real buffer.c, sizes split into
 * classes by the including harness).  The includer provides, before this file:
 *   TB_BYTE(buf,i)   i-th stored byte of an evbuffer, read without the evbuffer API
 *   TB_CHECK(buf)    representation invariant of an evbuffer (may be empty)
 *   tb_new()         a fresh empty evbuffer (never NULL)
 *   static struct evbuffer *B;  and, for decoding, tb_mkdec(): B := the bytes W[0..WL) (split at WK)
 * and has already included event_tagging.c and ref/tag_ref.h.
 *
 * rt_draw()/rt_run():  one marshalled item, every value solver-chosen.  rt_draw fixes the inputs and computes the
 *   expected wire bytes with the reference encoder; rt_run marshals, compares the wire bytes, (unless VP_ENC_ONLY)
 *   peeks/unmarshals and compares.  VP_PRE concrete bytes precede the item and are drained before it is read back.
 * dec_run():  one decoder on the arbitrary bytes W[0..WL); success => the reference parser sees exactly one item
 *   with the same values and exactly that item was consumed.
 */
#ifndef C42_COMMON_H_
#define C42_COMMON_H_

/* selectors are preprocessor constants (they are tested with #if) */
#define RT_INT 1
#define RT_INT64 2
#define RT_TAG 3
#define RT_MINT 4
#define RT_MINT64 5
#define RT_TIMEVAL 6
#define RT_STRING 7
#define RT_RAW 8
#define RT_FIXED 9
#define RT_CONSUME 10
#define RT_BUFFER 11
#define RT_SEQ 12
#define RT_WRONGTAG 13
#define DEC_INT 1
#define DEC_INT64 2
#define DEC_TAG 3
#define DEC_PEEK 4
#define DEC_PEEK_LENGTH 5
#define DEC_PAYLOAD_LENGTH 6
#define DEC_HEADER 7
#define DEC_CONSUME 8
#define DEC_UNMARSHAL 9
#define DEC_UINT 10
#define DEC_UINT64 11
#define DEC_FIXED 12
#define DEC_STRING 13
#define DEC_TIMEVAL 14
#define DEC_INTI 15
#define DEC_INT64I 16

#ifndef VP_PRE
#define VP_PRE 0
#endif
#ifndef VP_STR
#define VP_STR 4          /* longest string / raw payload in the round trips */
#endif
#ifndef VP_L
#define VP_L 12           /* longest arbitrary byte string */
#endif
#ifndef VP_OFF
#define VP_OFF 0          /* DEC_INTI/DEC_INT64I: offset handed to decode_int_internal */
#endif
#define EXP_MAX 48

static unsigned char vp_exp[EXP_MAX]; static size_t vp_explen;
static void exp_tag(ev_uint32_t t) { vp_explen += (size_t)tagref_enc_tag(vp_exp + vp_explen, t); }
static void exp_int(ev_uint64_t v) { vp_explen += (size_t)tagref_enc_int(vp_exp + vp_explen, v); }
static void exp_bytes(const unsigned char *p, size_t n) { size_t i; for (i = 0; i < VP_STR; i++) if (i < n) vp_exp[vp_explen + i] = p[i]; vp_explen += n; }

/* the item's bytes on the wire == reference encoding (every position: one solver-chosen index) */
static void check_wire(void)
{
	size_t i;
	TB_CHECK(B);
	VP_ASSERT(evbuffer_get_length(B) == VP_PRE + vp_explen, "C42: marshalled item has a different length than the wire format prescribes");
	i = vp_size();
	if (i < vp_explen)
		VP_ASSERT(TB_BYTE(B, VP_PRE + i) == vp_exp[i], "C42: marshalled bytes differ from the wire format");
#if VP_PRE
	/* the earlier item is read first */
	__CPROVER_assume(TB_DRAIN(B, VP_PRE) == 0);
#endif
}
static void check_empty(void)
{
#ifndef VP_NO_REST
	TB_CHECK(B);
#endif
	VP_ASSERT(evbuffer_get_length(B) == 0, "C42: unmarshalling did not consume exactly the marshalled item");
}

/* ------------------------------------------------------------------ round trips ---- */
#ifdef RT
static ev_uint32_t g_t, g_t2, g_v32; static ev_uint64_t g_v64; static struct timeval g_tv;
static char g_s[VP_STR + 1]; static unsigned char g_d[VP_STR]; static size_t g_n;
static int g_la, g_lb, g_lc, g_ld;          /* sizes on the wire: tag, length field, payload parts (for the size classes) */

static void rt_draw(void)
{
	unsigned char tmp[9]; size_t i;
	(void)tmp; (void)i;
#if RT == RT_INT
	g_v32 = vp_u32(); g_lc = tagref_enc_int(tmp, g_v32); exp_int(g_v32);
#elif RT == RT_INT64
	g_v64 = vp_u64(); g_lc = tagref_enc_int(tmp, g_v64); exp_int(g_v64);
#elif RT == RT_TAG
	g_t = vp_u32(); g_la = tagref_enc_tag(tmp, g_t); exp_tag(g_t);
#elif RT == RT_MINT || RT == RT_WRONGTAG
	g_t = vp_u32(); g_v32 = vp_u32();
	g_la = tagref_enc_tag(tmp, g_t); g_lc = tagref_enc_int(tmp, g_v32); g_lb = 1;
	exp_tag(g_t); exp_int((ev_uint64_t)g_lc); exp_int(g_v32);
#if RT == RT_WRONGTAG
	g_t2 = vp_u32(); __CPROVER_assume(g_t2 != g_t);
#endif
#elif RT == RT_MINT64
	g_t = vp_u32(); g_v64 = vp_u64();
	g_la = tagref_enc_tag(tmp, g_t); g_lc = tagref_enc_int(tmp, g_v64); g_lb = 1;
	exp_tag(g_t); exp_int((ev_uint64_t)g_lc); exp_int(g_v64);
#elif RT == RT_TIMEVAL
	g_t = vp_u32(); g_tv.tv_sec = (time_t)vp_u64(); g_tv.tv_usec = (suseconds_t)vp_u64();
	/* the wire format carries two unsigned 32-bit integers */
	__CPROVER_assume(g_tv.tv_sec >= 0 && (ev_uint64_t)g_tv.tv_sec <= 0xffffffffULL);
	__CPROVER_assume(g_tv.tv_usec >= 0 && g_tv.tv_usec < 1000000);
	g_la = tagref_enc_tag(tmp, g_t); g_lc = tagref_enc_int(tmp, (ev_uint64_t)g_tv.tv_sec); g_ld = tagref_enc_int(tmp, (ev_uint64_t)g_tv.tv_usec); g_lb = 1;
	exp_tag(g_t); exp_int((ev_uint64_t)(g_lc + g_ld)); exp_int((ev_uint64_t)g_tv.tv_sec); exp_int((ev_uint64_t)g_tv.tv_usec);
#elif RT == RT_STRING || RT == RT_SEQ
	g_t = vp_u32(); g_n = vp_range(0, VP_STR);
	vp_bytes(g_s, VP_STR);
	for (i = 0; i < VP_STR; i++) if (i < g_n) __CPROVER_assume(g_s[i] != 0);
	g_s[g_n] = 0;
	g_la = tagref_enc_tag(tmp, g_t); g_lb = 1; g_lc = (int)g_n;
#if RT == RT_SEQ
	g_t2 = vp_u32(); g_v32 = vp_u32();
	exp_tag(g_t2); exp_int((ev_uint64_t)tagref_enc_int(tmp, g_v32)); exp_int(g_v32);
#endif
	exp_tag(g_t); exp_int(g_n); exp_bytes((unsigned char *)g_s, g_n);
#elif RT == RT_RAW || RT == RT_FIXED || RT == RT_CONSUME || RT == RT_BUFFER
	g_t = vp_u32(); g_n = vp_range(0, VP_STR);
	vp_bytes(g_d, VP_STR);
	g_la = tagref_enc_tag(tmp, g_t); g_lb = 1; g_lc = (int)g_n;
	exp_tag(g_t); exp_int(g_n); exp_bytes(g_d, g_n);
#else
#error "unknown RT"
#endif
}

/* n: the payload length as the harness passes it to the library (the real-evbuffer harness hands in the class constant) */
static void rt_run(size_t n)
{
	size_t i; int r;
	(void)i; (void)r; (void)n;
#if VP_PRE
	{
		unsigned char junk[VP_PRE];
		vp_bytes(junk, VP_PRE);
		__CPROVER_assume(TB_ADD(B, junk, VP_PRE) == 0);
	}
#endif
#if RT == RT_INT
	{
		ev_uint32_t o = 0;
		evtag_encode_int(B, g_v32);
		check_wire();
#ifndef VP_ENC_ONLY
#ifdef VP_LEAF_INTERNAL     /* the decoding routine itself + the drain its public wrapper performs */
		r = decode_int_internal(&o, B, 0);
		VP_ASSERT(r == (int)vp_explen, "C42: decode_int_internal does not return the encoded size");
		VP_ASSERT(o == g_v32, "C42: 32-bit integer changed by encode/decode");
		VP_WITNESS("C42 round trip completed");
		return;          /* (no evbuffer call behind the decoder's merged return paths, see C42_tagging.c) */
#else
		VP_ASSERT(evtag_decode_int(&o, B) == 0, "C42: evtag_decode_int rejects an encoded integer");
#endif
		VP_ASSERT(o == g_v32, "C42: 32-bit integer changed by encode/decode");
		check_empty();
#endif
	}
#elif RT == RT_INT64
	{
		ev_uint64_t o = 0;
		evtag_encode_int64(B, g_v64);
		check_wire();
#ifndef VP_ENC_ONLY
#ifdef VP_LEAF_INTERNAL
		r = decode_int64_internal(&o, B, 0);
		VP_ASSERT(r == (int)vp_explen, "C42: decode_int64_internal does not return the encoded size");
		VP_ASSERT(o == g_v64, "C42: 64-bit integer changed by encode/decode");
		VP_WITNESS("C42 round trip completed");
		return;
#else
		VP_ASSERT(evtag_decode_int64(&o, B) == 0, "C42: evtag_decode_int64 rejects an encoded integer");
#endif
		VP_ASSERT(o == g_v64, "C42: 64-bit integer changed by encode/decode");
		check_empty();
#endif
	}
#elif RT == RT_TAG
	{
		ev_uint32_t o = 0, o2 = 0; int k, m;
		k = evtag_encode_tag(B, g_t);
		VP_ASSERT(k == (int)vp_explen, "C42: evtag_encode_tag returns the number of bytes of the encoded tag");
		VP_ASSERT(evtag_encode_tag(NULL, g_t) == k, "C42: evtag_encode_tag(NULL) reports the same size");
		check_wire();
#ifndef VP_ENC_ONLY
		m = evtag_peek(B, &o2);
		VP_ASSERT(m == k && o2 == g_t, "C42: evtag_peek does not report the encoded tag");
		VP_ASSERT(evbuffer_get_length(B) == (size_t)k, "C42: evtag_peek consumed data");
		m = evtag_decode_tag(&o, B);
		VP_ASSERT(m == k, "C42: evtag_decode_tag does not return the encoded size");
		VP_ASSERT(o == g_t, "C42: tag changed by encode/decode");
		check_empty();
#endif
	}
#elif RT == RT_MINT || RT == RT_WRONGTAG
	{
		ev_uint32_t o = 0, pl = 0, tl = 0;
		evtag_marshal_int(B, g_t, g_v32);
		check_wire();
#ifndef VP_ENC_ONLY
#if RT == RT_WRONGTAG
		VP_ASSERT(evtag_unmarshal_int(B, g_t2, &o) == -1, "C42: evtag_unmarshal_int accepted an item with a different tag");
		VP_WITNESS("C42 wrong tag refused");
		return;
#else
		VP_ASSERT(evtag_payload_length(B, &pl) == 0 && pl == (ev_uint32_t)g_lc, "C42: evtag_payload_length does not report the payload length");
		VP_ASSERT(evtag_peek_length(B, &tl) == 0 && tl == vp_explen, "C42: evtag_peek_length does not report the total item length");
		VP_ASSERT(evbuffer_get_length(B) == vp_explen, "C42: length peekers consumed data");
		r = evtag_unmarshal_int(B, g_t, &o);
		VP_ASSERT(r != -1, "C42: evtag_unmarshal_int rejects a marshalled integer");
		VP_ASSERT(o == g_v32, "C42: 32-bit integer changed by marshal/unmarshal");
		check_empty();
#endif
#endif
	}
#elif RT == RT_MINT64
	{
		ev_uint64_t o = 0;
		evtag_marshal_int64(B, g_t, g_v64);
		check_wire();
#ifndef VP_ENC_ONLY
		r = evtag_unmarshal_int64(B, g_t, &o);
		VP_ASSERT(r != -1, "C42: evtag_unmarshal_int64 rejects a marshalled integer");
		VP_ASSERT(o == g_v64, "C42: 64-bit integer changed by marshal/unmarshal");
		check_empty();
#endif
	}
#elif RT == RT_TIMEVAL
	{
		struct timeval o;
		o.tv_sec = -1; o.tv_usec = -1;
		evtag_marshal_timeval(B, g_t, &g_tv);
		check_wire();
#ifndef VP_ENC_ONLY
		r = evtag_unmarshal_timeval(B, g_t, &o);
		VP_ASSERT(r == 0, "C42: evtag_unmarshal_timeval rejects a marshalled timeval");
		VP_ASSERT(o.tv_sec == g_tv.tv_sec && o.tv_usec == g_tv.tv_usec, "C42: timeval changed by marshal/unmarshal");
		check_empty();
#endif
	}
#elif RT == RT_STRING || RT == RT_SEQ
	{
		char *o = NULL; ev_uint32_t oi = 0;
		(void)oi;
#if RT == RT_SEQ
		evtag_marshal_int(B, g_t2, g_v32);
#endif
		evtag_marshal_string(B, g_t, g_s);
		check_wire();
#ifndef VP_ENC_ONLY
#if RT == RT_SEQ
		/* two items, read back in order */
		r = evtag_unmarshal_int(B, g_t2, &oi);
		VP_ASSERT(r != -1 && oi == g_v32, "C42: first of two items not returned unchanged");
#endif
		r = evtag_unmarshal_string(B, g_t, &o);
		VP_ASSERT(r == 0 && o != NULL, "C42: evtag_unmarshal_string rejects a marshalled string");
		i = vp_size();
		if (i <= g_n) VP_ASSERT(o[i] == g_s[i], "C42: string changed by marshal/unmarshal");
		mm_free(o);
		check_empty();
#endif
	}
#elif RT == RT_RAW || RT == RT_FIXED || RT == RT_CONSUME || RT == RT_BUFFER
	{
		ev_uint32_t o = 0; unsigned char out[VP_STR];
		(void)o; (void)out;
#if RT == RT_BUFFER
		{
			struct evbuffer *src = tb_new();
			__CPROVER_assume(TB_ADD(src, g_d, n) == 0);
			evtag_marshal_buffer(B, g_t, src);
			VP_ASSERT(evbuffer_get_length(src) == 0, "C42: evtag_marshal_buffer moves the data out of the source buffer");
		}
#else
		evtag_marshal(B, g_t, g_d, (ev_uint32_t)g_n);
#endif
		check_wire();
#ifndef VP_ENC_ONLY
#if RT == RT_FIXED
		r = evtag_unmarshal_fixed(B, g_t, out, g_n);
		VP_ASSERT(r == 0, "C42: evtag_unmarshal_fixed rejects a marshalled item of the requested length");
		i = vp_size();
		if (i < g_n) VP_ASSERT(out[i] == g_d[i], "C42: raw data changed by marshal/unmarshal_fixed");
#elif RT == RT_CONSUME
		r = evtag_consume(B);
		VP_ASSERT(r == 0, "C42: evtag_consume rejects a marshalled item");
#else
		{
			struct evbuffer *dst = tb_new();
			r = evtag_unmarshal(B, &o, dst);
			VP_ASSERT(r == (int)g_n, "C42: evtag_unmarshal does not return the marshalled length");
			VP_ASSERT(o == g_t, "C42: tag changed by marshal/unmarshal");
			VP_ASSERT(evbuffer_get_length(dst) == g_n, "C42: evtag_unmarshal delivered a different number of bytes");
			i = vp_size();
			if (i < g_n) VP_ASSERT(TB_BYTE(dst, i) == g_d[i], "C42: raw data changed by marshal/unmarshal");
		}
#endif
		check_empty();
#endif
	}
#endif
#if (RT != RT_WRONGTAG || defined(VP_ENC_ONLY)) && !(defined(VP_LEAF_INTERNAL) && (RT == RT_INT || RT == RT_INT64))
	VP_WITNESS("C42 round trip completed");
#endif
}
#endif /* RT */

/* ------------------------------------------------------- decoders on arbitrary bytes ---- */
#ifdef DEC
static unsigned char W[VP_L];      /* the arbitrary bytes (ghost copy: the oracle reads this) */
static size_t WL, WK;              /* total length, split position */
/* what the reference parser sees in W[0..WL) */
static int r_a, r_b, r_h;          /* tag size, length-field size, header size of a complete item (each -1 if not well-formed) */
static ev_uint32_t r_tag, r_len; static ev_uint64_t r_l64;

static void dec_ref(void)
{
	r_tag = 0; r_len = 0; r_l64 = 0; r_b = -1;
	r_a = tagref_dec_tag(W, WL, &r_tag);
	if (r_a > 0) r_b = tagref_dec_int(W + r_a, WL - (size_t)r_a, 8, &r_l64);
	r_h = tagref_dec_header(W, WL, &r_tag, &r_len);
}

/* after a decoder consumed `used` bytes: exactly W[used..WL) is left, in order */
static void check_rest(size_t used)
{
	size_t i;
	VP_ASSERT(evbuffer_get_length(B) == WL - used, "C42: decoder did not consume exactly one item");
#ifndef VP_NO_REST      /* (walking the chains of a state merged behind a decoder's early return is what costs; C12 owns "contents unchanged") */
	TB_CHECK(B);
	i = vp_size();
	if (i < WL - used)
		VP_ASSERT(TB_BYTE(B, i) == W[used + i], "C42: bytes after the consumed item changed");
#else
	(void)i;
#endif
}

static void dec_run(void)
{
	size_t i;
	(void)i;
#if DEC == DEC_INT || DEC == DEC_INT64 || DEC == DEC_INTI || DEC == DEC_INT64I
	{
		ev_uint64_t rv = 0; int rn, r;
#if DEC == DEC_INT
		ev_uint32_t o = 0; rn = tagref_dec_int(W, WL, 8, &rv); r = evtag_decode_int(&o, B);
#elif DEC == DEC_INT64
		ev_uint64_t o = 0; rn = tagref_dec_int(W, WL, 16, &rv); r = evtag_decode_int64(&o, B);
#elif DEC == DEC_INTI
		ev_uint32_t o = 0; rn = VP_OFF <= WL ? tagref_dec_int(W + VP_OFF, WL - VP_OFF, 8, &rv) : -1; r = decode_int_internal(&o, B, VP_OFF);
#else
		ev_uint64_t o = 0; rn = VP_OFF <= WL ? tagref_dec_int(W + VP_OFF, WL - VP_OFF, 16, &rv) : -1; r = decode_int64_internal(&o, B, VP_OFF);
#endif
		if (r != -1) {
			VP_ASSERT(rn > 0, "C42: integer decoder accepted bytes that are not a well-formed integer");
			VP_ASSERT((ev_uint64_t)o == rv, "C42: integer decoder returned a wrong value");
#if DEC == DEC_INT || DEC == DEC_INT64
			VP_ASSERT(r == 0, "C42: evtag_decode_int returns 0 or -1");
			check_rest((size_t)rn);
#else
			VP_ASSERT(r == rn, "C42: decode_int_internal returned a wrong encoded size");
			check_rest(0);
#endif
			#ifndef VP_NO_ACCEPT   /* (driver: the byte string is too short to hold any well-formed item) */
			VP_WITNESS("C42 integer decoded");
#endif
		} else {
			#ifndef VP_NO_REJECT   /* (driver: every byte string of this length starts with a well-formed item) */
			VP_WITNESS("C42 integer rejected");
#endif
		}
	}
#elif DEC == DEC_TAG || DEC == DEC_PEEK
	{
		ev_uint32_t o = 0;
#if DEC == DEC_TAG
		int r = evtag_decode_tag(&o, B);
#else
		int r = evtag_peek(B, &o);
#endif
		if (r != -1) {
			VP_ASSERT(r_a > 0, "C42: tag decoder accepted bytes that are not a well-formed tag");
			VP_ASSERT(r == r_a, "C42: tag decoder returned a wrong size");
			VP_ASSERT(o == r_tag, "C42: tag decoder returned a wrong tag");
			check_rest(DEC == DEC_TAG ? (size_t)r_a : 0);
#if !defined(KF_ONLY_TAG6) && !defined(VP_NO_ACCEPT)    /* (KF inputs are never a well-formed tag) */
			VP_WITNESS("C42 tag decoded");
#endif
		} else {
			#ifndef VP_NO_REJECT   /* (driver: every byte string of this length starts with a well-formed item) */
			VP_WITNESS("C42 tag rejected");
#endif
		}
	}
#elif DEC == DEC_PEEK_LENGTH || DEC == DEC_PAYLOAD_LENGTH
	{
		/* these two do not require the payload to be present yet: header = tag + length */
		ev_uint32_t o = 0;
#if DEC == DEC_PEEK_LENGTH
		int r = evtag_peek_length(B, &o);
#else
		int r = evtag_payload_length(B, &o);
#endif
		VP_ASSERT(r == 0 || r == -1, "C42: length peekers return 0 or -1");
		if (r == 0) {
			VP_ASSERT(r_a > 0 && r_b > 0, "C42: length peeker accepted bytes that are not a well-formed header");
#if DEC == DEC_PEEK_LENGTH
			VP_ASSERT(o == (ev_uint32_t)(r_l64 + (ev_uint64_t)r_a + (ev_uint64_t)r_b), "C42: evtag_peek_length returned a wrong total length");
#else
			VP_ASSERT(o == (ev_uint32_t)r_l64, "C42: evtag_payload_length returned a wrong length");
#endif
			check_rest(0);
			VP_WITNESS("C42 header peeked");
		} else {
			VP_WITNESS("C42 header rejected");
		}
	}
#elif DEC == DEC_HEADER
	{
		ev_uint32_t o = 0; int r = evtag_unmarshal_header(B, &o);
		if (r != -1) {
			VP_ASSERT(r_h > 0, "C42: evtag_unmarshal_header accepted bytes that are not a well-formed item");
			VP_ASSERT(o == r_tag && (ev_uint32_t)r == r_len, "C42: evtag_unmarshal_header returned a wrong tag or length");
			check_rest((size_t)r_h);
			VP_WITNESS("C42 header decoded");
		} else {
			VP_WITNESS("C42 header rejected");
		}
	}
#elif DEC == DEC_CONSUME
	{
		int r = evtag_consume(B);
		VP_ASSERT(r == 0 || r == -1, "C42: evtag_consume returns 0 or -1");
		if (r == 0) {
			VP_ASSERT(r_h > 0, "C42: evtag_consume accepted bytes that are not a well-formed item");
			check_rest((size_t)r_h + r_len);
			VP_WITNESS("C42 item consumed");
		} else {
			VP_WITNESS("C42 item rejected");
		}
	}
#elif DEC == DEC_UNMARSHAL
	{
		ev_uint32_t o = 0; struct evbuffer *dst = tb_new(); int r;
		r = evtag_unmarshal(B, &o, dst);
		if (r != -1) {
			VP_ASSERT(r_h > 0, "C42: evtag_unmarshal accepted bytes that are not a well-formed item");
			VP_ASSERT(o == r_tag && (ev_uint32_t)r == r_len, "C42: evtag_unmarshal returned a wrong tag or length");
			VP_ASSERT(evbuffer_get_length(dst) == r_len, "C42: evtag_unmarshal delivered a different number of bytes");
			i = vp_size();
			if (i < r_len) VP_ASSERT(TB_BYTE(dst, i) == W[(size_t)r_h + i], "C42: evtag_unmarshal delivered wrong payload bytes");
			check_rest((size_t)r_h + r_len);
			VP_WITNESS("C42 item unmarshalled");
		} else {
			VP_WITNESS("C42 item rejected");
		}
	}
#elif DEC == DEC_UINT || DEC == DEC_UINT64
	{
		ev_uint32_t need = vp_u32(); ev_uint64_t rv = 0; int rn = -1;
#if DEC == DEC_UINT
		ev_uint32_t o = 0; int r = evtag_unmarshal_int(B, need, &o); int maxn = 8;
#else
		ev_uint64_t o = 0; int r = evtag_unmarshal_int64(B, need, &o); int maxn = 16;
#endif
		if (r_h > 0) rn = tagref_dec_int(W + r_h, r_len, maxn, &rv);
		if (r != -1) {
			VP_ASSERT(r_h > 0 && r_tag == need, "C42: evtag_unmarshal_int accepted bytes that are not a well-formed item with the requested tag");
			VP_ASSERT(rn > 0, "C42: evtag_unmarshal_int accepted a payload that is not a well-formed integer");
			VP_ASSERT(r == rn && (ev_uint64_t)o == rv, "C42: evtag_unmarshal_int returned a wrong value");
			check_rest((size_t)r_h + r_len);
			VP_WITNESS("C42 integer item unmarshalled");
		} else {
			VP_WITNESS("C42 integer item rejected");
		}
	}
#elif DEC == DEC_FIXED
	{
		ev_uint32_t need = vp_u32(); unsigned char out[VP_L]; size_t want = vp_range(0, VP_L);
		int r = evtag_unmarshal_fixed(B, need, out, want);
		VP_ASSERT(r == 0 || r == -1, "C42: evtag_unmarshal_fixed returns 0 or -1");
		if (r == 0) {
			VP_ASSERT(r_h > 0 && r_tag == need && r_len == want, "C42: evtag_unmarshal_fixed accepted bytes that are not a well-formed item of the requested tag and length");
			i = vp_size();
			if (i < want) VP_ASSERT(out[i] == W[(size_t)r_h + i], "C42: evtag_unmarshal_fixed delivered wrong payload bytes");
			check_rest((size_t)r_h + r_len);
			VP_WITNESS("C42 fixed item unmarshalled");
		} else {
			VP_WITNESS("C42 fixed item rejected");
		}
	}
#elif DEC == DEC_STRING
	{
		ev_uint32_t need = vp_u32(); char *s = NULL;
		int r = evtag_unmarshal_string(B, need, &s);
		VP_ASSERT(r == 0 || r == -1, "C42: evtag_unmarshal_string returns 0 or -1");
		if (r == 0) {
			VP_ASSERT(r_h > 0 && r_tag == need, "C42: evtag_unmarshal_string accepted bytes that are not a well-formed item with the requested tag");
			VP_ASSERT(s != NULL && s[r_len] == 0, "C42: evtag_unmarshal_string result is not NUL-terminated at the item length");
			i = vp_size();
			if (i < r_len) VP_ASSERT((unsigned char)s[i] == W[(size_t)r_h + i], "C42: evtag_unmarshal_string delivered wrong payload bytes");
			check_rest((size_t)r_h + r_len);
			VP_WITNESS("C42 string item unmarshalled");
		} else {
			VP_WITNESS("C42 string item rejected");
		}
	}
#elif DEC == DEC_TIMEVAL
	{
		ev_uint32_t need = vp_u32(); struct timeval tv; ev_uint64_t s = 0, u = 0; int n1 = -1, n2 = -1;
		int r;
		tv.tv_sec = 0; tv.tv_usec = 0;
		r = evtag_unmarshal_timeval(B, need, &tv);
		if (r_h > 0) n1 = tagref_dec_int(W + r_h, r_len, 8, &s);
		if (n1 > 0) n2 = tagref_dec_int(W + r_h + n1, r_len - (size_t)n1, 8, &u);
		VP_ASSERT(r == 0 || r == -1, "C42: evtag_unmarshal_timeval returns 0 or -1");
		if (r == 0) {
			VP_ASSERT(r_h > 0 && r_tag == need, "C42: evtag_unmarshal_timeval accepted bytes that are not a well-formed item with the requested tag");
			VP_ASSERT(n1 > 0 && n2 > 0, "C42: evtag_unmarshal_timeval accepted a payload that is not two well-formed integers");
			VP_ASSERT((ev_uint64_t)tv.tv_sec == s && (ev_uint64_t)tv.tv_usec == u, "C42: evtag_unmarshal_timeval returned wrong values");
			check_rest((size_t)r_h + r_len);
			VP_WITNESS("C42 timeval item unmarshalled");
		} else {
			VP_WITNESS("C42 timeval item rejected");
		}
	}
#else
#error "unknown DEC"
#endif
}
#endif /* DEC */
#endif
