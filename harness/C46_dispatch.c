/* C46 use sites: the random starting descriptor of poll_dispatch / select_dispatch
 * stays inside the table and every ready descriptor is still reported exactly once. */
#include "vp.h"
#include "log_stub.h"
#include "locks.h"
#include "alloc.h"
#include <poll.h>
#include <sys/select.h>
#ifdef VP_SELECT
#include "select.c"
#else
#include "poll.c"
#endif

#define NFD 3
/* contract of evutil_weakrand_range_ (decided by C46 range_step): any value in [0, top) */
int vp_rr_calls;
ev_int32_t evutil_weakrand_range_(struct evutil_weakrand_state *st, ev_int32_t top)
{
	(void)st; vp_rr_calls++;
	VP_ASSERT(top >= 1, "C46: evutil_weakrand_range_ called with top < 1");
	return (ev_int32_t)vp_range(0, (uint64_t)top - 1);
}
int sigfd_init_(struct event_base *b) { (void)b; return -1; }
int evsig_init_(struct event_base *b) { (void)b; return 0; }
long evutil_tv_to_msec_(const struct timeval *tv) { return tv->tv_sec * 1000 + (tv->tv_usec + 999) / 1000; }
int vp_active_cnt[NFD + 1]; short vp_active_res[NFD + 1]; int vp_active_bad;
void evmap_io_active_(struct event_base *base, evutil_socket_t fd, short events)
{
	(void)base;
	if (fd < 0 || fd > NFD) { vp_active_bad++; return; }
	vp_active_cnt[fd]++; vp_active_res[fd] = events;
}

#ifndef VP_SELECT
static short vp_rev[NFD]; static int vp_poll_ret;
int poll(struct pollfd *fds, nfds_t n, int timeout)
{
	nfds_t i; (void)timeout;
	for (i = 0; i < n && i < NFD; i++) fds[i].revents = vp_rev[i];
	return vp_poll_ret;
}
void harness_poll(void)
{
	struct event_base base; struct pollop pop; struct pollfd set[NFD];
	int n = (int)vp_range(0, NFD), i, nready = 0, r;
	memset(&base, 0, sizeof(base)); memset(&pop, 0, sizeof(pop));
	for (i = 0; i < NFD; i++) {
		set[i].fd = i + 1; set[i].events = POLLIN | POLLOUT; set[i].revents = 0;
		vp_rev[i] = (short)(vp_u8() & (POLLIN | POLLOUT | POLLHUP | POLLERR));
		if (i < n && vp_rev[i]) nready++;
	}
	pop.event_set = set; pop.nfds = n; pop.event_count = NFD;
	base.evbase = &pop;
	vp_poll_ret = nready;
	r = poll_dispatch(&base, NULL);
	VP_ASSERT(r == 0, "poll_dispatch failed");
	VP_ASSERT(vp_active_bad == 0, "C46: poll_dispatch reported a descriptor outside the table");
	for (i = 0; i < NFD; i++) {
		int want = (i < n && vp_rev[i]) ? 1 : 0;
		VP_ASSERT(vp_active_cnt[i + 1] == want, "C46: a ready descriptor was skipped or reported twice for some random start index");
	}
	if (n == NFD && nready == NFD) VP_WITNESS("all three ready");
	if (n == 1) VP_WITNESS("single fd");
}
#else
static fd_set vp_rd, vp_wr; static int vp_sel_ret;
int select(int n, fd_set *r, fd_set *w, fd_set *e, struct timeval *tv)
{
	(void)n; (void)e; (void)tv;
	*r = vp_rd; *w = vp_wr;
	return vp_sel_ret;
}
void harness_select(void)
{
	struct event_base base; struct selectop sop;
	fd_set rin, win, rout, wout;
	int maxfd = (int)vp_range(0, NFD), i, r, nready = 0;
	memset(&base, 0, sizeof(base)); memset(&sop, 0, sizeof(sop));
	FD_ZERO(&rin); FD_ZERO(&win); FD_ZERO(&rout); FD_ZERO(&wout); FD_ZERO(&vp_rd); FD_ZERO(&vp_wr);
	for (i = 0; i <= NFD; i++) {
		if (i <= maxfd && vp_bool()) { FD_SET(i, &vp_rd); }
		if (i <= maxfd && vp_bool()) { FD_SET(i, &vp_wr); }
		if (FD_ISSET(i, &vp_rd) || FD_ISSET(i, &vp_wr)) nready++;
	}
	sop.event_fds = maxfd; sop.event_fdsz = sizeof(fd_set);
	sop.event_readset_in = &rin; sop.event_writeset_in = &win;
	sop.event_readset_out = &rout; sop.event_writeset_out = &wout;
	base.evbase = &sop;
	vp_sel_ret = nready;
	r = select_dispatch(&base, NULL);
	VP_ASSERT(r == 0, "select_dispatch failed");
	VP_ASSERT(vp_active_bad == 0, "C46: select_dispatch reported a descriptor outside the table");
	for (i = 0; i <= NFD; i++) {
		int want = (FD_ISSET(i, &vp_rd) || FD_ISSET(i, &vp_wr)) ? 1 : 0;
		VP_ASSERT(vp_active_cnt[i] == want, "C46: a ready descriptor was skipped or reported twice for some random start index");
		if (want) VP_ASSERT(vp_active_res[i] == ((FD_ISSET(i, &vp_rd) ? EV_READ : 0) | (FD_ISSET(i, &vp_wr) ? EV_WRITE : 0)), "C46: wrong result flags");
	}
	if (maxfd == NFD && nready == NFD + 1) VP_WITNESS("all ready");
	if (maxfd == 0) VP_WITNESS("single fd");
}
#endif
