/* C18/C17 -- filtering bufferevents: bufferevent_filter.c + bufferevent.c + bufferevent_sock.c (underlying socket
 * bufferevent), real code, over the sink evbuffer and recording event stubs; the filter callbacks are harness
 * functions that move a solver-chosen prefix (<= the limit they are given) and return a solver-chosen result.
 *   harness_filter_out : be_filter_process_output (direct, or through bufferevent_write with -DC18_VIA_WRITE)
 *   harness_filter_in  : be_filter_process_input
 * With -DVP_SINK_BYTES=N the same entry points check the byte stream (C17).
 */
#include "vp.h"
#include "log_stub.h"
#include "locks.h"
#include "alloc.h"
#include "bev_pre.h"
#include "bufferevent.c"
#include "bufferevent_sock.c"
#include "bufferevent_filter.c"
#define VP_SINK_DISPATCH(fn, b, i, a) do { \
	if ((fn) == bufferevent_inbuf_wm_cb) bufferevent_inbuf_wm_cb((b), (i), (a)); \
	else if ((fn) == bufferevent_socket_outbuf_cb) bufferevent_socket_outbuf_cb((b), (i), (a)); \
	else if ((fn) == bufferevent_filtered_inbuf_cb) bufferevent_filtered_inbuf_cb((b), (i), (a)); \
	else if ((fn) == bufferevent_filtered_outbuf_cb) bufferevent_filtered_outbuf_cb((b), (i), (a)); \
	else VP_ASSERT(0, "harness: unknown evbuffer callback"); } while (0)
#include "evbuf_sink.h"
#include "bev_env.h"
#include "bev_user.h"

const struct bufferevent_ops bufferevent_ops_pair = { "pair-not-linked", 0, NULL, NULL, NULL, NULL, NULL, NULL, NULL };

#define FD 5
#define F 0              /* u_bev[F]: the filtering bufferevent (application callbacks) */
static struct bufferevent *g_under;
static struct bufferevent_filtered *g_bevf;
static int g_ctx;
#ifndef C18_MAXCALLS
#define C18_MAXCALLS 3
#endif
/* filter call log */
static int f_calls, f_in_calls, f_out_calls, f_limit_bad, f_bufs_bad, f_moved_total;
static long f_last_lim; static int f_last_mode;
static size_t f_moved[C18_MAXCALLS + 1];

static int w_above_low;
static void app_hook(int who, int kind, short what)
{
	(void)what;
	if (kind == U_WRITE && evbuffer_get_length(u_bev[who]->output) > u_bev[who]->wm_write.low) w_above_low = 1;
}
static enum bufferevent_filter_result h_filter(struct evbuffer *src, struct evbuffer *dst, ev_ssize_t lim,
    enum bufferevent_flush_mode mode, void *ctx, int is_out)
{
	size_t k = 0, avail = evbuffer_get_length(src);
	unsigned r;
	VP_ASSERT(ctx == &g_ctx, "C17: filter got the wrong context");
	if (is_out) { if (src != u_bev[F]->output || dst != g_under->output) f_bufs_bad = 1; }
	else { if (src != g_under->input || dst != u_bev[F]->input) f_bufs_bad = 1; }
	f_last_lim = (long)lim; f_last_mode = mode;
	/* what be_filter_process_* must pass: the room below the relevant high mark in normal mode, otherwise "no limit" */
	{
		size_t high = is_out ? g_under->wm_write.high : u_bev[F]->wm_read.high;
		size_t have = evbuffer_get_length(dst);
		if (mode == BEV_NORMAL && high != 0) {
			if (!(have < high && lim == (ev_ssize_t)(high - have))) f_limit_bad = 1;
		} else if (lim != -1) f_limit_bad = 1;
	}
	if (f_calls >= C18_MAXCALLS) { f_calls++; return BEV_NEED_MORE; }     /* the filter wants more input before producing */
	k = vp_size();
	__CPROVER_assume(k <= avail && (lim < 0 || k <= (size_t)lim));
	if (k) {
#ifdef VP_SINK_BYTES
		/* a real transformation: every byte is XORed with 0x5a on its way through the filter */
		unsigned char tmp[VP_SINK_BYTES]; size_t j; int n;
		n = evbuffer_remove(src, tmp, k);
		VP_ASSERT(n == (int)k, "harness: filter could not take its bytes");
		for (j = 0; j < VP_SINK_BYTES; j++) tmp[j] ^= 0x5a;
		n = evbuffer_add(dst, tmp, k);
		VP_ASSERT(n == 0, "harness: filter could not emit its bytes");
#else
		int n = evbuffer_remove_buffer(src, dst, k);
		VP_ASSERT(n == (int)k, "harness: filter could not move its bytes");
#endif
	}
	f_moved[f_calls] = k; f_moved_total += (k != 0);
	f_calls++;
	if (is_out) f_out_calls++; else f_in_calls++;
	r = (unsigned)vp_range(0, 2);
	if (k) return BEV_OK;                                     /* produced output: BEV_NEED_MORE would mean "nothing produced yet" */
	return r == 0 ? BEV_ERROR : BEV_NEED_MORE;                /* consumed nothing: must not claim progress */
}
static enum bufferevent_filter_result h_filter_in(struct evbuffer *src, struct evbuffer *dst, ev_ssize_t lim, enum bufferevent_flush_mode mode, void *ctx) { return h_filter(src, dst, lim, mode, ctx, 0); }
static enum bufferevent_filter_result h_filter_out(struct evbuffer *src, struct evbuffer *dst, ev_ssize_t lim, enum bufferevent_flush_mode mode, void *ctx) { return h_filter(src, dst, lim, mode, ctx, 1); }

#ifdef VP_SINK_BYTES
/* A STATEFUL output filter (block cipher / compressor / framing style): in BEV_NORMAL mode it consumes everything it is
 * offered but keeps a solver-chosen tail of up to 2 bytes to itself; in BEV_FLUSH / BEV_FINISHED mode it emits what it
 * holds.  Bytes pass through unchanged, so the stream the underlying bufferevent gets must equal what was written. */
static unsigned char s_held[2]; static size_t s_nheld; static int s_calls, s_flush_calls;
static enum bufferevent_filter_result s_filter_out(struct evbuffer *src, struct evbuffer *dst, ev_ssize_t lim,
    enum bufferevent_flush_mode mode, void *ctx)
{
	unsigned char buf[VP_SINK_BYTES + 2]; size_t k = evbuffer_get_length(src), tot, keep, j, emit;
	(void)lim; (void)ctx;
	s_calls++;
	if (mode != BEV_NORMAL) s_flush_calls++;
	VP_ASSERT(k <= VP_SINK_BYTES, "harness bound");
	for (j = 0; j < 2; j++) buf[j] = s_held[j];
	if (k) { unsigned char tmp[VP_SINK_BYTES]; int n = evbuffer_remove(src, tmp, k); VP_ASSERT(n == (int)k, "harness: filter could not take its bytes");
		for (j = 0; j < VP_SINK_BYTES; j++) if (j < k) buf[s_nheld + j] = tmp[j]; }
	tot = s_nheld + k;
	keep = mode == BEV_NORMAL ? (size_t)vp_range(0, 2) : 0;
	if (keep > tot) keep = tot;
	emit = tot - keep;
	if (emit) { int n = evbuffer_add(dst, buf, emit); VP_ASSERT(n == 0, "harness: filter could not emit its bytes"); }
	for (j = 0; j < 2; j++) s_held[j] = (j < keep) ? buf[emit + j] : 0;
	s_nheld = keep;
	return (emit || k) ? BEV_OK : BEV_NEED_MORE;
}
#endif
static bufferevent_filter_cb g_out_filter = NULL;
static void setup_filter(void)
{
	static int base_obj;
	struct bufferevent *f;
	g_under = bufferevent_socket_new((struct event_base *)&base_obj, FD, 0);
	__CPROVER_assume(g_under != NULL);
	f = bufferevent_filter_new(g_under, h_filter_in, g_out_filter ? g_out_filter : h_filter_out, 0, NULL, &g_ctx);
	__CPROVER_assume(f != NULL);
	u_install(F, f);
	u_hook = app_hook;
	g_bevf = upcast(f);
	/* watermark callback of the filter's input installed with concrete marks (see C18_watermarks.c: setup) */
	bufferevent_setwatermark(f, EV_READ, 0, 1);
	bufferevent_setwatermark(f, EV_READ, 0, 0);
}

#ifndef C18_MODE
#define C18_MODE BEV_NORMAL
#endif
/* lengths and marks are bounded here (three chained transfers of 64-bit symbolic sizes are beyond the SAT back end;
 * the arithmetic in be_filter_process_* is the same subtraction/comparison at every width) */
#ifndef C18_LEN_MAX
#ifdef VP_SINK_BYTES
#define C18_LEN_MAX (VP_SINK_BYTES / 2)
#else
#define C18_LEN_MAX 0xffff
#endif
#endif
#ifdef VP_SINK_BYTES
static unsigned char pre_a[VP_SINK_BYTES], pre_b[VP_SINK_BYTES];
/* after the step: `to` == pre_to[0..T) ++ xor(pre_from[0..moved)), `from` == pre_from[moved..) */
static void check_bytes(struct evbuffer *from, struct evbuffer *to, size_t Fn, size_t T)
{
	size_t T1 = evbuffer_get_length(to), F1 = evbuffer_get_length(from), moved = T1 - T, i;
	VP_ASSERT(F1 == Fn - moved, "C17: filter step lost or duplicated bytes");
	for (i = 0; i < VP_SINK_BYTES; i++) {
		if (i < T) VP_ASSERT(vp_sink_at(to, i) == pre_b[i], "C17: bytes already delivered were modified by the filter step");
		else if (i < T1) VP_ASSERT(vp_sink_at(to, i) == (unsigned char)(pre_a[i - T] ^ 0x5a), "C17: filtered bytes are not the transformed prefix of the pending bytes, in order");
		if (i < F1) VP_ASSERT(vp_sink_at(from, i) == pre_a[i + moved], "C17: bytes left behind by the filter are not the unprocessed suffix");
	}
}
#endif

void harness_filter_out(void)
{
	size_t U = vp_size(), O = vp_size(), H = vp_size(), wlow = vp_size(), U1, O1;
	int en = vp_bool(), processed = 0, res;
	setup_filter();
	__CPROVER_assume(U <= C18_LEN_MAX && O <= C18_LEN_MAX && H <= C18_LEN_MAX && wlow <= C18_LEN_MAX);
	bufferevent_setwatermark(g_under, EV_WRITE, 0, H);
	bufferevent_setwatermark(u_bev[F], EV_WRITE, wlow, 0);
	if (!en) bufferevent_disable(u_bev[F], EV_WRITE);
#ifdef VP_SINK_BYTES
	vp_bytes(pre_a, VP_SINK_BYTES); vp_bytes(pre_b, VP_SINK_BYTES);
	vp_sink_preset(g_under->output, pre_b, U);
	vp_sink_preset(u_bev[F]->output, pre_a, O);
#else
	vp_sink_preset(g_under->output, NULL, U);
	vp_sink_preset(u_bev[F]->output, NULL, O);
#endif
	if (U) event_add(&g_under->ev_write, NULL);      /* as bufferevent_socket_outbuf_cb leaves it with output pending */

	bufferevent_incref_and_lock_(u_bev[F]);
	res = be_filter_process_output(g_bevf, C18_MODE, &processed);
	bufferevent_decref_and_unlock_(u_bev[F]);

	U1 = evbuffer_get_length(g_under->output); O1 = evbuffer_get_length(u_bev[F]->output);
	VP_ASSERT_NO_LOCKS("be_filter_process_output");
	VP_ASSERT(!f_bufs_bad && f_in_calls == 0, "C17: output filter called with the wrong buffers");
	VP_ASSERT(!f_limit_bad, "C18: output filter not given exactly the room below the underlying high write watermark");
	VP_ASSERT(U1 + O1 == U + O && U1 >= U, "C17: bytes lost or duplicated by output filtering");
#ifdef VP_SINK_BYTES
	check_bytes(u_bev[F]->output, g_under->output, O, U);
#endif
	if (C18_MODE == BEV_NORMAL) {
		VP_ASSERT(H == 0 || U1 <= (U > H ? U : H), "C18: the filter wrote past the underlying high write watermark");
		if (!en || O == 0 || (H != 0 && U >= H))
			VP_ASSERT(f_calls == 0, "C18: output filter urged although not writing / underlying full / nothing to write");
		else
			VP_ASSERT(f_calls >= 1, "C18: output filter not run although it could make progress");
	}
	/* write callback of the filtering bufferevent: only after the filter made progress, only at/below its low write mark */
	VP_ASSERT(processed || u_writes[F] == 0, "C18: write callback although the filter processed nothing");
	VP_ASSERT(!w_above_low, "C18: filter write callback ran with output above the low write watermark");
	VP_ASSERT(evbuffer_get_length(g_under->output) == 0 || vp_ev_io_pending(&g_under->ev_write), "C17: filtered data queued on the underlying bufferevent but its write event is not pending");
	VP_ASSERT((g_bevf->outbuf_cb->flags & EVBUFFER_CB_ENABLED), "C17: output callback left disabled");
	(void)res;
#ifndef C18_NOT_NORMAL
	if (f_calls == 0) VP_WITNESS("filter not urged");
#endif
	if (U1 > U && H && U1 == H) VP_WITNESS("underlying filled exactly to its high write mark");
	if (f_calls >= 2 && f_moved[0] && f_moved[1]) VP_WITNESS("two productive filter calls");
	if (u_writes[F]) VP_WITNESS("write callback ran");
}

void harness_filter_in(void)
{
	size_t U = vp_size(), I = vp_size(), H = vp_size(), low = vp_size(), U1, I1;
	int en = vp_bool(), processed = 0, res;
	setup_filter();
	__CPROVER_assume(U <= C18_LEN_MAX && I <= C18_LEN_MAX && H <= C18_LEN_MAX && low <= C18_LEN_MAX);
#ifdef VP_SINK_BYTES
	vp_bytes(pre_a, VP_SINK_BYTES); vp_bytes(pre_b, VP_SINK_BYTES);
	vp_sink_preset(u_bev[F]->input, pre_b, I);
#else
	vp_sink_preset(u_bev[F]->input, NULL, I);
#endif
	bufferevent_setwatermark(u_bev[F], EV_READ, low, H);
	if (en) bufferevent_enable(u_bev[F], EV_READ);
#ifdef VP_SINK_BYTES
	vp_sink_preset(g_under->input, pre_a, U);
#else
	vp_sink_preset(g_under->input, NULL, U);
#endif

	bufferevent_incref_and_lock_(u_bev[F]);
	res = be_filter_process_input(g_bevf, C18_MODE, &processed);
	bufferevent_decref_and_unlock_(u_bev[F]);

	U1 = evbuffer_get_length(g_under->input); I1 = evbuffer_get_length(u_bev[F]->input);
	VP_ASSERT_NO_LOCKS("be_filter_process_input");
	VP_ASSERT(!f_bufs_bad && f_out_calls == 0, "C17: input filter called with the wrong buffers");
	VP_ASSERT(!f_limit_bad, "C18: input filter not given exactly the room below the high read watermark");
	VP_ASSERT(U1 + I1 == U + I && I1 >= I, "C17: bytes lost or duplicated by input filtering");
#ifdef VP_SINK_BYTES
	check_bytes(g_under->input, u_bev[F]->input, U, I);
#endif
	if (C18_MODE == BEV_NORMAL) {
		VP_ASSERT(H == 0 || I1 <= (I > H ? I : H), "C18: filtered input passed the high read watermark");
		if (!en || (H != 0 && I >= H))
			VP_ASSERT(f_calls == 0, "C18: input filter urged although not reading / input at its high watermark");
	}
	VP_ASSERT(((U_PRIV(F)->read_suspended & BEV_SUSPEND_WM) != 0) == (H != 0 && I1 >= H), "C18: filter bufferevent watermark-suspended iff its high read watermark is reached");
	(void)res; (void)processed;
#ifndef C18_NOT_NORMAL
	if (f_calls == 0) VP_WITNESS("filter not urged");
#endif
	if (I1 > I && H && I1 == H) VP_WITNESS("input filled exactly to its high read mark");
	if (f_calls >= 2 && f_moved[0] && f_moved[1]) VP_WITNESS("two productive filter calls");
}

/* C17: the underlying bufferevent delivers U bytes and then EOF; the filtering bufferevent has a read high-water mark.
 * "EOF is reported only after every byte written before the shutdown has been delivered."
 *   -DKF_EXCLUDE_filter_eof : assume nothing is left in the underlying input when the EOF arrives (no mark in the way)
 *   -DKF_ONLY_filter_eof    : assume something is left (the recorded finding: EOF overtakes it) */
static size_t eof_left_behind; static int eof_seen;
static void eof_hook(int who, int kind, short what)
{
	(void)who;
	if (kind == U_EVENT && (what & BEV_EVENT_EOF)) { eof_seen++; eof_left_behind = evbuffer_get_length(g_under->input); }
}
void harness_filter_eof(void)
{
	size_t U = (size_t)vp_range(1, C18_LEN_MAX), H = (size_t)vp_range(0, C18_LEN_MAX), left;
	setup_filter();
	u_hook = eof_hook;
	bufferevent_setwatermark(u_bev[F], EV_READ, 0, H);
	bufferevent_enable(u_bev[F], EV_READ);
#ifdef VP_SINK_BYTES
	vp_bytes(pre_a, VP_SINK_BYTES);
	vp_sink_preset(g_under->input, pre_a, U);
#else
	vp_sink_preset(g_under->input, NULL, U);
#endif
	/* the underlying socket bufferevent read U bytes: it runs its read callback, which is the filter's */
	be_filter_readcb(g_under, g_bevf);
	left = evbuffer_get_length(g_under->input);
#ifdef KF_EXCLUDE_filter_eof
	__CPROVER_assume(left == 0);
#endif
#ifdef KF_ONLY_filter_eof
	__CPROVER_assume(left != 0);
#endif
	VP_ASSERT(u_reads[F] >= 1 || evbuffer_get_length(u_bev[F]->input) == 0, "C17: filtered data buffered but no read callback");
	/* ... and then saw EOF: it runs its event callback, which is the filter's */
	be_filter_eventcb(g_under, BEV_EVENT_READING | BEV_EVENT_EOF, g_bevf);
	VP_ASSERT(eof_seen == 1 && u_last_what[F] == (BEV_EVENT_READING | BEV_EVENT_EOF), "C17: EOF of the underlying bufferevent must be passed on exactly once");
	VP_ASSERT(eof_left_behind == 0, "C17: EOF reported while bytes received before it are still waiting in the underlying input buffer");
	VP_ASSERT_NO_LOCKS("filter eof");
	VP_WITNESS("EOF passed on");
}

#ifdef VP_SINK_BYTES
/* C17 "for any ... flush mode": write n bytes through the stateful filter, then bufferevent_flush(EV_WRITE, mode):
 * after the flush the underlying output holds exactly the bytes written, in order -- nothing stays inside the filter */
#ifndef C17_FLUSH_MODE
#define C17_FLUSH_MODE BEV_FLUSH
#endif
#ifndef C17_N1
#define C17_N1 3
#endif
#ifndef C17_N2
#define C17_N2 2
#endif
void harness_filter_flush_stateful(void)
{
	unsigned char d[VP_SINK_BYTES];
	/* sizes are concrete (the loops of be_filter_process_output are driven by buffer lengths); bytes and the size of the
	 * tail the filter keeps are symbolic */
	size_t n = C17_N1, n2 = C17_N2, i, tot;
	int r;
	g_out_filter = s_filter_out;
	setup_filter();
	vp_bytes(d, VP_SINK_BYTES);
	r = bufferevent_write(u_bev[F], d, n);
	VP_ASSERT(r == 0, "C17: bufferevent_write on a filter failed");
	if (n2) { r = bufferevent_write(u_bev[F], d + n, n2); VP_ASSERT(r == 0, "C17: bufferevent_write on a filter failed"); }
	tot = n + n2;
	VP_ASSERT(evbuffer_get_length(u_bev[F]->output) == 0, "C17: the filter was offered the queued bytes and takes them all");
	VP_ASSERT(evbuffer_get_length(g_under->output) + s_nheld == tot, "C17: bytes lost before the flush");
	r = bufferevent_flush(u_bev[F], EV_WRITE, C17_FLUSH_MODE);
	VP_ASSERT(s_flush_calls >= 1, "C17: flush did not call the output filter (it may hold data although the output buffer is empty)");
	VP_ASSERT(s_nheld == 0 && evbuffer_get_length(g_under->output) == tot, "C17: bytes written before the flush were not all handed to the underlying bufferevent");
	for (i = 0; i < VP_SINK_BYTES; i++)
		if (i < tot) VP_ASSERT(vp_sink_at(g_under->output, i) == d[i], "C17: bytes delivered after the flush differ from the bytes written (order/loss)");
	VP_ASSERT(vp_ev_io_pending(&g_under->ev_write), "C17: flushed data queued on the underlying bufferevent but its write event is not pending");
	VP_ASSERT_NO_LOCKS("filter flush");
	if (s_calls >= 2 && s_flush_calls == 1) VP_WITNESS("filter held a tail and emitted it on flush");
	VP_WITNESS("flushed");
}
#endif
