/* C38 (numeric fast path): the real evutil_getaddrinfo_common_ / evutil_parse_servname / evutil_new_addrinfo_ of
 * evutil.c on a NULL node, a numeric IPv4 / IPv6 node and a host name (one node per obligation), a solver-chosen
 * service text and solver-chosen hints.  Decided: numeric and NULL nodes are answered here (no resolver needed) with
 * the right address, the service's port, socktype/protocol inferred from the hints (a TCP+UDP pair when both are
 * open); host names ask for the resolver (EVUTIL_EAI_NEED_RESOLVE, port handed on) unless EVUTIL_AI_NUMERICHOST; a
 * service is a decimal number 0..65535 or a name known to getservbyname.
 * libc contracts: strtol (any value, end pointer anywhere in the text), getservbyname (unknown, or a solver-chosen port).
 * The address syntax (evutil_inet_pton) is decided in C40; here the nodes are literals. */
#include "vp.h"
#include "log_stub.h"
#include "locks.h"
#include "alloc.h"
#include <net/if.h>
#include <netdb.h>
unsigned int if_nametoindex(const char *name) { (void)name; return 0; }
#include "inet_fmt.h"        /* sscanf model used by evutil_inet_pton (C40) */
/* strtol contract (replaces the model of inet_fmt.h for the service text) */
static long c38_l; static int c38_l_whole, c38_strtol_calls;
static long c38_strtol(const char *s, char **endp, int base)
{
	size_t n = 0, k; long lv;
	if (base != 10) return (strtol)(s, endp, base);     /* hex groups of evutil_inet_pton: the model of inet_fmt.h */
	while (s[n]) n++;
	c38_strtol_calls++;
	if (vp_bool()) k = n; else { k = (size_t)vp_input(); __CPROVER_assume(k < n); }
	lv = (long)vp_u64();
	if (k == 0) lv = 0;
	if (endp) *endp = (char *)s + k;
	c38_l = lv; c38_l_whole = (k == n);
#if defined(KF_EXCLUDE_SERV_WRAP)
	__CPROVER_assume(!(c38_l_whole && (lv > 2147483647L || lv < -2147483647L - 1L)));
#elif defined(KF_ONLY_SERV_WRAP)
	__CPROVER_assume(c38_l_whole && (lv > 2147483647L || lv < -2147483647L - 1L) && n > 0);
#endif
	return lv;
}
static struct servent c38_servent; static int c38_serv_known, c38_serv_calls;
static struct servent *c38_getservbyname(const char *name, const char *proto)
{
	(void)name; (void)proto; c38_serv_calls++;
	if (!c38_serv_known) return NULL;
	return &c38_servent;
}
#ifdef VP_CBMC
static void *c38_memset_b(void *d, int c, size_t n) { size_t i; for (i = 0; i < n; i++) ((unsigned char *)d)[i] = (unsigned char)c; return d; }
#define memset(d, c, n) (__builtin_constant_p(n) ? (memset)((d), (c), (n)) : c38_memset_b((d), (c), (n)))
#endif
#define getservbyname(n, p) c38_getservbyname((n), (p))
#define strtol(s, e, b) c38_strtol((s), (e), (b))
#include "evutil.c"
#undef strtol
#include "strlcpy.c"

#ifndef C38_NODE
#define C38_NODE 0      /* 0 NULL, 1 "10.0.0.1", 2 "::1", 3 "a" */
#endif
#ifndef C38_SN
#define C38_SN 3
#endif
void harness_numeric(void)
{
	struct evutil_addrinfo hints, *res = NULL, *ai; static const struct evutil_addrinfo z;
	char serv[C38_SN + 1]; size_t sl = (size_t)vp_range(0, C38_SN), i; int have_serv = vp_bool(), r, port = -7, want_port = 0, serv_ok = 1, fam, n = 0, per;
	/* (16-byte objects: evutil_inet_pton forms `src + 4` for its group-length test, which must stay inside the object) */
	/* the literals sit inside larger objects: evutil_inet_pton steps one byte in front of the text (`eow = dot - 1 ... --eow`)
	 * and forms `src + 4` behind it; whether that pointer arithmetic stays inside an exact-size object is C40's question */
	static const char n1[24] = { 0, 0, 0, 0, '1', '0', '.', '0', '.', '0', '.', '1', 0 }, n2[24] = { 0, 0, 0, 0, ':', ':', '1', 0 }, n3[24] = { 0, 0, 0, 0, 'a', 0 };
	const char *node = C38_NODE == 0 ? NULL : C38_NODE == 1 ? n1 + 4 : C38_NODE == 2 ? n2 + 4 : n3 + 4;
	hints = z;
	fam = (int)vp_range(0, 3); hints.ai_family = fam == 0 ? PF_UNSPEC : fam == 1 ? PF_INET : fam == 2 ? PF_INET6 : PF_UNIX;
	{ int st = (int)vp_range(0, 2), pr = (int)vp_range(0, 2); hints.ai_socktype = st == 0 ? 0 : st == 1 ? SOCK_STREAM : SOCK_DGRAM; hints.ai_protocol = pr == 0 ? 0 : pr == 1 ? IPPROTO_TCP : IPPROTO_UDP; }
	if (vp_bool()) hints.ai_flags |= EVUTIL_AI_PASSIVE;
	if (vp_bool()) hints.ai_flags |= EVUTIL_AI_NUMERICHOST;
	if (vp_bool()) hints.ai_flags |= EVUTIL_AI_NUMERICSERV;
	for (i = 0; i < C38_SN; i++) { serv[i] = (char)vp_u8(); if (i < sl) __CPROVER_assume(serv[i] != 0); else serv[i] = 0; }
	serv[C38_SN] = 0;
	c38_serv_known = vp_bool(); c38_servent.s_port = (int)vp_u16();
	r = evutil_getaddrinfo_common_(node, have_serv ? serv : NULL, &hints, &res, &port);
	/* ---- reference ---- */
	if (have_serv) {
		if (sl > 0 && c38_l_whole && c38_l >= 0 && c38_l <= 65535) want_port = (int)c38_l;     /* a decimal port */
		else if (!(hints.ai_flags & EVUTIL_AI_NUMERICSERV) && c38_serv_known) want_port = ntohs((ev_uint16_t)c38_servent.s_port);
		else serv_ok = 0;
	}
	if (node == NULL && !have_serv) { VP_ASSERT(r == EVUTIL_EAI_NONAME, "C38: neither node nor service: EAI_NONAME"); return; }
	if (fam == 3) { VP_ASSERT(r == EVUTIL_EAI_FAMILY, "C38: unsupported family: EAI_FAMILY"); return; }
	if (!serv_ok) { VP_ASSERT(r == EVUTIL_EAI_NONAME && res == NULL, "C38: a service that is neither a port 0..65535 nor a known name must be refused"); VP_WITNESS("C38 numeric: bad service refused"); return; }
	per = (hints.ai_socktype == 0 && hints.ai_protocol == 0) ? 2 : 1;
#if C38_NODE == 3
	if (hints.ai_flags & EVUTIL_AI_NUMERICHOST) VP_ASSERT(r == EVUTIL_EAI_NONAME, "C38: host name with AI_NUMERICHOST: EAI_NONAME");
	else { VP_ASSERT(r == EVUTIL_EAI_NEED_RESOLVE && port == want_port && res == NULL, "C38: host name: resolver needed, port handed on"); VP_WITNESS("C38 numeric: host name needs the resolver"); }
	return;
#else
	if ((C38_NODE == 1 && fam == 2) || (C38_NODE == 2 && fam == 1)) {      /* numeric address of the other family */
		VP_ASSERT(r != 0 && res == NULL, "C38: numeric address of a family the hints exclude must not be answered");
		return;
	}
	VP_ASSERT(r == 0 && res != NULL, "C38: numeric / NULL node must be answered without the resolver");
	for (ai = res; ai && n < 6; ai = ai->ai_next) {
		int k = n % per;
		VP_ASSERT(ai->ai_addr != NULL && ai->ai_family == ai->ai_addr->sa_family, "C38: family of an entry");
		if (ai->ai_family == AF_INET) {
			struct sockaddr_in *s4 = (struct sockaddr_in *)ai->ai_addr;
			VP_ASSERT(s4->sin_port == htons((ev_uint16_t)want_port), "C38: port of a numeric answer is not the service's port");
			VP_ASSERT(s4->sin_addr.s_addr == (C38_NODE == 1 ? htonl(0x0a000001) : (hints.ai_flags & EVUTIL_AI_PASSIVE) ? 0 : htonl(0x7f000001)), "C38: IPv4 address of a numeric / NULL-node answer");
			VP_ASSERT(ai->ai_addrlen == sizeof(struct sockaddr_in), "C38: ai_addrlen");
		} else {
			struct sockaddr_in6 *s6 = (struct sockaddr_in6 *)ai->ai_addr; int b, zero = 1;
			VP_ASSERT(s6->sin6_port == htons((ev_uint16_t)want_port), "C38: port of a numeric answer is not the service's port");
			for (b = 0; b < 15; b++) if (s6->sin6_addr.s6_addr[b]) zero = 0;
			VP_ASSERT(zero && s6->sin6_addr.s6_addr[15] == ((C38_NODE == 2 || !(hints.ai_flags & EVUTIL_AI_PASSIVE)) ? 1 : 0), "C38: IPv6 address of a numeric / NULL-node answer");
			VP_ASSERT(ai->ai_addrlen == sizeof(struct sockaddr_in6), "C38: ai_addrlen");
		}
		if (per == 2) VP_ASSERT(k == 0 ? (ai->ai_socktype == SOCK_STREAM && ai->ai_protocol == IPPROTO_TCP) : (ai->ai_socktype == SOCK_DGRAM && ai->ai_protocol == IPPROTO_UDP), "C38: open hints give a TCP and a UDP entry");
		else VP_ASSERT(ai->ai_socktype == hints.ai_socktype && ai->ai_protocol == hints.ai_protocol && ai->ai_socktype != 0, "C38: socktype/protocol inferred from the hints");
		n++;
	}
	VP_ASSERT(ai == NULL && n == per * ((C38_NODE == 0 && fam == 0) ? 2 : 1), "C38: number of entries of a numeric / NULL-node answer");
	if (C38_NODE == 0 && fam == 0) VP_ASSERT(res->ai_family == AF_INET, "C38: NULL node: IPv4 entries first");
	if (want_port > 1000 && per == 2) VP_WITNESS("C38 numeric: answered with a TCP+UDP pair and a port");
	if (have_serv && sl > 0 && c38_strtol_calls && c38_l_whole) VP_WITNESS("C38 numeric: decimal service");
	evutil_freeaddrinfo(res);
#endif
}
