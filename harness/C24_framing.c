/* C24 (b): body framing of a response.  The real evhttp_read_header() (end of
 * the header section -> evhttp_response_needs_body() -> evhttp_get_body() ->
 * evhttp_get_body_length() / evhttp_find_header()) on a response whose header
 * list holds up to 3 fields with fixed names (-DVP_K0.. as in C23_framing.c)
 * and symbolic values (<= VP_V bytes), symbolic status code and request method,
 * against ref_response_body() (RFC 9112 section 6.3).
 *
 * The header list is built with the library's evhttp_add_header(); the header
 * section is closed by one empty line from the line supplier (env/http_lines.h).
 * Cut (--replace-calls): the continuations are recorders: evhttp_connection_done
 * (= complete, no body), evhttp_connection_fail_ (= failed), evhttp_read_body
 * (= body framing per req->chunked / req->ntoread), evhttp_send_error,
 * evhttp_lingering_fail, evhttp_send_continue, evhttp_start_write_.
 *
 * Known-finding predicate KF_KEEPALIVE_NOLEN: no Transfer-Encoding, no
 * Content-Length, and a Connection field whose value is not "close": the code
 * takes the body to be empty (ntoread = 0) where RFC 9112 6.3 item 8 says the
 * body ends when the server closes the connection.
 */
#include "vp.h"
#include "log_stub.h"
#include "http_fmt.h"
#include "http_alloc.h"
#include "http_evutil.h"
#include "http.c"
#ifndef VP_V
#define VP_V 8
#endif
#define VP_L 1
#define VP_N 2
#include "http_lines.h"
#define REF_MAXLINES 3
#define REF_MAXLINE (VP_V + 1)
#include "http_ref.h"

static int vp_done_calls, vp_fail_calls, vp_readbody_calls, vp_other_calls;
static int vp_rb_chunked; static ev_int64_t vp_rb_ntoread;
void vp_cut_connection_done(struct evhttp_connection *evcon) { (void)evcon; vp_done_calls++; }
void vp_cut_connection_fail(struct evhttp_connection *evcon, enum evhttp_request_error e) { (void)evcon; (void)e; vp_fail_calls++; }
void vp_cut_read_body(struct evhttp_connection *evcon, struct evhttp_request *req) { (void)evcon; vp_readbody_calls++; vp_rb_chunked = req->chunked; vp_rb_ntoread = req->ntoread; }
void vp_cut_send_error(struct evhttp_request *req, int error, const char *reason) { (void)req; (void)error; (void)reason; vp_other_calls++; }
void vp_cut_lingering_fail(struct evhttp_connection *evcon, struct evhttp_request *req) { (void)evcon; (void)req; vp_other_calls++; }
void vp_cut_send_continue(struct evhttp_connection *evcon, struct evhttp_request *req) { (void)evcon; (void)req; vp_other_calls++; }
void vp_cut_start_write(struct evhttp_connection *evcon) { (void)evcon; vp_other_calls++; }

static struct bufferevent vp_bev;
static char vp_inbuf_identity;
struct evbuffer *bufferevent_get_input(struct bufferevent *b) { (void)b; return (struct evbuffer *)&vp_inbuf_identity; }
struct evbuffer *bufferevent_get_output(struct bufferevent *b) { (void)b; return (struct evbuffer *)&vp_inbuf_identity; }
evutil_socket_t bufferevent_getfd(struct bufferevent *b) { (void)b; return 5; }

static const char *const vp_names[] = { "", "Content-Length", "Transfer-Encoding", "content-length", "TRANSFER-ENCODING", "Connection", "X-Y" };
#ifndef VP_K0
#define VP_K0 1
#endif
#ifndef VP_K1
#define VP_K1 0
#endif
#ifndef VP_K2
#define VP_K2 0
#endif
static const unsigned vp_kinds[3] = { VP_K0, VP_K1, VP_K2 };
#define VP_NFIELDS ((VP_K0 != 0) + (VP_K1 != 0) + (VP_K2 != 0))
#define VP_IS_CL(k) ((k) == 1 || (k) == 3)
#define VP_IS_TE(k) ((k) == 2 || (k) == 4)
#define VP_HAS_CL (VP_IS_CL(VP_K0) || VP_IS_CL(VP_K1) || VP_IS_CL(VP_K2))
#define VP_HAS_TE (VP_IS_TE(VP_K0) || VP_IS_TE(VP_K1) || VP_IS_TE(VP_K2))
#define VP_NUM_TE (VP_IS_TE(VP_K0) + VP_IS_TE(VP_K1) + VP_IS_TE(VP_K2))
#define VP_HAS_CO ((VP_K0) == 5 || (VP_K1) == 5 || (VP_K2) == 5)

static char vp_val[3][VP_V + 1];
static size_t vp_vlen[3];

void harness_framing(void)
{
	struct evhttp_request req;
	struct evhttp_connection evcon;
	struct evkeyvalq in_headers;
	struct ref_field F[3];
	unsigned nf = VP_NFIELDS, i, k, permitted;
	unsigned long long ref_len = 0;
	int keepalive_nolen = 0, te_exact = 1;
	static const enum evhttp_cmd_type types[] = { EVHTTP_REQ_GET, EVHTTP_REQ_HEAD, EVHTTP_REQ_CONNECT, EVHTTP_REQ_POST };
	static const unsigned rtypes[] = { REF_REQ_GET, REF_REQ_HEAD, REF_REQ_CONNECT, REF_REQ_POST };
	static const int codes[] = { 200, 204, 304, 404, 407, 101, 299, 500 };
	unsigned ti = (unsigned)vp_range(0, 3);
	int code = codes[vp_range(0, 7)];

	memset(&req, 0, sizeof(req));
	memset(&evcon, 0, sizeof(evcon));
	TAILQ_INIT(&in_headers);
	req.input_headers = &in_headers;
	req.evcon = &evcon;
	req.kind = EVHTTP_RESPONSE;
	req.major = 1; req.minor = 1;
	req.type = types[ti];
	req.response_code = code;
	req.ntoread = -1;
	evcon.bufev = &vp_bev;
	evcon.max_body_size = EV_UINT64_MAX;
	evcon.max_headers_size = EV_SIZE_MAX;
	evcon.state = EVCON_READING_HEADERS;
	/* the header section ends: one empty line is buffered */
	vp_lines_buf = (struct evbuffer *)&vp_inbuf_identity;
	vp_nlines = 1; vp_line_len[0] = 0; vp_line_term[0] = 2; vp_lines[0][0] = '\0';

	for (i = 0; i < 3; i++) {
		if (i >= nf) break;
		vp_bytes(vp_val[i], VP_V);
		vp_vlen[i] = (size_t)vp_range(0, VP_V);
		vp_val[i][vp_vlen[i]] = '\0';
		for (k = 0; k < VP_V; k++) {
			char c = vp_val[i][k];
			__CPROVER_assume(k >= vp_vlen[i] || (c != '\0' && c != '\n' && c != '\r'));
		}
		if (vp_vlen[i] > 0) { /* field values arrive OWS-trimmed (C23 obligation `headers`) */
			__CPROVER_assume(!ref_is_ows((ref_u8)vp_val[i][0]));
			__CPROVER_assume(!ref_is_ows((ref_u8)vp_val[i][vp_vlen[i] - 1]));
		}
		{
			int rc = evhttp_add_header(&in_headers, vp_names[vp_kinds[i]], vp_val[i]);
			VP_ASSERT(rc == 0, "C24: evhttp_add_header refused a CR/LF-free value");
		}
		F[i].name = (const ref_u8 *)vp_names[vp_kinds[i]];
		F[i].name_len = strlen(vp_names[vp_kinds[i]]);
		F[i].value = (const ref_u8 *)vp_val[i];
		F[i].value_len = vp_vlen[i];
		if (vp_kinds[i] == 5 && !ref_eq_nocase(F[i].value, F[i].value_len, "close") && !VP_HAS_CL && !VP_HAS_TE && i == (unsigned)(VP_K0 == 5 ? 0 : VP_K1 == 5 ? 1 : 2))
			keepalive_nolen = 1;
		if (VP_IS_TE(vp_kinds[i]) && ref_te_classify(F[i].value, F[i].value_len) != REF_TE_ONLY_CHUNKED) te_exact = 0;
	}
#ifdef KF_EXCLUDE_KEEPALIVE_NOLEN
	__CPROVER_assume(!keepalive_nolen);
#endif
#ifdef KF_ONLY_KEEPALIVE_NOLEN
	__CPROVER_assume(keepalive_nolen && !ref_response_has_no_body(code, rtypes[ti]));
#endif

	permitted = ref_response_body(F, nf, code, rtypes[ti], &ref_len);
	/* evhttp implements no transfer coding but chunked: failing a response whose Transfer-Encoding is anything
	 * else (it could only hand on undecoded data) is permitted; framing it by Content-Length or as empty is not */
	if (VP_HAS_TE && (!te_exact || VP_NUM_TE > 1) && !(permitted & REF_BODY_NONE))
		permitted |= REF_BODY_REJECT;

	evhttp_read_header(&evcon, &req);

	VP_ASSERT(vp_done_calls + vp_fail_calls + vp_readbody_calls == 1 && vp_other_calls == 0, "C24: end of response headers reaches exactly one continuation");
	if (vp_done_calls) {
		VP_ASSERT((permitted & REF_BODY_NONE) || ((permitted & REF_BODY_LENGTH) && ref_len == 0), "C24: response taken as complete without body although RFC 9112 6.3 frames a body");
#ifndef KF_ONLY_KEEPALIVE_NOLEN
		if (code == 204) VP_WITNESS("204: no body");
#endif
	} else if (vp_fail_calls) {
		VP_ASSERT(permitted & REF_BODY_REJECT, "C24: regularly framed response failed");
#if VP_HAS_CL && !VP_HAS_TE
		VP_WITNESS("response failed (invalid Content-Length)");
#endif
	} else {
		VP_ASSERT(!(permitted & REF_BODY_NONE), "C24: body read for a response that cannot have one (HEAD, 1xx, 204, 304, 2xx to CONNECT)");
		if (vp_rb_chunked) {
			VP_ASSERT(permitted & REF_BODY_CHUNKED, "C24: body read as chunked although the final transfer coding is not chunked");
#if VP_NUM_TE == 1
			VP_WITNESS("chunked body");
#endif
		} else if (vp_rb_ntoread < 0) {
			VP_ASSERT(permitted & REF_BODY_CLOSE, "C24: body read until close although the RFC frames it differently");
#if !VP_HAS_CL && !VP_HAS_TE && !defined(KF_ONLY_KEEPALIVE_NOLEN)
			VP_WITNESS("close-delimited body");
#endif
		} else {
			VP_ASSERT((permitted & REF_BODY_LENGTH) && (unsigned long long)vp_rb_ntoread == ref_len, "C24: body length is not the (valid, single-valued) Content-Length");
#if VP_HAS_CL && !VP_HAS_TE
			if (vp_rb_ntoread > 0) VP_WITNESS("content-length body");
#endif
		}
	}
#if defined(KF_ONLY_KEEPALIVE_NOLEN)
	VP_WITNESS("known-finding region reached");
#else
	VP_WITNESS("framing decision taken");
#endif
	evhttp_clear_headers(&in_headers);
}
