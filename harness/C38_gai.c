/* C38: evdns_getaddrinfo -- which source answers, and what the answer list contains.  Unit steps on an evdns_base built
 * through the API (as in C34), with the A / AAAA answers delivered through reply_handle() + the deferred callback, i.e.
 * the path a parsed reply takes.
 *
 *  harness_fastpath  evutil_getaddrinfo_common_ (contract stub; the real routine is decided in C38_numeric.c) says
 *                    "answered" (numeric host, NULL node, error): the callback gets exactly that answer at once and
 *                    no request is made
 *  harness_hosts     hosts entries (made with evdns_base_parse_hosts_line) win over DNS: list == entries of that name
 *                    (ASCII case-insensitive), in file order, allowed by the family hint, with the port; EAI_ADDRFAMILY
 *                    when all are filtered; other names go to DNS
 *  harness_merge     A and AAAA answers (0..2 addresses each, solver-chosen bytes and TTLs, either arrival order, one side
 *                    may fail): callback exactly once, list == A addresses then AAAA addresses, each with port,
 *                    socktype/protocol from the hints (TCP+UDP pair when the hints leave both open); the cache entry
 *                    written for the name expires after the SMALLEST ttl that contributed
 *  harness_cache     second lookup of the name is answered from the cache (no request, same addresses, new port,
 *                    family hint applied); after evdns_ttl_expired the next lookup goes to DNS again
 */
#define VP_LOCKS_OFF 1
#include "vp.h"
#include "log_stub.h"
#include "alloc.h"
#include "locks.h"
#define VPE_CUSTOM_RNG 1
#include "dns_unit_env.h"
#include "addrinfo_model.h"
#include "dns_evutil_stubs.h"

/* transaction ids: concrete and distinct (see C34_lifecycle.c) */
static unsigned short c38_next_id = 0x2001;
void evutil_secure_rng_get_bytes(void *buf, size_t n)
{
	VP_ASSERT(n == 2, "harness: only transaction ids are drawn");
	*(unsigned short *)buf = c38_next_id++;
}
/* hosts lines of the harness start with '1' (-> 10.0.0.<second char - '0'>) or ':' (-> ::<0x50 + ...>): address syntax is C40's */
int evutil_parse_sockaddr_port(const char *str, struct sockaddr *out, int *outlen)
{
	if (str[0] == '1') {
		struct sockaddr_in sin; static const struct sockaddr_in z; sin = z;
		sin.sin_family = AF_INET; sin.sin_addr.s_addr = htonl(0x0a000000u + (unsigned)(str[1] - '0'));
		*(struct sockaddr_in *)out = sin; *outlen = sizeof(sin); return 0;
	} else if (str[0] == ':') {
		struct sockaddr_in6 s6; static const struct sockaddr_in6 z6; s6 = z6;
		s6.sin6_family = AF_INET6; s6.sin6_addr.s6_addr[15] = (unsigned char)(0x50 + (str[2] - '0'));
		*(struct sockaddr_in6 *)out = s6; *outlen = sizeof(s6); return 0;
	}
	return -1;
}
int evutil_read_file_(const char *filename, char **content_out, size_t *len_out, int is_binary) { (void)filename; (void)content_out; (void)len_out; (void)is_binary; return -1; }

/* contract stub of the numeric / NULL-node fast path */
static int c38_common_err = EVUTIL_EAI_NEED_RESOLVE, c38_common_port, c38_common_calls;
static struct evutil_addrinfo *c38_common_res;
static const char *c38_common_node, *c38_common_serv;
int evutil_getaddrinfo_common_(const char *nodename, const char *servname, struct evutil_addrinfo *hints, struct evutil_addrinfo **res, int *portnum)
{
	(void)hints;
	c38_common_calls++; c38_common_node = nodename; c38_common_serv = servname;
	if (c38_common_err == EVUTIL_EAI_NEED_RESOLVE) { *portnum = c38_common_port; return EVUTIL_EAI_NEED_RESOLVE; }
	*res = c38_common_res;
	return c38_common_err;
}
static int c38_sys_calls;
int evutil_getaddrinfo(const char *nodename, const char *servname, const struct evutil_addrinfo *hints_in, struct evutil_addrinfo **res)
{
	(void)nodename; (void)servname; (void)hints_in;
	c38_sys_calls++; *res = c38_common_res;
	return c38_common_err;
}

#define VPD_TYPED_HOSTS 1
#define VPD_CLONE_COPY 1
#include "dns_typed_alloc_pre.h"
#include "evdns.c"
#include "dns_typed_alloc_post.h"

/* ---- callback recorder: copies the list into plain arrays, then releases it ---- */
#define C38_MAXN 9
struct c38_rec { int calls, err, n; const struct evutil_addrinfo *head;
	int fam[C38_MAXN], socktype[C38_MAXN], proto[C38_MAXN], port[C38_MAXN], has_cname[C38_MAXN], alen[C38_MAXN]; unsigned a4[C38_MAXN]; unsigned char a6last[C38_MAXN]; };
static struct c38_rec c38_rec[3];
static void c38_record(int j, int err, struct evutil_addrinfo *res)
{
	struct evutil_addrinfo *ai = res; int k;
	c38_rec[j].calls++; c38_rec[j].err = err; c38_rec[j].head = res; c38_rec[j].n = 0;
	for (k = 0; k < C38_MAXN; k++) if (ai) {
		c38_rec[j].fam[k] = ai->ai_family; c38_rec[j].socktype[k] = ai->ai_socktype; c38_rec[j].proto[k] = ai->ai_protocol;
		c38_rec[j].has_cname[k] = ai->ai_canonname != NULL; c38_rec[j].alen[k] = (int)ai->ai_addrlen;
		if (ai->ai_addr->sa_family == AF_INET) { c38_rec[j].port[k] = ((struct sockaddr_in *)ai->ai_addr)->sin_port; c38_rec[j].a4[k] = ((struct sockaddr_in *)ai->ai_addr)->sin_addr.s_addr; }
		else { c38_rec[j].port[k] = ((struct sockaddr_in6 *)ai->ai_addr)->sin6_port; c38_rec[j].a6last[k] = ((struct sockaddr_in6 *)ai->ai_addr)->sin6_addr.s6_addr[15]; c38_rec[j].a4[k] = ((ev_uint32_t *)&((struct sockaddr_in6 *)ai->ai_addr)->sin6_addr)[0]; }
		c38_rec[j].n++; ai = ai->ai_next;
	}
	VP_ASSERT(ai == NULL, "harness: answer list longer than the recorder");
}
static void c38_cb(int err, struct evutil_addrinfo *res, void *arg)
{
	int j;
	for (j = 0; j < 3; j++) if (arg == &c38_rec[j]) c38_record(j, err, res);
	if (res && res != c38_common_res) evutil_freeaddrinfo(res);
}
static struct evdns_base *c38_base;
static void c38_run_deferred(void)
{
	int i;
	for (i = 0; i < VPE_NDEFER; i++) if (i < vpe_ndeferred) {
		struct event_callback *cb = vpe_deferred[i];
		VP_ASSERT(cb->evcb_cb_union.evcb_selfcb == reply_run_callback, "harness: deferred callback of a request");
		reply_run_callback(cb, cb->evcb_arg);
	}
	vpe_ndeferred = 0;
}
#ifndef C38_NOCACHE
#define C38_NOCACHE 0
#endif
static void c38_setup(void)
{
	struct evdns_base *base = evdns_base_new(NULL, C38_NOCACHE ? EVDNS_BASE_NO_CACHE : 0);
	struct sockaddr_in sin; static const struct sockaddr_in z; int r;
	__CPROVER_assume(base != NULL);
	c38_base = base;
	r = evdns_base_set_option(base, "randomize-case", "0"); __CPROVER_assume(r == 0);
	r = evdns_base_set_option(base, "max-inflight", "5"); __CPROVER_assume(r == 0);
	sin = z; sin.sin_family = AF_INET; sin.sin_port = htons(53); sin.sin_addr.s_addr = htonl(0x0a000001);
	EVDNS_LOCK(base);
	r = evdns_nameserver_add_impl_(base, (struct sockaddr *)&sin, sizeof(sin));
	EVDNS_UNLOCK(base);
	__CPROVER_assume(r == 0);
}
static void c38_cleanup(void)
{
	evdns_base_free(c38_base, 1);      /* (live lookups are failed with a shutdown error so that their state is released) */
	c38_run_deferred();
	VP_ASSERT(vpa_live_nodes == 0, "C38: addrinfo nodes neither handed to the callback nor released (leak)");
}
#ifndef C38_FAMILY
#define C38_FAMILY 0      /* 0 PF_UNSPEC, 4 PF_INET, 6 PF_INET6 */
#endif
#ifndef C38_SOCKTYPE
#define C38_SOCKTYPE 1    /* 1 SOCK_STREAM/TCP, 0 open (TCP+UDP pair per address) */
#endif
#define C38_PER (C38_SOCKTYPE ? 1 : 2)
static void c38_hints(struct evutil_addrinfo *h)
{
	static const struct evutil_addrinfo z; *h = z;
	h->ai_family = C38_FAMILY == 4 ? PF_INET : C38_FAMILY == 6 ? PF_INET6 : PF_UNSPEC;
	if (C38_SOCKTYPE) { h->ai_socktype = SOCK_STREAM; h->ai_protocol = IPPROTO_TCP; }
}
/* node k of record j is the expected copy (1 of C38_PER) of an address */
static void c38_check_node(int j, int k, int fam, unsigned a4, unsigned char a6last, int port_n)
{
	VP_ASSERT(k < c38_rec[j].n, "C38: answer list shorter than the union of the sources");
	VP_ASSERT(c38_rec[j].fam[k] == fam, "C38: address family of an answer differs from its source");
	VP_ASSERT(c38_rec[j].port[k] == port_n, "C38: port of an answer is not the service port");
	VP_ASSERT(c38_rec[j].alen[k] == (fam == AF_INET ? (int)sizeof(struct sockaddr_in) : (int)sizeof(struct sockaddr_in6)), "C38: ai_addrlen does not fit the family");
	if (fam == AF_INET) VP_ASSERT(c38_rec[j].a4[k] == a4, "C38: IPv4 address of an answer differs from its source");
	else VP_ASSERT(c38_rec[j].a4[k] == a4 && c38_rec[j].a6last[k] == a6last, "C38: IPv6 address of an answer differs from its source");
	if (C38_SOCKTYPE) VP_ASSERT(c38_rec[j].socktype[k] == SOCK_STREAM && c38_rec[j].proto[k] == IPPROTO_TCP, "C38: socktype/protocol differ from the hints");
	else VP_ASSERT((k % 2 == 0) ? (c38_rec[j].socktype[k] == SOCK_STREAM && c38_rec[j].proto[k] == IPPROTO_TCP) : (c38_rec[j].socktype[k] == SOCK_DGRAM && c38_rec[j].proto[k] == IPPROTO_UDP),
	    "C38: open hints must give a TCP and a UDP entry per address");
}

/* ---------------------------------------------------------------- fast path */
#ifndef C38_FP_MODE
#define C38_FP_MODE 0    /* 0: fast path answers (numeric host / NULL node), 1: fast path reports an error, 2: EVUTIL_AI_NUMERICHOST */
#endif
void harness_fastpath(void)
{
	struct evutil_addrinfo hints, node_hint, *marker = NULL; struct sockaddr_in sin; static const struct sockaddr_in z; struct evdns_getaddrinfo_request *g;
	c38_setup();
	c38_hints(&hints);
#if C38_FP_MODE == 2
	hints.ai_flags |= EVUTIL_AI_NUMERICHOST;
#endif
#if C38_FP_MODE == 1
	c38_common_err = vp_int(); __CPROVER_assume(c38_common_err != EVUTIL_EAI_NEED_RESOLVE && c38_common_err != 0);
#else
	sin = z; sin.sin_family = AF_INET; c38_hints(&node_hint); node_hint.ai_socktype = SOCK_STREAM; node_hint.ai_protocol = IPPROTO_TCP;
	c38_common_err = 0;
	marker = evutil_new_addrinfo_((struct sockaddr *)&sin, sizeof(sin), &node_hint);
#endif
	c38_common_res = marker;
#ifdef C38_NULL_NODE
	g = evdns_getaddrinfo(c38_base, NULL, "80", &hints, c38_cb, &c38_rec[0]);
#else
	g = evdns_getaddrinfo(c38_base, "10.0.0.1", "80", &hints, c38_cb, &c38_rec[0]);
#endif
	VP_ASSERT(g == NULL, "C38: an immediately answered lookup returns no request handle");
	VP_ASSERT(c38_rec[0].calls == 1 && c38_rec[0].err == c38_common_err && c38_rec[0].head == marker, "C38: numeric / NULL-node lookup: callback exactly once with the fast path's answer");
	VP_ASSERT(c38_base->global_requests_inflight == 0 && c38_base->global_requests_waiting == 0 && vpe_sendto_calls == 0, "C38: numeric / NULL-node lookup made a DNS query");
	VP_ASSERT(C38_FP_MODE == 2 ? (c38_sys_calls == 1 && c38_common_calls == 0) : (c38_common_calls == 1 && c38_common_serv != NULL), "C38: fast path consulted once");
	if (marker) evutil_freeaddrinfo(marker);
	VP_WITNESS("C38 fastpath: answered without a query");
	c38_cleanup();
}

/* -------------------------------------------------------------------- hosts */
#ifndef C38_NAME
#define C38_NAME "a"
#endif
void harness_hosts(void)
{
	struct evutil_addrinfo hints; struct evdns_getaddrinfo_request *g; int r, port = vp_u16(), k = 0;
	char l1[] = "12 a", l2[] = "::3 A x", l3[] = "14 b", l4[] = "15 a";
	c38_setup();
	EVDNS_LOCK(c38_base);
	r = evdns_base_parse_hosts_line(c38_base, l1); __CPROVER_assume(r == 0);
	r = evdns_base_parse_hosts_line(c38_base, l2); __CPROVER_assume(r == 0);
	r = evdns_base_parse_hosts_line(c38_base, l3); __CPROVER_assume(r == 0);
	r = evdns_base_parse_hosts_line(c38_base, l4); __CPROVER_assume(r == 0);
	EVDNS_UNLOCK(c38_base);
	c38_hints(&hints);
	c38_common_port = port;
	g = evdns_getaddrinfo(c38_base, C38_NAME, "80", &hints, c38_cb, &c38_rec[0]);
#ifdef C38_NAME_ABSENT
	VP_ASSERT(g != NULL && c38_rec[0].calls == 0, "C38: a name that is not in the hosts file must go to DNS");
	VP_ASSERT(c38_base->global_requests_inflight == (C38_FAMILY == 0 ? 2 : 1), "C38: one query per wanted family");
	VP_WITNESS("C38 hosts: name not in the hosts file, queries sent");
#else
	VP_ASSERT(g == NULL && c38_rec[0].calls == 1, "C38: a name in the hosts file is answered at once, exactly once");
	VP_ASSERT(c38_base->global_requests_inflight == 0 && vpe_sendto_calls == 0, "C38: a name in the hosts file must not be queried");
	VP_ASSERT(c38_rec[0].err == 0, "C38: hosts answer must succeed when an entry of the wanted family exists");
	/* name "a" (any case): 10.0.0.2, ::53, 10.0.0.5 in file order */
	if (C38_FAMILY != 6) { int c; for (c = 0; c < C38_PER; c++) c38_check_node(0, k++, AF_INET, htonl(0x0a000002), 0, htons((ev_uint16_t)port)); }
	if (C38_FAMILY != 4) { int c; for (c = 0; c < C38_PER; c++) c38_check_node(0, k++, AF_INET6, 0, 0x53, htons((ev_uint16_t)port)); }
	if (C38_FAMILY != 6) { int c; for (c = 0; c < C38_PER; c++) c38_check_node(0, k++, AF_INET, htonl(0x0a000005), 0, htons((ev_uint16_t)port)); }
	VP_ASSERT(c38_rec[0].n == k, "C38: hosts answer longer than the entries of that name allowed by the family hint");
	VP_WITNESS("C38 hosts: answered from the hosts entries");
#endif
	c38_cleanup();
}

/* recorder substituted for evdns_cache_write in harness_merge (goto-instrument --replace-calls): the cache itself is
 * decided in harness_cache on direct calls; reaching it through the lookup object costs symex its precision (the
 * object is recovered from the sub-request with EVUTIL_UPCAST pointer arithmetic) */
static int c38_cw_calls, c38_cw_ttl, c38_cw_name_ok; static const struct evutil_addrinfo *c38_cw_res;
void c38_cache_write_rec(struct evdns_base *dns_base, char *nodename, struct evutil_addrinfo *res, int ttl)
{
	(void)dns_base;
	c38_cw_calls++; c38_cw_ttl = ttl; c38_cw_res = res;
	c38_cw_name_ok = nodename != NULL && nodename[0] == 'a' && nodename[1] == 0;
}

/* -------------------------------------------------------------------- merge */
#ifndef C38_N4
#define C38_N4 1          /* A addresses (0..2); -1: NXDOMAIN */
#endif
#ifndef C38_N6
#define C38_N6 1
#endif
#ifndef C38_FIRST
#define C38_FIRST 4       /* which answer arrives first */
#endif
static unsigned c38_a4[2]; static unsigned char c38_a6[2][16]; static int c38_ttl4, c38_ttl6;
static void c38_deliver(struct evdns_request *h, int v6, int n, int ttl)
{
	struct reply reply; static const struct reply z; struct request *req = h->current_req; int i, k;
	VP_ASSERT(req != NULL, "harness: sub-request must be live");
	reply = z;
	reply.type = v6 ? TYPE_AAAA : TYPE_A;
	if (n >= 0) {
		reply.have_answer = n > 0; reply.rr_count = (u32)n;
		if (n > 0) {
			if (v6) { reply.data.aaaa = mm_malloc(2 * sizeof(struct in6_addr)); __CPROVER_assume(reply.data.aaaa != NULL);
				for (i = 0; i < 2; i++) for (k = 0; k < 16; k++) reply.data.aaaa[i].s6_addr[k] = c38_a6[i][k]; }
			else { reply.data.a = mm_malloc(2 * sizeof(u32)); __CPROVER_assume(reply.data.a != NULL); reply.data.a[0] = c38_a4[0]; reply.data.a[1] = c38_a4[1]; }
		}
	}
	EVDNS_LOCK(c38_base);
	reply_handle(req, (u16)(0x8180 | (n < 0 ? 3 : 0)), (u32)ttl, &reply);
	EVDNS_UNLOCK(c38_base);
	if (reply.data.raw) mm_free(reply.data.raw);
	c38_run_deferred();
}
static struct evdns_getaddrinfo_request *c38_lookup(int j, int port)
{
	struct evutil_addrinfo hints;
	c38_hints(&hints);
	c38_common_port = port;
	return evdns_getaddrinfo(c38_base, "a", "80", &hints, c38_cb, &c38_rec[j]);
}
/* expected list for record j: the A addresses, then the AAAA addresses */
static void c38_check_union(int j, int port, int n4, int n6)
{
	int k = 0, i, c;
	if (C38_FAMILY != 6) for (i = 0; i < 2; i++) if (i < n4) for (c = 0; c < C38_PER; c++) c38_check_node(j, k++, AF_INET, c38_a4[i], 0, htons((ev_uint16_t)port));
	if (C38_FAMILY != 4) for (i = 0; i < 2; i++) if (i < n6) for (c = 0; c < C38_PER; c++) c38_check_node(j, k++, AF_INET6, ((ev_uint32_t *)c38_a6[i])[0], c38_a6[i][15], htons((ev_uint16_t)port));
	VP_ASSERT(c38_rec[j].n == k, "C38: answer list longer than the union of the A and AAAA answers allowed by the family hint");
}
static void c38_do_merge(int port)
{
	struct evdns_getaddrinfo_request *g; struct evdns_request *h4, *h6; int i, k;
	c38_a4[0] = vp_u32(); c38_a4[1] = vp_u32();
	for (i = 0; i < 2; i++) for (k = 0; k < 16; k++) c38_a6[i][k] = vp_u8();
	c38_ttl4 = (int)vp_range(1, 100000); c38_ttl6 = (int)vp_range(1, 100000);
	g = c38_lookup(0, port);
	VP_ASSERT(g != NULL && c38_rec[0].calls == 0, "C38: a name without local source must be queried, no callback yet");
	VP_ASSERT(c38_base->global_requests_inflight == (C38_FAMILY == 0 ? 2 : 1), "C38: one query per wanted family");
	h4 = g->ipv4_request.r; h6 = g->ipv6_request.r;
	VP_ASSERT((h4 != NULL) == (C38_FAMILY != 6) && (h6 != NULL) == (C38_FAMILY != 4), "C38: A query iff IPv4 wanted, AAAA query iff IPv6 wanted");
#if C38_FAMILY == 0
	if (C38_FIRST == 4) { c38_deliver(h4, 0, C38_N4, c38_ttl4); VP_ASSERT(c38_rec[0].calls == 0, "C38: callback before the second answer"); c38_deliver(h6, 1, C38_N6, c38_ttl6); }
	else { c38_deliver(h6, 1, C38_N6, c38_ttl6); VP_ASSERT(c38_rec[0].calls == 0, "C38: callback before the second answer"); c38_deliver(h4, 0, C38_N4, c38_ttl4); }
#elif C38_FAMILY == 4
	c38_deliver(h4, 0, C38_N4, c38_ttl4);
#else
	c38_deliver(h6, 1, C38_N6, c38_ttl6);
#endif
	VP_ASSERT(c38_rec[0].calls == 1, "C38: lookup callback exactly once after the last answer");
}
#define C38_E4 ((C38_FAMILY != 6 && C38_N4 > 0) ? C38_N4 : 0)
#define C38_E6 ((C38_FAMILY != 4 && C38_N6 > 0) ? C38_N6 : 0)
void harness_merge(void)
{
	int port = vp_u16();
	c38_setup();
	c38_do_merge(port);
	if (C38_E4 + C38_E6 > 0) {
		VP_ASSERT(c38_rec[0].err == 0, "C38: lookup must succeed when a wanted family has an answer");
		c38_check_union(0, port, C38_E4, C38_E6);
#if !C38_NOCACHE
		{	/* the answer is written to the cache once, under the name, with the TTL of its shortest-lived constituent */
			int want_ttl = (C38_E4 && C38_E6) ? (c38_ttl4 < c38_ttl6 ? c38_ttl4 : c38_ttl6) : C38_E4 ? c38_ttl4 : c38_ttl6;
			VP_ASSERT(c38_cw_calls == 1 && c38_cw_name_ok && c38_cw_res == c38_rec[0].head, "C38: successful answer not written to the cache (once, under its name, the list given to the caller)");
			VP_ASSERT(c38_cw_ttl == want_ttl, "C38: cache entry outlives the TTL of an answer it contains");
		}
#else
		VP_ASSERT(c38_cw_calls == 0, "C38: EVDNS_BASE_NO_CACHE must not cache");
#endif
	} else {
		VP_ASSERT(c38_rec[0].err != 0 && c38_rec[0].n == 0 && c38_rec[0].head == NULL, "C38: lookup without any answer must fail with an empty list");
		VP_ASSERT(c38_cw_calls == 0, "C38: failed lookup cached");
	}
	VP_WITNESS("C38 merge: answers delivered, list and cache checked");
	c38_cleanup();
}

/* -------------------------------------------------------------------- cache */
/* evdns_cache_write / evdns_cache_lookup / evdns_ttl_expired on direct calls: an answer list of C38_N4 IPv4 + C38_N6 IPv6
 * addresses (solver-chosen) is cached under "a" with a solver-chosen TTL; lookups (any case of the name, another port,
 * family hint) return equal addresses without touching the original list; the expiry timer carries the TTL; after
 * expiry (and for other names) the lookup misses. */
void harness_cache(void)
{
#if defined(C38_CONCRETE_TTL)
	int port2 = 8080, ttl = 300, i, k, r;
#elif defined(C38_CONCRETE_PORT)
	int port2 = 8080, ttl = (int)vp_range(1, 100000), i, k, r;
#else
	int port2 = vp_u16(), ttl = (int)vp_range(1, 100000), i, k, r;
#endif
	struct evutil_addrinfo hints, open_hint, *list = NULL, *got = NULL; struct evdns_cache *c;
	char name[] = "a", other[] = "b", upper[] = "A";
	c38_setup();
	c38_a4[0] = vp_u32(); c38_a4[1] = vp_u32();
	for (i = 0; i < 2; i++) for (k = 0; k < 16; k++) c38_a6[i][k] = vp_u8();
	c38_hints(&open_hint); open_hint.ai_family = PF_UNSPEC;
	for (i = 0; i < 2; i++) if (i < C38_N4) { struct sockaddr_in sin; static const struct sockaddr_in z; sin = z; sin.sin_family = AF_INET; sin.sin_port = htons(7); sin.sin_addr.s_addr = c38_a4[i];
		list = evutil_addrinfo_append_(list, evutil_new_addrinfo_((struct sockaddr *)&sin, sizeof(sin), &open_hint)); }
	for (i = 0; i < 2; i++) if (i < C38_N6) { struct sockaddr_in6 s6; static const struct sockaddr_in6 z6; s6 = z6; s6.sin6_family = AF_INET6; s6.sin6_port = htons(7);
		for (k = 0; k < 16; k++) s6.sin6_addr.s6_addr[k] = c38_a6[i][k];
		list = evutil_addrinfo_append_(list, evutil_new_addrinfo_((struct sockaddr *)&s6, sizeof(s6), &open_hint)); }
	c38_hints(&hints);
#ifdef C38_CACHE_MISSES
	r = evdns_cache_lookup(c38_base, name, &hints, (ev_uint16_t)port2, &got);
	VP_ASSERT(r == -1 && got == NULL, "C38: lookup in an empty cache must miss");
#endif
	evdns_cache_write(c38_base, name, list, ttl);
	c = SPLAY_ROOT(&c38_base->cache_root);
	VP_ASSERT(c != NULL && vpe_event_is_pending(&c->ev_timeout) && vpe_timeout_of(&c->ev_timeout) != NULL && vpe_timeout_of(&c->ev_timeout)->tv_sec == ttl && vpe_timeout_of(&c->ev_timeout)->tv_usec == 0, "C38: cache entry must expire after exactly its TTL");
#ifdef C38_CACHE_MISSES
	r = evdns_cache_lookup(c38_base, other, &hints, (ev_uint16_t)port2, &got);
	VP_ASSERT(r == -1 && got == NULL, "C38: lookup of another name must miss");
#endif
	(void)other;
	r = evdns_cache_lookup(c38_base, upper, &hints, (ev_uint16_t)port2, &got);
	if ((C38_FAMILY == 4 && C38_N4 == 0) || (C38_FAMILY == 6 && C38_N6 == 0)) VP_ASSERT(r == EVUTIL_EAI_ADDRFAMILY && got == NULL, "C38: cached name without address of the wanted family: EAI_ADDRFAMILY");
	else {
		VP_ASSERT(r == 0 && got != NULL, "C38: lookup within the TTL must hit (names are case-insensitive)");
		c38_record(1, 0, got);
		c38_check_union(1, port2, C38_FAMILY != 6 ? C38_N4 : 0, C38_FAMILY != 4 ? C38_N6 : 0);
		evutil_freeaddrinfo(got);
	}
	/* the original list is still the caller's and untouched */
	c38_record(0, 0, list);
	{ int kk = 0; for (i = 0; i < 2; i++) if (i < C38_N4) for (k = 0; k < C38_PER; k++) { VP_ASSERT(c38_rec[0].fam[kk] == AF_INET && c38_rec[0].a4[kk] == c38_a4[i] && c38_rec[0].port[kk] == htons(7), "C38: caching must not modify the answer"); kk++; } }
	evutil_freeaddrinfo(list);
	/* the TTL runs out */
	(void)event_del(&c->ev_timeout);
	evdns_ttl_expired(-1, EV_TIMEOUT, c);
	VP_ASSERT(SPLAY_ROOT(&c38_base->cache_root) == NULL, "C38: expired cache entry still present");
	got = NULL;
	r = evdns_cache_lookup(c38_base, name, &hints, (ev_uint16_t)port2, &got);
	VP_ASSERT(r == -1 && got == NULL, "C38: lookup after the TTL must miss (no stale answer)");
	VP_WITNESS("C38 cache: hit within the TTL, miss after expiry");
	c38_cleanup();
}
