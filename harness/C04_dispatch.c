/* C04: one dispatch step of each I/O back end against the kernel readiness
 * model: which events get activated, with which result flags.
 *
 * State: events ev0, ev1 on fd A and ev2 on fd B, each with a symbolic interest
 * mask; each event is (solver's choice) never added / added / added and deleted
 * again before the wait -- all through the real evmap_io_add_/evmap_io_del_ and
 * the back end's add/del.  Then each fd gets a symbolic readiness
 * {IN,OUT,ERR,HUP,RDHUP} and the back end's real dispatch runs once (twice with
 * -DVP_TWICE: level-triggered events keep firing) against env/kernel_io.h;
 * event_active_nolock_() is intercepted.
 *
 * Oracle (ref/c04_ready.h, written from the property text / event.h):
 *   holds(READ)  = ready & (IN|ERR|HUP)      "ERR/HUP count as readable and writable"
 *   holds(WRITE) = ready & (OUT|ERR|HUP)
 *   holds(CLOSED)= ready & RDHUP
 *   S (soundness)   activated => added now, res conditions non-empty, subset of
 *                   requested, each one holds; EV_ET in res only if requested;
 *                   at most one activation per event per wait
 *   C (completeness) an added event one of whose requested conditions is
 *                   *reported by the kernel as such* (IN for READ, OUT for WRITE,
 *                   RDHUP for CLOSED; select: readable/writable set) is activated,
 *                   and res contains every such condition
 *   D               an event deleted before the wait (or never added) is not activated
 */
#include "event2/event-config.h"
#include "evconfig-private.h"
#include "vp.h"
#include "log_stub.h"
#ifndef VP_LOCKS_ON
#define VP_LOCKS_OFF
#endif
#include "locks.h"
#include "alloc_nogrow.h"
#define VP_NFD 4
#include "kernel_io.h"
#include "typed_alloc.h"
#define mm_realloc(p, sz) vp_realloc_evmap((p), (sz))
#undef mm_calloc
#define mm_calloc(n, sz) vp_calloc_evmap((n), (sz))
#include "evmap.c"
#undef mm_realloc
#undef mm_calloc
#define mm_calloc(n, sz) event_mm_calloc_((n), (sz))
#define mm_realloc(p, sz) vp_realloc_backend((p), (sz))
#define BE_EPOLL 1
#define BE_EPOLL_CL 2
#define BE_POLL 3
#define BE_SELECT 4
#ifndef VP_BACKEND
#define VP_BACKEND BE_EPOLL
#endif
#if VP_BACKEND == BE_EPOLL || VP_BACKEND == BE_EPOLL_CL
#include "epoll.c"
#elif VP_BACKEND == BE_POLL
#include <string.h>
static void *vp_memcpy_pollfd(void *dst, const void *src, size_t n)
{
	size_t i;
	for (i = 0; i < n / sizeof(struct pollfd); i++) ((struct pollfd *)dst)[i] = ((const struct pollfd *)src)[i];
	return dst;
}
#define memcpy(d, s, n) vp_memcpy_pollfd((d), (s), (n))
#include "poll.c"
#undef memcpy
#else
#include "select.c"
#endif
#define VP_OWN_ACTIVE
#include "iobase.h"
#include "c04_ready.h"

#define NEV 3
#define FD_A 0
#define FD_B 1
static const int fd_of[NEV] = { FD_A, FD_A, FD_B };
static struct event_base *base;
static struct event ev[NEV];
static short mask[NEV];
static int et[2];
static int use[NEV];             /* 0 never added, 1 added, 2 added and deleted before the wait */
static int added[NEV];
static unsigned rdy[2];
static int act_n[NEV], act_res[NEV], act_other;

void event_active_nolock_(struct event *e, int res, short ncalls)
{
	(void)ncalls;
	if (e == &ev[0]) { act_n[0]++; act_res[0] |= res; }
	else if (e == &ev[1]) { act_n[1]++; act_res[1] |= res; }
	else if (e == &ev[2]) { act_n[2]++; act_res[2] |= res; }
	else act_other++;
}
static void vp_on_wait(int kind) { (void)kind; }

#ifdef VP_WITH_LOCK
#define LOCK()   EVBASE_ACQUIRE_LOCK(base, th_base_lock)
#define UNLOCK() do { EVBASE_RELEASE_LOCK(base, th_base_lock); VP_ASSERT_NO_LOCKS("back-end call"); } while (0)
#define WITH_LOCK 1
#else
#define LOCK()   ((void)0)
#define UNLOCK() ((void)0)
#define WITH_LOCK 0
#endif

static short union_of(int fd)
{
	int i; short w = 0;
	for (i = 0; i < NEV; i++) if (added[i] && fd_of[i] == fd) w |= mask[i];
	return w;
}

static void check_step(void)
{
	int i;
	VP_ASSERT(act_other == 0, "C04: something that is not one of the application's events was activated");
	for (i = 0; i < NEV; i++) {
		unsigned r = rdy[fd_of[i]];
		short got = (short)(act_res[i] & (EV_READ | EV_WRITE | EV_CLOSED));
		if (!added[i]) {
			VP_ASSERT(act_n[i] == 0, "C04: an event that is not added (never added, or deleted before the wait) was activated");
			continue;
		}
		VP_ASSERT(act_n[i] <= 1, "C04: an event is activated at most once per wait");
		if (act_n[i]) {
			VP_ASSERT(got != 0, "C04: activation without any I/O condition in the result flags");
			VP_ASSERT((got & ~mask[i]) == 0, "C04: result flags name a condition the event did not request");
			VP_ASSERT((got & ~c04_holds(r)) == 0, "C04: result flags name a condition that does not hold on the fd");
			VP_ASSERT((act_res[i] & ~(EV_READ | EV_WRITE | EV_CLOSED | EV_ET)) == 0, "C04: unexpected bit in the result flags");
			VP_ASSERT(!(act_res[i] & EV_ET) || et[fd_of[i]], "C04: EV_ET in the result of an event that did not request it");
		}
		{
			/* what the kernel reports for this fd given what is registered (union of the added events) */
			short must = (short)(mask[i] & c04_reported(VP_BACKEND == BE_SELECT, union_of(fd_of[i]), r));
#ifdef VP_AGREE
			/* cross-back-end agreement, compositionally: under the agreement preconditions every back end must
			 * produce exactly the reference activation (ref/c04_ready.h c04_agree_ref), hence they agree pairwise */
			{
				short want = c04_agree_ref(mask[i], r);
				VP_ASSERT((act_n[i] != 0) == (want != 0), "C04: back ends agree: event activated iff the reference says so (READ<-IN|ERR, WRITE<-OUT|ERR)");
				VP_ASSERT(got == want, "C04: back ends agree: result flags equal the reference");
			}
#endif
			if (must) {
				VP_ASSERT(act_n[i] == 1, "C04: a requested condition is reported ready by the kernel but the event is not activated");
				VP_ASSERT((got & must) == must, "C04: a requested condition reported ready by the kernel is missing from the result flags");
			}
		}
	}
}

static void reset_acts(void) { int i; for (i = 0; i < NEV; i++) { act_n[i] = 0; act_res[i] = 0; } act_other = 0; }

void harness_step(void)
{
	int i, r;
	short allowed = EV_READ | EV_WRITE;
	int flags = 0;
	const struct eventop *ops;
	struct timeval tv = { 0, 0 };
#if VP_BACKEND == BE_EPOLL
	ops = &epollops; allowed |= EV_CLOSED;
#elif VP_BACKEND == BE_EPOLL_CL
	ops = &epollops; allowed |= EV_CLOSED; flags = EVENT_BASE_FLAG_EPOLL_USE_CHANGELIST;
#elif VP_BACKEND == BE_POLL
	ops = &pollops; allowed |= EV_CLOSED;
#else
	ops = &selectops;
#endif
	vp_k_open_at(FD_A); vp_k_open_at(FD_B);
	base = vp_iobase_new(ops, flags, WITH_LOCK);
	VP_ASSERT(base->evbase != NULL, "C04: back end initialises");
#ifdef VP_AGREE
	allowed = EV_READ | EV_WRITE;       /* agreement is claimed without EV_CLOSED, EV_ET and HUP */
#elif VP_BACKEND == BE_EPOLL || VP_BACKEND == BE_EPOLL_CL
	et[0] = vp_bool(); et[1] = vp_bool();
#endif
	/* concrete warm-up so every table exists with a concrete size (see C05) */
	{
		static struct event warm[2];
		int f;
		for (f = 0; f < 2; f++) {
			vp_ioev_init(&warm[f], base, f, EV_READ);
			LOCK();
			r = evmap_io_add_(base, f, &warm[f]); VP_ASSERT(r == 1, "C04: warm-up add");
			r = evmap_io_del_(base, f, &warm[f]); VP_ASSERT(r == 1, "C04: warm-up del");
			UNLOCK();
		}
		vp_k_wait_fail = EINTR;
		LOCK(); r = base->evsel->dispatch(base, &tv); UNLOCK();
		VP_ASSERT(r == 0, "C04: warm-up wait");
	}
	for (i = 0; i < NEV; i++) {
		mask[i] = (short)(vp_u8() & allowed);
		__CPROVER_assume(mask[i] != 0);
		use[i] = (int)vp_range(0, 2);
		vp_ioev_init(&ev[i], base, fd_of[i], (short)(mask[i] | (et[fd_of[i]] ? EV_ET : 0) | (vp_bool() ? EV_PERSIST : 0)));
	}
	for (i = 0; i < NEV; i++)
		if (use[i] >= 1) { LOCK(); r = evmap_io_add_(base, fd_of[i], &ev[i]); UNLOCK(); VP_ASSERT(r >= 0, "C04: add"); added[i] = 1; }
#ifdef VP_MIDWAIT
	/* a quiet wait in between (changelist: the adds are flushed before the dels are queued) */
	vp_k_wait_fail = EINTR;
	LOCK(); r = base->evsel->dispatch(base, &tv); UNLOCK();
#endif
	for (i = 0; i < NEV; i++)
		if (use[i] == 2) { LOCK(); r = evmap_io_del_(base, fd_of[i], &ev[i]); UNLOCK(); VP_ASSERT(r >= 0, "C04: del"); added[i] = 0; }

	rdy[0] = (unsigned)vp_u16() & C04_READY_BITS;
	rdy[1] = (unsigned)vp_u16() & C04_READY_BITS;
#ifdef VP_AGREE
	rdy[0] &= POLLIN | POLLOUT | POLLERR; rdy[1] &= POLLIN | POLLOUT | POLLERR;
#endif
	vp_kf[FD_A].ready = rdy[0]; vp_kf[FD_B].ready = rdy[1];

	reset_acts();
	LOCK(); r = base->evsel->dispatch(base, &tv); UNLOCK();
	VP_ASSERT(r == 0, "C04: dispatch succeeds");
	check_step();
#if (VP_BACKEND == BE_EPOLL || VP_BACKEND == BE_EPOLL_CL || VP_BACKEND == BE_POLL) && !defined(VP_AGREE)
	if ((rdy[1] & POLLERR) && (rdy[1] & POLLRDHUP) && added[2] && mask[2] == EV_CLOSED && act_res[2] == EV_CLOSED)
		VP_WITNESS("EV_CLOSED-only event fires although the kernel reports an error alongside RDHUP (fixed finding C04-epoll-err-closed)");
#endif
	if (act_n[0] && act_n[1]) VP_WITNESS("both events on fd A activated in one wait");
	if (added[0] && !act_n[0] && c04_holds(rdy[0]) == 0) VP_WITNESS("an added event stays quiet while nothing holds on its fd");
	if (use[0] == 2 && rdy[0]) VP_WITNESS("a deleted event with its fd ready");
#ifdef VP_TWICE
	/* same readiness, next iteration: level-triggered events fire again */
	reset_acts();
	LOCK(); r = base->evsel->dispatch(base, &tv); UNLOCK();
	VP_ASSERT(r == 0, "C04: second dispatch succeeds");
	check_step();
#endif
	VP_WITNESS("dispatch step completed");
}
