/* C27: every HTTP request completes exactly once -- UNIT STEPS (whole
 * exchanges are outside the claim, see props/C27.py).
 *
 * A connection is constructed (client side "outgoing" or server side
 * "incoming") with 1 or 2 requests made by the library's own
 * evhttp_request_new() and queued the way evhttp_make_request() /
 * evhttp_associate_new_request_with_connection() queue them; one step of the
 * real failure/completion code is run from every evcon->state:
 *
 *   -DVP_STEP_FAIL_OUT   evhttp_connection_fail_(), outgoing, every error code
 *   -DVP_STEP_FAIL_IN    evhttp_connection_fail_(), incoming, every error code
 *   -DVP_STEP_DONE       evhttp_connection_done(), outgoing and incoming
 *   -DVP_STEP_ERROR_CB   evhttp_error_cb() with symbolic `what`
 *   -DVP_STEP_CLEANUP    evhttp_connection_cb_cleanup() (retry or give up)
 *   -DVP_STEP_CANCEL     evhttp_cancel_request() (first / queued / detached request)
 *   -DVP_STEP_SEND_DONE  evhttp_send_done() (server: reply written)
 *   -DVP_STEP_CONN_FREE  evhttp_connection_free() with queued requests
 *   -DVP_STEP_REQ_FREE   evhttp_request_free() / DEFER_FREE protocol
 *   -DVP_STEP_ACCEPT     evhttp_get_request(): connection limit
 *
 * Observed: per request the number of completion-callback, error-callback and
 * on_complete calls; frees through the real evhttp_request_free /
 * evhttp_connection_free (cbmc's pointer checks: double free, use after free;
 * --memory-leak-check after the harness has released what is legitimately
 * still alive: every object is freed exactly once).
 *
 * Environment: bufferevent_*, event_*, evbuffer_* are recorders; the calls that
 * start the NEXT exchange are cut to recorders (--replace-calls):
 * evhttp_connection_connect_, evhttp_request_dispatch,
 * evhttp_connection_read_on_write_error,
 * evhttp_associate_new_request_with_connection, evhttp_send_error (ACCEPT),
 * evhttp_get_request_connection (ACCEPT).
 */
#include "vp.h"
#include "log_stub.h"
#include "http_fmt.h"
#include "http_alloc.h"
#include "http_evutil.h"
#include "http.c"

/* ---------------- recorders: bufferevent / event / evbuffer ---------------- */
struct evbuffer { size_t len; };
struct evbuffer *evbuffer_new(void) { struct evbuffer *b = malloc(sizeof(*b)); __CPROVER_assume(b != NULL); b->len = 0; return b; }
void evbuffer_free(struct evbuffer *b) { free(b); }
size_t evbuffer_get_length(const struct evbuffer *b) { return b->len; }
int evbuffer_drain(struct evbuffer *b, size_t n) { if (n > b->len) n = b->len; b->len -= n; return 0; }

static struct bufferevent vp_bev;
static struct evbuffer vp_bev_in, vp_bev_out;
static int vp_bev_free_calls, vp_bev_disable_calls, vp_bev_enable_calls, vp_bev_setcb_calls;
void bufferevent_free(struct bufferevent *b) { VP_ASSERT(b == &vp_bev, "C27: the connection's bufferevent is freed"); vp_bev_free_calls++; }
int bufferevent_disable(struct bufferevent *b, short ev) { (void)b; (void)ev; VP_ASSERT(vp_bev_free_calls == 0, "C27: bufferevent used after it was freed"); vp_bev_disable_calls++; return 0; }
int bufferevent_enable(struct bufferevent *b, short ev) { (void)b; (void)ev; VP_ASSERT(vp_bev_free_calls == 0, "C27: bufferevent used after it was freed"); vp_bev_enable_calls++; return 0; }
int bufferevent_disable_hard_(struct bufferevent *b, short ev) { (void)b; (void)ev; VP_ASSERT(vp_bev_free_calls == 0, "C27: bufferevent used after it was freed"); return 0; }
int bufferevent_replacefd(struct bufferevent *b, evutil_socket_t fd) { (void)b; (void)fd; VP_ASSERT(vp_bev_free_calls == 0, "C27: bufferevent used after it was freed"); return 0; }
void bufferevent_setcb(struct bufferevent *b, bufferevent_data_cb r, bufferevent_data_cb w, bufferevent_event_cb e, void *arg)
{ (void)b; (void)r; (void)w; (void)e; (void)arg; VP_ASSERT(vp_bev_free_calls == 0, "C27: bufferevent used after it was freed"); vp_bev_setcb_calls++; }
struct evbuffer *bufferevent_get_input(struct bufferevent *b) { (void)b; return &vp_bev_in; }
struct evbuffer *bufferevent_get_output(struct bufferevent *b) { (void)b; return &vp_bev_out; }
evutil_socket_t bufferevent_getfd(struct bufferevent *b) { (void)b; return 7; }
int bufferevent_set_timeouts(struct bufferevent *b, const struct timeval *r, const struct timeval *w) { (void)b; (void)r; (void)w; return 0; }

static int vp_retry_added, vp_retry_deleted, vp_retry_assigned;
int event_assign(struct event *ev, struct event_base *base, evutil_socket_t fd, short events, event_callback_fn cb, void *arg)
{ (void)base; (void)fd; (void)events; (void)cb; (void)arg; ev->ev_evcallback.evcb_flags = EVLIST_INIT; vp_retry_assigned++; return 0; }
int event_add(struct event *ev, const struct timeval *tv) { (void)ev; (void)tv; vp_retry_added++; return 0; }
int event_del(struct event *ev) { (void)ev; vp_retry_deleted++; return 0; }
int event_initialized(const struct event *ev) { return (ev->ev_evcallback.evcb_flags & EVLIST_INIT) != 0; }
void event_debug_unassign(struct event *ev) { (void)ev; }
static int vp_deferred_cancel, vp_deferred_sched;
void event_deferred_cb_cancel_(struct event_base *b, struct event_callback *cb) { (void)b; (void)cb; vp_deferred_cancel++; }
int event_deferred_cb_schedule_(struct event_base *b, struct event_callback *cb) { (void)b; (void)cb; vp_deferred_sched++; return 1; }

/* ---------------- cut continuations (start of the next exchange) ---------------- */
static int vp_connect_calls, vp_dispatch_calls, vp_row_calls, vp_assoc_calls, vp_assoc_ret, vp_send_error_calls, vp_send_error_code;
int vp_cut_connect(struct evhttp_connection *evcon) { (void)evcon; vp_connect_calls++; return 0; }
void vp_cut_dispatch(struct evhttp_connection *evcon) { (void)evcon; vp_dispatch_calls++; }
void vp_cut_read_on_write_error(struct evhttp_connection *evcon, struct evhttp_request *req) { (void)evcon; (void)req; vp_row_calls++; }
int vp_cut_associate(struct evhttp_connection *evcon) { (void)evcon; vp_assoc_calls++; return vp_assoc_ret; }
void vp_cut_send_error(struct evhttp_request *req, int error, const char *reason) { (void)req; (void)reason; vp_send_error_calls++; vp_send_error_code = error; }

/* ---------------- user callbacks ---------------- */
#define VP_NREQ 2
static int vp_cb_calls[VP_NREQ], vp_cb_null[VP_NREQ], vp_err_calls[VP_NREQ], vp_complete_calls[VP_NREQ], vp_close_calls;
static struct evhttp_request *vp_req[VP_NREQ];
static long vp_idx[VP_NREQ] = { 0, 1 };
static void vp_req_cb(struct evhttp_request *req, void *arg)
{
	long i = *(long *)arg;
	vp_cb_calls[i]++;
	if (req == NULL) vp_cb_null[i]++;
	else VP_ASSERT(req == vp_req[i], "C27: completion callback gets its own request (or NULL)");
}
static void vp_err_cb(enum evhttp_request_error e, void *arg) { (void)e; vp_err_calls[*(long *)arg]++; }
static void vp_complete_cb(struct evhttp_request *req, void *arg) { (void)req; vp_complete_calls[*(long *)arg]++; }
static void vp_close_cb(struct evhttp_connection *evcon, void *arg) { (void)evcon; (void)arg; vp_close_calls++; }

/* ---------------- construction ---------------- */
static struct evhttp_connection *vp_evcon;
static struct evhttp vp_http;
static int vp_nreq;
static const enum evhttp_connection_state vp_states[] = { EVCON_DISCONNECTED, EVCON_CONNECTING, EVCON_IDLE, EVCON_READING_FIRSTLINE,
	EVCON_READING_HEADERS, EVCON_READING_BODY, EVCON_READING_TRAILER, EVCON_WRITING };

static struct evhttp_connection *mk_conn(int outgoing)
{
	struct evhttp_connection *evcon = mm_calloc(1, sizeof(*evcon));
	__CPROVER_assume(evcon != NULL);
	memset(&vp_bev, 0, sizeof(vp_bev));
	evcon->bufev = &vp_bev;
	TAILQ_INIT(&evcon->requests);
	evcon->flags = outgoing ? EVHTTP_CON_OUTGOING : EVHTTP_CON_INCOMING;
	evcon->retry_max = 0;
	evcon->closecb = vp_close_cb;
	if (!outgoing) {
		memset(&vp_http, 0, sizeof(vp_http));
		TAILQ_INIT(&vp_http.connections);
		evcon->http_server = &vp_http;
		TAILQ_INSERT_TAIL(&vp_http.connections, evcon, next);
		vp_http.connection_cnt = 1;
	}
	return evcon;
}
/* the way evhttp_make_request() / evhttp_associate_new_request_with_connection() attach a request */
static void mk_req(struct evhttp_connection *evcon, int i, int outgoing)
{
	struct evhttp_request *req = evhttp_request_new(vp_req_cb, &vp_idx[i]);
	__CPROVER_assume(req != NULL);
	vp_req[i] = req;
	req->evcon = evcon;
	req->kind = outgoing ? EVHTTP_REQUEST : EVHTTP_REQUEST;
	req->type = EVHTTP_REQ_GET;
	req->major = 1; req->minor = 1;
	if (!outgoing) req->flags |= EVHTTP_REQ_OWN_CONNECTION;
	if (vp_bool()) req->error_cb = vp_err_cb;
	if (vp_bool()) { req->on_complete_cb = vp_complete_cb; req->on_complete_cb_arg = &vp_idx[i]; }
	TAILQ_INSERT_TAIL(&evcon->requests, req, next);
}
/* release what is legitimately still alive so that the leak check sees only real leaks */
static void release_rest(void)
{
	int i;
	if (vp_bev_free_calls == 0)
		evhttp_connection_free(vp_evcon); /* frees the requests still queued on it */
	for (i = 0; i < VP_NREQ; i++)
		; /* requests detached from the connection and owned by the user are freed by the step's own epilogue */
}
static int queued(struct evhttp_request *r)
{
	struct evhttp_request *q;
	int n = 0;
	TAILQ_FOREACH(q, &vp_evcon->requests, next) { if (q == r) return 1; if (++n > VP_NREQ) break; }
	return 0;
}

/* =========================================================================== */
#ifdef VP_STEP_FAIL_OUT
void harness_step(void)
{
	static const enum evhttp_request_error errs[] = { EVREQ_HTTP_TIMEOUT, EVREQ_HTTP_EOF, EVREQ_HTTP_INVALID_HEADER, EVREQ_HTTP_BUFFER_ERROR, EVREQ_HTTP_REQUEST_CANCEL, EVREQ_HTTP_DATA_TOO_LONG };
	enum evhttp_request_error e = errs[vp_range(0, 5)];
	int autofree, had_err_cb;
	vp_evcon = mk_conn(1);
	vp_nreq = (int)vp_range(1, 2);
	mk_req(vp_evcon, 0, 1);
	if (vp_nreq == 2) mk_req(vp_evcon, 1, 1);
	vp_evcon->state = vp_states[vp_range(0, 7)];
	autofree = vp_bool();
	if (autofree) vp_evcon->flags |= EVHTTP_CON_AUTOFREE;
	had_err_cb = vp_req[0]->error_cb != NULL;

	evhttp_connection_fail_(vp_evcon, e);

	VP_ASSERT(vp_cb_calls[0] == (e == EVREQ_HTTP_REQUEST_CANCEL ? 0 : 1), "C27: failed request: completion callback exactly once (not at all when cancelled)");
	VP_ASSERT(vp_cb_null[0] == vp_cb_calls[0], "C27: failure is reported with a NULL request");
	VP_ASSERT(vp_err_calls[0] == (had_err_cb ? 1 : 0), "C27: error callback exactly once when set");
	if (vp_nreq == 2) {
		VP_ASSERT(vp_cb_calls[1] == 0 && vp_err_calls[1] == 0, "C27: the next queued request is not completed by the failure of the first");
		VP_ASSERT(vp_bev_free_calls == 0 && queued(vp_req[1]) && vp_connect_calls == 1, "C27: the next queued request stays queued and a new connection attempt is started for it");
		VP_WITNESS("first of two requests failed, second retried");
	} else {
		VP_ASSERT(vp_connect_calls == 0, "C27: no reconnect without pending requests");
		VP_ASSERT((vp_bev_free_calls == 1) == (autofree != 0), "C27: connection freed exactly when it is auto-free and has no more requests");
		if (autofree) VP_WITNESS("auto-free connection freed after its last request failed");
		else VP_WITNESS("request failed, connection kept");
	}
	release_rest();
}
#endif

#ifdef VP_STEP_FAIL_IN
void harness_step(void)
{
	static const enum evhttp_request_error errs[] = { EVREQ_HTTP_TIMEOUT, EVREQ_HTTP_EOF, EVREQ_HTTP_INVALID_HEADER, EVREQ_HTTP_BUFFER_ERROR, EVREQ_HTTP_DATA_TOO_LONG };
	enum evhttp_request_error e = errs[vp_range(0, 4)];
	int userdone, had_err_cb, network;
	vp_evcon = mk_conn(0);
	mk_req(vp_evcon, 0, 0);
	vp_evcon->state = vp_states[vp_range(2, 7)];
	userdone = vp_bool();
	vp_req[0]->userdone = userdone;
	had_err_cb = vp_req[0]->error_cb != NULL;
	network = (e == EVREQ_HTTP_TIMEOUT || e == EVREQ_HTTP_EOF);

	evhttp_connection_fail_(vp_evcon, e);

	VP_ASSERT(vp_err_calls[0] == (had_err_cb ? 1 : 0), "C27: error callback exactly once when set");
	if (network) {
		VP_ASSERT(vp_cb_calls[0] == 0, "C27: network failure of a server connection: the request is not handed to the handler (again)");
		VP_ASSERT(vp_bev_free_calls == 1 && vp_http.connection_cnt == 0, "C27: server connection freed and uncounted exactly once");
		if (!userdone) {
			/* the handler still holds the request: it is detached, not freed */
			VP_ASSERT(vp_req[0]->evcon == NULL, "C27: request still in the user's hands is detached from the dead connection");
			VP_WITNESS("request detached for the user");
			evhttp_request_free(vp_req[0]); /* what evhttp_send() does when the user finally replies */
		} else {
			VP_WITNESS("request freed with the connection");
		}
	} else {
		VP_ASSERT(vp_cb_calls[0] == 1 && vp_cb_null[0] == 0, "C27: protocol error: the handler is called exactly once with the request (to send 400/413)");
		VP_ASSERT(vp_bev_free_calls == 0 && queued(vp_req[0]), "C27: connection and request stay until the error reply is written");
		VP_ASSERT(vp_req[0]->response_code == (e == EVREQ_HTTP_DATA_TOO_LONG ? 413 : 400), "C27: status prepared for the error reply");
		VP_WITNESS("protocol error handed to the handler");
	}
	release_rest();
}
#endif

#ifdef VP_STEP_DONE
void harness_step(void)
{
	int outgoing = vp_bool(), autofree, close_hdr;
	vp_evcon = mk_conn(outgoing);
	vp_nreq = outgoing ? (int)vp_range(1, 2) : 1;
	mk_req(vp_evcon, 0, outgoing);
	if (vp_nreq == 2) mk_req(vp_evcon, 1, outgoing);
	vp_evcon->state = outgoing ? EVCON_READING_BODY : vp_states[vp_range(3, 6)];
	autofree = vp_bool();
	if (autofree && outgoing) vp_evcon->flags |= EVHTTP_CON_AUTOFREE;
	close_hdr = vp_bool();
	if (close_hdr) evhttp_add_header(vp_req[0]->input_headers, "Connection", "close");

	evhttp_connection_done(vp_evcon);

	VP_ASSERT(vp_cb_calls[0] == 1 && vp_cb_null[0] == 0, "C27: completed message: callback exactly once, with the request");
	VP_ASSERT(vp_err_calls[0] == 0, "C27: no error callback on success");
	if (outgoing) {
		if (vp_nreq == 2) {
			VP_ASSERT(vp_cb_calls[1] == 0 && vp_bev_free_calls == 0 && queued(vp_req[1]), "C27: next request untouched and still queued");
			VP_ASSERT(vp_connect_calls + vp_dispatch_calls == 1, "C27: next request started exactly once (dispatch on the open connection or reconnect)");
			VP_ASSERT((vp_connect_calls == 1) == (close_hdr != 0), "C27: reconnect iff the response asked to close");
			VP_WITNESS("response complete, next request started");
		} else {
			VP_ASSERT(vp_connect_calls + vp_dispatch_calls == 0, "C27: nothing started without pending requests");
			VP_ASSERT((vp_bev_free_calls == 1) == (autofree && close_hdr), "C27: auto-free connection is freed when it closes after its last request");
			if (vp_bev_free_calls) VP_WITNESS("last response, connection freed");
			else VP_WITNESS("last response, connection kept");
		}
	} else {
		VP_ASSERT(vp_evcon->state == EVCON_WRITING && queued(vp_req[0]) && vp_bev_free_calls == 0, "C27: server: request stays on the connection for the reply");
		VP_WITNESS("request handed to the server handler");
	}
	release_rest();
}
#endif

#ifdef VP_STEP_ERROR_CB
void harness_step(void)
{
	short what = (short)vp_u16();
	int closedetect, had_err_cb, si, chunked0;
	ev_int64_t ntoread0;
	vp_evcon = mk_conn(1);
	si = (int)vp_range(1, 7);
	vp_evcon->state = vp_states[si];
	closedetect = (vp_evcon->state == EVCON_IDLE) && vp_bool();
	if (closedetect) {
		vp_nreq = 0; /* idle persistent connection waiting for the peer's close */
		vp_evcon->flags |= EVHTTP_CON_CLOSEDETECT;
	} else {
		vp_nreq = (int)vp_range(1, 2);
		mk_req(vp_evcon, 0, 1);
		if (vp_nreq == 2) mk_req(vp_evcon, 1, 1);
		vp_req[0]->ntoread = vp_bool() ? -1 : 5;
		vp_req[0]->chunked = vp_bool();
	}
	if (vp_bool()) vp_evcon->flags |= EVHTTP_CON_AUTOFREE;
	if (vp_bool()) vp_evcon->flags |= EVHTTP_CON_READ_ON_WRITE_ERROR;
	vp_bev_in.len = vp_range(0, 3);
	had_err_cb = vp_nreq > 0 && vp_req[0]->error_cb != NULL;
	chunked0 = vp_nreq > 0 && vp_req[0]->chunked;
	ntoread0 = vp_nreq > 0 ? vp_req[0]->ntoread : 0;
	/* what a bufferevent reports: at least one of the event bits */
	__CPROVER_assume((what & ~(BEV_EVENT_READING | BEV_EVENT_WRITING | BEV_EVENT_EOF | BEV_EVENT_ERROR | BEV_EVENT_TIMEOUT | BEV_EVENT_CONNECTED)) == 0 && what != 0);

	evhttp_error_cb(&vp_bev, what, vp_evcon);

	if (vp_nreq > 0) {
		VP_ASSERT(vp_cb_calls[0] <= 1 && vp_err_calls[0] <= 1, "C27: bufferevent event: first request completed at most once");
		VP_ASSERT(vp_err_calls[0] == 0 || had_err_cb, "C27: error callback only when set");
		/* the request is completed unless the event is not final for it */
		if (vp_cb_calls[0] == 0)
			VP_ASSERT(vp_retry_added == 1 || vp_row_calls == 1 || vp_deferred_sched == 1 || what == BEV_EVENT_CONNECTED,
			    "C27: a request left uncompleted by an error event is being retried, read out, or the event was CONNECTED");
		if (vp_nreq == 2 && vp_cb_calls[1] != 0)
			VP_ASSERT(vp_retry_assigned == 0 && (vp_bev_free_calls == 1 || vp_evcon->state == EVCON_DISCONNECTED), "C27: the second request is completed only when the connection gives up all requests");
		VP_ASSERT(vp_cb_calls[1] <= 1, "C27: second request completed at most once");
		/* an error/EOF event may only turn into a SUCCESSFUL completion (callback with the response) when the peer's
		 * close is what delimits the body: reading a body without Content-Length and without chunked framing, and the
		 * event is a clean EOF on read.  A chunked body ends with its last-chunk, a Content-Length body with its last
		 * octet: EOF before that is a truncated response and must be reported as a failure (NULL request).
		 * (The other way a request object reaches its callback here is evhttp_connection_cb_cleanup giving up after a
		 * connect timeout: the request is handed back without a response, response_code 0.) */
		if (vp_cb_calls[0] == 1 && vp_cb_null[0] == 0 && !(vp_states[si] == EVCON_CONNECTING && (what & BEV_EVENT_TIMEOUT)))
			VP_ASSERT(vp_states[si] == EVCON_READING_BODY && !chunked0 && ntoread0 < 0 && what == (BEV_EVENT_READING | BEV_EVENT_EOF),
			    "C27: peer close completed a request successfully although its body is not close-delimited (truncated chunked / Content-Length response)");
		if (vp_states[si] == EVCON_READING_BODY && chunked0 && what == (BEV_EVENT_READING | BEV_EVENT_EOF) && vp_cb_calls[0] == 1 && vp_cb_null[0] == 1)
			VP_WITNESS("EOF inside a chunked body failed the request");
		if (vp_cb_calls[0] == 1 && vp_cb_null[0] == 1) VP_WITNESS("event failed the request");
		if (vp_cb_calls[0] == 1 && vp_cb_null[0] == 0) VP_WITNESS("EOF completed a close-delimited response");
		if (vp_cb_calls[0] == 0) VP_WITNESS("event left the request pending");
	} else {
		VP_ASSERT(vp_bev_free_calls == 1 || vp_evcon->state == EVCON_DISCONNECTED, "C27: peer close on an idle persistent connection resets (or frees) it");
		VP_WITNESS("close detected on idle connection");
	}
	release_rest();
}
#endif

#ifdef VP_STEP_CLEANUP
void harness_step(void)
{
	int autofree;
	vp_evcon = mk_conn(1);
	vp_nreq = (int)vp_range(1, 2);
	mk_req(vp_evcon, 0, 1);
	if (vp_nreq == 2) mk_req(vp_evcon, 1, 1);
	vp_evcon->state = EVCON_CONNECTING;
	vp_evcon->retry_max = (int)vp_range(0, 2) - 1; /* -1 = retry forever */
	vp_evcon->retry_cnt = (int)vp_range(0, 2);
	vp_evcon->initial_retry_timeout.tv_sec = 2;
	autofree = vp_bool();
	if (autofree) vp_evcon->flags |= EVHTTP_CON_AUTOFREE;
	{
		int will_retry = vp_evcon->retry_max < 0 || vp_evcon->retry_cnt < vp_evcon->retry_max;
		int cnt0 = vp_evcon->retry_cnt;

		evhttp_connection_cb_cleanup(vp_evcon);

		if (will_retry) {
			VP_ASSERT(vp_retry_added == 1 && vp_evcon->retry_cnt == cnt0 + 1, "C27: retry timer armed once, attempt counted");
			VP_ASSERT(vp_cb_calls[0] == 0 && vp_cb_calls[1] == 0 && queued(vp_req[0]) && vp_bev_free_calls == 0, "C27: while retrying no request is completed or dropped");
			VP_WITNESS("retry scheduled");
		} else {
			VP_ASSERT(vp_retry_added == 0, "C27: no retry after the last attempt");
			VP_ASSERT(vp_cb_calls[0] == 1 && (vp_nreq == 1 || vp_cb_calls[1] == 1), "C27: giving up: every queued request completes exactly once");
			VP_ASSERT(vp_bev_free_calls == 1 || TAILQ_FIRST(&vp_evcon->requests) == NULL, "C27: queue emptied");
			VP_ASSERT((vp_bev_free_calls == 1) == (autofree != 0), "C27: auto-free connection freed after giving up");
			VP_WITNESS("gave up, all requests completed");
		}
	}
	release_rest();
}
#endif

#ifdef VP_STEP_CANCEL
void harness_step(void)
{
	int which, had_err_cb;
	vp_evcon = mk_conn(1);
	vp_nreq = 2;
	mk_req(vp_evcon, 0, 1);
	mk_req(vp_evcon, 1, 1);
	vp_evcon->state = vp_states[vp_range(0, 7)];
	which = vp_bool();
	had_err_cb = vp_req[which]->error_cb != NULL;

	evhttp_cancel_request(vp_req[which]);

	VP_ASSERT(vp_cb_calls[0] == 0 && vp_cb_calls[1] == 0, "C27: cancelling never runs a completion callback");
	VP_ASSERT(vp_err_calls[1 - which] == 0, "C27: the other request is not affected");
	VP_ASSERT(vp_err_calls[which] <= 1 && (vp_err_calls[which] == 0 || had_err_cb), "C27: error callback of the cancelled request at most once");
	VP_ASSERT(queued(vp_req[1 - which]) && vp_bev_free_calls == 0, "C27: the other request stays queued");
	if (which == 0) { VP_ASSERT(vp_connect_calls == 1, "C27: cancelling the request in progress resets the connection and starts the next one"); VP_WITNESS("request in progress cancelled"); }
	else { VP_ASSERT(vp_connect_calls == 0, "C27: cancelling a queued request leaves the connection alone"); VP_WITNESS("queued request cancelled"); }
	release_rest();
}
#endif

#ifdef VP_STEP_SEND_DONE
void harness_step(void)
{
	int had_complete, minor, keepalive, close_hdr;
	vp_evcon = mk_conn(0);
	mk_req(vp_evcon, 0, 0);
	vp_evcon->state = EVCON_WRITING;
	minor = vp_bool();
	vp_req[0]->minor = (char)minor;
	keepalive = vp_bool(); close_hdr = vp_bool();
	if (keepalive) evhttp_add_header(vp_req[0]->input_headers, "Connection", "keep-alive");
	else if (close_hdr) evhttp_add_header(vp_req[0]->input_headers, "Connection", "close");
	vp_req[0]->userdone = 1;
	had_complete = vp_req[0]->on_complete_cb != NULL;
	vp_assoc_ret = vp_bool() ? 0 : -1;

	evhttp_send_done(vp_evcon, NULL);

	VP_ASSERT(vp_complete_calls[0] == (had_complete ? 1 : 0), "C27: on_complete callback exactly once when set");
	VP_ASSERT(vp_cb_calls[0] == 0, "C27: the handler is not called again after its reply was written");
	{
		int need_close = (minor < 1 && !keepalive) || (!keepalive && close_hdr);
		if (need_close) {
			VP_ASSERT(vp_bev_free_calls == 1 && vp_assoc_calls == 0 && vp_http.connection_cnt == 0, "C27: non-persistent connection freed and uncounted after the reply");
			VP_WITNESS("reply done, connection closed");
		} else {
			VP_ASSERT(vp_assoc_calls == 1, "C27: persistent connection waits for the next request");
			VP_ASSERT((vp_bev_free_calls == 1) == (vp_assoc_ret == -1), "C27: connection freed iff no new request object could be attached");
			VP_WITNESS("reply done, connection kept for the next request");
		}
	}
	release_rest();
}
#endif

#ifdef VP_STEP_CONN_FREE
void harness_step(void)
{
	int outgoing = vp_bool();
	vp_evcon = mk_conn(outgoing);
	vp_nreq = (int)vp_range(0, 2);
	if (vp_nreq >= 1) mk_req(vp_evcon, 0, outgoing);
	if (vp_nreq == 2) mk_req(vp_evcon, 1, outgoing);
	vp_evcon->state = vp_states[vp_range(0, 7)];
	if (vp_bool()) { vp_evcon->retry_ev.ev_evcallback.evcb_flags = EVLIST_INIT; }
	{
		int connected = vp_evcon->state != EVCON_DISCONNECTED && vp_evcon->state != EVCON_CONNECTING;
		int had_timer = vp_evcon->retry_ev.ev_evcallback.evcb_flags == EVLIST_INIT;

		evhttp_connection_free(vp_evcon);

		VP_ASSERT(vp_close_calls == (connected ? 1 : 0), "C27: close callback exactly once for a connected connection");
		VP_ASSERT(vp_cb_calls[0] == 0 && vp_cb_calls[1] == 0 && vp_err_calls[0] == 0, "C27: freeing a connection runs no request callbacks");
		VP_ASSERT(vp_bev_free_calls == 1 && vp_deferred_cancel == 1, "C27: bufferevent freed once, deferred read cancelled");
		VP_ASSERT(vp_retry_deleted == (had_timer ? 1 : 0), "C27: retry timer removed iff it was set up");
		if (!outgoing) VP_ASSERT(vp_http.connection_cnt == 0 && TAILQ_FIRST(&vp_http.connections) == NULL, "C27: server connection removed from the list and uncounted");
		if (vp_nreq == 2) VP_WITNESS("connection with two queued requests freed");
		if (vp_nreq == 0) VP_WITNESS("empty connection freed");
	}
}
#endif

#ifdef VP_STEP_REQ_FREE
void harness_step(void)
{
	struct evhttp_request *req = evhttp_request_new(vp_req_cb, &vp_idx[0]);
	int defer = vp_bool();
	__CPROVER_assume(req != NULL);
	vp_req[0] = req;
	if (vp_bool()) req->uri = mm_strdup("/x");
	if (vp_bool()) req->response_code_line = mm_strdup("OK");
	if (vp_bool()) evhttp_add_header(req->output_headers, "A", "b");
	if (defer) req->flags |= EVHTTP_REQ_DEFER_FREE;

	evhttp_request_free(req);

	if (defer) {
		/* inside a chunk callback: the free is postponed, the flag asks the caller to do it */
		VP_ASSERT((req->flags & EVHTTP_REQ_NEEDS_FREE) != 0, "C27: free during a chunk callback is deferred and flagged");
		req->flags &= ~EVHTTP_REQ_DEFER_FREE;
		evhttp_request_free(req);
		VP_WITNESS("deferred free carried out later");
	} else {
		VP_WITNESS("request freed");
	}
	VP_ASSERT(vp_cb_calls[0] == 0, "C27: freeing a request runs no callback");
}
#endif

#ifdef VP_STEP_ACCEPT
static struct evhttp_connection *vp_new_evcon;
struct evhttp_connection *vp_cut_get_request_connection(struct evhttp *http, evutil_socket_t fd, struct sockaddr *sa, ev_socklen_t salen, struct bufferevent *bev)
{ (void)http; (void)fd; (void)sa; (void)salen; (void)bev; return vp_new_evcon; }
void harness_step(void)
{
	struct sockaddr_storage ss;
	int max = (int)vp_range(0, 3), cnt0 = (int)vp_range(0, 3);
	memset(&vp_http, 0, sizeof(vp_http));
	TAILQ_INIT(&vp_http.connections);
	/* invariant: the limit is respected by the connections being served */
	__CPROVER_assume(max == 0 || cnt0 <= max);
	vp_http.connection_max = max;
	vp_http.connection_cnt = cnt0;
	vp_new_evcon = mk_conn(1); /* what evhttp_get_request_connection returns: not yet attached to the server */
	vp_evcon = vp_new_evcon;
	vp_evcon->flags = EVHTTP_CON_INCOMING;
	vp_evcon->state = EVCON_READING_FIRSTLINE;
	vp_assoc_ret = vp_bool() ? 0 : -1;
	memset(&ss, 0, sizeof(ss));

	evhttp_get_request(&vp_http, 9, (struct sockaddr *)&ss, sizeof(ss), NULL);

	if (max != 0 && cnt0 >= max) {
		VP_ASSERT(vp_assoc_calls == 0, "C27: beyond connection_max no request is read from the new connection");
		VP_ASSERT(vp_send_error_calls == 1 && vp_send_error_code == HTTP_SERVUNAVAIL, "C27: beyond connection_max the connection is answered 503 exactly once");
		VP_ASSERT(vp_http.connection_cnt == cnt0 + 1 && vp_evcon->state == EVCON_WRITING, "C27: the refused connection is only counted until its 503 is written");
		VP_WITNESS("connection beyond the limit refused with 503");
	} else {
		VP_ASSERT(vp_send_error_calls == 0 && vp_assoc_calls == 1, "C27: within the limit the connection starts reading a request");
		if (vp_assoc_ret == 0) {
			VP_ASSERT(vp_http.connection_cnt == cnt0 + 1 && (max == 0 || vp_http.connection_cnt <= max), "C27: connections being served never exceed connection_max");
			VP_WITNESS("connection accepted within the limit");
		} else {
			VP_ASSERT(vp_http.connection_cnt == cnt0 && vp_bev_free_calls == 1, "C27: connection without request object is freed and uncounted");
			VP_WITNESS("connection dropped (no request object)");
		}
	}
	release_rest();
}
#endif
