/* C04 (select back end, descriptor numbers at fd_mask word boundaries): one event on descriptor VP_FD
 * (63, 64, 65, 127, 128, 129 ...), optionally a second one on a small descriptor, registered through the real
 * evmap_io_add_/select_add (which must grow the fd_sets: select_resize with live sets), then one real
 * select_dispatch against the kernel model with the descriptor ready.  The main C04/C05 harnesses use two small
 * descriptors and never leave the first fd_mask word; this obligation covers the sizing arithmetic
 * (SELECT_ALLOC_SIZE, event_fds, event_fdsz, the _in -> _out copy).
 * Asserted: at the wait the fd is in the read/write set handed to select() iff requested, nfds covers it, the low
 * descriptor and the neighbours are unaffected. */
#include "event2/event-config.h"
#include "evconfig-private.h"
#include "vp.h"
#include "log_stub.h"
#define VP_LOCKS_OFF
#include "locks.h"
#include "alloc_nogrow.h"
#ifndef VP_FD
#define VP_FD 64
#endif
#define VP_NFD (VP_FD + 2)
#include "kernel_io.h"
#define VP_FDSET_INPLACE_REALLOC
#include "typed_alloc.h"
#define mm_realloc(p, sz) vp_realloc_evmap((p), (sz))
#undef mm_calloc
#define mm_calloc(n, sz) vp_calloc_evmap((n), (sz))
#include "evmap.c"
#undef mm_realloc
#undef mm_calloc
#define mm_calloc(n, sz) event_mm_calloc_((n), (sz))
#define mm_realloc(p, sz) vp_realloc_backend((p), (sz))
#include "select.c"
#define VP_OWN_ACTIVE
#define VP_WEAKRAND_ZERO
#include "iobase.h"

#define FD_LOW 3
static struct event_base *base;
static struct event ev_hi, ev_lo;
static short mask_hi, mask_lo;
static int have_lo;
static int act_hi, act_lo, act_other, res_hi, res_lo;
static int waits;

void event_active_nolock_(struct event *e, int res, short ncalls)
{
	(void)ncalls;
	if (e == &ev_hi) { act_hi++; res_hi |= res; }
	else if (e == &ev_lo) { act_lo++; res_lo |= res; }
	else act_other++;
}
static void vp_on_wait(int kind)
{
	waits++;
	VP_ASSERT(kind == VP_W_SELECT, "C04/select: waits in select()");
	VP_ASSERT(vp_k_snap_nfds > VP_FD, "C04/select: nfds covers the highest descriptor with an added event");
	VP_ASSERT(vp_k_snap_rd[VP_FD] == ((mask_hi & EV_READ) != 0), "C04/select: the high descriptor is in the read set handed to select() iff an added event wants EV_READ");
	VP_ASSERT(vp_k_snap_wr[VP_FD] == ((mask_hi & EV_WRITE) != 0), "C04/select: the high descriptor is in the write set handed to select() iff an added event wants EV_WRITE");
	VP_ASSERT(vp_k_snap_rd[FD_LOW] == (have_lo && (mask_lo & EV_READ)) && vp_k_snap_wr[FD_LOW] == (have_lo && (mask_lo & EV_WRITE)), "C04/select: the low descriptor's membership is unaffected by the resize");
	VP_ASSERT(!vp_k_snap_rd[VP_FD - 1] && !vp_k_snap_wr[VP_FD - 1] && !vp_k_snap_rd[VP_FD + 1] && !vp_k_snap_wr[VP_FD + 1], "C04/select: neighbours of the high descriptor are not in the sets");
}

void harness_select_hifd(void)
{
	int r;
	struct timeval tv = { 0, 0 };
	vp_k_open_at(VP_FD); vp_k_open_at(FD_LOW);
	base = vp_iobase_new(&selectops, 0, 0);
	VP_ASSERT(base->evbase != NULL, "C04/select: back end initialises");
	mask_hi = (short)(vp_u8() & (EV_READ | EV_WRITE)); __CPROVER_assume(mask_hi != 0);
	mask_lo = (short)(vp_u8() & (EV_READ | EV_WRITE)); __CPROVER_assume(mask_lo != 0);
	vp_ioev_init(&ev_hi, base, VP_FD, (short)(mask_hi | EV_PERSIST));
	vp_ioev_init(&ev_lo, base, FD_LOW, (short)(mask_lo | EV_PERSIST));
	r = evmap_io_add_(base, VP_FD, &ev_hi);
	VP_ASSERT(r == 1, "C04/select: add on the high descriptor succeeds");
#ifdef VP_WITH_LOW
	have_lo = 1;
	r = evmap_io_add_(base, FD_LOW, &ev_lo);
	VP_ASSERT(r == 1, "C04/select: add on the low descriptor succeeds");
#endif
	/* The wait is answered EINTR: select_dispatch returns without scanning 65..130 descriptors (the full scan at these
	 * sizes did not fit in 8 GB); what is decided is what C04's completeness needs from select_add/select_resize/
	 * select_dispatch up to the system call -- the descriptor IS in the sets and nfds that select(2) receives
	 * (asserted in vp_on_wait) -- and the translation of select's answer is covered by step_select on small fds. */
	vp_k_wait_fail = EINTR;
	r = base->evsel->dispatch(base, &tv);
	VP_ASSERT(r == 0 && waits == 1, "C04/select: dispatch waits once");
	VP_ASSERT(act_hi == 0 && act_lo == 0 && act_other == 0, "C04/select: an interrupted wait activates nothing");
	VP_WITNESS("select step on a high descriptor completed");
}
