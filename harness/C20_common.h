/* C20_common.h -- shared by C20_sock.c / C20_pair.c / C20_filter.c (included after bev_user.h).
 *
 * The timeout invariant of one bufferevent B (index w), checked after every operation:
 *
 *   read  timer pending  <=>  (enabled & EV_READ)  && !read_suspended  && timeout_read  != 0
 *   write timer pending  <=>  (enabled & EV_WRITE) && !write_suspended && timeout_write != 0 && output non-empty
 *   a pending timer runs with exactly the configured duration
 *
 * For socket bufferevents the timer rides on the I/O event, so additionally
 *   read  event pending  <=>  (enabled & EV_READ)  && !read_suspended
 *   write event pending  <=>  (enabled & EV_WRITE) && !write_suspended && output non-empty
 * Together with C01 (a timer fires exactly when its duration has elapsed since it was last added; persistent I/O events
 * restart their timeout whenever they fire) this is the "fires iff idle that long while trying" statement of C20.
 */
#ifndef C20_COMMON_H_
#define C20_COMMON_H_

static int tv_isset(const struct timeval *tv) { return tv->tv_sec != 0 || tv->tv_usec != 0; }
static int tv_eq(const struct timeval *a, const struct timeval *b) { return a->tv_sec == b->tv_sec && a->tv_usec == b->tv_usec; }

/* C20_W_NEEDS_OUTPUT: 1 = the strict statement; 0 = only "pending output" dropped from the write clause (used by the
 * obligations that isolate a recorded finding) */
#ifndef C20_W_NEEDS_OUTPUT
#define C20_W_NEEDS_OUTPUT 1
#endif

static int c20_want_r(int w) { return (u_bev[w]->enabled & EV_READ) && !U_PRIV(w)->read_suspended; }
static int c20_want_w(int w)
{
	return (u_bev[w]->enabled & EV_WRITE) && !U_PRIV(w)->write_suspended &&
	    (!C20_W_NEEDS_OUTPUT || evbuffer_get_length(u_bev[w]->output) != 0);
}
static void c20_check_inv(int w, int is_socket)
{
	struct bufferevent *b = u_bev[w];
	int want_r = c20_want_r(w), want_w = c20_want_w(w);
	if (is_socket) {
		VP_ASSERT(vp_ev_io_pending(&b->ev_read) == want_r, "C20: read event pending iff reading is enabled and not suspended");
		VP_ASSERT(vp_ev_io_pending(&b->ev_write) == want_w, "C20: write event pending iff writing is enabled, not suspended and output is pending");
	}
	VP_ASSERT(vp_ev_timer_pending(&b->ev_read) == (want_r && tv_isset(&b->timeout_read)),
	    "C20: read timeout pending iff reading is enabled, not suspended and a read timeout is set");
	VP_ASSERT(vp_ev_timer_pending(&b->ev_write) == (want_w && tv_isset(&b->timeout_write)),
	    "C20: write timeout pending iff writing is enabled, not suspended, output is pending and a write timeout is set");
	VP_ASSERT(!vp_ev_timer_pending(&b->ev_read) || tv_eq(&b->ev_read.ev_timeout, &b->timeout_read), "C20: read timeout runs with a stale duration");
	VP_ASSERT(!vp_ev_timer_pending(&b->ev_write) || tv_eq(&b->ev_write.ev_timeout, &b->timeout_write), "C20: write timeout runs with a stale duration");
	VP_ASSERT_NO_LOCKS("bufferevent call");
}
/* a solver-chosen timeval: unset (0,0) or any non-negative value */
static void c20_sym_tv(struct timeval *tv)
{
	tv->tv_sec = (long)vp_range(0, 1000000);
	tv->tv_usec = (long)vp_range(0, 999999);
}
static long c20_adds_tv(struct event *ev) { return vp_rec(ev)->adds_tv; }
#endif
