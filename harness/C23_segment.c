/* C23 (e): segmentation independence.  A symbolic stream of up to VP_S bytes is
 * parsed twice by the real code: once delivered in one piece, once cut at a
 * symbolic point k (0..n) and delivered in two reads with a parser call after
 * each.  Status, parsed result and unconsumed bytes must be identical.
 *
 *   -DVP_SEG_HEADERS   evhttp_parse_headers_()       (state: header list, headers_size)
 *   -DVP_SEG_CHUNKED   evhttp_handle_chunked_read()  (state: ntoread, body_size, body)
 *   -DVP_SEG_FIRSTLINE evhttp_parse_firstline_()     (response kind: status line; no URI parser involved)
 *
 * Buffers are flat evbuffers (env/http_flatbuf.h): what is decided is that
 * http.c keeps no state outside (request, buffer) that depends on where reads
 * ended; evbuffer_readln over chains is properties C12/C13.
 */
#include "vp.h"
#include "log_stub.h"
#include "http_fmt.h"
#include "http_alloc.h"
#include "http_evutil.h"
#include "http.c"
#ifndef VP_S
#define VP_S 8
#endif
#define VP_FLAT_CAP VP_S
#define VP_FLAT_RANGES 1
#define VP_FLAT_NRANGES ((VP_S / 3) + 2)
#include "http_flatbuf.h"

struct run {
	struct evhttp_request req;
	struct evhttp_connection evcon;
	struct evkeyvalq headers;
	struct evbuffer *in, *body;
	enum message_read_status st;
};

static void run_init(struct run *r)
{
	memset(&r->req, 0, sizeof(r->req));
	memset(&r->evcon, 0, sizeof(r->evcon));
	TAILQ_INIT(&r->headers);
	r->in = evbuffer_new();
	r->body = evbuffer_new();
	r->in->is_stream = 1;
	r->req.evcon = &r->evcon;
	r->req.input_headers = &r->headers;
	r->req.input_buffer = r->body;
	r->evcon.max_headers_size = EV_SIZE_MAX;
	r->evcon.max_body_size = EV_UINT64_MAX;
#if defined(VP_SEG_FIRSTLINE)
	r->req.kind = EVHTTP_RESPONSE;
#else
	r->req.kind = EVHTTP_REQUEST;
#endif
	r->req.chunked = 1;
	r->req.ntoread = -1;
}
static enum message_read_status step(struct run *r)
{
#if defined(VP_SEG_HEADERS)
	return evhttp_parse_headers_(&r->req, r->in);
#elif defined(VP_SEG_CHUNKED)
	return evhttp_handle_chunked_read(&r->req, r->in);
#else
	return evhttp_parse_firstline_(&r->req, r->in);
#endif
}
static int final_status(enum message_read_status st) { return st != MORE_DATA_EXPECTED; }

void harness_segment(void)
{
	unsigned char stream[VP_S];
	static struct run A, B;
	size_t n, k, i;

	vp_bytes(stream, VP_S);
	n = (size_t)vp_range(0, VP_S);
	k = (size_t)vp_range(0, VP_S);
	__CPROVER_assume(k <= n);

	run_init(&A);
	run_init(&B);

	/* A: one read */
	vp_flat_put(A.in, stream, 0, n);
	A.st = step(&A);

	/* B: two reads */
	vp_flat_put(B.in, stream, 0, k);
	B.st = step(&B);
	if (!final_status(B.st)) {
		vp_flat_put(B.in, stream, k, n);
		B.st = step(&B);
		VP_WITNESS("second read parsed");
	} else {
		/* the parser reached a verdict on the first part alone: the connection code stops calling it;
		 * the rest of the stream just stays buffered */
		vp_flat_put(B.in, stream, k, n);
	}

	VP_ASSERT(A.st == B.st, "C23: parse status depends on how the stream was segmented");
	VP_ASSERT(evbuffer_get_length(A.in) == evbuffer_get_length(B.in) || A.st == DATA_CORRUPTED,
	    "C23: number of unconsumed bytes depends on how the stream was segmented");
#if defined(VP_SEG_HEADERS)
	if (A.st != DATA_CORRUPTED) {
		struct evkeyval *ha = TAILQ_FIRST(&A.headers), *hb = TAILQ_FIRST(&B.headers);
		int same = 1;
		for (i = 0; i < VP_S / 2 + 1; i++) {
			if (ha == NULL || hb == NULL) break;
			if (strcmp(ha->key, hb->key) != 0 || strcmp(ha->value, hb->value) != 0) same = 0;
			ha = TAILQ_NEXT(ha, next); hb = TAILQ_NEXT(hb, next);
		}
		VP_ASSERT(ha == NULL && hb == NULL, "C23: number of header fields depends on how the stream was segmented");
		VP_ASSERT(same, "C23: header fields depend on how the stream was segmented");
		VP_ASSERT(A.req.headers_size == B.req.headers_size, "C23: headers_size depends on how the stream was segmented");
		if (A.st == ALL_DATA_READ && TAILQ_FIRST(&A.headers) != NULL && k > 0 && k < n) VP_WITNESS("complete section with a field, cut inside");
	}
#elif defined(VP_SEG_CHUNKED)
	if (A.st != DATA_CORRUPTED) {
		int same = 1;
		VP_ASSERT(evbuffer_get_length(A.body) == evbuffer_get_length(B.body), "C23: body length depends on how the stream was segmented");
		VP_ASSERT(A.body->nr == B.body->nr, "C23: chunks delivered depend on how the stream was segmented");
		for (i = 0; i < VP_FLAT_NRANGES; i++)
			if (i < A.body->nr && i < B.body->nr && (A.body->r_off[i] != B.body->r_off[i] || A.body->r_len[i] != B.body->r_len[i])) same = 0;
		VP_ASSERT(same, "C23: body octets depend on how the stream was segmented");
		VP_ASSERT(A.req.body_size == B.req.body_size && A.req.ntoread == B.req.ntoread, "C23: chunk state depends on how the stream was segmented");
		if (A.st == ALL_DATA_READ && A.body->nr == 1 && k > 0 && k < n) VP_WITNESS("complete chunked body, cut inside");
	}
#else
	if (A.st == ALL_DATA_READ) {
		VP_ASSERT(A.req.response_code == B.req.response_code && A.req.major == B.req.major && A.req.minor == B.req.minor,
		    "C23: first line fields depend on how the stream was segmented");
		VP_ASSERT(strcmp(A.req.response_code_line, B.req.response_code_line) == 0, "C23: reason phrase depends on how the stream was segmented");
		if (k > 0 && k < n) VP_WITNESS("complete first line, cut inside");
	}
#endif
	VP_WITNESS("both deliveries parsed");
}
