/* C18 (and the watermark clause of C17) -- paired bufferevents: bufferevent_pair.c + bufferevent.c (real code) over the
 * sink evbuffer (symbolic 64-bit lengths) and recording event stubs.
 *   harness_pair_transfer : be_pair_transfer(src, dst, ignore_wm) from arbitrary lengths / partner read marks
 *   harness_pair_api      : one API operation (C18_OP: write / enable-read / drain / flush) from an arbitrary state;
 *                           nothing deliverable stays stuck, the partner's input never passes its high mark
 */
#include "vp.h"
#include "log_stub.h"
#include "locks.h"
#include "alloc.h"
#include "bev_pre.h"
#include "bufferevent.c"
#include "bufferevent_pair.c"
#define VP_SINK_DISPATCH(fn, b, i, a) do { \
	if ((fn) == bufferevent_inbuf_wm_cb) bufferevent_inbuf_wm_cb((b), (i), (a)); \
	else if ((fn) == be_pair_outbuf_cb) be_pair_outbuf_cb((b), (i), (a)); \
	else VP_ASSERT(0, "harness: unknown evbuffer callback"); } while (0)
#include "evbuf_sink.h"
#include "bev_env.h"
#include "bev_user.h"

/* bufferevent_sock.c is not part of this binary */
const struct bufferevent_ops bufferevent_ops_socket = { "socket-not-linked", 0, NULL, NULL, NULL, NULL, NULL, NULL, NULL };
const struct bufferevent_ops bufferevent_ops_filter = { "filter-not-linked", 0, NULL, NULL, NULL, NULL, NULL, NULL, NULL };

#define SRC 0
#define U_MARK 0x100   /* application-defined event flag */
#define DST 1
#define QUEUED(w) ((U_PRIV(w)->deferred.evcb_flags & (EVLIST_ACTIVE | EVLIST_ACTIVE_LATER)) != 0)
static size_t LEN_IN(int w) { return evbuffer_get_length(u_bev[w]->input); }
static size_t LEN_OUT(int w) { return evbuffer_get_length(u_bev[w]->output); }

static void setup_pair(int options)
{
	static int base_obj;
	struct bufferevent *pair[2];
	int r = bufferevent_pair_new((struct event_base *)&base_obj, options, pair);
	__CPROVER_assume(r == 0);
	u_install(0, pair[0]); u_install(1, pair[1]);
	/* Both deferred callbacks are already queued (an application-defined event is pending on each side): a reachable
	 * state, and it keeps the reference counts concrete during the symbolic step -- SCHEDULE_DEFERRED takes a reference
	 * only when it actually queues; a solver-dependent count would make symex walk the "last reference dropped" path
	 * (unlink + finalize) at every decref. */
	bufferevent_trigger_event(pair[0], U_MARK, 0);
	bufferevent_trigger_event(pair[1], U_MARK, 0);
	VP_ASSERT(vp_defq_n == 2 && U_PRIV(0)->refcnt == 2 && U_PRIV(1)->refcnt == 2, "C19: a queued deferred callback holds one reference");
	/* install the watermark callback of the receiving side with concrete marks (see C18_watermarks.c: setup) */
	bufferevent_setwatermark(pair[DST], EV_READ, 0, 1);
}
static void check_dst_wm(void)
{
	size_t high = u_bev[DST]->wm_read.high;
	VP_ASSERT(((U_PRIV(DST)->read_suspended & BEV_SUSPEND_WM) != 0) == (high != 0 && LEN_IN(DST) >= high),
	    "C18: pair: reading is watermark-suspended iff a non-zero high read watermark is reached");
}
static int wants_to_talk(void)
{
	return (u_bev[SRC]->enabled & EV_WRITE) && (u_bev[DST]->enabled & EV_READ) && !U_PRIV(DST)->read_suspended && LEN_OUT(SRC) != 0;
}

void harness_pair_transfer(void)
{
	size_t S = vp_size(), D = vp_size(), low = vp_size(), high = vp_size(), wlow = vp_size(), n, room;
	int ignore = vp_bool(), blocked;
	setup_pair(0);
	__CPROVER_assume(S <= (size_t)EV_SSIZE_MAX / 2 && D <= (size_t)EV_SSIZE_MAX / 2);
	/* arbitrary consistent state: D bytes buffered at the receiver, marks set (suspension follows from them), receiver
	 * reading, then S bytes of output pending at the sender */
	vp_sink_preset(u_bev[DST]->input, NULL, D);
	bufferevent_setwatermark(u_bev[DST], EV_READ, low, high);
	bufferevent_enable(u_bev[DST], EV_READ);
	bufferevent_setwatermark(u_bev[SRC], EV_WRITE, wlow, 0);
	vp_sink_preset(u_bev[SRC]->output, NULL, S);
	check_dst_wm();
	VP_ASSERT(u_nlog == 0 && vp_defq_n == 2, "C18: no callback so far");

	be_pair_transfer(u_bev[SRC], u_bev[DST], ignore);

	blocked = high != 0 && D >= high && !ignore;
	if (high != 0 && D < high) { room = high - D; n = S < room ? S : room; }
	else if (blocked) n = 0;
	else n = S;
	VP_ASSERT(LEN_IN(DST) == D + n && LEN_OUT(SRC) == S - n, "C17/C18: be_pair_transfer moves exactly min(pending, room below the partner's high read mark)");
	VP_ASSERT(ignore || high == 0 || LEN_IN(DST) <= (D > high ? D : high), "C18: pair transfer pushed the partner's input over its high read watermark");
	check_dst_wm();
	VP_ASSERT(u_bev[SRC]->output->freeze_start && u_bev[DST]->input->freeze_end, "C17: pair buffers frozen again after the transfer");
	/* callbacks are deferred on pairs: pending flags now, invocation when the deferred callbacks run */
	VP_ASSERT(u_nlog == 0, "C19: pair callbacks must be deferred");
	VP_ASSERT(U_PRIV(DST)->readcb_pending == (!blocked && D + n >= low), "C18: pair read callback scheduled iff >= low bytes are buffered");
	VP_ASSERT(U_PRIV(SRC)->writecb_pending == (!blocked && S - n <= wlow), "C18: pair write callback scheduled iff output <= low write mark");
	VP_ASSERT(U_PRIV(DST)->refcnt == 2 && U_PRIV(SRC)->refcnt == 2 && vp_defq_n == 2, "C19: one reference per queued deferred callback, queued once");
	vp_run_deferred();
	/* (a receiver still at/over its high mark re-queues its read callback: bufferevent_inbuf_wm_check) */
	VP_ASSERT(U_PRIV(DST)->refcnt == 1 + QUEUED(DST) && U_PRIV(SRC)->refcnt == 1 && !QUEUED(SRC), "C19: deferred callbacks drop their reference");
	VP_ASSERT(u_reads[DST] == (!blocked && D + n >= low) && u_writes[SRC] == (!blocked && S - n <= wlow), "C18: pair callbacks run iff the watermarks say so");
	VP_ASSERT(u_reads[SRC] == 0 && u_writes[DST] == 0 && u_events[0] == 1 && u_events[1] == 1 && u_last_what[0] == U_MARK && u_last_what[1] == U_MARK, "C18: no other callback");
	VP_ASSERT(!u_reads[DST] || u_in_at_read[DST] >= low, "C18: read callback saw less than the low watermark");
	VP_ASSERT_NO_LOCKS("pair transfer");
	if (blocked) VP_WITNESS("partner at/over its high mark: nothing moved");
	else if (high && n < S) VP_WITNESS("partial transfer up to the high mark");
	else if (ignore && high && D >= high) VP_WITNESS("flush ignores the high mark");
	else VP_WITNESS("everything moved");
}

#ifndef C18_OP
#define C18_OP 0
#endif
/* one API operation from an arbitrary state */
void harness_pair_api(void)
{
	size_t S = vp_size(), D = vp_size(), low = vp_size(), high = vp_size(), m = 0, total, D1;
	int dst_reads = vp_bool(), src_writes = vp_bool(), bw = vp_bool();
	setup_pair(0);
	__CPROVER_assume(S <= (size_t)EV_SSIZE_MAX / 4 && D <= (size_t)EV_SSIZE_MAX / 4);
	vp_sink_preset(u_bev[DST]->input, NULL, D);
	if (!src_writes) bufferevent_disable(u_bev[SRC], EV_WRITE);
	if (bw) bufferevent_suspend_read_(u_bev[DST], BEV_SUSPEND_BW);
	if (dst_reads) bufferevent_enable(u_bev[DST], EV_READ);
	bufferevent_setwatermark(u_bev[DST], EV_READ, low, high);
	check_dst_wm();
	/* pending output on the sending side, as left by earlier writes that could not be delivered */
	vp_sink_preset(u_bev[SRC]->output, NULL, S);
	__CPROVER_assume(!wants_to_talk());      /* consistent state: whatever could be delivered has been delivered */
	D1 = LEN_IN(DST);
	total = S + D1;
#if C18_OP == 0       /* the application writes m more bytes */
	m = vp_size();
	__CPROVER_assume(m >= 1 && m <= (size_t)EV_SSIZE_MAX / 4);
	{ int r = bufferevent_write(u_bev[SRC], NULL, m); VP_ASSERT(r == 0, "C17: bufferevent_write on a pair failed"); }
#elif C18_OP == 1     /* the partner starts reading */
	bufferevent_enable(u_bev[DST], EV_READ);
#elif C18_OP == 2     /* the partner's application consumes k bytes */
	{ size_t k = vp_size(); evbuffer_drain(u_bev[DST]->input, k); total -= (k < D1 ? k : D1); D1 -= (k < D1 ? k : D1); }
#elif C18_OP == 3     /* the other suspension ends / the sender is enabled */
	if (bw) bufferevent_unsuspend_read_(u_bev[DST], BEV_SUSPEND_BW);
	bufferevent_enable(u_bev[SRC], EV_WRITE);
#elif C18_OP == 4     /* the read marks change */
	{ size_t l2 = vp_size(), h2 = vp_size(); bufferevent_setwatermark(u_bev[DST], EV_READ, l2, h2); high = h2; }
#endif
	VP_ASSERT_NO_LOCKS("pair operation");
	VP_ASSERT(LEN_OUT(SRC) + LEN_IN(DST) == total + m, "C17: bytes lost or duplicated between the pair's buffers");
	VP_ASSERT(LEN_IN(DST) >= D1, "C17: pair operation removed bytes from the partner's input");
	check_dst_wm();
	VP_ASSERT(high == 0 || LEN_IN(DST) <= (D1 > high ? D1 : high), "C18: the partner's input passed its high read watermark");
	VP_ASSERT(!wants_to_talk(), "C18: deliverable output left behind although the partner reads and is below its high watermark");
	VP_ASSERT(u_nlog == 0, "C19: pair callbacks must be deferred");
	if (LEN_IN(DST) > D1) {
		VP_ASSERT(U_PRIV(DST)->readcb_pending == (LEN_IN(DST) >= u_bev[DST]->wm_read.low), "C18: pair read callback scheduled iff >= low bytes are buffered");
		VP_WITNESS("bytes delivered to the partner");
	} else
		VP_WITNESS("nothing delivered");
	if (high && LEN_IN(DST) >= high && LEN_OUT(SRC)) VP_WITNESS("output held back by the partner's high watermark");
}
