/* C46: evutil_secure_rng_get_bytes fills the whole requested buffer (and nothing else).
 * Two-run argument: the same call on the same buffer pre-filled with 0x00 and with 0xFF,
 * with the entropy source replaying the same outputs, must give identical bytes in
 * [0,n) -- a byte that is not written would differ -- and leave the guard bytes alone.
 * VP_RNG_MODE 0: configuration as built here (platform arc4random_buf, contract stub)
 *             1: platform arc4random() only (alignment-splitting fallback in evutil_rand.c)
 *             2: libevent's own arc4random.c (already seeded so no re-stir happens, keystream state restored between runs) */
#include "vp.h"
#include "log_stub.h"
#include "locks.h"
#include "alloc.h"
#include "event2/event-config.h"
#include "evconfig-private.h"
#if VP_RNG_MODE == 1
#undef EVENT__HAVE_ARC4RANDOM_BUF
#elif VP_RNG_MODE == 2
#undef EVENT__HAVE_ARC4RANDOM_BUF
#undef EVENT__HAVE_ARC4RANDOM
#endif
#include <stdlib.h>

#define NMAX 16
static uint32_t vp_seq[NMAX + 2]; static unsigned vp_seq_pos;
static void *vp_last_buf; static size_t vp_last_n; static int vp_buf_calls;
#if VP_RNG_MODE == 0
void arc4random_buf(void *buf, size_t n)
{
	size_t i; vp_buf_calls++; vp_last_buf = buf; vp_last_n = n;
	for (i = 0; i < n && i < NMAX; i++) ((unsigned char *)buf)[i] = (unsigned char)vp_seq[i];
}
#endif
#if VP_RNG_MODE <= 1
uint32_t arc4random(void) { uint32_t v = vp_seq[vp_seq_pos < NMAX + 2 ? vp_seq_pos : 0]; vp_seq_pos++; return v; }
#endif
#include <unistd.h>
pid_t getpid(void) { return 4242; }
#include "evutil_rand.c"

void harness_secure(void)
{
	unsigned char area[NMAX + 12], out1[NMAX];
	size_t off = (size_t)vp_range(0, 3), n = (size_t)vp_range(0, NMAX), i, k;
	unsigned char *p = area + 4 + off;
#if VP_RNG_MODE == 2
	struct arc4_stream saved; int saved_count;
	/* an initialised keystream state; seeded, same pid, large count: arc4_stir is not re-entered */
	rs_initialized = 1; arc4_stir_pid = getpid();
	for (i = 0; i < 256; i++) rs.s[i] = (unsigned char)i;
	rs.i = 0; rs.j = 0; arc4_count = 1600000; /* concrete keystream state: the fill property does not depend on it */
	saved = rs; saved_count = arc4_count;
#endif
	for (i = 0; i < NMAX + 2; i++) vp_seq[i] = vp_u32();
	for (i = 0; i < sizeof(area); i++) area[i] = 0x00;
	vp_seq_pos = 0;
	evutil_secure_rng_get_bytes(p, n);
#if VP_RNG_MODE == 0
	VP_ASSERT(vp_buf_calls == 1 && vp_last_buf == (void *)p && vp_last_n == n, "C46: secure RNG did not request exactly the caller's buffer and length from the platform");
#endif
	for (i = 0; i < NMAX; i++) out1[i] = p[i];
	VP_ASSERT(area[4 + off - 1] == 0x00 && p[n] == 0x00, "C46: secure RNG wrote outside the requested buffer");
	for (i = 0; i < sizeof(area); i++) area[i] = 0xFF;
	vp_seq_pos = 0;
#if VP_RNG_MODE == 2
	rs = saved; arc4_count = saved_count;
#endif
	evutil_secure_rng_get_bytes(p, n);
	VP_ASSERT(area[4 + off - 1] == 0xFF && p[n] == 0xFF, "C46: secure RNG wrote outside the requested buffer");
	k = vp_size();
	if (k < n) VP_ASSERT(p[k] == out1[k], "C46: a byte of the requested buffer was not filled by evutil_secure_rng_get_bytes");
	if (n == NMAX) VP_WITNESS("full length");
	if (n == 0) VP_WITNESS("zero length");
	if (n == 5 && off == 3) VP_WITNESS("unaligned 5 bytes");
}
