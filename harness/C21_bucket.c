/* C21: token bucket refill arithmetic (bufferevent_ratelim.c) */
#include "vp.h"
#include "log_stub.h"
#include "locks.h"
#include "alloc.h"
#include "bufferevent_ratelim.c"

#ifndef VP_NLO
#define VP_NLO 1
#endif
#ifndef VP_NHI
#define VP_NHI 15
#endif
typedef __int128 i128;

static void vp_cfg(struct ev_token_bucket_cfg *cfg)
{
	/* any configuration ev_token_bucket_cfg_new accepts (see harness_cfg_new) */
	memset(cfg, 0, sizeof(*cfg));
	cfg->read_rate = vp_size(); cfg->read_maximum = vp_size();
	cfg->write_rate = vp_size(); cfg->write_maximum = vp_size();
	__CPROVER_assume(cfg->read_rate >= 1 && cfg->read_rate <= cfg->read_maximum && cfg->read_maximum <= EV_RATE_LIMIT_MAX);
	__CPROVER_assume(cfg->write_rate >= 1 && cfg->write_rate <= cfg->write_maximum && cfg->write_maximum <= EV_RATE_LIMIT_MAX);
	cfg->msec_per_tick = (unsigned)vp_range(1, 0xffffffffu);
}

/* (a) refill == min(burst, level + n*rate), no wrap, for n in [VP_NLO, VP_NHI] */
void harness_update(void)
{
	struct ev_token_bucket_cfg cfg; struct ev_token_bucket b;
	ev_uint32_t last = vp_u32(), cur = vp_u32(); unsigned n = cur - last;
	ev_ssize_t r0, w0; int r; i128 want;
	vp_cfg(&cfg);
	b.read_limit = r0 = (ev_ssize_t)vp_u64(); b.write_limit = w0 = (ev_ssize_t)vp_u64(); b.last_updated = last;
	__CPROVER_assume(n >= VP_NLO && n <= VP_NHI);
	/* state invariant: a level never exceeds its burst maximum (init_ sets rate <= burst, update clips, decrements only lower it) */
	__CPROVER_assume((i128)r0 <= (i128)cfg.read_maximum && (i128)w0 <= (i128)cfg.write_maximum);
	r = ev_token_bucket_update_(&b, &cfg, cur);
	VP_ASSERT(r == 1, "C21: refill with a positive tick count must report an update");
	want = (i128)r0 + (i128)n * (i128)cfg.read_rate;
	if (want > (i128)cfg.read_maximum) want = (i128)cfg.read_maximum;
	VP_ASSERT((i128)b.read_limit == want, "C21: read level != min(burst, level + ticks*rate)");
#ifndef VP_READ_ONLY
	want = (i128)w0 + (i128)n * (i128)cfg.write_rate;
	if (want > (i128)cfg.write_maximum) want = (i128)cfg.write_maximum;
	VP_ASSERT((i128)b.write_limit == want, "C21: write level != min(burst, level + ticks*rate)");
#endif
	VP_ASSERT(b.last_updated == cur, "C21: last_updated not advanced");
	if (r0 < 0 && b.read_limit < (ev_ssize_t)cfg.read_maximum) VP_WITNESS("deficit partially refilled");
	if (b.read_limit == (ev_ssize_t)cfg.read_maximum && r0 < b.read_limit) VP_WITNESS("clipped at burst");
}

/* (b) zero ticks, or a tick count that looks like time went backwards: nothing changes */
void harness_noop(void)
{
	struct ev_token_bucket_cfg cfg; struct ev_token_bucket b;
	ev_uint32_t last = vp_u32(), cur = vp_u32(); unsigned n = cur - last;
	ev_ssize_t r0, w0; int r;
	vp_cfg(&cfg);
	b.read_limit = r0 = (ev_ssize_t)vp_u64(); b.write_limit = w0 = (ev_ssize_t)vp_u64(); b.last_updated = last;
	__CPROVER_assume(n == 0 || n > (unsigned)INT_MAX);
	r = ev_token_bucket_update_(&b, &cfg, cur);
	VP_ASSERT(r == 0 && b.read_limit == r0 && b.write_limit == w0 && b.last_updated == last, "C21: zero/backwards tick count changed the bucket");
	if (n == 0) VP_WITNESS("zero ticks");
	if (n > (unsigned)INT_MAX) VP_WITNESS("backwards");
}

/* (c) tick computation: no division by zero / overflow, equals floor(msec / msec_per_tick) mod 2^32 */
void harness_tick(void)
{
	struct ev_token_bucket_cfg cfg; struct timeval tv; ev_uint32_t t; ev_uint64_t msec;
	vp_cfg(&cfg);
	tv.tv_sec = (long)vp_range(0, (uint64_t)1 << 40); tv.tv_usec = (long)vp_range(0, 999999);
	t = ev_token_bucket_get_tick_(&tv, &cfg);
	/* the obligations here are cbmc's own: no division by zero, no signed overflow, no out-of-range conversion
	 * for any accepted configuration; plus monotonicity in the special case of 1 ms ticks */
	msec = (ev_uint64_t)tv.tv_sec * 1000 + (ev_uint64_t)(tv.tv_usec / 1000);
	if (cfg.msec_per_tick == 1) VP_ASSERT(t == (ev_uint32_t)msec, "C21: with 1 ms ticks the tick number is the millisecond count");
	VP_WITNESS("tick");
}

/* (d) cfg_new accepts exactly: tick length (default 1 s) with 0 <= sec <= INT_MAX/1000 and a non-zero
 * millisecond count, 1 <= rate <= burst <= EV_RATE_LIMIT_MAX for both directions */
void harness_cfg_new(void)
{
	size_t rr = vp_size(), rb = vp_size(), wr = vp_size(), wb = vp_size();
	struct timeval tv; int use_tv = vp_bool(); struct ev_token_bucket_cfg *c;
	int ok; unsigned msec = 1000;
	tv.tv_sec = (long)vp_u64(); tv.tv_usec = (long)vp_range(0, 999999);
	ok = rr >= 1 && wr >= 1 && rr <= rb && wr <= wb && rb <= EV_RATE_LIMIT_MAX && wb <= EV_RATE_LIMIT_MAX;
	if (use_tv) {
		if (tv.tv_sec < 0 || tv.tv_sec > INT_MAX / 1000) ok = 0;
		else { msec = (unsigned)(tv.tv_sec * 1000 + tv.tv_usec / 1000); if (!msec) ok = 0; }
	}
	c = ev_token_bucket_cfg_new(rr, rb, wr, wb, use_tv ? &tv : NULL);
	VP_ASSERT((c != NULL) == (ok != 0), "C21: ev_token_bucket_cfg_new accepts exactly the valid parameter set");
	if (c) {
		VP_ASSERT(c->read_rate == rr && c->read_maximum == rb && c->write_rate == wr && c->write_maximum == wb, "C21: configuration does not hold the caller's rates/bursts");
		VP_ASSERT(c->msec_per_tick == msec && c->msec_per_tick >= 1, "C21: msec_per_tick != tick length in milliseconds");
		VP_WITNESS("accepted");
		if (use_tv && tv.tv_sec == INT_MAX / 1000) VP_WITNESS("largest tick");
	} else VP_WITNESS("rejected");
}

/* (e) init: fresh buckets start at the rate; re-initialisation only clips downwards */
void harness_init(void)
{
	struct ev_token_bucket_cfg cfg; struct ev_token_bucket b; int re = vp_bool();
	ev_ssize_t r0 = (ev_ssize_t)vp_u64(), w0 = (ev_ssize_t)vp_u64(); ev_uint32_t last = vp_u32(), cur = vp_u32();
	vp_cfg(&cfg);
	b.read_limit = r0; b.write_limit = w0; b.last_updated = last;
	ev_token_bucket_init_(&b, &cfg, cur, re);
	if (re) {
		VP_ASSERT(b.read_limit == (r0 > (ev_ssize_t)cfg.read_maximum ? (ev_ssize_t)cfg.read_maximum : r0), "C21: reinit must clip the read level to the new burst and nothing else");
		VP_ASSERT(b.write_limit == (w0 > (ev_ssize_t)cfg.write_maximum ? (ev_ssize_t)cfg.write_maximum : w0), "C21: reinit must clip the write level to the new burst and nothing else");
		VP_ASSERT(b.last_updated == last, "C21: reinit must keep last_updated");
		VP_WITNESS("reinit");
	} else {
		VP_ASSERT(b.read_limit == (ev_ssize_t)cfg.read_rate && b.write_limit == (ev_ssize_t)cfg.write_rate && b.last_updated == cur, "C21: fresh bucket must start with one tick's worth");
		VP_WITNESS("init");
	}
}
