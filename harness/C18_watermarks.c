/* C18 -- read/write watermarks of socket bufferevents (bufferevent.c + bufferevent_sock.c, real code) over the contract
 * sink evbuffer (env/evbuf_sink.h: lengths are symbolic 64-bit values) and recording event stubs (env/bev_env.h).
 *
 * Entry points:
 *   harness_read_wm     : arbitrary input length / read watermarks (set through bufferevent_setwatermark) / enabled or
 *                         not; the read event fires with an arbitrary kernel result; then the application drains.
 *   harness_setwm       : watermark changed while suspended / not suspended, other suspension reasons present
 *   harness_write_wm    : arbitrary output length / low write watermark; the write event fires
 */
#include "vp.h"
#include "log_stub.h"
#include "locks.h"
#include "alloc.h"
#include "bev_pre.h"
#include "bufferevent.c"
#include "bufferevent_sock.c"
#include "evbuf_sink.h"
#include "bev_env.h"

#define FD 5
static struct bufferevent *g_bev;
static int g_arg;
static int u_read_calls, u_write_calls, u_event_calls;
static short u_event_what;
static size_t u_in_at_read, u_out_at_write;
static size_t u_drain_in_readcb;        /* how much the application consumes inside its read callback */
static int u_low_ok = 1;                /* read callback always saw >= low bytes */
static void u_readcb(struct bufferevent *bev, void *arg)
{
	VP_ASSERT(bev == g_bev && arg == &g_arg, "C18: read callback arguments");
	u_read_calls++;
	u_in_at_read = evbuffer_get_length(g_bev->input);
	if (u_in_at_read < g_bev->wm_read.low) u_low_ok = 0;
	if (u_drain_in_readcb) evbuffer_drain(g_bev->input, u_drain_in_readcb);
}
static void u_writecb(struct bufferevent *bev, void *arg)
{
	VP_ASSERT(bev == g_bev && arg == &g_arg, "C18: write callback arguments");
	u_write_calls++;
	u_out_at_write = evbuffer_get_length(g_bev->output);
}
static void u_eventcb(struct bufferevent *bev, short what, void *arg)
{
	VP_ASSERT(bev == g_bev && arg == &g_arg, "C18: event callback arguments");
	u_event_calls++; u_event_what = what;
}

static struct bufferevent_private *P(void) { return BEV_UPCAST(g_bev); }
/* watermark bound: see KF note in props/C18.py (high marks >= 2^63 are a recorded finding) */
#ifdef C18_HUGE_WM
#define WM_MAX ((size_t)-1)
#else
#define WM_MAX ((size_t)EV_SSIZE_MAX)
#endif

static void setup(int options)
{
	static int base_obj;
	g_bev = bufferevent_socket_new((struct event_base *)&base_obj, FD, options);
	__CPROVER_assume(g_bev != NULL);
	bufferevent_setcb(g_bev, u_readcb, u_writecb, u_eventcb, &g_arg);
#ifndef C18_NO_PREINSTALL
	/* The watermark evbuffer callback is installed by the first non-zero high mark and stays installed (disabled when the
	 * mark returns to 0).  Install it here with CONCRETE arguments, on the still empty input buffer, so that "callback
	 * installed" is not a solver-dependent pointer state (cbmc: an ite() callback list makes every function a call
	 * candidate); the symbolic watermark changes that follow are then changes of an existing mark.  The never-installed
	 * case is the C18_NO_PREINSTALL variant (high mark 0 or a concrete first value). */
	bufferevent_setwatermark(g_bev, EV_READ, 0, 1);
#endif
}
/* the invariant that ties suspension, enabling and the read event together (socket bufferevent, not connecting) */
static void check_read_state(const char *unused)
{
	size_t len = evbuffer_get_length(g_bev->input), high = g_bev->wm_read.high;
	int wm_susp = (P()->read_suspended & BEV_SUSPEND_WM) != 0;
	(void)unused;
	VP_ASSERT(wm_susp == (high != 0 && len >= high), "C18: reading is watermark-suspended iff a non-zero high read watermark is reached");
	VP_ASSERT(vp_ev_io_pending(&g_bev->ev_read) == ((g_bev->enabled & EV_READ) && !P()->read_suspended),
	    "C18: read event pending iff reading is enabled and not suspended (reading resumes as soon as input is below the high watermark)");
	VP_ASSERT_NO_LOCKS("bufferevent call");
	VP_ASSERT(P()->refcnt == 1 + vp_defq_n, "C18: reference count is 1 plus one per queued deferred callback");
}

void harness_read_wm(void)
{
	size_t len0 = vp_size(), low = vp_size(), high = vp_size(), len1, k;
	int en = vp_bool(), pending;
	long r;
	setup(0);
	__CPROVER_assume(high <= WM_MAX && len0 <= (size_t)EV_SSIZE_MAX);
	vp_sink_preset(g_bev->input, NULL, len0);
	if (en) bufferevent_enable(g_bev, EV_READ);
	bufferevent_setwatermark(g_bev, EV_READ, low, high);
	check_read_state("setwatermark");
	VP_ASSERT(u_read_calls == 0 && u_event_calls == 0, "C18: no callback from setwatermark");

	pending = vp_ev_io_pending(&g_bev->ev_read);
	if (!pending) { VP_WITNESS("read event not pending (disabled or at/over the high watermark)"); return; }
	vp_sink_rd_avail = (size_t)vp_range(1, 0x7fffffff);
	u_drain_in_readcb = vp_size();
	bufferevent_readcb(FD, EV_READ, g_bev);
	r = vp_sink_last_rd;
	len1 = evbuffer_get_length(g_bev->input);
	VP_ASSERT(vp_sink_rd_calls == 1, "C18: a pending, unsuspended read event reads exactly once");
	/* howmuch never lets the input exceed a non-zero high watermark */
	if (high != 0) {
		VP_ASSERT(vp_sink_rd_howmuch >= 1 && (size_t)vp_sink_rd_howmuch <= high - len0, "C18: read asked for more than the room below the high read watermark");
		VP_ASSERT(r <= 0 || len0 + (size_t)r <= high, "C18: input exceeded the high read watermark");
	}
	VP_ASSERT(vp_sink_rd_howmuch >= 1 && vp_sink_rd_howmuch <= VP_BEV_MAX_SINGLE, "C18: read size not within 1..max_single_read");
	if (r > 0) {
		VP_ASSERT(u_read_calls == (len0 + (size_t)r >= low ? 1 : 0), "C18: read callback iff at least the low read watermark is buffered");
		VP_ASSERT(u_low_ok, "C18: read callback saw less than the low watermark");
		VP_ASSERT(u_event_calls == 0, "C18: event callback on a successful read");
		VP_ASSERT(u_read_calls == 0 || u_in_at_read == len0 + (size_t)r, "C18: read callback sees the bytes read");
		VP_ASSERT((g_bev->enabled & EV_READ), "C18: still enabled after a successful read");
		check_read_state("readcb");
		if (u_read_calls && len1 < len0 + (size_t)r && high && len0 + (size_t)r >= high && len1 < high) VP_WITNESS("callback drained below the high watermark: reading resumed");
		if (u_read_calls == 0) VP_WITNESS("data read but below the low watermark: no callback");
		if (high && len1 >= high) VP_WITNESS("high watermark reached: reading suspended");
	} else if (r == 0) {
		VP_ASSERT(u_read_calls == 0, "C18: read callback on EOF without data");
		VP_ASSERT(u_event_calls == 1 && u_event_what == (BEV_EVENT_READING | BEV_EVENT_EOF), "C18: EOF reported as READING|EOF");
		VP_ASSERT(!(g_bev->enabled & EV_READ) && !vp_ev_io_pending(&g_bev->ev_read), "C18: reading disabled after EOF");
		VP_WITNESS("EOF");
	} else {
		int e = vp_sink_last_errno;
		VP_ASSERT(u_read_calls == 0, "C18: read callback after a failed read");
		if (e == EAGAIN || e == EINTR || e == ECONNREFUSED) {
			VP_ASSERT(u_event_calls == 0, "C18: event callback for a retriable read error");
			check_read_state("readcb retriable");
			VP_WITNESS("retriable read error");
		} else {
			VP_ASSERT(u_event_calls == 1 && u_event_what == (BEV_EVENT_READING | BEV_EVENT_ERROR), "C18: read error reported as READING|ERROR");
			VP_ASSERT(!(g_bev->enabled & EV_READ) && !vp_ev_io_pending(&g_bev->ev_read), "C18: reading disabled after an error");
			VP_WITNESS("read error");
		}
	}
	/* later the application drains k more bytes: reading resumes as soon as the input is below the high mark */
	if (r > 0) {
		k = vp_size();
		evbuffer_drain(g_bev->input, k);
		check_read_state("drain");
		if (high && len1 >= high && evbuffer_get_length(g_bev->input) < high) VP_WITNESS("drain below the high watermark: reading resumed");
	}
}

/* watermarks changed twice (second change while possibly suspended), with an unrelated suspension (bandwidth) possibly
 * present and reading possibly disabled */
void harness_setwm(void)
{
	size_t len0 = vp_size(), k;
	int en = vp_bool(), bw = vp_bool(), i;
	setup(0);
	__CPROVER_assume(len0 <= (size_t)EV_SSIZE_MAX);
	vp_sink_preset(g_bev->input, NULL, len0);
	if (en) bufferevent_enable(g_bev, EV_READ);
	if (bw) bufferevent_suspend_read_(g_bev, BEV_SUSPEND_BW);
	for (i = 0; i < 2; i++) {
		size_t low = vp_size(), high = vp_size();
		__CPROVER_assume(high <= WM_MAX);
		bufferevent_setwatermark(g_bev, EV_READ, low, high);
		VP_ASSERT(g_bev->wm_read.low == low && g_bev->wm_read.high == high, "C18: setwatermark stores the marks");
		check_read_state("setwatermark");
	}
	/* write marks do not touch the read side */
	bufferevent_setwatermark(g_bev, EV_WRITE, vp_size(), vp_size());
	check_read_state("setwatermark(EV_WRITE)");
	if (bw) { bufferevent_unsuspend_read_(g_bev, BEV_SUSPEND_BW); check_read_state("unsuspend bw"); }
	if (vp_bool()) { bufferevent_disable(g_bev, EV_READ); check_read_state("disable"); bufferevent_enable(g_bev, EV_READ); check_read_state("enable"); }
	k = vp_size();
	evbuffer_drain(g_bev->input, k);
	check_read_state("drain");
	VP_ASSERT(u_read_calls == 0 && u_event_calls == 0 && u_write_calls == 0, "C18: no user callback from watermark/suspend bookkeeping");
	if (P()->read_suspended & BEV_SUSPEND_WM) VP_WITNESS("still suspended by the watermark");
	else if (g_bev->wm_read.high) VP_WITNESS("below a non-zero high watermark: not suspended");
	else VP_WITNESS("no high watermark");
}

/* write side: the write callback runs iff the output is at or below the low write watermark after the write */
void harness_write_wm(void)
{
	size_t len0 = vp_size(), low = vp_size(), high = vp_size(), len1;
	long r;
	setup(0);
	__CPROVER_assume(len0 <= (size_t)EV_SSIZE_MAX);
	bufferevent_setwatermark(g_bev, EV_WRITE, low, high);
	vp_sink_preset(g_bev->output, NULL, len0);
	/* the write event as bufferevent_socket_outbuf_cb leaves it when data was queued */
	if (len0) event_add(&g_bev->ev_write, NULL);
	bufferevent_writecb(FD, EV_WRITE, g_bev);
	r = vp_sink_last_wr;
	len1 = evbuffer_get_length(g_bev->output);
	VP_ASSERT_NO_LOCKS("bufferevent_writecb");
	VP_ASSERT(P()->refcnt == 1, "C18: reference count back to 1");
	if (len0 == 0) {
		VP_ASSERT(vp_sink_wr_calls == 0, "C18: write attempted with an empty output buffer");
		VP_ASSERT(u_write_calls == 1, "C18: empty output is at or below any low watermark: write callback runs");
		VP_WITNESS("nothing to write");
		return;
	}
	VP_ASSERT(vp_sink_wr_calls == 1 && vp_sink_wr_offered >= 1 && vp_sink_wr_offered <= len0, "C18: exactly one write of at most the buffered bytes");
	if (r > 0) {
		VP_ASSERT(len1 == len0 - (size_t)r, "C18: exactly the accepted bytes leave the output");
		VP_ASSERT(u_write_calls == (len1 <= low ? 1 : 0), "C18: write callback iff the output is at or below the low write watermark");
		VP_ASSERT(u_write_calls == 0 || u_out_at_write == len1, "C18: write callback sees the drained buffer");
		VP_ASSERT(u_event_calls == 0, "C18: event callback on a successful write");
		VP_ASSERT(vp_ev_io_pending(&g_bev->ev_write) == (len1 != 0), "C18: write event stays pending iff output remains");
		if (u_write_calls && len1) VP_WITNESS("write callback with output left (<= low mark)");
		if (!u_write_calls) VP_WITNESS("partial write above the low mark: no callback");
		if (len1 == 0) VP_WITNESS("output drained");
	} else if (r == 0) {
		VP_ASSERT(u_write_calls == 0, "C18: write callback although nothing was written");
		VP_ASSERT(u_event_calls == 1 && u_event_what == (BEV_EVENT_WRITING | BEV_EVENT_EOF), "C18: write returning 0 reported as WRITING|EOF");
		VP_WITNESS("write returned 0");
	} else {
		int e = vp_sink_last_errno;
		VP_ASSERT(u_write_calls == 0, "C18: write callback after a failed write");
		VP_ASSERT(len1 == len0, "C18: failed write changed the output");
		if (e == EAGAIN || e == EINTR) {
			VP_ASSERT(u_event_calls == 0 && (g_bev->enabled & EV_WRITE) && vp_ev_io_pending(&g_bev->ev_write), "C18: retriable write error must leave writing armed");
			VP_WITNESS("retriable write error");
		} else {
			VP_ASSERT(u_event_calls == 1 && u_event_what == (BEV_EVENT_WRITING | BEV_EVENT_ERROR), "C18: write error reported as WRITING|ERROR");
			VP_ASSERT(!(g_bev->enabled & EV_WRITE) && !vp_ev_io_pending(&g_bev->ev_write), "C18: writing disabled after an error");
			VP_WITNESS("write error");
		}
	}
}
