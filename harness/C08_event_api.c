/* C08 -- every public call of event.c / watch.c returns with all internal locks released.
 *
 * One API call per obligation (-DC08_OP=OP_xxx), made on a *constructed* base that has a real lock
 * object (env/locks.h monitor: counting lock, owner, unlock-of-unheld / re-entry assertions) and
 * three events registered through the library's own API:
 *     T  pure timer, pending (5 s)            R  persistent EV_READ on fd 3, added
 *     E  the target: kind -DC08_KIND (K_IO fd 4 RW / K_TIMER / K_SIG signal 2 persistent),
 *        state -DC08_ST (0 assigned only, 1 added with a 2 s timeout, 2 active)
 * Data arguments of the call are symbolic (result flags, ncalls, priorities, query masks).  Everything that
 * decides the SHAPE of the resulting state is chosen by the solver too, but each alternative runs as its own
 * unmerged scenario (PICK_* below): the fault vector (1st / 2nd allocation of the call fails, back end or signal
 * back end refuses; later allocations fail nondeterministically -- through event.c's own mm_*_fn_ hooks), the
 * timeout argument (NULL, 0, 1 s, 7.25 s: before/after the pending timer), fds / signal numbers / priority
 * counts from small sets, which variant of the call.  Measured reason: a merged ite(NULL,obj) allocation result,
 * a symbolic duration (= symbolic heap slot) or a symbolic fd (= symbolic evmap slot) each cost > 150 s per call.
 * Context -DC08_CTX: 0 no loop running; 1 call made from inside E's own callback (loop thread);
 * 2 call made by "another thread" (vp_cur_thread = 2) while the loop thread sits in the back end's
 * dispatch with the base lock released.
 * Checked after the call (and again after the enclosing loop returns): vp_lock_depth_total == 0,
 * plus the monitor's own assertions (no unlock of an unheld lock, no re-entry of a non-recursive
 * lock, condition wait only with the lock held) and every EVENT_BASE_ASSERT_LOCKED in the library.
 */
#include "event_struct_nounion.h"   /* unions of struct event laid out as structs, see that header */
#include "vp.h"
#include "log_stub.h"
#include "locks.h"
#define VP_HAVE_EVENT_C
#include "alloc.h"
#include "event.c"
#include "watch.c"
#include "evmap.c"
#include "evbase.h"

#define K_IO 0
#define K_TIMER 1
#define K_SIG 2
#ifndef C08_KIND
#define C08_KIND K_IO
#endif
#ifndef C08_ST
#define C08_ST 1
#endif
#ifndef C08_CTX
#define C08_CTX 0
#endif

/* (macros, not an enum: the selection is done by the preprocessor) */
#define OP_ADD 0
#define OP_DEL 1
#define OP_DEL_BLOCK 2
#define OP_DEL_NOBLOCK 3
#define OP_ACTIVE 4
#define OP_ASSIGN 5
#define OP_NEW_FREE 6
#define OP_ONCE 7
#define OP_PRIORITY_SET 8
#define OP_REMOVE_TIMER 9
#define OP_LOOPBREAK 10
#define OP_LOOPCONTINUE 11
#define OP_LOOPEXIT 12
#define OP_LOOP 13
#define OP_TIME 14
#define OP_DUMP 15
#define OP_FOREACH 16
#define OP_PENDING 17
#define OP_FINALIZE 18
#define OP_FREE_FINALIZE 19
#define OP_PRIORITY_INIT 20
#define OP_COMMON_TIMEOUT 21
#define OP_WATCH 22
#define OP_GETTERS 23
#define OP_ACTIVE_BY_FD 24
#define OP_ACTIVE_BY_SIGNAL 25
#define OP_VIRTUAL 26
#define OP_NOTIFIABLE 27
#define OP_CALLBACK 28
#define OP_DEFERRED 29
#define OP_ACTIVE_LATER 30
#define OP_FINALIZE_MANY 31
#define OP_BASE_FREE 32
#define OP_ASSERT_OK 33
#define OP_BASE_SET 34
#ifndef C08_OP
#define C08_OP OP_ONCE
#endif

static struct event_base *base;
static struct event T, R, E;
static int ncb_T, ncb_R, ncb_E, ncb_once, ncb_fin, ncb_self, ncb_watch, ncb_foreach;
static int op_done;           /* the call under test has been made */
static void the_call(void);

/* ---- per-operation scenario dimensions --------------------------------------------------- */
/* USE_FV: 0 no fault can matter, 1 only back-end refusal, 2 allocations + back end;  USE_TV: the call takes a timeout;
 * NCH: number of variants of the call (g_ch) */
#if C08_OP == OP_ADD
#define USE_FV 2
#define USE_TV 1
#define NCH 1
#elif C08_OP == OP_DEL || C08_OP == OP_DEL_BLOCK || C08_OP == OP_DEL_NOBLOCK || C08_OP == OP_FINALIZE
#define USE_FV 1
#define USE_TV 0
#define NCH 1
#elif C08_OP == OP_ACTIVE || C08_OP == OP_ACTIVE_LATER
#define USE_FV 1
#define USE_TV 0
#define NCH 1
#elif C08_OP == OP_NEW_FREE
#define USE_FV 2
#define USE_TV 0
#define NCH 3
#elif C08_OP == OP_FREE_FINALIZE
#define USE_FV 2
#define USE_TV 0
#define NCH 2
#elif C08_OP == OP_ONCE
#define USE_FV 2
#define USE_TV 1
#define NCH 2
#elif C08_OP == OP_LOOPEXIT
#define USE_FV 2
#define USE_TV 1
#define NCH 1
#elif C08_OP == OP_LOOP
#define USE_FV 1
#define USE_TV 0
#define NCH 2
#elif C08_OP == OP_PRIORITY_INIT
#define USE_FV 2
#define USE_TV 0
#define NCH 4
#elif C08_OP == OP_COMMON_TIMEOUT
#define USE_FV 2
#define USE_TV 0
#define NCH 4
#elif C08_OP == OP_WATCH
#define USE_FV 2
#define USE_TV 0
#define NCH 4
#elif C08_OP == OP_NOTIFIABLE
#define USE_FV 2
#define USE_TV 0
#define NCH 2
#elif C08_OP == OP_BASE_FREE
#define USE_FV 1
#define USE_TV 0
#define NCH 2
#elif C08_OP == OP_FOREACH || C08_OP == OP_PENDING || C08_OP == OP_ACTIVE_BY_SIGNAL || C08_OP == OP_CALLBACK || C08_OP == OP_DEFERRED || C08_OP == OP_FINALIZE_MANY
#define USE_FV 0
#define USE_TV 0
#define NCH 2
#elif C08_OP == OP_ACTIVE_BY_FD || C08_OP == OP_PRIORITY_SET
#define USE_FV 0
#define USE_TV 0
#define NCH 4
#else
#define USE_FV 0
#define USE_TV 0
#define NCH 1
#endif
static int g_fv, g_ch;
static const struct timeval *g_tvp;
static const struct timeval tv_0 = { 0, 0 }, tv_1 = { 1, 0 }, tv_7 = { 7, 250000 };

/* ---- faults --------------------------------------------------------------------------------
 * bit 0 = the 1st allocation of the call fails, bit 1 = the 2nd fails, bit 2 = the back end / signal back end
 * refuses.  Allocations after the 2nd fail nondeterministically. */
static int c08_fail_on, c08_fail_vec, c08_nalloc;
static int c08_alloc_fails(void)
{
	int k;
	if (!c08_fail_on) return 0;
	k = c08_nalloc++;
	if (k < 2) return (c08_fail_vec >> k) & 1;
	return vp_bool();
}
static void c08_set_faults(int vec)
{
	c08_fail_on = 1; c08_fail_vec = vec; c08_nalloc = 0;
	vp_be_fail_add = vp_be_fail_del = vp_sig_fail = (vec >> 2) & 1;
#if C08_OP == OP_LOOP
	vp_be_fail_dispatch = (vec >> 2) & 1;
#endif
}
#define FAULTS_OFF() do { c08_fail_on = 0; vp_be_fail_add = vp_be_fail_del = vp_sig_fail = vp_be_fail_dispatch = 0; } while (0)
/* the call under test runs under the scenario's fault vector; preparation calls run without faults */
#define CALL(stmt) do { c08_set_faults(g_fv); stmt; FAULTS_OFF(); } while (0)

void *c08_malloc(size_t sz)
{
	void *p;
	if (c08_alloc_fails()) return NULL;
	/* typed objects where the size identifies the type (cbmc types a heap object from the size expression at the
	 * malloc call; through a void *f(size_t) wrapper it would be a char[] and every field access a byte extraction) */
	if (sz == sizeof(struct event)) p = malloc(sizeof(struct event));
	else if (sz == sizeof(struct event_once)) p = malloc(sizeof(struct event_once));
	else if (sz == sizeof(struct evwatch)) p = malloc(sizeof(struct evwatch));
	else if (sz == sizeof(struct common_timeout_list)) p = malloc(sizeof(struct common_timeout_list));
	else if (sz == sizeof(struct evmap_io)) p = malloc(sizeof(struct evmap_io));
	else if (sz == sizeof(struct evmap_signal)) p = malloc(sizeof(struct evmap_signal));
	else p = malloc(sz);
	__CPROVER_assume(p != NULL);
	return p;
}
void *c08_realloc(void *old, size_t sz)
{
	void *p;
	if (c08_alloc_fails()) return NULL;
	p = realloc(old, sz);
	__CPROVER_assume(p != NULL);
	return p;
}
void c08_free(void *p) { free(p); }

/* ---- callbacks ------------------------------------------------------------- */
void cb(evutil_socket_t fd, short res, void *arg)
{
	(void)fd; (void)res;
	VP_ASSERT(vp_locks_held() == 0, "C08: user callback entered with an internal lock held");
	if (arg == &T) ncb_T++;
	else if (arg == &R) ncb_R++;
	else if (arg == &E) {
		ncb_E++;
#if C08_CTX == 1
		if (!op_done) { op_done = 1; the_call(); VP_ASSERT_NO_LOCKS("API call made from inside an event callback"); }
#endif
	} else ncb_once++;
}
void fin_cb(struct event *ev, void *arg) { (void)ev; (void)arg; ncb_fin++; VP_ASSERT(vp_locks_held() == 0, "C08: finalizer entered with an internal lock held"); }
void self_cb(struct event_callback *evcb, void *arg) { (void)evcb; (void)arg; ncb_self++; }
void cbfin_cb(struct event_callback *evcb, void *arg) { (void)evcb; (void)arg; ncb_fin++; }
void prep_cb(struct evwatch *w, const struct evwatch_prepare_cb_info *info, void *arg) { (void)w; (void)info; (void)arg; ncb_watch++; }
void chk_cb(struct evwatch *w, const struct evwatch_check_cb_info *info, void *arg) { (void)w; (void)info; (void)arg; ncb_watch++; }
static int foreach_ret;
int foreach_cb(const struct event_base *b, const struct event *ev, void *arg) { (void)b; (void)ev; (void)arg; ncb_foreach++; return foreach_ret; }

/* "the kernel": advance the clock by the wait the loop asked for; in context 2 the other thread
 * makes its call here, while the loop thread is blocked with the base lock released */
static int c08_dispatch(struct event_base *b, struct timeval *tv)
{
	vp_be_dispatch_calls++;
	EVBASE_RELEASE_LOCK(b, th_base_lock);
	if (tv) { vp_now.tv_sec += tv->tv_sec; vp_now.tv_usec += tv->tv_usec; if (vp_now.tv_usec >= 1000000) { vp_now.tv_usec -= 1000000; vp_now.tv_sec++; } }
#if C08_CTX == 2
	if (!op_done) {
		op_done = 1;
		VP_ASSERT(vp_locks_held() == 0, "C08: back end waits with the base lock released");
		vp_cur_thread = 2;
		the_call();
		VP_ASSERT_NO_LOCKS("API call made from another thread while the loop waits");
		vp_cur_thread = 1;
	}
#endif
	EVBASE_ACQUIRE_LOCK(b, th_base_lock);
	return vp_be_fail_dispatch ? -1 : 0;
}
static const struct eventop c08_ops = { "c08", vp_be_init, vp_be_add, vp_be_del, c08_dispatch, vp_be_dealloc, 0, EV_FEATURE_FDS, 0 };

/* event masks are concrete per obligation (-DC08_WHAT=0..6) */
#ifndef C08_WHAT
#define C08_WHAT 1
#endif
#if C08_WHAT == 0
#define WHAT (EV_TIMEOUT)
#elif C08_WHAT == 1
#define WHAT (EV_READ)
#elif C08_WHAT == 2
#define WHAT (EV_WRITE | EV_CLOSED | EV_TIMEOUT)
#elif C08_WHAT == 3
#define WHAT (EV_SIGNAL)
#elif C08_WHAT == 4
#define WHAT (EV_READ | EV_PERSIST)
#elif C08_WHAT == 5
#define WHAT (EV_READ | EV_ET | EV_FINALIZE)
#else
#define WHAT 0
#endif

#ifdef VP_CBMC
int fputc(int c, FILE *f) { (void)f; return c; }   /* (cbmc's fprintf model calls it; it has no body of its own) */
/* the wake-up descriptor of evthread_make_base_notifiable(): a write that works or fails hard (EBADF) */
int eventfd_write(int fd, eventfd_t v) { (void)fd; (void)v; if (vp_bool()) { errno = EBADF; return -1; } return 0; }
int eventfd_read(int fd, eventfd_t *v) { (void)fd; *v = 1; return 0; }
#endif

/* ---- the call under test (all scenario choices are concrete here) ---------------------------- */
static struct event_callback CB1, CB2;
static void the_call(void)
{
	int r = 0;
#if C08_OP == OP_ADD
	CALL(r = event_add(&E, g_tvp));
	if (r == 0) VP_WITNESS("event_add ok");
#if C08_ST == 0 && C08_KIND != K_TIMER
	else VP_WITNESS("event_add failed");
#endif
#elif C08_OP == OP_DEL
	CALL(r = event_del(&E));
	if (r == 0) VP_WITNESS("event_del ok");
#if C08_ST == 1 && C08_KIND != K_TIMER && C08_CTX != 1
	else VP_WITNESS("event_del failed");
#endif
#elif C08_OP == OP_DEL_BLOCK
	CALL(r = event_del_block(&E));
	VP_WITNESS("event_del_block returned");
#elif C08_OP == OP_DEL_NOBLOCK
	CALL(r = event_del_noblock(&E));
	VP_WITNESS("event_del_noblock returned");
#elif C08_OP == OP_ACTIVE
#if C08_KIND == K_SIG
	CALL(event_active(&E, vp_int(), (short)vp_range(0, 3)));   /* (a signal event's callback runs ncalls times: loop bound) */
#else
	CALL(event_active(&E, vp_int(), (short)vp_u16()));
#endif
	VP_WITNESS("event_active returned");
#elif C08_OP == OP_ASSIGN
	{
		static struct event N;
		short what = (short)vp_u16();
		r = event_assign(&N, base, (evutil_socket_t)vp_int(), what, cb, &N);
		if (r == 0) VP_WITNESS("event_assign ok"); else VP_WITNESS("event_assign rejected");
	}
#elif C08_OP == OP_BASE_SET
	r = event_base_set(base, &E);
	VP_WITNESS("event_base_set returned");
#elif C08_OP == OP_NEW_FREE
	{
		/* event_new under faults, then event_free of the fresh event (g_ch 0) / of the event after it was added
		 * (g_ch 1, 2; the add is preparation and runs without faults -- add-with-faults is OP_ADD) */
		struct event *n;
		CALL(n = event_new(base, 6, WHAT, cb, NULL));
		VP_ASSERT_NO_LOCKS("event_new");
		if (n) {
			if (g_ch == 1) (void)event_add(n, NULL);
			else if (g_ch == 2) (void)event_add(n, &tv_1);
			g_fv >>= 1;
			CALL(event_free(n));
			VP_WITNESS("event_new ok, event_free returned");
		} else VP_WITNESS("event_new failed");
	}
#elif C08_OP == OP_ONCE
	if (g_ch == 0) CALL(r = event_base_once(base, 6, WHAT, cb, NULL, g_tvp));
	else CALL(r = event_base_once(base, -1, WHAT, cb, NULL, g_tvp));
#if C08_WHAT != 3 && C08_WHAT != 4 && C08_WHAT != 6
	if (r == 0) VP_WITNESS("event_base_once ok");
#endif
	if (r != 0) VP_WITNESS("event_base_once failed");
#elif C08_OP == OP_PRIORITY_SET
	/* (priority from {-1, 0, 1, 2}: a symbolic priority is a symbolic active-queue index in the loop pass that follows) */
	r = event_priority_set(&E, g_ch - 1);
#if C08_ST != 2 || C08_CTX == 1
	if (r == 0) VP_WITNESS("event_priority_set ok");
#endif
	if (r != 0) VP_WITNESS("event_priority_set failed");
#elif C08_OP == OP_REMOVE_TIMER
	r = event_remove_timer(&E);
	VP_WITNESS("event_remove_timer returned");
#elif C08_OP == OP_LOOPBREAK
	r = event_base_loopbreak(base);
	VP_WITNESS("event_base_loopbreak returned");
#elif C08_OP == OP_LOOPCONTINUE
	r = event_base_loopcontinue(base);
	VP_WITNESS("event_base_loopcontinue returned");
#elif C08_OP == OP_LOOPEXIT
	CALL(r = event_base_loopexit(base, g_tvp));
	if (r == 0) VP_WITNESS("event_base_loopexit ok"); else VP_WITNESS("event_base_loopexit failed");
#elif C08_OP == OP_LOOP
	/* (from inside a callback or while another loop runs this is the re-entrant invocation) */
	if (g_ch == 0) CALL(r = event_base_loop(base, EVLOOP_NONBLOCK));
	else CALL(r = event_base_loop(base, EVLOOP_ONCE));
#if C08_CTX == 0
	if (r == 0) VP_WITNESS("event_base_loop ran");
#endif
	if (r != 0) VP_WITNESS("event_base_loop failed");
#elif C08_OP == OP_TIME
	{
		struct timeval tv;
		r = event_base_gettimeofday_cached(base, &tv);
		VP_ASSERT_NO_LOCKS("event_base_gettimeofday_cached");
		r = event_base_update_cache_time(base);
		VP_ASSERT_NO_LOCKS("event_base_update_cache_time");
		r = event_base_gettimeofday_cached(base, &tv);
		VP_WITNESS("time functions returned");
	}
#elif C08_OP == OP_DUMP
	{
		static FILE f_;
		event_base_dump_events(base, &f_);
		VP_WITNESS("event_base_dump_events returned");
	}
#elif C08_OP == OP_FOREACH
	foreach_ret = vp_int();
	if (g_ch == 0) r = event_base_foreach_event(base, foreach_cb, NULL);
	else r = event_base_foreach_event(base, NULL, NULL);
	if (r == 0) VP_WITNESS("event_base_foreach_event visited all"); else VP_WITNESS("event_base_foreach_event stopped");
#elif C08_OP == OP_PENDING
	{
		struct timeval tv;
		short what = (short)vp_u16();
		if (g_ch == 0) r = event_pending(&E, what, &tv); else r = event_pending(&E, what, NULL);
		VP_WITNESS("event_pending returned");
	}
#elif C08_OP == OP_FINALIZE
	CALL(r = event_finalize(0, &E, fin_cb));
	VP_WITNESS("event_finalize returned");
#elif C08_OP == OP_FREE_FINALIZE
	{
		struct event *n;
		CALL(n = event_new(base, 6, EV_READ, cb, NULL));
		if (n) {
			if (g_ch == 1) (void)event_add(n, NULL);
			g_fv >>= 1;
			CALL(r = event_free_finalize(0, n, fin_cb));
			VP_WITNESS("event_free_finalize returned");
		}
	}
#elif C08_OP == OP_PRIORITY_INIT
	if (g_ch == 0) { int n = vp_int(); __CPROVER_assume(n < 1 || n >= 256); r = event_base_priority_init(base, n); }
	else if (g_ch == 1) CALL(r = event_base_priority_init(base, 1));
	else if (g_ch == 2) CALL(r = event_base_priority_init(base, 2));
	else CALL(r = event_base_priority_init(base, 5));
	if (r == 0) VP_WITNESS("event_base_priority_init ok"); else VP_WITNESS("event_base_priority_init failed");
#elif C08_OP == OP_COMMON_TIMEOUT
	{
		/* g_ch bit 0: duration 1 s / 1.5 s given as 0 s + 1500000 us; bit 1: the registration itself under faults /
		 * registered (preparation), then used by event_add under faults */
		const struct timeval d1 = { 1, 0 }, d2 = { 0, 1500000 };
		const struct timeval *d = (g_ch & 1) ? &d2 : &d1, *res;
		if (g_ch & 2) {
			CALL(res = event_base_init_common_timeout(base, d));
		} else {
			res = event_base_init_common_timeout(base, d);
			VP_ASSERT_NO_LOCKS("event_base_init_common_timeout");
			if (res) {
				CALL(r = event_add(&E, res));
				VP_ASSERT_NO_LOCKS("event_add with a common timeout");
				VP_ASSERT(event_base_init_common_timeout(base, d) == res, "same duration, same common timeout");
			}
		}
		if (res) VP_WITNESS("event_base_init_common_timeout ok"); else VP_WITNESS("event_base_init_common_timeout failed");
	}
#elif C08_OP == OP_WATCH
	{
		struct evwatch *w;
		if (g_ch & 1) CALL(w = evwatch_check_new(base, chk_cb, NULL)); else CALL(w = evwatch_prepare_new(base, prep_cb, NULL));
		VP_ASSERT_NO_LOCKS("evwatch_*_new");
		if (w) {
			VP_ASSERT(evwatch_base(w) == base, "evwatch_base");
			if (g_ch & 2) { evwatch_free(w); VP_ASSERT_NO_LOCKS("evwatch_free"); }
			VP_WITNESS("evwatch new (+free)");
		} else VP_WITNESS("evwatch_*_new failed");
	}
#elif C08_OP == OP_GETTERS
	{
		unsigned ty = vp_u32();
		r = event_base_get_npriorities(base); VP_ASSERT_NO_LOCKS("event_base_get_npriorities");
		r = event_base_get_num_events(base, ty); VP_ASSERT_NO_LOCKS("event_base_get_num_events");
		r = event_base_get_max_events(base, ty, vp_bool()); VP_ASSERT_NO_LOCKS("event_base_get_max_events");
		r = event_base_got_break(base); VP_ASSERT_NO_LOCKS("event_base_got_break");
		r = event_base_got_exit(base); VP_ASSERT_NO_LOCKS("event_base_got_exit");
#if C08_CTX == 1
		VP_ASSERT(event_base_get_running_event(base) == &E, "event_base_get_running_event inside E's callback");
#endif
		(void)event_get_fd(&E); (void)event_get_base(&E); (void)event_get_events(&E); (void)event_get_callback(&E);
		(void)event_get_callback_arg(&E); (void)event_get_priority(&E); (void)event_initialized(&E);
		(void)event_base_get_method(base); (void)event_base_get_features(base);
		VP_WITNESS("getters returned");
	}
#elif C08_OP == OP_ACTIVE_BY_FD
	if (g_ch == 0) event_base_active_by_fd(base, 3, EV_READ | EV_WRITE);
	else if (g_ch == 1) event_base_active_by_fd(base, 4, EV_WRITE | EV_CLOSED);
	else if (g_ch == 2) event_base_active_by_fd(base, -1, EV_TIMEOUT);
	else event_base_active_by_fd(base, 40, EV_READ);
	VP_WITNESS("event_base_active_by_fd returned");
#elif C08_OP == OP_ACTIVE_BY_SIGNAL
	if (g_ch == 0) event_base_active_by_signal(base, 2); else event_base_active_by_signal(base, 7);
	VP_WITNESS("event_base_active_by_signal returned");
#elif C08_OP == OP_VIRTUAL
	event_base_add_virtual_(base);
	VP_ASSERT_NO_LOCKS("event_base_add_virtual_");
	event_base_del_virtual_(base);
	VP_WITNESS("virtual add/del returned");
#elif C08_OP == OP_NOTIFIABLE
	base->th_notify_fn = NULL;       /* as in a base that was created before threading was switched on */
	vp_pipe_fail = (g_ch == 1);
	CALL(r = evthread_make_base_notifiable(base));
	if (r == 0) VP_WITNESS("evthread_make_base_notifiable ok"); else VP_WITNESS("evthread_make_base_notifiable failed");
#elif C08_OP == OP_CALLBACK
	event_callback_init_(base, &CB1);
	CB1.evcb_closure = EV_CLOSURE_CB_SELF; CB1.evcb_cb_union.evcb_selfcb = self_cb;
	r = event_callback_activate_(base, &CB1); VP_ASSERT_NO_LOCKS("event_callback_activate_");
	if (g_ch == 0) { r = event_callback_cancel_(base, &CB1); VP_ASSERT_NO_LOCKS("event_callback_cancel_"); }
	else { event_callback_finalize_(base, 0, &CB1, cbfin_cb); }
	VP_WITNESS("event_callback_* returned");
#elif C08_OP == OP_DEFERRED
	event_deferred_cb_init_(&CB1, 1, self_cb, NULL);
	r = event_deferred_cb_schedule_(base, &CB1); VP_ASSERT_NO_LOCKS("event_deferred_cb_schedule_");
	r = event_deferred_cb_schedule_(base, &CB1); VP_ASSERT_NO_LOCKS("event_deferred_cb_schedule_ (again)");
	if (g_ch == 0) event_deferred_cb_cancel_(base, &CB1);
	VP_WITNESS("event_deferred_cb_* returned");
#elif C08_OP == OP_ACTIVE_LATER
	CALL(event_active_later_(&E, vp_int()));
	VP_WITNESS("event_active_later_ returned");
#elif C08_OP == OP_FINALIZE_MANY
	{
		struct event_callback *v[2] = { &CB1, &CB2 };
		event_deferred_cb_init_(&CB1, 0, self_cb, NULL);
		event_deferred_cb_init_(&CB2, 1, self_cb, NULL);
		if (g_ch == 0) (void)event_deferred_cb_schedule_(base, &CB2);
		r = event_callback_finalize_many_(base, 2, v, cbfin_cb);
		VP_WITNESS("event_callback_finalize_many_ returned");
	}
#elif C08_OP == OP_ASSERT_OK
	event_base_assert_ok_(base);
	VP_WITNESS("event_base_assert_ok_ returned");
#elif C08_OP == OP_BASE_FREE
	if (g_ch == 0) CALL(event_base_free(base)); else CALL(event_base_free_nofinalize(base));
	VP_WITNESS("event_base_free returned");
#else
#error "unknown C08_OP"
#endif
	(void)r;
}

/* one complete scenario; every PICK_* choice is a constant here */
static void scenario(void)
{
#if C08_CTX == 0
	op_done = 1;
	the_call();
	VP_ASSERT_NO_LOCKS("API call");
#else
	(void)event_base_loop(base, EVLOOP_ONCE);
	VP_ASSERT(op_done, "harness: the call under test was made");
	VP_ASSERT_NO_LOCKS("event_base_loop around the call");
#endif
}

/* solver-chosen, but one unmerged branch per value */
#if USE_FV == 2
#define PICK_FV(stmt) do { int f_ = (int)vp_range(0, 7); \
	if (f_ == 0) { g_fv = 0; stmt; } else if (f_ == 1) { g_fv = 1; stmt; } else if (f_ == 2) { g_fv = 2; stmt; } \
	else if (f_ == 3) { g_fv = 3; stmt; } else if (f_ == 4) { g_fv = 4; stmt; } else if (f_ == 5) { g_fv = 5; stmt; } \
	else if (f_ == 6) { g_fv = 6; stmt; } else { g_fv = 7; stmt; } } while (0)
#elif USE_FV == 1
#define PICK_FV(stmt) do { if (vp_bool()) { g_fv = 0; stmt; } else { g_fv = 4; stmt; } } while (0)
#else
#define PICK_FV(stmt) do { g_fv = 0; stmt; } while (0)
#endif
#if USE_TV
#define PICK_TV(stmt) do { int c_ = (int)vp_range(0, 3); \
	if (c_ == 0) { g_tvp = NULL; stmt; } else if (c_ == 1) { g_tvp = &tv_0; stmt; } \
	else if (c_ == 2) { g_tvp = &tv_1; stmt; } else { g_tvp = &tv_7; stmt; } } while (0)
#else
#define PICK_TV(stmt) do { stmt; } while (0)
#endif
#if NCH == 1
#define PICK_CH(stmt) do { g_ch = 0; stmt; } while (0)
#elif NCH == 2
#define PICK_CH(stmt) do { if (vp_bool()) { g_ch = 0; stmt; } else { g_ch = 1; stmt; } } while (0)
#elif NCH == 3
#define PICK_CH(stmt) do { int h_ = (int)vp_range(0, 2); if (h_ == 0) { g_ch = 0; stmt; } else if (h_ == 1) { g_ch = 1; stmt; } else { g_ch = 2; stmt; } } while (0)
#else
#define PICK_CH(stmt) do { int h_ = (int)vp_range(0, 3); if (h_ == 0) { g_ch = 0; stmt; } else if (h_ == 1) { g_ch = 1; stmt; } else if (h_ == 2) { g_ch = 2; stmt; } else { g_ch = 3; stmt; } } while (0)
#endif

void harness_api(void)
{
	struct timeval t5 = { 5, 0 }, t2 = { 2, 0 };
	int r;
	base = vp_base_new_ops(2, 1, &c08_ops);
	event_set_mem_functions(c08_malloc, c08_realloc, c08_free);
	event_assign(&T, base, -1, 0, cb, &T);
	event_assign(&R, base, 3, EV_READ | EV_PERSIST, cb, &R);
#if C08_KIND == K_IO
	event_assign(&E, base, 4, EV_READ | EV_WRITE, cb, &E);
#elif C08_KIND == K_TIMER
	event_assign(&E, base, -1, 0, cb, &E);
#else
	event_assign(&E, base, 2, EV_SIGNAL | EV_PERSIST, cb, &E);
#endif
	r = event_add(&T, &t5); __CPROVER_assume(r == 0);
	r = event_add(&R, NULL); __CPROVER_assume(r == 0);
#if C08_ST >= 1 || C08_CTX == 1
	r = event_add(&E, &t2); __CPROVER_assume(r == 0);
#endif
#if C08_ST == 2 || C08_CTX == 1
	event_active(&E, EV_READ, 1);
#endif
	VP_ASSERT_NO_LOCKS("setup");
	PICK_FV(PICK_TV(PICK_CH(scenario())));
	VP_WITNESS("end of harness");
}
