/* C08 -- every public call of event.c / watch.c returns with all internal locks released.
 *
 * One API call per obligation (-DC08_OP=OP_xxx), made on a *constructed* base that has a real lock
 * object (env/locks.h monitor: counting lock, owner, unlock-of-unheld / re-entry assertions) and
 * three events registered through the library's own API:
 *     T  pure timer, pending (5 s)            R  persistent EV_READ on fd 3, added
 *     E  the target: kind -DC08_KIND (K_IO fd 4 RW / K_TIMER / K_SIG signal 2 persistent),
 *        state -DC08_ST (0 assigned only, 1 added with a 2 s timeout, 2 active)
 * Arguments of the call are symbolic (flags, results, ncalls, priorities, timevals; fds/signals and
 * priority counts from small sets -- a symbolic table size is a symbolic-size realloc, DESIGN 3.3).
 * Faults are decided by the solver: every mm_malloc/mm_calloc/mm_realloc of the library may fail
 * (event.c's own mm_*_fn_ hooks), the back end may refuse add/del/dispatch, the signal back end may
 * refuse, the notify pipe may fail.
 * Context -DC08_CTX: 0 no loop running; 1 call made from inside E's own callback (loop thread);
 * 2 call made by "another thread" (vp_cur_thread = 2) while the loop thread sits in the back end's
 * dispatch with the base lock released.
 * Checked after the call (and again after the enclosing loop returns): vp_lock_depth_total == 0,
 * plus the monitor's own assertions (no unlock of an unheld lock, no re-entry of a non-recursive
 * lock, condition wait only with the lock held) and every EVENT_BASE_ASSERT_LOCKED in the library.
 */
#include "event_struct_nounion.h"   /* unions of struct event laid out as structs, see that header */
#include "vp.h"
#include "log_stub.h"
#include "locks.h"
#define VP_HAVE_EVENT_C
#include "alloc.h"
#include "event.c"
#include "watch.c"
#include "evmap.c"
#include "evbase.h"

#define K_IO 0
#define K_TIMER 1
#define K_SIG 2
#ifndef C08_KIND
#define C08_KIND K_IO
#endif
#ifndef C08_ST
#define C08_ST 1
#endif
#ifndef C08_CTX
#define C08_CTX 0
#endif

/* (macros, not an enum: the selection is done by the preprocessor) */
#define OP_ADD 0
#define OP_DEL 1
#define OP_DEL_BLOCK 2
#define OP_DEL_NOBLOCK 3
#define OP_ACTIVE 4
#define OP_ASSIGN 5
#define OP_NEW_FREE 6
#define OP_ONCE 7
#define OP_PRIORITY_SET 8
#define OP_REMOVE_TIMER 9
#define OP_LOOPBREAK 10
#define OP_LOOPCONTINUE 11
#define OP_LOOPEXIT 12
#define OP_LOOP 13
#define OP_TIME 14
#define OP_DUMP 15
#define OP_FOREACH 16
#define OP_PENDING 17
#define OP_FINALIZE 18
#define OP_FREE_FINALIZE 19
#define OP_PRIORITY_INIT 20
#define OP_COMMON_TIMEOUT 21
#define OP_WATCH 22
#define OP_GETTERS 23
#define OP_ACTIVE_BY_FD 24
#define OP_ACTIVE_BY_SIGNAL 25
#define OP_VIRTUAL 26
#define OP_NOTIFIABLE 27
#define OP_CALLBACK 28
#define OP_DEFERRED 29
#define OP_ACTIVE_LATER 30
#define OP_FINALIZE_MANY 31
#define OP_BASE_FREE 32
#define OP_ASSERT_OK 33
#define OP_BASE_SET 34
#ifndef C08_OP
#define C08_OP OP_ONCE
#endif

static struct event_base *base;
static struct event T, R, E;
static int ncb_T, ncb_R, ncb_E, ncb_once, ncb_fin, ncb_self, ncb_watch, ncb_foreach;
static int op_done;           /* the call under test has been made */
static void the_call(void);

/* ---- solver-chosen allocation faults through event.c's own hooks ---------- */
static int c08_fail_on;
void *c08_malloc(size_t sz)
{
	void *p;
	if (c08_fail_on && vp_bool()) return NULL;
	p = malloc(sz);
	__CPROVER_assume(p != NULL);
	return p;
}
void *c08_realloc(void *old, size_t sz)
{
	void *p;
	if (c08_fail_on && vp_bool()) return NULL;
	p = realloc(old, sz);
	__CPROVER_assume(p != NULL);
	return p;
}
void c08_free(void *p) { free(p); }

/* ---- callbacks ------------------------------------------------------------- */
void cb(evutil_socket_t fd, short res, void *arg)
{
	(void)fd; (void)res;
	VP_ASSERT(vp_locks_held() == 0, "C08: user callback entered with an internal lock held");
	if (arg == &T) ncb_T++;
	else if (arg == &R) ncb_R++;
	else if (arg == &E) {
		ncb_E++;
#if C08_CTX == 1
		if (!op_done) { op_done = 1; the_call(); VP_ASSERT_NO_LOCKS("API call made from inside an event callback"); }
#endif
	} else ncb_once++;
}
void fin_cb(struct event *ev, void *arg) { (void)ev; (void)arg; ncb_fin++; }
void self_cb(struct event_callback *evcb, void *arg) { (void)evcb; (void)arg; ncb_self++; }
void cbfin_cb(struct event_callback *evcb, void *arg) { (void)evcb; (void)arg; ncb_fin++; }
void prep_cb(struct evwatch *w, const struct evwatch_prepare_cb_info *info, void *arg) { (void)w; (void)info; (void)arg; ncb_watch++; }
void chk_cb(struct evwatch *w, const struct evwatch_check_cb_info *info, void *arg) { (void)w; (void)info; (void)arg; ncb_watch++; }
static int foreach_ret;
int foreach_cb(const struct event_base *b, const struct event *ev, void *arg) { (void)b; (void)ev; (void)arg; ncb_foreach++; return foreach_ret; }

/* "the kernel": advance the clock by the wait the loop asked for; in context 2 the other thread
 * makes its call here, while the loop thread is blocked with the base lock released */
static int c08_dispatch(struct event_base *b, struct timeval *tv)
{
	vp_be_dispatch_calls++;
	EVBASE_RELEASE_LOCK(b, th_base_lock);
	if (tv) { vp_now.tv_sec += tv->tv_sec; vp_now.tv_usec += tv->tv_usec; if (vp_now.tv_usec >= 1000000) { vp_now.tv_usec -= 1000000; vp_now.tv_sec++; } }
#if C08_CTX == 2
	if (!op_done) {
		op_done = 1;
		VP_ASSERT(vp_locks_held() == 0, "C08: back end waits with the base lock released");
		vp_cur_thread = 2;
		the_call();
		VP_ASSERT_NO_LOCKS("API call made from another thread while the loop waits");
		vp_cur_thread = 1;
	}
#endif
	EVBASE_ACQUIRE_LOCK(b, th_base_lock);
	return vp_be_fail_dispatch ? -1 : 0;
}
static const struct eventop c08_ops = { "c08", vp_be_init, vp_be_add, vp_be_del, c08_dispatch, vp_be_dealloc, 0, EV_FEATURE_FDS, 0 };

static struct timeval sym_tv(void)
{
	struct timeval tv;
	tv.tv_sec = (long)vp_range(0, 3);
	tv.tv_usec = (long)vp_range(0, 999999);
	return tv;
}

/* ---- the call under test ---------------------------------------------------- */
static struct event_callback CB1, CB2;
static int r_call;
static void the_call(void)
{
	int r = 0;
#if C08_OP == OP_ADD
	{
		struct timeval tv = sym_tv();
		r = event_add(&E, vp_bool() ? &tv : NULL);
		if (r == 0) VP_WITNESS("event_add ok"); else VP_WITNESS("event_add failed");
	}
#elif C08_OP == OP_DEL
	r = event_del(&E);
	if (r == 0) VP_WITNESS("event_del ok"); else VP_WITNESS("event_del failed");
#elif C08_OP == OP_DEL_BLOCK
	r = event_del_block(&E);
	VP_WITNESS("event_del_block returned");
#elif C08_OP == OP_DEL_NOBLOCK
	r = event_del_noblock(&E);
	VP_WITNESS("event_del_noblock returned");
#elif C08_OP == OP_ACTIVE
	event_active(&E, vp_int(), (short)vp_u16());
	VP_WITNESS("event_active returned");
#elif C08_OP == OP_ASSIGN
	{
		static struct event N;
		short what = (short)vp_u16();
		r = event_assign(&N, base, vp_bool() ? 6 : -1, what, cb, &N);
		if (r == 0) VP_WITNESS("event_assign ok"); else VP_WITNESS("event_assign rejected");
	}
#elif C08_OP == OP_BASE_SET
	r = event_base_set(base, &E);
	VP_WITNESS("event_base_set returned");
#elif C08_OP == OP_NEW_FREE
	{
		short what = (short)vp_u16();
		struct event *n = event_new(base, 6, what, cb, NULL);
		VP_ASSERT_NO_LOCKS("event_new");
		if (n) {
			struct timeval tv = sym_tv();
			if (vp_bool()) (void)event_add(n, vp_bool() ? &tv : NULL);
			VP_ASSERT_NO_LOCKS("event_add (new event)");
			event_free(n);
			VP_WITNESS("event_new ok, event_free returned");
		} else VP_WITNESS("event_new failed");
	}
#elif C08_OP == OP_ONCE
	{
		struct timeval tv = sym_tv();
		short what = (short)vp_u16();
		r = event_base_once(base, vp_bool() ? 6 : -1, what, cb, NULL, vp_bool() ? &tv : NULL);
		if (r == 0) VP_WITNESS("event_base_once ok"); else VP_WITNESS("event_base_once failed");
	}
#elif C08_OP == OP_PRIORITY_SET
	r = event_priority_set(&E, vp_int());
	if (r == 0) VP_WITNESS("event_priority_set ok"); else VP_WITNESS("event_priority_set failed");
#elif C08_OP == OP_REMOVE_TIMER
	r = event_remove_timer(&E);
	VP_WITNESS("event_remove_timer returned");
#elif C08_OP == OP_LOOPBREAK
	r = event_base_loopbreak(base);
	VP_WITNESS("event_base_loopbreak returned");
#elif C08_OP == OP_LOOPCONTINUE
	r = event_base_loopcontinue(base);
	VP_WITNESS("event_base_loopcontinue returned");
#elif C08_OP == OP_LOOPEXIT
	{
		struct timeval tv = sym_tv();
		r = event_base_loopexit(base, vp_bool() ? &tv : NULL);
		if (r == 0) VP_WITNESS("event_base_loopexit ok"); else VP_WITNESS("event_base_loopexit failed");
	}
#elif C08_OP == OP_LOOP
	{
		/* (from inside a callback or while another loop runs this is the re-entrant invocation) */
		int fl = vp_bool() ? EVLOOP_NONBLOCK : EVLOOP_ONCE;
		r = event_base_loop(base, fl);
		if (r == 0) VP_WITNESS("event_base_loop ran");
		else if (r == 1) VP_WITNESS("event_base_loop: no events");
		else VP_WITNESS("event_base_loop failed");
	}
#elif C08_OP == OP_TIME
	{
		struct timeval tv;
		r = event_base_gettimeofday_cached(base, &tv);
		VP_ASSERT_NO_LOCKS("event_base_gettimeofday_cached");
		r = event_base_update_cache_time(base);
		VP_ASSERT_NO_LOCKS("event_base_update_cache_time");
		r = event_base_gettimeofday_cached(base, &tv);
		VP_WITNESS("time functions returned");
	}
#elif C08_OP == OP_DUMP
	{
		static FILE f_;
		event_base_dump_events(base, &f_);
		VP_WITNESS("event_base_dump_events returned");
	}
#elif C08_OP == OP_FOREACH
	foreach_ret = vp_int();
	r = event_base_foreach_event(base, vp_bool() ? foreach_cb : NULL, NULL);
	if (r == 0) VP_WITNESS("event_base_foreach_event visited all"); else VP_WITNESS("event_base_foreach_event stopped");
#elif C08_OP == OP_PENDING
	{
		struct timeval tv;
		r = event_pending(&E, (short)vp_u16(), vp_bool() ? &tv : NULL);
		VP_WITNESS("event_pending returned");
	}
#elif C08_OP == OP_FINALIZE
	r = event_finalize(0, &E, fin_cb);
	VP_WITNESS("event_finalize returned");
#elif C08_OP == OP_FREE_FINALIZE
	{
		struct event *n = event_new(base, 6, EV_READ, cb, NULL);
		if (n) {
			if (vp_bool()) (void)event_add(n, NULL);
			r = event_free_finalize(0, n, fin_cb);
			VP_WITNESS("event_free_finalize returned");
		}
	}
#elif C08_OP == OP_PRIORITY_INIT
	{
		int c = (int)vp_range(0, 4), n = c == 0 ? vp_int() : c == 1 ? 1 : c == 2 ? 2 : c == 3 ? 3 : 255;
		__CPROVER_assume(c != 0 || n < 1 || n >= 256);
		r = event_base_priority_init(base, n);
		if (r == 0) VP_WITNESS("event_base_priority_init ok"); else VP_WITNESS("event_base_priority_init failed");
	}
#elif C08_OP == OP_COMMON_TIMEOUT
	{
		struct timeval tv; const struct timeval *res;
		tv.tv_sec = (long)vp_range(0, 3); tv.tv_usec = (long)vp_range(0, 2000000);
		res = event_base_init_common_timeout(base, &tv);
		VP_ASSERT_NO_LOCKS("event_base_init_common_timeout");
		if (res) {
			r = event_add(&E, res);
			VP_ASSERT_NO_LOCKS("event_add with a common timeout");
			res = event_base_init_common_timeout(base, &tv);
			VP_WITNESS("event_base_init_common_timeout ok");
		} else VP_WITNESS("event_base_init_common_timeout failed");
	}
#elif C08_OP == OP_WATCH
	{
		struct evwatch *w = vp_bool() ? evwatch_prepare_new(base, prep_cb, NULL) : evwatch_check_new(base, chk_cb, NULL);
		VP_ASSERT_NO_LOCKS("evwatch_*_new");
		if (w) {
			VP_ASSERT(evwatch_base(w) == base, "evwatch_base");
			if (vp_bool()) { evwatch_free(w); VP_WITNESS("evwatch new+free"); }
			else VP_WITNESS("evwatch new");
		} else VP_WITNESS("evwatch_*_new failed");
	}
#elif C08_OP == OP_GETTERS
	{
		unsigned ty = vp_u32();
		r = event_base_get_npriorities(base); VP_ASSERT_NO_LOCKS("event_base_get_npriorities");
		r = event_base_get_num_events(base, ty); VP_ASSERT_NO_LOCKS("event_base_get_num_events");
		r = event_base_get_max_events(base, ty, vp_bool()); VP_ASSERT_NO_LOCKS("event_base_get_max_events");
		r = event_base_got_break(base); VP_ASSERT_NO_LOCKS("event_base_got_break");
		r = event_base_got_exit(base); VP_ASSERT_NO_LOCKS("event_base_got_exit");
#if C08_CTX == 1
		VP_ASSERT(event_base_get_running_event(base) == &E, "event_base_get_running_event inside E's callback");
#endif
		(void)event_get_fd(&E); (void)event_get_base(&E); (void)event_get_events(&E); (void)event_get_callback(&E);
		(void)event_get_callback_arg(&E); (void)event_get_priority(&E); (void)event_initialized(&E);
		(void)event_base_get_method(base); (void)event_base_get_features(base);
		VP_WITNESS("getters returned");
	}
#elif C08_OP == OP_ACTIVE_BY_FD
	{
		int c = (int)vp_range(0, 3);
		event_base_active_by_fd(base, c == 0 ? 3 : c == 1 ? 4 : c == 2 ? -1 : 40, (short)vp_u16());
		VP_WITNESS("event_base_active_by_fd returned");
	}
#elif C08_OP == OP_ACTIVE_BY_SIGNAL
	event_base_active_by_signal(base, vp_bool() ? 2 : 7);
	VP_WITNESS("event_base_active_by_signal returned");
#elif C08_OP == OP_VIRTUAL
	event_base_add_virtual_(base);
	VP_ASSERT_NO_LOCKS("event_base_add_virtual_");
	event_base_del_virtual_(base);
	VP_WITNESS("virtual add/del returned");
#elif C08_OP == OP_NOTIFIABLE
	vp_pipe_fail = vp_bool();
	base->th_notify_fn = NULL;       /* as in a base that was created before threading was switched on */
	r = evthread_make_base_notifiable(base);
	if (r == 0) VP_WITNESS("evthread_make_base_notifiable ok"); else VP_WITNESS("evthread_make_base_notifiable failed");
#elif C08_OP == OP_CALLBACK
	event_callback_init_(base, &CB1);
	CB1.evcb_closure = EV_CLOSURE_CB_SELF; CB1.evcb_cb_union.evcb_selfcb = self_cb;
	r = event_callback_activate_(base, &CB1); VP_ASSERT_NO_LOCKS("event_callback_activate_");
	if (vp_bool()) { r = event_callback_cancel_(base, &CB1); VP_ASSERT_NO_LOCKS("event_callback_cancel_"); }
	else { event_callback_finalize_(base, 0, &CB1, cbfin_cb); }
	VP_WITNESS("event_callback_* returned");
#elif C08_OP == OP_DEFERRED
	event_deferred_cb_init_(&CB1, (ev_uint8_t)vp_range(0, 1), self_cb, NULL);
	r = event_deferred_cb_schedule_(base, &CB1); VP_ASSERT_NO_LOCKS("event_deferred_cb_schedule_");
	r = event_deferred_cb_schedule_(base, &CB1); VP_ASSERT_NO_LOCKS("event_deferred_cb_schedule_ (again)");
	if (vp_bool()) event_deferred_cb_cancel_(base, &CB1);
	VP_WITNESS("event_deferred_cb_* returned");
#elif C08_OP == OP_ACTIVE_LATER
	event_active_later_(&E, vp_int());
	VP_WITNESS("event_active_later_ returned");
#elif C08_OP == OP_FINALIZE_MANY
	{
		struct event_callback *v[2] = { &CB1, &CB2 };
		event_deferred_cb_init_(&CB1, 0, self_cb, NULL);
		event_deferred_cb_init_(&CB2, 1, self_cb, NULL);
		if (vp_bool()) (void)event_deferred_cb_schedule_(base, &CB2);
		r = event_callback_finalize_many_(base, 2, v, cbfin_cb);
		VP_WITNESS("event_callback_finalize_many_ returned");
	}
#elif C08_OP == OP_ASSERT_OK
	event_base_assert_ok_(base);
	VP_WITNESS("event_base_assert_ok_ returned");
#elif C08_OP == OP_BASE_FREE
	if (vp_bool()) event_base_free(base); else event_base_free_nofinalize(base);
	VP_WITNESS("event_base_free returned");
#else
#error "unknown C08_OP"
#endif
	r_call = r;
}

void harness_api(void)
{
	struct timeval t5 = { 5, 0 }, t2 = { 2, 0 };
	int r;
	base = vp_base_new_ops(2, 1, &c08_ops);
	event_set_mem_functions(c08_malloc, c08_realloc, c08_free);
	event_assign(&T, base, -1, 0, cb, &T);
	event_assign(&R, base, 3, EV_READ | EV_PERSIST, cb, &R);
#if C08_KIND == K_IO
	event_assign(&E, base, 4, EV_READ | EV_WRITE, cb, &E);
#elif C08_KIND == K_TIMER
	event_assign(&E, base, -1, 0, cb, &E);
#else
	event_assign(&E, base, 2, EV_SIGNAL | EV_PERSIST, cb, &E);
#endif
	r = event_add(&T, &t5); __CPROVER_assume(r == 0);
	r = event_add(&R, NULL); __CPROVER_assume(r == 0);
#if C08_ST >= 1 || C08_CTX == 1
	r = event_add(&E, &t2); __CPROVER_assume(r == 0);
#endif
#if C08_ST == 2 || C08_CTX == 1
	event_active(&E, EV_READ, 1);
#endif
	VP_ASSERT_NO_LOCKS("setup");
	/* from here on the solver decides every fault */
	c08_fail_on = 1;
	vp_be_fail_add = vp_bool(); vp_be_fail_del = vp_bool(); vp_be_fail_dispatch = vp_bool(); vp_sig_fail = vp_bool();
#if C08_CTX == 0
	op_done = 1;
	the_call();
	VP_ASSERT_NO_LOCKS("API call");
#if defined(C08_POST_LOOP) && C08_OP != OP_BASE_FREE
	/* and the loop still runs and returns balanced afterwards */
	(void)event_base_loop(base, EVLOOP_NONBLOCK);
	VP_ASSERT_NO_LOCKS("event_base_loop after the call");
#endif
#else
	r = event_base_loop(base, EVLOOP_ONCE);
	VP_ASSERT(op_done, "harness: the call under test was made");
	VP_ASSERT_NO_LOCKS("event_base_loop around the call");
#endif
	VP_WITNESS("end of harness");
}
