/* C20 -- timeouts of filtering bufferevents (generic timeout events): bufferevent.c + bufferevent_filter.c over an
 * underlying socket bufferevent (bufferevent_sock.c), real code; sink evbuffer, recording event stubs, pass-through
 * harness filter (moves everything it may).  One operation (C20_OP) from an API-built state; the READ side of the
 * timeout invariant (C20_common.h) is asserted before and after, and of the WRITE side "never pending while writing is
 * disabled, suspended or without a timeout".  The strict write clause (pending iff output is waiting) and flushes of a
 * disabled direction are the recorded finding KF-C20-filter-timeouts: -DC20_CHECK_WRITE / -DKF_ONLY_filter_flush
 * isolate them and are expected to fail.
 */
#include "vp.h"
#include "log_stub.h"
#include "locks.h"
#include "alloc.h"
#include "bev_pre.h"
#include "bufferevent.c"
#include "bufferevent_sock.c"
#include "bufferevent_filter.c"
#define VP_SINK_DISPATCH(fn, b, i, a) do { \
	if ((fn) == bufferevent_inbuf_wm_cb) bufferevent_inbuf_wm_cb((b), (i), (a)); \
	else if ((fn) == bufferevent_socket_outbuf_cb) bufferevent_socket_outbuf_cb((b), (i), (a)); \
	else if ((fn) == bufferevent_filtered_inbuf_cb) bufferevent_filtered_inbuf_cb((b), (i), (a)); \
	else if ((fn) == bufferevent_filtered_outbuf_cb) bufferevent_filtered_outbuf_cb((b), (i), (a)); \
	else VP_ASSERT(0, "harness: unknown evbuffer callback"); } while (0)
#include "evbuf_sink.h"
#include "bev_env.h"
#include "bev_user.h"
#include "C20_common.h"

const struct bufferevent_ops bufferevent_ops_pair = { "pair-not-linked", 0, NULL, NULL, NULL, NULL, NULL, NULL, NULL };

#define F 0
#define FD 5
#define OP_ENABLE_R 0
#define OP_DISABLE_R 1
#define OP_SET_TIMEOUTS 2
#define OP_SUSPEND_R 3
#define OP_UNSUSPEND_R 4
#define OP_DATA_ARRIVES 5      /* the underlying bufferevent has read data and runs its read callback (the filter's) */
#define OP_READ_TIMEOUT 6
#define OP_ENABLE_W 7
#define OP_WRITE 8
#define OP_FLUSH_R 9           /* bufferevent_flush(EV_READ, BEV_FLUSH) */
#define OP_DISABLE_W 10
#define OP_SUSPEND_W 11
#define OP_UNSUSPEND_W 12
#define OP_WRITE_TIMEOUT 13
#define OP_UNDERLYING_DRAINED 14   /* the underlying bufferevent wrote its output and runs its write callback (the filter's) */
#define OP_FLUSH_W 15
#ifndef C20_OP
#define C20_OP OP_ENABLE_R
#endif

static struct bufferevent *g_under;
static struct bufferevent_filtered *g_bevf;
static int g_ctx;
static int f_calls;
/* pass-through filter: moves as much as its limit allows, at most twice per step */
static enum bufferevent_filter_result h_filter(struct evbuffer *src, struct evbuffer *dst, ev_ssize_t lim, enum bufferevent_flush_mode mode, void *ctx)
{
	size_t avail = evbuffer_get_length(src), k;
	(void)mode; (void)ctx;
	if (f_calls++ >= 2 || avail == 0) return BEV_NEED_MORE;
	k = (lim >= 0 && (size_t)lim < avail) ? (size_t)lim : avail;
	if (k == 0) return BEV_NEED_MORE;
	evbuffer_remove_buffer(src, dst, k);
	return BEV_OK;
}
static void inv(void)
{
	struct bufferevent *b = u_bev[F];
	VP_ASSERT(vp_ev_timer_pending(&b->ev_read) == (c20_want_r(F) && tv_isset(&b->timeout_read)),
	    "C20: filter read timeout pending iff reading is enabled, not suspended and a read timeout is set");
	VP_ASSERT(!vp_ev_timer_pending(&b->ev_read) || tv_eq(&b->ev_read.ev_timeout, &b->timeout_read), "C20: read timeout runs with a stale duration");
	/* the filter's wish to read is mirrored on the underlying bufferevent (BEV_SUSPEND_FILT_READ) */
	VP_ASSERT(((BEV_UPCAST(g_under)->read_suspended & BEV_SUSPEND_FILT_READ) != 0) == !c20_want_r(F),
	    "C20: underlying bufferevent must be read-suspended by the filter iff the filter is not reading");
#ifdef C20_CHECK_WRITE
	/* the strict statement (fails on filters: KF-C20-filter-timeouts) */
	VP_ASSERT(vp_ev_timer_pending(&b->ev_write) == (c20_want_w(F) && tv_isset(&b->timeout_write)),
	    "C20: filter write timeout pending iff writing is enabled, not suspended, output is pending and a write timeout is set");
#else
	/* what holds for filters: never while writing is disabled, suspended or no timeout is set */
	VP_ASSERT(!vp_ev_timer_pending(&b->ev_write) || ((b->enabled & EV_WRITE) && !U_PRIV(F)->write_suspended && tv_isset(&b->timeout_write)),
	    "C20: filter write timeout pending although writing is disabled/suspended or no write timeout is set");
	VP_ASSERT(!vp_ev_timer_pending(&b->ev_write) || tv_eq(&b->ev_write.ev_timeout, &b->timeout_write), "C20: write timeout runs with a stale duration");
#endif
	VP_ASSERT_NO_LOCKS("filter call");
}

void harness_filter_step(void)
{
	static int base_obj;
	struct timeval tr, tw;
	struct bufferevent *f;
	long adds;
	g_under = bufferevent_socket_new((struct event_base *)&base_obj, FD, 0);
	__CPROVER_assume(g_under != NULL);
	f = bufferevent_filter_new(g_under, h_filter, h_filter, 0, NULL, &g_ctx);
	__CPROVER_assume(f != NULL);
	u_install(F, f);
	g_bevf = upcast(f);
	c20_sym_tv(&tr); c20_sym_tv(&tw);
	bufferevent_set_timeouts(f, vp_bool() ? &tr : NULL, vp_bool() ? &tw : NULL);
	if (vp_bool()) bufferevent_enable(f, EV_READ);
	if (vp_bool()) bufferevent_disable(f, EV_WRITE);
	else if (vp_bool()) bufferevent_enable(f, EV_WRITE);        /* an explicit enable (what arms the write timeout of a filter) */
	if (vp_bool()) bufferevent_suspend_read_(f, BEV_SUSPEND_BW);
	if (vp_bool()) bufferevent_suspend_write_(f, BEV_SUSPEND_BW);
#ifdef C20_WITH_OUTPUT
	/* output held back in the filter: the underlying bufferevent is at its high write mark */
	bufferevent_setwatermark(g_under, EV_WRITE, 0, 1);
	vp_sink_preset(g_under->output, NULL, 1);
	event_add(&g_under->ev_write, NULL);
	{ size_t m = vp_size(); __CPROVER_assume(m >= 1 && m <= 0xffff); bufferevent_write(f, NULL, m); }
#endif
	inv();
	adds = c20_adds_tv(&f->ev_read);
	vp_bev_now += 7;
#if C20_OP == OP_ENABLE_R
	bufferevent_enable(f, EV_READ);
#elif C20_OP == OP_DISABLE_R
	bufferevent_disable(f, EV_READ);
#elif C20_OP == OP_SET_TIMEOUTS
	{ struct timeval a, b; int ha = vp_bool(), hb = vp_bool(); c20_sym_tv(&a); c20_sym_tv(&b); bufferevent_set_timeouts(f, ha ? &a : NULL, hb ? &b : NULL); }
#elif C20_OP == OP_SUSPEND_R
	bufferevent_suspend_read_(f, BEV_SUSPEND_WM);
#elif C20_OP == OP_UNSUSPEND_R
	bufferevent_unsuspend_read_(f, BEV_SUSPEND_BW);
#elif C20_OP == OP_DATA_ARRIVES
	{
		size_t n = vp_size(), before;
		__CPROVER_assume(n >= 1 && n <= 0xffff);
		/* the underlying bufferevent only reads (and then runs this callback) while it is not read-suspended */
		if (BEV_UPCAST(g_under)->read_suspended) { VP_WITNESS("underlying not reading"); return; }
		vp_sink_preset(g_under->input, NULL, n);
		before = evbuffer_get_length(f->input);
		be_filter_readcb(g_under, g_bevf);
		if (evbuffer_get_length(f->input) > before) {
			VP_ASSERT(!tv_isset(&f->timeout_read) || !c20_want_r(F) || (c20_adds_tv(&f->ev_read) > adds && vp_rec(&f->ev_read)->armed_at == vp_bev_now), "C20: filtered data arrived but the read timeout was not restarted");
			VP_WITNESS("data filtered");
		} else
			VP_ASSERT(0, "C17: the underlying bufferevent delivered data to a reading filter but nothing was filtered");
	}
#elif C20_OP == OP_READ_TIMEOUT
	if (!vp_ev_timer_pending(&f->ev_read)) { VP_WITNESS("read timer not pending"); return; }
	f->ev_read.ev_flags &= ~EVLIST_TIMEOUT;
	bufferevent_generic_read_timeout_cb(-1, EV_TIMEOUT, f);
	VP_ASSERT(!(f->enabled & EV_READ) && u_events[F] == 1 && u_last_what[F] == (BEV_EVENT_TIMEOUT | BEV_EVENT_READING), "C20: read timeout: TIMEOUT|READING once, reading disabled");
	VP_WITNESS("read timeout reported");
#elif C20_OP == OP_ENABLE_W
	bufferevent_enable(f, EV_WRITE);
#elif C20_OP == OP_WRITE
	/* (output processing does not look at write suspension: part of KF-C20-filter-timeouts, excluded here) */
	__CPROVER_assume(!U_PRIV(F)->write_suspended);
	{ size_t m = vp_size(); __CPROVER_assume(m >= 1 && m <= 0xffff); bufferevent_write(f, NULL, m); }
#elif C20_OP == OP_DISABLE_W
	bufferevent_disable(f, EV_WRITE);
#elif C20_OP == OP_SUSPEND_W
	bufferevent_suspend_write_(f, BEV_SUSPEND_BW_GROUP);
#elif C20_OP == OP_UNSUSPEND_W
	bufferevent_unsuspend_write_(f, BEV_SUSPEND_BW);
#elif C20_OP == OP_WRITE_TIMEOUT
	if (!vp_ev_timer_pending(&f->ev_write)) { VP_WITNESS("write timer not pending"); return; }
	f->ev_write.ev_flags &= ~EVLIST_TIMEOUT;
	bufferevent_generic_write_timeout_cb(-1, EV_TIMEOUT, f);
	VP_ASSERT(!(f->enabled & EV_WRITE) && u_events[F] == 1 && u_last_what[F] == (BEV_EVENT_TIMEOUT | BEV_EVENT_WRITING), "C20: write timeout: TIMEOUT|WRITING once, writing disabled");
	VP_WITNESS("write timeout reported");
#elif C20_OP == OP_UNDERLYING_DRAINED
	{
		size_t before = evbuffer_get_length(f->output);
		long addsw = c20_adds_tv(&f->ev_write);
		__CPROVER_assume(!U_PRIV(F)->write_suspended);       /* see OP_WRITE */
		vp_sink_drain_raw(g_under->output, evbuffer_get_length(g_under->output));      /* the socket accepted everything */
		be_filter_writecb(g_under, g_bevf);
		if (evbuffer_get_length(f->output) < before) {
			VP_ASSERT(!tv_isset(&f->timeout_write) || !c20_want_w(F) || (c20_adds_tv(&f->ev_write) > addsw && vp_rec(&f->ev_write)->armed_at == vp_bev_now), "C20: output passed on but the write timeout was not restarted");
			VP_WITNESS("output passed on");
		}
	}
#elif C20_OP == OP_FLUSH_W
	/* a flush ignores the enabled bits; flushing a direction that is disabled/suspended re-arms its timeout
	 * (KF-C20-filter-timeouts): excluded here, isolated by -DKF_ONLY_filter_flush */
#ifdef KF_ONLY_filter_flush
	__CPROVER_assume(!((f->enabled & EV_WRITE) && !U_PRIV(F)->write_suspended));
#else
	__CPROVER_assume((f->enabled & EV_WRITE) && !U_PRIV(F)->write_suspended);
#endif
	bufferevent_flush(f, EV_WRITE, BEV_FLUSH);
#elif C20_OP == OP_FLUSH_R
	{
		size_t n = vp_size(); __CPROVER_assume(n >= 1 && n <= 0xffff);
#ifdef KF_ONLY_filter_flush
		__CPROVER_assume(!c20_want_r(F));
#else
		__CPROVER_assume(c20_want_r(F));
#endif
		vp_sink_preset(g_under->input, NULL, n); bufferevent_flush(f, EV_READ, BEV_FLUSH);
	}
#endif
	inv();
	VP_WITNESS("step done");
}
