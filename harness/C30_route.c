/* C30: request routing of http.c.
 *
 *  harness_match     prefix_suffix_match(pattern, name, ignorecase) == ref glob matcher, both strings symbolic.
 *  harness_vhost     evhttp_find_vhost on a hierarchy built with the real API (evhttp_new_object,
 *                    evhttp_add_server_alias, evhttp_add_virtual_host): root R (alias a0), vhost V1 of R
 *                    (pattern p1, alias a1), vhost V2 (pattern p2) either sibling of V1 or nested under V1;
 *                    hostname symbolic.  Chosen server and return value == reference (aliases first, R's then
 *                    depth first; then first matching pattern per level, descending while something matches).
 *  harness_dispatch  evhttp_dispatch_callback on callbacks registered with evhttp_set_cb (two symbolic paths),
 *                    request path symbolic (percent escapes incl. %2F and %00 reachable): returns the FIRST
 *                    registered callback whose path equals the percent-decoded request path as a byte string,
 *                    NULL if none.
 *  harness_handle    evhttp_handle_request: method not in allowed set -> 501 and nothing else; otherwise the
 *                    callback of the chosen virtual host for the decoded path, else that host's generic
 *                    callback, else 404.  Host taken from the request URI or from the Host header (port cut).
 *                    Cuts: evhttp_send_error / evhttp_send_notfound -> recorders; bufferevent_disable no-op.
 *  In harness_vhost / harness_handle prefix_suffix_match is replaced by the reference matcher it is proved
 *  equal to by harness_match (compositional, DESIGN 3.8: the recursive matcher inside the vhost walk explodes).
 */
#include "vp.h"
#include "log_stub.h"
#include "http_fmt.h"
#include "http_stralloc.h"
#include "http_evutil.h"
#include "evbuf_copy.h"
#include "http.c"

#ifndef VP_N
#define VP_N 4            /* longest symbolic string */
#endif
#define RR_MAX (VP_N + 1)
#include "route_ref.h"
#include "uricodec_ref.h"

/* C string of at most k <= VP_N bytes in s[0..VP_N] */
static size_t vp_str(unsigned char *s, size_t k)
{
	size_t len = (size_t)vp_range(0, k), i;
	for (i = 0; i < VP_N; i++) {
		s[i] = vp_u8();
		if (i >= len) s[i] = 0; else __CPROVER_assume(s[i] != 0);
	}
	s[VP_N] = 0;
	return len;
}

/* ------------------------------------------------------------------- match */
#ifndef VP_KPAT
#define VP_KPAT VP_N      /* longest pattern */
#endif
void harness_match(void)
{
	unsigned char pat[VP_N + 2], name[VP_N + 2];
	int icase = vp_bool(), r, ref;
	vp_str(pat, VP_KPAT); vp_str(name, VP_N);
	pat[VP_N + 1] = name[VP_N + 1] = 0;
	ref = rr_glob(pat, name, icase);
	r = prefix_suffix_match((const char *)pat, (const char *)name, icase);
	VP_ASSERT(r == 0 || r == 1, "C30: prefix_suffix_match returns 0 or 1");
	VP_ASSERT(r == ref, "C30: prefix_suffix_match differs from the reference wildcard matcher");
	if (r && pat[0] == '*' && pat[1] != 0 && name[0] != 0) VP_WITNESS("match: suffix pattern matched");
	if (r && icase && pat[0] != name[0]) VP_WITNESS("match: matched only case-insensitively");
	if (!r && !icase && rr_glob(pat, name, 1)) VP_WITNESS("match: case-sensitive mismatch");
	if (r && pat[0] == '*' && pat[1] == '*') VP_WITNESS("match: two stars");
}

/* contract stub for prefix_suffix_match in the vhost / handle obligations (goto-instrument --replace-calls):
 * exactly what harness_match establishes for the real function */
int vp_cut_glob(const char *pattern, const char *name, int ignorecase)
{
	return rr_glob((const unsigned char *)pattern, (const unsigned char *)name, ignorecase);
}

/* ------------------------------------------------------------------- vhost */
#ifndef VP_K
#define VP_K 3            /* longest alias / pattern */
#endif
struct vp_tree { struct evhttp *R, *V1, *V2; unsigned char a0[VP_N + 2], a1[VP_N + 2], p1[VP_N + 2], p2[VP_N + 2]; int nested; };
static void vp_build_tree(struct vp_tree *t)
{
	int r;
	vp_str(t->a0, VP_K); vp_str(t->a1, VP_K); vp_str(t->p1, VP_K); vp_str(t->p2, VP_K);
	t->a0[VP_N + 1] = t->a1[VP_N + 1] = t->p1[VP_N + 1] = t->p2[VP_N + 1] = 0;
#ifdef VP_NESTED       /* concrete per obligation: a symbolic parent makes the list structure symbolic */
	t->nested = VP_NESTED;
#else
	t->nested = vp_bool();
#endif
	t->R = evhttp_new_object(); t->V1 = evhttp_new_object(); t->V2 = evhttp_new_object();
	__CPROVER_assume(t->R && t->V1 && t->V2);
	r = evhttp_add_server_alias(t->R, (const char *)t->a0);
	VP_ASSERT(r == 0, "C30: evhttp_add_server_alias succeeds");
	r = evhttp_add_virtual_host(t->R, (const char *)t->p1, t->V1);
	VP_ASSERT(r == 0, "C30: evhttp_add_virtual_host succeeds");
	r = evhttp_add_server_alias(t->V1, (const char *)t->a1);
	VP_ASSERT(r == 0, "C30: evhttp_add_server_alias (vhost) succeeds");
	r = evhttp_add_virtual_host(t->nested ? t->V1 : t->R, (const char *)t->p2, t->V2);
	VP_ASSERT(r == 0, "C30: evhttp_add_virtual_host (second) succeeds");
}
/* reference choice: 0 = R, 1 = V1, 2 = V2; *found = return value */
static int vp_ref_vhost(const struct vp_tree *t, const unsigned char *h, int *found)
{
	*found = 1;
	if (rr_ieq(t->a0, h)) return 0;
	if (rr_ieq(t->a1, h)) return 1;
	if (rr_glob(t->p1, h, 1)) {
		if (t->nested && rr_glob(t->p2, h, 1)) return 2;
		return 1;
	}
	if (!t->nested && rr_glob(t->p2, h, 1)) return 2;
	*found = 0;
	return 0;
}
void harness_vhost(void)
{
	struct vp_tree t;
	unsigned char h[VP_N + 2];
	struct evhttp *out = NULL, *want;
	int r, found, c;
	vp_build_tree(&t);
	vp_str(h, VP_N); h[VP_N + 1] = 0;
	c = vp_ref_vhost(&t, h, &found);
	want = c == 0 ? t.R : c == 1 ? t.V1 : t.V2;
	r = evhttp_find_vhost(t.R, &out, (const char *)h);
	VP_ASSERT(r == found, "C30: evhttp_find_vhost return value differs from the reference matcher");
	VP_ASSERT(out == want, "C30: evhttp_find_vhost chooses a different server than the reference matcher");
	if (c == 0 && found) VP_WITNESS("vhost: root alias");
	if (c == 1 && rr_ieq(t.a1, h) && !rr_glob(t.p1, h, 1)) VP_WITNESS("vhost: alias of a virtual host whose pattern does not match");
#if !defined(VP_NESTED) || VP_NESTED
	if (c == 2 && t.nested) VP_WITNESS("vhost: nested virtual host");
#endif
#if !defined(VP_NESTED) || !VP_NESTED
	if (c == 2 && !t.nested) VP_WITNESS("vhost: second sibling");
#endif
	if (!found) VP_WITNESS("vhost: no match, root serves");
}

/* ---------------------------------------------------------------- dispatch */
static int vp_ran_a, vp_ran_b, vp_ran_gen, vp_ran_gen1, vp_err_calls, vp_err_code, vp_nf_calls;
static struct evhttp_request *vp_ran_req;
static int vp_tag_a, vp_tag_b, vp_tag_gen, vp_tag_gen1;
static void cb_a(struct evhttp_request *req, void *arg) { vp_ran_a++; vp_ran_req = req; VP_ASSERT(arg == &vp_tag_a, "C30: callback receives the argument it was registered with"); }
static void cb_b(struct evhttp_request *req, void *arg) { vp_ran_b++; vp_ran_req = req; VP_ASSERT(arg == &vp_tag_b, "C30: callback receives the argument it was registered with"); }
static void cb_gen(struct evhttp_request *req, void *arg) { vp_ran_gen++; vp_ran_req = req; VP_ASSERT(arg == &vp_tag_gen, "C30: generic callback receives the argument it was registered with"); }
static void cb_gen1(struct evhttp_request *req, void *arg) { vp_ran_gen1++; vp_ran_req = req; VP_ASSERT(arg == &vp_tag_gen1, "C30: generic callback receives the argument it was registered with"); }
void vp_cut_send_error(struct evhttp_request *req, int error, const char *reason) { (void)req; (void)reason; vp_err_calls++; vp_err_code = error; }
void vp_cut_send_notfound(struct evhttp_request *req, const char *url) { (void)req; (void)url; vp_nf_calls++; }
int vp_cut_bufferevent_disable(struct bufferevent *bev, short ev) { (void)bev; (void)ev; return 0; }

/* request path: symbolic, without '?' and '#' (they end the path in every request target) */
static size_t vp_path(unsigned char *p)
{
	size_t n = vp_str(p, VP_N), i;
	for (i = 0; i < VP_N; i++) __CPROVER_assume(p[i] != '?' && p[i] != '#');
	p[VP_N + 1] = 0;
	return n;
}

void harness_dispatch(void)
{
	unsigned char w1[VP_N + 2], w2[VP_N + 2], path[VP_N + 2], dec[VP_N + 2];
	struct evhttp *H = evhttp_new_object();
	struct evhttp_uri uri;
	struct evhttp_request req;
	struct evhttp_cb *cb;
	size_t plen, dn;
	int r1, r2, m1, m2;

	__CPROVER_assume(H != NULL);
	vp_str(w1, VP_K); vp_str(w2, VP_K); w1[VP_N + 1] = w2[VP_N + 1] = 0;
	plen = vp_path(path);
	r1 = evhttp_set_cb(H, (const char *)w1, cb_a, &vp_tag_a);
	r2 = evhttp_set_cb(H, (const char *)w2, cb_b, &vp_tag_b);
	VP_ASSERT(r1 == 0, "C30: evhttp_set_cb registers a new path");
	VP_ASSERT((r2 == 0) == !ruc_str_eq(w1, w2, VP_N), "C30: evhttp_set_cb refuses exactly a path that is already registered");
	memset(&uri, 0, sizeof(uri)); uri.port = -1; uri.path = (char *)path;
	memset(&req, 0, sizeof(req)); req.uri_elems = &uri;

	dn = ruc_decode(path, plen, VP_N, 0, dec);
	m1 = rr_path_eq(w1, dec, dn);
	m2 = r2 == 0 && rr_path_eq(w2, dec, dn);
	cb = evhttp_dispatch_callback(&H->callbacks, &req);
	if (m1)
		VP_ASSERT(cb != NULL && cb->cb == cb_a && cb->cbarg == &vp_tag_a, "C30: request for a registered path is not dispatched to its callback");
	else if (m2)
		VP_ASSERT(cb != NULL && cb->cb == cb_b && cb->cbarg == &vp_tag_b, "C30: request for a registered path is not dispatched to its callback");
	else
		VP_ASSERT(cb == NULL, "C30: callback chosen although the percent-decoded path differs from every registered path");
	VP_ASSERT(vp_alloc_calls - vp_free_calls == (r2 == 0 ? 5 : 3), "C30: evhttp_dispatch_callback leaks its decode buffer");
	if (m1 && dn < plen) VP_WITNESS("dispatch: matched through a percent escape");
	if (m2) VP_WITNESS("dispatch: second callback");
	if (!m1 && !m2 && dn < plen) VP_WITNESS("dispatch: escaped path without callback");
#ifdef VP_WIT_NUL
	if (!m1 && !m2 && rr_len(dec) < dn) VP_WITNESS("dispatch: decoded path contains NUL");
#endif
}

/* ------------------------------------------------------------------ handle */
void harness_handle(void)
{
	unsigned char wa[VP_N + 2], wb[VP_N + 2], p1[VP_N + 2], path[VP_N + 2], dec[VP_N + 2], host[VP_N + 2], hv[VP_N + 4];
	struct evhttp *R = evhttp_new_object(), *V1 = evhttp_new_object(), *H;
	struct evhttp_uri uri;
	struct evhttp_request req;
	struct evhttp_connection evcon;
	struct evkeyvalq hdrs;
	size_t plen, dn, hl, i;
	int hostmode = (int)vp_range(0, 2);     /* 0: no host, 1: host in the request URI, 2: Host header (with optional :port) */
	int gen_r = vp_bool(), gen_v = vp_bool(), withport = vp_bool(), r, ma, mb;
	ev_uint32_t allowed = vp_u32();
	unsigned type = 1u << vp_range(0, 16);

	__CPROVER_assume(R != NULL && V1 != NULL);
	vp_str(wa, VP_K); vp_str(wb, VP_K); vp_str(p1, VP_K); wa[VP_N + 1] = wb[VP_N + 1] = p1[VP_N + 1] = 0;
	hl = vp_str(host, VP_K); host[VP_N + 1] = 0;
	plen = vp_path(path);
	r = evhttp_set_cb(R, (const char *)wa, cb_a, &vp_tag_a);
	VP_ASSERT(r == 0, "C30: evhttp_set_cb registers a new path");
	r = evhttp_set_cb(V1, (const char *)wb, cb_b, &vp_tag_b);
	VP_ASSERT(r == 0, "C30: evhttp_set_cb registers a new path");
	r = evhttp_add_virtual_host(R, (const char *)p1, V1);
	VP_ASSERT(r == 0, "C30: evhttp_add_virtual_host succeeds");
	if (gen_r) evhttp_set_gencb(R, cb_gen, &vp_tag_gen);
	if (gen_v) evhttp_set_gencb(V1, cb_gen1, &vp_tag_gen1);
	evhttp_set_allowed_methods(R, allowed);

	memset(&uri, 0, sizeof(uri)); uri.port = -1; uri.path = (char *)path;
	memset(&req, 0, sizeof(req)); memset(&evcon, 0, sizeof(evcon));
	req.uri_elems = &uri; req.uri = (char *)path; req.evcon = &evcon; req.type = (enum evhttp_cmd_type)type;
	req.userdone = 1;
	TAILQ_INIT(&hdrs);
	if (hostmode == 1) uri.host = (char *)host;
	if (hostmode == 2) {
		/* Host: name[:digit] -- the name itself does not end in ":" digits (that would be a port) */
		for (i = 0; i <= VP_N; i++) hv[i] = host[i];
		if (withport) { hv[hl] = ':'; hv[hl + 1] = '8'; hv[hl + 2] = 0; }
		__CPROVER_assume(hl > 0 && !(host[hl - 1] >= '0' && host[hl - 1] <= '9') && host[hl - 1] != ':');
		r = evhttp_add_header(&hdrs, "Host", (const char *)hv);
		__CPROVER_assume(r == 0);
		req.input_headers = &hdrs;
	}

	evhttp_handle_request(&req, R);

	VP_ASSERT(vp_ran_a + vp_ran_b + vp_ran_gen + vp_ran_gen1 + vp_err_calls + vp_nf_calls == 1, "C30: a request gets exactly one of: callback, generic callback, 404, error");
	if ((allowed & type) == 0) {
		VP_ASSERT(vp_err_calls == 1 && vp_err_code == HTTP_NOTIMPLEMENTED, "C30: method outside the allowed set is not answered with 501");
		VP_WITNESS("handle: method refused with 501");
		return;
	}
	VP_ASSERT(vp_err_calls == 0, "C30: allowed method answered with an error");
	H = (hostmode != 0 && rr_glob(p1, host, 1)) ? V1 : R;
	dn = ruc_decode(path, plen, VP_N, 0, dec);
	ma = H == R && rr_path_eq(wa, dec, dn);
	mb = H == V1 && rr_path_eq(wb, dec, dn);
	if (ma) VP_ASSERT(vp_ran_a == 1, "C30: request is not routed to the callback registered for its path and host");
	else if (mb) VP_ASSERT(vp_ran_b == 1, "C30: request is not routed to the callback registered for its path and host");
	else if (H == R && gen_r) VP_ASSERT(vp_ran_gen == 1, "C30: request without a registered path does not reach the generic callback of its host");
	else if (H == V1 && gen_v) VP_ASSERT(vp_ran_gen1 == 1, "C30: request without a registered path does not reach the generic callback of its host");
	else VP_ASSERT(vp_nf_calls == 1, "C30: request without callback is not answered with 404");
	if (vp_nf_calls == 0) VP_ASSERT(vp_ran_req == &req, "C30: callback receives the request");
	VP_ASSERT(req.userdone == 0, "C30: userdone is reset before the request is handed to the user");
	if (mb && hostmode == 2 && withport) VP_WITNESS("handle: vhost callback, Host header with port");
	if (mb && hostmode == 1) VP_WITNESS("handle: vhost callback, host from the request URI");
	if (ma && hostmode == 0) VP_WITNESS("handle: root callback, no host");
	if (H == V1 && !mb && !gen_v) VP_WITNESS("handle: 404 in a virtual host although the root has the path or a generic callback");
	if (H == R && !ma && gen_r) VP_WITNESS("handle: generic callback");
}
