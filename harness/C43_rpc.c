/* C43: evrpc.c unit steps with the HTTP layer stubbed by contract.
 *
 *  harness_client   one RPC through a pool with one connection: evrpc_make_request -> evrpc_schedule_request (output
 *                   hook: none / CONTINUE / TERMINATE / PAUSE + resume(CONTINUE|TERMINATE)) -> evhttp_make_request
 *                   (accepts / refuses) -> completion: evrpc_reply_done(reply) with input hook none / CONTINUE /
 *                   TERMINATE / PAUSE+resume and a solver-chosen unmarshal verdict, or the RPC timer fires
 *                   (evrpc_request_timeout -> evhttp_connection_fail_ -> callback without request).
 *                   Client callback exactly once, status as documented (NONE / BADPAYLOAD / TIMEOUT / HOOKABORTED /
 *                   UNSTARTED); reply unmarshalled only on the success path and cleared otherwise; no timer left pending
 *                   on a released wrapper; requests the HTTP layer does not own are released; no leak.
 *  harness_server   evrpc_request_cb for a registered RPC: solver-chosen method and body length, input hook as above,
 *                   solver-chosen verdicts of request_new / unmarshal / reply_new: the handler runs (once) iff POST, body
 *                   non-empty, hooks continue and the request unmarshals; otherwise exactly one 503 and no handler;
 *                   evrpc_request_done: complete + output hook -> exactly one reply (200 or 503), state released.
 *
 * HTTP contract (include/event2/http.h): evhttp_request_new gives a request owned by the caller until
 * evhttp_make_request, which takes ownership (on failure the request has been freed); the completion callback gets the
 * request (owned by the HTTP layer unless evhttp_request_own) or NULL on timeout/failure; evhttp_connection_fail_ fails
 * the request at the head of the connection (callback with NULL).
 */
#define VP_LOCKS_OFF 1
#include <sys/types.h>
#include <sys/queue.h>
#include "vp.h"
#include "log_stub.h"
#include "alloc.h"
#include "locks.h"
#define VPE_NO_BUFFEREVENT 1
#include "dns_unit_env.h"      /* event_assign/add/del recorders, string models */
#include <sys/queue.h>
#include "event2/buffer.h"
#include "event2/http.h"
#include "event2/http_struct.h"
#include "event2/rpc.h"
#include "event2/rpc_struct.h"
#include "http-internal.h"
#include "evrpc-internal.h"
#include "mm-internal.h"

/* ---- typed heap objects (see env/dns_typed_alloc_pre.h for why) ---- */
static void *c43_alloc(size_t sz, int zero)
{
	void *q;
	if (sz == sizeof(struct evrpc_request_wrapper)) { static const struct evrpc_request_wrapper z; q = malloc(sizeof(struct evrpc_request_wrapper)); __CPROVER_assume(q != NULL); if (zero) *(struct evrpc_request_wrapper *)q = z; }
	else if (sz == sizeof(struct evrpc_req_generic)) { static const struct evrpc_req_generic z; q = malloc(sizeof(struct evrpc_req_generic)); __CPROVER_assume(q != NULL); if (zero) *(struct evrpc_req_generic *)q = z; }
	else if (sz == sizeof(struct evrpc_base)) { static const struct evrpc_base z; q = malloc(sizeof(struct evrpc_base)); __CPROVER_assume(q != NULL); if (zero) *(struct evrpc_base *)q = z; }
	else if (sz == sizeof(struct evrpc_pool)) { static const struct evrpc_pool z; q = malloc(sizeof(struct evrpc_pool)); __CPROVER_assume(q != NULL); if (zero) *(struct evrpc_pool *)q = z; }
	else if (sz == sizeof(struct evrpc)) { static const struct evrpc z; q = malloc(sizeof(struct evrpc)); __CPROVER_assume(q != NULL); if (zero) *(struct evrpc *)q = z; }
	else if (sz == sizeof(struct evrpc_hook)) { static const struct evrpc_hook z; q = malloc(sizeof(struct evrpc_hook)); __CPROVER_assume(q != NULL); if (zero) *(struct evrpc_hook *)q = z; }
	else if (sz == sizeof(struct evrpc_hook_ctx)) { static const struct evrpc_hook_ctx z; q = malloc(sizeof(struct evrpc_hook_ctx)); __CPROVER_assume(q != NULL); if (zero) *(struct evrpc_hook_ctx *)q = z; }
	else if (sz == sizeof(struct evrpc_hook_meta)) { static const struct evrpc_hook_meta z; q = malloc(sizeof(struct evrpc_hook_meta)); __CPROVER_assume(q != NULL); if (zero) *(struct evrpc_hook_meta *)q = z; }
	else { q = zero ? calloc(1, sz) : malloc(sz); __CPROVER_assume(q != NULL); }
	return q;
}
static char *c43_strdup(const char *s)
{
	size_t n = 0, i; char *p;
	while (s[n]) n++;
	p = malloc(n + 1); __CPROVER_assume(p != NULL);
	for (i = 0; i <= n; i++) p[i] = s[i];
	return p;
}
#undef mm_malloc
#undef mm_calloc
#undef mm_strdup
#define mm_malloc(sz) c43_alloc((sz), 0)
#define mm_calloc(n, sz) c43_alloc((n) * (sz), 1)
#define mm_strdup(s) c43_strdup((s))
#ifdef VP_CBMC
static void *c43_memset(void *p, int c, size_t n)
{
	if (c == 0 && n == sizeof(struct evrpc_status)) { static const struct evrpc_status z; *(struct evrpc_status *)p = z; }
	else { size_t i; for (i = 0; i < n; i++) ((unsigned char *)p)[i] = (unsigned char)c; }
	return p;
}
#define memset(p, c, n) c43_memset((p), (c), (n))
#endif

static void evrpc_reply_done_fwd(struct evhttp_request *req, void *arg);   /* = evrpc_reply_done (static in evrpc.c) */
/* ---- HTTP layer by contract ---- */
#define EVHTTP_USER_OWNED 0x0004    /* (private to http.c) */
#define C43_NREQ 3
static struct evhttp_request c43_req[C43_NREQ]; static int c43_req_used, c43_req_freed[C43_NREQ], c43_req_owned_by_http[C43_NREQ];
static struct evbuffer *c43_inbuf = (struct evbuffer *)&c43_req_used, *c43_outbuf = (struct evbuffer *)&c43_req_freed;   /* opaque tokens */
static int c43_make_result, c43_make_calls, c43_fail_calls, c43_senderr_calls, c43_senderr_code, c43_sendreply_calls, c43_sendreply_code;
static size_t c43_inbuf_len; static int c43_evbuf_live;
static struct evhttp_request *c43_queued; static struct evhttp_connection *c43_queued_con;
struct evhttp_request *evhttp_request_new(void (*cb)(struct evhttp_request *, void *), void *arg)
{
	struct evhttp_request *r; static const struct evhttp_request z;
	VP_ASSERT(c43_req_used < C43_NREQ, "harness: request pool exhausted");
	r = &c43_req[c43_req_used++]; *r = z;
	r->cb = cb; r->cb_arg = arg; r->input_buffer = c43_inbuf; r->output_buffer = c43_outbuf;
	return r;
}
static int c43_req_index(struct evhttp_request *r) { int i; for (i = 0; i < C43_NREQ; i++) if (r == &c43_req[i]) return i; return -1; }
void evhttp_request_free(struct evhttp_request *r)
{
	int i = c43_req_index(r);
	VP_ASSERT(i >= 0 && !c43_req_freed[i], "C43: HTTP request released twice");
	if (i >= 0) c43_req_freed[i] = 1;
}
void evhttp_request_own(struct evhttp_request *r) { r->flags |= EVHTTP_USER_OWNED; }
int evhttp_request_is_owned(struct evhttp_request *r) { return (r->flags & EVHTTP_USER_OWNED) != 0; }
int evhttp_make_request(struct evhttp_connection *evcon, struct evhttp_request *r, enum evhttp_cmd_type type, const char *uri)
{
	int i = c43_req_index(r);
	c43_make_calls++;
	VP_ASSERT(type == EVHTTP_REQ_POST, "C43: RPCs are POSTed");
	VP_ASSERT(uri[0] == '/' && uri[1] == '.' && uri[2] == 'r' && uri[3] == 'p' && uri[4] == 'c' && uri[5] == '.', "C43: RPC target must be /.rpc.<name>");
	VP_ASSERT(i >= 0 && !c43_req_freed[i], "C43: released request handed to evhttp_make_request");
	if (c43_make_result == -1) { evhttp_request_free(r); return -1; }      /* "on failure the request has been freed" */
	if (i >= 0) c43_req_owned_by_http[i] = 1;
	r->evcon = evcon; c43_queued = r; c43_queued_con = evcon;
	TAILQ_INSERT_TAIL(&evcon->requests, r, next);
	return 0;
}
/* the connection fails: its first request completes without a request object (http.c: evhttp_connection_fail_) */
void evhttp_connection_fail_(struct evhttp_connection *evcon, enum evhttp_request_error error)
{
	struct evhttp_request *r = TAILQ_FIRST(&evcon->requests);
	(void)error; c43_fail_calls++;
	if (r) {
		void (*cb)(struct evhttp_request *, void *) = r->cb; void *arg = r->cb_arg;
		TAILQ_REMOVE(&evcon->requests, r, next);
		evhttp_request_free(r);            /* the HTTP layer owns and releases the failed request */
		VP_ASSERT(cb != NULL, "harness: completion callback of an RPC request");
		evrpc_reply_done_fwd(NULL, arg);       /* every request of this harness is an RPC request */
	}
}
void evhttp_connection_free(struct evhttp_connection *evcon) { (void)evcon; }
void evhttp_connection_set_base(struct evhttp_connection *evcon, struct event_base *base) { evcon->base = base; }
void evhttp_connection_set_timeout(struct evhttp_connection *evcon, int t) { (void)evcon; (void)t; }
void evhttp_send_error(struct evhttp_request *r, int error, const char *reason) { (void)r; (void)reason; c43_senderr_calls++; c43_senderr_code = error; }
void evhttp_send_reply(struct evhttp_request *r, int code, const char *reason, struct evbuffer *databuf) { (void)r; (void)reason; (void)databuf; c43_sendreply_calls++; c43_sendreply_code = code; }
int evhttp_set_cb(struct evhttp *http, const char *path, void (*cb)(struct evhttp_request *, void *), void *cb_arg) { (void)http; (void)path; (void)cb; (void)cb_arg; return 0; }
int evhttp_del_cb(struct evhttp *http, const char *path) { (void)http; (void)path; return 0; }
const char *evhttp_find_header(const struct evkeyvalq *headers, const char *key) { (void)headers; (void)key; return NULL; }
int evhttp_add_header(struct evkeyvalq *headers, const char *key, const char *value) { (void)headers; (void)key; (void)value; return 0; }
size_t evbuffer_get_length(const struct evbuffer *buf) { return buf == c43_inbuf ? c43_inbuf_len : 0; }
struct evbuffer *evbuffer_new(void) { c43_evbuf_live++; return (struct evbuffer *)&c43_evbuf_live; }
void evbuffer_free(struct evbuffer *b) { (void)b; c43_evbuf_live--; }
void evtag_init(void) { }

#include "evrpc.c"
static void evrpc_reply_done_fwd(struct evhttp_request *req, void *arg) { evrpc_reply_done(req, arg); }

/* ---- the application side: marshalling callbacks and hooks as recorders ---- */
static int c43_cb_calls, c43_cb_error, c43_cb_has_req, c43_marshal_calls, c43_unmarshal_calls, c43_clear_calls, c43_unmarshal_result;
static int c43_request_obj, c43_reply_obj, c43_cb_arg_obj;
static void c43_client_cb(struct evrpc_status *st, void *request, void *reply, void *arg)
{
	VP_ASSERT(request == &c43_request_obj && reply == &c43_reply_obj && arg == &c43_cb_arg_obj, "C43: client callback must get its own request, reply and argument");
	c43_cb_calls++; c43_cb_error = st->error; c43_cb_has_req = st->http_req != NULL;
}
static void c43_marshal(struct evbuffer *b, void *request) { VP_ASSERT(b == c43_outbuf && request == &c43_request_obj, "C43: request marshalled into the HTTP request's output buffer"); c43_marshal_calls++; }
static void c43_clear(void *reply) { VP_ASSERT(reply == &c43_reply_obj, "C43: reply_clear on the caller's reply"); c43_clear_calls++; }
static int c43_unmarshal(void *reply, struct evbuffer *b) { VP_ASSERT(reply == &c43_reply_obj && b == c43_inbuf, "C43: reply unmarshalled from the HTTP request's input buffer"); c43_unmarshal_calls++; return c43_unmarshal_result; }
#ifndef C43_OUT_HOOK
#define C43_OUT_HOOK 0     /* 0 none, 1 CONTINUE, 2 TERMINATE, 3 PAUSE then resume CONTINUE, 4 PAUSE then resume TERMINATE */
#endif
#ifndef C43_IN_HOOK
#define C43_IN_HOOK 0
#endif
static int c43_out_hook_calls, c43_in_hook_calls;
static int c43_out_hook(void *ctx, struct evhttp_request *req, struct evbuffer *b, void *arg)
{ (void)ctx; (void)req; (void)b; (void)arg; c43_out_hook_calls++; return C43_OUT_HOOK == 1 ? EVRPC_CONTINUE : C43_OUT_HOOK == 2 ? EVRPC_TERMINATE : EVRPC_PAUSE; }
static int c43_in_hook(void *ctx, struct evhttp_request *req, struct evbuffer *b, void *arg)
{ (void)ctx; (void)req; (void)b; (void)arg; c43_in_hook_calls++; return C43_IN_HOOK == 1 ? EVRPC_CONTINUE : C43_IN_HOOK == 2 ? EVRPC_TERMINATE : EVRPC_PAUSE; }

/* ------------------------------------------------------------------ client */
#ifndef C43_MAKE_FAILS
#define C43_MAKE_FAILS 0
#endif
#ifndef C43_COMPLETION
#define C43_COMPLETION 0    /* 0 reply arrives, 1 the RPC timer fires */
#endif
#ifndef C43_POOL_TIMEOUT
#define C43_POOL_TIMEOUT 5
#endif
void harness_client(void)
{
	struct evrpc_pool *pool = evrpc_pool_new(NULL);
	static struct evhttp_connection con; struct evrpc_request_wrapper *ctx; int r, started, want;
	__CPROVER_assume(pool != NULL);
	TAILQ_INIT(&con.requests);
	evrpc_pool_add_connection(pool, &con);
	evrpc_pool_set_timeout(pool, C43_POOL_TIMEOUT);
	if (C43_OUT_HOOK) { void *h = evrpc_add_hook(pool, EVRPC_OUTPUT, c43_out_hook, NULL); __CPROVER_assume(h != NULL); }
	if (C43_IN_HOOK) { void *h = evrpc_add_hook(pool, EVRPC_INPUT, c43_in_hook, NULL); __CPROVER_assume(h != NULL); }
	c43_make_result = C43_MAKE_FAILS ? -1 : 0;
	c43_unmarshal_result = vp_bool() ? 0 : -1;
	ctx = evrpc_make_request_ctx(pool, &c43_request_obj, &c43_reply_obj, "Msg", c43_marshal, c43_clear, c43_unmarshal, c43_client_cb, &c43_cb_arg_obj);
	__CPROVER_assume(ctx != NULL);
	r = evrpc_make_request(ctx);
	VP_ASSERT(r == 0 && c43_marshal_calls == 1, "C43: request marshalled once when it is scheduled");
	if (C43_OUT_HOOK >= 3) {
		VP_ASSERT(c43_cb_calls == 0 && c43_make_calls == 0, "C43: a paused request must neither be sent nor be answered");
		r = evrpc_resume_request(pool, ctx, C43_OUT_HOOK == 3 ? EVRPC_CONTINUE : EVRPC_TERMINATE);
		VP_ASSERT(r == 0, "C43: resume of a paused request");
	}
	started = !(C43_OUT_HOOK == 2 || C43_OUT_HOOK == 4 || C43_MAKE_FAILS);
	if (!started) {
		VP_ASSERT(c43_cb_calls == 1 && c43_cb_error == EVRPC_STATUS_ERR_UNSTARTED, "C43: request that could not be started: callback exactly once with ERR_UNSTARTED");
		VP_ASSERT(vpe_pending_events == 0, "C43: RPC timer left pending on a released request (it would fire into freed memory)");
		VP_ASSERT(c43_req_used == 0 || c43_req_freed[0], "C43: HTTP request of an unstarted RPC is never released (leak)");
	} else {
		VP_ASSERT(c43_cb_calls == 0 && c43_make_calls == 1 && c43_queued != NULL, "C43: started request is handed to the HTTP layer once, no callback yet");
		VP_ASSERT(C43_POOL_TIMEOUT <= 0 || vpe_event_is_pending(&ctx->ev_timeout), "C43: RPC timer armed when the pool has a timeout");
		if (C43_COMPLETION == 1) {
			(void)event_del(&ctx->ev_timeout);
			evrpc_request_timeout(-1, EV_TIMEOUT, ctx);
			want = EVRPC_STATUS_ERR_TIMEOUT;
			VP_ASSERT(c43_unmarshal_calls == 0, "C43: nothing to unmarshal after a timeout");
		} else {
			TAILQ_REMOVE(&con.requests, c43_queued, next);
			c43_inbuf_len = 10;
			evrpc_reply_done_fwd(c43_queued, ctx);       /* the HTTP layer completes the request */
			if (C43_IN_HOOK >= 3) {
				VP_ASSERT(c43_cb_calls == 0, "C43: a paused reply must not be delivered");
				VP_ASSERT(evhttp_request_is_owned(c43_queued), "C43: a paused reply must take ownership of the HTTP request");
				r = evrpc_resume_request(pool, ctx, C43_IN_HOOK == 3 ? EVRPC_CONTINUE : EVRPC_TERMINATE);
				VP_ASSERT(r == 0, "C43: resume of a paused reply");
			}
			if (C43_IN_HOOK == 2 || C43_IN_HOOK == 4) { want = EVRPC_STATUS_ERR_HOOKABORTED; VP_ASSERT(c43_unmarshal_calls == 0, "C43: aborted reply must not be unmarshalled"); }
			else { want = c43_unmarshal_result == 0 ? EVRPC_STATUS_ERR_NONE : EVRPC_STATUS_ERR_BADPAYLOAD; VP_ASSERT(c43_unmarshal_calls == 1, "C43: reply unmarshalled exactly once"); }
			/* ownership: the HTTP layer releases its request after the callback unless evrpc took it over */
			if (!evhttp_request_is_owned(c43_queued)) evhttp_request_free(c43_queued);
		}
		VP_ASSERT(c43_cb_calls == 1, "C43: completed RPC: client callback exactly once");
		VP_ASSERT(c43_cb_error == want, "C43: status of the completed RPC differs from its outcome");
		VP_ASSERT((want == EVRPC_STATUS_ERR_NONE) == (c43_clear_calls == 0), "C43: reply cleared iff the RPC failed");
		VP_ASSERT(vpe_pending_events == 0, "C43: RPC timer left pending after completion");
		VP_ASSERT(c43_req_freed[0], "C43: HTTP request of a completed RPC is never released (leak)");
	}
	VP_WITNESS("C43 client: RPC ran to its outcome");
	evrpc_pool_remove_connection(pool, &con);
	evrpc_pool_free(pool);
}

/* ------------------------------------------------------------ client, queue */
/* Two RPCs, one connection: the second waits in pool->requests while the first holds the connection.  When the first one
 * ends -- by reply or, C43_COMPLETION == 1, by its timer (completion without a request object) -- the queued RPC must be
 * started (marshalled, handed to the HTTP layer, timer armed) and complete with its own callback: every RPC exactly once. */
void harness_client_queue(void)
{
	struct evrpc_pool *pool = evrpc_pool_new(NULL);
	static struct evhttp_connection con; struct evrpc_request_wrapper *ctx1, *ctx2; struct evhttp_request *q1, *q2; int r;
	__CPROVER_assume(pool != NULL);
	TAILQ_INIT(&con.requests);
	evrpc_pool_add_connection(pool, &con);
	evrpc_pool_set_timeout(pool, C43_POOL_TIMEOUT);
	c43_make_result = 0; c43_unmarshal_result = 0;
	ctx1 = evrpc_make_request_ctx(pool, &c43_request_obj, &c43_reply_obj, "Msg", c43_marshal, c43_clear, c43_unmarshal, c43_client_cb, &c43_cb_arg_obj);
	ctx2 = evrpc_make_request_ctx(pool, &c43_request_obj, &c43_reply_obj, "Msg", c43_marshal, c43_clear, c43_unmarshal, c43_client_cb, &c43_cb_arg_obj);
	__CPROVER_assume(ctx1 != NULL && ctx2 != NULL);
	r = evrpc_make_request(ctx1); VP_ASSERT(r == 0 && c43_make_calls == 1, "C43: first RPC started on the idle connection");
	q1 = c43_queued;
	r = evrpc_make_request(ctx2);
	VP_ASSERT(r == 0 && c43_make_calls == 1 && c43_marshal_calls == 1 && TAILQ_FIRST(&pool->requests) == ctx2, "C43: second RPC must wait while the only connection is busy");
	VP_ASSERT(c43_cb_calls == 0, "C43: no callback before an outcome");
	if (C43_COMPLETION == 1) {
		(void)event_del(&ctx1->ev_timeout);
		evrpc_request_timeout(-1, EV_TIMEOUT, ctx1);
		VP_ASSERT(c43_cb_calls == 1 && c43_cb_error == EVRPC_STATUS_ERR_TIMEOUT, "C43: timed-out RPC: callback exactly once with ERR_TIMEOUT");
	} else {
		TAILQ_REMOVE(&con.requests, q1, next);
		c43_inbuf_len = 10;
		evrpc_reply_done_fwd(q1, ctx1);
		if (!evhttp_request_is_owned(q1)) evhttp_request_free(q1);
		VP_ASSERT(c43_cb_calls == 1 && c43_cb_error == EVRPC_STATUS_ERR_NONE, "C43: answered RPC: callback exactly once with ERR_NONE");
	}
	/* the connection is idle again: the queued RPC must have been started */
	VP_ASSERT(TAILQ_FIRST(&pool->requests) == NULL && c43_make_calls == 2 && c43_marshal_calls == 2, "C43: RPC left queued although the connection became idle (it would never complete)");
	q2 = c43_queued;
	VP_ASSERT(q2 != q1 && TAILQ_FIRST(&con.requests) == q2, "C43: queued RPC handed to the HTTP layer on the idle connection");
	VP_ASSERT(C43_POOL_TIMEOUT <= 0 || vpe_event_is_pending(&ctx2->ev_timeout), "C43: timer of the queued RPC armed when it is started");
	TAILQ_REMOVE(&con.requests, q2, next);
	c43_inbuf_len = 10;
	evrpc_reply_done_fwd(q2, ctx2);
	if (!evhttp_request_is_owned(q2)) evhttp_request_free(q2);
	VP_ASSERT(c43_cb_calls == 2 && c43_cb_error == EVRPC_STATUS_ERR_NONE, "C43: queued RPC: callback exactly once after its reply");
	VP_ASSERT(vpe_pending_events == 0 && c43_req_freed[0] && c43_req_freed[1], "C43: timers and HTTP requests of completed RPCs released");
	VP_WITNESS("C43 client queue: queued RPC started when the connection became idle, both completed");
	evrpc_pool_remove_connection(pool, &con);
	evrpc_pool_free(pool);
}

/* ------------------------------------------------------------------ server */
static int c43_handler_calls, c43_reqnew_ok, c43_replynew_ok, c43_sunmarshal_result, c43_reqfree_calls, c43_replyfree_calls, c43_complete_result, c43_rmarshal_calls;
static int c43_sreq_obj, c43_sreply_obj; static struct evrpc_req_generic *c43_state;
static void c43_handler(struct evrpc_req_generic *st, void *arg) { (void)arg; c43_handler_calls++; c43_state = st; VP_ASSERT(evrpc_get_request(st) == &c43_sreq_obj && evrpc_get_reply(st) == &c43_sreply_obj, "C43: handler gets the unmarshalled request and a fresh reply"); }
static void *c43_req_new(void *a) { (void)a; return c43_reqnew_ok ? &c43_sreq_obj : NULL; }
static void c43_req_free(void *p) { VP_ASSERT(p == &c43_sreq_obj, "C43: request_free of the request object"); c43_reqfree_calls++; }
static int c43_req_unmarshal(void *p, struct evbuffer *b) { VP_ASSERT(p == &c43_sreq_obj && b == c43_inbuf, "C43: request unmarshalled from the body"); return c43_sunmarshal_result; }
static void *c43_reply_new(void *a) { (void)a; return c43_replynew_ok ? &c43_sreply_obj : NULL; }
static void c43_reply_free(void *p) { VP_ASSERT(p == &c43_sreply_obj, "C43: reply_free of the reply object"); c43_replyfree_calls++; }
static int c43_reply_complete(void *p) { (void)p; return c43_complete_result; }
static void c43_reply_marshal(struct evbuffer *b, void *p) { (void)b; (void)p; c43_rmarshal_calls++; }
void harness_server(void)
{
	static struct evhttp *http = (struct evhttp *)&c43_handler_calls;   /* opaque */
	struct evrpc_base *base = evrpc_init(http); struct evhttp_request *req; struct evrpc *rpc; int r, post = vp_bool(), wellformed;
	__CPROVER_assume(base != NULL);
	r = evrpc_register_generic(base, "Msg", c43_handler, NULL, c43_req_new, NULL, c43_req_free, c43_req_unmarshal, c43_reply_new, NULL, c43_reply_free, c43_reply_complete, c43_reply_marshal);
	__CPROVER_assume(r == 0);
	rpc = TAILQ_FIRST(&base->registered_rpcs);
	if (C43_IN_HOOK) { void *h = evrpc_add_hook(base, EVRPC_INPUT, c43_in_hook, NULL); __CPROVER_assume(h != NULL); }
	if (C43_OUT_HOOK) { void *h = evrpc_add_hook(base, EVRPC_OUTPUT, c43_out_hook, NULL); __CPROVER_assume(h != NULL); }
	req = evhttp_request_new(NULL, NULL);
	req->type = post ? EVHTTP_REQ_POST : EVHTTP_REQ_GET;
	c43_inbuf_len = vp_bool() ? (size_t)vp_range(1, 100) : 0;
	c43_reqnew_ok = vp_bool(); c43_replynew_ok = vp_bool(); c43_sunmarshal_result = vp_bool() ? 0 : -1; c43_complete_result = vp_bool() ? 0 : -1;
	evrpc_request_cb(req, rpc);
	if (C43_IN_HOOK >= 3 && post && c43_inbuf_len > 0) {
		VP_ASSERT(c43_handler_calls == 0 && c43_senderr_calls == 0, "C43: a paused request is neither handled nor answered");
		r = evrpc_resume_request(base, TAILQ_FIRST(&base->paused_requests)->ctx, C43_IN_HOOK == 3 ? EVRPC_CONTINUE : EVRPC_TERMINATE);
		VP_ASSERT(r == 0, "C43: resume of a paused request");
	}
	wellformed = post && c43_inbuf_len > 0 && !(C43_IN_HOOK == 2 || C43_IN_HOOK == 4) && c43_reqnew_ok && c43_sunmarshal_result == 0 && c43_replynew_ok;
	if (!wellformed) {
		VP_ASSERT(c43_handler_calls == 0, "C43: handler invoked for a request that is not a well-formed POST of its RPC");
		VP_ASSERT(c43_senderr_calls == 1 && c43_senderr_code == HTTP_SERVUNAVAIL && c43_sendreply_calls == 0, "C43: malformed request: exactly one 503");
		VP_ASSERT(c43_reqfree_calls == (post && c43_inbuf_len > 0 && !(C43_IN_HOOK == 2 || C43_IN_HOOK == 4) && c43_reqnew_ok ? 1 : 0), "C43: request object of a rejected call released exactly once");
		VP_WITNESS("C43 server: request rejected with one 503, no handler");
	} else {
		VP_ASSERT(c43_handler_calls == 1 && c43_senderr_calls == 0, "C43: well-formed request: handler exactly once, no error reply");
		/* the handler answers */
		evrpc_request_done(c43_state);
		if (C43_OUT_HOOK >= 3 && c43_complete_result == 0) {
			VP_ASSERT(c43_sendreply_calls == 0 && c43_senderr_calls == 0, "C43: a paused reply is not sent");
			r = evrpc_resume_request(base, c43_state, C43_OUT_HOOK == 3 ? EVRPC_CONTINUE : EVRPC_TERMINATE);
			VP_ASSERT(r == 0, "C43: resume of a paused reply");
		}
		if (c43_complete_result == 0 && !(C43_OUT_HOOK == 2 || C43_OUT_HOOK == 4)) VP_ASSERT(c43_sendreply_calls == 1 && c43_sendreply_code == HTTP_OK && c43_senderr_calls == 0 && c43_rmarshal_calls == 1, "C43: completed reply: marshalled once, exactly one 200");
		else VP_ASSERT(c43_sendreply_calls == 0 && c43_senderr_calls == 1, "C43: incomplete or aborted reply: exactly one 503");
		VP_ASSERT(c43_reqfree_calls == 1 && c43_replyfree_calls == 1 && c43_evbuf_live == 0, "C43: request state released exactly once after the reply");
		VP_ASSERT(c43_handler_calls == 1, "C43: handler invoked more than once");
#if !(C43_IN_HOOK == 2 || C43_IN_HOOK == 4)
		VP_WITNESS("C43 server: well-formed request handled and answered");
#endif
	}
	evrpc_free(base);
}
