/* C26 (c): the format lemma (reference only, no libevent code): a message head
 * built as
 *     start-line CRLF  name ": " value CRLF  CRLF
 * from SAFE components (ref_safe_* in ref/http_ref.h) is read by the RFC 9112
 * reference recipient as exactly those components: one start line, one field,
 * end of header section at the CRLF CRLF the sender wrote -- no extra field, no
 * early end of the head.  Decided for the lenient recipient (any LF ends a
 * line, obs-fold unfolded) and, for the "nothing added" part, for the strict
 * one (only CRLF ends a line).  Conversely an unsafe value is shown to be
 * readable as something else (witnesses), i.e. the predicates are not
 * needlessly strict.
 *   -DVP_LEM_FIELD | -DVP_LEM_STATUS | -DVP_LEM_REQUEST
 */
#include "vp.h"
#include <string.h>
#ifndef VP_K
#define VP_K 3
#endif
#ifndef VP_V
#define VP_V 6
#endif
#ifdef VP_LEM_FIELD
#define VP_CAP (VP_K + VP_V + 8)
#else
#define VP_CAP (VP_V + 32)
#endif
#define REF_MAXLINES 6
#define REF_MAXLINE VP_CAP
#define REF_MAXV VP_CAP
#define REF_MAXF 3
#include "http_ref.h"

/* -DVP_FIXED_LEN: the strings have exactly VP_K / VP_V bytes (the driver enumerates the lengths); otherwise
 * the length is symbolic up to that bound */
static size_t vp_bstr(unsigned char *buf, size_t max)
{
	size_t n, i;
	vp_bytes(buf, max);
#ifdef VP_FIXED_LEN
	n = max;
#else
	n = (size_t)vp_range(0, max);
#endif
	for (i = 0; i < max; i++) {
		if (i >= n) buf[i] = 0;
		else __CPROVER_assume(buf[i] != 0);
	}
	return n;
}
static unsigned char out[VP_CAP];
static size_t olen_;
static void put(const unsigned char *p, size_t n) { size_t i; for (i = 0; i < VP_CAP && i < n; i++) out[olen_ + i] = p[i]; olen_ += n; }
static void puts_(const char *s) { put((const unsigned char *)s, strlen(s)); }

#define VP_MAXLINES 6
static const ref_u8 *ol[VP_MAXLINES];
static size_t oll[VP_MAXLINES];
static size_t nol, head_end;
/* crlf_only = 0: any LF ends a line (a CR directly before it belongs to the terminator); 1: only CRLF does */
static void split_lines(int crlf_only)
{
	size_t i, start = 0;
	nol = 0; head_end = olen_ + 1;
	for (i = 0; i < VP_CAP; i++) {
		if (i >= olen_) break;
		if (out[i] == '\n' && nol < VP_MAXLINES) {
			size_t e = i;
			int cr = (e > start && out[e - 1] == '\r');
			if (crlf_only && !cr) continue;
			if (cr) e--;
			ol[nol] = out + start; oll[nol] = e - start; nol++;
			if (e == start) { head_end = i + 1; break; }
			start = i + 1;
		}
	}
}

#ifdef VP_LEM_FIELD
void harness_lemma(void)
{
	unsigned char key[VP_K], val[VP_V];
	size_t kl = vp_bstr(key, VP_K), vl = vp_bstr(val, VP_V), i, b, e;
	struct ref_hsection H;
	int safe = ref_safe_field_name(key, kl) && ref_safe_field_value(val, vl);
	/* the header section alone (the start line in front of it is obligations lemma_status / lemma_request) */
	put(key, kl); puts_(": "); put(val, vl); puts_("\r\n");
	puts_("\r\n");
	split_lines(0);
	ref_header_section(ol, oll, nol, &H);
	if (safe) {
		int same = 1;
		VP_ASSERT(head_end == olen_, "C26 lemma: the head ends exactly at the CRLF CRLF the sender wrote");
		VP_ASSERT(H.status == REF_H_DONE && H.nfields == 1, "C26 lemma: exactly one field is derived");
		VP_ASSERT(H.f[0].name_len == kl, "C26 lemma: field name derived == name supplied");
		for (i = 0; i < VP_K; i++) if (i < kl && H.f[0].name[i] != key[i]) same = 0;
		VP_ASSERT(same, "C26 lemma: field name derived == name supplied (bytes)");
		if (!H.f[0].folded) {
			/* value derived == value supplied minus the optional white space around it */
			b = 0; e = vl;
			for (i = 0; i < VP_V && b < e && ref_is_ows(val[b]); i++) b++;
			for (i = 0; i < VP_V && e > b && ref_is_ows(val[e - 1]); i++) e--;
			same = 1;
			for (i = 0; i < VP_V; i++) if (i < e - b && H.f[0].value[i] != val[b + i]) same = 0;
			VP_ASSERT(H.f[0].value_len == e - b && same, "C26 lemma: field value derived == value supplied (OWS-trimmed)");
			VP_WITNESS("plain safe field round-trips");
		} else {
#if VP_V >= 2
			VP_WITNESS("folded safe field is still one field");
#endif
		}
		/* strict recipient (only CRLF ends a line): nothing is added either */
		split_lines(1);
		ref_header_section(ol, oll, nol, &H);
		VP_ASSERT(head_end == olen_ && H.nfields <= 1 && (H.status == REF_H_DONE || H.status == REF_H_REJECT), "C26 lemma (CRLF-only recipient): at most the one field, head ends where the sender ended it");
	} else {
		/* tightness: unsafe components can be read as something else */
#if VP_V >= 3
		if (H.status == REF_H_DONE && H.nfields == 2) VP_WITNESS("unsafe value yields a second field");
		if (head_end < olen_) VP_WITNESS("unsafe value ends the header section early");
#endif
#if VP_K >= 2
		if (H.status == REF_H_DONE && H.nfields == 1 && H.f[0].name_len != kl) VP_WITNESS("unsafe name yields a different field name");
#endif
	}
}
#endif

#ifdef VP_LEM_STATUS
void harness_lemma(void)
{
	unsigned char txt[VP_V];
	size_t n = vp_bstr(txt, VP_V), i;
	struct ref_statusline S;
	puts_("HTTP/1.1 404 "); put(txt, n); puts_("\r\n");
	puts_("\r\n");
	split_lines(0);
	if (ref_safe_reason(txt, n)) {
		int same = 1;
		VP_ASSERT(nol == 2 && head_end == olen_ && oll[1] == 0, "C26 lemma: status line and end of head, nothing else");
		ref_statusline_parse(ol[0], oll[0], &S);
		VP_ASSERT(S.wellformed && S.code == 404 && S.major == 1 && S.minor == 1, "C26 lemma: status line derived == version/code supplied");
		VP_ASSERT(S.r_len == n, "C26 lemma: reason phrase derived == phrase supplied (length)");
		for (i = 0; i < VP_V; i++) if (i < n && ol[0][S.r_off + i] != txt[i]) same = 0;
		VP_ASSERT(same, "C26 lemma: reason phrase derived == phrase supplied");
		VP_WITNESS("safe reason phrase round-trips");
	} else {
		if (nol >= 2 && oll[1] != 0) VP_WITNESS("unsafe reason phrase yields an extra line");
		if (head_end < olen_) VP_WITNESS("unsafe reason phrase ends the head early");
	}
}
#endif

#ifdef VP_LEM_REQUEST
void harness_lemma(void)
{
	unsigned char txt[VP_V];
	size_t n = vp_bstr(txt, VP_V), i;
	struct ref_reqline R;
	puts_("OPTIONS "); put(txt, n); puts_(" HTTP/1.1\r\n");
	puts_("\r\n");
	split_lines(0);
	if (ref_safe_target(txt, n)) {
		int same = 1;
		VP_ASSERT(nol == 2 && head_end == olen_ && oll[1] == 0, "C26 lemma: request line and end of head, nothing else");
		ref_reqline_parse(ol[0], oll[0], &R);
		/* a target that itself ends in SP: trailing SP of the line are not involved (version follows) */
		VP_ASSERT(R.wellformed && R.method == REF_REQ_OPTIONS && R.major == 1 && R.minor == 1, "C26 lemma: request line derived == method/version supplied");
		VP_ASSERT(R.t_len == n, "C26 lemma: request target derived == target supplied (length)");
		for (i = 0; i < VP_V; i++) if (i < n && ol[0][R.t_off + i] != txt[i]) same = 0;
		VP_ASSERT(same, "C26 lemma: request target derived == target supplied");
		VP_WITNESS("safe target round-trips");
	} else {
		if (nol >= 2 && oll[1] != 0) VP_WITNESS("unsafe target yields an extra line");
		if (n == 0) VP_WITNESS("empty target");
	}
}
#endif
