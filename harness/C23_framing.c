/* C23 (c): framing decision of a request.  The real evhttp_get_body() +
 * evhttp_get_body_length() + evhttp_find_header() + evhttp_method_may_have_body_()
 * on a header list of up to VP_NF fields with symbolic values (<= VP_V bytes)
 * against ref_request_body() (RFC 9112 section 6.3).
 *
 * The header list is built with the library's own evhttp_add_header(); field
 * names come from a small set (symbolic choice), values are symbolic byte
 * strings as a conforming field-line parser yields them (OWS-trimmed, no CR,
 * LF, NUL) -- what evhttp_parse_headers_ really yields is obligation (b).
 *
 * Cut (DESIGN 3.8, --replace-calls): the continuations evhttp_get_body() jumps
 * to are recorders: evhttp_connection_done (= message complete without body),
 * evhttp_connection_fail_ (= rejected), evhttp_read_body (= body framing per
 * req->chunked / req->ntoread), evhttp_send_error, evhttp_lingering_fail,
 * evhttp_send_continue.
 *
 * Known-finding predicates (each: what the RFC demands vs what the code does):
 *   KF_TE_NOT_CHUNKED  a Transfer-Encoding field is present whose value is not exactly "chunked"
 *   KF_CL_DUP          more than one Content-Length field
 *   KF_CL_SYNTAX       first Content-Length value is not 1*DIGIT but strtoll() takes it ('+', '-0', white space)
 *   KF_NOBODY_METHOD   method without EVHTTP_METHOD_HAS_BODY (HEAD, TRACE) and Content-Length/Transfer-Encoding present
 */
#include "vp.h"
#include "log_stub.h"
#include "http_fmt.h"
#include "http_alloc.h"
#include "http_evutil.h"
#include "http.c"
#include "http_ref.h"

#define VP_NF 3
#ifndef VP_V
#define VP_V 8
#endif

/* ---- recorders for the cut continuations ---- */
static int vp_done_calls, vp_fail_calls, vp_readbody_calls, vp_senderr_calls, vp_linger_calls, vp_continue_calls;
static int vp_fail_code, vp_senderr_code;
static int vp_rb_chunked; static ev_int64_t vp_rb_ntoread;
void vp_cut_connection_done(struct evhttp_connection *evcon) { (void)evcon; vp_done_calls++; }
void vp_cut_connection_fail(struct evhttp_connection *evcon, enum evhttp_request_error e) { (void)evcon; vp_fail_calls++; vp_fail_code = (int)e; }
void vp_cut_read_body(struct evhttp_connection *evcon, struct evhttp_request *req) { (void)evcon; vp_readbody_calls++; vp_rb_chunked = req->chunked; vp_rb_ntoread = req->ntoread; }
void vp_cut_send_error(struct evhttp_request *req, int error, const char *reason) { (void)req; (void)reason; vp_senderr_calls++; vp_senderr_code = error; }
void vp_cut_lingering_fail(struct evhttp_connection *evcon, struct evhttp_request *req) { (void)evcon; (void)req; vp_linger_calls++; }
void vp_cut_send_continue(struct evhttp_connection *evcon, struct evhttp_request *req) { (void)evcon; (void)req; vp_continue_calls++; }

/* environment of the 100-continue branch (not reached: no Expect field) */
static struct bufferevent vp_bev;
struct evbuffer *bufferevent_get_input(struct bufferevent *b) { (void)b; return (struct evbuffer *)&vp_bev; }
size_t evbuffer_get_length(const struct evbuffer *b) { (void)b; return 0; }

/* field names are fixed per obligation (shape enumeration by the driver: -DVP_K0=.. -DVP_K1=.. -DVP_K2=..),
 * values are symbolic.  kinds: 1 Content-Length 2 Transfer-Encoding 3 content-length 4 TRANSFER-ENCODING 5 Connection 6 X-Y */
static const char *const vp_names[] = { "", "Content-Length", "Transfer-Encoding", "content-length", "TRANSFER-ENCODING", "Connection", "X-Y" };
#ifndef VP_K0
#define VP_K0 1
#endif
#ifndef VP_K1
#define VP_K1 0
#endif
#ifndef VP_K2
#define VP_K2 0
#endif
static const unsigned vp_kinds[3] = { VP_K0, VP_K1, VP_K2 };
#define VP_NFIELDS ((VP_K0 != 0) + (VP_K1 != 0) + (VP_K2 != 0))

static char vp_val[VP_NF][VP_V + 1];
static size_t vp_vlen[VP_NF];
static unsigned vp_nameidx[VP_NF];

#define VP_IS_CL(k) ((k) == 1 || (k) == 3)
#define VP_IS_TE(k) ((k) == 2 || (k) == 4)
#define VP_HAS_CL (VP_IS_CL(VP_K0) || VP_IS_CL(VP_K1) || VP_IS_CL(VP_K2))
#define VP_HAS_TE (VP_IS_TE(VP_K0) || VP_IS_TE(VP_K1) || VP_IS_TE(VP_K2))
#define VP_NUM_TE (VP_IS_TE(VP_K0) + VP_IS_TE(VP_K1) + VP_IS_TE(VP_K2))

/* KF_CL_SYNTAX: a Content-Length value that is not 1*DIGIT but that strtoll() converts completely:
 * optional isspace() bytes (only VT / FF can survive OWS trimming), optional sign, 1*DIGIT */
static int kf_cl_lenient(const ref_u8 *p, size_t n)
{
	size_t i = 0, d;
	while (i < n && (p[i] == 0x0b || p[i] == 0x0c || p[i] == ' ' || p[i] == '\t')) i++;
	if (i < n && (p[i] == '+' || p[i] == '-')) i++;
	if (i == 0 || i == n)
		return 0;
	for (d = i; d < n; d++)
		if (!ref_is_digit(p[d])) return 0;
	return 1;
}

static int is_te(unsigned i) { return i == 2 || i == 4; }
static int is_cl(unsigned i) { return i == 1 || i == 3; }

void harness_framing(void)
{
	struct evhttp_request req;
	struct evhttp_connection evcon;
	struct evkeyvalq in_headers;
	struct ref_field F[VP_NF];
	unsigned nf, i, k, permitted;
	unsigned long long ref_len = 0;
	int n_te = 0, n_cl = 0, te_not_exact = 0, first_cl = -1, first_cl_lenient = 0, nobody_method;
	static const enum evhttp_cmd_type types[] = { EVHTTP_REQ_GET, EVHTTP_REQ_POST, EVHTTP_REQ_PUT, EVHTTP_REQ_HEAD, EVHTTP_REQ_TRACE, EVHTTP_REQ_CONNECT, EVHTTP_REQ_DELETE };

	memset(&req, 0, sizeof(req));
	memset(&evcon, 0, sizeof(evcon));
	TAILQ_INIT(&in_headers);
	req.input_headers = &in_headers;
	req.evcon = &evcon;
	req.kind = EVHTTP_REQUEST;
	req.major = 1; req.minor = 1;
	req.type = types[vp_range(0, 6)];
	evcon.bufev = &vp_bev;
	evcon.max_body_size = EV_UINT64_MAX;
	evcon.max_headers_size = EV_SIZE_MAX;
	evcon.state = EVCON_READING_HEADERS;

	nf = VP_NFIELDS;
	for (i = 0; i < VP_NF; i++) {
		if (i >= nf) break;
		vp_nameidx[i] = vp_kinds[i];
		vp_bytes(vp_val[i], VP_V);
		vp_vlen[i] = (size_t)vp_range(0, VP_V);
		vp_val[i][vp_vlen[i]] = '\0';
		for (k = 0; k < VP_V; k++) {
			char c = vp_val[i][k];
			__CPROVER_assume(k >= vp_vlen[i] || (c != '\0' && c != '\n' && c != '\r'));
		}
		/* field values arrive OWS-trimmed */
		if (vp_vlen[i] > 0) {
			__CPROVER_assume(!ref_is_ows((ref_u8)vp_val[i][0]));
			__CPROVER_assume(!ref_is_ows((ref_u8)vp_val[i][vp_vlen[i] - 1]));
		}
		{
			int rc = evhttp_add_header(&in_headers, vp_names[vp_nameidx[i]], vp_val[i]);
			VP_ASSERT(rc == 0, "C23: evhttp_add_header refused a CR/LF-free value");
		}
		F[i].name = (const ref_u8 *)vp_names[vp_nameidx[i]];
		F[i].name_len = strlen(vp_names[vp_nameidx[i]]);
		F[i].value = (const ref_u8 *)vp_val[i];
		F[i].value_len = vp_vlen[i];
		if (is_te(vp_nameidx[i])) {
			n_te++;
			if (ref_te_classify(F[i].value, F[i].value_len) != REF_TE_ONLY_CHUNKED) te_not_exact = 1;
		}
		if (is_cl(vp_nameidx[i])) {
			if (first_cl < 0) { first_cl = (int)i; first_cl_lenient = kf_cl_lenient(F[i].value, F[i].value_len); }
			n_cl++;
		}
	}
	nobody_method = (req.type == EVHTTP_REQ_HEAD || req.type == EVHTTP_REQ_TRACE);

	/* known-finding predicates (syntactic, over the input) */
#define KFP_TE   (n_te > 0 && te_not_exact)
#define KFP_DUP  (n_cl > 1)
#define KFP_SYN  (n_cl > 0 && first_cl_lenient)
#define KFP_NOB  (nobody_method && (n_te > 0 || n_cl > 0))
#ifdef KF_EXCLUDE_TE_NOT_CHUNKED
	__CPROVER_assume(!KFP_TE);
#endif
#ifdef KF_EXCLUDE_CL_DUP
	__CPROVER_assume(!KFP_DUP);
#endif
#ifdef KF_EXCLUDE_CL_SYNTAX
	__CPROVER_assume(!KFP_SYN);
#endif
#ifdef KF_EXCLUDE_NOBODY_METHOD
	__CPROVER_assume(!KFP_NOB);
#endif
#ifdef KF_ONLY_TE_NOT_CHUNKED
	__CPROVER_assume(KFP_TE && !KFP_DUP && !KFP_SYN && !KFP_NOB);
#endif
#ifdef KF_ONLY_CL_DUP
	__CPROVER_assume(KFP_DUP && !KFP_TE && !KFP_SYN && !KFP_NOB);
#endif
#ifdef KF_ONLY_CL_SYNTAX
	__CPROVER_assume(KFP_SYN && !KFP_TE && !KFP_DUP && !KFP_NOB);
#endif
#ifdef KF_ONLY_NOBODY_METHOD
	__CPROVER_assume(KFP_NOB && !KFP_TE && !KFP_DUP && !KFP_SYN);
#endif

#if defined(KF_ONLY_TE_NOT_CHUNKED) || defined(KF_ONLY_CL_DUP) || defined(KF_ONLY_CL_SYNTAX) || defined(KF_ONLY_NOBODY_METHOD)
#define VP_KF_ONLY 1
#else
#define VP_KF_ONLY 0
#endif
	permitted = ref_request_body(F, nf, req.major, req.minor, &ref_len);
	/* RFC 9110 9.3.2 / 9.3.8: content in a HEAD request "might lead some implementations to reject the
	 * request and close the connection because of its potential as a request smuggling attack"; a client
	 * MUST NOT send content in a TRACE request.  Refusing is therefore permitted when a method for which
	 * evhttp never reads a body announces one; skipping the framing is not. */
	if (nobody_method && ((permitted & REF_BODY_CHUNKED) || ((permitted & REF_BODY_LENGTH) && ref_len > 0)))
		permitted |= REF_BODY_REJECT;

	evhttp_get_body(&evcon, &req);

	VP_ASSERT(vp_done_calls + vp_fail_calls + vp_readbody_calls + vp_senderr_calls + vp_linger_calls == 1,
	    "C23: framing decision reaches exactly one continuation");
	if (vp_done_calls) {
		VP_ASSERT((permitted & REF_BODY_NONE) || ((permitted & REF_BODY_LENGTH) && ref_len == 0),
		    "C23: request taken as having no body although RFC 9112 6.3 frames a body or requires rejection");
#if !VP_HAS_TE && !VP_KF_ONLY
		VP_WITNESS("no body");
#endif
	} else if (vp_fail_calls) {
		/* completeness: a regular message (exactly one way to frame it) must not be refused */
		VP_ASSERT(permitted & REF_BODY_REJECT, "C23: regularly framed request rejected");
		VP_ASSERT(vp_fail_code == EVREQ_HTTP_INVALID_HEADER, "C23: framing error reported as invalid header (400)");
#if VP_HAS_CL && !VP_KF_ONLY
		VP_WITNESS("rejected");
#endif
	} else if (vp_readbody_calls) {
		if (vp_rb_chunked) {
			VP_ASSERT(permitted & REF_BODY_CHUNKED, "C23: body read as chunked although the final transfer coding is not chunked");
#if VP_NUM_TE == 1 && !VP_KF_ONLY
			VP_WITNESS("chunked body");
#endif
		} else {
			VP_ASSERT(vp_rb_ntoread > 0, "C23: non-chunked request body has a positive length");
			VP_ASSERT((permitted & REF_BODY_LENGTH) && (unsigned long long)vp_rb_ntoread == ref_len,
			    "C23: body length taken from a Content-Length the RFC does not allow to be used (or a different value)");
#if VP_HAS_CL && !VP_HAS_TE && !VP_KF_ONLY
			VP_WITNESS("content-length body");
#endif
		}
	} else {
		VP_ASSERT(0, "C23: unexpected continuation (no Expect field, no size limit)");
	}
	VP_ASSERT(vp_continue_calls == 0, "C23: 100-continue without Expect");
	VP_WITNESS("framing decision taken");
#if VP_KF_ONLY
	VP_WITNESS("known-finding region reached");
#endif
}
