/* C25 (a): header size limit.  The real evhttp_parse_firstline_() and
 * evhttp_parse_headers_() with a symbolic max_headers_size (any size_t), a
 * symbolic amount already accounted (headers_size <= max_headers_size, the
 * invariant both functions maintain) and up to VP_L symbolic lines of up to
 * VP_N bytes from the line supplier (env/http_lines.h) plus a symbolic number
 * of bytes buffered behind the last complete line.
 *
 * Measure: evhttp counts the bytes of the lines without their CRLF/LF (that
 * is what max_headers_size limits); asserted:
 *   - a first line / header section is accepted only if the bytes accounted
 *     (req->headers_size) are the sum of the line lengths and <= the limit;
 *   - DATA_TOO_LONG is reported only when line bytes + buffered bytes really
 *     exceed the limit (no false alarm), and incomplete data beyond the limit
 *     is never waited for (buffering beyond the limit is bounded by one read).
 */
#include "vp.h"
#include "log_stub.h"
#include "http_fmt.h"
#include "http_alloc.h"
#include "http_evutil.h"
#include "http.c"
#ifndef VP_L
#define VP_L 2
#endif
#ifndef VP_N
#define VP_N 6
#endif
#include "http_lines.h"

static char vp_inbuf_identity;
static struct bufferevent vp_bev;

#ifdef VP_FIRSTLINE
/* the request/status line parsers themselves are C23/C24; here: a contract stub deciding accept/refuse */
static int vp_line_ok;
int vp_cut_parse_request_line(struct evhttp_request *req, char *line, size_t len) { (void)req; (void)line; (void)len; return vp_line_ok ? 0 : -1; }
int vp_cut_parse_response_line(struct evhttp_request *req, char *line) { (void)req; (void)line; return vp_line_ok ? 0 : -1; }
void harness_limit(void)
{
	struct evhttp_request req;
	struct evhttp_connection evcon;
	enum message_read_status st;
	size_t maxh = vp_size(), buffered;
	memset(&req, 0, sizeof(req));
	memset(&evcon, 0, sizeof(evcon));
	req.evcon = &evcon;
	req.kind = vp_bool() ? EVHTTP_REQUEST : EVHTTP_RESPONSE;
	evcon.max_headers_size = maxh;
	vp_lines_buf = (struct evbuffer *)&vp_inbuf_identity;
	vp_lines_symbolic(0);
	__CPROVER_assume(vp_nlines <= 1);
	vp_residual = (size_t)vp_range(0, 1u << 20);
	vp_line_ok = vp_bool();
	buffered = evbuffer_get_length(vp_lines_buf);

	st = evhttp_parse_firstline_(&req, vp_lines_buf);

	if (vp_nlines == 0) {
		VP_ASSERT(st == MORE_DATA_EXPECTED || st == DATA_TOO_LONG, "C25: without a complete line: more data or too long");
		VP_ASSERT((st == DATA_TOO_LONG) == (buffered > maxh), "C25: an incomplete first line is given up exactly when more than max_headers_size bytes are buffered");
		if (st == DATA_TOO_LONG) VP_WITNESS("incomplete first line beyond the limit refused");
		else VP_WITNESS("incomplete first line within the limit");
	} else {
		if (st == ALL_DATA_READ) {
			VP_ASSERT(vp_line_len[0] <= maxh, "C25: first line longer than max_headers_size accepted");
			VP_ASSERT(req.headers_size == vp_line_len[0], "C25: first line accounted in headers_size");
			VP_WITNESS("first line within the limit accepted");
		}
		VP_ASSERT((st == DATA_TOO_LONG) == (vp_line_len[0] > maxh), "C25: first line reported too long exactly when it exceeds max_headers_size");
		if (st == DATA_TOO_LONG) VP_WITNESS("first line beyond the limit refused");
	}
}
#else
void harness_limit(void)
{
	struct evhttp_request req;
	struct evhttp_connection evcon;
	struct evkeyvalq in_headers;
	enum message_read_status st;
	size_t maxh = vp_size(), h0 = vp_size(), i, sum = 0, residual;
	memset(&req, 0, sizeof(req));
	memset(&evcon, 0, sizeof(evcon));
	TAILQ_INIT(&in_headers);
	req.input_headers = &in_headers;
	req.evcon = &evcon;
	req.kind = EVHTTP_REQUEST;
	evcon.bufev = &vp_bev;
	evcon.max_headers_size = maxh;
	/* invariant of the two parser functions: what has been accounted so far is within the limit;
	 * and it is an amount of bytes that was really received (far below SIZE_MAX) */
	__CPROVER_assume(h0 <= maxh && h0 <= ((size_t)1 << 48));
	req.headers_size = h0;
	vp_lines_buf = (struct evbuffer *)&vp_inbuf_identity;
	vp_lines_symbolic(0);
	residual = (size_t)vp_range(0, 1u << 20);
	vp_residual = residual;

	st = evhttp_parse_headers_(&req, vp_lines_buf);

	for (i = 0; i < VP_L; i++)
		if (i < vp_line_next) sum += vp_line_len[i];
	VP_ASSERT(st == ALL_DATA_READ || st == MORE_DATA_EXPECTED || st == DATA_CORRUPTED || st == DATA_TOO_LONG, "C25: status of evhttp_parse_headers_");
	if (st == ALL_DATA_READ || st == MORE_DATA_EXPECTED) {
		VP_ASSERT(req.headers_size == h0 + sum, "C25: headers_size accounts exactly the bytes of the lines consumed");
		VP_ASSERT(req.headers_size <= maxh, "C25: header section beyond max_headers_size accepted / kept waiting for");
		if (st == MORE_DATA_EXPECTED)
			VP_ASSERT(req.headers_size + evbuffer_get_length(vp_lines_buf) <= maxh, "C25: incomplete header section already beyond max_headers_size is still waited for");
		if (st == ALL_DATA_READ && sum > 0) VP_WITNESS("header section within the limit complete");
		if (st == MORE_DATA_EXPECTED && vp_line_next == VP_L) VP_WITNESS("all lines consumed, more expected");
	}
	if (st == DATA_TOO_LONG) {
		/* no false alarm: the bytes seen so far really exceed the limit */
		size_t unread = 0;
		for (i = 0; i < VP_L; i++)
			if (i >= vp_line_next && i < vp_nlines) unread += vp_line_len[i] + vp_line_term[i];
		VP_ASSERT(h0 + sum + unread + residual > maxh, "C25: DATA_TOO_LONG although everything received fits max_headers_size");
		VP_WITNESS("header section beyond the limit refused");
	}
	evhttp_clear_headers(&in_headers);
}
#endif
