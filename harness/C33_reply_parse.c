/* C33 (2): evdns.c:reply_parse -> reply_handle -> reply_schedule_callback -> reply_run_callback on a
 * fully symbolic reply, one pending request (A, AAAA or PTR; with or without DNS_CNAME_CALLBACK).
 *
 * Compositional (DESIGN 3.8): name_parse is replaced by its contract (verified by the name_parse
 * obligations of this property): fails, or advances the index into (idx, length] and yields a
 * NUL-terminated text; every answer is logged and the reference walk below consumes the same log.
 * Below reply_handle the request life cycle (C34's subject) is cut to recorders: request_finished,
 * nameserver_up/failed, request_reissue, the timeout path, TCP retransmission, search; the deferred
 * callback is "run" by the harness calling the real reply_run_callback.
 * Objects are exact-size (reply = last `length` octets of a C33R_L-byte object); the allocator counts
 * live objects (leak check) and, with -DC33R_ALLOC_FAIL, may fail at any call.
 *
 * Reference: RFC 1035 4.1 walk of header, questions, answer RRs (and authority when nothing was
 * answered), collecting for the queried type the addresses / PTR target and the minimum TTL.
 */
#define VP_LOCKS_OFF 1
#define VP_HAVE_EVENT_C 1
#include "vp.h"
#include "log_stub.h"
#include "alloc.h"
#include "locks.h"
#include "dns_env.h"
#include "evdns.c"
#include "dns_ref.h"

#ifndef C33R_L
#define C33R_L 32
#endif
#ifndef C33R_TEXT
#define C33R_TEXT 3
#endif
#define C33R_NPMAX ((C33R_L - 12) / 5 * 2 + 6)
#define C33R_ADDRMAX ((C33R_L - 12) / 4 + 1)

/* ---------------- allocator ---------------- */
int c33r_live, c33r_fail_enabled, c33r_failed;
static int c33r_fail(void)
{
#ifdef C33R_ALLOC_FAIL
	if (c33r_fail_enabled && vp_bool()) { c33r_failed++; return 1; }
#endif
	return 0;
}
void *event_mm_malloc_(size_t sz)
{
	void *p;
	if (sz == 0) return NULL;
	if (c33r_fail()) return NULL;
	/* the only malloc on these paths: reply.data.raw = mm_malloc(MAX(length - j, EVDNS_NAME_MAX)) */
	VP_ASSERT(sz == EVDNS_NAME_MAX, "harness: unexpected allocation size (reply data is 255 bytes for replies < 255)");
	p = malloc(EVDNS_NAME_MAX);
	__CPROVER_assume(p != NULL);
	c33r_live++;
	return p;
}
char *event_mm_strdup_(const char *s)
{
	char *p; int i;
	if (c33r_fail()) return NULL;
	p = malloc(C33R_TEXT + 1);
	__CPROVER_assume(p != NULL);
	for (i = 0; i <= C33R_TEXT; i++) p[i] = s[i]; /* oracle texts are NUL-padded to C33R_TEXT+1 */
	c33r_live++;
	return p;
}
void *event_mm_calloc_(size_t a, size_t b) { (void)a; (void)b; VP_ASSERT(0, "harness: calloc not expected"); return NULL; }
void *event_mm_realloc_(void *p, size_t n) { (void)p; (void)n; VP_ASSERT(0, "harness: realloc not expected"); return NULL; }
void event_mm_free_(void *p) { if (p) c33r_live--; free(p); }

/* ---------------- name oracle ---------------- */
struct c33r_np { int start, ok, end, on_reply; };
static struct c33r_np c33r_log[C33R_NPMAX];
static char c33r_text[C33R_NPMAX][C33R_TEXT + 1];
static int c33r_np_n;
static u8 *c33r_packet; static int c33r_length;
static struct request *c33r_req;
int c33r_name_parse_contract(u8 *packet, int length, int *idx, char *name_out, int name_out_len)
{
	struct c33r_np *e; int n, i, k = c33r_np_n;
	VP_ASSERT((packet == c33r_packet && length == c33r_length) ||
	    (packet == c33r_req->request && length == (int)c33r_req->request_len), "C33: name_parse called on something other than the reply or the pending query");
	VP_ASSERT(*idx >= 0, "C33: name_parse called with a negative index");
	VP_ASSERT(name_out_len >= EVDNS_NAME_MAX, "C33: name buffer smaller than a maximal name");
	VP_ASSERT(name_out != NULL, "C33: name_parse called with a NULL output buffer (unchecked allocation)");
	VP_ASSERT(k < C33R_NPMAX, "C33: more names requested than the packet can hold");
	if (k >= C33R_NPMAX || name_out == NULL) { __CPROVER_assume(0); }
	c33r_np_n++;
	e = &c33r_log[k];
	e->start = *idx; e->ok = 0; e->end = -1; e->on_reply = (packet == c33r_packet);
	if (*idx >= length) return -1;
	if (vp_bool()) return -1;
	e->ok = 1;
	e->end = (int)vp_range((uint64_t)(*idx + 1), (uint64_t)length);
	n = (int)vp_range(0, C33R_TEXT);
	for (i = 0; i < C33R_TEXT; i++) { c33r_text[k][i] = i < n ? (char)vp_u8() : 0; name_out[i] = c33r_text[k][i]; }
	c33r_text[k][C33R_TEXT] = 0; name_out[C33R_TEXT] = 0;
	*idx = e->end;
	return 0;
}

/* ---------------- recorders below reply_handle ---------------- */
static int c33r_finished, c33r_ns_up, c33r_ns_failed, c33r_reissue, c33r_timeout, c33r_tcp, c33r_sched;
void c33r_request_finished(struct request *const req, struct request **head, int free_handle)
{ (void)head; (void)free_handle; VP_ASSERT(req == c33r_req, "C33: request_finished on another request"); c33r_finished++; }
void c33r_nameserver_up(struct nameserver *const ns) { (void)ns; c33r_ns_up++; }
void c33r_nameserver_failed(struct nameserver *const ns, const char *msg, int err) { (void)ns; (void)msg; (void)err; c33r_ns_failed++; }
int c33r_request_reissue(struct request *req) { (void)req; c33r_reissue++; return vp_bool(); }
void c33r_timeout_cb(evutil_socket_t fd, short events, void *arg) { (void)fd; (void)events; (void)arg; c33r_timeout++; }
int c33r_retransmit_tcp(struct evdns_request *handle) { (void)handle; c33r_tcp++; return 0; }
int c33r_search_try_next(struct evdns_request *const handle) { (void)handle; VP_ASSERT(0, "harness: no search state, search_try_next must not be reached"); return 1; }
/* deferred callbacks (event.c is not linked) */
static struct event_callback *c33r_deferred; static void *c33r_deferred_arg; static deferred_cb_fn c33r_deferred_fn;
void event_deferred_cb_init_(struct event_callback *cb, ev_uint8_t prio, deferred_cb_fn fn, void *arg)
{ (void)prio; c33r_deferred = cb; c33r_deferred_fn = fn; c33r_deferred_arg = arg; }
int event_deferred_cb_schedule_(struct event_base *b, struct event_callback *cb) { (void)b; VP_ASSERT(cb == c33r_deferred, "C33: scheduled an uninitialised deferred callback"); c33r_sched++; return 1; }
int event_get_priority(const struct event *ev) { (void)ev; return 0; }

/* ---------------- evutil helpers reached from these paths (evutil.c is not linked) ---------------- */
/* ASCII case-insensitive comparison, from its documentation in util.h */
int evutil_ascii_strcasecmp(const char *s1, const char *s2)
{
	int i;
	for (i = 0; ; i++) {
		int a = dnsref_lower((unsigned char)s1[i]), b = dnsref_lower((unsigned char)s2[i]);
		if (a < b) return -1;
		if (a > b) return 1;
		if (a == 0) return 0;
	}
}
/* only used to build log messages */
int evutil_snprintf(char *buf, size_t buflen, const char *format, ...) { (void)format; if (buflen) buf[0] = 0; return 0; }
const char *evutil_format_sockaddr_port_(const struct sockaddr *sa, char *out, size_t outlen) { (void)sa; if (outlen) out[0] = 0; return out; }

/* ---------------- user callback recorder ---------------- */
static int c33r_ucb_calls, c33r_ucb_data_calls, c33r_ucb_cname_calls, c33r_ucb_err, c33r_ucb_type, c33r_ucb_count, c33r_ucb_ttl;
static u8 c33r_ucb_addr[C33R_ADDRMAX * 16 + 16];
static char c33r_ucb_name[C33R_TEXT + 1], c33r_ucb_cname[C33R_TEXT + 1];
static void c33r_user_cb(int result, char type, int count, int ttl, void *addresses, void *arg)
{
	int i; (void)arg;
	c33r_ucb_calls++;
	if (type == DNS_CNAME) {
		c33r_ucb_cname_calls++;
		VP_ASSERT(result == DNS_ERR_NONE && count == 1 && addresses != NULL, "C33: CNAME callback shape");
		for (i = 0; i <= C33R_TEXT; i++) c33r_ucb_cname[i] = ((char *)addresses)[i];
		return;
	}
	c33r_ucb_err = result; c33r_ucb_type = type; c33r_ucb_count = count; c33r_ucb_ttl = ttl;
	if (result == DNS_ERR_NONE) {
		c33r_ucb_data_calls++;
		VP_ASSERT(addresses != NULL, "C33: successful callback without data");
		if (type == DNS_IPv4_A) { for (i = 0; i < C33R_ADDRMAX * 4; i++) if (i < count * 4) c33r_ucb_addr[i] = ((u8 *)addresses)[i]; }
		else if (type == DNS_IPv6_AAAA) { for (i = 0; i < C33R_ADDRMAX * 16; i++) if (i < count * 16) c33r_ucb_addr[i] = ((u8 *)addresses)[i]; }
		else if (type == DNS_PTR) { char *nm = *(char **)addresses; for (i = 0; i <= C33R_TEXT; i++) c33r_ucb_name[i] = nm[i]; }
	} else {
		VP_ASSERT(count == 0 && addresses == NULL, "C33: error callback carries data");
	}
}

/* ---------------- reference walk ---------------- */
static int c33r_used;
static int c33r_ref_name(int off, int on_reply, int *nx, int *logidx)
{
	struct c33r_np *e;
	if (c33r_used >= c33r_np_n) return -1;
	e = &c33r_log[c33r_used];
	if (e->start != off || e->on_reply != on_reply) return -1;
	*logidx = c33r_used++;
	if (!e->ok) return 0;
	*nx = e->end;
	return 1;
}
static int c33r_texteq(int a, int b, int caseless)
{
	int i;
	for (i = 0; i <= C33R_TEXT; i++) {
		int x = (unsigned char)c33r_text[a][i], y = (unsigned char)c33r_text[b][i];
		if (caseless) { x = dnsref_lower(x); y = dnsref_lower(y); }
		if (x != y) return 0;
		if (x == 0) return 1;
	}
	return 1;
}
enum { R_IGNORE = 0, R_ERROR = 1, R_DATA = 2, R_UNKNOWN = 3 };
static int c33r_ref_count, c33r_ref_ptr_log, c33r_ref_ncname, c33r_ref_cname_log; static uint32_t c33r_ref_minttl;
static u8 c33r_ref_addr[C33R_ADDRMAX * 16 + 16];
/* verdict for the reply m[0..len) against the pending request (qtype, id), question text = oracle text of the query */
static int c33r_ref(const u8 *m, int len, unsigned id, unsigned qtype, int caseless)
{
	struct dnsref_hdr h; int off = 12, i, r, nx = 0, li = -1, lq = -1, kq = 0, matched = 0, nbytes = 0, unit;
	c33r_ref_count = 0; c33r_ref_minttl = 0xffffffffu; c33r_ref_ptr_log = -1; c33r_used = 0; c33r_ref_ncname = 0; c33r_ref_cname_log = -1;
	if (dnsref_header(m, len, &h) != DNSREF_OK) return R_IGNORE;
	if (h.id != id) return R_IGNORE;
	if (!h.qr) return R_IGNORE;
	if (h.rcode || h.tc) return R_ERROR; /* server reported an error / truncation: content not used */
	for (i = 0; i < (int)h.qd; i++) {
		if (i > (C33R_L - 12) / 5) return R_UNKNOWN;
		r = c33r_ref_name(off, 1, &nx, &li); if (r < 0) return R_UNKNOWN; if (r == 0) return R_ERROR;
		/* the pending query's own question, read at the same offset as in the reply */
		kq = off; r = c33r_ref_name(kq, 0, &kq, &lq); if (r < 0) return R_UNKNOWN; if (r == 0) return R_ERROR;
		if (c33r_texteq(li, lq, caseless)) matched = 1;
		if (nx + 4 > len) return R_ERROR;
		off = nx + 4;
	}
	if (!matched) return R_ERROR; /* question does not match the pending query: never used */
	unit = qtype == 1 ? 4 : 16;
	for (i = 0; i < (int)h.an; i++) {
		unsigned type, klass, rdlen; uint32_t ttl; int rd;
		if (i > (C33R_L - 12) / 11) return R_UNKNOWN;
		r = c33r_ref_name(off, 1, &nx, &li); if (r < 0) return R_UNKNOWN; if (r == 0) return R_ERROR;
		if (nx + 10 > len) return R_ERROR;
		type = dnsref_u16(m + nx); klass = dnsref_u16(m + nx + 2); ttl = dnsref_u32(m + nx + 4); rdlen = dnsref_u16(m + nx + 8);
		rd = nx + 10;
		if ((type == 1 || type == 28) && klass == 1 && type == qtype) {
			int k2;
			if (rdlen % unit) return R_ERROR;
			if (rd + (int)rdlen > len) return R_ERROR;
			for (k2 = 0; k2 < C33R_L; k2++) if (k2 < (int)rdlen) c33r_ref_addr[nbytes + k2] = m[rd + k2];
			nbytes += (int)rdlen; c33r_ref_count += (int)rdlen / unit;
			if (ttl < c33r_ref_minttl) c33r_ref_minttl = ttl;
			off = rd + (int)rdlen;
		} else if (type == 12 && klass == 1 && qtype == 12) {
			r = c33r_ref_name(rd, 1, &nx, &li); if (r < 0) return R_UNKNOWN; if (r == 0) return R_ERROR;
			c33r_ref_ptr_log = li; c33r_ref_count = 1;
			if (ttl < c33r_ref_minttl) c33r_ref_minttl = ttl;
			return R_DATA; /* the first PTR record answers the query */
		} else if (type == 5) {
			r = c33r_ref_name(rd, 1, &nx, &li); if (r < 0) return R_UNKNOWN; if (r == 0) return R_ERROR;
			c33r_ref_ncname++; c33r_ref_cname_log = li;
			off = nx; /* evdns continues after the decoded name (RDLENGTH is not cross-checked) */
		} else {
			off = rd + (int)rdlen;
		}
	}
	if (c33r_ref_count > 0) return R_DATA;
	return R_UNKNOWN; /* nothing of the queried type: authority walk / NODATA is not modelled -> only generic checks */
}

void harness_reply_parse(void)
{
	u8 *pobj = malloc(C33R_L);
	struct evdns_base *base = calloc(1, sizeof(*base));
	struct request *req = calloc(1, sizeof(*req));
	struct evdns_request *handle = calloc(1, sizeof(*handle));
	struct nameserver *ns = calloc(1, sizeof(*ns));
	struct request *heads[1];
	u8 query[24];
#ifdef C33R_EXACT
	int length = C33R_L, r, verdict, i, qsel = (int)vp_range(0, 2); /* literal length == object size */
#else
	int length = (int)vp_range(0, C33R_L), r, verdict, i, qsel = (int)vp_range(0, 2);
#endif
	unsigned qtype = qsel == 0 ? 1 : qsel == 1 ? 28 : 12;
	u8 *packet;
	__CPROVER_assume(pobj && base && req && handle && ns);
	vp_bytes(pobj, C33R_L);
	packet = pobj + (C33R_L - length);
#ifdef C33R_QD
	/* input bound: section counts (each loop of reply_parse is then unrolled that often) */
	if (length >= 12) {
		__CPROVER_assume(dnsref_u16(packet + 4) <= C33R_QD);
		__CPROVER_assume(dnsref_u16(packet + 6) <= C33R_AN);
		__CPROVER_assume(dnsref_u16(packet + 8) <= C33R_NS);
	}
#endif
	c33r_packet = packet; c33r_length = length; c33r_req = req;
	/* one inflight request */
	heads[0] = req; base->req_heads = heads; base->n_req_heads = 1; base->global_requests_inflight = 1;
	base->global_max_reissues = 1; base->global_randomize_case = vp_bool();
	memset(query, 0, sizeof(query));
	req->request = query; req->request_len = sizeof(query); req->request_type = (u8)qtype;
	req->trans_id = vp_u16(); req->next = req->prev = req; req->base = base; req->handle = handle; req->ns = ns;
	req->need_cname = vp_bool();
	ns->base = base; ns->state = 1;
	handle->current_req = req; handle->base = base; handle->user_callback = c33r_user_cb;
	handle->tcp_flags = (u16)(vp_bool() ? DNS_QUERY_IGNTC : 0);
	c33r_live = 1; /* the handle: released by reply_run_callback */
	c33r_fail_enabled = 1;

	r = reply_parse(base, packet, length);

	c33r_fail_enabled = 0;
	VP_ASSERT(c33r_sched <= 1, "C33: more than one callback scheduled for one reply");
	if (c33r_sched) {
		VP_ASSERT(c33r_finished == 1, "C33: callback scheduled but the request is not finished");
		reply_run_callback(c33r_deferred, c33r_deferred_arg); /* what the event loop does next */
	} else {
		c33r_live--; free(handle); /* still pending (ignored / reissued / timed out / TCP retry): owner keeps it */
	}
	verdict = c33r_ref(packet, length, req->trans_id, qtype, base->global_randomize_case);
	if (verdict == R_IGNORE) {
		VP_ASSERT(r == -1 && c33r_sched == 0 && c33r_finished == 0 && c33r_reissue + c33r_timeout + c33r_tcp + c33r_ns_up + c33r_ns_failed == 0,
		    "C33: a packet with another id / QR=0 / no header affected the pending request");
		VP_WITNESS("foreign packet ignored");
	}
	if (c33r_ucb_data_calls) {
		VP_ASSERT(verdict == R_DATA || verdict == R_UNKNOWN, "C33: data delivered from a reply that must not be used (id/QR/question mismatch, error rcode, malformed)");
		VP_ASSERT(c33r_ucb_type == (qtype == 1 ? DNS_IPv4_A : qtype == 28 ? DNS_IPv6_AAAA : DNS_PTR), "C33: callback type != query type");
	}
	if (verdict == R_DATA && c33r_failed == 0) {
		VP_ASSERT(c33r_ucb_data_calls == 1 && c33r_ucb_calls == 1 + c33r_ucb_cname_calls, "C33: usable answer not delivered exactly once");
		if (c33r_ucb_data_calls == 1) {
			VP_ASSERT(c33r_ucb_count == c33r_ref_count, "C33: number of addresses delivered != addresses of the queried type in the answer section");
			VP_ASSERT((uint32_t)c33r_ucb_ttl <= c33r_ref_minttl, "C33: TTL delivered larger than the minimum TTL of the records used");
			if (qtype == 12) {
				for (i = 0; i <= C33R_TEXT; i++) VP_ASSERT(c33r_ucb_name[i] == c33r_text[c33r_ref_ptr_log][i], "C33: PTR name delivered != PTR target in the answer");
				VP_WITNESS("PTR answer delivered");
			} else {
				int unit = qtype == 1 ? 4 : 16;
				for (i = 0; i < C33R_L; i++) if (i < c33r_ref_count * unit) VP_ASSERT(c33r_ucb_addr[i] == c33r_ref_addr[i], "C33: address bytes delivered != answer records");
				if (qtype == 1) VP_WITNESS("A answer delivered");
#if C33R_L >= 44
				else VP_WITNESS("AAAA answer delivered");
#endif
			}
			if (c33r_ucb_cname_calls) {
				VP_ASSERT(req->need_cname && c33r_ref_ncname >= 1, "C33: CNAME reported without request / without a CNAME record");
				if (c33r_ref_ncname == 1)
					for (i = 0; i <= C33R_TEXT; i++) VP_ASSERT(c33r_ucb_cname[i] == c33r_text[c33r_ref_cname_log][i], "C33: CNAME delivered != CNAME target in the answer");
#if C33R_L >= 44
				VP_WITNESS("CNAME reported with the addresses");
#endif
			}
		}
	}
	if (verdict == R_ERROR) {
		VP_ASSERT(c33r_ucb_data_calls == 0, "C33: data delivered from an erroneous / mismatching reply");
		if (c33r_ucb_calls) VP_WITNESS("error delivered");
	}
	VP_ASSERT(c33r_ucb_calls <= 2, "C33: more than two user callbacks (answer + CNAME) for one reply");
#ifndef C33R_KF_EXCLUDE_CNAME_LEAK
	VP_ASSERT(c33r_live == 0, "C33: memory leaked by reply_parse/reply_handle (reply data or CNAME string)");
#else
	/* finding C33-cname-leak: decided without this define; here only the reply data buffer */
	if (!req->need_cname) VP_ASSERT(c33r_live == 0, "C33: reply data leaked");
#endif
	free(pobj); free(base); free(req); free(ns);
}
