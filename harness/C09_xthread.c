/* C09 -- cross-thread calls, the SEQUENTIAL half of the protocol, on the real event.c/evmap.c.
 *
 * Not decided here (stated in OUT): data-race freedom under real interleavings.  What one thread does between
 * two lock operations is executed atomically by this harness; "the other thread" runs at the two points where
 * the loop thread has released the base lock: while it waits in the back end's dispatch (harness_wakeup) and
 * while it runs a user callback (harness_delwait).  vp_cur_thread selects the thread id the library sees.
 *
 * (i)  lock discipline: lock debugging is reported enabled and evthread_is_debug_lock_held_() answers from the
 *      monitor of env/locks.h, so every EVENT_BASE_ASSERT_LOCKED in event.c/evmap.c is a proof obligation on every
 *      path of both harnesses, together with the monitor's own assertions (unlock of an unheld lock, re-entry,
 *      condition wait without the lock).
 * (ii) no lost wake-up (harness_wakeup): loop thread 1 sits in dispatch with timeout `tv` (recorded); thread 2
 *      makes ONE call (-DC09_OP) on a target event E (kind/state per obligation).  Oracle, written from what the
 *      loop is waiting for and not from the code:
 *        a wake-up is NEEDED when the call (a) made a callback active that was not, (b) gave some event a deadline
 *        earlier than the instant the loop sleeps until, (c) changed the fd/signal set registered with the back end,
 *        (d) removed the last event, so the loop has nothing to wait for, (e) asked the loop to break/continue/exit.
 *      Asserted: NEEDED => th_notify_fn was called during the call, or is_notify_pending was already set.
 *      And the "exactly" side where it is unambiguous: calls that change nothing (event_pending, getters, del of a
 *      non-pending event, activating an already active event) and calls made by the loop thread itself do NOT notify.
 * (iii) del waits (harness_delwait): thread 1 runs E's callback (real event_process_active_single_queue, lock
 *      released); from inside it thread 2 calls event_del / event_del_block / event_del_noblock (or, for a signal
 *      event, event_add / event_active) on E.  The condition wait cannot block a sequential execution, so the monitor
 *      hook records it: the wait must happen exactly in the cases the contract names (BLOCK always, AUTOBLOCK unless
 *      EV_FINALIZE, NOBLOCK never; never for the loop thread itself -- it would wait for itself; never for an event
 *      that is not running), with the base lock held exactly once (a condition wait releases one level) and
 *      current_event_waiters counting the waiter.  After the callback has returned the loop must broadcast
 *      current_event_cond exactly once, with current_event already cleared -- and not before: with a condition
 *      variable that wakes only on signal/broadcast (assumption) the deleting thread therefore resumes only after
 *      the callback finished.
 */
#include "event_struct_nounion.h"   /* unions of struct event laid out as structs, see that header */
#include "vp.h"
#include "log_stub.h"
#include "locks.h"
#define VP_HAVE_EVENT_C
#include "alloc.h"
#include "event.c"
#include "evmap.c"
#include "evbase.h"

#define K_IO 0
#define K_TIMER 1
#define K_SIG 2
#define K_IO_FIN 3      /* I/O event created with EV_FINALIZE */
#ifndef C09_KIND
#define C09_KIND K_IO
#endif
#ifndef C09_ST          /* 0 assigned only, 1 added with a 2 s timeout, 2 added and active */
#define C09_ST 1
#endif
#ifndef C09_THREAD      /* who makes the call: 2 = another thread, 1 = the loop thread itself */
#define C09_THREAD 2
#endif

#define OP_ADD 0
#define OP_DEL 1
#define OP_DEL_BLOCK 2
#define OP_DEL_NOBLOCK 3
#define OP_ACTIVE 4
#define OP_LOOPBREAK 5
#define OP_LOOPCONTINUE 6
#define OP_LOOPEXIT 7
#define OP_DEFERRED 8
#define OP_DEL_VIRTUAL 9
#define OP_ACTIVE_LATER 10
#define OP_ONCE 11
#define OP_NOOP 12
#define OP_DEL_OTHER 13     /* delwait only: delete R, which is not running */
#define OP_DEL_LAST 14      /* wakeup only: E is the only event of the base */
#define OP_ADD_VIRTUAL 15
#ifndef C09_OP
#define C09_OP OP_ACTIVE
#endif

static struct event_base *base;
static struct event T, R, E;
static struct event_callback DCB;
static int ncb_T, ncb_R, ncb_E, ncb_once, ncb_self;
static int op_done;
static const struct timeval *g_tvp;
static const struct timeval tv_0 = { 0, 0 }, tv_1 = { 1, 0 }, tv_7 = { 7, 250000 };
static int g_ch;

/* typed allocation (see C08_event_api.c); no faults in this property */
void *c09_malloc(size_t sz)
{
	void *p;
	if (sz == sizeof(struct event)) p = malloc(sizeof(struct event));
	else if (sz == sizeof(struct event_once)) p = malloc(sizeof(struct event_once));
	else if (sz == sizeof(struct evmap_io)) p = malloc(sizeof(struct evmap_io));
	else if (sz == sizeof(struct evmap_signal)) p = malloc(sizeof(struct evmap_signal));
	else p = malloc(sz);
	__CPROVER_assume(p != NULL);
	return p;
}
void *c09_realloc(void *old, size_t sz) { void *p = realloc(old, sz); __CPROVER_assume(p != NULL); return p; }
void c09_free(void *p) { free(p); }

void cb(evutil_socket_t fd, short res, void *arg);
static int mode;     /* 1 = harness_wakeup, 2 = harness_delwait */
static int tv_lt(struct timeval a, struct timeval b) { return a.tv_sec < b.tv_sec || (a.tv_sec == b.tv_sec && a.tv_usec < b.tv_usec); }
static struct timeval tv_add(struct timeval a, struct timeval b)
{
	struct timeval r; r.tv_sec = a.tv_sec + b.tv_sec; r.tv_usec = a.tv_usec + b.tv_usec;
	if (r.tv_usec >= 1000000) { r.tv_sec++; r.tv_usec -= 1000000; }
	return r;
}

#ifndef C09_MODE        /* 1 = harness_wakeup, 2 = harness_delwait */
#define C09_MODE 1
#endif
#ifndef C09_EXPECT      /* wakeup: 1 a needed wake-up is reachable, 2 a forbidden one, 0 neither;  delwait: 1 the call must wait, 0 must not */
#define C09_EXPECT 0
#endif
#if C09_MODE == 1
/* ================================ (ii) wake-up ============================================== */
static int wait_forever; static struct timeval wait_until;   /* what the loop thread sleeps for */
static int e_was_active, e_was_added;
static int e_deleted;         /* event_del(E) has returned (and E was not re-added since) */

static void other_thread_call(void)
{
	int n0 = vp_notify_calls, pend0 = base->is_notify_pending;
	int add0 = vp_be_add_calls + vp_sig_add_calls, del0 = vp_be_del_calls + vp_sig_del_calls;
	int needed = 0, forbidden = 0, r = 0;
	int notified;
	e_was_added = (E.ev_flags & (EVLIST_INSERTED | EVLIST_TIMEOUT)) != 0;
	e_was_active = (E.ev_flags & (EVLIST_ACTIVE | EVLIST_ACTIVE_LATER)) != 0;
#if C09_OP == OP_ADD
	r = event_add(&E, g_tvp);
	VP_ASSERT(r == 0, "harness: add succeeds (no faults here)");
	if (g_tvp) { struct timeval d = tv_add(vp_now, *g_tvp); if (wait_forever || tv_lt(d, wait_until)) needed = 1; }
	if (vp_be_add_calls + vp_sig_add_calls != add0) needed = 1;
#elif C09_OP == OP_DEL || C09_OP == OP_DEL_BLOCK || C09_OP == OP_DEL_NOBLOCK || C09_OP == OP_DEL_LAST
#if C09_OP == OP_DEL_BLOCK
	r = event_del_block(&E);
#elif C09_OP == OP_DEL_NOBLOCK
	r = event_del_noblock(&E);
#else
	r = event_del(&E);
#endif
	VP_ASSERT(r == 0, "harness: del succeeds");
	e_deleted = 1;
	if (vp_be_del_calls + vp_sig_del_calls != del0) needed = 1;
	if (event_base_get_num_events(base, EVENT_BASE_COUNT_ADDED | EVENT_BASE_COUNT_VIRTUAL | EVENT_BASE_COUNT_ACTIVE) == 0 && (e_was_added || e_was_active)) needed = 1;
	if (!e_was_added && !e_was_active) forbidden = 1;      /* nothing was pending: nothing changed */
#elif C09_OP == OP_ACTIVE
	event_active(&E, EV_READ, 1);
	if (!e_was_active) needed = 1; else forbidden = 1;
#elif C09_OP == OP_ACTIVE_LATER
	event_active_later_(&E, EV_READ);
	if (!e_was_active) needed = 1;
#elif C09_OP == OP_LOOPBREAK
	r = event_base_loopbreak(base); VP_ASSERT(r == 0, "loopbreak reports success"); needed = 1;
#elif C09_OP == OP_LOOPCONTINUE
	r = event_base_loopcontinue(base); VP_ASSERT(r == 0, "loopcontinue reports success"); needed = 1;
#elif C09_OP == OP_LOOPEXIT
	r = event_base_loopexit(base, g_tvp); VP_ASSERT(r == 0, "loopexit reports success");
	if (!g_tvp || (g_tvp->tv_sec == 0 && g_tvp->tv_usec == 0)) needed = 1;
	else { struct timeval d = tv_add(vp_now, *g_tvp); if (wait_forever || tv_lt(d, wait_until)) needed = 1; }
#elif C09_OP == OP_ONCE
	if (g_ch == 0) {
		r = event_base_once(base, -1, EV_TIMEOUT, cb, NULL, g_tvp);
		if (!g_tvp || (g_tvp->tv_sec == 0 && g_tvp->tv_usec == 0)) needed = 1;
		else { struct timeval d = tv_add(vp_now, *g_tvp); if (wait_forever || tv_lt(d, wait_until)) needed = 1; }
	} else {
		r = event_base_once(base, 6, EV_READ, cb, NULL, g_tvp);
		needed = 1;                                      /* a new fd for the back end */
	}
	VP_ASSERT(r == 0, "harness: once succeeds");
#elif C09_OP == OP_DEFERRED
	r = event_deferred_cb_schedule_(base, &DCB);
	VP_ASSERT(r == 1, "deferred callback newly scheduled");
	needed = 1;
#if C09_THREAD == 2
	VP_ASSERT(vp_notify_calls > n0 || pend0, "C09: lost wake-up: deferred callback scheduled from another thread, loop not notified");
#endif
	n0 = vp_notify_calls; pend0 = base->is_notify_pending;
	r = event_deferred_cb_schedule_(base, &DCB);       /* already scheduled: nothing changes */
	VP_ASSERT(r == 0, "deferred callback already scheduled");
	needed = 0; forbidden = 1;
#elif C09_OP == OP_DEL_VIRTUAL
	event_base_del_virtual_(base);
	if (event_base_get_num_events(base, EVENT_BASE_COUNT_ADDED | EVENT_BASE_COUNT_VIRTUAL | EVENT_BASE_COUNT_ACTIVE) == 0) needed = 1;
#elif C09_OP == OP_ADD_VIRTUAL
	event_base_add_virtual_(base);
	forbidden = 1;                                      /* the loop keeps waiting for what it waited for */
#elif C09_OP == OP_NOOP
	{
		struct timeval tv;
		(void)event_pending(&E, EV_READ | EV_WRITE | EV_TIMEOUT | EV_SIGNAL, &tv);
		(void)event_base_get_num_events(base, EVENT_BASE_COUNT_ADDED);
		(void)event_base_got_break(base);
		(void)event_base_gettimeofday_cached(base, &tv);
		(void)event_priority_set(&E, 0);
		forbidden = 1;
	}
#else
#error "C09_OP not usable in harness_wakeup"
#endif
	VP_ASSERT_NO_LOCKS("cross-thread call");
	notified = (vp_notify_calls > n0);
#if C09_THREAD == 2
	if (needed) {
		VP_ASSERT(notified || pend0, "C09: lost wake-up: the call changed what the loop waits for but th_notify_fn was not invoked and no notification was pending");
		VP_ASSERT(base->is_notify_pending, "C09: is_notify_pending is set after a notification");
#if C09_EXPECT == 1
		VP_WITNESS("wake-up needed and delivered");
#endif
	}
	if (forbidden) {
		VP_ASSERT(!notified, "C09: the call changed nothing the loop waits for, yet it was woken");
#if C09_EXPECT == 2
		VP_WITNESS("nothing changed, no wake-up");
#endif
	}
	VP_WITNESS("cross-thread call checked");
#else
	VP_ASSERT(!notified, "C09: the loop thread notified itself");
	VP_WITNESS("call made by the loop thread, no wake-up");
#endif
	(void)r;
}
#endif

/* ================================ (iii) del waits ========================================== */
static int modelled_finish;
static int in_cb_E;                 /* E's callback is executing (loop thread, lock released) */
static int waits_in_cb, bcast_at_cb_end = -1, wait_depth_ok = 1, wait_counted = 1, wait_current_ok = 1;
void c09_cond_wait_hook(void *cond, void *lock)
{
	struct vp_lock *l = lock;
	VP_ASSERT(cond == base->current_event_cond && lock == base->th_base_lock, "C09: waits on current_event_cond with th_base_lock");
	VP_ASSERT(in_cb_E, "C09: a thread waits for a callback although none is running");
	VP_ASSERT(vp_cur_thread != base->th_owner_id, "C09: the loop thread waits for its own callback (self-deadlock)");
	if (l->depth != 1) wait_depth_ok = 0;
	if (base->current_event_waiters < 1) wait_counted = 0;
	if (base->current_event != event_to_event_callback(&E)) wait_current_ok = 0;
	waits_in_cb++;
#if C09_MODE == 3
	/* POSIX lets pthread_cond_wait return spuriously: the FIRST wait returns with nothing changed.  Any further
	 * wait ends the way harness_delwait proves the loop ends it: callback finished, current_event cleared,
	 * waiters reset, broadcast. */
	if (waits_in_cb >= 2) { base->current_event = NULL; base->current_event_waiters = 0; modelled_finish = 1; }
#else
	/* A library that re-checks current_event in a loop around the wait (fixes/C09-del-wait-loop.diff) comes back here,
	 * because this sequential wait returned with the callback still current.  The second wait is then ended the way a
	 * real one ends: the callback is over (current_event cleared).  The waiter stays counted, so the loop's real
	 * broadcast is still demanded below.  Not reachable with a single `if`-guarded wait. */
	if (waits_in_cb >= 2) { base->current_event = NULL; modelled_finish = 1; }
#endif
	/* (sequential execution: the wait returns; the broadcast that would end it is checked after the loop) */
}

#if C09_MODE == 3
/* a spurious wake-up of the condition wait must be re-checked (fixes/C09-del-wait-loop.diff: `while`, not `if`) */
static void delwait_call(void)
{
	int r;
	vp_cur_thread = 2;
#if C09_OP == OP_DEL_BLOCK
	r = event_del_block(&E);
#else
	r = event_del(&E);
#endif
	vp_cur_thread = 1;
	VP_ASSERT_NO_LOCKS("call made while the callback runs");
	VP_ASSERT(waits_in_cb >= 1, "C09: the call waited for the running callback");
	VP_ASSERT(base->current_event != event_to_event_callback(&E),
	    "C09: event_del returned in another thread while the event's callback is still running (condition wait woke up spuriously and is not re-checked)");
	VP_WITNESS("event_del returned after a spurious wake-up");
	(void)r;
}
#endif
#if C09_MODE == 2
static void delwait_call(void)
{
	int w0 = vp_cond_waits, expect_wait = 0, r = 0;
	vp_cur_thread = C09_THREAD;
#if C09_OP == OP_DEL
	r = event_del(&E);
	expect_wait = (C09_THREAD != 1) && (C09_KIND != K_IO_FIN);
	VP_ASSERT(((E.ev_events & EV_FINALIZE) != 0) == (C09_KIND == K_IO_FIN), "harness: EV_FINALIZE as configured");
#elif C09_OP == OP_DEL_BLOCK
	r = event_del_block(&E);
	expect_wait = (C09_THREAD != 1);
#elif C09_OP == OP_DEL_NOBLOCK
	r = event_del_noblock(&E);
	expect_wait = 0;
#elif C09_OP == OP_DEL_OTHER
	r = event_del_block(&R);                             /* R is not the running event */
	expect_wait = 0;
#elif C09_OP == OP_ADD
	r = event_add(&E, g_tvp);                            /* signal events: add waits for the running callback (ev_ncalls guard) */
	expect_wait = (C09_THREAD != 1) && (C09_KIND == K_SIG);
#elif C09_OP == OP_ACTIVE
	event_active(&E, EV_SIGNAL, 1);
	expect_wait = (C09_THREAD != 1) && (C09_KIND == K_SIG);
#else
#error "C09_OP not usable in harness_delwait"
#endif
	vp_cur_thread = 1;
	VP_ASSERT_NO_LOCKS("call made while the callback runs");
	VP_ASSERT(expect_wait == C09_EXPECT, "harness: expectation table of props/C09.py agrees with the contract");
#if C09_EXPECT == 1
	{
		VP_ASSERT(vp_cond_waits >= w0 + 1, "C09: the call returned without waiting for the running callback of its event");
		VP_ASSERT(vp_cond_waits <= w0 + 2, "harness: at most one re-check of the wait");
		VP_ASSERT(wait_depth_ok, "C09: condition wait with the base lock held more than once (the wait releases one level only)");
		VP_ASSERT(wait_counted, "C09: waiter not counted in current_event_waiters (the loop would not broadcast)");
		VP_ASSERT(wait_current_ok, "C09: waited while another callback was current");
		VP_WITNESS("the call waited on current_event_cond");
	}
#else
	{
		VP_ASSERT(vp_cond_waits == w0, "C09: the call waited although its contract says it does not block here");
		VP_WITNESS("the call did not wait");
	}
#endif
	(void)r;
}
#endif

/* ================================ common scaffolding ======================================== */
void cb(evutil_socket_t fd, short res, void *arg)
{
	(void)fd; (void)res;
	VP_ASSERT(vp_locks_held() == 0, "C09: user callback entered with an internal lock held");
	if (arg == &T) ncb_T++;
	else if (arg == &R) ncb_R++;
	else if (arg == &E) {
		ncb_E++;
#if C09_MODE == 1
		VP_ASSERT(!e_deleted, "C09: the event's callback started after event_del had returned in the other thread");
#endif
#if C09_MODE == 2 || C09_MODE == 3
		if (!op_done && mode == 2) {
			op_done = 1;
			VP_ASSERT(base->current_event == event_to_event_callback(&E), "harness: E is the current event");
			in_cb_E = 1;
			delwait_call();
			in_cb_E = 0;
			bcast_at_cb_end = vp_cond_broadcasts;
		}
#endif
#if C09_THREAD == 1 && C09_MODE == 1
		if (!op_done && mode == 1) { op_done = 1; other_thread_call(); }
#endif
	} else ncb_once++;
}
void self_cb(struct event_callback *evcb, void *arg) { (void)evcb; (void)arg; ncb_self++; }

static int ndispatch;
static int c09_dispatch(struct event_base *b, struct timeval *tv)
{
	ndispatch++;
	EVBASE_RELEASE_LOCK(b, th_base_lock);
	VP_ASSERT(vp_locks_held() == 0, "C09: the loop thread waits in the back end with the base lock released");
#if C09_THREAD == 2 && C09_MODE == 1
	if (mode == 1 && !op_done) {
		op_done = 1;
		wait_forever = (tv == NULL);
		if (tv) wait_until = tv_add(vp_now, *tv);
		vp_cur_thread = 2;
		other_thread_call();
		vp_cur_thread = 1;
		EVBASE_ACQUIRE_LOCK(b, th_base_lock);
		return 0;                       /* (woken up or not: the loop goes round) */
	}
#endif
	if (tv == NULL) { EVBASE_ACQUIRE_LOCK(b, th_base_lock); return -1; }   /* would sleep forever: end the scenario */
	vp_now = tv_add(vp_now, *tv);
	EVBASE_ACQUIRE_LOCK(b, th_base_lock);
	return 0;
}
static const struct eventop c09_ops = { "c09", vp_be_init, vp_be_add, vp_be_del, c09_dispatch, vp_be_dealloc, 0, EV_FEATURE_FDS, 0 };

#ifndef C09_BASE        /* 0: T, R and E;  1: E only;  2: one virtual event only */
#define C09_BASE 0
#endif
static void setup(int e_state)
{
	struct timeval t5 = { 5, 0 }, t2 = { 2, 0 };
	int r;
	base = vp_base_new_ops(2, 1, &c09_ops);
	event_set_mem_functions(c09_malloc, c09_realloc, c09_free);
	event_assign(&T, base, -1, 0, cb, &T);
	event_assign(&R, base, 3, EV_READ | EV_PERSIST, cb, &R);
#if C09_KIND == K_IO
	event_assign(&E, base, 4, EV_READ | EV_WRITE, cb, &E);
#elif C09_KIND == K_IO_FIN
	event_assign(&E, base, 4, EV_READ | EV_FINALIZE, cb, &E);
#elif C09_KIND == K_TIMER
	event_assign(&E, base, -1, 0, cb, &E);
#else
	event_assign(&E, base, 2, EV_SIGNAL | EV_PERSIST, cb, &E);
#endif
	event_deferred_cb_init_(&DCB, 1, self_cb, NULL);
#if C09_BASE == 0
	r = event_add(&T, &t5); __CPROVER_assume(r == 0);
	r = event_add(&R, NULL); __CPROVER_assume(r == 0);
#elif C09_BASE == 2
	event_base_add_virtual_(base);
#endif
#if C09_BASE != 2
	if (e_state >= 1) { r = event_add(&E, (C09_BASE == 1 && C09_KIND != K_TIMER) ? NULL : &t2); __CPROVER_assume(r == 0); }
	if (e_state == 2) event_active(&E, (C09_KIND == K_SIG) ? EV_SIGNAL : EV_READ, 1);
#endif
	VP_ASSERT_NO_LOCKS("setup");
	VP_ASSERT(vp_notify_calls == 0, "no loop is running: nobody to notify");
}

#ifdef C09_USE_TV
#define PICK_TV(stmt) do { int c_ = (int)vp_range(0, 3); \
	if (c_ == 0) { g_tvp = NULL; stmt; } else if (c_ == 1) { g_tvp = &tv_0; stmt; } \
	else if (c_ == 2) { g_tvp = &tv_1; stmt; } else { g_tvp = &tv_7; stmt; } } while (0)
#else
#define PICK_TV(stmt) do { g_tvp = &tv_1; stmt; } while (0)
#endif
#define PICK_CH(stmt) do { if (vp_bool()) { g_ch = 0; stmt; } else { g_ch = 1; stmt; } } while (0)

#if C09_MODE == 1
static void wakeup_scenario(void)
{
	int r = event_base_loop(base, EVLOOP_ONCE);
	(void)r;
	VP_ASSERT(op_done, "harness: the cross-thread call was made");
	VP_ASSERT_NO_LOCKS("event_base_loop");
}
void harness_wakeup(void)
{
	mode = 1;
#if C09_THREAD == 1
	setup(2);           /* the loop thread makes the call from inside E's callback */
#else
	setup(C09_ST);
#endif
	PICK_TV(PICK_CH(wakeup_scenario()));
	VP_WITNESS("end of harness");
}

#elif C09_MODE == 3
void harness_delwait_spurious(void)
{
	int r;
	mode = 2;
	setup(2);
	vp_cond_wait_hook = c09_cond_wait_hook;
	r = event_base_loop(base, EVLOOP_ONCE);
	(void)r;
	VP_ASSERT(op_done && ncb_E >= 1, "harness: E's callback ran and made the call");
	VP_ASSERT_NO_LOCKS("event_base_loop");
	VP_WITNESS("end of harness");
}
#else
void harness_delwait(void)
{
	int r;
	mode = 2;
	setup(2);
	vp_cond_wait_hook = c09_cond_wait_hook;
	PICK_TV((r = event_base_loop(base, EVLOOP_ONCE)));
	VP_ASSERT(op_done && ncb_E >= 1, "harness: E's callback ran and made the call");
	VP_ASSERT_NO_LOCKS("event_base_loop");
	VP_ASSERT(base->current_event == NULL, "C09: current_event cleared after the callback");
	VP_ASSERT(base->current_event_waiters == 0, "C09: no waiter left registered");
	VP_ASSERT((waits_in_cb != 0) == C09_EXPECT, "C09: waited exactly when the contract says so");
#if C09_EXPECT == 1
	{
		VP_ASSERT(bcast_at_cb_end == 0, "C09: current_event_cond broadcast before the callback had finished");
		VP_ASSERT(vp_cond_broadcasts == 1, "C09: a thread waits in event_del for the callback, but the loop did not broadcast current_event_cond exactly once after it");
		VP_WITNESS("waiter released by one broadcast after the callback");
	}
#else
	{
		VP_ASSERT(vp_cond_broadcasts == 0, "C09: broadcast without a waiter");
		VP_WITNESS("no waiter, no broadcast");
	}
#endif
	VP_WITNESS("end of harness");
}
#endif
