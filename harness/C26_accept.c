/* C26 (b): what the API accepts.  The real evhttp_add_header() (+
 * evhttp_header_is_valid_value, evhttp_add_header_internal),
 * evhttp_response_code_() and evhttp_make_request() on symbolic strings:
 * whatever they accept and store is "safe" to embed verbatim in the message
 * format (ref_safe_* in ref/http_ref.h; C26_lemma.c decides that safe
 * components parse back to themselves), is stored unchanged, and ordinary
 * values are not refused.
 *   -DVP_ACC_HEADER | -DVP_ACC_REASON | -DVP_ACC_TARGET
 */
#include "vp.h"
#include "log_stub.h"
#include "http_fmt.h"
#include "http_alloc.h"
#include "http_evutil.h"
#include "http.c"
#ifndef VP_K
#define VP_K 4
#endif
#ifndef VP_V
#define VP_V 6
#endif
#define REF_MAXLINE (VP_V + 2)
#include "http_ref.h"

/* not reached (evcon->retry_cnt != 0 makes evhttp_make_request return after queueing) */
static size_t vp_cstr(char *buf, size_t max)
{
	size_t n, i;
	vp_bytes(buf, max);
	n = (size_t)vp_range(0, max);
	buf[n] = '\0';
	for (i = 0; i < max; i++) {
		if (i >= n) buf[i] = '\0';
		else __CPROVER_assume(buf[i] != '\0');
	}
	return n;
}
static int same_str(const char *a, const char *b, size_t max)
{
	size_t i;
	for (i = 0; i <= max; i++) {
		if (a[i] != b[i]) return 0;
		if (a[i] == '\0') return 1;
	}
	return 1;
}

#ifdef VP_ACC_HEADER
void harness_accept(void)
{
	struct evkeyvalq headers;
	char key[VP_K + 1], val[VP_V + 1];
	size_t kl, vl, i;
	int rc, plain = 1;
	TAILQ_INIT(&headers);
	kl = vp_cstr(key, VP_K);
	vl = vp_cstr(val, VP_V);
	rc = evhttp_add_header(&headers, key, val);
	VP_ASSERT(rc == 0 || rc == -1, "C26: evhttp_add_header returns 0 or -1");
	for (i = 0; i < VP_V; i++) if (i < vl && (val[i] == '\r' || val[i] == '\n')) plain = 0;
	if (rc == 0) {
		struct evkeyval *kv = TAILQ_FIRST(&headers);
		VP_ASSERT(ref_safe_field_name((const ref_u8 *)key, kl), "C26: evhttp_add_header accepted a field name that is not a token (reads as a different field on the wire)");
		VP_ASSERT(ref_safe_field_value((const ref_u8 *)val, vl), "C26: evhttp_add_header accepted a value whose CR/LF are not a single obs-fold (adds a field or ends the header section on the wire)");
		VP_ASSERT(kv != NULL && TAILQ_NEXT(kv, next) == NULL, "C26: exactly one field stored");
		VP_ASSERT(same_str(kv->key, key, VP_K) && same_str(kv->value, val, VP_V), "C26: field stored != field supplied");
		VP_WITNESS("header accepted");
		if (!plain) VP_WITNESS("folded value accepted");
	} else {
		VP_ASSERT(TAILQ_FIRST(&headers) == NULL, "C26: refused header leaves the list unchanged");
		VP_ASSERT(!(ref_safe_field_name((const ref_u8 *)key, kl) && plain), "C26: token name with a CR/LF-free value refused");
		VP_WITNESS("header refused");
	}
	evhttp_clear_headers(&headers);
}
#endif

#ifdef VP_ACC_REASON
void harness_accept(void)
{
	struct evhttp_request req;
	char txt[VP_V + 1];
	size_t n, ln;
	static const int codes[] = { 200, 404, 100, 599, 0 };
	int code = codes[vp_range(0, 4)], give = vp_bool();
	memset(&req, 0, sizeof(req));
	n = vp_cstr(txt, VP_V);
	evhttp_response_code_(&req, code, give ? txt : NULL);
	VP_ASSERT(req.kind == EVHTTP_RESPONSE && req.response_code == code, "C26: response code stored");
	VP_ASSERT(req.response_code_line != NULL, "C26: a reason phrase is stored");
	ln = strlen(req.response_code_line);
	VP_ASSERT(ref_safe_reason((const ref_u8 *)req.response_code_line, ln), "C26: reason phrase stored for the status line contains a control character (CR/LF start a header field or a message of their own)");
	if (give && ref_safe_reason((const ref_u8 *)txt, n)) {
		VP_ASSERT(same_str(req.response_code_line, txt, VP_V), "C26: reason phrase stored != reason phrase supplied");
		VP_WITNESS("caller's reason phrase stored");
	}
	if (!give) VP_WITNESS("standard reason phrase stored");
	mm_free(req.response_code_line);
}
#endif

#ifdef VP_ACC_TARGET
static int vp_req_freed;
void harness_accept(void)
{
	struct evhttp_request *req;
	struct evhttp_connection evcon;
	char txt[VP_V + 1];
	size_t n, i;
	int rc, has_sp = 0;
	memset(&evcon, 0, sizeof(evcon));
	TAILQ_INIT(&evcon.requests);
	evcon.retry_cnt = 1;               /* evhttp_make_request() only queues (no connect, no dispatch) */
	evcon.state = EVCON_DISCONNECTED;
	req = mm_calloc(1, sizeof(*req));  /* evhttp_request_new() minus the parts not touched here */
	__CPROVER_assume(req != NULL);
	req->flags = EVHTTP_USER_OWNED;    /* on refusal evhttp_request_free_auto() must not free a user-owned request */
	n = vp_cstr(txt, VP_V);
	for (i = 0; i < VP_V; i++) if (i < n && txt[i] == ' ') has_sp = 1;
	rc = evhttp_make_request(&evcon, req, EVHTTP_REQ_GET, txt);
	VP_ASSERT(rc == 0 || rc == -1, "C26: evhttp_make_request returns 0 or -1");
	if (rc == 0) {
		VP_ASSERT(req->uri != NULL && same_str(req->uri, txt, VP_V), "C26: request target stored != target supplied");
		VP_ASSERT(ref_safe_target((const ref_u8 *)txt, n), "C26: evhttp_make_request accepted an empty target or one with control characters (the request line on the wire is not 'method SP target SP version')");
		VP_ASSERT(req->kind == EVHTTP_REQUEST && req->type == EVHTTP_REQ_GET && req->major == 1 && req->minor == 1, "C26: request kind/method/version stored");
		VP_ASSERT(TAILQ_FIRST(&evcon.requests) == req, "C26: request queued on the connection");
		VP_WITNESS("target accepted");
	} else {
		VP_ASSERT(!(ref_safe_target((const ref_u8 *)txt, n) && !has_sp), "C26: ordinary request target refused");
		VP_ASSERT(TAILQ_FIRST(&evcon.requests) == NULL, "C26: refused request is not queued");
		VP_WITNESS("target refused");
	}
}
#endif
