/* C08 (extension) -- listener.c entry points and the accept path return with every lock released.
 *
 * A LEV_OPT_THREADSAFE listener (own recursive lock through the monitor of env/locks.h) on fd 5 of a
 * constructed, locked base.  -DC08L_OP selects the call; allocation of the listener may fail; in the accept
 * scenarios the loop runs the real listener_read_cb: accept4 (stub) hands out `g_nacc` connections and then fails
 * with EAGAIN or with a hard error (errorcb path, with/without an error callback), and the accept callback performs
 * -DC08L_CBACT (nothing / disable the listener / free the listener / clear the callback).
 * Asserted: vp_lock_depth_total == 0 after every call and after the loop pass; the monitor's own assertions
 * (unlock of unheld lock, lock used after evconnlistener_free released it, ...).
 * Note: listener.c runs the accept and error callbacks WITH the listener's lock held (by design since the fix of
 * upstream issue #1226); so "callback entered without internal locks" is not asserted for listeners.
 */
#include "event_struct_nounion.h"
#include "vp.h"
#include "log_stub.h"
#include "locks.h"
#define VP_HAVE_EVENT_C
#include "alloc.h"
#include "event.c"
#include "evmap.c"
#include "evbase.h"
#include "listener.c"

#define L_NEW_FREE 0
#define L_ENABLE_DISABLE 1
#define L_GETTERS 2
#define L_SET_CB 3
#define L_ACCEPT 4
#ifndef C08L_OP
#define C08L_OP L_ACCEPT
#endif
#define A_NONE 0
#define A_DISABLE 1
#define A_FREE 2
#define A_CLEAR_CB 3
#define A_ENABLE 4
#ifndef C08L_CBACT
#define C08L_CBACT A_NONE
#endif

static struct event_base *base;
static struct evconnlistener *L;
static int g_nacc, g_hard_error, g_fail_alloc, g_flags_extra;
static int nacc_done, naccept_cb, nerror_cb, freed;

/* ---- environment ---- */
static int alloc_no;
void *c08l_malloc(size_t sz)
{
	void *p;
	if (g_fail_alloc && ++alloc_no == g_fail_alloc) return NULL;
	if (sz == sizeof(struct evconnlistener_event)) p = malloc(sizeof(struct evconnlistener_event));
	else if (sz == sizeof(struct evmap_io)) p = malloc(sizeof(struct evmap_io));
	else p = malloc(sz);
	__CPROVER_assume(p != NULL);
	return p;
}
void *c08l_realloc(void *old, size_t sz) { void *p; if (g_fail_alloc && ++alloc_no == g_fail_alloc) return NULL; p = realloc(old, sz); __CPROVER_assume(p != NULL); return p; }
void c08l_free(void *p) { free(p); }
evutil_socket_t evutil_accept4_(evutil_socket_t sockfd, struct sockaddr *addr, ev_socklen_t *addrlen, int flags)
{
	(void)sockfd; (void)addr; (void)flags;
	if (nacc_done < g_nacc) { nacc_done++; *addrlen = 16; return 100 + nacc_done; }
	errno = g_hard_error ? EMFILE : EAGAIN;      /* (hard error / one of the retriable accept errors) */
	return -1;
}
#ifdef VP_CBMC
int listen(int fd, int backlog) { (void)fd; (void)backlog; return vp_bool() ? -1 : 0; }
#endif

void accept_cb(struct evconnlistener *lev, evutil_socket_t fd, struct sockaddr *sa, int socklen, void *arg)
{
	(void)fd; (void)sa; (void)socklen; (void)arg;
	naccept_cb++;
	VP_ASSERT(lev == L && !freed, "accept callback of a live listener");
#if C08L_CBACT == A_DISABLE
	(void)evconnlistener_disable(lev);
#elif C08L_CBACT == A_FREE
	if (!freed) { freed = 1; evconnlistener_free(lev); }
#elif C08L_CBACT == A_CLEAR_CB
	evconnlistener_set_cb(lev, NULL, NULL);
#elif C08L_CBACT == A_ENABLE
	(void)evconnlistener_enable(lev);
#endif
}
void error_cb(struct evconnlistener *lev, void *arg)
{
	(void)arg;
	nerror_cb++;
	VP_ASSERT(lev == L, "error callback of the listener");
#if C08L_CBACT == A_FREE
	if (!freed) { freed = 1; evconnlistener_free(lev); }
#elif C08L_CBACT == A_DISABLE
	(void)evconnlistener_disable(lev);
#endif
}
static int c08l_dispatch(struct event_base *b, struct timeval *tv)
{
	(void)tv;
	EVBASE_RELEASE_LOCK(b, th_base_lock);
	EVBASE_ACQUIRE_LOCK(b, th_base_lock);
	evmap_io_active_(b, 5, EV_READ);       /* the listening socket is readable */
	return 0;
}
static const struct eventop c08l_ops = { "c08l", vp_be_init, vp_be_add, vp_be_del, c08l_dispatch, vp_be_dealloc, 0, EV_FEATURE_FDS, 0 };

static void body(void);
static void scenario(void)
{
	body();
	event_base_free(base);
	VP_ASSERT_NO_LOCKS("teardown");
}
static void body(void)
{
	int r;
	alloc_no = 0;
	L = evconnlistener_new(base, accept_cb, NULL, LEV_OPT_THREADSAFE | LEV_OPT_CLOSE_ON_FREE | g_flags_extra, 0, 5);
	g_fail_alloc = 0;
	VP_ASSERT_NO_LOCKS("evconnlistener_new");
	if (!L) {
#if C08L_OP != L_ACCEPT
		VP_WITNESS("evconnlistener_new failed");
#endif
		return;
	}
#if C08L_OP == L_NEW_FREE
	evconnlistener_free(L); freed = 1;
	VP_ASSERT_NO_LOCKS("evconnlistener_free");
	VP_WITNESS("listener created and freed");
#elif C08L_OP == L_ENABLE_DISABLE
	r = evconnlistener_disable(L); VP_ASSERT_NO_LOCKS("evconnlistener_disable");
	r = evconnlistener_enable(L); VP_ASSERT_NO_LOCKS("evconnlistener_enable");
	r = evconnlistener_enable(L); VP_ASSERT_NO_LOCKS("evconnlistener_enable (again)");
	evconnlistener_free(L); freed = 1; VP_ASSERT_NO_LOCKS("evconnlistener_free");
	VP_WITNESS("enable/disable returned");
#elif C08L_OP == L_GETTERS
	VP_ASSERT(evconnlistener_get_fd(L) == 5, "evconnlistener_get_fd"); VP_ASSERT_NO_LOCKS("evconnlistener_get_fd");
	VP_ASSERT(evconnlistener_get_base(L) == base, "evconnlistener_get_base"); VP_ASSERT_NO_LOCKS("evconnlistener_get_base");
	evconnlistener_set_error_cb(L, error_cb); VP_ASSERT_NO_LOCKS("evconnlistener_set_error_cb");
	evconnlistener_free(L); freed = 1; VP_ASSERT_NO_LOCKS("evconnlistener_free");
	VP_WITNESS("getters returned");
#elif C08L_OP == L_SET_CB
	evconnlistener_set_cb(L, NULL, NULL); VP_ASSERT_NO_LOCKS("evconnlistener_set_cb(NULL)");
	r = evconnlistener_enable(L); VP_ASSERT_NO_LOCKS("evconnlistener_enable without a callback");
	evconnlistener_set_cb(L, accept_cb, NULL); VP_ASSERT_NO_LOCKS("evconnlistener_set_cb (re-enables)");
	evconnlistener_free(L); freed = 1; VP_ASSERT_NO_LOCKS("evconnlistener_free");
	VP_WITNESS("set_cb returned");
#else
	if (g_hard_error == 2) evconnlistener_set_error_cb(L, error_cb);
	r = event_base_loop(base, EVLOOP_ONCE);
	VP_ASSERT_NO_LOCKS("event_base_loop running listener_read_cb");
	VP_ASSERT(naccept_cb <= g_nacc, "no more accept callbacks than connections");
	if (!freed) { evconnlistener_free(L); freed = 1; }
	VP_ASSERT_NO_LOCKS("evconnlistener_free");
	if (naccept_cb) VP_WITNESS("accept callback ran");
	VP_WITNESS("accept pass returned");
#endif
	(void)r;
}

#define PICK3(var, stmt) do { int c_ = (int)vp_range(0, 2); if (c_ == 0) { var = 0; stmt; } else if (c_ == 1) { var = 1; stmt; } else { var = 2; stmt; } } while (0)
#define PICK2(var, a, b, stmt) do { if (vp_bool()) { var = a; stmt; } else { var = b; stmt; } } while (0)

void harness_listener_api(void)
{
	base = vp_base_new_ops(1, 1, &c08l_ops);
	event_set_mem_functions(c08l_malloc, c08l_realloc, c08l_free);
#if C08L_OP == L_ACCEPT
	/* connections handed out: 0, 1, 2; then EAGAIN / hard error without / with an error callback */
	PICK3(g_nacc, PICK3(g_hard_error, scenario()));
#else
	/* the listener's own allocation, or the first allocation of its event_add (evmap slot), fails -- or none;
	 * created disabled or enabled */
	PICK3(g_fail_alloc, PICK2(g_flags_extra, 0, LEV_OPT_DISABLED, scenario()));
#endif
	VP_WITNESS("end of harness");
}
