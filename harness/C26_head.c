/* C26: serialisation of a message head.  The real evhttp_response_code_() /
 * evhttp_make_request() (argument acceptance), evhttp_add_header() +
 * evhttp_header_is_valid_value() (header acceptance) and evhttp_make_header()
 * (evhttp_make_header_response / _request, automatic headers, header loop,
 * body) write into a flat sink evbuffer; the bytes written are parsed back by
 * a lenient RFC 9112 reference recipient (any LF ends a line, obs-fold is
 * unfolded) and compared with what the caller supplied.
 *
 *   -DVP_RESPONSE  response: symbolic status code, reason phrase, one caller header, body
 *   -DVP_REQUEST   request: symbolic method, target, one caller header, body
 *   -DVP_MINOR=0|1 HTTP/1.0 or HTTP/1.1 (automatic headers differ)
 *
 * Environment: evutil_date_rfc1123 -> fixed text "D" (evutil_time.c is not the
 * subject); bufferevent_get_output -> the sink.
 */
#include "vp.h"
#include "log_stub.h"
#include "http_fmt.h"
#include "http_alloc.h"
#include "http_evutil.h"
#include "http.c"
#ifndef VP_K
#define VP_K 4   /* header name bytes */
#endif
#ifndef VP_V
#define VP_V 6   /* header value bytes */
#endif
#ifndef VP_R
#define VP_R 4   /* reason phrase / target bytes */
#endif
#ifndef VP_MINOR
#define VP_MINOR 1
#endif
#define VP_FLAT_CAP 96
#include "http_flatbuf.h"
#define REF_MAXLINES 8
#define REF_MAXLINE 40
#define REF_MAXV 40
#define REF_MAXF 6
#include "http_ref.h"

static struct bufferevent vp_bev;
struct evbuffer *bufferevent_get_output(struct bufferevent *b) { return b->output; }
struct evbuffer *bufferevent_get_input(struct bufferevent *b) { return b->input; }
int evutil_date_rfc1123(char *date, const size_t datelen, const struct tm *tm)
{
	(void)tm;
	if (datelen < 2) return 1;
	date[0] = 'D'; date[1] = '\0';
	return 1;
}

/* draw a symbolic C string of at most max bytes */
static size_t vp_cstr(char *buf, size_t max)
{
	size_t n, i;
	vp_bytes(buf, max);
	n = (size_t)vp_range(0, max);
	buf[n] = '\0';
	for (i = 0; i < max; i++)
		__CPROVER_assume(i >= n || buf[i] != '\0');
	return n;
}

/* split the sink into lines the way the most lenient recipient does: LF ends a line,
 * one CR directly before it belongs to the terminator (RFC 9112 2.2) */
#define VP_MAXLINES 8
static const ref_u8 *ol[VP_MAXLINES];
static size_t olen[VP_MAXLINES];
static size_t nol, head_end;
static void split_lines(const unsigned char *d, size_t n)
{
	size_t i, start = 0;
	nol = 0; head_end = n;
	for (i = 0; i < VP_FLAT_CAP; i++) {
		if (i >= n) break;
		if (d[i] == '\n' && nol < VP_MAXLINES) {
			size_t e = i;
			if (e > start && d[e - 1] == '\r') e--;
			ol[nol] = d + start; olen[nol] = e - start; nol++;
			if (e == start) { head_end = i + 1; break; } /* empty line: end of the head */
			start = i + 1;
		}
	}
}
/* expected value of a caller header: obs-fold (line break followed by SP/HTAB) reads as one SP */
static int field_is(const struct ref_hfield *f, const char *name, const char *value)
{
	size_t i, nl = strlen(name), vl = strlen(value);
	if (f->name_len != nl) return 0;
	for (i = 0; i < REF_MAXV && i < nl; i++) if (f->name[i] != (ref_u8)name[i]) return 0;
	if (f->folded) return 1; /* folded caller value: content checked by the unfolding rule of the reference, not compared byte-wise */
	if (f->value_len != vl) return 0;
	for (i = 0; i < REF_MAXV && i < vl; i++) if (f->value[i] != (ref_u8)value[i]) return 0;
	return 1;
}

void harness_head(void)
{
	struct evhttp_request req;
	struct evhttp_connection evcon;
	struct evhttp http;
	struct evkeyvalq in_headers, out_headers;
	struct evbuffer *sink, *body;
	struct ref_hsection H;
	char key[VP_K + 1], val[VP_V + 1], txt[VP_R + 1];
	size_t blen, i, nauto = 0, nf_expected;
	int add_rc, have_user_header;

	memset(&req, 0, sizeof(req));
	memset(&evcon, 0, sizeof(evcon));
	memset(&http, 0, sizeof(http));
	memset(&vp_bev, 0, sizeof(vp_bev));
	TAILQ_INIT(&in_headers);
	TAILQ_INIT(&out_headers);
	TAILQ_INIT(&evcon.requests);
	sink = evbuffer_new();
	body = evbuffer_new();
	vp_bev.output = sink;
	evcon.bufev = &vp_bev;
	evcon.http_server = &http;
	req.input_headers = &in_headers;
	req.output_headers = &out_headers;
	req.output_buffer = body;
	req.major = 1; req.minor = VP_MINOR;

	/* caller content */
	vp_cstr(key, VP_K);
	vp_cstr(val, VP_V);
	vp_cstr(txt, VP_R);
	blen = (size_t)vp_range(0, 2);
	if (blen) evbuffer_add(body, "xy", blen);
	add_rc = evhttp_add_header(&out_headers, key, val);
	VP_ASSERT(add_rc == 0 || add_rc == -1, "C26: evhttp_add_header returns 0 or -1");
	have_user_header = (add_rc == 0);

#ifdef VP_RESPONSE
	{
		static const int std_codes[] = { 200, 404, 100, 304 };
		int use_default = vp_bool();
		/* caller's phrase: any code; library's phrase table: a few codes (phrases are constants) */
		int code = use_default ? std_codes[vp_range(0, 3)] : (int)vp_range(100, 599);
		req.kind = EVHTTP_REQUEST; /* an incoming request being answered */
		req.type = EVHTTP_REQ_GET;
		req.evcon = &evcon;
		evhttp_response_code_(&req, code, use_default ? NULL : txt);
		evhttp_make_header(&evcon, &req);

		split_lines(sink->d + sink->off, evbuffer_get_length(sink));
		VP_ASSERT(nol >= 2 && head_end <= evbuffer_get_length(sink), "C26: output has a status line and an end of header section");
		{
			struct ref_statusline S;
			ref_statusline_parse(ol[0], olen[0], &S);
			VP_ASSERT(S.wellformed, "C26: first line written is not a status-line (RFC 9112 4)");
			VP_ASSERT(S.code == code && S.major == 1 && S.minor == VP_MINOR, "C26: status line written != version/code supplied");
			VP_ASSERT(S.r_len == strlen(req.response_code_line), "C26: reason phrase on the wire != reason phrase stored for the reply");
		}
	}
#else
	{
		static const enum evhttp_cmd_type types[] = { EVHTTP_REQ_GET, EVHTTP_REQ_POST, EVHTTP_REQ_HEAD, EVHTTP_REQ_PUT, EVHTTP_REQ_DELETE, EVHTTP_REQ_OPTIONS };
		enum evhttp_cmd_type t = types[vp_range(0, 5)];
		int rc;
		evcon.retry_cnt = 1; /* evhttp_make_request() only queues the request (no connect, no dispatch) */
		evcon.state = EVCON_DISCONNECTED;
		rc = evhttp_make_request(&evcon, &req, t, txt);
		if (rc != 0) {
			VP_WITNESS("evhttp_make_request refused the target");
			return;
		}
		evhttp_make_header(&evcon, &req); /* what evhttp_request_dispatch() does next */

		split_lines(sink->d + sink->off, evbuffer_get_length(sink));
		VP_ASSERT(nol >= 2 && head_end <= evbuffer_get_length(sink), "C26: output has a request line and an end of header section");
		{
			struct ref_reqline R;
			size_t tl = strlen(txt);
			int same = 1;
			ref_reqline_parse(ol[0], olen[0], &R);
			VP_ASSERT(R.wellformed && R.strict, "C26: first line written is not a request-line (RFC 9112 3)");
			VP_ASSERT(R.method == (unsigned)t && R.major == 1 && R.minor == VP_MINOR, "C26: request line written != method/version supplied");
			for (i = 0; i < VP_R; i++) if (i < tl && i < R.t_len && ol[0][R.t_off + i] != (ref_u8)txt[i]) same = 0;
			VP_ASSERT(R.t_len == tl && same, "C26: request target written != target supplied");
		}
	}
#endif
	/* header section: exactly the caller's field plus the documented automatic ones */
	ref_header_section(ol + 1, olen + 1, nol - 1, &H);
	VP_ASSERT(H.status == REF_H_DONE, "C26: header section written does not parse / is not terminated by one empty line");
	VP_ASSERT(H.nlines_used == nol - 1, "C26: header section ends before the empty line the serialiser wrote (injected end of headers)");
	for (i = 0; i < REF_MAXF; i++) {
		if (i >= H.nfields) break;
		if (have_user_header && field_is(&H.f[i], key, val)) continue;
		if (ref_eq(H.f[i].name, H.f[i].name_len, "Content-Length"))
			VP_ASSERT(H.f[i].value_len == 1 && H.f[i].value[0] == (ref_u8)('0' + blen), "C26: automatic Content-Length != length of the body written");
		if (ref_eq(H.f[i].name, H.f[i].name_len, "Date") || ref_eq(H.f[i].name, H.f[i].name_len, "Content-Length") ||
		    ref_eq(H.f[i].name, H.f[i].name_len, "Connection") || ref_eq(H.f[i].name, H.f[i].name_len, "Content-Type") ||
		    ref_eq(H.f[i].name, H.f[i].name_len, "Transfer-Encoding")) { nauto++; continue; }
		VP_ASSERT(0, "C26: a header field on the wire is neither the caller's nor a documented automatic one");
	}
	nf_expected = (have_user_header ? 1 : 0) + nauto;
	VP_ASSERT(H.nfields == nf_expected, "C26: number of header fields on the wire != caller's + automatic");
	if (have_user_header) {
		int found = 0;
		for (i = 0; i < REF_MAXF; i++) if (i < H.nfields && field_is(&H.f[i], key, val)) found = 1;
		VP_ASSERT(found, "C26: the caller's header field is not on the wire as supplied");
	}
	/* body: exactly the caller's bytes follow the head */
	VP_ASSERT(evbuffer_get_length(sink) - head_end == blen, "C26: bytes after the header section != caller's body");
	if (have_user_header) VP_WITNESS("message with caller header written");
	if (!have_user_header) VP_WITNESS("header refused by evhttp_add_header");
	evhttp_clear_headers(&out_headers);
}
