/* C26 (a): what evhttp_make_header() writes.  The real evhttp_make_header()
 * (evhttp_make_header_response / _request, automatic headers, header loop,
 * body) writes into a flat sink evbuffer; the bytes must be EXACTLY
 *
 *   start-line CRLF  *( name ": " value CRLF )  CRLF  body
 *
 * with the caller's strings verbatim, the caller's header first and then only
 * the documented automatic headers (Date, Content-Length) in that order, and
 * the caller's body bytes.
 *
 * This is one third of the C26 argument (see props/C26.py):
 *   (a) this file:        output = format(components)              [real code]
 *   (b) C26_accept.c:     components the API accepts are "safe"    [real code]
 *   (c) C26_lemma.c:      format(safe components) parses back, under the RFC
 *                         9112 reference recipient, to exactly those components
 *
 * Everything that decides HOW MANY bytes are written is fixed per obligation
 * (string lengths, status code, method, body length: -DVP_K -DVP_V -DVP_R
 * -DVP_CODE -DVP_METHOD -DVP_B, enumerated by the driver), so the layout of the
 * sink is concrete; the bytes of the caller's strings are symbolic (any byte
 * but NUL).
 *
 * Environment: evutil_date_rfc1123 -> fixed text "D" (evutil_time.c is not the
 * subject); bufferevent_get_output -> the sink.
 */
#include "vp.h"
#include "log_stub.h"
#include "http_fmt.h"
#include "http_alloc.h"
#include "http_evutil.h"
#include "http.c"
#ifndef VP_K
#define VP_K 2   /* header name bytes */
#endif
#ifndef VP_V
#define VP_V 3   /* header value bytes */
#endif
#ifndef VP_R
#define VP_R 2   /* reason phrase / target bytes */
#endif
#ifndef VP_MINOR
#define VP_MINOR 1
#endif
#ifndef VP_CODE
#define VP_CODE 200
#endif
#ifndef VP_METHOD
#define VP_METHOD 0
#endif
#ifndef VP_B
#define VP_B 0
#endif
#define VP_FLAT_CAP 96
#include "http_flatbuf.h"

static struct bufferevent vp_bev;
struct evbuffer *bufferevent_get_output(struct bufferevent *b) { return b->output; }
struct evbuffer *bufferevent_get_input(struct bufferevent *b) { return b->input; }
int evutil_date_rfc1123(char *date, const size_t datelen, const struct tm *tm)
{
	(void)tm;
	if (datelen < 2) return 1;
	date[0] = 'D'; date[1] = '\0';
	return 1;
}

/* expected output, built by plain concatenation */
static unsigned char exp_out[VP_FLAT_CAP];
static size_t exp_len;
static void ex_s(const char *s) { size_t i; for (i = 0; s[i] != '\0'; i++) exp_out[exp_len++] = (unsigned char)s[i]; }
static void ex_c(char c) { exp_out[exp_len++] = (unsigned char)c; }

static void vp_cstr(char *buf, size_t n)
{
	size_t i;
	vp_bytes(buf, n);
	buf[n] = '\0';
	for (i = 0; i < n; i++)
		__CPROVER_assume(buf[i] != '\0');
}

void harness_head(void)
{
	struct evhttp_request req;
	struct evhttp_connection evcon;
	struct evhttp http;
	struct evkeyvalq in_headers, out_headers;
	struct evbuffer *sink, *body;
	char key[VP_K + 1], val[VP_V + 1], txt[VP_R + 1];
	size_t i;
	int same = 1;

	memset(&req, 0, sizeof(req));
	memset(&evcon, 0, sizeof(evcon));
	memset(&http, 0, sizeof(http));
	memset(&vp_bev, 0, sizeof(vp_bev));
	TAILQ_INIT(&in_headers);
	TAILQ_INIT(&out_headers);
	TAILQ_INIT(&evcon.requests);
	sink = evbuffer_new();
	body = evbuffer_new();
	vp_bev.output = sink;
	evcon.bufev = &vp_bev;
	evcon.http_server = &http;
	req.input_headers = &in_headers;
	req.output_headers = &out_headers;
	req.output_buffer = body;
	req.major = 1; req.minor = VP_MINOR;
	req.evcon = &evcon;

	/* caller content, placed the way the accepting API functions store it (obligation (b)) */
	vp_cstr(key, VP_K);
	vp_cstr(val, VP_V);
	vp_cstr(txt, VP_R);
	/* the caller's header is not one of the names the automatic headers look for (VP_K <= 4 rules out the longer ones) */
	__CPROVER_assume(evutil_ascii_strcasecmp(key, "Date") != 0);
	if (VP_B) evbuffer_add(body, "xy", VP_B);
	{
		int rc = evhttp_add_header_internal(&out_headers, key, val);
		VP_ASSERT(rc == 0, "C26: header stored");
	}

#ifdef VP_RESPONSE
	req.kind = EVHTTP_RESPONSE;
	req.type = EVHTTP_REQ_GET;
	req.response_code = VP_CODE;
	req.response_code_line = mm_strdup(txt);
	evhttp_make_header(&evcon, &req);
	ex_s("HTTP/1."); ex_c('0' + VP_MINOR); ex_c(' ');
	ex_c('0' + VP_CODE / 100); ex_c('0' + (VP_CODE / 10) % 10); ex_c('0' + VP_CODE % 10); ex_c(' ');
	ex_s(txt); ex_s("\r\n");
	ex_s(key); ex_s(": "); ex_s(val); ex_s("\r\n");
	if (VP_MINOR >= 1) ex_s("Date: D\r\n");
	if (VP_MINOR >= 1 && VP_CODE != 204 && VP_CODE != 304 && !(VP_CODE >= 100 && VP_CODE < 200)) {
		ex_s("Content-Length: "); ex_c('0' + VP_B); ex_s("\r\n");
	}
	ex_s("\r\n");
	if (VP_B) { ex_c('x'); if (VP_B > 1) ex_c('y'); }
#else
	{
		static const enum evhttp_cmd_type types[] = { EVHTTP_REQ_GET, EVHTTP_REQ_POST, EVHTTP_REQ_HEAD, EVHTTP_REQ_PUT, EVHTTP_REQ_DELETE, EVHTTP_REQ_OPTIONS };
		static const char *const names[] = { "GET", "POST", "HEAD", "PUT", "DELETE", "OPTIONS" };
		req.kind = EVHTTP_REQUEST;
		req.type = types[VP_METHOD];
		req.uri = mm_strdup(txt);
		evhttp_make_header(&evcon, &req);
		ex_s(names[VP_METHOD]); ex_c(' '); ex_s(txt); ex_s(" HTTP/1."); ex_c('0' + VP_MINOR); ex_s("\r\n");
		ex_s(key); ex_s(": "); ex_s(val); ex_s("\r\n");
		/* "Add the content length on a request if missing; always add it for POST and PUT requests" (methods with a body) */
		if (VP_METHOD != 2 && (VP_B > 0 || VP_METHOD == 1 || VP_METHOD == 3)) {
			ex_s("Content-Length: "); ex_c('0' + VP_B); ex_s("\r\n");
		}
		ex_s("\r\n");
		if (VP_B) { ex_c('x'); if (VP_B > 1) ex_c('y'); }
	}
#endif
	VP_ASSERT(evbuffer_get_length(sink) == exp_len, "C26: number of bytes written != start-line + caller's header + automatic headers + CRLF + body");
	for (i = 0; i < VP_FLAT_CAP; i++)
		if (i < exp_len && sink->d[sink->off + i] != exp_out[i]) same = 0;
	VP_ASSERT(same, "C26: bytes written != 'start-line CRLF *(name \": \" value CRLF) CRLF body' with the caller's strings verbatim");
	VP_ASSERT(evbuffer_get_length(body) == 0, "C26: the body was moved to the output");
	VP_WITNESS("message head written");
	evhttp_clear_headers(&out_headers);
}
