/* C26 (a): what evhttp_make_header() writes.  The real evhttp_make_header()
 * (evhttp_make_header_response / _request, automatic headers, header loop,
 * body) writes into a RECORDING sink (env/http_recsink.h); the sequence of
 * write operations must be exactly
 *
 *   printf(start-line format, caller's components)
 *   printf("%s: %s\r\n", name, value)   for the caller's header, then for the
 *                                       documented automatic headers only
 *   add("\r\n")
 *   add_buffer(caller's body)           all of it, once
 *
 * i.e. bytes on the wire = start-line CRLF *(name ": " value CRLF) CRLF body
 * with the caller's strings verbatim.
 *
 * This is one third of the C26 argument (see props/C26.py):
 *   (a) this file:        output = format(components)              [real code]
 *   (b) C26_accept.c:     components the API accepts are "safe"    [real code]
 *   (c) C26_lemma.c:      format(safe components) parses back, under the RFC
 *                         9112 reference recipient, to exactly those components
 *
 * Symbolic: caller's header name (<= VP_K bytes) and value (<= VP_V), reason
 * phrase / target (<= VP_V), status code, HTTP minor version, method, body
 * length (0..99999; bodies only carry a length here).
 */
#include "vp.h"
#include "log_stub.h"
#include "http_fmt.h"
#include "http_alloc.h"
#include "http_evutil.h"
#include "http.c"
#ifndef VP_K
#define VP_K 4
#endif
#ifndef VP_V
#define VP_V 6
#endif
#include "http_recsink.h"
#define REF_MAXLINE 24
#include "http_ref.h"

static struct bufferevent vp_bev;
struct evbuffer *bufferevent_get_output(struct bufferevent *b) { return b->output; }
struct evbuffer *bufferevent_get_input(struct bufferevent *b) { return b->input; }
int evutil_date_rfc1123(char *date, const size_t datelen, const struct tm *tm)
{
	(void)tm;
	if (datelen < 2) return 1;
	date[0] = 'D'; date[1] = '\0';
	return 1;
}
static size_t vp_cstr(char *buf, size_t max)
{
	size_t n, i;
	vp_bytes(buf, max);
	n = (size_t)vp_range(0, max);
	buf[n] = '\0';
	for (i = 0; i < max; i++) {
		if (i >= n) buf[i] = '\0';
		else __CPROVER_assume(buf[i] != '\0');
	}
	return n;
}
static int same_str(const char *a, const char *b, size_t max)
{
	size_t i;
	for (i = 0; i <= max; i++) {
		if (a[i] != b[i]) return 0;
		if (a[i] == '\0') return 1;
	}
	return 1;
}
static int is_hdr(const struct vp_rec *r, const char *name, size_t max)
{
	return vp_fmt_is(r, "%s: %s\r\n") && r->nargs == 2 && r->argt[0] == 's' && r->argt[1] == 's' && same_str(r->sarg[0], name, max);
}

void harness_head(void)
{
	struct evhttp_request req;
	struct evhttp_connection evcon;
	struct evhttp http;
	struct evkeyvalq in_headers, out_headers;
	struct evbuffer *sink, *body;
	char key[VP_K + 1], val[VP_V + 1], txt[VP_V + 1];
	size_t blen;
	int minor, at = 0, expect_cl;
	const struct vp_rec *r;

	memset(&req, 0, sizeof(req));
	memset(&evcon, 0, sizeof(evcon));
	memset(&http, 0, sizeof(http));
	memset(&vp_bev, 0, sizeof(vp_bev));
	TAILQ_INIT(&in_headers);
	TAILQ_INIT(&out_headers);
	TAILQ_INIT(&evcon.requests);
	sink = evbuffer_new(); sink->is_sink = 1;
	body = evbuffer_new();
	vp_bev.output = sink;
	evcon.bufev = &vp_bev;
	evcon.http_server = &http;
	req.input_headers = &in_headers;
	req.output_headers = &out_headers;
	req.output_buffer = body;
	minor = vp_bool();
	req.major = 1; req.minor = (char)minor;
	req.evcon = &evcon;

	/* caller content, placed the way the accepting API functions store it (obligation (b)) */
	vp_cstr(key, VP_K);
	vp_cstr(val, VP_V);
	vp_cstr(txt, VP_V);
	/* the caller's header is not one of the names the automatic headers look for
	 * (with VP_K <= 4 only "Date" is short enough) */
	__CPROVER_assume(evutil_ascii_strcasecmp(key, "Date") != 0);
	blen = (size_t)vp_range(0, 99999); /* printed as decimal by the automatic Content-Length */
	body->len = blen;
	{
		int rc = evhttp_add_header_internal(&out_headers, key, val);
		VP_ASSERT(rc == 0, "C26: header stored");
	}

#ifdef VP_RESPONSE
	{
		int code = (int)vp_range(100, 599);
		int need_body;
		req.kind = EVHTTP_RESPONSE;
		req.type = vp_bool() ? EVHTTP_REQ_GET : EVHTTP_REQ_HEAD; /* method of the request being answered */
		req.response_code = code;
		req.response_code_line = mm_strdup(txt);
		need_body = code != 204 && code != 304 && !(code >= 100 && code < 200) && req.type != EVHTTP_REQ_HEAD;

		evhttp_make_header(&evcon, &req);

		r = &sink->rec[at++];
		VP_ASSERT(sink->nrec >= 3, "C26: status line, header(s) and CRLF written");
		VP_ASSERT(vp_fmt_is(r, "HTTP/%d.%d %d %s\r\n") && r->nargs == 4, "C26: first write is the status line 'HTTP/%d.%d %d %s CRLF'");
		VP_ASSERT(r->narg[0] == 1 && r->narg[1] == (unsigned)minor && r->narg[2] == (unsigned)code, "C26: status line carries the version and status code supplied");
		VP_ASSERT(r->sarg[3] == req.response_code_line && same_str(r->sarg[3], txt, VP_V), "C26: status line carries the reason phrase supplied");
		expect_cl = need_body && minor >= 1;
		/* caller's header first */
		r = &sink->rec[at++];
		VP_ASSERT(is_hdr(r, key, VP_K) && same_str(r->sarg[1], val, VP_V), "C26: the caller's header is written verbatim as 'name: value CRLF'");
		if (minor >= 1) {
			r = &sink->rec[at++];
			VP_ASSERT(is_hdr(r, "Date", 8) && same_str(r->sarg[1], "D", 4), "C26: automatic Date header (HTTP/1.1)");
		}
	}
#else
	{
		static const enum evhttp_cmd_type types[] = { EVHTTP_REQ_GET, EVHTTP_REQ_POST, EVHTTP_REQ_HEAD, EVHTTP_REQ_PUT, EVHTTP_REQ_DELETE, EVHTTP_REQ_OPTIONS, EVHTTP_REQ_TRACE };
		static const char *const names[] = { "GET", "POST", "HEAD", "PUT", "DELETE", "OPTIONS", "TRACE" };
		unsigned m = (unsigned)vp_range(0, 6);
		req.kind = EVHTTP_REQUEST;
		req.type = types[m];
		req.uri = mm_strdup(txt);

		evhttp_make_header(&evcon, &req);

		r = &sink->rec[at++];
		VP_ASSERT(sink->nrec >= 3, "C26: request line, header(s) and CRLF written");
		VP_ASSERT(vp_fmt_is(r, "%s %s HTTP/%d.%d\r\n") && r->nargs == 4, "C26: first write is the request line '%s %s HTTP/%d.%d CRLF'");
		VP_ASSERT(same_str(r->sarg[0], names[m], 8), "C26: request line carries the method supplied");
		VP_ASSERT(r->sarg[1] == req.uri && same_str(r->sarg[1], txt, VP_V), "C26: request line carries the target supplied");
		VP_ASSERT(r->narg[2] == 1 && r->narg[3] == (unsigned)minor, "C26: request line carries the version supplied");
		/* "Add the content length on a request if missing; always add it for POST and PUT" (methods that may have a body) */
		expect_cl = (m != 2 && m != 6) && (blen > 0 || m == 1 || m == 3);
		r = &sink->rec[at++];
		VP_ASSERT(is_hdr(r, key, VP_K) && same_str(r->sarg[1], val, VP_V), "C26: the caller's header is written verbatim as 'name: value CRLF'");
	}
#endif
	if (expect_cl) {
		unsigned long long v = 0;
		size_t l;
		r = &sink->rec[at++];
		VP_ASSERT(is_hdr(r, "Content-Length", 16), "C26: automatic Content-Length header");
		l = strlen(r->sarg[1]);
		VP_ASSERT(ref_content_length((const ref_u8 *)r->sarg[1], l, &v), "C26: automatic Content-Length is 1*DIGIT");
		VP_ASSERT(v == blen, "C26: automatic Content-Length == length of the body written");
	}
	r = &sink->rec[at++];
	VP_ASSERT(r->kind == VP_REC_ADD && r->n == 2 && r->bytes[0] == '\r' && r->bytes[1] == '\n', "C26: header section ends with one CRLF (no further header written)");
	if (blen > 0) {
		r = &sink->rec[at++];
		VP_ASSERT(r->kind == VP_REC_ADDBUF && r->src == body && r->n == blen, "C26: the caller's body follows the head, complete");
	}
	VP_ASSERT(sink->nrec == at, "C26: nothing else is written");
	VP_ASSERT(evbuffer_get_length(body) == 0, "C26: the body was moved to the output");
	if (expect_cl && blen > 9) VP_WITNESS("head with automatic Content-Length and body written");
	if (!expect_cl) VP_WITNESS("head without Content-Length written");
	evhttp_clear_headers(&out_headers);
}
