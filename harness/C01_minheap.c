/* C01(a) -- min-heap inductive step (minheap-internal.h, the real functions).
 *
 * Pre-state: ANY heap of n <= C01_N events (n solver-chosen): deadlines fully symbolic
 * (tv_sec any 64-bit value, tv_usec in [0,10^6)), constrained only by the representation
 * invariant  (1) p[i]->min_heap_idx == i,  (2) !(parent > child).  W.l.o.g. the event
 * stored at heap position i is ev[i] (events are just storage, the code never compares
 * addresses).  Events not in the heap have index SIZE_MAX.
 * Step: one of push / pop / erase(victim) / adjust(victim, new deadline), all arguments
 * solver-chosen.  Post: the invariant holds again, the multiset of (event, deadline) changed
 * exactly as the operation says, the top is a minimum, pop returned a minimum.
 * By induction from the empty heap every reachable heap of <= C01_N elements is covered.
 */
#include "vp.h"
#include "log_stub.h"
#include "alloc.h"
#include "event2/event_struct.h"
#include "minheap-internal.h"

#ifndef C01_N
#define C01_N 5
#endif
#define CAP (C01_N + 1)

/* one object per event: with an array of events cbmc's value sets only know "somewhere in
 * ev[]" and every p[i]->field becomes a byte_extract at a symbolic offset (measured: 5-9 GB);
 * with distinct objects a heap-slot pointer is a small case split */
static struct event E0, E1, E2, E3, E4, E5, E6, E7, E8;
static struct event *const evp[9] = { &E0, &E1, &E2, &E3, &E4, &E5, &E6, &E7, &E8 };
#define ev(k) (*evp[k])
static struct event *parr[CAP];
static min_heap_t h;

static int tv_gt(const struct timeval *a, const struct timeval *b)
{
	return a->tv_sec > b->tv_sec || (a->tv_sec == b->tv_sec && a->tv_usec > b->tv_usec);
}
static void sym_tv(struct timeval *tv)
{
	tv->tv_sec = (long)vp_u64();
	tv->tv_usec = (long)vp_range(0, 999999);
}
/* representation invariant of the heap over exactly the events for which in[k] is set */
static void check_heap(size_t n, const int *in, const char *unused)
{
	size_t i, k;
	(void)unused;
	VP_ASSERT(h.n == n, "C01: heap size after the operation");
	VP_ASSERT(h.p == parr && h.a == CAP, "C01: heap storage must not move when capacity suffices");
	for (i = 0; i < CAP; i++) {
		if (i >= n) continue;
		/* slot i holds one of our events, and that event knows it */
		int owner = -1;
		for (k = 0; k < CAP; k++) if (parr[i] == evp[k]) owner = (int)k;
		VP_ASSERT(owner >= 0, "C01: heap slot holds a pointer that is not one of the events");
		for (k = 0; k < CAP; k++) if (parr[i] == evp[k]) {
			VP_ASSERT(in[k], "C01: heap holds an event that must not be in it");
			VP_ASSERT(ev(k).ev_timeout_pos.min_heap_idx == i, "C01: min_heap_idx of an element differs from its slot");
		}
		if (i > 0)
			VP_ASSERT(!tv_gt(&parr[(i - 1) / 2]->ev_timeout, &parr[i]->ev_timeout), "C01: heap order violated (parent later than child)");
		VP_ASSERT(!tv_gt(&parr[0]->ev_timeout, &parr[i]->ev_timeout), "C01: top of the heap is not the earliest deadline");
	}
	for (k = 0; k < CAP; k++) {
		if (in[k]) {
			size_t j = ev(k).ev_timeout_pos.min_heap_idx;
			VP_ASSERT(j < n, "C01: an element was lost from the heap");
			for (i = 0; i < CAP; i++) if (i == j) VP_ASSERT(parr[i] == evp[k], "C01: an element was lost from the heap (slot does not point back)");
		} else {
			VP_ASSERT(ev(k).ev_timeout_pos.min_heap_idx == EV_SIZE_MAX, "C01: element outside the heap must have index SIZE_MAX");
		}
	}
}

/* run STMT with K = v as a compile-time constant, as an else-if chain: every copy starts
 * from the unmerged pre-state (a for-loop of `if (i == v)` copies merges after each copy,
 * h.n becomes symbolic and symex walks into realloc(symbolic size)) */
#define VS1(k, STMT) if (v == (k) && (k) < CAP) { enum { K = (k) }; STMT; }
#define VICTIM_SPLIT(STMT) do { VS1(0, STMT) else VS1(1, STMT) else VS1(2, STMT) else VS1(3, STMT) else VS1(4, STMT) \
	else VS1(5, STMT) else VS1(6, STMT) else VS1(7, STMT) else VS1(8, STMT) } while (0)

void harness_minheap_step(void)
{
#ifdef C01_NFIX
	const size_t n = C01_NFIX;             /* heap size enumerated by the driver (0..C01_N) */
#else
	size_t n = (size_t)vp_range(0, C01_N);
#endif
	size_t i, v, n2;
	int in[CAP];
	int op, r = 0, wit = 0;
	struct timeval ntv;
	struct event *e = NULL;

	/* arbitrary valid heap */
	for (i = 0; i < CAP; i++) {
		sym_tv(&ev(i).ev_timeout);
		in[i] = i < n;
		if (i < n) { parr[i] = evp[i]; ev(i).ev_timeout_pos.min_heap_idx = i; }
		else { parr[i] = NULL; min_heap_elem_init_(evp[i]); }
		if (i > 0 && i < n)
			__CPROVER_assume(!tv_gt(&ev((i - 1) / 2).ev_timeout, &ev(i).ev_timeout));
	}
	h.p = parr; h.n = n; h.a = CAP;
	n2 = n;

	VP_ASSERT(min_heap_size_(&h) == n && min_heap_empty_(&h) == (n == 0), "C01: size/empty");
	VP_ASSERT(min_heap_top_(&h) == (n ? evp[0] : NULL), "C01: top of the heap");

#ifdef C01_OPFIX
	op = C01_OPFIX;
#else
	op = (int)vp_range(0, 3);
#endif
	v = (size_t)vp_range(0, C01_N);            /* victim: any event, member or not */
	sym_tv(&ntv);
	for (i = 0; i < CAP; i++) VP_ASSERT(min_heap_elt_is_top_(evp[i]) == (i == 0 && n > 0), "C01: is_top");
	if (op == 0) {                         /* push the first event that is not in the heap */
		r = min_heap_push_(&h, evp[n]);
		VP_ASSERT(r == 0, "C01: push with spare capacity succeeds");
		in[n] = 1; n2 = n + 1; wit = 1;
	} else if (op == 1) {                  /* pop */
		e = min_heap_pop_(&h);
		if (n == 0) {
			VP_ASSERT(e == NULL, "C01: pop from an empty heap returns NULL");
			wit = 2;
		} else {
			VP_ASSERT(e == evp[0], "C01: pop returns the top");
			for (i = 0; i < CAP; i++) if (i < n)
				VP_ASSERT(!tv_gt(&e->ev_timeout, &ev(i).ev_timeout), "C01: pop returned an element that is not the earliest");
			in[0] = 0; n2 = n - 1; wit = 3;
		}
	} else if (op == 2) {                  /* erase an arbitrary event (member or not) */
		/* victim pointer is a constant in each unrolled copy (a symbolic evp[v] costs GBs) */
		VICTIM_SPLIT(r = min_heap_erase_(&h, evp[K]));
		if (v < n) {
			VP_ASSERT(r == 0, "C01: erase of a member returns 0");
			in[v] = 0; n2 = n - 1; wit = 4;
		} else {
			VP_ASSERT(r == -1, "C01: erase of a non-member returns -1");
			wit = 5;
		}
	} else {                               /* adjust: deadline of a member changed, or push of a non-member */
		__CPROVER_assume(v <= n);
		VICTIM_SPLIT((ev(K).ev_timeout = ntv, r = min_heap_adjust_(&h, evp[K])));
		VP_ASSERT(r == 0, "C01: adjust succeeds");
		if (v < n) wit = 6;
		else { in[v] = 1; n2 = n + 1; wit = 7; }
	}
	check_heap(n2, in, "");
	/* reachability witnesses, only those that exist for the enumerated heap size / operation */
#ifndef C01_NFIX
#define C01_NFIX_ (-1)
#else
#define C01_NFIX_ C01_NFIX
#endif
#ifndef C01_OPFIX
#define C01_OPFIX_ (-1)
#else
#define C01_OPFIX_ C01_OPFIX
#endif
#define HAVE_OP(o) (C01_OPFIX_ == -1 || C01_OPFIX_ == (o))
#if HAVE_OP(0)
	if (wit == 1) VP_WITNESS("push");
#endif
#if HAVE_OP(1) && (C01_NFIX_ == -1 || C01_NFIX_ == 0)
	if (wit == 2) VP_WITNESS("pop empty");
#endif
#if HAVE_OP(1) && C01_NFIX_ != 0
	if (wit == 3) VP_WITNESS("pop");
#endif
#if HAVE_OP(2) && C01_NFIX_ != 0
	if (wit == 4) VP_WITNESS("erase member");
#endif
#if HAVE_OP(2)
	if (wit == 5) VP_WITNESS("erase non-member");
#endif
#if HAVE_OP(3) && C01_NFIX_ != 0
	if (wit == 6) VP_WITNESS("adjust member");
#endif
#if HAVE_OP(3)
	if (wit == 7) VP_WITNESS("adjust non-member");
#endif
}
