/* C37: evdns.c:request_parse on a fully symbolic datagram.
 *
 * Compositional (DESIGN 3.8):
 *   - name_parse is replaced (goto-instrument --replace-calls) by c37_name_parse_contract, which
 *     states exactly what C33 verifies about it: it either fails, or advances *idx into
 *     (idx, length] and leaves a NUL-terminated text shorter than the output buffer; names met at
 *     or beyond the end of the packet fail.  Every oracle answer is logged.
 *   - evdns_server_request_respond is replaced by a recorder (response formatting is C35's
 *     subject) that notes the rcode and releases the request as the real function does.
 *   - the packet is an exact-size object (message = last `length` bytes of a C37_L-byte object,
 *     length symbolic 0..C37_L): any read at or beyond `length` leaves the object.
 *   - allocator: exact typed objects; with -DC37_ALLOC_FAIL each allocation may fail.
 *
 * The reference (c37_ref) re-walks the message per RFC 1035 4.1 / RFC 6891 6.1.2 with the same
 * name oracle (consuming the log) and decides: drop (too short / QR=1 / malformed), NOTIMPL
 * (QR=0, opcode != 0, well-formed), or deliver (QR=0, opcode 0, well-formed) with the questions
 * and the OPT payload size.
 */
#define VP_LOCKS_OFF 1
#define VP_HAVE_EVENT_C 1 /* own allocator below */
#include "vp.h"
#include "log_stub.h"
#include "alloc.h"
#include "locks.h"
#include "dns_env.h"
#include "evdns.c"
#include "dns_ref.h"

#ifndef C37_L
#define C37_L 24
#endif
#ifndef C37_TEXT
#define C37_TEXT C37_L /* bound on the decoded length of a name (<= packet length for any finite name) */
#endif
#define C37_QMAX ((C37_L - 12) / 5 + 1)   /* a question takes >= 5 octets */
#define C37_NPMAX ((C37_L - 12) / 5 + 3)  /* names the parser can ask for before running out of packet */

/* ---------------- allocator ---------------- */
int c37_live, c37_fail_enabled, c37_failed;
static int c37_fail(void)
{
#ifdef C37_ALLOC_FAIL
	if (c37_fail_enabled && vp_bool()) { c37_failed++; return 1; }
#endif
	return 0;
}
/* a question object: header + name.  Allocated as a plain byte object: with a struct-typed object
 * cbmc loses what is stored into the padding after `char name[1]` (false alarm "name differs",
 * not reproduced natively). */
#define C37_QOBJ (sizeof(struct evdns_server_question) + C37_TEXT + 1)
void *event_mm_malloc_(size_t sz)
{
	void *p;
	if (sz == 0) return NULL;
	if (c37_fail()) return NULL;
	if (sz == sizeof(struct server_request)) p = malloc(sizeof(struct server_request));
	else if (sz == sizeof(struct server_reply_item)) p = malloc(sizeof(struct server_reply_item));
	else {
		/* a question: header + name (literal-size typed object; a symbolic size does not fit) */
		VP_ASSERT(sz >= sizeof(struct evdns_server_question) && sz <= C37_QOBJ, "harness: unexpected allocation size");
		p = malloc(C37_QOBJ);
	}
	__CPROVER_assume(p != NULL);
	c37_live++;
	return p;
}
void *event_mm_calloc_(size_t count, size_t size)
{
	void *p;
	if (count == 0 || size == 0) return NULL;
	if (c37_fail()) return NULL;
	VP_ASSERT(size == sizeof(void *) || count == sizeof(void *), "harness: calloc is the question pointer array");
	{ size_t n = size == sizeof(void *) ? count : size; size_t k;
	  /* exact-size array for every count up to C37_QMAX (branches on the symbolic count) */
	  p = NULL;
	  for (k = 1; k <= C37_QMAX; k++) if (n == k) p = calloc(k, sizeof(void *));
	  if (n > C37_QMAX) p = calloc(C37_QMAX + 1, sizeof(void *)); /* more than the packet can hold: parse must fail before slot QMAX+1 */
	}
	__CPROVER_assume(p != NULL);
	c37_live++;
	return p;
}
char *event_mm_strdup_(const char *s)
{
	char *p;
	if (c37_fail()) return NULL;
	VP_ASSERT(s[0] == 0, "harness: only the empty OPT owner name is duplicated");
	p = malloc(1);
	__CPROVER_assume(p != NULL);
	p[0] = 0;
	c37_live++;
	return p;
}
void *event_mm_realloc_(void *p, size_t n) { (void)p; (void)n; VP_ASSERT(0, "harness: realloc not expected"); return NULL; }
void event_mm_free_(void *p) { if (p) c37_live--; free(p); }

/* ---------------- name oracle (contract of name_parse, verified in C33) ---------------- */
struct c37_np { int start, ok, end; };
static struct c37_np c37_log[C37_NPMAX];
/* texts kept in a plain 2-d array and compared by index (cbmc 6.11 mis-reads a char array member
 * of a struct-array element through a char pointer: false alarm in strcmp, not reproduced natively) */
static char c37_text[C37_NPMAX][C37_TEXT + 1];
static int c37_np_n;
static u8 *c37_packet; static int c37_length;
int c37_name_parse_contract(u8 *packet, int length, int *idx, char *name_out, int name_out_len)
{
	struct c37_np *e;
	int n, i, k = c37_np_n;
	VP_ASSERT(packet == c37_packet && length == c37_length, "C37: name_parse called on something other than the received packet");
	VP_ASSERT(*idx >= 0, "C37: name_parse called with a negative index");
	VP_ASSERT(name_out_len == 256, "C37: name buffer size");
	VP_ASSERT(k < C37_NPMAX, "C37: more names requested than the packet can hold");
	if (k >= C37_NPMAX) { __CPROVER_assume(0); }
	c37_np_n++;
	e = &c37_log[k];
	e->start = *idx; e->ok = 0; e->end = -1;
	if (*idx >= length) return -1;          /* C33: a name at/after the end fails */
	if (vp_bool()) return -1;               /* malformed / loop / too long */
	e->ok = 1;
	e->end = (int)vp_range((uint64_t)(*idx + 1), (uint64_t)length); /* C33: index advanced within (idx, length] */
	n = (int)vp_range(0, C37_TEXT);         /* text length: a finite name uses each packet octet once */
	for (i = 0; i < C37_TEXT; i++) { c37_text[k][i] = i < n ? (char)vp_u8() : 0; name_out[i] = c37_text[k][i]; }
	c37_text[k][C37_TEXT] = 0; name_out[C37_TEXT] = 0; /* C33: NUL-terminated, shorter than the buffer */
	*idx = e->end;
	return 0;
}

/* ---------------- recorders ---------------- */
static int c37_cb_calls, c37_resp_calls, c37_resp_err;
static struct evdns_server_request *c37_cb_req;
static void c37_user_cb(struct evdns_server_request *req, void *arg) { (void)arg; c37_cb_calls++; c37_cb_req = req; }
int c37_respond_recorder(struct evdns_server_request *req_, int err)
{
	struct server_request *req = TO_SERVER_REQUEST(req_);
	c37_resp_calls++; c37_resp_err = err;
	server_request_free(req); /* what evdns_server_request_respond does after sending */
	return 0;
}

/* ---------------- reference ---------------- */
enum { C37_DROP = 0, C37_NOTIMPL = 1, C37_DELIVER = 2, C37_UNKNOWN = 3 };
struct c37_refq { int logidx; unsigned type, klass; };
static struct c37_refq c37_rq[C37_QMAX + 1];
static int c37_ref_nq, c37_ref_udp, c37_ref_opt, c37_ref_used;
/* next name per the oracle log: 1 ok (end in *nx), 0 malformed, -1 log exhausted / other offset */
static int c37_ref_name(int off, int *nx)
{
	struct c37_np *e;
	if (c37_ref_used >= c37_np_n) return -1;
	e = &c37_log[c37_ref_used];
	if (e->start != off) return -1;
	c37_ref_used++;
	if (!e->ok) return 0;
	*nx = e->end;
	return 1;
}
static int c37_ref(const u8 *m, int len)
{
	struct dnsref_hdr h; int off = 12, i, sec, r, nx = 0;
	c37_ref_nq = 0; c37_ref_udp = 512; c37_ref_opt = 0; c37_ref_used = 0;
	if (dnsref_header(m, len, &h) != DNSREF_OK) return C37_DROP;
	if (h.qr) return C37_DROP;
	for (i = 0; i < (int)h.qd; i++) {
		if (i > C37_QMAX) return C37_UNKNOWN; /* cannot happen: each question takes 5 octets */
		r = c37_ref_name(off, &nx);
		if (r < 0) return C37_UNKNOWN;
		if (r == 0) return C37_DROP;
		if (nx + 4 > len) return C37_DROP;
		c37_rq[i].logidx = c37_ref_used - 1;
		c37_rq[i].type = dnsref_u16(m + nx); c37_rq[i].klass = dnsref_u16(m + nx + 2);
		c37_ref_nq = i + 1;
		off = nx + 4;
	}
	for (sec = 0; sec < 3; sec++) {
		unsigned cnt = sec == 0 ? h.an : sec == 1 ? h.ns : h.ar;
		for (i = 0; i < (int)cnt; i++) {
			unsigned type, klass, rdlen;
			if (i > C37_L) return C37_UNKNOWN;
			r = c37_ref_name(off, &nx);
			if (r < 0) return C37_UNKNOWN;
			if (r == 0) return C37_DROP;
			if (nx + 10 > len) return C37_DROP;
			type = dnsref_u16(m + nx); klass = dnsref_u16(m + nx + 2); rdlen = dnsref_u16(m + nx + 8);
			if (nx + 10 + (int)rdlen > len) { /* rdata runs past the message */
#ifdef C37_LENIENT_RDATA
				return C37_UNKNOWN; /* finding C37-truncated-rdata decided by the strict obligation */
#else
				return C37_DROP;
#endif
			}
			off = nx + 10 + (int)rdlen;
			if (sec == 2 && type == 41 && !c37_ref_opt) {
				c37_ref_opt = 1; c37_ref_udp = klass > 512 ? (int)klass : 512;
#ifdef C37_LENIENT_AFTER_OPT
				goto walked; /* evdns does not look at records after the first OPT */
#endif
			}
		}
	}
walked:
	if (h.qd == 0) return C37_DROP; /* nothing to ask: evdns drops such packets (zero-size question array) */
	return h.opcode ? C37_NOTIMPL : C37_DELIVER;
}

void harness_request_parse(void)
{
	u8 *pobj = malloc(C37_L);
	struct evdns_server_port *port = calloc(1, sizeof(*port));
	struct sockaddr_storage ss; struct sockaddr_in *sin = (struct sockaddr_in *)&ss;
	int length = (int)vp_range(0, C37_L), r, verdict, i;
	u8 *packet;
	__CPROVER_assume(pobj && port);
	vp_bytes(pobj, C37_L);
	packet = pobj + (C37_L - length);
	c37_packet = packet; c37_length = length;
	port->refcnt = 1; port->user_callback = c37_user_cb; port->socket = 3;
	memset(&ss, 0, sizeof(ss)); sin->sin_family = AF_INET; sin->sin_port = vp_u16();
	c37_fail_enabled = 1;

	r = request_parse(packet, length, port, (struct sockaddr *)&ss, (ev_socklen_t)sizeof(*sin), NULL);

	c37_fail_enabled = 0;
	verdict = c37_ref(packet, length);
	VP_ASSERT(c37_cb_calls + c37_resp_calls <= 1, "C37: one packet caused more than one callback/response");
	VP_ASSERT((r == 0) == (c37_cb_calls == 1), "C37: request_parse returns 0 iff the user callback was invoked");
	if (c37_cb_calls) {
		struct server_request *sr = TO_SERVER_REQUEST(c37_cb_req);
		struct dnsref_hdr h;
		memset(&h, 0, sizeof(h));
		dnsref_header(packet, length, &h);
		VP_ASSERT(length >= 12 && h.qr == 0, "C37: callback for a packet that is not a query (short or QR=1)");
#ifndef C37_KF_EXCLUDE_OPCODE
		VP_ASSERT(h.opcode == 0, "C37: user callback invoked for a non-standard opcode (must be answered NOTIMPL)");
#endif
		VP_ASSERT(verdict != C37_DROP, "C37: user callback invoked for a malformed query (name/question/record truncated or running past the message)");
		if (verdict == C37_DELIVER || verdict == C37_NOTIMPL) {
			VP_ASSERT(sr->base.nquestions == c37_ref_nq && c37_ref_nq == (int)h.qd, "C37: number of questions delivered != QDCOUNT");
			for (i = 0; i < C37_QMAX; i++) if (i < c37_ref_nq && i < sr->base.nquestions) {
				struct evdns_server_question *q = sr->base.questions[i];
				VP_ASSERT(q->type == (int)c37_rq[i].type && q->dns_question_class == (int)c37_rq[i].klass, "C37: delivered question type/class != message");
				{ int c, same = 1, live = 1; /* C-string equality; the name is read as evdns users do, through a char pointer */
				  const char *qn = (const char *)q + evutil_offsetof(struct evdns_server_question, name);
				  for (c = 0; c <= C37_TEXT; c++) if (live) { if (qn[c] != c37_text[c37_rq[i].logidx][c]) same = 0; if (qn[c] == 0) live = 0; }
				  VP_ASSERT(same, "C37: delivered question name != parsed name"); }
			}
			VP_ASSERT(sr->max_udp_reply_size == c37_ref_udp, "C37: reply size limit != max(512, OPT payload size)");
			if (c37_failed == 0)
				VP_ASSERT((sr->n_additional == 1) == (c37_ref_opt == 1), "C37: OPT reply record present iff the query carried OPT");
			VP_ASSERT(sr->n_additional <= 1 && sr->n_answer == 0 && sr->n_authority == 0, "C37: reply records other than the OPT echo present before the user callback");
		}
		VP_ASSERT(sr->trans_id == h.id && sr->base.flags == (int)(h.flags & 0x0110), "C37: id / RD,CD flags not taken from the query");
		VP_ASSERT(sr->port == port && sr->client == NULL && port->refcnt == 2, "C37: request not bound to its port");
		if (c37_ref_nq == 1) VP_WITNESS("one-question query delivered");
		if (c37_ref_opt) VP_WITNESS("query with OPT delivered");
		if (c37_ref_nq == 2) VP_WITNESS("two questions delivered");
		if (h.an + h.ns > 0) VP_WITNESS("query with answer/authority records delivered");
		evdns_server_request_drop(c37_cb_req);
	} else if (c37_resp_calls) {
		struct dnsref_hdr h;
		memset(&h, 0, sizeof(h));
		dnsref_header(packet, length, &h);
		VP_ASSERT(c37_resp_err == 4 && length >= 12 && h.qr == 0 && h.opcode != 0, "C37: automatic response other than NOTIMPL for a non-standard opcode");
		VP_ASSERT(verdict != C37_DROP, "C37: NOTIMPL sent for a malformed packet");
#ifndef C37_KF_EXCLUDE_OPCODE
		VP_WITNESS("NOTIMPL answered");
#endif
	} else {
		if (c37_failed == 0) {
#ifndef C37_KF_EXCLUDE_OPCODE
			VP_ASSERT(verdict != C37_NOTIMPL, "C37: well-formed query with a non-standard opcode not answered with NOTIMPL");
#endif
			VP_ASSERT(verdict != C37_DELIVER, "C37: well-formed standard query dropped");
		}
		if (verdict == C37_DROP && length >= 12) VP_WITNESS("malformed query dropped");
#ifdef C37_ALLOC_FAIL
		if (c37_failed) VP_WITNESS("dropped after an allocation failure");
#endif
	}
	/* -DC37_KF_EXCLUDE_OPCODE: what happens to non-standard opcodes (finding C37-notimpl-dead) is
	 * decided by the obligation without that define; here such packets only have to be handled
	 * safely and, if delivered, faithfully */
	VP_ASSERT(port->refcnt == 1, "C37: port reference count not restored after the request is gone");
	VP_ASSERT(c37_live == 0, "C37: memory leaked by request_parse (all paths, including allocation failures)");
	free(port); free(pobj);
}
