/* C22: rate-limit budget / decrement / refill steps (bufferevent_ratelim.c), inductive form:
 * from an arbitrary consistent rate-limit state, one call of the real function; asserted effect below. */
#include "vp.h"
#include "log_stub.h"
#include "locks.h"
#include "alloc.h"
#include <sys/queue.h>
#include "event2/event-config.h"
#include "evconfig-private.h"
#include "event2/event.h"
#include "event2/event_struct.h"
#include "event2/bufferevent.h"
#include "util-internal.h"
#include "bufferevent-internal.h"

#define NMEM 3
#ifndef VP_NMEM
#define VP_NMEM 3
#endif
#ifndef VP_WITH_CFG
#define VP_WITH_CFG 1
#endif
#ifndef VP_WITH_GROUP
#define VP_WITH_GROUP 1
#endif
/* ---- recorders for the event core / bufferevent core (their own behaviour: C01, C18, C20) ---- */
struct timeval vp_cached_now;
int event_base_gettimeofday_cached(struct event_base *base, struct timeval *tv) { (void)base; *tv = vp_cached_now; return 0; }
const struct event *vp_added[4]; int vp_nadded, vp_ndeleted, vp_event_add_fail; const struct timeval *vp_added_tv;
int event_add(struct event *ev, const struct timeval *tv) { if (vp_nadded < 4) vp_added[vp_nadded] = ev; vp_nadded++; vp_added_tv = tv; return vp_event_add_fail ? -1 : 0; }
int event_del(struct event *ev) { (void)ev; vp_ndeleted++; return 0; }
int event_assign(struct event *ev, struct event_base *b, evutil_socket_t fd, short what, event_callback_fn cb, void *arg) { (void)ev;(void)b;(void)fd;(void)what;(void)cb;(void)arg; return 0; }
int event_initialized(const struct event *ev) { (void)ev; return 1; }
struct event_base *event_get_base(const struct event *ev) { (void)ev; return NULL; }
void bufferevent_suspend_read_(struct bufferevent *bev, bufferevent_suspend_flags what) { BEV_UPCAST(bev)->read_suspended |= what; }
void bufferevent_unsuspend_read_(struct bufferevent *bev, bufferevent_suspend_flags what) { BEV_UPCAST(bev)->read_suspended &= ~what; }
void bufferevent_suspend_write_(struct bufferevent *bev, bufferevent_suspend_flags what) { BEV_UPCAST(bev)->write_suspended |= what; }
void bufferevent_unsuspend_write_(struct bufferevent *bev, bufferevent_suspend_flags what) { BEV_UPCAST(bev)->write_suspended &= ~what; }
/* contract of evutil_weakrand_range_ (decided in C46): any value in [0, top) */
ev_int32_t evutil_weakrand_range_(struct evutil_weakrand_state *st, ev_int32_t top) { (void)st; VP_ASSERT(top >= 1, "C46: evutil_weakrand_range_ called with top < 1"); return (ev_int32_t)vp_range(0, (uint64_t)top - 1); }
ev_uint32_t evutil_weakrand_seed_(struct evutil_weakrand_state *st, ev_uint32_t seed) { st->seed = seed; return seed; }
#include "bufferevent_ratelim.c"

/* separate objects (not arrays of these large structs: a merged pointer into an array of structs turns every
 * access into byte-level extraction over the whole array) */
static struct bufferevent_private B0, B1, B2; static struct bufferevent_rate_limit R0_, R1_, R2_;
static struct bufferevent_private *const BP[NMEM] = { &B0, &B1, &B2 }; static struct bufferevent_rate_limit *const RP[NMEM] = { &R0_, &R1_, &R2_ };
#define B(i) (*BP[i])
#define R(i) (*RP[i])
static struct bufferevent_rate_limit_group G; static struct ev_token_bucket_cfg CFG;
static int nmem;

static void vp_cfg_sym(struct ev_token_bucket_cfg *c)
{
	memset(c, 0, sizeof(*c));
	c->read_rate = vp_size(); c->read_maximum = vp_size(); c->write_rate = vp_size(); c->write_maximum = vp_size();
	__CPROVER_assume(c->read_rate >= 1 && c->read_rate <= c->read_maximum && c->read_maximum <= EV_RATE_LIMIT_MAX);
	__CPROVER_assume(c->write_rate >= 1 && c->write_rate <= c->write_maximum && c->write_maximum <= EV_RATE_LIMIT_MAX);
	c->msec_per_tick = 1000; c->tick_timeout.tv_sec = 1;
}
/* an arbitrary consistent state: member 0 is the subject; own limit optional, group optional with 1..NMEM members */
static void vp_state(int with_cfg, int with_group)
{
	int i;
	memset(&B0, 0, sizeof(B0)); memset(&B1, 0, sizeof(B1)); memset(&B2, 0, sizeof(B2)); memset(&R0_, 0, sizeof(R0_)); memset(&R1_, 0, sizeof(R1_)); memset(&R2_, 0, sizeof(R2_)); memset(&G, 0, sizeof(G));
	vp_cfg_sym(&CFG);
	nmem = with_group ? VP_NMEM : 1;   /* group size is a structural parameter of the obligation (1..3) */
	for (i = 0; i < NMEM; i++) {
		B(i).rate_limiting = RP[i];
		B(i).max_single_read = (ev_ssize_t)vp_range(1, EV_SSIZE_MAX); B(i).max_single_write = (ev_ssize_t)vp_range(1, EV_SSIZE_MAX);
		B(i).read_suspended = (bufferevent_suspend_flags)(vp_u8() & (BEV_SUSPEND_BW | BEV_SUSPEND_BW_GROUP | BEV_SUSPEND_WM));
		B(i).write_suspended = (bufferevent_suspend_flags)(vp_u8() & (BEV_SUSPEND_BW | BEV_SUSPEND_BW_GROUP));
	}
	if (with_cfg) {
		R(0).cfg = &CFG;
		R(0).limit.read_limit = (ev_ssize_t)vp_u64(); R(0).limit.write_limit = (ev_ssize_t)vp_u64();
		__CPROVER_assume(R(0).limit.read_limit <= (ev_ssize_t)CFG.read_maximum && R(0).limit.write_limit <= (ev_ssize_t)CFG.write_maximum);
		R(0).limit.last_updated = vp_u32();
	}
	if (with_group) {
		LIST_INIT(&G.members);
		for (i = NMEM - 1; i >= 0; i--) if (i < nmem) { R(i).group = &G; LIST_INSERT_HEAD(&G.members, BP[i], rate_limiting->next_in_group); }
		G.n_members = nmem;
		vp_cfg_sym(&G.rate_limit_cfg);
		G.rate_limit.read_limit = (ev_ssize_t)vp_u64(); G.rate_limit.write_limit = (ev_ssize_t)vp_u64();
		__CPROVER_assume(G.rate_limit.read_limit <= (ev_ssize_t)G.rate_limit_cfg.read_maximum && G.rate_limit.write_limit <= (ev_ssize_t)G.rate_limit_cfg.write_maximum);
		G.rate_limit.last_updated = vp_u32();
		G.min_share = (ev_ssize_t)vp_range(0, EV_SSIZE_MAX);
		G.read_suspended = vp_bool(); G.write_suspended = vp_bool();
		G.pending_unsuspend_read = vp_bool(); G.pending_unsuspend_write = vp_bool();
	}
}
static ev_ssize_t lim(struct ev_token_bucket *b, int w) { return w ? b->write_limit : b->read_limit; }

/* (a) budget: what one read/write may transfer */
void harness_budget(void)
{
	int with_cfg = VP_WITH_CFG, with_group = VP_WITH_GROUP, w = vp_bool(); ev_ssize_t r, own = 0, grp = 0, share = 0; int gsusp = 0;
	vp_state(with_cfg, with_group);
	/* time: still in the tick of the last update (refill arithmetic is C21; here the bucket is taken as is) */
	vp_cached_now.tv_sec = 0; vp_cached_now.tv_usec = 0;
	if (with_cfg) R(0).limit.last_updated = 0;
	if (with_cfg) own = lim(&R(0).limit, w);
	if (with_group) { grp = lim(&G.rate_limit, w); gsusp = w ? G.write_suspended : G.read_suspended; share = grp / G.n_members; }
#ifdef KF_EXCLUDE_minshare
	if (with_group && !gsusp) __CPROVER_assume(share >= G.min_share);
#endif
#ifdef KF_ONLY_minshare
	__CPROVER_assume(with_group && !gsusp && share < G.min_share);
#endif
	r = w ? bufferevent_get_write_max_(&B(0)) : bufferevent_get_read_max_(&B(0));
	VP_ASSERT(r >= 0, "C22: negative transfer budget");
	if (!with_cfg && !with_group) { B(0).rate_limiting = NULL; }
	VP_ASSERT(r <= (w ? B(0).max_single_write : B(0).max_single_read) || with_cfg, "C22: budget exceeds the per-operation maximum");
	if (with_cfg) VP_ASSERT(r <= (own > 0 ? own : 0), "C22: budget exceeds what is left in the bufferevent's own bucket");
	if (with_group) {
		if (gsusp) {
			VP_ASSERT(r == 0, "C22: a member of a suspended group got a non-zero budget");
			VP_ASSERT((w ? B(0).write_suspended : B(0).read_suspended) & BEV_SUSPEND_BW_GROUP, "C22: member of a suspended group was not suspended");
		} else {
			VP_ASSERT(r <= (grp > 0 ? grp : 0), "C22: budget exceeds what is left in the group's bucket");
			VP_ASSERT(r <= (share > G.min_share ? share : G.min_share) || r == 0, "C22: budget exceeds the member's share of the group bucket");
		}
	}
	VP_ASSERT_NO_LOCKS("bufferevent_get_read_max_/write_max_");
	if (r > 0) VP_WITNESS("positive budget");
#if VP_WITH_GROUP && !defined(KF_ONLY_minshare)
	if (gsusp) VP_WITNESS("group suspended");
#endif
#if (VP_WITH_GROUP || VP_WITH_CFG) && !defined(KF_ONLY_minshare)
	if (r == 0) VP_WITNESS("no budget");
#endif
}

/* (b) accounting: exactly the bytes are charged; exhausted buckets suspend and arm the refill timer */
void harness_decrement(void)
{
	int with_cfg = VP_WITH_CFG, with_group = VP_WITH_GROUP, w = vp_bool(), rc; ev_ssize_t bytes = (ev_ssize_t)vp_range(0, (uint64_t)1 << 40), own0 = 0, grp0 = 0; ev_uint64_t tot0;
	bufferevent_suspend_flags s0;
	vp_state(with_cfg, with_group);
	__CPROVER_assume(!with_cfg || lim(&R(0).limit, w) > -((ev_ssize_t)1 << 62));
	__CPROVER_assume(!with_group || lim(&G.rate_limit, w) > -((ev_ssize_t)1 << 62));
	vp_event_add_fail = vp_bool();
	if (with_cfg) own0 = lim(&R(0).limit, w);
	if (with_group) { grp0 = lim(&G.rate_limit, w); G.total_read = G.total_written = vp_range(0, (uint64_t)1 << 50); }
	tot0 = G.total_read; s0 = w ? B(0).write_suspended : B(0).read_suspended;
	rc = w ? bufferevent_decrement_write_buckets_(&B(0), bytes) : bufferevent_decrement_read_buckets_(&B(0), bytes);
	if (with_cfg) {
		ev_ssize_t now = lim(&R(0).limit, w); bufferevent_suspend_flags s = w ? B(0).write_suspended : B(0).read_suspended;
		VP_ASSERT(now == own0 - bytes, "C22: own bucket not charged exactly the bytes transferred");
		if (now <= 0) {
			VP_ASSERT(s & BEV_SUSPEND_BW, "C22: exhausted own bucket did not suspend the direction");
			VP_ASSERT(vp_nadded >= 1 && vp_added[0] == &R(0).refill_bucket_event && vp_added_tv == &CFG.tick_timeout, "C22: exhausted own bucket did not arm the refill timer for one tick");
			VP_ASSERT((rc == -1) == (vp_event_add_fail != 0), "C22: failure to arm the refill timer must be reported");
		} else VP_ASSERT(!(s & BEV_SUSPEND_BW), "C22: direction left suspended although its bucket is positive");
	}
	if (with_group) {
		VP_ASSERT(lim(&G.rate_limit, w) == grp0 - bytes, "C22: group bucket not charged exactly the bytes transferred");
		VP_ASSERT((w ? G.total_written : G.total_read) == tot0 + (ev_uint64_t)bytes, "C22: group byte counter not advanced by the bytes transferred");
		if (lim(&G.rate_limit, w) <= 0) {
			int i; VP_ASSERT(w ? G.write_suspended : G.read_suspended, "C22: exhausted group bucket did not suspend the group");
			for (i = 0; i < NMEM; i++) if (i < nmem) VP_ASSERT((w ? B(i).write_suspended : B(i).read_suspended) & BEV_SUSPEND_BW_GROUP, "C22: a member was left running after the group bucket was exhausted");
		} else VP_ASSERT(!(w ? G.write_suspended : G.read_suspended), "C22: group left suspended although its bucket is positive");
	}
	if (!with_cfg && !with_group) VP_ASSERT(rc == 0, "C22: nothing to charge");
	(void)s0;
	VP_ASSERT_NO_LOCKS("bufferevent_decrement_*_buckets_");
#if VP_WITH_CFG
	if (lim(&R(0).limit, w) <= 0 && own0 > 0) VP_WITNESS("own bucket just exhausted");
#endif
#if VP_WITH_GROUP
	if (lim(&G.rate_limit, w) <= 0) VP_WITNESS("group exhausted");
	if (grp0 > bytes && (w ? !G.write_suspended : !G.read_suspended)) VP_WITNESS("group still positive");
#endif
#if !VP_WITH_GROUP && !VP_WITH_CFG
	VP_WITNESS("not limited");
#endif
}

/* (c) per-bufferevent refill: unsuspend exactly the directions whose bucket became positive; otherwise wait another tick */
void harness_refill(void)
{
	ev_ssize_t r0, w0; bufferevent_suspend_flags rs0, ws0;
	vp_state(1, 0);
	vp_cached_now.tv_sec = (long)vp_range(0, 3); vp_cached_now.tv_usec = 0; R(0).limit.last_updated = 0;   /* 0..3 ticks later */
	r0 = R(0).limit.read_limit; w0 = R(0).limit.write_limit; rs0 = B(0).read_suspended; ws0 = B(0).write_suspended;
	bev_refill_callback_(-1, EV_TIMEOUT, &B(0));
	if (rs0 & BEV_SUSPEND_BW) VP_ASSERT(((B(0).read_suspended & BEV_SUSPEND_BW) == 0) == (R(0).limit.read_limit > 0), "C22: reading resumes exactly when the read bucket is positive after the refill");
	else VP_ASSERT((B(0).read_suspended & BEV_SUSPEND_BW) == 0, "C22: refill suspended a running direction");
	if (ws0 & BEV_SUSPEND_BW) VP_ASSERT(((B(0).write_suspended & BEV_SUSPEND_BW) == 0) == (R(0).limit.write_limit > 0), "C22: writing resumes exactly when the write bucket is positive after the refill");
	VP_ASSERT((B(0).read_suspended & ~BEV_SUSPEND_BW) == (rs0 & ~BEV_SUSPEND_BW), "C22: refill touched an unrelated suspend reason");
	VP_ASSERT(((B(0).read_suspended | B(0).write_suspended) & BEV_SUSPEND_BW) ? (vp_nadded == 1 && vp_added_tv == &CFG.tick_timeout) : vp_nadded == 0, "C22: refill timer re-armed iff a direction is still out of budget");
	VP_ASSERT(R(0).limit.read_limit >= r0 && R(0).limit.write_limit >= w0, "C22: a refill lowered a bucket");
	VP_ASSERT_NO_LOCKS("bev_refill_callback_");
	if ((rs0 & BEV_SUSPEND_BW) && !(B(0).read_suspended & BEV_SUSPEND_BW)) VP_WITNESS("reading resumed");
	if ((rs0 & BEV_SUSPEND_BW) && (B(0).read_suspended & BEV_SUSPEND_BW)) VP_WITNESS("still in deficit");
}

/* (d) group refill + random start: every member is visited exactly once whatever the random first member */
static int vp_unsusp_count[NMEM];
void harness_group_refill(void)
{
	int i, was_susp, pending; ev_ssize_t r0;
	vp_state(0, 1);
	vp_cached_now.tv_sec = (long)vp_range(0, 3); vp_cached_now.tv_usec = 0; G.rate_limit.last_updated = 0;
	for (i = 0; i < NMEM; i++) if (i < nmem) { B(i).read_suspended |= BEV_SUSPEND_BW_GROUP; }
	was_susp = G.read_suspended; pending = G.pending_unsuspend_read; r0 = G.rate_limit.read_limit;
	bev_group_refill_callback_(-1, EV_TIMEOUT, &G);
	VP_ASSERT(G.rate_limit.read_limit >= r0, "C22: a refill lowered the group bucket");
	if (pending || (was_susp && G.rate_limit.read_limit >= G.min_share)) {
		VP_ASSERT(!G.read_suspended, "C22: group not resumed although its bucket reached the minimum share");
		for (i = 0; i < NMEM; i++) if (i < nmem) VP_ASSERT(!(B(i).read_suspended & BEV_SUSPEND_BW_GROUP), "C22: a group member was skipped when the group resumed (random starting member)");
		VP_WITNESS("group resumed");
	} else {
		VP_ASSERT(G.read_suspended == (unsigned)was_susp, "C22: group state changed without reason");
		for (i = 0; i < NMEM; i++) if (i < nmem) VP_ASSERT(B(i).read_suspended & BEV_SUSPEND_BW_GROUP, "C22: a member resumed although the group bucket is below the minimum share");
		if (was_susp) VP_WITNESS("group stays suspended");
	}
	VP_ASSERT_NO_LOCKS("bev_group_refill_callback_");
	(void)vp_unsusp_count;
}
