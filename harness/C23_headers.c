/* C23 (b): header section.  The real evhttp_parse_headers_() (field split at the
 * first colon, OWS trimming, obs-fold via evhttp_append_to_last_header,
 * evhttp_add_header validation, evhttp_add_header_internal) on up to VP_L
 * symbolic lines of up to VP_N bytes against ref_header_section() (RFC 9112 5).
 *
 * Line extraction is the contract model env/http_lines.h (the real
 * evbuffer_readln is the subject of C23_segment).
 *
 * Known-finding predicates:
 *   KF_WS_COLON   a field line (first byte not SP/HTAB) with SP or HTAB directly before its first colon
 *   KF_OWS_HTAB   a field line whose value starts, after optional SP, with HTAB (only SP is skipped)
 *   KF_VALUE_CTL  a line containing NUL, or a field line / continuation containing CR
 */
#include "vp.h"
#include "log_stub.h"
#include "http_fmt.h"
#include "http_alloc.h"
#include "http_evutil.h"
#include "http.c"
#include "http_lines.h"
#define REF_MAXLINES VP_L
#define REF_MAXLINE (VP_N + 1)
#include "http_ref.h"

static struct bufferevent vp_bev;
static char vp_inbuf_identity;

static int kf_ws_colon(const ref_u8 *l, size_t n)
{
	size_t i;
	if (n == 0 || ref_is_ows(l[0])) return 0;
	for (i = 0; i < VP_N && i < n; i++)
		if (l[i] == ':') return i > 0 && ref_is_ows(l[i - 1]);
	return 0;
}
static int kf_ows_htab(const ref_u8 *l, size_t n)
{
	size_t i;
	if (n == 0 || ref_is_ows(l[0])) return 0;
	for (i = 0; i < VP_N && i < n; i++)
		if (l[i] == ':') break;
	if (i >= n) return 0;
	i++;
	{ size_t j; for (j = 0; j < VP_N && i < n && l[i] == ' '; j++) i++; }
	return i < n && l[i] == '\t';
}
static int kf_value_ctl(const ref_u8 *l, size_t n)
{
	size_t i;
	for (i = 0; i < VP_N && i < n; i++)
		if (l[i] == '\0' || l[i] == '\r') return 1;
	return 0;
}

void harness_headers(void)
{
	struct evhttp_request req;
	struct evhttp_connection evcon;
	struct evkeyvalq in_headers;
	struct ref_hsection H;
	const ref_u8 *lp[VP_L];
	size_t i, k, nf;
	struct evkeyval *kv;
	enum message_read_status st;
	int any_ws_colon = 0, any_ows_htab = 0, any_ctl = 0;

	memset(&req, 0, sizeof(req));
	memset(&evcon, 0, sizeof(evcon));
	TAILQ_INIT(&in_headers);
	req.input_headers = &in_headers;
	req.evcon = &evcon;
	req.kind = EVHTTP_REQUEST;
	evcon.bufev = &vp_bev;
	evcon.max_headers_size = EV_SIZE_MAX;
	vp_lines_buf = (struct evbuffer *)&vp_inbuf_identity;

	vp_lines_symbolic(1);
	vp_residual = 0;
	for (i = 0; i < VP_L; i++) {
		lp[i] = (const ref_u8 *)vp_lines[i];
		if (i < vp_nlines) {
			if (kf_ws_colon(lp[i], vp_line_len[i])) any_ws_colon = 1;
			if (kf_ows_htab(lp[i], vp_line_len[i])) any_ows_htab = 1;
			if (kf_value_ctl(lp[i], vp_line_len[i])) any_ctl = 1;
		}
	}
#ifdef KF_EXCLUDE_WS_COLON
	__CPROVER_assume(!any_ws_colon);
#endif
#ifdef KF_EXCLUDE_OWS_HTAB
	__CPROVER_assume(!any_ows_htab);
#endif
#ifdef KF_EXCLUDE_VALUE_CTL
	__CPROVER_assume(!any_ctl);
#endif
#ifdef KF_ONLY_WS_COLON
	__CPROVER_assume(any_ws_colon && !any_ows_htab && !any_ctl);
#endif
#ifdef KF_ONLY_OWS_HTAB
	__CPROVER_assume(any_ows_htab && !any_ws_colon && !any_ctl);
#endif
#ifdef KF_ONLY_VALUE_CTL
	__CPROVER_assume(any_ctl && !any_ws_colon && !any_ows_htab);
#endif
#if defined(KF_ONLY_WS_COLON) || defined(KF_ONLY_OWS_HTAB) || defined(KF_ONLY_VALUE_CTL)
#define VP_KF_ONLY 1
#else
#define VP_KF_ONLY 0
#endif

	ref_header_section(lp, vp_line_len, vp_nlines, &H);

	st = evhttp_parse_headers_(&req, vp_lines_buf);

	VP_ASSERT(st == ALL_DATA_READ || st == MORE_DATA_EXPECTED || st == DATA_CORRUPTED,
	    "C23: evhttp_parse_headers_ status is ALL_DATA_READ, MORE_DATA_EXPECTED or DATA_CORRUPTED (no size limit set)");
	if (st == DATA_CORRUPTED) {
		/* completeness: a header section in which every line is grammatical is not refused */
		VP_ASSERT(!(H.strict && H.status != REF_H_REJECT), "C23: grammatical header section rejected");
#if !VP_KF_ONLY
		VP_WITNESS("header section rejected");
#endif
	} else {
		/* soundness: what RFC 9112 requires to be rejected is rejected */
		VP_ASSERT(H.status != REF_H_REJECT, "C23: header section accepted that RFC 9112 requires to be rejected (no colon / empty name / white space before colon)");
		VP_ASSERT((st == ALL_DATA_READ) == (H.status == REF_H_DONE), "C23: end of header section recognised exactly at the first empty line");
		VP_ASSERT(vp_line_next == H.nlines_used, "C23: parser consumes exactly the lines of the header section");
		/* the field list handed on is the reference's */
		nf = 0;
		TAILQ_FOREACH(kv, &in_headers, next) {
			if (nf < H.nfields) {
				const struct ref_hfield *f = &H.f[nf];
				int same = 1;
				size_t vl;
				for (k = 0; k < VP_N; k++)
					if (k < f->name_len && (ref_u8)kv->key[k] != f->name[k]) same = 0;
				VP_ASSERT(same && kv->key[f->name_len < VP_STR_OBJ ? f->name_len : 0] == '\0', "C23: field name handed on != field name on the wire");
				same = 1;
				for (k = 0; k < VP_L * (VP_N + 1); k++)
					if (k < f->value_len && (ref_u8)kv->value[k] != f->value[k]) same = 0;
				vl = strlen(kv->value);
				if (f->folded) {
					/* obs-fold replaced by SP: compare modulo trailing OWS (an all-blank continuation line leaves a trailing SP) */
					size_t rl = f->value_len;
					for (k = 0; k < VP_L * (VP_N + 1) && rl > 0 && ref_is_ows(f->value[rl - 1]); k++) rl--;
					for (k = 0; k < VP_L * (VP_N + 1) && vl > 0 && ref_is_ows((ref_u8)kv->value[vl - 1]); k++) vl--;
					VP_ASSERT(same && vl == rl, "C23: folded field value handed on != unfolded value (obs-fold -> SP)");
				} else {
					VP_ASSERT(same && vl == f->value_len, "C23: field value handed on != OWS-trimmed field value on the wire");
				}
			}
			nf++;
		}
		VP_ASSERT(nf == H.nfields, "C23: number of fields handed on != number of field lines");
#if !VP_KF_ONLY
		if (st == ALL_DATA_READ && nf == 1) VP_WITNESS("section with one field complete");
		if (st == MORE_DATA_EXPECTED && nf == 1 && H.f[0].folded) VP_WITNESS("folded field, more data expected");
#if VP_L >= 2
		if (st == MORE_DATA_EXPECTED && nf == 2) VP_WITNESS("two fields, more data expected");
#endif
#endif
	}
#if VP_KF_ONLY
	VP_WITNESS("known-finding region reached");
#endif
	evhttp_clear_headers(&in_headers);
}
