/* C40: the port half of the sockaddr text round trip (evutil_parse_sockaddr_port / evutil_format_sockaddr_port_).
 *
 * The whole round trip over symbolic addresses is out of reach (props/C40.py OUT): cbmc walks the IPv4 and the
 * IPv6 reading of every symbolic character.  Here the ADDRESS part of the text is a fixed literal and the two
 * address parsers are cut at their call sites inside evutil_parse_sockaddr_port (goto-instrument --replace-calls)
 * by recorders that assert they were handed exactly that literal (their own syntax is decided by the pton4/pton6
 * obligations).  What stays symbolic is everything evutil_parse_sockaddr_port itself decides about the PORT:
 * splitting at ':' / "]:", atoi, the range test, htons, family, length and scope id of the result.
 *
 *   harness_port_parse : text = <literal> + up to VP_PD arbitrary bytes (solver-chosen, NUL anywhere)
 *   harness_port_rt    : real evutil_format_sockaddr_port_ of the fixed address with ANY port 1..65535, then the
 *                        real evutil_parse_sockaddr_port of that text: same family, address and port
 */
#include "vp.h"
#include "log_stub.h"
#include "locks.h"
#include "alloc.h"
#include "inet_fmt.h"
#include <net/if.h>
unsigned int if_nametoindex(const char *name) { (void)name; return 0; }
#include "http_evutil.h"      /* the real evutil.c (memset work-around for goto-instrument passes, see there) */
#include "strlcpy.c"

#ifndef VP_PD
#define VP_PD 6
#endif
#ifdef VP_V6
#define LIT_TEXT "[::1]:"
#define LIT_ADDR "::1"
#define LIT_AF AF_INET6
#else
#define LIT_TEXT "1.2.3.4:"
#define LIT_ADDR "1.2.3.4"
#define LIT_AF AF_INET
#endif
static const unsigned char lit_v4[4] = { 1, 2, 3, 4 };
static const unsigned char lit_v6[16] = { 0,0,0,0, 0,0,0,0, 0,0,0,0, 0,0,0,1 };

static int pton_calls;
static void cut_common(int af, const char *src, void *dst)
{
	size_t i; const char *want = LIT_ADDR;
	pton_calls++;
	VP_ASSERT(af == LIT_AF, "C40: evutil_parse_sockaddr_port parses the address part with the wrong family");
	for (i = 0; i < sizeof(LIT_ADDR); i++)
		VP_ASSERT(src[i] == want[i], "C40: evutil_parse_sockaddr_port hands a different address text to the address parser than the text before the port separator");
	if (af == AF_INET) { for (i = 0; i < 4; i++) ((unsigned char *)dst)[i] = lit_v4[i]; }
	else { for (i = 0; i < 16; i++) ((unsigned char *)dst)[i] = lit_v6[i]; }
}
int vp_cut_pton(int af, const char *src, void *dst) { cut_common(af, src, dst); return 1; }
int vp_cut_pton_scope(int af, const char *src, void *dst, unsigned *indexp) { cut_common(af, src, dst); if (indexp) *indexp = 0; return 1; }

static void check_result(const struct sockaddr_storage *ss, int outlen, unsigned port)
{
	size_t i;
#ifdef VP_CBMC   /* native replay links the real address parsers instead of the recorders */
	VP_ASSERT(pton_calls == 1, "C40: address part parsed exactly once");
#endif
#ifdef VP_V6
	{
		const struct sockaddr_in6 *s6 = (const struct sockaddr_in6 *)ss;
		VP_ASSERT(outlen == (int)sizeof(*s6), "C40: parse_sockaddr_port reports the length of a sockaddr_in6");
		VP_ASSERT(s6->sin6_family == AF_INET6, "C40: parse_sockaddr_port of a bracketed text yields AF_INET6");
		VP_ASSERT(s6->sin6_port == htons((unsigned short)port), "C40: parse_sockaddr_port port differs from the decimal port in the text");
		VP_ASSERT(s6->sin6_scope_id == 0 && s6->sin6_flowinfo == 0, "C40: parse_sockaddr_port leaves scope/flow zero for an unscoped address");
		for (i = 0; i < 16; i++) VP_ASSERT(s6->sin6_addr.s6_addr[i] == lit_v6[i], "C40: parse_sockaddr_port address bytes");
	}
#else
	{
		const struct sockaddr_in *s4 = (const struct sockaddr_in *)ss;
		VP_ASSERT(outlen == (int)sizeof(*s4), "C40: parse_sockaddr_port reports the length of a sockaddr_in");
		VP_ASSERT(s4->sin_family == AF_INET, "C40: parse_sockaddr_port of a dotted text yields AF_INET");
		VP_ASSERT(s4->sin_port == htons((unsigned short)port), "C40: parse_sockaddr_port port differs from the decimal port in the text");
		for (i = 0; i < 4; i++) VP_ASSERT(((const unsigned char *)&s4->sin_addr)[i] == lit_v4[i], "C40: parse_sockaddr_port address bytes");
		for (i = 0; i < 8; i++) VP_ASSERT(s4->sin_zero[i] == 0, "C40: parse_sockaddr_port zeroes the sockaddr_in padding");
	}
#endif
}

/* decimal value of an all-digit string of 1..VP_PD characters, -1 when it is not all digits */
static long ref_decimal(const char *d, int *canonical)
{
	long v = 0; int i;
	if (!d[0]) return -1;
	for (i = 0; i < VP_PD && d[i]; i++) {
		if (d[i] < '0' || d[i] > '9') return -1;
		v = v * 10 + (d[i] - '0');
	}
	*canonical = d[0] != '0';
	return v;
}

void harness_port_parse(void)
{
	char text[sizeof(LIT_TEXT) + VP_PD]; struct sockaddr_storage ss; int outlen = (int)sizeof(ss), r, i, canonical = 0; long v;
	char *d = text + sizeof(LIT_TEXT) - 1;
	for (i = 0; i < (int)sizeof(LIT_TEXT) - 1; i++) text[i] = LIT_TEXT[i];
	for (i = 0; i < VP_PD; i++) d[i] = (char)vp_u8();
	d[VP_PD] = 0;
	for (i = 0; i < VP_PD; i++) __CPROVER_assume(d[i] != ':' && d[i] != ']');   /* a second ':' makes the text an (unbracketed) IPv6 address: no port */
	memset(&ss, 0xAA, sizeof(ss));
	r = evutil_parse_sockaddr_port(text, (struct sockaddr *)&ss, &outlen);
	v = ref_decimal(d, &canonical);
	if (v >= 0) {
		/* all-digit port text */
		if (v >= 1 && v <= 65535) {
			VP_ASSERT(r == 0, "C40: evutil_parse_sockaddr_port rejects a decimal port in 1..65535 (the text evutil_format_sockaddr_port_ writes for that port does not parse back)");
			check_result(&ss, outlen, (unsigned)v);
			if (v == 65535) VP_WITNESS("port 65535");
			if (v == 1) VP_WITNESS("port 1");
		} else {
			VP_ASSERT(r == -1, "C40: evutil_parse_sockaddr_port accepts a port outside 1..65535");
			VP_WITNESS("port out of range");
		}
	} else if (r == 0) {
		/* anything else that is accepted still yields a port in 1..65535 and the literal address */
		const struct sockaddr_in *s4 = (const struct sockaddr_in *)&ss; unsigned p = ntohs(s4->sin_port);   /* sin_port and sin6_port share the offset */
		VP_ASSERT(p >= 1, "C40: evutil_parse_sockaddr_port accepts a text with a port separator and yields port 0");
		check_result(&ss, outlen, p);
		VP_WITNESS("lenient atoi text accepted");
	} else {
		VP_ASSERT(r == -1, "C40: evutil_parse_sockaddr_port returns 0 or -1");
		VP_ASSERT(outlen == (int)sizeof(ss), "C40: a failed evutil_parse_sockaddr_port leaves *outlen alone");
		VP_WITNESS("rejected");
	}
}

void harness_port_rt(void)
{
	struct sockaddr_storage in, out; char text[64]; int outlen = (int)sizeof(out), r, i; unsigned port = (unsigned)vp_range(1, 65535); const char *t;
	memset(&in, 0, sizeof(in));
#ifdef VP_V6
	{ struct sockaddr_in6 *s6 = (struct sockaddr_in6 *)&in; s6->sin6_family = AF_INET6; s6->sin6_port = htons((unsigned short)port); for (i = 0; i < 16; i++) s6->sin6_addr.s6_addr[i] = lit_v6[i]; }
#else
	{ struct sockaddr_in *s4 = (struct sockaddr_in *)&in; s4->sin_family = AF_INET; s4->sin_port = htons((unsigned short)port); for (i = 0; i < 4; i++) ((unsigned char *)&s4->sin_addr)[i] = lit_v4[i]; }
#endif
	t = evutil_format_sockaddr_port_((struct sockaddr *)&in, text, sizeof(text));
	VP_ASSERT(t == text, "C40: evutil_format_sockaddr_port_ returns its buffer");
	for (i = 0; i < (int)sizeof(LIT_TEXT) - 1; i++) VP_ASSERT(text[i] == LIT_TEXT[i], "C40: evutil_format_sockaddr_port_ writes '<address>:' / '[<address>]:' before the port");
	memset(&out, 0xAA, sizeof(out));
	r = evutil_parse_sockaddr_port(text, (struct sockaddr *)&out, &outlen);
	VP_ASSERT(r == 0, "C40: the text written by evutil_format_sockaddr_port_ for a non-zero port is rejected by evutil_parse_sockaddr_port");
	check_result(&out, outlen, port);
	if (port == 65535) VP_WITNESS("rt 65535");
	if (port < 10) VP_WITNESS("rt one digit");
}
