/* C31(a): get_ws_frame (ws.c) vs the RFC 6455 reference header decoder, memory safety on an exact-size buffer */
#include "vp.h"
#include "log_stub.h"
#include "locks.h"
#include "alloc.h"
#include "ws_ref.h"
#include "ws_env.h"
#include "ws.c"

#ifndef VP_N
#define VP_N 14
#endif
void harness_get_ws_frame(void)
{
	unsigned char buf[VP_N], orig[VP_N], *payload = NULL; size_t n = (size_t)vp_range(0, VP_N), out_len = 0, i;
	struct ws_ref_frame f; int rr; enum WebSocketFrameType t;
	vp_bytes(buf, VP_N);
	for (i = 0; i < VP_N; i++) orig[i] = buf[i];
	rr = ws_ref_header(orig, n, &f);
	t = get_ws_frame(buf, n, &payload, &out_len);
	if (rr == WSR_MORE) {
		/* an oversized 64-bit length may be rejected before the frame is complete */
		uint64_t l64 = 0; int q;
		for (q = 0; q < 8; q++) l64 = (l64 << 8) | orig[(2 + q) % VP_N];
		if (!(t == ERROR_FRAME && n >= 10 && (orig[1] & 0x7f) == 127 && l64 > 10485760u))
			VP_ASSERT(t == INCOMPLETE_DATA, "C31: frame decoder did not wait for a frame that is not completely buffered");
		if (t == INCOMPLETE_DATA) {
			i = (size_t)vp_range(0, VP_N - 1);
			VP_ASSERT(buf[i] == orig[i], "C31: frame decoder modified the buffer of an incomplete frame");
			VP_WITNESS("incomplete");
		}
		return;
	}
	/* complete frame (rr == WSR_OK) */
	VP_ASSERT(t != INCOMPLETE_DATA, "C31: frame decoder reports a completely buffered frame as incomplete");
	if (f.payload_len > 10485760u) { VP_ASSERT(t == ERROR_FRAME, "C31: frame above the size limit must be an error"); return; }
	VP_ASSERT(payload == buf + f.hdr_len, "C31: payload pointer is not the byte after the frame header");
	VP_ASSERT(out_len == (size_t)f.payload_len, "C31: decoded payload length differs from the RFC 6455 length field");
	i = (size_t)vp_range(0, VP_N - 1);
	if (i < f.payload_len && f.hdr_len + i < VP_N) {
		unsigned char want = orig[f.hdr_len + i];
		if (f.masked) want ^= f.mask[i % 4];
		VP_ASSERT(payload[i] == want, "C31: decoded payload byte differs from the (unmasked) RFC 6455 payload");
	}
	if (ws_ref_is_reserved(f.opcode)) VP_ASSERT(t == ERROR_FRAME, "C31: reserved opcode must be an error");
	else if (f.opcode == 1 && f.fin) VP_ASSERT(t == TEXT_FRAME, "C31: final text frame classified wrongly");
	else if (f.opcode == 2 && f.fin) VP_ASSERT(t == BINARY_FRAME, "C31: final binary frame classified wrongly");
	else if (f.opcode == 8) VP_ASSERT(t == CLOSING_FRAME, "C31: close frame classified wrongly");
	else if (f.opcode == 9) VP_ASSERT(t == PING_FRAME, "C31: ping frame classified wrongly");
	else if (f.opcode == 10) VP_ASSERT(t == PONG_FRAME, "C31: pong frame classified wrongly");
	else if (!f.fin) VP_ASSERT(t == INCOMPLETE_FRAME, "C31: non-final data/continuation fragment must be held back");
	if (f.masked && f.payload_len >= 3 && t == TEXT_FRAME) VP_WITNESS("masked text frame with payload");
	if (!f.masked && t == BINARY_FRAME && f.hdr_len == 4) VP_WITNESS("16-bit length binary frame");
	if (f.hdr_len == 14) VP_WITNESS("64-bit length masked frame header");
	if (t == INCOMPLETE_FRAME) VP_WITNESS("fragment");
}
