/* C42: tagged data (event_tagging.c) on real small evbuffers (buffer.c, 64-byte chains).
 *
 * Two entry points, selected/parameterised by -D defines (props/C42.py):
 *
 * harness_roundtrip   RT=RT_*   every value of the marshalled item is solver-chosen; the wire
 *     bytes must equal the reference encoding (ref/tag_ref.h), the peek functions must
 *     report it without consuming, and the matching unmarshal/decode must return the same
 *     tag, length and value and leave the buffer empty ("read back in order": VP_PRE
 *     concrete bytes are stored before the item and drained before decoding, so that the
 *     item straddles a chain boundary and decoders have to pull up across chains).
 *
 * harness_decode      DEC=DEC_*  an arbitrary byte string of solver-chosen length L <= VP_L,
 *     split at a solver-chosen position into two EXACT-SIZE user arrays referenced by two
 *     evbuffer_add_reference chains (so cbmc's pointer checks see the real end of the
 *     data: DESIGN 3.3), handed to one decoder.  Success => the reference parser accepts
 *     the same bytes as exactly one item with the same values, exactly that item was
 *     consumed (length and remaining bytes), peekers consume nothing.  Any read outside
 *     the two arrays is a cbmc pointer-check failure.
 *     KF_EXCLUDE_TAG6 / KF_ONLY_TAG6: predicate-guarded pair for the decode_tag_internal
 *     over-read (first chain ends exactly after five continuation bytes).
 */
#include "vp.h"
#include "log_stub.h"
#define VP_LOCKS_OFF
#include "locks.h"
#include "evbuf_alloc.h"
#include "evbuf_copy.h"
#include "buffer.c"
#include "evbuf_link.h"
#include "evbuf_inv.h"

/* ---- size concretisation between event_tagging.c and buffer.c (DESIGN 3.4: an evbuffer operation whose size argument is
 * symbolic makes every later offset symbolic).  The sizes event_tagging.c passes are data dependent; the harness splits
 * the inputs into classes in which they are known, publishes the class's sizes as CONCRETE candidates, and these wrappers
 * call the real buffer.c function with the candidate that EQUALS the requested size -- checked: a request outside the
 * candidate set is an assertion failure, so nothing is assumed about the library. ---- */
#define VP_NCAND 6
static size_t vp_cand[VP_NCAND]; static int vp_ncand;
static void vp_cands(size_t a, size_t b, size_t c, size_t d, size_t e, size_t f, int n)
{ vp_cand[0] = a; vp_cand[1] = b; vp_cand[2] = c; vp_cand[3] = d; vp_cand[4] = e; vp_cand[5] = f; vp_ncand = n; }
static unsigned char *vp_t_pullup(struct evbuffer *b, ev_ssize_t n)
{
	int c;
	for (c = 0; c < VP_NCAND; c++)
		if (c < vp_ncand && (size_t)n == vp_cand[c]) return evbuffer_pullup(b, (ev_ssize_t)vp_cand[c]);
	VP_ASSERT(0, "harness: evbuffer_pullup size outside the predicted class sizes");
	__CPROVER_assume(0);
	return NULL;
}
static int vp_t_drain(struct evbuffer *b, size_t n)
{
	int c;
	for (c = 0; c < VP_NCAND; c++)
		if (c < vp_ncand && n == vp_cand[c]) return evbuffer_drain(b, vp_cand[c]);
	VP_ASSERT(0, "harness: evbuffer_drain size outside the predicted class sizes");
	__CPROVER_assume(0);
	return -1;
}
static int vp_t_add(struct evbuffer *b, const void *d, size_t n)
{
	int c;
	for (c = 0; c < VP_NCAND; c++)
		if (c < vp_ncand && n == vp_cand[c]) return evbuffer_add(b, d, vp_cand[c]);
	VP_ASSERT(0, "harness: evbuffer_add size outside the predicted class sizes");
	__CPROVER_assume(0);
	return -1;
}
static int vp_t_remove(struct evbuffer *b, void *d, size_t n)
{
	int c;
	for (c = 0; c < VP_NCAND; c++)
		if (c < vp_ncand && n == vp_cand[c]) return evbuffer_remove(b, d, vp_cand[c]);
	VP_ASSERT(0, "harness: evbuffer_remove size outside the predicted class sizes");
	__CPROVER_assume(0);
	return -1;
}
#ifdef VP_CBMC
#define evbuffer_pullup vp_t_pullup
#define evbuffer_drain vp_t_drain
#define evbuffer_add vp_t_add
#define evbuffer_remove vp_t_remove
#endif
#include "event_tagging.c"
#undef evbuffer_pullup
#undef evbuffer_drain
#undef evbuffer_add
#undef evbuffer_remove
#include "tag_ref.h"

enum { RT_INT = 1, RT_INT64, RT_TAG, RT_MINT, RT_MINT64, RT_TIMEVAL, RT_STRING, RT_RAW, RT_FIXED, RT_CONSUME, RT_BUFFER, RT_SEQ, RT_WRONGTAG };
enum { DEC_INT = 1, DEC_INT64, DEC_TAG, DEC_PEEK, DEC_PEEK_LENGTH, DEC_PAYLOAD_LENGTH, DEC_HEADER, DEC_CONSUME, DEC_UNMARSHAL,
       DEC_UINT, DEC_UINT64, DEC_FIXED, DEC_STRING, DEC_TIMEVAL };

#ifndef VP_PRE
#define VP_PRE 0
#endif
#ifndef VP_STR
#define VP_STR 4          /* longest string / raw payload in the round trips */
#endif
#ifndef VP_L
#define VP_L 12           /* longest arbitrary byte string */
#endif
#define EXP_MAX 40

/* Cuts WITH proof (props: --replace-calls): no buffer of this harness holds multicast or file-segment chains and no
 * evbuffer is freed, so the only callers of these two are infeasible branches of evbuffer_chain_free that symex cannot
 * prune by itself (flags are symbolic after a merge).  The replacement asserts that it is never reached. */
void vp_cut_decref(struct evbuffer *b) { (void)b; VP_ASSERT(0, "harness: evbuffer_decref_and_unlock_ reached (no multicast chain and no evbuffer_free in this harness)"); __CPROVER_assume(0); }
void vp_cut_segfree(struct evbuffer_file_segment *s) { (void)s; VP_ASSERT(0, "harness: evbuffer_file_segment_free reached (no file segment in this harness)"); __CPROVER_assume(0); }

static struct evbuffer *B;
static unsigned char vp_exp[EXP_MAX]; static size_t vp_explen;

static void mkbuf(void)
{
	B = evbuffer_new();
	__CPROVER_assume(B != NULL);
#if VP_PRE
	{
		unsigned char junk[VP_PRE];
		vp_bytes(junk, VP_PRE);
		__CPROVER_assume(evbuffer_add(B, junk, VP_PRE) == 0);
	}
#endif
}
/* the item's bytes on the wire == reference encoding (every position: one solver-chosen index) */
static void check_wire(const char *unused)
{
	size_t i;
	(void)unused;
	vp_evb_check(B, "");
	VP_ASSERT(evbuffer_get_length(B) == VP_PRE + vp_explen, "C42: marshalled item has a different length than the wire format prescribes");
	i = vp_size();
	if (i < vp_explen)
		VP_ASSERT(vp_evb_byte(B, VP_PRE + i) == vp_exp[i], "C42: marshalled bytes differ from the wire format");
#if VP_PRE
	/* the earlier item is read first */
	__CPROVER_assume(evbuffer_drain(B, VP_PRE) == 0);
#endif
}
static void exp_tag(ev_uint32_t t) { vp_explen += (size_t)tagref_enc_tag(vp_exp + vp_explen, t); }
static void exp_int(ev_uint64_t v) { vp_explen += (size_t)tagref_enc_int(vp_exp + vp_explen, v); }
static void exp_bytes(const unsigned char *p, size_t n) { size_t i; for (i = 0; i < VP_STR; i++) if (i < n) vp_exp[vp_explen + i] = p[i]; vp_explen += n; }
static void check_empty(void)
{
	vp_evb_check(B, "");
	VP_ASSERT(evbuffer_get_length(B) == 0, "C42: unmarshalling did not consume exactly the marshalled item");
}

#ifdef RT
void harness_roundtrip(void)
{
	mkbuf();
#if RT == RT_INT
	{
		ev_uint32_t v = vp_u32(), o = 0;
		evtag_encode_int(B, v);
		exp_int(v); check_wire("");
		VP_ASSERT(evtag_decode_int(&o, B) == 0, "C42: evtag_decode_int rejects an encoded integer");
		VP_ASSERT(o == v, "C42: 32-bit integer changed by encode/decode");
		check_empty();
	}
#elif RT == RT_INT64
	{
		ev_uint64_t v = vp_u64(), o = 0;
		evtag_encode_int64(B, v);
		exp_int(v); check_wire("");
		VP_ASSERT(evtag_decode_int64(&o, B) == 0, "C42: evtag_decode_int64 rejects an encoded integer");
		VP_ASSERT(o == v, "C42: 64-bit integer changed by encode/decode");
		check_empty();
	}
#elif RT == RT_TAG
	{
		ev_uint32_t t = vp_u32(), o = 0, o2 = 0; int n, m;
		n = evtag_encode_tag(B, t);
		exp_tag(t);
		VP_ASSERT(n == (int)vp_explen, "C42: evtag_encode_tag returns the number of bytes of the encoded tag");
		VP_ASSERT(evtag_encode_tag(NULL, t) == n, "C42: evtag_encode_tag(NULL) reports the same size");
		check_wire("");
		m = evtag_peek(B, &o2);
		VP_ASSERT(m == n && o2 == t, "C42: evtag_peek does not report the encoded tag");
		VP_ASSERT(evbuffer_get_length(B) == (size_t)n, "C42: evtag_peek consumed data");
		m = evtag_decode_tag(&o, B);
		VP_ASSERT(m == n, "C42: evtag_decode_tag does not return the encoded size");
		VP_ASSERT(o == t, "C42: tag changed by encode/decode");
		check_empty();
	}
#elif RT == RT_MINT || RT == RT_WRONGTAG
	{
		ev_uint32_t t = vp_u32(), v = vp_u32(), o = 0, pl = 0, tl = 0; int r, il;
		unsigned char tmp[9];
		evtag_marshal_int(B, t, v);
		il = tagref_enc_int(tmp, v);
		exp_tag(t); exp_int((ev_uint64_t)il); exp_int(v); check_wire("");
#if RT == RT_WRONGTAG
		{
			ev_uint32_t other = vp_u32();
			__CPROVER_assume(other != t);
			VP_ASSERT(evtag_unmarshal_int(B, other, &o) == -1, "C42: evtag_unmarshal_int accepted an item with a different tag");
			VP_WITNESS("C42 wrong tag refused");
			return;
		}
#endif
		VP_ASSERT(evtag_payload_length(B, &pl) == 0 && pl == (ev_uint32_t)il, "C42: evtag_payload_length does not report the payload length");
		VP_ASSERT(evtag_peek_length(B, &tl) == 0 && tl == vp_explen, "C42: evtag_peek_length does not report the total item length");
		VP_ASSERT(evbuffer_get_length(B) == vp_explen, "C42: length peekers consumed data");
		r = evtag_unmarshal_int(B, t, &o);
		VP_ASSERT(r != -1, "C42: evtag_unmarshal_int rejects a marshalled integer");
		VP_ASSERT(o == v, "C42: 32-bit integer changed by marshal/unmarshal");
		check_empty();
	}
#elif RT == RT_MINT64
	{
		ev_uint32_t t = vp_u32(); ev_uint64_t v = vp_u64(), o = 0; int r, il;
		unsigned char tmp[9];
		evtag_marshal_int64(B, t, v);
		il = tagref_enc_int(tmp, v);
		exp_tag(t); exp_int((ev_uint64_t)il); exp_int(v); check_wire("");
		r = evtag_unmarshal_int64(B, t, &o);
		VP_ASSERT(r != -1, "C42: evtag_unmarshal_int64 rejects a marshalled integer");
		VP_ASSERT(o == v, "C42: 64-bit integer changed by marshal/unmarshal");
		check_empty();
	}
#elif RT == RT_TIMEVAL
	{
		ev_uint32_t t = vp_u32(); struct timeval tv, o; int r; unsigned char tmp[9]; int l1, l2;
		tv.tv_sec = (time_t)vp_u64(); tv.tv_usec = (suseconds_t)vp_u64();
#ifdef KF_ONLY_TV32
		__CPROVER_assume(tv.tv_usec >= 0 && tv.tv_usec < 1000000);
		__CPROVER_assume(!(tv.tv_sec >= 0 && (ev_uint64_t)tv.tv_sec <= 0xffffffffULL));
#else
		/* the wire format carries two unsigned 32-bit integers */
		__CPROVER_assume(tv.tv_sec >= 0 && (ev_uint64_t)tv.tv_sec <= 0xffffffffULL);
		__CPROVER_assume(tv.tv_usec >= 0 && tv.tv_usec < 1000000);
#endif
		o.tv_sec = -1; o.tv_usec = -1;
		evtag_marshal_timeval(B, t, &tv);
#ifndef KF_ONLY_TV32
		l1 = tagref_enc_int(tmp, (ev_uint64_t)tv.tv_sec); l2 = tagref_enc_int(tmp, (ev_uint64_t)tv.tv_usec);
		exp_tag(t); exp_int((ev_uint64_t)(l1 + l2)); exp_int((ev_uint64_t)tv.tv_sec); exp_int((ev_uint64_t)tv.tv_usec); check_wire("");
#else
		(void)tmp; (void)l1; (void)l2;
#endif
		r = evtag_unmarshal_timeval(B, t, &o);
		VP_ASSERT(r == 0, "C42: evtag_unmarshal_timeval rejects a marshalled timeval");
		VP_ASSERT(o.tv_sec == tv.tv_sec && o.tv_usec == tv.tv_usec, "C42: timeval changed by marshal/unmarshal");
		check_empty();
	}
#elif RT == RT_STRING
	{
		ev_uint32_t t = vp_u32(); char s[VP_STR + 1], *o = NULL; size_t n = vp_range(0, VP_STR), i; int r;
		vp_bytes(s, VP_STR);
		for (i = 0; i < VP_STR; i++) if (i < n) __CPROVER_assume(s[i] != 0);
		s[n] = 0;
		evtag_marshal_string(B, t, s);
		exp_tag(t); exp_int(n); exp_bytes((unsigned char *)s, n); check_wire("");
		r = evtag_unmarshal_string(B, t, &o);
		VP_ASSERT(r == 0 && o != NULL, "C42: evtag_unmarshal_string rejects a marshalled string");
		i = vp_size();
		if (i <= n) VP_ASSERT(o[i] == s[i], "C42: string changed by marshal/unmarshal");
		mm_free(o);
		check_empty();
	}
#elif RT == RT_RAW || RT == RT_FIXED || RT == RT_CONSUME || RT == RT_BUFFER
	{
		ev_uint32_t t = vp_u32(), o = 0; unsigned char d[VP_STR], out[VP_STR]; size_t n = vp_range(0, VP_STR), i; int r;
		vp_bytes(d, VP_STR);
#if RT == RT_BUFFER
		{
			struct evbuffer *src = evbuffer_new();
			__CPROVER_assume(src != NULL);
			__CPROVER_assume(evbuffer_add(src, d, n) == 0);
			evtag_marshal_buffer(B, t, src);
			VP_ASSERT(evbuffer_get_length(src) == 0, "C42: evtag_marshal_buffer moves the data out of the source buffer");
		}
#else
		evtag_marshal(B, t, d, (ev_uint32_t)n);
#endif
		exp_tag(t); exp_int(n); exp_bytes(d, n); check_wire("");
#if RT == RT_FIXED
		r = evtag_unmarshal_fixed(B, t, out, n);
		VP_ASSERT(r == 0, "C42: evtag_unmarshal_fixed rejects a marshalled item of the requested length");
		i = vp_size();
		if (i < n) VP_ASSERT(out[i] == d[i], "C42: raw data changed by marshal/unmarshal_fixed");
		(void)o;
#elif RT == RT_CONSUME
		r = evtag_consume(B);
		VP_ASSERT(r == 0, "C42: evtag_consume rejects a marshalled item");
		(void)o; (void)out; (void)i;
#else
		{
			struct evbuffer *dst = evbuffer_new();
			__CPROVER_assume(dst != NULL);
			r = evtag_unmarshal(B, &o, dst);
			VP_ASSERT(r == (int)n, "C42: evtag_unmarshal does not return the marshalled length");
			VP_ASSERT(o == t, "C42: tag changed by marshal/unmarshal");
			VP_ASSERT(evbuffer_get_length(dst) == n, "C42: evtag_unmarshal delivered a different number of bytes");
			i = vp_size();
			if (i < n) VP_ASSERT(vp_evb_byte(dst, i) == d[i], "C42: raw data changed by marshal/unmarshal");
			(void)out;
		}
#endif
		check_empty();
	}
#elif RT == RT_SEQ
	{
		/* two items, read back in order */
		ev_uint32_t t1 = vp_u32(), t2 = vp_u32(), v = vp_u32(), o = 0; char s[VP_STR + 1], *os = NULL; size_t n = vp_range(0, VP_STR), i; int r;
		vp_bytes(s, VP_STR);
		for (i = 0; i < VP_STR; i++) if (i < n) __CPROVER_assume(s[i] != 0);
		s[n] = 0;
		evtag_marshal_int(B, t1, v);
		evtag_marshal_string(B, t2, s);
#if VP_PRE
		__CPROVER_assume(evbuffer_drain(B, VP_PRE) == 0);
#endif
		r = evtag_unmarshal_int(B, t1, &o);
		VP_ASSERT(r != -1 && o == v, "C42: first of two items not returned unchanged");
		r = evtag_unmarshal_string(B, t2, &os);
		VP_ASSERT(r == 0 && os != NULL, "C42: second of two items rejected");
		i = vp_size();
		if (i <= n) VP_ASSERT(os[i] == s[i], "C42: second of two items not returned unchanged");
		mm_free(os);
		check_empty();
	}
#else
#error "unknown RT"
#endif
#if RT != RT_WRONGTAG
	VP_WITNESS("C42 round trip completed");
#endif
}
#endif /* RT */

/* ------------------------------------------------------------------------------------ */
/* an object of EXACTLY k bytes (k <= 12): literal-size allocations, so that cbmc (and ASan
 * in native replay) see the real end of the data whatever split the solver picks */
static unsigned char *vp_exact(size_t k)
{
	unsigned char *p;
	switch (k) {
	case 1: p = malloc(1); break;   case 2: p = malloc(2); break;   case 3: p = malloc(3); break;
	case 4: p = malloc(4); break;   case 5: p = malloc(5); break;   case 6: p = malloc(6); break;
	case 7: p = malloc(7); break;   case 8: p = malloc(8); break;   case 9: p = malloc(9); break;
	case 10: p = malloc(10); break; case 11: p = malloc(11); break; case 12: p = malloc(12); break;
	case 13: p = malloc(13); break; case 14: p = malloc(14); break; case 15: p = malloc(15); break;
	case 16: p = malloc(16); break;
	default: p = malloc(1); __CPROVER_assume(0); break;
	}
	__CPROVER_assume(p != NULL);
	return p;
}
static int vp_cleanups;
static void vp_ref_cleanup(const void *data, size_t datalen, void *extra) { (void)data; (void)datalen; (void)extra; vp_cleanups++; }

static unsigned char W[VP_L];      /* the arbitrary bytes (ghost copy: the oracle reads this) */
static size_t WL, WK;              /* total length, split position */

/* after a decoder consumed `used` bytes: exactly W[used..WL) is left, in order */
static void check_rest(size_t used)
{
	size_t i;
	vp_evb_check(B, "");
	VP_ASSERT(evbuffer_get_length(B) == WL - used, "C42: decoder did not consume exactly one item");
	i = vp_size();
	if (i < WL - used)
		VP_ASSERT(vp_evb_byte(B, i) == W[used + i], "C42: bytes after the consumed item changed");
}

#ifdef DEC
void harness_decode(void)
{
	unsigned char *a1, *a2; size_t i;
	ev_uint32_t rt = 0, rl = 0; int rh;

#ifdef VP_WL            /* concrete length and split (enumerated by the driver) */
	WL = VP_WL; WK = VP_WK;
#else
	WL = vp_range(0, VP_L); WK = vp_range(0, VP_L);
	__CPROVER_assume(WK <= WL);
#endif
	vp_bytes(W, VP_L);
#ifdef KF_EXCLUDE_TAG6
	/* predicate of the known finding: five continuation bytes of a tag still admissible at the fifth, then more data */
#define KF_TAG6 (WL >= 6 && (W[0] & 0x80) && (W[1] & 0x80) && (W[2] & 0x80) && (W[3] & 0x80) && (W[4] & 0x80) && (W[4] & 0x7f) <= 15)
	__CPROVER_assume(!KF_TAG6);
#endif
#ifdef KF_ONLY_TAG6
#define KF_TAG6 (WL >= 6 && (W[0] & 0x80) && (W[1] & 0x80) && (W[2] & 0x80) && (W[3] & 0x80) && (W[4] & 0x80) && (W[4] & 0x7f) <= 15)
	__CPROVER_assume(KF_TAG6);
#endif
	B = evbuffer_new();
	__CPROVER_assume(B != NULL);
	if (WK > 0) {
		a1 = vp_exact(WK);
		for (i = 0; i < VP_L; i++) if (i < WK) a1[i] = W[i];
		__CPROVER_assume(evbuffer_add_reference(B, a1, WK, vp_ref_cleanup, NULL) == 0);
	}
	if (WL - WK > 0) {
		a2 = vp_exact(WL - WK);
		for (i = 0; i < VP_L; i++) if (i < WL - WK) a2[i] = W[WK + i];
		__CPROVER_assume(evbuffer_add_reference(B, a2, WL - WK, vp_ref_cleanup, NULL) == 0);
	}
	rh = tagref_dec_header(W, WL, &rt, &rl);

#if DEC == DEC_INT || DEC == DEC_INT64
	{
		size_t k;
#if DEC == DEC_INT
		ev_uint32_t o = 0; int r; int maxn = 8;
#else
		ev_uint64_t o = 0; int r; int maxn = 16;
#endif
		ev_uint64_t rv = 0; int rn = tagref_dec_int(W, WL, maxn, &rv);
		/* classes: not a well-formed integer (k == 0: the decoder may look at 1 byte) / encoded size k */
		for (k = 0; k <= 9; k++) {
			if ((rn < 0 ? 0 : (size_t)rn) != k) continue;
#ifdef VP_ONLYK
			if (k != VP_ONLYK) continue;
#endif
			vp_cands(1, k, 0, 0, 0, 0, 2);
#if DEC == DEC_INT
			r = evtag_decode_int(&o, B);
#else
			r = evtag_decode_int64(&o, B);
#endif
			VP_ASSERT(r == 0 || r == -1, "C42: evtag_decode_int returns 0 or -1");
			if (r == 0) {
				VP_ASSERT(rn > 0, "C42: integer decoder accepted bytes that are not a well-formed integer");
				VP_ASSERT((ev_uint64_t)o == rv, "C42: integer decoder returned a wrong value");
				check_rest((size_t)rn);
				VP_WITNESS("C42 integer decoded");
			} else {
				VP_WITNESS("C42 integer rejected");
			}
			return;
		}
		VP_ASSERT(0, "harness: input outside every size class");
	}
#elif DEC == DEC_TAG || DEC == DEC_PEEK
	{
		ev_uint32_t o = 0, rv = 0; int rn = tagref_dec_tag(W, WL, &rv);
#if DEC == DEC_TAG
		int r = evtag_decode_tag(&o, B);
#else
		int r = evtag_peek(B, &o);
#endif
		if (r != -1) {
			VP_ASSERT(rn > 0, "C42: tag decoder accepted bytes that are not a well-formed tag");
			VP_ASSERT(r == rn, "C42: tag decoder returned a wrong size");
			VP_ASSERT(o == rv, "C42: tag decoder returned a wrong tag");
			check_rest(DEC == DEC_TAG ? (size_t)rn : 0);
			VP_WITNESS("C42 tag decoded");
		} else {
			VP_WITNESS("C42 tag rejected");
		}
	}
#elif DEC == DEC_PEEK_LENGTH || DEC == DEC_PAYLOAD_LENGTH
	{
		/* these two do not require the payload to be present yet: header = tag + length */
		ev_uint32_t o = 0, t2 = 0; ev_uint64_t l2 = 0; int a, b = -1;
#if DEC == DEC_PEEK_LENGTH
		int r = evtag_peek_length(B, &o);
#else
		int r = evtag_payload_length(B, &o);
#endif
		a = tagref_dec_tag(W, WL, &t2);
		if (a > 0) b = tagref_dec_int(W + a, WL - (size_t)a, 8, &l2);
		VP_ASSERT(r == 0 || r == -1, "C42: length peekers return 0 or -1");
		if (r == 0) {
			VP_ASSERT(a > 0 && b > 0, "C42: length peeker accepted bytes that are not a well-formed header");
#if DEC == DEC_PEEK_LENGTH
			VP_ASSERT(o == (ev_uint32_t)(l2 + (ev_uint64_t)a + (ev_uint64_t)b), "C42: evtag_peek_length returned a wrong total length");
#else
			VP_ASSERT(o == (ev_uint32_t)l2, "C42: evtag_payload_length returned a wrong length");
#endif
			check_rest(0);
			VP_WITNESS("C42 header peeked");
		} else {
			VP_WITNESS("C42 header rejected");
		}
	}
#elif DEC == DEC_HEADER
	{
		ev_uint32_t o = 0; int r = evtag_unmarshal_header(B, &o);
		if (r != -1) {
			VP_ASSERT(rh > 0, "C42: evtag_unmarshal_header accepted bytes that are not a well-formed item");
			VP_ASSERT(o == rt && (ev_uint32_t)r == rl, "C42: evtag_unmarshal_header returned a wrong tag or length");
			check_rest((size_t)rh);
			VP_WITNESS("C42 header decoded");
		} else {
			VP_WITNESS("C42 header rejected");
		}
	}
#elif DEC == DEC_CONSUME
	{
		int r = evtag_consume(B);
		VP_ASSERT(r == 0 || r == -1, "C42: evtag_consume returns 0 or -1");
		if (r == 0) {
			VP_ASSERT(rh > 0, "C42: evtag_consume accepted bytes that are not a well-formed item");
			check_rest((size_t)rh + rl);
			VP_WITNESS("C42 item consumed");
		} else {
			VP_WITNESS("C42 item rejected");
		}
	}
#elif DEC == DEC_UNMARSHAL
	{
		ev_uint32_t o = 0; struct evbuffer *dst = evbuffer_new(); int r;
		__CPROVER_assume(dst != NULL);
		r = evtag_unmarshal(B, &o, dst);
		if (r != -1) {
			VP_ASSERT(rh > 0, "C42: evtag_unmarshal accepted bytes that are not a well-formed item");
			VP_ASSERT(o == rt && (ev_uint32_t)r == rl, "C42: evtag_unmarshal returned a wrong tag or length");
			VP_ASSERT(evbuffer_get_length(dst) == rl, "C42: evtag_unmarshal delivered a different number of bytes");
			i = vp_size();
			if (i < rl) VP_ASSERT(vp_evb_byte(dst, i) == W[(size_t)rh + i], "C42: evtag_unmarshal delivered wrong payload bytes");
			check_rest((size_t)rh + rl);
			VP_WITNESS("C42 item unmarshalled");
		} else {
			VP_WITNESS("C42 item rejected");
		}
	}
#elif DEC == DEC_UINT || DEC == DEC_UINT64
	{
		ev_uint32_t need = vp_u32(); ev_uint64_t rv = 0; int rn = -1;
#if DEC == DEC_UINT
		ev_uint32_t o = 0; int r = evtag_unmarshal_int(B, need, &o); int maxn = 8;
#else
		ev_uint64_t o = 0; int r = evtag_unmarshal_int64(B, need, &o); int maxn = 16;
#endif
		if (rh > 0) rn = tagref_dec_int(W + rh, rl, maxn, &rv);
		if (r != -1) {
			VP_ASSERT(rh > 0 && rt == need, "C42: evtag_unmarshal_int accepted bytes that are not a well-formed item with the requested tag");
			VP_ASSERT(rn > 0, "C42: evtag_unmarshal_int accepted a payload that is not a well-formed integer");
			VP_ASSERT(r == rn && (ev_uint64_t)o == rv, "C42: evtag_unmarshal_int returned a wrong value");
			check_rest((size_t)rh + rl);
			VP_WITNESS("C42 integer item unmarshalled");
		} else {
			VP_WITNESS("C42 integer item rejected");
		}
	}
#elif DEC == DEC_FIXED
	{
		ev_uint32_t need = vp_u32(); unsigned char out[VP_L]; size_t want = vp_range(0, VP_L);
		int r = evtag_unmarshal_fixed(B, need, out, want);
		VP_ASSERT(r == 0 || r == -1, "C42: evtag_unmarshal_fixed returns 0 or -1");
		if (r == 0) {
			VP_ASSERT(rh > 0 && rt == need && rl == want, "C42: evtag_unmarshal_fixed accepted bytes that are not a well-formed item of the requested tag and length");
			i = vp_size();
			if (i < want) VP_ASSERT(out[i] == W[(size_t)rh + i], "C42: evtag_unmarshal_fixed delivered wrong payload bytes");
			check_rest((size_t)rh + rl);
			VP_WITNESS("C42 fixed item unmarshalled");
		} else {
			VP_WITNESS("C42 fixed item rejected");
		}
	}
#elif DEC == DEC_STRING
	{
		ev_uint32_t need = vp_u32(); char *s = NULL;
		int r = evtag_unmarshal_string(B, need, &s);
		VP_ASSERT(r == 0 || r == -1, "C42: evtag_unmarshal_string returns 0 or -1");
		if (r == 0) {
			VP_ASSERT(rh > 0 && rt == need, "C42: evtag_unmarshal_string accepted bytes that are not a well-formed item with the requested tag");
			VP_ASSERT(s != NULL && s[rl] == 0, "C42: evtag_unmarshal_string result is not NUL-terminated at the item length");
			i = vp_size();
			if (i < rl) VP_ASSERT((unsigned char)s[i] == W[(size_t)rh + i], "C42: evtag_unmarshal_string delivered wrong payload bytes");
			check_rest((size_t)rh + rl);
			VP_WITNESS("C42 string item unmarshalled");
		} else {
			VP_WITNESS("C42 string item rejected");
		}
	}
#elif DEC == DEC_TIMEVAL
	{
		ev_uint32_t need = vp_u32(); struct timeval tv; ev_uint64_t s = 0, u = 0; int n1 = -1, n2 = -1;
		int r;
		tv.tv_sec = 0; tv.tv_usec = 0;
		r = evtag_unmarshal_timeval(B, need, &tv);
		if (rh > 0) n1 = tagref_dec_int(W + rh, rl, 8, &s);
		if (n1 > 0) n2 = tagref_dec_int(W + rh + n1, rl - (size_t)n1, 8, &u);
		VP_ASSERT(r == 0 || r == -1, "C42: evtag_unmarshal_timeval returns 0 or -1");
		if (r == 0) {
			VP_ASSERT(rh > 0 && rt == need, "C42: evtag_unmarshal_timeval accepted bytes that are not a well-formed item with the requested tag");
			VP_ASSERT(n1 > 0 && n2 > 0, "C42: evtag_unmarshal_timeval accepted a payload that is not two well-formed integers");
			VP_ASSERT((ev_uint64_t)tv.tv_sec == s && (ev_uint64_t)tv.tv_usec == u, "C42: evtag_unmarshal_timeval returned wrong values");
			check_rest((size_t)rh + rl);
			VP_WITNESS("C42 timeval item unmarshalled");
		} else {
			VP_WITNESS("C42 timeval item rejected");
		}
	}
#else
#error "unknown DEC"
#endif
}
#endif /* DEC */
