/* C42 (real-evbuffer half): event_tagging.c over the REAL buffer.c (64-byte chains, env/evbuf_alloc.h).
 *
 * Why this is not simply harness/C42_tagmodel.c with buffer.c underneath (measured, DESIGN 3.4): an evbuffer
 * operation with a symbolic size makes every later offset symbolic (one symbolic pullup = 37 s), and a state
 * merge behind a data-dependent `return -1` of a decoder leaves an if-then-else heap on which the NEXT
 * evbuffer call does not finish (two decoding stages in a row: > 120 s even with concrete sizes).  Hence:
 *  - the sizes event_tagging.c passes to buffer.c are data dependent; the harness splits the inputs into SIZE
 *    CLASSES (encoded size of the tag / of each integer / payload length, position of the chain split), runs
 *    the scenario once per class with the class's sizes published as concrete PREDICTIONS, and the wrappers
 *    below call the real buffer.c function with the predicted constant after ASSERTING that it equals the
 *    requested size.  Which class applies, and every value inside it, is decided by the solver;
 *  - only the routines with a single decoding stage are run here: encoders/marshallers (adds only; the wire
 *    bytes are compared with the reference encoding), evtag_decode_tag, evtag_peek, decode_int_internal /
 *    decode_int64_internal (the routine behind every integer decoder; offsets 0 and VP_OFF), and
 *    evtag_decode_int/int64 on single-chain buffers.  The multi-stage unmarshallers are covered over the
 *    evbuffer contract model (C42_tagmodel.c).
 *
 * harness_roundtrip  RT=RT_*, VP_PRE (bytes stored before the item, drained before it is read: the item then
 *                    straddles the boundary of the first 16-byte chain), VP_ENC_ONLY, VP_LEAF_INTERNAL
 * harness_decode     DEC=DEC_*, VP_WL = concrete length of the arbitrary byte string (the driver enumerates
 *                    0..L), split position solver-chosen: the bytes live in two EXACT-SIZE user arrays
 *                    referenced by two evbuffer_add_reference chains, so cbmc's pointer checks see the real end
 *                    of the data (DESIGN 3.3).  VP_SINGLE: one chain only.
 *                    KF_EXCLUDE_TAG6 / KF_ONLY_TAG6: predicate-guarded pair for the decode_tag_internal over-read.
 */
#include "vp.h"
#include "log_stub.h"
#define VP_LOCKS_OFF
#include "locks.h"
#include "evbuf_alloc.h"
#include "evbuf_copy.h"
#include "buffer.c"
#include "evbuf_link.h"
#include "evbuf_inv.h"

/* Cuts WITH proof (props: --replace-calls): no buffer of this harness holds multicast or file-segment chains and no
 * evbuffer is freed, so the only callers of these two are infeasible branches of evbuffer_chain_free that symex cannot
 * prune by itself.  The replacement asserts that it is never reached. */
void vp_cut_decref(struct evbuffer *b) { (void)b; VP_ASSERT(0, "harness: evbuffer_decref_and_unlock_ reached (no multicast chain and no evbuffer_free in this harness)"); __CPROVER_assume(0); }
void vp_cut_segfree(struct evbuffer_file_segment *s) { (void)s; VP_ASSERT(0, "harness: evbuffer_file_segment_free reached (no file segment in this harness)"); __CPROVER_assume(0); }

/* ---- size predictions: per kind of call, in call order ---- */
#define VP_NPRED 4
struct vp_pred { size_t v[VP_NPRED]; int n, i; };
static struct vp_pred vp_p_pullup, vp_p_drain, vp_p_add, vp_p_remove;
static void vp_predict(struct vp_pred *p, int n, size_t a, size_t b, size_t c, size_t d)
{ p->v[0] = a; p->v[1] = b; p->v[2] = c; p->v[3] = d; p->n = n; p->i = 0; }
/* the i-th call of this kind in the current class asks for exactly the i-th predicted size (asserted) */
static size_t vp_conc(struct vp_pred *p, size_t n)
{
	size_t k;
	VP_ASSERT(p->i < p->n, "harness: more evbuffer calls than predicted for this size class");
	__CPROVER_assume(p->i < p->n);
	k = p->v[p->i];
	VP_ASSERT(n == k, "harness: evbuffer call size differs from the size predicted for this class");
	__CPROVER_assume(n == k);
	p->i++;
	return k;
}
static unsigned char *vp_t_pullup(struct evbuffer *b, ev_ssize_t n) { return evbuffer_pullup(b, (ev_ssize_t)vp_conc(&vp_p_pullup, (size_t)n)); }
static int vp_t_drain(struct evbuffer *b, size_t n) { return evbuffer_drain(b, vp_conc(&vp_p_drain, n)); }
static int vp_t_add(struct evbuffer *b, const void *d, size_t n) { return evbuffer_add(b, d, vp_conc(&vp_p_add, n)); }
static int vp_t_remove(struct evbuffer *b, void *d, size_t n) { return evbuffer_remove(b, d, vp_conc(&vp_p_remove, n)); }
#ifdef VP_CBMC
#define evbuffer_pullup vp_t_pullup
#define evbuffer_drain vp_t_drain
#define evbuffer_add vp_t_add
#define evbuffer_remove vp_t_remove
#endif
#include "event_tagging.c"
#undef evbuffer_pullup
#undef evbuffer_drain
#undef evbuffer_add
#undef evbuffer_remove
#include "tag_ref.h"

static struct evbuffer *B;
#define TB_BYTE(b, i)    vp_evb_byte((b), (i))
#define TB_CHECK(b)      vp_evb_check((b), "")
#define TB_ADD(b, p, n)  evbuffer_add((b), (p), (n))
#define TB_DRAIN(b, n)   evbuffer_drain((b), (n))
static struct evbuffer *tb_new(void) { struct evbuffer *b = evbuffer_new(); __CPROVER_assume(b != NULL); return b; }
#include "C42_common.h"

#define KF_TAG6 (WL >= 6 && (W[0] & 0x80) && (W[1] & 0x80) && (W[2] & 0x80) && (W[3] & 0x80) && (W[4] & 0x80) && (W[4] & 0x7f) <= 15)

#ifdef RT
void harness_roundtrip(void)
{
	int a, c, d;
	(void)a; (void)c; (void)d;
	rt_draw();
#if RT == RT_INT || RT == RT_INT64
	for (c = 1; c <= 9; c++) {
		if (g_lc != c) continue;
		B = tb_new();
		vp_predict(&vp_p_add, 1, (size_t)c, 0, 0, 0);
		vp_predict(&vp_p_pullup, 2, 1, (size_t)c, 0, 0);
		vp_predict(&vp_p_drain, 1, (size_t)c, 0, 0, 0);
		rt_run(0);
		return;
	}
#elif RT == RT_TAG
	for (a = 1; a <= 5; a++) {
		if (g_la != a) continue;
		B = tb_new();
		vp_predict(&vp_p_add, 1, (size_t)a, 0, 0, 0);
		vp_predict(&vp_p_pullup, 2, (size_t)a, (size_t)a, 0, 0);      /* evtag_peek, evtag_decode_tag */
		vp_predict(&vp_p_drain, 1, (size_t)a, 0, 0, 0);
		rt_run(0);
		return;
	}
#else
#ifndef VP_ENC_ONLY
#error "multi-stage unmarshallers run over the contract model (C42_tagmodel.c); here: -DVP_ENC_ONLY"
#endif
	/* Tag (a bytes) Length (1 byte: payloads here are < 16 bytes) Data (c [+ d] bytes) */
#if RT == RT_MINT
#define C_LO 1
#define C_HI 5
#elif RT == RT_MINT64
#define C_LO 1
#define C_HI 9
#elif RT == RT_TIMEVAL
#define C_LO 1
#define C_HI 5
#else
#define C_LO 0
#define C_HI VP_STR
#endif
#if RT == RT_TIMEVAL
#define D_LO 1
#define D_HI 3          /* tv_usec < 10^6 < 16^5: at most 5 nibbles = 3 bytes */
#else
#define D_LO 0
#define D_HI 0
#endif
	for (a = 1; a <= 5; a++) {
		if (g_la != a) continue;
#ifdef VP_A             /* encoded tag size enumerated by the driver */
		if (a != VP_A) { __CPROVER_assume(0); }
#endif
		for (c = C_LO; c <= C_HI; c++) {
			if (g_lc != c) continue;
			for (d = D_LO; d <= D_HI; d++) {
				if (g_ld != d) continue;
				B = tb_new();
#if RT == RT_BUFFER
				vp_predict(&vp_p_add, 2, (size_t)a, 1, 0, 0);         /* the payload is moved by evbuffer_add_buffer */
#else
				vp_predict(&vp_p_add, 3, (size_t)a, 1, (size_t)(c + d), 0);
#endif
				rt_run((size_t)c);
				return;
			}
		}
	}
#endif
	VP_ASSERT(0, "harness: input outside every size class");
}
#endif

#ifdef DEC
/* an object of EXACTLY k bytes (1 <= k <= 16), literal allocation size */
static unsigned char *vp_exact(size_t k)
{
	unsigned char *p;
	switch (k) {
	case 1: p = malloc(1); break;   case 2: p = malloc(2); break;   case 3: p = malloc(3); break;
	case 4: p = malloc(4); break;   case 5: p = malloc(5); break;   case 6: p = malloc(6); break;
	case 7: p = malloc(7); break;   case 8: p = malloc(8); break;   case 9: p = malloc(9); break;
	case 10: p = malloc(10); break; case 11: p = malloc(11); break; case 12: p = malloc(12); break;
	case 13: p = malloc(13); break; case 14: p = malloc(14); break; case 15: p = malloc(15); break;
	case 16: p = malloc(16); break;
	default: p = malloc(1); __CPROVER_assume(0); break;
	}
	__CPROVER_assume(p != NULL);
	return p;
}
static int vp_cleanups;
static void vp_ref_cleanup(const void *data, size_t datalen, void *extra) { (void)data; (void)datalen; (void)extra; vp_cleanups++; }

/* B := W[0..WL) in two exact-size reference chains W[0..k) W[k..WL) (k concrete) */
static void tb_mkdec(size_t k)
{
	unsigned char *a1, *a2; size_t i;
	B = tb_new();
	if (k > 0) {
		a1 = vp_exact(k);
		for (i = 0; i < VP_L; i++) if (i < k) a1[i] = W[i];
		__CPROVER_assume(evbuffer_add_reference(B, a1, k, vp_ref_cleanup, NULL) == 0);
	}
	if (WL - k > 0) {
		a2 = vp_exact(WL - k);
		for (i = 0; i < VP_L; i++) if (i < WL - k) a2[i] = W[k + i];
		__CPROVER_assume(evbuffer_add_reference(B, a2, WL - k, vp_ref_cleanup, NULL) == 0);
	}
}

#ifndef VP_WL
#error "VP_WL (concrete length of the byte string) required"
#endif
void harness_decode(void)
{
	size_t k, c, cls;
	(void)c; (void)cls;
	WL = VP_WL;
#ifdef VP_WK
	WK = VP_WK;
#else
	WK = vp_range(0, VP_WL);
#endif
	vp_bytes(W, VP_L);
#ifdef KF_EXCLUDE_TAG6
	__CPROVER_assume(!KF_TAG6);
#endif
#ifdef KF_ONLY_TAG6
	__CPROVER_assume(KF_TAG6);
#endif
	dec_ref();
	for (k = 0; k <= VP_WL; k++) {
		if (WK != k) continue;
#ifdef VP_SINGLE
		if (k != 0 && k != VP_WL) { __CPROVER_assume(0); }
#endif
#ifdef VP_WK            /* split position enumerated by the driver */
		if (k != VP_WK) continue;
#endif
#if DEC == DEC_PEEK
		tb_mkdec(k);
		vp_predict(&vp_p_pullup, 1, VP_WL < 5 ? VP_WL : 5, 0, 0, 0);
		vp_predict(&vp_p_drain, 0, 0, 0, 0, 0);
		dec_run();
		return;
#elif DEC == DEC_TAG
		cls = r_a > 0 ? (size_t)r_a : 0;
		for (c = 0; c <= 5; c++) {
			if (cls != c) continue;
			tb_mkdec(k);
			vp_predict(&vp_p_pullup, 1, VP_WL < 5 ? VP_WL : 5, 0, 0, 0);
			vp_predict(&vp_p_drain, c ? 1 : 0, c, 0, 0, 0);
			dec_run();
			return;
		}
#elif DEC == DEC_INTI || DEC == DEC_INT64I || DEC == DEC_INT || DEC == DEC_INT64
		{
			ev_uint64_t rv; int rn;
#if DEC == DEC_INTI || DEC == DEC_INT
			rn = VP_OFF <= VP_WL ? tagref_dec_int(W + VP_OFF, VP_WL - VP_OFF, 8, &rv) : -1;
#else
			rn = VP_OFF <= VP_WL ? tagref_dec_int(W + VP_OFF, VP_WL - VP_OFF, 16, &rv) : -1;
#endif
			cls = rn > 0 ? (size_t)rn : 0;
		}
		for (c = 0; c <= 9; c++) {
			if (cls != c) continue;
			tb_mkdec(k);
			/* a rejected input (c == 0) may have had its first byte looked at */
			vp_predict(&vp_p_pullup, c ? 2 : 1, VP_OFF + 1, VP_OFF + c, 0, 0);
			vp_predict(&vp_p_drain, c ? 1 : 0, c, 0, 0, 0);
			dec_run();
			return;
		}
#else
#error "this decoder runs over the contract model (C42_tagmodel.c)"
#endif
	}
	VP_ASSERT(0, "harness: input outside every size class");
}
#endif
