/* C40: textual address conversion (evutil.c) vs a strict reference parser */
#include "vp.h"
#include "log_stub.h"
#include "locks.h"
#include "alloc.h"
#include "inet_fmt.h"
#include "inet_ref.h"
#include <net/if.h>
unsigned int if_nametoindex(const char *name) { (void)name; return 0; }
#include "evbuf_copy.h"   /* byte-loop memcpy/memmove/memcmp (symbolic sizes in pton's gap expansion) */
#ifdef VP_CBMC
static void *vp_memset_b(void *d, int c, size_t n) { size_t i; for (i = 0; i < n; i++) ((unsigned char *)d)[i] = (unsigned char)c; return d; }
/* byte loops only where the size is symbolic (pton's gap expansion); constant-size copies of structs keep
 * cbmc's typed built-ins (a byte loop over a 128-byte sockaddr_storage is 128 nested byte updates) */
#undef memset
#undef memcpy
#undef memmove
#define memset(d, c, n) (__builtin_constant_p(n) ? (memset)((d), (c), (n)) : vp_memset_b((d), (c), (n)))
#define memcpy(d, s, n) (__builtin_constant_p(n) ? (memcpy)((d), (s), (n)) : vp_memcpy((d), (s), (n)))
#define memmove(d, s, n) (__builtin_constant_p(n) ? (memmove)((d), (s), (n)) : vp_memmove((d), (s), (n)))
#endif
#include "evutil.c"
#include "strlcpy.c"

#ifndef VP_L
#define VP_L 8
#endif

void harness_ntop4(void)
{
	struct in_addr a; char dst[20]; size_t len = (size_t)vp_range(0, 18), i; const char *r; unsigned char back[4];
	a.s_addr = vp_u32();
	for (i = 0; i < sizeof(dst); i++) dst[i] = 'G';
	r = evutil_inet_ntop(AF_INET, &a, dst, len);
	for (i = len; i < sizeof(dst); i++) VP_ASSERT(dst[i] == 'G', "C40: evutil_inet_ntop wrote past the buffer length");
	if (r) {
		size_t l = 0; int term = 0;
		VP_ASSERT(r == dst, "C40: evutil_inet_ntop returns its destination");
		for (l = 0; l < len; l++) if (!dst[l]) { term = 1; break; }
		VP_ASSERT(term, "C40: successful evutil_inet_ntop output is not NUL-terminated inside the buffer");
		VP_ASSERT(ref_pton4(dst, back) && memcmp(back, &a.s_addr, 4) == 0, "C40: evutil_inet_ntop(AF_INET) text is not the complete address (strict parser does not map it back)");
		VP_WITNESS("v4 success");
	} else {
		VP_ASSERT(len < 16, "C40: evutil_inet_ntop(AF_INET) failed although the buffer can hold any IPv4 text");
		VP_WITNESS("v4 failure");
	}
}

/* IPv6: split on the code's own case distinction (IPv4-compatible/-mapped form or pure hex groups);
 * together the two obligations cover all 2^128 addresses. */
static int is_v4_form(const struct in6_addr *a)
{
	int i; for (i = 0; i < 10; i++) if (a->s6_addr[i]) return 0;
	if (a->s6_addr[10] == 0xff && a->s6_addr[11] == 0xff) return 1;
	if (a->s6_addr[10] == 0 && a->s6_addr[11] == 0 && (a->s6_addr[12] || a->s6_addr[13]) && (a->s6_addr[14] || a->s6_addr[15])) return 1;
	return 0;
}
#ifndef VP_DST
#define VP_DST 41
#endif
static void vp_addr6(struct in6_addr *a)
{
	vp_bytes(a->s6_addr, 16);
#ifdef VP_ZERO_FROM   /* reduced domain for the quick tier: words VP_ZERO_FROM..VP_ZERO_TO are zero */
	{ int k; for (k = 2 * VP_ZERO_FROM; k < 2 * (VP_ZERO_TO + 1); k++) a->s6_addr[k] = 0; }
#endif
#ifdef VP_V4FORM
	__CPROVER_assume(is_v4_form(a));
#else
	__CPROVER_assume(!is_v4_form(a));
#endif
}
/* (A) with a buffer that holds any text of this form the call succeeds and the text maps back */
void harness_ntop6_full(void)
{
	struct in6_addr a; char dst[VP_DST + 1]; size_t l; const char *r; unsigned char back[16]; int term = 0;
	vp_addr6(&a);
	r = evutil_inet_ntop(AF_INET6, &a, dst, VP_DST);
	VP_ASSERT(r == dst, "C40: evutil_inet_ntop(AF_INET6) failed although the buffer can hold the longest text of this form");
	for (l = 0; l < VP_DST; l++) if (!dst[l]) { term = 1; break; }
	VP_ASSERT(term, "C40: successful evutil_inet_ntop output is not NUL-terminated inside the buffer");
	dst[VP_DST] = 0;
	VP_ASSERT(ref_pton6(dst, back) && memcmp(back, a.s6_addr, 16) == 0, "C40: evutil_inet_ntop(AF_INET6) text is not the complete address (strict parser does not map it back)");
	VP_WITNESS("v6 full text");
}
/* (B) every buffer length: success iff the complete text (as produced into a large buffer, decided
 * correct by (A)) plus its NUL fits; on success the bytes are that text; nothing is written past len */
void harness_ntop6_len(void)
{
	struct in6_addr a; char full[VP_DST + 1], dst[VP_DST + 2]; size_t len = (size_t)vp_range(0, VP_DST), i, fl; const char *r, *rf;
	vp_addr6(&a);
	rf = evutil_inet_ntop(AF_INET6, &a, full, VP_DST);
	__CPROVER_assume(rf == full);
	full[VP_DST] = 0;
	fl = ref_strlen(full);
	for (i = 0; i < sizeof(dst); i++) dst[i] = 'G';
	r = evutil_inet_ntop(AF_INET6, &a, dst, len);
	i = (size_t)vp_range(0, sizeof(dst) - 1);
	if (i >= len) VP_ASSERT(dst[i] == 'G', "C40: evutil_inet_ntop wrote past the buffer length");
	if (r) {
		VP_ASSERT(r == dst, "C40: evutil_inet_ntop returns its destination");
		VP_ASSERT(fl < len, "C40: evutil_inet_ntop reported success although the complete text and its NUL do not fit (truncated output)");
		if (i <= fl) VP_ASSERT(dst[i] == full[i], "C40: successful evutil_inet_ntop output differs from the complete text");
		VP_WITNESS("v6 success");
		if (len < 12) VP_WITNESS("v6 success in a short buffer");
	} else {
		VP_ASSERT(len <= fl, "C40: evutil_inet_ntop failed although the complete text fits");
		VP_WITNESS("v6 failure");
	}
}

void harness_pton4(void)
{
	char s[VP_L + 1]; struct in_addr a; unsigned char want[4]; int r, q;
	vp_bytes(s, VP_L); s[VP_L] = 0;
	a.s_addr = 0;
	r = evutil_inet_pton(AF_INET, s, &a);
	q = ref_pton4(s, want);
	VP_ASSERT((r == 1) == (q == 1), "C40: evutil_inet_pton(AF_INET) accepts exactly the strict dotted-quad strings (leading zeros allowed)");
	VP_ASSERT(r == 1 || r == 0, "C40: evutil_inet_pton returns 1 or 0 for a supported family");
	if (r == 1) { VP_ASSERT(memcmp(&a.s_addr, want, 4) == 0, "C40: evutil_inet_pton(AF_INET) yields a different address than the strict parser"); VP_WITNESS("v4 accepted"); }
	else VP_WITNESS("v4 rejected");
}

void harness_pton6(void)
{
	/* the string lives at offset 1 of its object: evutil_inet_pton's backwards scan
	 * `for (eow = dot-1; eow >= src && ...; --eow)` forms the pointer src-1 when everything before
	 * the first dot is a digit; for a string at the very start of an object that is a
	 * one-before-the-object pointer (undefined by the C standard, invisible to sanitizers) --
	 * recorded in DESIGN.md as a separate observation, not a C40 violation */
	char area[VP_L + 6]; char *s = area + 1; struct in6_addr a; unsigned char want[16]; int r, q;
	memset(area, 0, sizeof(area)); area[0] = '|';   /* 4 bytes of slack after the NUL: `next > 4+src` forms src+4 */
	vp_bytes(s, VP_L); s[VP_L] = 0;
	r = evutil_inet_pton(AF_INET6, s, &a);
	q = ref_pton6(s, want);
	VP_ASSERT((r == 1) == (q == 1), "C40: evutil_inet_pton(AF_INET6) accepts exactly the strings the strict parser accepts");
	VP_ASSERT(r == 1 || r == 0, "C40: evutil_inet_pton returns 1 or 0 for a supported family");
	if (r == 1) { VP_ASSERT(memcmp(a.s6_addr, want, 16) == 0, "C40: evutil_inet_pton(AF_INET6) yields a different address than the strict parser"); VP_WITNESS("v6 accepted"); }
	else VP_WITNESS("v6 rejected");
}

/* format -> parse round trip for every address with a non-zero port */
void harness_sockaddr_roundtrip(void)
{
	struct sockaddr_storage ss, back; char text[64]; const char *r; int outlen = sizeof(back), pr;
	memset(&ss, 0, sizeof(ss)); memset(&back, 0, sizeof(back));
#ifdef VP_RT_V4
	if (1) {
#elif defined(VP_RT_V6)
	if (0) {
#else
	if (vp_bool()) {
#endif
		struct sockaddr_in *s = (struct sockaddr_in *)&ss;
		s->sin_family = AF_INET; s->sin_port = vp_u16(); s->sin_addr.s_addr = vp_u32();
		__CPROVER_assume(s->sin_port != 0);
	} else {
		struct sockaddr_in6 *s = (struct sockaddr_in6 *)&ss;
		s->sin6_family = AF_INET6; s->sin6_port = vp_u16(); vp_bytes(s->sin6_addr.s6_addr, 16);
		__CPROVER_assume(s->sin6_port != 0);
	}
	r = evutil_format_sockaddr_port_((struct sockaddr *)&ss, text, sizeof(text));
	VP_ASSERT(r == text, "C40: evutil_format_sockaddr_port_ failed for an IPv4/IPv6 address");
	pr = evutil_parse_sockaddr_port(text, (struct sockaddr *)&back, &outlen);
	VP_ASSERT(pr == 0, "C40: evutil_parse_sockaddr_port rejects the text evutil_format_sockaddr_port_ produced");
	if (ss.ss_family == AF_INET) {
		struct sockaddr_in *x = (struct sockaddr_in *)&ss, *y = (struct sockaddr_in *)&back;
		VP_ASSERT(outlen == sizeof(*x) && y->sin_family == AF_INET && y->sin_port == x->sin_port && y->sin_addr.s_addr == x->sin_addr.s_addr, "C40: IPv4 address:port does not round-trip through format/parse");
		VP_WITNESS("v4 round trip");
	} else {
		struct sockaddr_in6 *x = (struct sockaddr_in6 *)&ss, *y = (struct sockaddr_in6 *)&back;
		VP_ASSERT(outlen == sizeof(*x) && y->sin6_family == AF_INET6 && y->sin6_port == x->sin6_port && memcmp(&y->sin6_addr, &x->sin6_addr, 16) == 0, "C40: IPv6 [address]:port does not round-trip through format/parse");
		VP_WITNESS("v6 round trip");
	}
}

/* every non-zero port survives the textual form (the full format->parse round trip over all addresses is the
 * thorough obligation sockaddr_roundtrip; this one isolates the port field and is cheap enough for every run) */
#ifndef VP_NDIG
#define VP_NDIG 5
#endif
void harness_parse_port(void)
{
	char text[32]; struct sockaddr_storage back; int outlen = sizeof(back), pr, n = 0, k; unsigned port = 0;
#ifdef VP_RT_V6
	const char *pre = "[::1]:"; const int v6 = 1;
#else
	const char *pre = "10.2.3.4:"; const int v6 = 0;
#endif
	for (k = 0; pre[k]; k++) text[n++] = pre[k];
	for (k = 0; k < VP_NDIG; k++) { unsigned d = (unsigned)vp_range(k == 0 ? 1 : 0, 9); text[n++] = (char)('0' + d); port = port * 10 + d; }   /* number of digits is structural */
	text[n] = 0;
	__CPROVER_assume(port >= 1 && port <= 65535);
	memset(&back, 0, sizeof(back));
	pr = evutil_parse_sockaddr_port(text, (struct sockaddr *)&back, &outlen);
	VP_ASSERT(pr == 0, "C40: evutil_parse_sockaddr_port rejects an address with a valid non-zero port");
	if (v6) { VP_ASSERT(((struct sockaddr_in6 *)&back)->sin6_port == htons((unsigned short)port), "C40: parsed IPv6 port differs from the text"); VP_WITNESS("v6 port"); }
	else { VP_ASSERT(((struct sockaddr_in *)&back)->sin_port == htons((unsigned short)port) && ((struct sockaddr_in *)&back)->sin_addr.s_addr == htonl(0x0a020304), "C40: parsed IPv4 address/port differs from the text"); VP_WITNESS("v4 port"); }
#if VP_NDIG == 5
	if (port == 65535) VP_WITNESS("largest port");
#endif
}

/* port bounds of the textual form, cheap enough for every run: a fixed address, a fixed digit prefix and
 * VP_NSYM solver-chosen trailing digits (e.g. prefix "655" + 2 digits = ports 65500..65599): accepted iff the
 * port is in 1..65535, with exactly that port */
#ifndef VP_PORT_PREFIX
#define VP_PORT_PREFIX "655"
#endif
#ifndef VP_NSYM
#define VP_NSYM 2
#endif
void harness_port_bounds(void)
{
	char text[32]; struct sockaddr_storage back; int outlen = sizeof(back), pr, n = 0, k; unsigned long port = 0;
#ifdef VP_RT_V6
	const char *pre = "[::1]:"; const int v6 = 1;
#else
	const char *pre = "10.2.3.4:"; const int v6 = 0;
#endif
	const char *pp = VP_PORT_PREFIX;
	for (k = 0; pre[k]; k++) text[n++] = pre[k];
	for (k = 0; pp[k]; k++) { text[n++] = pp[k]; port = port * 10 + (unsigned long)(pp[k] - '0'); }
	for (k = 0; k < VP_NSYM; k++) { unsigned d = (unsigned)vp_range(0, 9); text[n++] = (char)('0' + d); port = port * 10 + d; }
	text[n] = 0;
	memset(&back, 0, sizeof(back));
	pr = evutil_parse_sockaddr_port(text, (struct sockaddr *)&back, &outlen);
	if (port >= 1 && port <= 65535) {
		VP_ASSERT(pr == 0, "C40: evutil_parse_sockaddr_port rejects an address with a valid non-zero port");
		if (v6) VP_ASSERT(((struct sockaddr_in6 *)&back)->sin6_port == htons((unsigned short)port), "C40: parsed IPv6 port differs from the text");
		else VP_ASSERT(((struct sockaddr_in *)&back)->sin_port == htons((unsigned short)port), "C40: parsed IPv4 port differs from the text");
		VP_WITNESS("accepted port");
	} else {
		VP_ASSERT(pr == -1, "C40: evutil_parse_sockaddr_port accepts a port outside 1..65535");
		VP_WITNESS("rejected port");
	}
}
