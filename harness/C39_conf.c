/* C39: resolver configuration parsing in evdns.c against ref/dnsconf_ref.h.
 *
 * Entries (one obligation each, see props/C39.py):
 *   harness_int       strtoint / strtoint_clipped on a symbolic string in an exact-size object
 *   harness_timeval   evdns_strtotimeval for every double libc's strtod can hand back
 *   harness_option    evdns_base_set_option_impl: symbolic option text, value text, flags on an evdns_base
 *                     made by evdns_base_new(); every configuration field compared with the reference
 *   harness_resolv    resolv_conf_parse_line: symbolic line, flags; nameserver ring, search list, ndots and
 *                     the sequence of (option, value) pairs handed to the option routine == reference
 *   harness_hosts     evdns_base_parse_hosts_line: symbolic line; hosts entries == reference
 *   harness_file      the line splitters of evdns_base_resolv_conf_parse_impl / evdns_base_load_hosts_impl
 *
 * Strings live at the END of a heap object of literal size N+1 (symbolic length 0..N, NUL in the last byte), so
 * any read behind the terminator leaves the object and is reported by cbmc's pointer checks.
 *
 * Contract stubs (recorded in evidence):
 *   strtod                       any double bit pattern, end pointer anywhere in the string (over-approximates libc)
 *   evutil_parse_sockaddr_port   C40's subject: fails, or yields an AF_INET/AF_INET6 sockaddr with solver-chosen
 *                                address and port; the text it was given is recorded
 *   evutil_sockaddr_cmp          C41's subject: equality on family/address/port is all that is used here
 */
#ifndef VP_LOCKS_ON
#define VP_LOCKS_OFF 1
#endif
#include "vp.h"
#include "log_stub.h"
#include "alloc.h"
#include "locks.h"
#include "dns_unit_env.h"
#include <netinet/in.h>

/* witnesses of the general obligations; the KF_ONLY_* twins constrain the input to a finding's predicate, where most
 * of them are unreachable by construction: those builds have one witness, "finding inputs reached" */
#if defined(KF_ONLY_INT_WRAP) || defined(KF_ONLY_TIMEVAL_RANGE) || defined(KF_ONLY_NDOTS_RESET)
#define C39_WITNESS(msg) ((void)0)
#define C39_KF_WITNESS() VP_WITNESS("C39: inputs of the finding reached")
#else
#define C39_WITNESS(msg) VP_WITNESS(msg)
#define C39_KF_WITNESS() ((void)0)
#endif

/* ---- strtod contract ---- */
#define C39_D_UNREPRESENTABLE(d) (!((d) < 0.0) && !((d) >= 0.0 && (d) <= 2147483647.0))
static double c39_d; static int c39_d_whole; static int c39_strtod_calls;
static double c39_strtod(const char *s, char **endp)
{
	size_t n = 0, k;
	union { unsigned long long u; double d; } cv;
	while (s[n]) n++;
	c39_strtod_calls++;
	if (vp_bool()) k = n; else { k = (size_t)vp_input(); __CPROVER_assume(k < n); }
	cv.u = vp_u64();
	if (k == 0) cv.d = 0.0;         /* nothing converted: 0, end == start */
	if (endp) *endp = (char *)s + k;
	c39_d = cv.d; c39_d_whole = (k == n);
	/* finding KF-C39-timeval-range: a fully converted value that is NaN or larger than INT_MAX */
#if defined(KF_EXCLUDE_TIMEVAL_RANGE)
	__CPROVER_assume(!(c39_d_whole && C39_D_UNREPRESENTABLE(cv.d)));
#elif defined(KF_ONLY_TIMEVAL_RANGE)
	__CPROVER_assume(c39_d_whole && C39_D_UNREPRESENTABLE(cv.d));
#endif
	return cv.d;
}
#define strtod(s, e) c39_strtod((s), (e))

/* ---- strtol contract: any long, end pointer anywhere in the text; nothing converted -> 0 ---- */
#define C39_L_BEYOND_INT(v) ((v) > 2147483647L || (v) < -2147483647L - 1L)
#ifndef C39_MAXINFLIGHT
#define C39_MAXINFLIGHT 15
#endif
static int c39_cap_l;
static long c39_l; static int c39_l_whole, c39_strtol_calls; static const char *c39_strtol_arg;
static long c39_strtol(const char *s, char **endp, int base)
{
	size_t n = 0, k; long lv;
	while (s[n]) n++;
	VP_ASSERT(base == 10, "C39: integer option values are decimal");
	c39_strtol_calls++; c39_strtol_arg = s;
	if (vp_bool()) k = n; else { k = (size_t)vp_input(); __CPROVER_assume(k < n); }
	lv = (long)vp_u64();
	if (k == 0) lv = 0;
	if (c39_cap_l) __CPROVER_assume(lv <= C39_MAXINFLIGHT);
	if (endp) *endp = (char *)s + k;
	c39_l = lv; c39_l_whole = (k == n);
	/* finding KF-C39-int-wrap: a fully converted value outside the range of int */
#if defined(KF_EXCLUDE_INT_WRAP)
	__CPROVER_assume(!(c39_l_whole && C39_L_BEYOND_INT(lv)));
#elif defined(KF_ONLY_INT_WRAP)
	__CPROVER_assume(c39_l_whole && C39_L_BEYOND_INT(lv));
#endif
	return lv;
}
#undef strtol
#define strtol(s, e, b) c39_strtol((s), (e), (b))

/* ---- evutil_parse_sockaddr_port contract ---- */
#define C39_PSP_MAX 4
static const char *c39_psp_arg[C39_PSP_MAX]; static int c39_psp_ok[C39_PSP_MAX]; static int c39_psp_calls;
union c39_sa { struct sockaddr sa; struct sockaddr_in sin; struct sockaddr_in6 sin6; };
static union c39_sa c39_psp_out[C39_PSP_MAX]; static int c39_psp_len[C39_PSP_MAX];
int evutil_parse_sockaddr_port(const char *str, struct sockaddr *out, int *outlen)
{
#ifdef C39_AF     /* outcome fixed per obligation (0 fails, 1 IPv4, 2 IPv6): keeps the address length a constant for symex */
	int kind = C39_AF, i = c39_psp_calls;
#else
	int kind = (int)vp_range(0, 2), i = c39_psp_calls;
#endif
	VP_ASSERT(i < C39_PSP_MAX, "harness: too many address parses");
	c39_psp_calls++;
	c39_psp_arg[i] = str; c39_psp_ok[i] = 0;
	if (kind == 0) return -1;
	if (kind == 1) {
		struct sockaddr_in sin;
		if (*outlen < (int)sizeof(sin)) return -1;
		memset(&sin, 0, sizeof(sin));
		sin.sin_family = AF_INET; sin.sin_port = vp_u16(); sin.sin_addr.s_addr = vp_u32();
		/* (typed stores: a byte-wise copy into the caller's 128-byte sockaddr_storage costs millions of variables) */
		*(struct sockaddr_in *)out = sin; *outlen = sizeof(sin);
		c39_psp_out[i].sin = sin; c39_psp_len[i] = sizeof(sin);
	} else {
		struct sockaddr_in6 sin6;
		if (*outlen < (int)sizeof(sin6)) return -1;
		memset(&sin6, 0, sizeof(sin6));
		sin6.sin6_family = AF_INET6; sin6.sin6_port = vp_u16();
		/* two symbolic words are enough to tell addresses apart */
		((ev_uint32_t *)&sin6.sin6_addr)[0] = vp_u32(); ((ev_uint32_t *)&sin6.sin6_addr)[3] = vp_u32();
		*(struct sockaddr_in6 *)out = sin6; *outlen = sizeof(sin6);
		c39_psp_out[i].sin6 = sin6; c39_psp_len[i] = sizeof(sin6);
	}
	c39_psp_ok[i] = 1;
	return 0;
}
static int c39_sa_equal(const struct sockaddr *a, const struct sockaddr *b, int port)
{
	if (a->sa_family != b->sa_family) return 0;
	if (a->sa_family == AF_INET) {
		const struct sockaddr_in *x = (const void *)a, *y = (const void *)b;
		return x->sin_addr.s_addr == y->sin_addr.s_addr && (!port || x->sin_port == y->sin_port);
	} else if (a->sa_family == AF_INET6) {
		const struct sockaddr_in6 *x = (const void *)a, *y = (const void *)b; int i;
		for (i = 0; i < 16; i++) if (x->sin6_addr.s6_addr[i] != y->sin6_addr.s6_addr[i]) return 0;
		return !port || x->sin6_port == y->sin6_port;
	}
	return 0;
}
int evutil_sockaddr_cmp(const struct sockaddr *a, const struct sockaddr *b, int include_port) { return c39_sa_equal(a, b, include_port) ? 0 : 1; }
int evutil_sockaddr_is_loopback_(const struct sockaddr *sa) { (void)sa; return 0; }
const char *evutil_format_sockaddr_port_(const struct sockaddr *sa, char *out, size_t outlen) { (void)sa; if (outlen) out[0] = 0; return out; }

/* ---- evutil_read_file_ : the harness supplies the content ---- */
static char *c39_file; static size_t c39_file_len; static int c39_file_err;
int evutil_read_file_(const char *filename, char **content_out, size_t *len_out, int is_binary)
{
	(void)filename; (void)is_binary;
	if (c39_file_err) return c39_file_err;
	*content_out = c39_file; *len_out = c39_file_len;
	return 0;
}

#ifndef C39_N
#define C39_N 12
#endif
#define VPD_SMALL_COPY (C39_N + 2)    /* solver-chosen lengths are <= line length + 1; fixed-size blocks (sockaddr) take the other loop */
#include "dns_typed_alloc_pre.h"
#include "evdns.c"
#include "dns_typed_alloc_post.h"
#include "dnsconf_ref.h"

#ifndef C39_N
#define C39_N 12
#endif

#ifdef C39_FRONT
#define C39_FREE(s, n, len) free(s)
#else
#define C39_FREE(s, n, len) free((s) - ((n) - (len)))
#endif
/* Release everything that is reachable from the base (the library's own evdns_base_free walks request tables and
 * nameserver failure paths that are C34's subject and cost minutes here).  Whatever a parser allocated and did not
 * link into the base stays allocated and is reported by --memory-leak-check. */
static void c39_free_base(struct evdns_base *b)
{
	struct nameserver *ns = b->server_head, *nx; int i;
	for (i = 0; i < 3 && ns; i++) {
		nx = ns->next;
		mm_free(ns);
		ns = (nx == b->server_head) ? NULL : nx;
	}
	search_state_decref(b->global_search_state);
	{
		struct hosts_entry *victim;
		while ((victim = TAILQ_FIRST(&b->hostsdb))) { TAILQ_REMOVE(&b->hostsdb, victim, next); mm_free(victim); }
	}
	mm_free(b->req_heads);
	mm_free(b);
}
/* directive-prefixed line: the literal keyword (optionally short of its last character) followed by <= n solver-chosen
 * bytes, at the start of an object of strlen(prefix) + n + 1 bytes (over-reads behind the terminator are the business
 * of the fully symbolic exact-size obligations; this shape reaches the long directives) */
static char *c39_prefixed(const char *prefix, size_t plen, size_t n, size_t *lenp)
{
	char *obj = malloc(plen + n + 1);
	size_t keep = vp_bool() ? plen : plen - 1, tl = (size_t)vp_range(0, n), i;
	__CPROVER_assume(obj != NULL);
	for (i = 0; i < keep; i++) obj[i] = prefix[i];
	for (i = 0; i < n; i++) if (i < tl) { unsigned long long v = vp_input(); obj[keep + i] = *(char *)&v; __CPROVER_assume(obj[keep + i] != 0); }
	obj[keep + tl] = 0;
	*lenp = keep + tl;
	return obj;
}
/* symbolic NUL-terminated string of length 0..n at the end of an exact object of n+1 bytes */
static char *c39_string(size_t n, size_t *lenp)
{
#ifdef C39_FRONT
	/* variant: the string starts at the beginning of the object (reads in front of it leave the object; concrete
	 * offsets, much cheaper); over-reads behind the terminator are only seen when len == n */
	char *fobj = malloc(n + 1);
	size_t flen = (size_t)vp_range(0, n), fi;
	__CPROVER_assume(fobj != NULL);
	for (fi = 0; fi < n; fi++) {
		unsigned long long v = vp_input();
		fobj[fi] = *(char *)&v;
		if (fi < flen) __CPROVER_assume(fobj[fi] != 0);
		if (fi == flen) fobj[fi] = 0;
	}
	fobj[n] = 0;
	if (lenp) *lenp = flen;
	return fobj;
#endif
	char *obj = malloc(n + 1);
	size_t len = (size_t)vp_range(0, n), i;
	__CPROVER_assume(obj != NULL);
	for (i = 0; i < n; i++) {
		unsigned long long v = vp_input();
		obj[i] = *(char *)&v;          /* low byte, without a narrowing cast (harness_timeval runs with --conversion-check) */
		if (i >= n - len) __CPROVER_assume(obj[i] != 0);
	}
	obj[n] = 0;
	if (lenp) *lenp = len;
	return obj + (n - len);
}

/* ------------------------------------------------------------------ (1) */
void harness_int(void)
{
	size_t len;
	char *s = c39_string(C39_N, &len);
	int lo = vp_int(), hi = vp_int(), r, want = 0, ok, clip = vp_bool();
	__CPROVER_assume(lo <= hi && lo != -1 && hi != -1);
	r = clip ? strtoint_clipped(s, lo, hi) : strtoint(s);
#if defined(KF_ONLY_INT_WRAP)
	__CPROVER_assume(c39_strtol_calls > 0);
#endif
	VP_ASSERT(c39_strtol_calls == 1 && c39_strtol_arg == s, "C39: the value text is converted once, from its start");
	ok = dcr_int(c39_l, c39_l_whole, &want);
	if (clip && ok) want = want < lo ? lo : want > hi ? hi : want;
	if (!ok) {
		VP_ASSERT(r == -1, "C39: strtoint/strtoint_clipped accepted a malformed integer");
		C39_WITNESS("C39 int: malformed value rejected");
	} else {
		VP_ASSERT(r == want, "C39: strtoint/strtoint_clipped value differs from the reference (value saturated to int, then clipped to [min,max])");
		if (clip && r == hi && hi < 100) C39_WITNESS("C39 int: clipped to max");
		if (!clip && want < 0) C39_WITNESS("C39 int: negative value parsed");
		if (len == 0) C39_WITNESS("C39 int: empty value reads as 0");
	}
	C39_KF_WITNESS();
	C39_FREE(s, C39_N, len);
}

/* ------------------------------------------------------------------ (2) */
static void c39_kf_time(void)
{
#if defined(KF_ONLY_TIMEVAL_RANGE)
	__CPROVER_assume(c39_strtod_calls > 0);   /* (the value itself is constrained inside the strtod contract) */
#endif
}
void harness_timeval(void)
{
	size_t len;
	char *s = c39_string(4, &len);
	struct timeval tv; long ws = 0, wu = 0; int r, ok;
	tv.tv_sec = 77; tv.tv_usec = 78;
	r = evdns_strtotimeval(s, &tv);
	c39_kf_time();
	VP_ASSERT(c39_strtod_calls == 1, "C39: evdns_strtotimeval converts the text once");
	ok = c39_d_whole && dcr_timeval(c39_d, &ws, &wu);
	if (!ok) {
		VP_ASSERT(r == -1, "C39: evdns_strtotimeval accepted a value that is not a representable time of at least 1 ms");
		C39_WITNESS("C39 timeval: rejected");
	} else {
		VP_ASSERT(r == 0, "C39: evdns_strtotimeval rejected a valid time");
		VP_ASSERT(tv.tv_sec == ws && tv.tv_usec == wu, "C39: evdns_strtotimeval result differs from trunc(d), trunc(frac*1e6)");
		VP_ASSERT(tv.tv_sec >= 0 && tv.tv_usec >= 0 && tv.tv_usec < 1000000, "C39: evdns_strtotimeval produced a denormal timeval");
		if (tv.tv_sec > 0 && tv.tv_usec > 0) C39_WITNESS("C39 timeval: seconds and microseconds");
	}
	C39_KF_WITNESS();
	C39_FREE(s, 4, len);
}

/* ------------------------------------------------------------------ (3) */
/* contract of evdns_strtotimeval as decided by harness_timeval, substituted in harness_option (goto-instrument
 * --replace-calls): -1 and *out untouched, or 0 and a normal timeval of at least 1 ms with tv_sec <= INT_MAX */
static int c39_tv_calls, c39_tv_ok; static long c39_tv_s, c39_tv_us; static const char *c39_tv_arg;
int c39_timeval_contract(const char *const str, struct timeval *out)
{
	c39_tv_calls++; c39_tv_arg = str; c39_tv_ok = vp_bool();
	if (!c39_tv_ok) return -1;
	c39_tv_s = (long)vp_range(0, 2147483647); c39_tv_us = (long)vp_range(0, 999999);
	__CPROVER_assume(!(c39_tv_s == 0 && c39_tv_us < 1000));
	out->tv_sec = c39_tv_s; out->tv_usec = c39_tv_us;
	return 0;
}
static void c39_snapshot(const struct evdns_base *b, struct dcr_conf *c)
{
	c->have_search_state = b->global_search_state != NULL;
	c->ndots = b->global_search_state ? b->global_search_state->ndots : 0;
	c->timeout_s = b->global_timeout.tv_sec; c->timeout_us = b->global_timeout.tv_usec;
	c->skew_s = b->global_getaddrinfo_allow_skew.tv_sec; c->skew_us = b->global_getaddrinfo_allow_skew.tv_usec;
	c->initprobe_s = b->global_nameserver_probe_initial_timeout.tv_sec; c->initprobe_us = b->global_nameserver_probe_initial_timeout.tv_usec;
	c->tcpidle_s = b->global_tcp_idle_timeout.tv_sec; c->tcpidle_us = b->global_tcp_idle_timeout.tv_usec;
	c->max_timeouts = b->global_max_nameserver_timeout; c->max_inflight = b->global_max_requests_inflight;
	c->attempts = b->global_max_retransmits; c->randcase = b->global_randomize_case;
	c->max_probe = b->ns_max_probe_timeout; c->backoff = b->ns_timeout_backoff_factor;
	c->rcvbuf = b->so_rcvbuf; c->sndbuf = b->so_sndbuf; c->udpsize = b->global_max_udp_size;
	c->tcp_flags = ((b->global_tcp_flags & DNS_QUERY_USEVC) ? 1u : 0u) | ((b->global_tcp_flags & DNS_QUERY_IGNTC) ? 2u : 0u);
	c->bound = 0;
}
static int c39_conf_equal(const struct dcr_conf *a, const struct dcr_conf *b)
{
	return a->have_search_state == b->have_search_state && a->ndots == b->ndots &&
	    a->timeout_s == b->timeout_s && a->timeout_us == b->timeout_us && a->skew_s == b->skew_s && a->skew_us == b->skew_us &&
	    a->initprobe_s == b->initprobe_s && a->initprobe_us == b->initprobe_us && a->tcpidle_s == b->tcpidle_s && a->tcpidle_us == b->tcpidle_us &&
	    a->max_timeouts == b->max_timeouts && a->max_inflight == b->max_inflight && a->attempts == b->attempts && a->randcase == b->randcase &&
	    a->max_probe == b->max_probe && a->backoff == b->backoff && a->rcvbuf == b->rcvbuf && a->sndbuf == b->sndbuf && a->udpsize == b->udpsize &&
	    a->tcp_flags == b->tcp_flags;
}
#ifndef C39_OPTK
#define C39_OPTK (-1)       /* -1: fully symbolic option text of <= C39_ON bytes */
#endif
#ifndef C39_ON
#define C39_ON 10
#endif
#ifndef C39_TAIL
#define C39_TAIL 3
#endif
#ifndef C39_VN
#define C39_VN 4
#endif
#ifndef C39_MAXINFLIGHT
#define C39_MAXINFLIGHT 15
#endif
void harness_option(void)
{
	struct evdns_base *base = evdns_base_new(NULL, 0);
	struct dcr_conf before, want, got;
	char *option, *val; size_t vlen, olen = 0; int flags = vp_int(), r, wr, k, val_null = 0, bound_before;
	__CPROVER_assume(base != NULL);
	if (vp_bool()) evdns_base_search_ndots_set(base, (int)vp_range(0, 40));   /* pre-state: with / without a search state */
#if C39_OPTK >= 0
	{	/* name k of the table, optionally short of its last character, followed by <= C39_TAIL solver-chosen bytes */
		const char *name = dcr_opts[C39_OPTK].name; size_t nl = 0, keep, i, tl = (size_t)vp_range(0, C39_TAIL);
		while (name[nl]) nl++;
		keep = vp_bool() ? nl : nl - 1;
		option = malloc(nl + C39_TAIL + 1); __CPROVER_assume(option != NULL);
		for (i = 0; i < keep; i++) option[i] = name[i];
		for (i = 0; i < tl; i++) { option[keep + i] = (char)vp_u8(); __CPROVER_assume(option[keep + i] != 0); }
		option[keep + tl] = 0;
		olen = keep + tl;
	}
#else
	option = c39_string(C39_ON, &olen);
#endif
	k = dcr_opt_find(option);
	val = c39_string(C39_VN, &vlen);
	if ((k == DCR_NOPTS || dcr_opts[k].kind == DCR_FLAG) && vp_bool()) val_null = 1;   /* dns.h: NULL only for valueless options */

	c39_cap_l = (k == DCR_MAXINFLIGHT);   /* keep the request table small (its size is not the subject; clipping at 65000: harness_int) */
	c39_snapshot(base, &before); want = before; bound_before = base->global_outgoing_addrlen;
	EVDNS_LOCK(base);
	r = evdns_base_set_option_impl(base, option, val_null ? NULL : val, flags);
	EVDNS_UNLOCK(base);
#if defined(KF_ONLY_INT_WRAP)
	__CPROVER_assume(c39_strtol_calls > 0);
#endif
	c39_snapshot(base, &got);

	wr = dcr_set_option(&want, option, val_null ? NULL : val, flags, c39_l, c39_strtol_calls ? c39_l_whole : 0,
	    c39_tv_calls ? c39_tv_ok : 0, c39_tv_s, c39_tv_us, c39_psp_calls ? c39_psp_ok[0] : 0);
	if (k != DCR_NOPTS && (dcr_opts[k].kind == DCR_TIME || dcr_opts[k].kind == DCR_TIME_MAX3600))
		VP_ASSERT(c39_tv_calls == 1 && c39_tv_arg == val, "C39: time option value not handed to evdns_strtotimeval");
	else
		VP_ASSERT(c39_tv_calls == 0, "C39: evdns_strtotimeval called for an option that is not a time");
	VP_ASSERT(r == wr, "C39: evdns_base_set_option result differs from the reference (0 ok/ignored, -1 malformed value)");
	VP_ASSERT(c39_conf_equal(&got, &want), "C39: configuration after evdns_base_set_option differs from the reference");
	if (wr == -1) VP_ASSERT(c39_conf_equal(&got, &before), "C39: a rejected option changed the configuration");
	VP_ASSERT(base->n_req_heads == (got.max_inflight + 4) / 5 && base->req_heads != NULL, "C39: request table not sized for max-inflight");
	if (k == DCR_BINDTO && (flags & DNS_OPTION_NAMESERVERS)) {
		VP_ASSERT(c39_psp_calls == 1 && c39_psp_arg[0] == val, "C39: bind-to value not handed to the address parser");
		if (c39_psp_ok[0]) {
			VP_ASSERT(base->global_outgoing_addrlen == (ev_socklen_t)c39_psp_len[0], "C39: bind-to address length not recorded");
			VP_ASSERT(c39_sa_equal((struct sockaddr *)&base->global_outgoing_address, (struct sockaddr *)&c39_psp_out[0], 1), "C39: bind-to address not recorded");
#if C39_OPTK == 7 || C39_OPTK < 0
			C39_WITNESS("C39 option: bind-to accepted");
#endif
		} else
			VP_ASSERT((int)base->global_outgoing_addrlen == bound_before, "C39: rejected bind-to changed the outgoing address");
	} else
		VP_ASSERT((int)base->global_outgoing_addrlen == bound_before, "C39: outgoing address changed by another option");
#if C39_OPTK != 7
	if (k != DCR_NOPTS && wr == 0 && !c39_conf_equal(&got, &before)) C39_WITNESS("C39 option: accepted and applied");
#endif
	if (k != DCR_NOPTS && wr == -1) C39_WITNESS("C39 option: malformed value rejected");
	if (k != DCR_NOPTS && wr == 0 && !(flags & dcr_opts[k].group)) C39_WITNESS("C39 option: group not selected, ignored");
#if C39_OPTK < 0
	if (k == DCR_NOPTS) C39_WITNESS("C39 option: unknown option ignored");
#else
	if (k == DCR_NOPTS) C39_WITNESS("C39 option: near-miss of the name is not the option");
#endif
	C39_KF_WITNESS();
	c39_free_base(base);
#if C39_OPTK >= 0
	free(option);
#else
	C39_FREE(option, C39_ON, olen);
#endif
	C39_FREE(val, C39_VN, vlen);
}

/* ------------------------------------------------------------------ (4) */
#define C39_MAXOPT 6
static const char *c39_opt_name[C39_MAXOPT], *c39_opt_val[C39_MAXOPT]; static int c39_opt_flags[C39_MAXOPT], c39_opt_calls;
/* recorder the driver substitutes for evdns_base_set_option_impl in harness_resolv (goto-instrument --replace-calls) */
int c39_opt_recorder(struct evdns_base *base, const char *option, const char *val, int flags)
{
	(void)base;
	VP_ASSERT(c39_opt_calls < C39_MAXOPT, "harness: too many options on one line");
	c39_opt_name[c39_opt_calls] = option; c39_opt_val[c39_opt_calls] = val; c39_opt_flags[c39_opt_calls] = flags;
	c39_opt_calls++;
	return vp_bool() ? 0 : -1;
}
static int c39_text_equal(const char *s, const char *line, int start, int len)
{
	int i;
	for (i = 0; i < len; i++) if (s[i] != line[start + i]) return 0;
	return s[len] == 0;
}
static int c39_count_ns(const struct evdns_base *b)
{
	int n = 0; const struct nameserver *s = b->server_head;
	if (!s) return 0;
	do { n++; s = s->next; } while (s != b->server_head && n < 4);
	return n;
}
#ifdef C39_PREFIX
#define C39_LN (sizeof(C39_PREFIX) - 1 + C39_N)
#else
#define C39_LN C39_N
#endif
void harness_resolv(void)
{
	struct evdns_base *base = evdns_base_new(NULL, 0);
	size_t len; char *line, copy[C39_LN + 1]; struct dcr_tokens t; enum dcr_line_kind kind;
	int flags = vp_int(), i, ns_before, ndots_before = -7, have_state_before, ndom_before = 0, have_ns = vp_bool(), have_search = vp_bool();
	struct sockaddr_in pre; struct nameserver *pre_ns = NULL;
	struct dcr_conf cb, ca;
	__CPROVER_assume(base != NULL);
	/* pre-state through the API: optionally one nameserver, optionally a search list with one domain and a chosen ndots */
	if (have_ns) {
		memset(&pre, 0, sizeof(pre)); pre.sin_family = AF_INET; pre.sin_port = vp_u16(); pre.sin_addr.s_addr = vp_u32();
		EVDNS_LOCK(base);
		i = evdns_nameserver_add_impl_(base, (struct sockaddr *)&pre, sizeof(pre));
		EVDNS_UNLOCK(base);
		__CPROVER_assume(i == 0);
		pre_ns = base->server_head;
	}
	if (have_search) {
		evdns_base_search_add(base, "old");
		evdns_base_search_ndots_set(base, (int)vp_range(0, 9));
	}
	ns_before = c39_count_ns(base);
	have_state_before = base->global_search_state != NULL;
	if (have_state_before) { ndots_before = base->global_search_state->ndots; ndom_before = base->global_search_state->num_domains; }
	c39_snapshot(base, &cb);

#ifdef C39_PREFIX
	line = c39_prefixed(C39_PREFIX, sizeof(C39_PREFIX) - 1, C39_N, &len);
#else
	line = c39_string(C39_N, &len);
#endif
	for (i = 0; i <= (int)C39_LN; i++) copy[i] = (size_t)i <= len ? line[i] : 0;
	dcr_tokenize(copy, &t);
	kind = dcr_resolv_line(copy, &t, flags);
#if defined(KF_EXCLUDE_NDOTS_RESET)
	__CPROVER_assume(!((kind == DCR_L_DOMAIN || kind == DCR_L_SEARCH) && have_state_before && ndots_before != 1));
#elif defined(KF_ONLY_NDOTS_RESET)
	__CPROVER_assume((kind == DCR_L_DOMAIN || kind == DCR_L_SEARCH) && have_state_before && ndots_before != 1);
#endif

	EVDNS_LOCK(base);
	resolv_conf_parse_line(base, line, flags);
	EVDNS_UNLOCK(base);
	c39_snapshot(base, &ca);

	/* options: exactly the tokens of an `options` line, in order, value = text behind the first ':' or "" */
	if (kind == DCR_L_OPTIONS) {
		VP_ASSERT(c39_opt_calls == t.n - 1, "C39: options line: number of options handed on differs from the reference");
		for (i = 1; i < DCR_MAXTOK; i++) if (i < t.n && i - 1 < c39_opt_calls) {
			int j, colon = -1;
			for (j = 0; j < t.len[i]; j++) if (colon < 0 && copy[t.start[i] + j] == ':') colon = j;
			VP_ASSERT(c39_text_equal(c39_opt_name[i - 1], copy, t.start[i], t.len[i]), "C39: options line: option text differs from the reference");
			if (colon < 0) VP_ASSERT(c39_opt_val[i - 1][0] == 0, "C39: options line: option without ':' must have an empty value");
			else VP_ASSERT(c39_text_equal(c39_opt_val[i - 1], copy, t.start[i] + colon + 1, t.len[i] - colon - 1), "C39: options line: value differs from the reference");
			VP_ASSERT(c39_opt_flags[i - 1] == flags, "C39: options line: flags not passed on");
		}
#if defined(C39_W_OPTIONS)
		if (t.n >= 3) C39_WITNESS("C39 resolv: options line with two options");
#endif
	} else
		VP_ASSERT(c39_opt_calls == 0, "C39: option routine called for a line that is not an options line");

	/* nameservers */
	if (kind == DCR_L_NAMESERVER) {
		int added;
		VP_ASSERT(c39_psp_calls == 1 && c39_text_equal(c39_psp_arg[0], copy, t.start[1], t.len[1]), "C39: nameserver line: address text differs from the reference (first argument)");
		if (c39_psp_ok[0]) {
			union c39_sa ex = c39_psp_out[0]; struct sockaddr *exa = &ex.sa;
			if (exa->sa_family == AF_INET) { if (((struct sockaddr_in *)exa)->sin_port == 0) ((struct sockaddr_in *)exa)->sin_port = htons(53); }
			else if (((struct sockaddr_in6 *)exa)->sin6_port == 0) ((struct sockaddr_in6 *)exa)->sin6_port = htons(53);
			added = !(have_ns && c39_sa_equal((struct sockaddr *)&pre, exa, 1));
			VP_ASSERT(c39_count_ns(base) == ns_before + added, "C39: nameserver line: nameserver count differs from the reference");
			VP_ASSERT(base->global_good_nameservers == ns_before + added, "C39: nameserver line: good-nameserver count differs");
			if (added) {
				struct nameserver *ns = have_ns ? pre_ns->next : base->server_head;
				VP_ASSERT(ns != NULL && ns != pre_ns, "C39: nameserver line: new nameserver not in the ring");
				VP_ASSERT(c39_sa_equal((struct sockaddr *)&ns->address, exa, 1) && ns->addrlen == (ev_socklen_t)c39_psp_len[0], "C39: nameserver line: recorded address differs (port 0 means 53)");
				VP_ASSERT(ns->state == 1 && ns->next->prev == ns && ns->prev->next == ns, "C39: nameserver line: ring links broken");
#if defined(C39_W_NS) && C39_AF != 0
				C39_WITNESS("C39 resolv: nameserver added");
#endif
			} else {
#if defined(C39_W_NS) && C39_AF == 1
				C39_WITNESS("C39 resolv: duplicate nameserver ignored");
#endif
			}
		} else {
			VP_ASSERT(c39_count_ns(base) == ns_before, "C39: malformed nameserver line changed the nameserver list");
#if defined(C39_W_NS) && C39_AF == 0
			C39_WITNESS("C39 resolv: malformed nameserver address skipped");
#endif
		}
	} else {
		VP_ASSERT(c39_psp_calls == 0, "C39: address parser called for a line that is not a nameserver line");
		VP_ASSERT(c39_count_ns(base) == ns_before && base->server_head == pre_ns, "C39: nameserver list changed by a line that is not a nameserver line");
	}

	/* search list */
	if (kind == DCR_L_DOMAIN || kind == DCR_L_SEARCH) {
		int n = kind == DCR_L_DOMAIN ? 1 : t.n - 1; struct search_domain *d;
		VP_ASSERT(base->global_search_state != NULL, "C39: search line: no search state");
		VP_ASSERT(base->global_search_state->num_domains == n, "C39: search line: number of domains differs from the reference");
		d = base->global_search_state->head;
		for (i = 1; i < DCR_MAXTOK; i++) if (i <= n) {
			int ds, dl, j;
			dcr_domain(copy, &t, i, &ds, &dl);
			VP_ASSERT(d != NULL, "C39: search line: list shorter than the reference");
			if (d) {
				VP_ASSERT(d->len == dl, "C39: search line: domain length differs from the reference");
				for (j = 0; j < (int)C39_LN; j++) if (j < dl && j < d->len)
					VP_ASSERT(((const char *)d + sizeof(struct search_domain))[j] == copy[ds + j], "C39: search line: domain text differs from the reference (file order, leading dots dropped)");
				d = d->next;
			}
		}
		VP_ASSERT(d == NULL, "C39: search line: list longer than the reference");
		VP_ASSERT(base->global_search_state->ndots == (have_state_before ? ndots_before : 1), "C39: a domain/search line changed ndots");
#if defined(C39_W_SEARCH)
		if (n >= 2) C39_WITNESS("C39 resolv: search line with two domains");
#endif
#if defined(C39_W_DOMAIN)
		if (kind == DCR_L_DOMAIN) C39_WITNESS("C39 resolv: domain line");
#endif
	} else {
		VP_ASSERT((base->global_search_state != NULL) == have_state_before, "C39: search state created by a line that is not a search line");
		if (have_state_before) VP_ASSERT(base->global_search_state->ndots == ndots_before && base->global_search_state->num_domains == ndom_before, "C39: search list changed by a line that is not a search line");
	}
	cb.have_search_state = ca.have_search_state; cb.ndots = ca.ndots;   /* (checked above) */
	VP_ASSERT(c39_conf_equal(&ca, &cb), "C39: resolv.conf line changed an option field directly");
	if (kind == DCR_L_NONE && t.n > 0) C39_WITNESS("C39 resolv: unknown, unselected or near-miss directive ignored");
	C39_KF_WITNESS();
	c39_free_base(base);
#ifdef C39_PREFIX
	free(line);
#else
	C39_FREE(line, C39_N, len);
#endif
}

/* ------------------------------------------------------------------ (5) */
void harness_hosts(void)
{
	struct evdns_base *base = evdns_base_new(NULL, 0);
	size_t len; char *line, copy[C39_N + 1]; struct dcr_tokens t; int i, r, cut, nnames, want_r, want_n;
	struct hosts_entry *he;
	__CPROVER_assume(base != NULL);
	line = c39_string(C39_N, &len);
	/* reference: strip the comment, tokenize */
	cut = -1;
	for (i = 0; i <= C39_N; i++) { copy[i] = (size_t)i <= len ? line[i] : 0; }
	for (i = 0; i < C39_N; i++) if (cut < 0 && copy[i] == '#') cut = i;
	if (cut >= 0) for (i = 0; i <= C39_N; i++) if (i >= cut) copy[i] = 0;
	dcr_tokenize(copy, &t);

	EVDNS_LOCK(base);
	r = evdns_base_parse_hosts_line(base, line);
	EVDNS_UNLOCK(base);

	/* the entries, in allocation order (entry k is the k-th block the parser allocated: following the TAILQ links
	 * means reading pointers back out of untyped blocks, which costs symex its precision -- the head link is checked) */
	nnames = vpd_ntrack;
	VP_ASSERT((TAILQ_FIRST(&base->hostsdb) == NULL) == (nnames == 0), "C39: hosts line: list head does not match the entries allocated");
	if (nnames > 0) VP_ASSERT((void *)TAILQ_FIRST(&base->hostsdb) == vpd_track_p[0], "C39: hosts line: first entry is not the head of the hosts list");
	if (t.n == 0) {                       /* empty / comment only */
		want_r = 0; want_n = 0;
		VP_ASSERT(c39_psp_calls == 0, "C39: hosts line: address parser called for an empty or comment line");
	} else {
		/* the address is the first token of the comment-stripped line -- unless the comment starts inside the
		 * first token ("1.2.3.4#x"): hosts(5) reads that as address 1.2.3.4 without names, the code hands the
		 * whole token to the address parser (whose verdict on such text is C40's business).  No functional claim
		 * for that shape (OUT); cbmc's memory-safety checks still cover it. */
		int glued = cut >= 0 && cut == t.start[0] + t.len[0];
		if (glued) { want_r = -2; want_n = -2; }
		else {
			VP_ASSERT(c39_psp_calls == 1 && c39_text_equal(c39_psp_arg[0], copy, t.start[0], t.len[0]), "C39: hosts line: address text differs from the reference (first field)");
			if (!c39_psp_ok[0]) { want_r = -1; want_n = 0; }
			else {
				struct sockaddr *sa = (struct sockaddr *)&c39_psp_out[0];
				int port = sa->sa_family == AF_INET ? ((struct sockaddr_in *)sa)->sin_port : ((struct sockaddr_in6 *)sa)->sin6_port;
				if (port) { want_r = -1; want_n = 0; }
				else { want_r = 0; want_n = t.n - 1; }
			}
		}
	}
	if (want_r != -2) VP_ASSERT(r == want_r, "C39: hosts line: result differs from the reference (0 ok/ignored, -1 bad address)");
	if (want_n != -2) VP_ASSERT(nnames == want_n, "C39: hosts line: number of recorded names differs from the reference");
	for (i = 1; i < DCR_MAXTOK; i++) if (i < t.n && i - 1 < nnames && want_n != -2) {
		he = vpd_track_p[i - 1];
		VP_ASSERT(vpd_track_sz[i - 1] == sizeof(struct hosts_entry) + (size_t)t.len[i], "C39: hosts line: entry not sized for its name");
		VP_ASSERT(c39_text_equal(he->hostname, copy, t.start[i], t.len[i]), "C39: hosts line: recorded name differs from the reference");
		VP_ASSERT(he->addrlen == c39_psp_len[0] && c39_sa_equal(&he->addr.sa, &c39_psp_out[0].sa, 1), "C39: hosts line: recorded address differs from the parsed address");
	}
#if !defined(C39_AF) || C39_AF != 0
	if (want_n >= 1) C39_WITNESS("C39 hosts: address with a name recorded");
#if !defined(C39_AF) || C39_AF == 1
	if (want_n >= 2) C39_WITNESS("C39 hosts: address with two names");
	if (want_n >= 1 && cut >= 0) C39_WITNESS("C39 hosts: names before a comment");
#endif
#endif
	if (want_r == -1) C39_WITNESS("C39 hosts: bad address, line skipped");
	if (t.n == 0 && len > 0) C39_WITNESS("C39 hosts: comment or blank line");
	for (i = 0; i < VPD_NTRACK; i++) if (i < vpd_ntrack) mm_free(vpd_track_p[i]);
	TAILQ_INIT(&base->hostsdb);
	c39_free_base(base);
	C39_FREE(line, C39_N, len);
}

/* ------------------------------------------------------------------ (6) */
#ifdef C39_CUT_LINE_PARSERS
#define C39_MAXLINES (C39_N + 2)
static char *c39_line_ptr[C39_MAXLINES]; static int c39_lines, c39_line_flags_ok = 1, c39_want_flags;
/* harness_file: the per-line routines (decided by harness_resolv / harness_hosts) are replaced by these recorders
 * with goto-instrument --replace-calls */
void c39_line_rec(struct evdns_base *base, char *const start, int flags)
{
	(void)base;
	VP_ASSERT(c39_lines < C39_MAXLINES, "harness: too many lines");
	if (flags != c39_want_flags) c39_line_flags_ok = 0;
	c39_line_ptr[c39_lines++] = start;
}
int c39_hline_rec(struct evdns_base *base, char *line)
{
	(void)base;
	VP_ASSERT(c39_lines < C39_MAXLINES, "harness: too many lines");
	c39_line_ptr[c39_lines++] = line;
	return vp_bool() ? 0 : -1;
}
/* the file is cut at every '\n'; each piece (also an empty one, also the last one without '\n') goes to the line
 * parser exactly once, in order, NUL-terminated, and nothing outside the buffer is touched */
void harness_file(void)
{
	struct evdns_base *base = evdns_base_new(NULL, 0);
#ifndef C39_HOSTS
#define C39_HOSTS 0
#endif
	size_t len; char *buf, copy[C39_N + 1];
	const int hosts = C39_HOSTS; int i, r, nl = 0, pos, flags, ndots = (int)vp_range(0, 9);
	__CPROVER_assume(base != NULL);
	evdns_base_search_ndots_set(base, ndots);   /* as an earlier `options ndots:n` line (or the API) left it */
	buf = c39_string(C39_N, &len);
	for (i = 0; i <= C39_N; i++) copy[i] = (size_t)i <= len ? buf[i] : 0;
	c39_file = buf; c39_file_len = len;
	/* evutil_read_file_ returns a malloc'ed NUL-terminated buffer the caller frees: hand over the object itself when
	 * the text starts at its beginning, otherwise a fresh exact copy is not needed -- the caller's mm_free is
	 * redirected below */
	flags = (int)vp_range(0, 31) & ~DNS_OPTION_HOSTSFILE;
	c39_want_flags = flags;
#if defined(KF_EXCLUDE_NDOTS_RESET)
	__CPROVER_assume(!(!hosts && (flags & DNS_OPTION_SEARCH) && ndots != 1));
#elif defined(KF_ONLY_NDOTS_RESET)
	__CPROVER_assume(!hosts && (flags & DNS_OPTION_SEARCH) && ndots != 1);
#endif
	__CPROVER_assume(len == C39_N);   /* the buffer IS the object (mm_free at the end of the routine frees it) */
	EVDNS_LOCK(base);
	if (hosts) r = evdns_base_load_hosts_impl(base, "f");
	else r = evdns_base_resolv_conf_parse_impl(base, flags, "f");
	EVDNS_UNLOCK(base);
	for (i = 0; i < C39_N; i++) if (copy[i] == '\n') nl++;
	VP_ASSERT(c39_lines == nl + 1, "C39: number of lines handed to the line parser differs from the number of newline-separated pieces");
	pos = 0;
	for (i = 0; i < C39_MAXLINES; i++) if (i < c39_lines) {
		VP_ASSERT(c39_line_ptr[i] == buf + pos, "C39: line does not start behind the previous newline");
		while (copy[pos] && copy[pos] != '\n') pos++;
		pos++;
	}
	VP_ASSERT(c39_line_flags_ok, "C39: flags not passed to the line parser");
	if (hosts) VP_ASSERT(r == 0, "C39: evdns_base_load_hosts result for a readable file");
	VP_ASSERT(base->global_search_state != NULL && base->global_search_state->ndots == ndots, "C39: parsing a file without search/domain lines changed ndots");
	if (nl >= 2) C39_WITNESS("C39 file: three lines");
	if (nl == 0) C39_WITNESS("C39 file: no newline");
	C39_KF_WITNESS();
	c39_free_base(base);
}
#endif
