/* C24 (a): first line of a response.  The real evhttp_parse_firstline_() ->
 * evhttp_parse_response_line() (strsep split, evhttp_parse_http_version,
 * atoi, evhttp_valid_response_code, reason copy) on a symbolic line of up to
 * VP_N bytes (any byte but LF, NUL included) against ref_statusline_parse()
 * (RFC 9112 section 4: HTTP-version SP 3DIGIT SP [reason-phrase]).
 * The line is handed over by the contract model of evbuffer_readln
 * (env/http_lines.h, one line or none).
 */
#include "vp.h"
#include "log_stub.h"
#include "http_fmt.h"
#include "http_alloc.h"
#include "http_evutil.h"
#include "http.c"
#ifndef VP_N
#define VP_N 16
#endif
#define VP_L 1
#include "http_lines.h"
#define REF_MAXLINE (VP_N + 1)
#include "http_ref.h"

static char vp_inbuf_identity;

void harness_statusline(void)
{
	unsigned char orig[VP_N + 1];
	struct evhttp_request req;
	struct evhttp_connection evcon;
	struct ref_statusline S;
	size_t len, i;
	enum message_read_status st;

	vp_lines_buf = (struct evbuffer *)&vp_inbuf_identity;
	vp_lines_symbolic(1);
	vp_residual = vp_range(0, 4);
	len = vp_line_len[0];
	for (i = 0; i <= VP_N; i++)
		orig[i] = (unsigned char)vp_lines[0][i];
	memset(&req, 0, sizeof(req));
	memset(&evcon, 0, sizeof(evcon));
	req.evcon = &evcon;
	req.kind = EVHTTP_RESPONSE;
	evcon.max_headers_size = EV_SIZE_MAX;

	ref_statusline_parse(orig, len, &S);
	st = evhttp_parse_firstline_(&req, vp_lines_buf);

	if (vp_nlines == 0) {
		VP_ASSERT(st == MORE_DATA_EXPECTED, "C24: no complete line buffered (and below the size limit): more data expected");
		VP_WITNESS("incomplete status line");
		return;
	}
	VP_ASSERT(st == ALL_DATA_READ || st == DATA_CORRUPTED, "C24: complete status line is accepted or refused");
	VP_ASSERT(vp_line_next == 1, "C24: exactly the first line is consumed");
	if (st == ALL_DATA_READ) {
		int same = 1;
		VP_ASSERT(S.wellformed, "C24: status line accepted that is not 'HTTP-version SP 3DIGIT [SP reason-phrase]' (RFC 9112 4)");
		if (S.wellformed) {
			VP_ASSERT(req.major == S.major && req.minor == S.minor, "C24: HTTP version handed on != version on the wire");
			VP_ASSERT(S.major <= 1, "C24: response with major version > 1 accepted by an HTTP/1.x parser");
			VP_ASSERT(req.response_code == S.code, "C24: status code handed on != status code on the wire");
			VP_ASSERT(req.response_code_line != NULL && strlen(req.response_code_line) == S.r_len, "C24: reason phrase handed on != reason phrase on the wire (length)");
			for (i = 0; i < VP_N; i++)
				if (i < S.r_len && (unsigned char)req.response_code_line[i] != orig[S.r_off + i]) same = 0;
			VP_ASSERT(same, "C24: reason phrase handed on != reason phrase on the wire");
		}
		VP_ASSERT(req.headers_size == len, "C24: first line accounted in headers_size");
		VP_WITNESS("status line accepted");
		if (S.wellformed && S.r_len == 2) VP_WITNESS("status line with a 2-byte reason phrase accepted");
		if (S.wellformed && len == 12) VP_WITNESS("status line without reason phrase and without trailing SP accepted");
		mm_free(req.response_code_line);
	} else {
		/* completeness: a grammatical HTTP/1.x status line with a code in 100..999 is accepted */
		VP_ASSERT(!(S.strict && S.major <= 1 && S.code >= 100), "C24: strictly valid status line rejected");
		VP_WITNESS("status line rejected");
	}
}
