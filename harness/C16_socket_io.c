/* C16: evbuffer socket I/O moves exactly the bytes the system call reports.
 *
 * buffer.c (real code, 64-byte chains) with ioctl(FIONREAD)/read/readv/write/writev/sendfile replaced by the
 * contract stubs of env/sock_io.h (every result solver-chosen within the man-page contract).
 *   SHAPE   concrete prefix building the buffer (chain structure and sizes concrete, payload bytes symbolic):
 *           1 empty   2 add(5)   3 add(16) (full chain)   4 add(3)+reference(4)   5 add(20) (two chains)
 *           6 add(5)+drain(2) (misaligned)   7 reference(4)+add(3)
 *           8 sendfile chain(6 bytes at file offset 4 of a 16-byte file)+add(3)      9 add(3)+sendfile chain(6)
 *           10 shape 8 after drain(2): 4 bytes of the file range left (file offset 6), then add(3)
 *   harness_read   final = evbuffer_read(buf, fd, howmuch): howmuch and the FIONREAD answer are case-split
 *           (concrete inside each case, the case is solver-chosen: DESIGN 3.4), max_read = 24; the read result,
 *           errno and the bytes are symbolic.
 *   harness_write  final = evbuffer_write_atmost(buf, fd, howmuch) (howmuch == -1: evbuffer_write), howmuch and
 *           the count the write system call accepts case-split, errno symbolic.
 * Oracle: byte-string model (ref/bytes.h): read appends exactly the returned bytes; write removes exactly the
 * accepted prefix, offers only bytes of the buffer in order, never more than asked; -1 / 0 leave the buffer
 * unchanged; one system call per API call; chain invariant; referenced memory untouched.
 * KF_EXCLUDE_SENDFILE_HOWMUCH / KF_ONLY_SENDFILE_HOWMUCH: predicate-guarded pair for evbuffer_write_sendfile
 * ignoring `howmuch`.
 */
#include "vp.h"
#include "log_stub.h"
#define VP_LOCKS_OFF
#include "locks.h"
#include "evbuf_alloc.h"
#include "evbuf_copy.h"
#include <stdlib.h>
#include "sock_io.h"
#include "buffer.c"
#include "evbuf_link.h"
#include "evbuf_inv.h"
#include "bytes.h"

/* cuts with proof, see C42_tagging.c: no multicast chains, no evbuffer_free here */
void vp_cut_decref(struct evbuffer *b) { (void)b; VP_ASSERT(0, "harness: evbuffer_decref_and_unlock_ reached (no multicast chain and no evbuffer_free in this harness)"); __CPROVER_assume(0); }

#ifndef SHAPE
#define SHAPE 2
#endif
#define VP_FD 3
#define VP_SRC_FD 2
#define VP_MAXREAD 24

static struct evbuffer *B;
static struct vpb M;                   /* model of B's bytes (sendfile chains: the file range) */
static unsigned char vp_ref[4], vp_refghost[4];
static int vp_ref_cleaned;
static unsigned char vp_pay[24];
static int vp_has_sf;                  /* buffer contains a sendfile chain */
static size_t vp_sf_first;             /* > 0: the FIRST chain is a sendfile chain of this many bytes */
static size_t vp_sf_off = 4;           /* file offset of its first unsent byte */
static void vp_ref_cleanup(const void *d, size_t n, void *e) { (void)d; (void)n; (void)e; vp_ref_cleaned++; }

static void add_bytes(size_t n)
{
	vp_bytes(vp_pay, n);
	__CPROVER_assume(evbuffer_add(B, vp_pay, n) == 0);
	vpb_append(&M, vp_pay, n);
}
static void add_ref(void)
{
	size_t i;
	vp_bytes(vp_ref, 4);
	for (i = 0; i < 4; i++) vp_refghost[i] = vp_ref[i];
	__CPROVER_assume(evbuffer_add_reference(B, vp_ref, 4, vp_ref_cleanup, NULL) == 0);
	vpb_append(&M, vp_ref, 4);
}
static void add_sendfile(void)
{
	struct evbuffer_file_segment *seg;
	vp_bytes(vp_file, VP_FILE_MAX);
	evbuffer_set_flags(B, EVBUFFER_FLAG_DRAINS_TO_FD);
	seg = evbuffer_file_segment_new(VP_SRC_FD, 4, 6, 0);
	__CPROVER_assume(seg != NULL);
	__CPROVER_assume(evbuffer_add_file_segment(B, seg, 0, -1) == 0);
	evbuffer_file_segment_free(seg);
	vpb_append(&M, vp_file + 4, 6);
	vp_has_sf = 1;
}
static void build(void)
{
	B = evbuffer_new();
	__CPROVER_assume(B != NULL);
	vpb_init(&M);
	__CPROVER_assume(evbuffer_set_max_read(B, VP_MAXREAD) == 0);
#if SHAPE == 1
#elif SHAPE == 2
	add_bytes(5);
#elif SHAPE == 3
	add_bytes(16);
#elif SHAPE == 4
	add_bytes(3); add_ref();
#elif SHAPE == 5
	add_bytes(20);
#elif SHAPE == 6
	add_bytes(5); __CPROVER_assume(evbuffer_drain(B, 2) == 0); vpb_drain(&M, 2);
#elif SHAPE == 7
	add_ref(); add_bytes(3);
#elif SHAPE == 8
	add_sendfile(); vp_sf_first = 6; add_bytes(3);
#elif SHAPE == 9
	add_bytes(3); add_sendfile();
#elif SHAPE == 10      /* what a short sendfile leaves behind: 4 bytes of the range left, starting at file offset 6 */
	add_sendfile(); add_bytes(3);
	__CPROVER_assume(evbuffer_drain(B, 2) == 0); vpb_drain(&M, 2);
	vp_sf_first = 4; vp_sf_off = 6;
#else
#error "unknown SHAPE"
#endif
}
/* B against the model; with a sendfile chain the bytes are not in memory: lengths only */
static void compare(const char *what)
{
	size_t i;
	(void)what;
	vp_evb_check(B, "");
	VP_ASSERT(evbuffer_get_length(B) == M.len, "C16: buffer length differs from the byte-string model");
	if (!vp_has_sf) {
		i = vp_size();
		if (i < M.len) VP_ASSERT(vp_evb_byte(B, i) == vpb_at(&M, i), "C16: buffer contents differ from the byte-string model");
	}
	for (i = 0; i < 4; i++) VP_ASSERT(vp_ref[i] == vp_refghost[i], "C16: referenced user memory was modified");
}

#ifdef VP_READ
static const int HM[] = { -1, 0, 1, 5, 12, 17, 30 };
static const int FR[] = { -1, 0, 3, 20, 5000 };      /* -1: ioctl fails */
void harness_read(void)
{
	unsigned a, b; int hm, fr, r; size_t n, eff, i, old;
	unsigned pa = (unsigned)vp_range(0, 6), pb = (unsigned)vp_range(0, 4);
	build();
	compare("prefix");
	vp_bytes(vp_io_in, VP_MAXREAD + 1);
	old = M.len;
	for (a = 0; a < 7; a++) for (b = 0; b < 5; b++) {
		if (pa != a || pb != b) continue;
#ifdef VP_FRI           /* FIONREAD case enumerated by the driver */
		if (b != VP_FRI) { __CPROVER_assume(0); }
#endif
		hm = HM[a]; fr = FR[b];
		vp_io_fionread_rc = fr < 0 ? -1 : 0; vp_io_fionread = fr;
		/* what evbuffer_read may ask the kernel for: documented = min(howmuch, max_read, bytes readable) */
		n = (fr <= 0 || fr > VP_MAXREAD) ? VP_MAXREAD : (size_t)fr;
		eff = (hm < 0 || (size_t)hm > n) ? n : (size_t)hm;
		vp_io_limit = eff;
		r = evbuffer_read(B, VP_FD, hm);
		VP_ASSERT(vp_io_calls <= 1, "C16: evbuffer_read issued more than one read system call");
		if (vp_io_calls == 1) {
			VP_ASSERT(vp_io.fd == VP_FD, "C16: read on a different descriptor");
			VP_ASSERT((long)r == vp_io.ret, "C16: evbuffer_read does not return what the read system call reported");
		}
		if (r > 0) {
			VP_ASSERT((size_t)r <= eff, "C16: evbuffer_read returned more than requested");
			vpb_append(&M, vp_io_in, (size_t)r);
			compare("after read");
			/* the appended bytes are exactly the bytes the kernel delivered */
			i = vp_size();
			if (i < (size_t)r) VP_ASSERT(vp_evb_byte(B, old + i) == vp_io_in[i], "C16: appended bytes differ from the bytes read");
			VP_WITNESS("C16 read appended data");
		} else {
			VP_ASSERT(r == 0 || r == -1, "C16: evbuffer_read returns a count, 0 or -1");
			compare("after failed read");         /* unchanged */
			if (r == -1) VP_WITNESS("C16 read failed, buffer unchanged");
			else VP_WITNESS("C16 read returned 0, buffer unchanged");
		}
		return;
	}
	__CPROVER_assume(0);
}
#endif

#ifdef VP_WRITE
static const long HMW[] = { -1, 0, 1, 3, 4, 7, 100 };
void harness_write(void)
{
	unsigned a; long hm, r, rr; size_t eff, i, offered;
	unsigned pa = (unsigned)vp_range(0, 6); long pr = (long)vp_range(0, 21) - 1;
	build();
	compare("prefix");
	for (a = 0; a < 7; a++) for (rr = -1; rr <= 20; rr++) {
		if (pa != a || pr != rr) continue;
#ifdef VP_HMI           /* howmuch case enumerated by the driver */
		if (a != VP_HMI) { __CPROVER_assume(0); }
#endif
		hm = HMW[a];
		vp_io_force = rr;                     /* the write system call's result: this case's value */
		eff = (hm < 0 || (size_t)hm > M.len) ? M.len : (size_t)hm;
#ifdef KF_EXCLUDE_SENDFILE_HOWMUCH
		/* known finding: a leading sendfile chain is sent whole whatever howmuch says */
		if (vp_sf_first && eff > 0 && eff < vp_sf_first) { __CPROVER_assume(0); }
#endif
#ifdef KF_ONLY_SENDFILE_HOWMUCH
		if (!(vp_sf_first && eff > 0 && eff < vp_sf_first)) { __CPROVER_assume(0); }
#endif
		if (rr > (long)eff && !(vp_sf_first && rr <= (long)vp_sf_first)) { __CPROVER_assume(0); }
		vp_io_limit = eff;
		r = hm == -1 ? evbuffer_write(B, VP_FD) : evbuffer_write_atmost(B, VP_FD, hm);
		VP_ASSERT(vp_io_calls <= 1, "C16: evbuffer_write issued more than one system call");
		if (eff == 0) {
			VP_ASSERT(vp_io_calls == 0, "C16: system call although nothing was to be written");
		} else {
			VP_ASSERT(vp_io_calls == 1, "C16: no system call although there was data to write");
			VP_ASSERT(vp_io.fd == VP_FD, "C16: write on a different descriptor");
			offered = vp_io.total;
			VP_ASSERT(offered >= 1 && offered <= eff, "C16: bytes offered to the kernel exceed the request");
			if (vp_io.kind == VP_IO_SENDFILE) {
				VP_ASSERT(vp_sf_first, "C16: sendfile used although the first chain is not a sendfile chain");
				VP_ASSERT(vp_io.in_fd == VP_SRC_FD && vp_io.sf_off == (long)vp_sf_off, "C16: sendfile from the wrong file position");
				/* the count handed to sendfile covers only what is left of THIS chain's file range (the file is longer than the
				 * range and other data follows in the buffer: anything beyond it would send foreign file bytes and drain unsent data) */
				VP_ASSERT(offered <= vp_sf_first, "C16: sendfile asked to send more bytes than are left in the file segment chain");
				/* Linux branch: a retriable error is reported as 0 bytes */
				VP_ASSERT(r == vp_io.ret || (vp_io.ret == -1 && r == 0), "C16: evbuffer_write does not return what sendfile reported");
			} else {
				VP_ASSERT(!vp_sf_first, "C16: write/writev used on a sendfile chain");
				VP_ASSERT(r == vp_io.ret, "C16: evbuffer_write does not return what the write system call reported");
				/* the bytes offered are the first bytes of the buffer, in order */
				i = vp_size();
				if (i < offered) VP_ASSERT(vp_io_out[i] == vpb_at(&M, i), "C16: bytes offered to write differ from the buffer's first bytes");
			}
		}
		if (r > 0) {
			VP_ASSERT((size_t)r <= eff, "C16: evbuffer_write removed more than requested");
			vpb_drain(&M, (size_t)r);
			if (vp_sf_first && (size_t)r >= vp_sf_first) vp_has_sf = 0;
			compare("after write");
			if (vp_sf_first && (size_t)r < vp_sf_first)
				VP_ASSERT(B->first->misalign == (ev_off_t)vp_sf_off + r && B->first->off == vp_sf_first - (size_t)r, "C16: sendfile chain does not continue at the first unsent file byte");
#if SHAPE != 1 && !defined(VP_NO_PROGRESS)      /* (empty buffer / howmuch == 0: nothing can be written) */
			VP_WITNESS("C16 write removed the accepted prefix");
#endif
		} else {
			VP_ASSERT(r == 0 || r == -1, "C16: evbuffer_write returns a count, 0 or -1");
			compare("after failed write");        /* unchanged */
			VP_WITNESS("C16 write failed or wrote nothing, buffer unchanged");
		}
		return;
	}
	__CPROVER_assume(0);
}
#endif
