/* C20 -- timeouts of socket bufferevents: bufferevent.c + bufferevent_sock.c (real code), sink evbuffer, recording
 * event stubs.  One operation (C20_OP) from an arbitrary state that was itself built through the API; the timeout
 * invariant (C20_common.h) is asserted before and after.
 */
#include "vp.h"
#include "log_stub.h"
#include "locks.h"
#include "alloc.h"
#include "bev_pre.h"
#include "bufferevent.c"
#include "bufferevent_sock.c"
#define VP_SINK_DISPATCH(fn, b, i, a) do { \
	if ((fn) == bufferevent_inbuf_wm_cb) bufferevent_inbuf_wm_cb((b), (i), (a)); \
	else if ((fn) == bufferevent_socket_outbuf_cb) bufferevent_socket_outbuf_cb((b), (i), (a)); \
	else VP_ASSERT(0, "harness: unknown evbuffer callback"); } while (0)
#include "evbuf_sink.h"
#include "bev_env.h"
#include "bev_user.h"
#include "C20_common.h"

const struct bufferevent_ops bufferevent_ops_pair = { "pair-not-linked", 0, NULL, NULL, NULL, NULL, NULL, NULL, NULL };
const struct bufferevent_ops bufferevent_ops_filter = { "filter-not-linked", 0, NULL, NULL, NULL, NULL, NULL, NULL, NULL };

#define FD 5
#define B 0
/* (macros, not an enum: they are compared in #if) */
#define OP_ENABLE_R 0
#define OP_ENABLE_W 1
#define OP_DISABLE_R 2
#define OP_DISABLE_W 3
#define OP_SET_TIMEOUTS 4
#define OP_SUSPEND 5
#define OP_UNSUSPEND 6
#define OP_WRITE 7
#define OP_READ_EVENT 8
#define OP_WRITE_EVENT 9
#define OP_READ_TIMEOUT 10
#define OP_WRITE_TIMEOUT 11
#define OP_READ_EVENT_AND_TIMEOUT 12
#ifndef C20_OP
#define C20_OP OP_ENABLE_R
#endif
/* C20_STATE_W_ENABLED_EMPTY: allow the pre-state "writing enabled by an explicit bufferevent_enable(EV_WRITE) while the
 * output is empty" (see props/C20.py: KF-C20-sock-enable-empty) */

static void build_state(void)
{
	static int base_obj;
	struct timeval tr, tw;
	size_t O = vp_size();
	int en_r = vp_bool(), en_w = vp_bool(), sr = vp_bool(), sw = vp_bool();
	struct bufferevent *b = bufferevent_socket_new((struct event_base *)&base_obj, FD, 0);
	__CPROVER_assume(b != NULL);
	u_install(B, b);
	c20_sym_tv(&tr); c20_sym_tv(&tw);
	__CPROVER_assume(O <= (size_t)EV_SSIZE_MAX / 2);
	bufferevent_set_timeouts(b, vp_bool() ? &tr : NULL, vp_bool() ? &tw : NULL);
	if (en_r) bufferevent_enable(b, EV_READ);
	if (!en_w) bufferevent_disable(b, EV_WRITE);
	if (O) { int r = bufferevent_write(b, NULL, O); VP_ASSERT(r == 0, "C17: bufferevent_write failed"); }
	if (sr) bufferevent_suspend_read_(b, BEV_SUSPEND_BW);
	if (sw) bufferevent_suspend_write_(b, BEV_SUSPEND_BW);
	c20_check_inv(B, 1);
}

void harness_sock_step(void)
{
	struct bufferevent *b;
	long adds_r, adds_w;
	build_state();
	b = u_bev[B];
	adds_r = c20_adds_tv(&b->ev_read); adds_w = c20_adds_tv(&b->ev_write);
	vp_bev_now += 7;
#if C20_OP == OP_ENABLE_R
	bufferevent_enable(b, EV_READ);
	VP_ASSERT(b->enabled & EV_READ, "C20: enable");
#elif C20_OP == OP_ENABLE_W
	/* (with output pending, or already pending: see the finding about enabling with an empty output buffer) */
#ifndef C20_STATE_W_ENABLED_EMPTY
	__CPROVER_assume(evbuffer_get_length(b->output) != 0 || U_PRIV(B)->write_suspended);
#endif
	bufferevent_enable(b, EV_WRITE);
#elif C20_OP == OP_DISABLE_R
	bufferevent_disable(b, EV_READ);
	VP_ASSERT(!vp_ev_timer_pending(&b->ev_read) && !vp_ev_io_pending(&b->ev_read), "C20: read timeout still armed after disabling reads");
#elif C20_OP == OP_DISABLE_W
	bufferevent_disable(b, EV_WRITE);
	VP_ASSERT(!vp_ev_timer_pending(&b->ev_write) && !vp_ev_io_pending(&b->ev_write), "C20: write timeout still armed after disabling writes");
#elif C20_OP == OP_SET_TIMEOUTS
	{
		struct timeval tr, tw; int hr = vp_bool(), hw = vp_bool(), r;
		c20_sym_tv(&tr); c20_sym_tv(&tw);
		r = bufferevent_set_timeouts(b, hr ? &tr : NULL, hw ? &tw : NULL);
		VP_ASSERT(r == 0, "C20: bufferevent_set_timeouts failed");
		VP_ASSERT(tv_eq(&b->timeout_read, hr ? &tr : &(struct timeval){0, 0}) && tv_eq(&b->timeout_write, hw ? &tw : &(struct timeval){0, 0}), "C20: set_timeouts stores the durations (NULL clears)");
		/* a changed/confirmed timeout starts counting from now */
		if (vp_ev_timer_pending(&b->ev_read)) VP_ASSERT(vp_rec(&b->ev_read)->armed_at == vp_bev_now, "C20: new read timeout not started at set_timeouts");
		if (vp_ev_timer_pending(&b->ev_write)) VP_ASSERT(vp_rec(&b->ev_write)->armed_at == vp_bev_now, "C20: new write timeout not started at set_timeouts");
	}
#elif C20_OP == OP_SUSPEND
	if (vp_bool()) bufferevent_suspend_read_(b, BEV_SUSPEND_WM); else bufferevent_suspend_write_(b, BEV_SUSPEND_BW_GROUP);
#elif C20_OP == OP_UNSUSPEND
	if (vp_bool()) bufferevent_unsuspend_read_(b, BEV_SUSPEND_BW);
	else {
#ifndef C20_STATE_W_ENABLED_EMPTY
		__CPROVER_assume(evbuffer_get_length(b->output) != 0);
#endif
		bufferevent_unsuspend_write_(b, BEV_SUSPEND_BW);
	}
#elif C20_OP == OP_WRITE
	{
		size_t m = vp_size(); int r;
		__CPROVER_assume(m >= 1 && m <= (size_t)EV_SSIZE_MAX / 2);
		r = bufferevent_write(b, NULL, m);
		VP_ASSERT(r == 0, "C17: bufferevent_write failed");
	}
#elif C20_OP == OP_READ_EVENT || C20_OP == OP_READ_EVENT_AND_TIMEOUT
	if (!vp_ev_io_pending(&b->ev_read)) { VP_WITNESS("read event not pending"); return; }
	vp_sink_rd_avail = (size_t)vp_range(1, 0x7fffffff);
	bufferevent_readcb(FD, C20_OP == OP_READ_EVENT ? EV_READ : (EV_READ | EV_TIMEOUT), b);
	if (vp_sink_last_rd > 0) {
		/* a successful transfer: the (persistent) read event stays as it is, the event core restarts its timeout */
		VP_ASSERT(vp_sink_rd_calls == 1 && (b->enabled & EV_READ) && !(u_all_what[B] & BEV_EVENT_TIMEOUT), "C20: data arrived: no timeout report, reading stays enabled");
		VP_ASSERT((b->ev_read.ev_events & EV_PERSIST), "C20: read event must be persistent (timeout restarts on every read)");
		VP_WITNESS("data read");
	} else if (vp_sink_last_rd == 0) VP_WITNESS("EOF");
#elif C20_OP == OP_WRITE_EVENT
	if (!vp_ev_io_pending(&b->ev_write)) { VP_WITNESS("write event not pending"); return; }
	bufferevent_writecb(FD, EV_WRITE, b);
	if (vp_sink_last_wr > 0) {
		VP_ASSERT(!(u_all_what[B] & BEV_EVENT_TIMEOUT) && (b->enabled & EV_WRITE), "C20: data written: no timeout report, writing stays enabled");
		VP_ASSERT((b->ev_write.ev_events & EV_PERSIST), "C20: write event must be persistent (timeout restarts on every write)");
		if (evbuffer_get_length(b->output)) VP_WITNESS("partial write: timer keeps running"); else VP_WITNESS("output drained: timer cancelled");
	}
#elif C20_OP == OP_READ_TIMEOUT
	if (!vp_ev_timer_pending(&b->ev_read)) { VP_WITNESS("read timer not pending"); return; }
	bufferevent_readcb(FD, EV_TIMEOUT, b);
	VP_ASSERT(vp_sink_rd_calls == 0, "C20: read attempted on a pure timeout");
	VP_ASSERT(u_events[B] == 1 && u_last_what[B] == (BEV_EVENT_TIMEOUT | BEV_EVENT_READING), "C20: read timeout must be reported as TIMEOUT|READING exactly once");
	VP_ASSERT(!(b->enabled & EV_READ) && (b->enabled & EV_WRITE) == (EV_WRITE & b->enabled), "C20: read timeout disables reading");
	VP_ASSERT(!vp_ev_io_pending(&b->ev_read) && !vp_ev_timer_pending(&b->ev_read), "C20: read event still pending after the read timeout");
	VP_WITNESS("read timeout reported");
#elif C20_OP == OP_WRITE_TIMEOUT
	if (!vp_ev_timer_pending(&b->ev_write)) { VP_WITNESS("write timer not pending"); return; }
	bufferevent_writecb(FD, EV_TIMEOUT, b);
	VP_ASSERT(vp_sink_wr_calls == 0, "C20: write attempted on a pure timeout");
	VP_ASSERT(u_events[B] == 1 && u_last_what[B] == (BEV_EVENT_TIMEOUT | BEV_EVENT_WRITING), "C20: write timeout must be reported as TIMEOUT|WRITING exactly once");
	VP_ASSERT(!(b->enabled & EV_WRITE), "C20: write timeout disables writing");
	VP_ASSERT(!vp_ev_io_pending(&b->ev_write) && !vp_ev_timer_pending(&b->ev_write), "C20: write event still pending after the write timeout");
	VP_WITNESS("write timeout reported");
#endif
	c20_check_inv(B, 1);
	(void)adds_r; (void)adds_w;
	VP_WITNESS("step done");
}
