/* C46: evutil_weakrand_range_ / evutil_weakrand_ (evutil.c) */
#include "vp.h"
#include "log_stub.h"
#include "locks.h"
#include "alloc.h"
#include "evutil.c"

#ifndef VP_K
#define VP_K 1
#endif
#ifndef VP_TOPMIN
#define VP_TOPMIN 1
#endif
#ifndef VP_TOPMAX
#define VP_TOPMAX 65536
#endif

/* One LCG step, restated from the documentation (modulus 2^31, multiplier 1103515245, addend 12345) */
static uint32_t ref_lcg(uint32_t s) { return (s * 1103515245u + 12345u) & 0x7fffffffu; }

/* (a) range, inductive over draws: from EVERY 32-bit state and every top >= 1, if the
 * first draw is accepted the result is in [0, top) and the state is the 31-bit LCG
 * successor; if it is rejected the loop continues from that successor state, which is
 * again a state covered by this obligation (unwind 1 iteration, paths that need a further
 * draw are cut: no unwinding assertion, justified by this induction). */
void harness_range(void)
{
	struct evutil_weakrand_state st;
	ev_int32_t top = (ev_int32_t)vp_u32(), r;
	uint32_t seed = vp_u32();
	__CPROVER_assume(top >= 1);
	st.seed = seed;
	r = evutil_weakrand_range_(&st, top);
	VP_ASSERT(r >= 0 && r < top, "C46: evutil_weakrand_range_ result outside [0, top)");
	VP_ASSERT(st.seed <= 0x7fffffffu, "C46: generator state left the 31-bit range");
	VP_WITNESS("accepted draw");
#ifdef VP_MULTI_DRAW
	if (st.seed != ((seed * 1103515245u + 12345u) & 0x7fffffffu)) VP_WITNESS("returned after more than one draw");
#endif
}

/* (b) bounded time: for every 32-bit state and every top in [1, VP_TOPMAX] the rejection
 * loop exits within VP_K draws (decided by the unwinding assertion of the real loop). */
void harness_bounded(void)
{
	struct evutil_weakrand_state st;
	ev_int32_t top = (ev_int32_t)vp_range(VP_TOPMIN, VP_TOPMAX), r;
	st.seed = vp_u32();
	r = evutil_weakrand_range_(&st, top);
	VP_ASSERT(r >= 0 && r < top, "C46: evutil_weakrand_range_ result outside [0, top)");
	VP_WITNESS("returned");
}

/* (c) evutil_weakrand_: always within [0, EVUTIL_WEAKRAND_MAX] */
void harness_weakrand(void)
{
	struct evutil_weakrand_state st;
	ev_int32_t r;
	uint32_t s0 = vp_u32();
	st.seed = s0;
	r = evutil_weakrand_(&st);
	VP_ASSERT(r >= 0 && r <= EVUTIL_WEAKRAND_MAX, "C46: evutil_weakrand_ outside [0, MAX]");
	VP_ASSERT((uint32_t)r == st.seed, "C46: evutil_weakrand_ returns something else than its new state");
	VP_WITNESS("drawn");
}
