/* C45 -- prepare/check watchers (watch.c + event_base_loop in event.c).
 *
 * A constructed base (env/evbase.h), NP0 prepare + NC0 check watchers registered up
 * front through the real evwatch_*_new, one timer event; NLOOPS calls of the real
 * event_base_loop().  Every harness callback (watcher or event) takes a solver-chosen
 * action from the set enabled by the -D knobs:
 *     0 nothing, 1 free itself (watchers only), 2 free another live watcher (solver picks),
 *     3 register a new watcher (type solver-chosen)
 * A monitor (struct wrec + the stage machine below) states the property:
 *   - a watcher callback never runs for a freed watcher, never twice in an iteration
 *   - prepare callbacks run before the backend wait of their iteration and after the
 *     previous iteration's callbacks; the timeout they report is the one dispatch gets
 *   - check callbacks run after the wait and before any event callback of the iteration
 *   - every watcher that is registered when its phase starts and is not freed
 *     runs exactly once in that phase (none skipped)
 * Memory safety of the loop itself (reading a freed watcher) is decided by cbmc's
 * pointer checks on the real code and by ASan in the native replay.
 *
 * Knobs: C45_ACT_SELF, C45_ACT_OTHER, C45_ACT_ADD  enable actions 1,2,3 in watcher callbacks
 *        C45_EVCB_ACTS   the timer event's callback may free/add watchers too
 *        C45_NP0, C45_NC0 initial watchers; C45_NLOOPS loop calls; C45_FLAGS=f0,f1 their flags;
 *        C45_POLL_READY a non-blocking poll reports the fd readable
 */
#include "vp.h"
#include "log_stub.h"
#include "locks.h"
#define VP_HAVE_EVENT_C
#include "alloc.h"
#include "event.c"
#include "watch.c"
#include "evbase.h"

#ifndef C45_NP0
#define C45_NP0 2
#endif
#ifndef C45_NC0
#define C45_NC0 2
#endif
#ifndef C45_NLOOPS
#define C45_NLOOPS 2
#endif
#define C45_NADD 2          /* spare slots: one prepare, one check watcher may be registered from callbacks */
#define NREC (C45_NP0 + C45_NC0 + C45_NADD)

struct wrec {
	struct evwatch *w;
	int used;         /* slot holds a watcher handle */
	int type;
	int alive;        /* registered and not freed */
	int due;          /* registered when the current phase of its type started */
	int runs;         /* callback invocations in the current iteration */
};
static struct wrec rec[NREC];
/* loop flags per call and whether a non-blocking poll finds the fd readable are concrete
 * per obligation (enumerated by props/C45.py): a solver-chosen 'is the event active'
 * makes every later flag test in the event core symbolic (DESIGN 3.9) */
#ifndef C45_FLAGS
#define C45_FLAGS EVLOOP_ONCE, EVLOOP_ONCE
#endif
#ifndef C45_POLL_READY
#define C45_POLL_READY 0
#endif
static const int c45_flags[] = { C45_FLAGS };
static int n_actions, ready_reported;
#ifndef C45_MAXACT
#define C45_MAXACT 2
#endif
static int nrec, nadded; /* nrec: initial watchers only */
static struct event_base *base;

/* stage of the current loop iteration as observable from outside the library */
enum { ST_PREPARE = 0, ST_CHECK = 1, ST_CALLBACKS = 2, ST_IDLE = 3 };
static int stage = ST_IDLE;
static int prep_seen, prep_tv_null; static struct timeval prep_tv;
static int n_prepare_runs, n_check_runs, n_event_runs, n_freed_in_cb;

static void prepare_cb(struct evwatch *w, const struct evwatch_prepare_cb_info *info, void *arg);
static void check_cb(struct evwatch *w, const struct evwatch_check_cb_info *info, void *arg);

static void end_prepare_phase(void)
{
	int i;
	for (i = 0; i < NREC; i++)
		if (rec[i].used && rec[i].type == EVWATCH_PREPARE && rec[i].alive) {
			if (rec[i].due)
				VP_ASSERT(rec[i].runs == 1, "C45: a registered prepare watcher was skipped before the wait");
			else
				VP_ASSERT(rec[i].runs <= 1, "C45: prepare watcher ran more than once in an iteration");
		}
}
static void end_check_phase(void)
{
	int i;
	for (i = 0; i < NREC; i++)
		if (rec[i].used && rec[i].type == EVWATCH_CHECK && rec[i].alive) {
			if (rec[i].due)
				VP_ASSERT(rec[i].runs == 1, "C45: a registered check watcher was skipped after the wait");
			else
				VP_ASSERT(rec[i].runs <= 1, "C45: check watcher ran more than once in an iteration");
		}
}
/* a new iteration becomes visible (first prepare callback, or the wait itself) */
static void begin_iteration(void)
{
	int i;
	if (stage == ST_CHECK) end_check_phase();
	stage = ST_PREPARE;
	prep_seen = 0;
	for (i = 0; i < NREC; i++) {
		rec[i].runs = 0;
		rec[i].due = (rec[i].used && rec[i].alive && rec[i].type == EVWATCH_PREPARE);
	}
}
#define C45_FD 5
static void hook_dispatch(struct event_base *b, struct timeval *tv)
{
	int i;
	if (stage != ST_PREPARE) begin_iteration();
	end_prepare_phase();
	if (prep_seen) {
		VP_ASSERT(prep_tv_null == (tv == NULL), "C45: prepare watcher saw a timeout but the wait is unbounded (or vice versa)");
		if (tv)
			VP_ASSERT(prep_tv.tv_sec == tv->tv_sec && prep_tv.tv_usec == tv->tv_usec,
			    "C45: timeout reported to the prepare watcher differs from the one used for the wait");
	}
	stage = ST_CHECK;
	for (i = 0; i < NREC; i++)
		rec[i].due = (rec[i].used && rec[i].alive && rec[i].type == EVWATCH_CHECK);
	/* the wait lasts as long as it was allowed to */
	if (tv) {
		vp_now.tv_sec += tv->tv_sec; vp_now.tv_usec += tv->tv_usec;
		if (vp_now.tv_usec >= 1000000) { vp_now.tv_usec -= 1000000; vp_now.tv_sec++; }
	}
#ifndef C45_TIMER
	/* I/O mode: an unbounded wait ends because the fd became readable; a poll may or
	 * may not find it readable (what a real back end does: evmap_io_active_) */
	if (tv == NULL || (C45_POLL_READY && !ready_reported)) {
		ready_reported = 1;   /* readable once per loop call: the callback "drains" it */
		evmap_io_active_(b, C45_FD, EV_READ);
	}
#endif
}

/* ---- actions ------------------------------------------------------------ */
static void act_free(int i)
{
	rec[i].alive = 0;
	evwatch_free(rec[i].w);
	n_freed_in_cb++;
}
/* All indices below are compile-time constants after unrolling: a solver-chosen index
 * used directly (rec[j].w with symbolic j) makes evwatch_free write through a symbolic
 * pointer and symex no longer folds anything in the base (measured: no result). */
static void act_add(void)
{
	/* one spare slot per watcher type (so a slot's type is a constant) */
	int k = C45_NP0 + C45_NC0 + (vp_bool() ? 1 : 0);
	if (k == C45_NP0 + C45_NC0) {
		if (rec[C45_NP0 + C45_NC0].used) return;
		rec[C45_NP0 + C45_NC0].w = evwatch_prepare_new(base, prepare_cb, &rec[C45_NP0 + C45_NC0]);
		__CPROVER_assume(rec[C45_NP0 + C45_NC0].w != NULL);
		rec[C45_NP0 + C45_NC0].used = rec[C45_NP0 + C45_NC0].alive = 1;
	} else {
		if (rec[C45_NP0 + C45_NC0 + 1].used) return;
		rec[C45_NP0 + C45_NC0 + 1].w = evwatch_check_new(base, check_cb, &rec[C45_NP0 + C45_NC0 + 1]);
		__CPROVER_assume(rec[C45_NP0 + C45_NC0 + 1].w != NULL);
		rec[C45_NP0 + C45_NC0 + 1].used = rec[C45_NP0 + C45_NC0 + 1].alive = 1;
	}
	nadded++;
}
static void act_free_other(int self)
{
	int j, c = (int)vp_range(0, NREC - 1);
	for (j = 0; j < NREC; j++)
		if (j == c && j != self && rec[j].alive) act_free(j);
}
static void do_action(int self, int allow_self, int allow_other, int allow_add)
{
	int a;
	/* action budget: at most C45_MAXACT callbacks of a run draw a (solver-chosen) action;
	 * which ones is the solver's choice too */
	if (!(allow_self || allow_other || allow_add)) return;
	if (n_actions >= C45_MAXACT || !vp_bool()) return;
	n_actions++;
	a = (int)vp_range(1, 3);
	if (a == 1 && allow_self && self >= 0) act_free(self);   /* self is a constant at every call site */
	else if (a == 2 && allow_other) act_free_other(self);
	else if (a == 3 && allow_add) act_add();
}
#ifndef C45_EV_OTHER
#define C45_EV_OTHER 1
#endif
#ifndef C45_EV_ADD
#define C45_EV_ADD 1
#endif
#ifdef C45_ACT_SELF
#define W_SELF 1
#else
#define W_SELF 0
#endif
#ifdef C45_ACT_OTHER
#define W_OTHER 1
#else
#define W_OTHER 0
#endif
#ifdef C45_ACT_ADD
#define W_ADD 1
#else
#define W_ADD 0
#endif

/* ---- callbacks ---------------------------------------------------------- */
/* The callbacks never write through `arg`/`w`: on paths symex cannot prune (a watcher
 * pointer loaded from a list cell that is NULL/invalid under the path guard) those are
 * garbage pointers whose value set is "every object", and one write through them turns
 * the whole event_base symbolic (measured: no result).  The slot is found by comparing
 * `arg` with the concrete slot addresses. */
static void prepare_cb(struct evwatch *w, const struct evwatch_prepare_cb_info *info, void *arg)
{
	int j, found = 0;
	struct timeval t; int has;
	if (stage != ST_PREPARE) begin_iteration();
	for (j = 0; j < NREC; j++) if (arg == (void *)&rec[j]) {
		found = 1;
		VP_ASSERT(rec[j].alive, "C45: prepare watcher ran after it was freed");
		VP_ASSERT(rec[j].w == w && rec[j].type == EVWATCH_PREPARE, "C45: prepare callback got the wrong watcher handle");
		VP_ASSERT(rec[j].runs == 0, "C45: prepare watcher ran twice in one iteration");
		rec[j].runs++;
	}
	VP_ASSERT(found, "C45: prepare callback got an argument that was never registered");
	VP_ASSERT(evwatch_base(w) == base, "C45: evwatch_base");
	n_prepare_runs++;
	has = evwatch_prepare_get_timeout(info, &t);
	if (prep_seen) {
		VP_ASSERT(prep_tv_null == !has, "C45: prepare watchers of one iteration disagree on the timeout");
		if (has) VP_ASSERT(prep_tv.tv_sec == t.tv_sec && prep_tv.tv_usec == t.tv_usec, "C45: prepare watchers of one iteration disagree on the timeout");
	}
	prep_seen = 1; prep_tv_null = !has; if (has) prep_tv = t;
	for (j = 0; j < NREC; j++) if (arg == (void *)&rec[j]) do_action(j, W_SELF, W_OTHER, W_ADD);
}
static void check_cb(struct evwatch *w, const struct evwatch_check_cb_info *info, void *arg)
{
	int j, found = 0;
	(void)info;
	VP_ASSERT(stage == ST_CHECK, "C45: check watcher ran outside the window between the wait and the callbacks");
	for (j = 0; j < NREC; j++) if (arg == (void *)&rec[j]) {
		found = 1;
		VP_ASSERT(rec[j].alive, "C45: check watcher ran after it was freed");
		VP_ASSERT(rec[j].w == w && rec[j].type == EVWATCH_CHECK, "C45: check callback got the wrong watcher handle");
		VP_ASSERT(rec[j].runs == 0, "C45: check watcher ran twice in one iteration");
		rec[j].runs++;
	}
	VP_ASSERT(found, "C45: check callback got an argument that was never registered");
	n_check_runs++;
	for (j = 0; j < NREC; j++) if (arg == (void *)&rec[j]) do_action(j, W_SELF, W_OTHER, W_ADD);
}
static void timer_cb(evutil_socket_t fd, short what, void *arg)
{
	(void)fd; (void)what; (void)arg;
	VP_ASSERT(stage == ST_CHECK || stage == ST_CALLBACKS, "C45: event callback ran before the wait of its iteration");
	if (stage == ST_CHECK) end_check_phase();
	stage = ST_CALLBACKS;
	n_event_runs++;
#ifdef C45_EVCB_ACTS
	do_action(-1, 0, C45_EV_OTHER, C45_EV_ADD);
#endif
}

void harness_watchers(void)
{
	struct event ev;
	struct timeval tv;
	int i, l, flags, r;

	base = vp_base_new(1, 1);
	vp_dispatch_hook = hook_dispatch;
	/* unused slots point at a well-formed dummy (never registered, never freed: every use
	 * is guarded by .alive) instead of NULL, so that after a state merge a slot pointer is
	 * ite(added, real, dummy) and symex does not dereference an invalid object */
	for (i = 0; i < 2; i++) {
		struct evwatch *d = malloc(sizeof(*d));
		__CPROVER_assume(d != NULL);
		d->base = base; d->type = (i == 0) ? EVWATCH_PREPARE : EVWATCH_CHECK;
		d->next.tqe_next = NULL; d->next.tqe_prev = &d->next.tqe_next;
		d->callback.prepare = NULL; d->arg = NULL;
		rec[C45_NP0 + C45_NC0 + i].w = d; rec[C45_NP0 + C45_NC0 + i].type = d->type;
	}
	for (i = 0; i < C45_NP0; i++) {
		rec[nrec].w = evwatch_prepare_new(base, prepare_cb, &rec[nrec]);
		__CPROVER_assume(rec[nrec].w != NULL);
		rec[nrec].type = EVWATCH_PREPARE; rec[nrec].used = rec[nrec].alive = 1; nrec++;
	}
	for (i = 0; i < C45_NC0; i++) {
		rec[nrec].w = evwatch_check_new(base, check_cb, &rec[nrec]);
		__CPROVER_assume(rec[nrec].w != NULL);
		rec[nrec].type = EVWATCH_CHECK; rec[nrec].used = rec[nrec].alive = 1; nrec++;
	}
#ifdef C45_TIMER
	/* timer mode: a one-shot 1 s timer, re-added before every loop call; EVLOOP_ONCE waits
	 * for it (hook_dispatch advances the clock by the wait).  Concrete durations on purpose
	 * (symbolic ones make heap indices symbolic: minutes); no actions in this mode. */
	event_assign(&ev, base, -1, 0, timer_cb, NULL);
	tv.tv_sec = 1; tv.tv_usec = 250000;
#else
	/* I/O mode (no timer heap involved, so solver-chosen actions stay tractable): a
	 * persistent read event keeps the loop non-empty */
	event_assign(&ev, base, C45_FD, EV_READ | EV_PERSIST, timer_cb, NULL);
	r = event_add(&ev, NULL);
	VP_ASSERT(r == 0, "C45: harness: event_add");
#endif
	for (l = 0; l < C45_NLOOPS; l++) {
		int d0 = vp_be_dispatch_calls;
		flags = c45_flags[l];
		stage = ST_IDLE; ready_reported = 0;
#ifdef C45_TIMER
		r = event_add(&ev, &tv);
		VP_ASSERT(r == 0, "C45: harness: event_add");
#endif
		r = event_base_loop(base, flags);
		VP_ASSERT(r == 0, "C45: harness: loop returns 0 while an event is pending");
		VP_ASSERT(vp_be_dispatch_calls > d0, "C45: harness: at least one iteration per loop call");
		if (stage == ST_CHECK) end_check_phase();
		VP_ASSERT_NO_LOCKS("event_base_loop");
#ifdef C45_TIMER
		VP_ASSERT(prep_seen && !prep_tv_null && prep_tv.tv_sec == 1 && prep_tv.tv_usec == 250000,
		    "C45: prepare watcher must be told the time until the next timer (1.25 s)");
		VP_ASSERT(n_event_runs == l + 1, "C45: harness: timer ran");
#endif
	}
	if (n_prepare_runs >= 2 && n_check_runs >= 2 && n_event_runs >= 1) VP_WITNESS("watchers and the timer callback ran");
#if defined(C45_ACT_SELF) || defined(C45_ACT_OTHER)
	if (n_freed_in_cb >= 2) VP_WITNESS("two watchers freed from inside callbacks");
#endif
#ifdef C45_ACT_ADD
	if (nadded >= 1 && (rec[C45_NP0 + C45_NC0].runs == 1 || rec[C45_NP0 + C45_NC0 + 1].runs == 1)) VP_WITNESS("a watcher registered from a callback ran");
#endif
#ifdef C45_FREE_BASE
	/* event_base_free releases the remaining watchers (documented) */
	event_del(&ev);
	event_base_free(base);
#endif
	VP_WITNESS("end");
}
