/* C10 -- finalizers run exactly once after the last callback, nothing runs after the releasing call,
 * once-callbacks run once or never, and nothing stays allocated after event_base_free +
 * libevent_global_shutdown.  Real event.c/evmap.c on a constructed base (with a lock).
 *
 * Shape of a run (all -D, enumerated by props/C10.py; "concrete prefix" in the sense of DESIGN 3.4):
 *     A = event_new(kind C10_KIND: 0 one-shot read on fd 4, 1 persistent read, 2 pure timer, 3 one-shot signal event,
 *                   4 persistent signal event; signal events are activated with ncalls = C10_NCALLS: the closure calls the
 *                   callback ncalls times unless the event is deleted/released in between)
 *     B = event_new(persistent read on fd 3), added
 *     C10_OP1; C10_OP2; C10_OP3            from the alphabet below, applied to A (or the base)
 *     when A's callback runs it performs C10_CBACT once (free itself, finalize itself, free B, ...)
 *     epilogue C10_EPI: 0 = two loop passes (clock + 2 s in between) so that pending callbacks and
 *                           finalizers run, then the user releases what it still owns, then
 *                           event_base_free, libevent_global_shutdown
 *                       1 = no loop pass: release what may be released, event_base_free at once
 * What the solver still chooses inside a shape: the activation result flags (one unmerged history per value).  -DC10_FIN_FREES: the finalizer of
 * event_finalize() is where the user releases the event's memory.
 * Monitors (per event, indexed by a tag that is the callback argument -- never the event memory):
 *     released   set by the call that releases the event (event_free, event_free_finalize,
 *                event_finalize) -- from then on no callback of that event may start
 *     deleted    set by event_del, cleared by a later event_add/event_active
 *     ncb, nfin  callback / finalizer invocations
 * cbmc: --pointer-check (dereference of a deallocated object = use after release, double free via the
 * free() precondition) and --memory-leak-check (some allocation not released at the end of the harness).
 */
#include "event_struct_nounion.h"
#include "vp.h"
#include "log_stub.h"
#include "locks.h"
#define VP_HAVE_EVENT_C
#include "alloc.h"
#include "event.c"
#include "evmap.c"
#include "evbase.h"

#define O_NOP 0
#define O_ADD 1            /* event_add(A, 1 s) */
#define O_ACTIVE 2         /* event_active(A, res, ncalls) */
#define O_DEL 3            /* event_del(A) */
#define O_FINALIZE 4       /* event_finalize(0, A, fin) */
#define O_FREE_FINALIZE 5  /* event_free_finalize(0, A, fin) */
#define O_FREE 6           /* event_free(A) */
#define O_LOOP 7           /* one loop pass, clock unchanged */
#define O_LOOP_2S 8        /* clock + 2 s, one loop pass */
#define O_ONCE_NOW 9       /* event_base_once(EV_TIMEOUT, NULL): runs in the next pass */
#define O_ONCE_1S 10       /* event_base_once(EV_TIMEOUT, 1 s) */
#define O_ONCE_FD 11       /* event_base_once(fd 6, EV_READ): never becomes ready here */
#define O_BASE_FREE 12     /* event_base_free(base): only as the last operation */
#define O_ACTIVE_B 13      /* event_active(B, EV_READ, 1) */
#define O_PRIO_INIT_OOM 14 /* event_base_priority_init(base, 3) with the allocation failing */
#define O_ADD_NULL 15      /* event_add(A, NULL) */

#define CB_NONE 0
#define CB_FREE_SELF 1
#define CB_FREE_FINALIZE_SELF 2
#define CB_FINALIZE_SELF 3
#define CB_DEL_SELF 4
#define CB_FREE_B 5
#define CB_REACTIVATE 6
#define CB_FREE_FINALIZE_B 7

#ifndef C10_KIND
#define C10_KIND 0
#endif
#ifndef C10_OP1
#define C10_OP1 O_ADD
#endif
#ifndef C10_OP2
#define C10_OP2 O_NOP
#endif
#ifndef C10_OP3
#define C10_OP3 O_NOP
#endif
#ifndef C10_CBACT
#define C10_CBACT CB_NONE
#endif
#ifndef C10_EPI
#define C10_EPI 0
#endif
#ifndef C10_FIN_FREES
#define C10_FIN_FREES 0
#endif
#ifndef C10_NCALLS      /* ncalls of event_active(A): a signal event's callback is invoked that many times in a row */
#define C10_NCALLS 1
#endif

struct mon { int exists, mem_released, released, deleted, ncb, nfin, fin_requested, fin_frees_mem, lib_owns_mem; };
static struct mon mA, mB;
static int tagA, tagB, tagOnce[3];
static struct event_base *base;
static int base_freed;
static struct event *A, *B;
static int nonce, nonce_i[3], once_requested, once_due;
static int cbact_done;
static int alloc_fail_next;
static int g_res;             /* result flags of event_active(A): solver-picked, one unmerged history per value (a symbolic
                               * EV_TIMEOUT bit decides in event_add_nolock_ whether A leaves the active queue: symbolic heap) */

/* typed allocation, see C08_event_api.c */
void *c10_malloc(size_t sz)
{
	void *p;
	if (alloc_fail_next) { alloc_fail_next = 0; return NULL; }
	if (sz == sizeof(struct event)) p = malloc(sizeof(struct event));
	else if (sz == sizeof(struct event_once)) p = malloc(sizeof(struct event_once));
	else if (sz == sizeof(struct evmap_io)) p = malloc(sizeof(struct evmap_io));
	else if (sz == sizeof(struct evmap_signal)) p = malloc(sizeof(struct evmap_signal));
	else p = malloc(sz);
	__CPROVER_assume(p != NULL);
	return p;
}
void *c10_realloc(void *old, size_t sz) { void *p = realloc(old, sz); __CPROVER_assume(p != NULL); return p; }
void c10_free(void *p) { free(p); }

void fin(struct event *ev, void *arg);

/* the user-visible operations, with their effect on the monitors */
static void u_free(struct event **pev, struct mon *m) { m->released = 1; m->mem_released = 1; event_free(*pev); }
static void u_free_finalize(struct event **pev, struct mon *m)
{
	int r;
	m->released = 1;
	r = event_free_finalize(0, *pev, fin);
	VP_ASSERT(r == 0, "event_free_finalize accepted");
	m->fin_requested = 1; m->lib_owns_mem = 1;
}
static void u_finalize(struct event **pev, struct mon *m)
{
	int r;
	m->released = 1;
	m->fin_frees_mem = C10_FIN_FREES;  /* the finalizer may be where the user releases the event's memory */
	r = event_finalize(0, *pev, fin);
	VP_ASSERT(r == 0, "event_finalize accepted");
	m->fin_requested = 1;
}

void cb(evutil_socket_t fd, short res, void *arg)
{
	(void)fd; (void)res;
	VP_ASSERT(vp_locks_held() == 0, "callback entered with an internal lock held");
	VP_ASSERT(!base_freed, "C10: a callback ran after event_base_free");
	if (arg == &tagA) {
		VP_ASSERT(!mA.released, "C10: callback of an event ran after the call that released it");
		VP_ASSERT(!mA.deleted, "C10: callback of an event ran after event_del returned");
		VP_ASSERT(mA.nfin == 0, "C10: callback ran after the finalizer");
		mA.ncb++;
		if (!cbact_done) {
			cbact_done = 1;
#if C10_CBACT == CB_FREE_SELF
			u_free(&A, &mA);
#elif C10_CBACT == CB_FREE_FINALIZE_SELF
			u_free_finalize(&A, &mA);
#elif C10_CBACT == CB_FINALIZE_SELF
			u_finalize(&A, &mA);
#elif C10_CBACT == CB_DEL_SELF
			mA.deleted = 1; (void)event_del(A);
#elif C10_CBACT == CB_FREE_B
			if (!mB.released) u_free(&B, &mB);
#elif C10_CBACT == CB_FREE_FINALIZE_B
			if (!mB.released) u_free_finalize(&B, &mB);
#elif C10_CBACT == CB_REACTIVATE
			event_active(A, EV_WRITE, 1);
#endif
		}
	} else if (arg == &tagB) {
		VP_ASSERT(!mB.released, "C10: callback of an event ran after the call that released it (B)");
		VP_ASSERT(mB.nfin == 0, "C10: callback ran after the finalizer (B)");
		mB.ncb++;
	} else {
		int i, known = 0;
		for (i = 0; i < 3; i++) if (arg == &tagOnce[i]) { known = 1; nonce_i[i]++; VP_ASSERT(nonce_i[i] == 1, "C10: an event_base_once callback ran twice"); }
		VP_ASSERT(known, "harness: known callback argument");
		nonce++;
	}
}
void fin(struct event *ev, void *arg)
{
	VP_ASSERT(vp_locks_held() == 0, "finalizer entered with an internal lock held");
	if (arg == &tagA) {
		VP_ASSERT(ev == A, "finalizer gets its event");
		mA.nfin++;
		VP_ASSERT(mA.nfin == 1, "C10: finalizer ran twice");
		VP_ASSERT(mA.fin_requested, "C10: finalizer ran although none was requested");
		if (mA.fin_frees_mem && !mA.lib_owns_mem) { mA.mem_released = 1; c10_free(A); }   /* "treat the structure as uninitialized memory" */
	} else {
		VP_ASSERT(arg == &tagB && ev == B, "finalizer gets its event (B)");
		mB.nfin++;
		VP_ASSERT(mB.nfin == 1, "C10: finalizer ran twice (B)");
		VP_ASSERT(mB.fin_requested, "C10: finalizer ran although none was requested (B)");
	}
}

static int c10_dispatch(struct event_base *b, struct timeval *tv)
{
	(void)tv;
	EVBASE_RELEASE_LOCK(b, th_base_lock);
	EVBASE_ACQUIRE_LOCK(b, th_base_lock);
	return 0;
}
static const struct eventop c10_ops = { "c10", vp_be_init, vp_be_add, vp_be_del, c10_dispatch, vp_be_dealloc, 0, EV_FEATURE_FDS, 0 };

static const struct timeval tv_1 = { 1, 0 };
/* may the user still pass A to the library?  not after it freed it, handed it to event_free_finalize, or its finalizer ran */
static int a_usable(void) { return !mA.mem_released && !mA.lib_owns_mem && !(mA.fin_requested && mA.nfin); }
static void loop_pass(void) { int r = event_base_loop(base, EVLOOP_NONBLOCK); (void)r; VP_ASSERT_NO_LOCKS("event_base_loop"); }

static void do_op(int op)
{
	int r;
	if (base_freed) return;
	switch (op) {
	case O_NOP: break;
	case O_ADD: if (!mA.released) { r = event_add(A, &tv_1); if (r == 0) mA.deleted = 0; } break;
	case O_ADD_NULL: if (!mA.released) { r = event_add(A, NULL); if (r == 0) mA.deleted = 0; } break;
	case O_ACTIVE: if (a_usable()) { if (!mA.released) mA.deleted = 0; event_active(A, (C10_KIND >= 3) ? EV_SIGNAL : g_res, C10_NCALLS); } break;
	case O_DEL: if (a_usable()) { r = event_del(A); mA.deleted = 1; } break;
	case O_FINALIZE: if (!mA.released) u_finalize(&A, &mA); break;
	case O_FREE_FINALIZE: if (!mA.released) u_free_finalize(&A, &mA); break;
	case O_FREE: if (!mA.released) u_free(&A, &mA); break;
	case O_LOOP: loop_pass(); break;
	case O_LOOP_2S: vp_now.tv_sec += 2; loop_pass(); break;
	case O_ONCE_NOW: r = event_base_once(base, -1, EV_TIMEOUT, cb, &tagOnce[once_requested], NULL); VP_ASSERT(r == 0, "once accepted"); once_requested++; once_due++; break;
	case O_ONCE_1S: r = event_base_once(base, -1, EV_TIMEOUT, cb, &tagOnce[once_requested], &tv_1); VP_ASSERT(r == 0, "once accepted"); once_requested++; once_due++; break;
	case O_ONCE_FD: r = event_base_once(base, 6, EV_READ, cb, &tagOnce[once_requested], NULL); VP_ASSERT(r == 0, "once accepted"); once_requested++; break;
	case O_ACTIVE_B: if (!mB.released) event_active(B, EV_READ, 1); break;
	case O_PRIO_INIT_OOM: alloc_fail_next = 1; r = event_base_priority_init(base, 3); alloc_fail_next = 0; VP_ASSERT(r == -1, "priority_init reports the failed allocation"); break;
	case O_BASE_FREE:
		/* (the user may not touch its events after the base is gone: release them first, as the epilogue does) */
		break;
	}
}

static void release_user_objects(void)
{
	/* what a correct user does before the base goes away: free the events it still owns.  An event with a
	 * requested-but-not-yet-run finalizer is not the user's to free. */
	if (!mA.released) u_free(&A, &mA);
	else if (mA.fin_requested && mA.nfin == 1 && !mA.lib_owns_mem && !mA.mem_released) { mA.mem_released = 1; event_free(A); }
	if (!mB.released) u_free(&B, &mB);
}

static void history(void);
void harness_lifetime(void)
{
	int r;
	base = vp_base_new_ops(2, 1, &c10_ops);
	event_set_mem_functions(c10_malloc, c10_realloc, c10_free);
#if C10_KIND == 0
	A = event_new(base, 4, EV_READ, cb, &tagA);
#elif C10_KIND == 1
	A = event_new(base, 4, EV_READ | EV_PERSIST, cb, &tagA);
#elif C10_KIND == 2
	A = event_new(base, -1, 0, cb, &tagA);
#elif C10_KIND == 3
	A = event_new(base, 2, EV_SIGNAL, cb, &tagA);                  /* one-shot signal event (not evsignal_new) */
#else
	A = event_new(base, 2, EV_SIGNAL | EV_PERSIST, cb, &tagA);
#endif
	B = event_new(base, 3, EV_READ | EV_PERSIST, cb, &tagB);
	__CPROVER_assume(A != NULL && B != NULL);
	mA.exists = mB.exists = 1;
	r = event_add(B, NULL); __CPROVER_assume(r == 0);

	{ int c_ = (int)vp_range(0, 2);
	  if (c_ == 0) { g_res = EV_READ; history(); } else if (c_ == 1) { g_res = EV_TIMEOUT; history(); } else { g_res = EV_READ | EV_WRITE; history(); } }
	VP_WITNESS("end of harness (cbmc's memory-leak check applies here)");
}

static void history(void)
{
	int r;
	do_op(C10_OP1);
	do_op(C10_OP2);
	do_op(C10_OP3);

#if C10_EPI == 0
	loop_pass();
	vp_now.tv_sec += 2;
	loop_pass();
	/* everything that could run has run */
	VP_ASSERT(nonce == once_due, "C10: a due event_base_once callback did not run exactly once");
	if (mA.fin_requested) VP_ASSERT(mA.nfin == 1, "C10: a requested finalizer did not run exactly once in the loop");
	if (mB.fin_requested) VP_ASSERT(mB.nfin == 1, "C10: a requested finalizer did not run exactly once in the loop (B)");
#endif
	release_user_objects();
	{
		int nonce_before = nonce;
		event_base_free(base);
		base_freed = 1;
		VP_ASSERT(nonce == nonce_before, "C10: event_base_free ran an event_base_once callback");
	}
	/* finalizers requested but not yet run were run by event_base_free -- exactly once */
	if (mA.fin_requested) VP_ASSERT(mA.nfin == 1, "C10: a requested finalizer did not run exactly once");
	else VP_ASSERT(mA.nfin == 0, "C10: finalizer ran although none was requested");
	if (mB.fin_requested) VP_ASSERT(mB.nfin == 1, "C10: a requested finalizer did not run exactly once (B)");
	else VP_ASSERT(mB.nfin == 0, "C10: finalizer ran although none was requested (B)");
	VP_ASSERT(nonce <= once_requested, "C10: more once-callbacks than requests");
	/* memory the user still owns: an event_finalize()d event whose finalizer ran inside event_base_free and did not
	 * release it (event_free is no longer possible: it would touch the freed base) */
	if (mA.fin_requested && !mA.lib_owns_mem && !mA.mem_released) { mA.mem_released = 1; c10_free(A); }
	libevent_global_shutdown();
	VP_ASSERT_NO_LOCKS("teardown");
	(void)r;
}
